import EoNVerif.Model.EventSIS
import Mathlib.Tactic.Linarith
import Mathlib.Algebra.Order.Field.Rat
import Mathlib.Data.List.Basic
/-!
Helper lemmas for C13 (`fast_nonMarkov_SIS`), part 1: the priority queue (`pop` / `apop`), the scheduling loop,
an explicit description of one step of the lazy simulator, and the state invariants that give
`log_before_tmax`, `log_alternates`, `recovery_after_dur` and `trans_is_listed_attempt`.
-/
namespace EventSIS

structure WF (P : SSParams) (infs : List Node) : Prop where
  nodup : P.nodes.Nodup
  nbr_nodup : ∀ u ∈ P.nodes, (P.nbrs u).Nodup
  nbr_mem : ∀ u ∈ P.nodes, ∀ v ∈ P.nbrs u, v ∈ P.nodes
  noloop : ∀ u, u ∉ P.nbrs u
  infs_nodup : infs.Nodup
  infs_mem : ∀ u ∈ infs, u ∈ P.nodes
  dur_pos : ∀ u k, 0 < P.dur u k
  delay_pos : ∀ u v k, ∀ d ∈ P.delays u v k, 0 < d
  delay_sorted : ∀ u v k, (P.delays u v k).Pairwise (· < ·)

/-! ### generic priority queue -/

section Generic
variable {α : Type} (tm : α → Rat)

def gminTime : List α → Option Rat
  | [] => none
  | x :: xs => match gminTime xs with
    | none => some (tm x)
    | some m => some (if tm x ≤ m then tm x else m)

def gpop (q : List α) : Option (α × List α) :=
  match gminTime tm q with
  | none => none
  | some m =>
    match q.findIdx? (fun x => tm x == m) with
    | none => none
    | some i => match q[i]? with
      | some x => some (x, q.eraseIdx i)
      | none => none

theorem gminTime_none {q : List α} (h : gminTime tm q = none) : q = [] := by
  cases q with
  | nil => rfl
  | cons x xs => simp only [gminTime] at h; split at h <;> simp at h

theorem gminTime_spec {q : List α} {m : Rat} (h : gminTime tm q = some m) :
    (∃ x ∈ q, tm x = m) ∧ ∀ y ∈ q, m ≤ tm y := by
  induction q generalizing m with
  | nil => simp [gminTime] at h
  | cons x xs ih =>
    simp only [gminTime] at h
    split at h
    · rename_i h0
      have := gminTime_none tm h0
      subst this
      simp at h
      subst h
      simp
    · rename_i m' h0
      obtain ⟨⟨y, hy, hym⟩, hle⟩ := ih h0
      simp at h
      split at h
      · subst h
        refine ⟨⟨x, by simp, rfl⟩, ?_⟩
        intro z hz
        rcases List.mem_cons.1 hz with rfl | hz
        · exact le_refl _
        · exact le_trans ‹_› (hle z hz)
      · subst h
        refine ⟨⟨y, by simp [hy], hym⟩, ?_⟩
        intro z hz
        rcases List.mem_cons.1 hz with rfl | hz
        · linarith
        · exact hle z hz

theorem gpop_none {q : List α} (h : gpop tm q = none) : q = [] := by
  unfold gpop at h
  split at h
  · rename_i h0; exact gminTime_none tm h0
  · rename_i m h0
    obtain ⟨⟨x, hx, hxm⟩, _⟩ := gminTime_spec tm h0
    split at h
    · rename_i h1
      rw [List.findIdx?_eq_none_iff] at h1
      have := h1 x hx
      simp [hxm] at this
    · rename_i i h1
      have := List.findIdx?_eq_some_iff_getElem.1 h1
      obtain ⟨hi, _⟩ := this
      split at h
      · simp at h
      · rename_i h2
        simp at h2
        omega

theorem gpop_some {q : List α} {x : α} {q' : List α} (h : gpop tm q = some (x, q')) :
    ∃ l1 l2, q = l1 ++ x :: l2 ∧ q' = l1 ++ l2 ∧ (∀ y ∈ l1, tm x < tm y) ∧ (∀ y ∈ l2, tm x ≤ tm y) := by
  unfold gpop at h
  split at h
  · simp at h
  · rename_i m h0
    obtain ⟨_, hle⟩ := gminTime_spec tm h0
    split at h
    · simp at h
    · rename_i i h1
      obtain ⟨hi, hxi, hlt⟩ := List.findIdx?_eq_some_iff_getElem.1 h1
      split at h
      · rename_i y h2
        simp at h
        obtain ⟨rfl, rfl⟩ := h
        have hy : q[i] = y := by
          have := List.getElem?_eq_getElem hi
          rw [this] at h2; simpa using h2
        subst hy
        simp at hxi
        refine ⟨q.take i, q.drop (i + 1), ?_, ?_, ?_, ?_⟩
        · simp
        · exact List.eraseIdx_eq_take_drop_succ q i
        · intro z hz
          obtain ⟨j, hj, rfl⟩ := List.mem_iff_getElem.1 hz
          simp at hj
          have h3 := hlt j hj.1
          simp at h3
          have h4 := hle ((q.take i)[j]) (List.mem_of_mem_take (List.getElem_mem _))
          rw [hxi]
          rw [List.getElem_take] at h4 ⊢
          exact lt_of_le_of_ne h4 (fun h => h3 h.symm)
        · intro z hz
          rw [hxi]
          exact hle z (List.mem_of_mem_drop hz)
      · simp at h

/-- popping a list whose first element is minimal -/
theorem gpop_head {x : α} {xs : List α} (h : ∀ y ∈ xs, tm x ≤ tm y) : gpop tm (x :: xs) = some (x, xs) := by
  cases h0 : gpop tm (x :: xs) with
  | none => have := gpop_none tm h0; simp at this
  | some p =>
    obtain ⟨y, q'⟩ := p
    obtain ⟨l1, l2, h1, h2, h3, h4⟩ := gpop_some tm h0
    cases l1 with
    | nil => simp at h1 h2; obtain ⟨rfl, rfl⟩ := h1; subst h2; rfl
    | cons z l1 =>
      simp at h1
      obtain ⟨rfl, rfl⟩ := h1
      have := h3 x (by simp)
      have := h y (by simp)
      linarith

end Generic

theorem minTime_eq (q : List SItem) : minTime q = gminTime SItem.time q := by
  induction q with
  | nil => rfl
  | cons x xs ih => simp only [minTime, gminTime, ih]; cases gminTime SItem.time xs <;> rfl

theorem pop_eq (q : List SItem) : pop q = gpop SItem.time q := by
  unfold pop gpop; rw [minTime_eq]
  cases gminTime SItem.time q with
  | none => rfl
  | some m =>
    simp only
    cases List.findIdx? (fun x => x.time == m) q with
    | none => rfl
    | some i => simp only; cases q[i]? <;> rfl

theorem aminTime_eq (q : List AItem) : aminTime q = gminTime AItem.time q := by
  induction q with
  | nil => rfl
  | cons x xs ih => simp only [aminTime, gminTime, ih]; cases gminTime AItem.time xs <;> rfl

theorem apop_eq (q : List AItem) : apop q = gpop AItem.time q := by
  unfold apop gpop; rw [aminTime_eq]
  cases gminTime AItem.time q with
  | none => rfl
  | some m =>
    simp only
    cases List.findIdx? (fun x => x.time == m) q with
    | none => rfl
    | some i => simp only; cases q[i]? <;> rfl

/-! ### explicit description of one step of the lazy simulator -/

theorem qadd_eq (tmax : Rat) (q : List SItem) (t : Rat) (e : SEv) :
    qadd tmax q t e = q ++ (if t < tmax then [⟨t, e⟩] else []) := by
  unfold qadd; split <;> simp

theorem aadd_eq (tmax : Rat) (q : List AItem) (t : Rat) (e : AEv) :
    aadd tmax q t e = q ++ (if t < tmax then [⟨t, e⟩] else []) := by
  unfold aadd; split <;> simp

/-- the (at most one) queue entry of a chain of attempt times -/
def chainOf (tmax : Rat) (src tgt : Node) : List Rat → List SItem
  | [] => []
  | t0 :: fol => if t0 < tmax then [⟨t0, SEv.trans (some src) tgt fol⟩] else []

/-- the attempt times that survive the filter against the target's current infectious period -/
def liveTimes (inf : Node → Bool) (recTime : Node → Rat) (v : Node) (tt : List Rat) : List Rat :=
  if inf v then tt.filter (fun t => t > recTime v) else tt

theorem mem_chainOf {tmax : Rat} {src tgt : Node} {tt : List Rat} {x : SItem} (h : x ∈ chainOf tmax src tgt tt) :
    ∃ t0 fol, tt = t0 :: fol ∧ t0 < tmax ∧ x = ⟨t0, SEv.trans (some src) tgt fol⟩ := by
  cases tt with
  | nil => simp [chainOf] at h
  | cons t0 fol =>
    simp only [chainOf] at h
    split at h
    · simp at h; exact ⟨t0, fol, rfl, ‹_›, h⟩
    · simp at h

theorem scheduleNbrs_eq (P : SSParams) (s : SSState) (time : Rat) (tgt : Node) (k : Nat) (l : List Node)
    (q : List SItem) :
    scheduleNbrs P s time tgt k l q =
      q ++ l.flatMap (fun v => chainOf P.tmax tgt v
        (liveTimes s.inf s.recTime v ((P.delays tgt v k).map fun d => time + d))) := by
  induction l generalizing q with
  | nil => simp [scheduleNbrs]
  | cons v rest ih =>
    have key : scheduleNbrs P s time tgt k (v :: rest) q = scheduleNbrs P s time tgt k rest
        (q ++ chainOf P.tmax tgt v (liveTimes s.inf s.recTime v ((P.delays tgt v k).map fun d => time + d))) := by
      simp only [scheduleNbrs]
      split
      · rename_i h0
        have : P.delays tgt v k = [] := by simpa using h0
        simp [this, liveTimes, chainOf]
      · unfold liveTimes
        split
        · rename_i h1
          rw [h1]; simp [chainOf]
        · rename_i t0 fol h1
          rw [h1, qadd_eq]; simp only [chainOf]
    rw [key, ih]; simp [List.append_assoc]

/-- the re-queued rest of a chain -/
def reQ (tmax : Rat) (src : Option Node) (tgt : Node) (tt : List Rat) : List SItem :=
  match src with
  | none => []
  | some u => chainOf tmax u tgt tt

/-- the state after infecting `tgt` (before the chain is re-queued) -/
def infectS (P : SSParams) (s : SSState) (time : Rat) (src : Option Node) (tgt : Node) : SSState :=
  let k := s.count tgt
  let recT := time + P.dur tgt k
  { inf := fset s.inf tgt true, recTime := fset s.recTime tgt recT, count := fset s.count tgt (k + 1),
    queue := s.queue ++ (if recT < P.tmax then [⟨recT, SEv.recov tgt⟩] else []) ++
      (P.nbrs tgt).flatMap (fun v => chainOf P.tmax tgt v
        (liveTimes (fset s.inf tgt true) (fset s.recTime tgt recT) v ((P.delays tgt v k).map fun d => time + d))),
    log := (time, tgt, true) :: s.log, trans := (time, src, tgt) :: s.trans }

theorem processTrans_eq (P : SSParams) (s : SSState) (time : Rat) (src : Option Node) (tgt : Node) (fut : List Rat) :
    processTrans P s time src tgt fut =
      let s1 := if s.inf tgt then s else infectS P s time src tgt
      { s1 with queue := s1.queue ++ reQ P.tmax src tgt (fut.filter (fun t => t > s1.recTime tgt)) } := by
  unfold processTrans
  cases hi : s.inf tgt
  · simp only [Bool.not_false, if_true, Bool.false_eq_true, if_false, scheduleNbrs_eq, qadd_eq, infectS]
    cases src with
    | none => simp [reQ]
    | some u =>
      simp only [reQ]
      split
      · rename_i h; rw [h]; simp [chainOf]
      · rename_i t0 fol h; rw [h]; simp only [chainOf]
  · simp only [Bool.not_true, Bool.false_eq_true, if_false, if_true]
    cases src with
    | none => simp [reQ]
    | some u =>
      simp only [reQ]
      split
      · rename_i h; rw [h]; simp [chainOf]
      · rename_i t0 fol h; rw [h, qadd_eq]; simp only [chainOf]

/-- executing a popped event -/
def exec (P : SSParams) (s : SSState) (x : SItem) : SSState :=
  match x.ev with
  | .trans src tgt fut => processTrans P s x.time src tgt fut
  | .recov u => processRec s x.time u

theorem step_some {P : SSParams} {s s' : SSState} (h : step P s = some s') :
    ∃ x l1 l2, s.queue = l1 ++ x :: l2 ∧ (∀ y ∈ l1, x.time < y.time) ∧ (∀ y ∈ l2, x.time ≤ y.time) ∧
      s' = exec P { s with queue := l1 ++ l2 } x := by
  unfold step at h
  split at h
  · simp at h
  · rename_i x q hp
    rw [pop_eq] at hp
    obtain ⟨l1, l2, h1, h2, h3, h4⟩ := gpop_some _ hp
    refine ⟨x, l1, l2, h1, h3, h4, ?_⟩
    subst h2
    unfold exec
    split at h <;> simp_all

theorem step_none {P : SSParams} {s : SSState} (h : step P s = none) : s.queue = [] := by
  unfold step at h
  split at h
  · rename_i hp; rw [pop_eq] at hp; exact gpop_none _ hp
  · split at h <;> simp at h

/-- the new queue entries created by infecting `v` at `t` (`k`-th infection, recovery at `recT`) -/
def newItems (P : SSParams) (s : SSState) (t : Rat) (v : Node) : List SItem :=
  (if t + P.dur v (s.count v) < P.tmax then [⟨t + P.dur v (s.count v), SEv.recov v⟩] else []) ++
    (P.nbrs v).flatMap (fun w => chainOf P.tmax v w
      (liveTimes (fset s.inf v true) (fset s.recTime v (t + P.dur v (s.count v))) w
        ((P.delays v w (s.count v)).map fun d => t + d)))

/-- the three kinds of steps, with all fields explicit -/
theorem step_cases {P : SSParams} {s s' : SSState} (h : step P s = some s') :
    ∃ x l1 l2, s.queue = l1 ++ x :: l2 ∧ (∀ y ∈ l1, x.time < y.time) ∧ (∀ y ∈ l2, x.time ≤ y.time) ∧
      ((∃ u, x.ev = SEv.recov u ∧
          s' = { inf := fset s.inf u false, recTime := s.recTime, count := s.count, queue := l1 ++ l2,
                 log := (x.time, u, false) :: s.log, trans := s.trans }) ∨
       (∃ src v fut, x.ev = SEv.trans src v fut ∧ s.inf v = true ∧
          s' = { inf := s.inf, recTime := s.recTime, count := s.count,
                 queue := l1 ++ l2 ++ reQ P.tmax src v (fut.filter (fun t => t > s.recTime v)),
                 log := s.log, trans := s.trans }) ∨
       (∃ src v fut, x.ev = SEv.trans src v fut ∧ s.inf v = false ∧
          s' = { inf := fset s.inf v true, recTime := fset s.recTime v (x.time + P.dur v (s.count v)),
                 count := fset s.count v (s.count v + 1),
                 queue := l1 ++ l2 ++ newItems P s x.time v ++
                   reQ P.tmax src v (fut.filter (fun t => t > x.time + P.dur v (s.count v))),
                 log := (x.time, v, true) :: s.log, trans := (x.time, src, v) :: s.trans })) := by
  obtain ⟨x, l1, l2, h1, h2, h3, h4⟩ := step_some h
  refine ⟨x, l1, l2, h1, h2, h3, ?_⟩
  unfold exec at h4
  split at h4
  · rename_i src v fut hev
    right
    rw [processTrans_eq] at h4
    cases hi : s.inf v
    · right
      refine ⟨src, v, fut, hev, hi, ?_⟩
      rw [h4]
      simp [hi, infectS, newItems, fset, List.append_assoc]
    · left
      refine ⟨src, v, fut, hev, hi, ?_⟩
      rw [h4]
      simp [hi]
  · rename_i u hev
    left
    exact ⟨u, hev, by rw [h4]; rfl⟩

theorem loop_inv {P : SSParams} (I : SSState → Prop) (hstep : ∀ s s', I s → step P s = some s' → I s')
    (n : Nat) (s : SSState) (h : I s) : I (loop P n s) := by
  induction n generalizing s with
  | zero => exact h
  | succ n ih =>
    simp only [loop]
    split
    · exact h
    · rename_i s' hs; exact ih s' (hstep s s' h hs)

theorem init_queue (P : SSParams) (infs : List Node) :
    (init P infs).queue = if P.tmin < P.tmax then infs.map (fun u => ⟨P.tmin, SEv.trans none u []⟩) else [] := by
  simp only [init]
  have : ∀ (l : List Node) (q : List SItem),
      l.foldl (fun q u => qadd P.tmax q P.tmin (SEv.trans none u [])) q =
        q ++ (if P.tmin < P.tmax then l.map (fun u => ⟨P.tmin, SEv.trans none u []⟩) else []) := by
    intro l
    induction l with
    | nil => intro q; simp
    | cons u l ih =>
      intro q
      rw [List.foldl_cons, ih, qadd_eq]
      split <;> simp
  rw [this]; simp

end EventSIS
