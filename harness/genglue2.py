"""Generated-code stream for the second batch of ODE entry points (harness/pyglue3lean.py -> Gen/OdeGlue2.lean, driver
`driverglue2`): individual-based, pair-based (+ the pure-IC forms), effective degree, compact effective degree,
EBCM_uniform_introduction, heterogeneous pairwise, EBCM_pref_mix(+_discrete).

The real functions are called on random small inputs under every argument convention (all the EoNError guards, wrong
lengths / shapes, None-able arguments) while `integrate.odeint` / `_my_odeint_` are wrapped, so that the initial state and
the rows the real solver returned are captured; the driver replays those rows as the `odeint` parameter of the
generated code.  Compared: the exception class, the initial state handed to the solver, every returned array
(1e-9 relative + absolute: the implementation computes in floats, the generated code in exact rationals).

Graph arguments: the generated code identifies a node with its index in the effective nodelist (`nodelist`, or
`G.nodes()` when it is None); the relabelling (neighbour index lists, rate tables, index sets) is done here."""
import json, os, subprocess, fcntl, warnings
from fractions import Fraction as F
import numpy as np, networkx as nx
import common
from common import rs

GRAPH_FNS = ["SIS_individual_based", "SIR_individual_based", "SIS_individual_based_pure_IC", "SIR_individual_based_pure_IC",
             "SIS_pair_based", "SIR_pair_based", "SIS_pair_based_pure_IC", "SIR_pair_based_pure_IC"]
OTHER_FNS = ["SIS_effective_degree", "SIR_effective_degree", "SIS_compact_effective_degree", "EBCM_uniform_introduction",
             "SIS_heterogeneous_pairwise", "SIR_heterogeneous_pairwise", "EBCM_pref_mix", "EBCM_pref_mix_discrete"]
QUARTERS = [0.0, 0.25, 0.5, 0.75, 1.0]


def q(x):
    return rs(F(float(x)))


def qv(a):
    return [q(x) for x in np.asarray(a, dtype=float).ravel()]


def qm(a):
    return [[q(x) for x in row] for row in np.asarray(a, dtype=float)]


def graph(r):
    """a small graph with arbitrary (also non-int) labels in shuffled insertion order, optional weights"""
    n = r.randint(1, 6)
    labels = r.choice([list(range(n)), [chr(97 + i) for i in range(n)], [(i, i % 2) for i in range(n)], [10 * i + 3 for i in range(n)]])
    labels = list(labels)
    r.shuffle(labels)
    directed = r.random() < 0.15
    G = nx.DiGraph() if directed else nx.Graph()
    G.add_nodes_from(labels)
    p = r.choice([0.3, 0.6, 0.9])
    for i in range(n):
        for j in range(n):
            if (i < j or (directed and i != j)) and r.random() < p:
                G.add_edge(labels[i], labels[j])
    weighted = r.random() < 0.5
    if weighted:
        for u, v in G.edges():
            G.edges[u, v]["w"] = r.choice([0.5, 1.0, 2.0])
        for u in G.nodes():
            G.nodes[u]["rw"] = r.choice([0.5, 1.0, 1.5])
    return G, weighted, directed


def graph_case(r, fn):
    import EoN
    G, weighted, directed = graph(r)
    N = G.order()
    nodes = list(G.nodes())
    tau, gamma = r.choice([0.5, 1.0, 2.0]), r.choice([0.0, 0.5, 1.0])
    tw, rw = ("w" if weighted and r.random() < 0.8 else None), ("rw" if weighted and r.random() < 0.8 else None)
    kw = dict(tmin=r.choice([0.0, 0.5]), tcount=r.randint(3, 6), transmission_weight=tw, recovery_weight=rw, return_full_data=r.random() < 0.5)
    kw["tmax"] = kw["tmin"] + r.choice([0.5, 1.0, 2.0])
    # the argument convention: a valid one (so that the packing / unpacking is exercised) or independent coin flips
    # (so that every guard and every None-related TypeError is)
    valid = (not fn.endswith("_pure_IC")) and r.random() < 0.55
    use_y0 = valid and r.random() < 0.6
    give_nl = True if use_y0 else r.random() < 0.55
    if valid and not use_y0 and "pair" in fn:
        give_nl = False                                    # pair-based: rho (or nothing) only works without a nodelist
    perm = list(nodes)
    r.shuffle(perm)
    eff = perm if give_nl else nodes                      # the effective nodelist: index = position in it
    if give_nl:
        kw["nodelist"] = r.choice([perm, tuple(perm)]) if r.random() < 0.5 else perm
    idx = {u: i for i, u in enumerate(eff)}
    trf, rrf = EoN._get_rate_functions_(G, tau, gamma, tw, rw)
    req = dict(fn=fn, N=N, nbrs=[[idx[v] for v in G.neighbors(u)] for u in eff],
               tr=[[q(trf(u, v)) if G.has_edge(u, v) else "0" for v in eff] for u in eff], rr=[q(rrf(u)) for u in eff],
               nodelist=list(range(N)) if give_nl else None)
    conv = []

    def vec(n):
        return np.array([r.choice(QUARTERS) for _ in range(n)])

    def length(what):
        """the right length, sometimes a wrong one"""
        if r.random() < 0.12:
            conv.append("wrong-" + what)
            return max(0, N + r.choice([-1, 1, 2]))
        return N
    if fn.endswith("_pure_IC"):
        k = r.randint(0, N)
        inf = r.sample(nodes, k)
        stray = r.random() < 0.15                          # a label that is not a node of G
        kw_inf = inf + (["stray"] if stray else [])
        req["initial_infecteds"] = [idx[u] for u in inf] + ([N + 3] if stray else [])
        args = (G, tau, gamma, r.choice([kw_inf, set(kw_inf), tuple(kw_inf)]))
        if fn.startswith("SIR"):
            if r.random() < 0.6:
                rec = r.sample(nodes, r.randint(0, N))       # may overlap the infecteds
                kw["initial_recovereds"] = rec
                req["initial_recovereds"] = [idx[u] for u in rec]
                conv.append("recovereds")
            else:
                req["initial_recovereds"] = None
    else:
        args = (G, tau, gamma)
        pair = "pair" in fn
        if (r.random() < 0.5) if not valid else (not use_y0 and (not pair or r.random() < 0.7)):
            kw["rho"] = r.choice([0.1, 0.25, 0.5])
            conv.append("rho")
        if (r.random() < (0.6 if give_nl else 0.3)) if not valid else use_y0:
            kw["Y0"] = vec(length("Y0") if pair or r.random() < 0.3 else N)
            conv.append("Y0")
        if fn.startswith("SIR") and (r.random() < 0.45 if not valid else (use_y0 and r.random() < 0.5)):
            kw["X0"] = vec(length("X0") if "Y0" in kw and (pair or r.random() < 0.3) else N)
            conv.append("X0")
        if pair:
            for nm in ("XY0", "XX0"):
                if r.random() < 0.35 and (not valid or use_y0):
                    shape = (N, N)
                    if r.random() < 0.3:
                        shape = r.choice([(N, N + 1), (max(N - 1, 0), N), (N * N, 1), (1, N)])
                        conv.append("shape-" + nm)
                    kw[nm] = np.array([[r.choice(QUARTERS) for _ in range(shape[1])] for _ in range(shape[0])]).reshape(shape)
                    conv.append(nm)
        req["rho"] = q(kw["rho"]) if "rho" in kw else None
        req["Y0"] = qv(kw["Y0"]) if "Y0" in kw else None
        req["X0"] = qv(kw["X0"]) if "X0" in kw else None
        req["XY0"] = qm(kw["XY0"]) if "XY0" in kw else None
        req["XX0"] = qm(kw["XX0"]) if "XX0" in kw else None
        if pair and any(k_ in kw and kw[k_].size == 0 for k_ in ("XY0", "XX0")):
            return None                                     # an empty 2-D table loses its shape on the wire
    conv = ("valid," if valid else "") + ("nodelist," if give_nl else "") + ",".join(conv) + (",weighted" if weighted else "") + (",directed" if directed else "")
    return args, kw, req, conv


def poly(c):
    return lambda x: sum(v * x ** k for k, v in c.items())


def other_case(r, fn):
    kw = dict(tmin=r.choice([0.0, 0.5]), tcount=r.randint(3, 6), return_full_data=r.random() < 0.5)
    kw["tmax"] = kw["tmin"] + r.choice([0.5, 1.0, 2.0])
    tau, gamma = r.choice([0.5, 1.0, 2.0]), r.choice([0.0, 0.5, 1.0])
    req = dict(fn=fn, tau=q(tau), gamma=q(gamma))
    conv = []

    def mat(a, b, scale=1.0):
        return np.array([[scale * r.choice(QUARTERS) for _ in range(b)] for _ in range(a)]).reshape(a, b)
    if fn == "SIS_effective_degree":
        a, b = r.choice([(2, 2), (3, 3), (2, 3), (3, 2)])
        S, I = mat(a, b), mat(a, b)
        if r.random() < 0.15:
            I = mat(b + 1, a)
            conv.append("shape-mismatch")
        args = (S, I, tau, gamma)
        req.update(Ssi0=qm(S), Isi0=qm(I))
    elif fn == "SIR_effective_degree":
        a, b = r.choice([(2, 2), (3, 3), (2, 3), (3, 2)])
        S = mat(a, b)
        I0, R0 = r.choice([0.5, 1.0]), r.choice([0.0, 0.5])
        args = (S, I0, R0, tau, gamma)
        req.update(S_si0=qm(S), I0=q(I0), R0=q(R0))
    elif fn == "SIS_compact_effective_degree":
        k = r.randint(1, 4)
        Sk0 = np.array([r.choice([1.0, 2.0, 3.0]) for _ in range(k)])
        Ik0 = np.array([r.choice([0.0, 1.0]) for _ in range(k if r.random() > 0.12 else k + 2)])
        if len(Ik0) != k:
            conv.append("length-mismatch")
        SI0, SS0, II0 = r.choice([0.5, 1.0]), r.choice([1.0, 2.0]), r.choice([0.0, 0.5])
        args = (Sk0, Ik0, SI0, SS0, II0, tau, gamma)
        req.update(Sk0=qv(Sk0), Ik0=qv(Ik0), SI0=q(SI0), SS0=q(SS0), II0=q(II0))
    elif fn == "EBCM_uniform_introduction":
        Pk = r.choice([{1: 1.0}, {2: 0.5, 3: 0.5}, {0: 0.25, 2: 0.75}, {4: 1.0}])
        psi, psiP = poly(Pk), poly({k - 1: k * v for k, v in Pk.items() if k > 0})
        N, rho = float(r.choice([10, 100])), r.choice([0.0, 0.1, 0.25])
        args = (N, psi, psiP, tau, gamma, rho)
        req.update(N_=q(N), rho=q(rho), _psi=psi, _psiP=psiP)
    elif fn in ("SIS_heterogeneous_pairwise", "SIR_heterogeneous_pairwise"):
        k = r.randint(1, 3)
        bad = r.random() < 0.2
        Sk0 = np.array([r.choice([1.0, 2.0, 3.0]) for _ in range(k)])
        Ik0 = np.array([r.choice([0.5, 1.0]) for _ in range(k + (1 if bad and r.random() < 0.4 else 0))])
        kk = k if not (bad and r.random() < 0.5) else k + 1
        SkSl0, SkIl0, IkIl0 = mat(kk, kk, 2.0) + 0.5, mat(kk, kk, 1.0) + 0.25, mat(k, k, 1.0)
        if bad:
            conv.append("mismatch")
        if r.random() < 0.5:
            Ks = np.array([float(r.randint(0, 3)) for _ in range(k)])
            kw["Ks"] = Ks
            conv.append("Ks")
        req.update(Sk0=qv(Sk0), Ik0=qv(Ik0), SkSl0=qm(SkSl0), SkIl0=qm(SkIl0), Ks=qv(kw["Ks"]) if "Ks" in kw else None)
        if fn.startswith("SIS"):
            args = (Sk0, Ik0, SkSl0, SkIl0, IkIl0, tau, gamma)
            req.update(IkIl0=qm(IkIl0))
        else:
            Rk0 = np.array([r.choice([0.0, 1.0]) for _ in range(k)])
            args = (Sk0, Ik0, Rk0, SkSl0, SkIl0, tau, gamma)
            req.update(Rk0=qv(Rk0))
    elif fn in ("EBCM_pref_mix", "EBCM_pref_mix_discrete"):
        degs = r.choice([[1], [1, 2], [2, 3], [3, 1], [1, 2, 4], [2]])
        w = [r.choice([1.0, 2.0, 3.0]) for _ in degs]
        Pk = {k: x / sum(w) for k, x in zip(degs, w)}
        Pnk = {}
        for k1 in degs:
            sub = [k2 for k2 in degs if r.random() < 0.7] or [degs[0]]
            r.shuffle(sub)
            ww = [r.choice([1.0, 2.0]) for _ in sub]
            Pnk[k1] = {k2: x / sum(ww) for k2, x in zip(sub, ww)}
        if fn == "EBCM_pref_mix_discrete" and r.random() < 0.1:          # a degree without a row in Pnk: KeyError
            del Pnk[r.choice(degs)]
            conv.append("missing-row")
        if fn == "EBCM_pref_mix_discrete" and r.random() < 0.1 and Pnk:   # a neighbour degree that Pk does not have: KeyError
            Pnk[r.choice(list(Pnk))][r.choice([0, 5])] = 0.5
            conv.append("foreign-degree")
        N = r.choice([10, 50, 0]) if r.random() < 0.08 else r.choice([10, 50])
        rho = None if r.random() < 0.4 else r.choice([0.0, 0.1, 0.25])
        req.update(N_=q(N), Pk=[[k, q(v)] for k, v in Pk.items()], Pnk=[[k, [[k2, q(v)] for k2, v in row.items()]] for k, row in Pnk.items()],
                   rho=None if rho is None else q(rho))
        conv.append("rho" if rho is not None else "norho")
        if fn == "EBCM_pref_mix":
            args = (N, Pk, Pnk, tau, gamma)
            kw["rho"] = rho
        else:
            p = r.choice([0.25, 0.5, 1.0])
            tmin = r.choice([0, 0, 2])
            kw = dict(rho=rho, tmin=tmin, tmax=tmin + r.randint(-1, 3), return_full_data=kw["return_full_data"])
            args = (N, Pk, Pnk, p)
            req.update(p=q(p))
            del req["tau"], req["gamma"]
    else:
        raise KeyError(fn)
    return args, kw, req, ",".join(conv)


def run_stream(ctx, only=None):
    import pyglue3lean, EoN, EoN.analytic as an
    lean = common.LEAN
    os.makedirs(os.path.join(lean, ".audit"), exist_ok=True)
    with open(os.path.join(lean, ".audit", "genglue2.lock"), "w") as lock:
        fcntl.flock(lock, fcntl.LOCK_EX)
        try:
            _, errors = pyglue3lean.regenerate()
        except Exception as e:
            errors = {"translator": "crashed: %r" % e}
        if errors:
            ctx.disagreement("generated-glue2:translation", dict(entry="ODE entry points (second batch)", errors=errors))
            return
        p = common.lake(["build", "driverglue2"])
    if p.returncode != 0:
        ctx.disagreement("generated-glue2:build", dict(entry="ODE entry points (second batch)", log="\n".join(
            l for l in (p.stdout + p.stderr).splitlines() if "error" in l)[:1500]))
        return
    r = ctx.rng
    fns = [f for f in GRAPH_FNS + OTHER_FNS if f in pyglue3lean.SIGS and (only is None or f in only)]
    cap = {}
    orig_odeint, orig_my = an.integrate.odeint, an._my_odeint_

    def wrap(orig, which):
        def w(func, X0, times, args=(), **kw):
            cap["which"], cap["X0"], cap["args"] = which, np.array(X0, dtype=float).copy(), args
            cap["ndim"] = np.ndim(X0)
            try:
                X = orig(func, X0, times, args=args, **kw)
            except Exception as e:
                cap["solver_raised"] = type(e).__name__
                raise
            cap["rows"] = np.array(X, dtype=float)
            return X
        return w
    reqs, metas = [], []
    an.integrate.odeint, an._my_odeint_ = wrap(orig_odeint, "odeint"), wrap(orig_my, "my")
    try:
        for k in range(ctx.scale(200, 1500)):
            fn = fns[k % len(fns)] if k < 2 * len(fns) else r.choice(fns)
            case = graph_case(r, fn) if fn in GRAPH_FNS else other_case(r, fn)
            if case is None:
                continue
            args, kw, req, conv = case
            cap.clear()
            logged = {}
            if "_psi" in req:                       # function-valued arguments: the table of the values they take
                f0, f1 = req.pop("_psi"), req.pop("_psiP")

                def psi(x, f0=f0):
                    v = f0(x)
                    for a, b in zip(np.ravel(x), np.ravel(v)):
                        logged[q(a)] = q(b)
                    return v
                args = (args[0], psi, f1) + tuple(args[3:])
            with warnings.catch_warnings():
                warnings.simplefilter("ignore")
                try:
                    with np.errstate(all="ignore"):
                        res = getattr(an, fn)(*args, **kw)
                    out = dict(ok=True, res=res)
                except Exception as e:
                    out = dict(ok=False, err=type(e).__name__, msg=str(e)[:100])
            rep = dict(entry=fn, stream="generated-glue2", conv=conv, kw={a: str(b)[:80] for a, b in kw.items()}, k=k)
            if "solver_raised" in cap:
                ctx.count("generated-glue2:outside:solver-raised:" + fn)      # the solver is a parameter of the generated code
                continue
            if "rows" in cap and not np.all(np.isfinite(cap["rows"])):
                ctx.count("generated-glue2:outside:nonfinite:" + fn)
                continue
            req["rows"] = [[q(v) for v in row] for row in cap["rows"]] if "rows" in cap else []
            for a in ("tmin", "tmax"):
                req[a] = kw[a] if isinstance(kw[a], int) else q(kw[a])
            if "tcount" in kw:
                req["tcount"] = kw["tcount"]
            req["return_full_data"] = kw["return_full_data"]
            if logged:
                req["psi"] = [[a, b] for a, b in logged.items()]
            if fn == "EBCM_pref_mix_discrete":
                req["outlen"] = 0
            reqs.append(req)
            metas.append((rep, out, dict(cap)))
            ctx.count("generated-glue2:%s:%s" % (fn, "ok" if out["ok"] else out["err"]))
    finally:
        an.integrate.odeint, an._my_odeint_ = orig_odeint, orig_my
    if not reqs:
        return
    exe = os.path.join(lean, ".lake", "build", "bin", "driverglue2")
    data = "\n".join(json.dumps(x, separators=(",", ":")) for x in reqs) + "\n"
    pr = subprocess.run([exe], input=data, capture_output=True, text=True)
    lines = pr.stdout.splitlines()
    if pr.returncode != 0 or len(lines) != len(reqs):
        raise RuntimeError("driverglue2 crashed: " + pr.stderr[-1000:])
    for (rep, out, cp), line in zip(metas, lines):
        g = json.loads(line)
        ctx.traces += 1
        ctx.case(rep, nontrivial=True)
        d = compare(out, cp, g)
        if d:
            ctx.disagreement("generated-glue2:" + d[:200], dict(rep, impl=out.get("err", "ok"), impl_msg=out.get("msg"), generated=g.get("err", "ok")))


def close(mine, theirs):
    return mine.shape == theirs.shape and np.allclose(mine, theirs, rtol=1e-9, atol=1e-9)


def fl(x):
    return float(F(x))


def compare(out, cap, g):
    if out["ok"] != bool(g.get("ok")):
        return "outcome: impl %s generated %s" % (out.get("err", "ok"), g.get("err", "ok"))
    if not out["ok"]:
        return None if out["err"] == g.get("err") else "exception: impl %s generated %s" % (out["err"], g.get("err"))
    if "X0" in cap:
        x0 = np.array([fl(x) for x in g["x0"]])
        if cap["ndim"] != 1 or not close(x0, cap["X0"]):
            return "initial state handed to the solver differs (shape %s vs %s)" % (x0.shape, cap["X0"].shape)
    res = out["res"]
    if len(res) != len(g["out"]):
        return "number of returned arrays: impl %d generated %d" % (len(res), len(g["out"]))
    for j, (mine, theirs) in enumerate(zip(g["out"], res)):
        if "d" in mine or "dl" in mine:
            tab = mine.get("d", mine.get("dl"))
            if not isinstance(theirs, dict) or [k for k, _ in tab] != list(theirs):
                return "returned dict %d: keys differ" % j
            for k, vals in tab:
                if not close(np.array([fl(x) for x in vals]), np.asarray(theirs[k], dtype=float)):
                    return "returned dict %d differs at key %r" % (j, k)
            continue
        arr = np.asarray(theirs, dtype=float)
        if "s" in mine:
            m_ = np.array([fl(x) for x in mine["s"]])
        elif "v" in mine:
            m_ = np.array([fl(x) for x in mine["v"]])
        elif "m" in mine:
            rows = np.array([[fl(x) for x in row] for row in mine["m"]], dtype=float).reshape(len(mine["m"]), mine["n"])
            m_ = rows.T
        else:
            rows = np.array([[fl(x) for x in row] for row in mine["c"]], dtype=float).reshape(len(mine["c"]), mine["a"] * mine["b"])
            m_ = rows.T.reshape(mine["a"], mine["b"], len(mine["c"]))
        if not close(m_, arr):
            return "returned array %d differs (shape %s vs %s)" % (j, m_.shape, arr.shape)
    return None
