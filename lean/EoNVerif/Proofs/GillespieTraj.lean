import EoNVerif.Model.Gillespie
import EoNVerif.Model.GillespieLaw
import EoNVerif.Spec.Chain
import EoNVerif.Proofs.ListDict
import EoNVerif.Proofs.Gillespie
import Mathlib.Tactic.Ring
import Mathlib.Tactic.FieldSimp
import Mathlib.Tactic.Linarith
import Mathlib.Algebra.Order.Field.Rat
import Mathlib.Data.List.Nodup
import Mathlib.Algebra.Order.Archimedean.Basic
/-!
Induction over events: the one-step jump law of `Gillespie_SIR/SIS` (`Proofs/Gillespie.lean`) lifted to the law of
finite histories.  Definitions (`Chain.jumpDist`, `Gillespie.trajDist`, `Gillespie.accProd`, …), the algebra of
`Dist.mass` under `bind`/`push`/`pure` the induction needs, and the lemmas.  Property statements: `Props/C01g.lean`.
-/

/-! ### generic algebra of `Dist.mass` -/
namespace Dist
variable {α β : Type}

/-- every listed outcome has a non-negative weight -/
def NonNeg (d : Dist α) : Prop := ∀ x ∈ d, 0 ≤ x.2

theorem mass_nonneg (d : Dist α) (h : NonNeg d) (Q : α → Bool) : 0 ≤ mass d Q := by
  unfold mass
  apply sumRat_map_nonneg
  intro x hx
  obtain ⟨a, p⟩ := x
  have := h _ hx
  dsimp only at this ⊢
  split <;> simp [this]

theorem nonneg_pure (a : α) : NonNeg (Dist.pure a) := by
  intro x hx
  simp only [Dist.pure, List.mem_singleton] at hx
  subst hx; exact zero_le_one

theorem nonneg_nil : NonNeg ([] : Dist α) := by intro x hx; simp at hx

theorem nonneg_push (g : α → β) (d : Dist α) (h : NonNeg d) : NonNeg (Dist.push g d) := by
  intro x hx
  simp only [Dist.push, List.mem_map] at hx
  obtain ⟨⟨a, p⟩, hy, rfl⟩ := hx
  exact h _ hy

theorem nonneg_bind (d : Dist α) (f : α → Dist β) (h : NonNeg d) (hf : ∀ x ∈ d, NonNeg (f x.1)) :
    NonNeg (Dist.bind d f) := by
  intro x hx
  simp only [Dist.bind, List.mem_flatMap, List.mem_map] at hx
  obtain ⟨⟨a, p⟩, hy, ⟨b, q⟩, hz, rfl⟩ := hx
  exact mul_nonneg (h _ hy) (hf _ hy _ hz)

/-- `bind` against a family whose mass on `Q` is an indicator times a constant -/
theorem mass_bind_indicator (d : Dist α) (f : α → Dist β) (Q : β → Bool) (R : α → Bool) (c : Rat)
    (hf : ∀ x ∈ d, mass (f x.1) Q = if R x.1 then c else 0) :
    mass (Dist.bind d f) Q = mass d R * c := by
  rw [mass_bind]
  induction d with
  | nil => simp [mass]
  | cons x xs ih =>
    obtain ⟨a, p⟩ := x
    have h1 := hf (a, p) (by simp)
    dsimp only at h1
    rw [mass_cons, List.map_cons, sumRat_cons, ih (fun y hy => hf y (by simp [hy]))]
    dsimp only
    rw [h1]
    split <;> ring

/-- `bind` against a family that never hits `Q` -/
theorem mass_bind_zero (d : Dist α) (f : α → Dist β) (Q : β → Bool)
    (hf : ∀ x ∈ d, mass (f x.1) Q = 0) : mass (Dist.bind d f) Q = 0 := by
  have := mass_bind_indicator d f Q (fun _ => false) 0 (by intro x hx; simp [hf x hx])
  rw [this]; ring

/-- mass of a point of a duplicate-free weighted list -/
theorem mass_map_point {γ : Type} [DecidableEq γ] (l : List γ) (w : γ → Rat) (x : γ) (hn : l.Nodup) :
    mass (l.map fun e => (e, w e)) (fun e => decide (e = x)) = if x ∈ l then w x else 0 := by
  unfold mass
  rw [List.map_map]
  by_cases hx : x ∈ l
  · rw [if_pos hx, ← sumRat_indicator l x w hn hx]
    apply sumRat_map_congr
    intro c _
    by_cases hc : c = x <;> simp [hc]
  · rw [if_neg hx]
    apply sumRat_map_zero
    intro c hc
    have : c ≠ x := fun h => hx (h ▸ hc)
    simp [this]

end Dist

/-! ### the jump chain of the specification -/
namespace Chain

/-- rate of an event -/
def rate (P : GParams) : GEvent → Rat
  | .recover u => nodeRate P u
  | .transmit u v => edgeRate P u v

/-- the enabled events in status `st`: recoveries of infectious nodes, transmissions along I–S pairs -/
def enabled (P : GParams) (st : Node → St) : List GEvent :=
  (enabledRec P st).map GEvent.recover ++ (enabledTrans P st).map fun p => GEvent.transmit p.1 p.2

/-- **jump chain of the CTMC**, first `n` jumps, as a law on histories of (event, total rate before the event):
in an absorbing status (`totalRate = 0`) the history ends; otherwise the enabled event `e` is next with probability
`rate e / totalRate`, the pair `(e, totalRate)` is recorded (the holding time before `e` is `Exp(totalRate)`), and
the chain continues from `apply st e`. -/
def jumpDist (P : GParams) : Nat → (Node → St) → Dist (List (GEvent × Rat))
  | 0, _ => Dist.pure []
  | n + 1, st =>
    if totalRate P st = 0 then Dist.pure []
    else
      Dist.bind ((enabled P st).map fun e => (e, rate P e / totalRate P st)) fun e =>
        Dist.push (fun h => (e, totalRate P st) :: h) (jumpDist P n (apply P st e))

/-- status after a history -/
def applyHist (P : GParams) : (Node → St) → List (GEvent × Rat) → (Node → St)
  | st, [] => st
  | st, (e, _) :: h => applyHist P (apply P st e) h

/-- `h` is a legal path of the chain from `st`: every event is enabled in the status reached by its predecessors,
the recorded rate is the total rate of that status, and that status is not absorbing -/
def Legal (P : GParams) : (Node → St) → List (GEvent × Rat) → Prop
  | _, [] => True
  | st, (e, r) :: h =>
    (match e with
     | .recover u => u ∈ enabledRec P st
     | .transmit u v => (u, v) ∈ enabledTrans P st) ∧
    r = totalRate P st ∧ 0 < totalRate P st ∧ Legal P (apply P st e) h

end Chain

namespace Gillespie
open Dist

instance (s : GState) : (e : GEvent) → Decidable (Enabled s e)
  | .recover u => inferInstanceAs (Decidable (u ∈ s.inf.items))
  | .transmit u v => inferInstanceAs (Decidable ((u, v) ∈ s.links.items))

/-- the `while` test of `Gillespie.loop` with no time horizon (`tmax = ∞`): the loop stops when `infecteds` is empty
or when the next event time is `inf`, which `loop`/`run` set exactly when `total_rate > 0` fails -/
def halted (P : GParams) (s : GState) : Prop := s.inf.items.isEmpty = true ∨ ¬ (totalRate P s > 0)

instance (P : GParams) (s : GState) : Decidable (halted P s) :=
  inferInstanceAs (Decidable (s.inf.items.isEmpty = true ∨ ¬ (totalRate P s > 0)))

/-- **law of the first `n` events of the model's loop** (histories of (event, rate handed to `expovariate` before
the event)).  Mirrors `Gillespie.loop`: stop test `halted`; event selection `pickDist` (Bernoulli(`recThr`) then the
`k`-round rejection sampler); `none` (= `chooseTM` out of fuel, an error in the tape model, not a stop) contributes
no history: the law is a sub-distribution whose missing mass is the probability that some sampler exhausted its `k`
rounds; `applyEvent … = none` (KeyError) likewise contributes nothing (and is unreachable, `traj_status`).  The
event time passed to `applyEvent` is `0`: it is only recorded (`trajDistT_eq`). -/
def trajDist (P : GParams) (k : Nat) : Nat → GState → Dist (List (GEvent × Rat))
  | 0, _ => Dist.pure []
  | n + 1, s =>
    if halted P s then Dist.pure []
    else
      Dist.bind (pickDist P s k) fun o =>
        match o with
        | none => []
        | some e =>
          match applyEvent P s e 0 with
          | none => []
          | some s' => Dist.push (fun h => (e, totalRate P s) :: h) (trajDist P k n s')

/-- acceptance factor of the candidate structure used by event `e` in state `s`: `1 - ρ^k` if it is weighted
(rejection sampling), `1` otherwise -/
def stepFactor (s : GState) (k : Nat) : GEvent → Rat
  | .recover _ => if s.inf.weighted then 1 - s.inf.rejProb ^ k else 1
  | .transmit _ _ => if s.links.weighted then 1 - s.links.rejProb ^ k else 1

/-- rejection defect `ρ^k` of the structure used by `e` in `s` (`0` if unweighted) -/
def stepDefect (s : GState) (k : Nat) : GEvent → Rat
  | .recover _ => if s.inf.weighted then s.inf.rejProb ^ k else 0
  | .transmit _ _ => if s.links.weighted then s.links.rejProb ^ k else 0

/-- `Π_i c_i`: product of the acceptance factors along the model's path through `h` (each factor in the state
reached after the preceding events).  On histories that are not paths (event not enabled) the value is immaterial
(both masses are 0) and set to 1. -/
def accProd (P : GParams) (k : Nat) : GState → List (GEvent × Rat) → Rat
  | _, [] => 1
  | s, (e, _) :: h =>
    if Enabled s e then
      match applyEvent P s e 0 with
      | some s' => stepFactor s k e * accProd P k s' h
      | none => 1
    else 1

/-- `Σ_i ρ_i^k` along the model's path through `h` -/
def defectSum (P : GParams) (k : Nat) : GState → List (GEvent × Rat) → Rat
  | _, [] => 0
  | s, (e, _) :: h =>
    if Enabled s e then
      match applyEvent P s e 0 with
      | some s' => stepDefect s k e + defectSum P k s' h
      | none => 0
    else 0

/-- the model's state after a history (event times recorded as 0) -/
def applyHist (P : GParams) : GState → List (GEvent × Rat) → Option GState
  | s, [] => some s
  | s, (e, _) :: h =>
    match applyEvent P s e 0 with
    | some s' => applyHist P s' h
    | none => none


/-! ### histories: mass of a pushed `cons` -/

theorem mass_push_cons (e e' : GEvent) (r r' : Rat) (d : Dist (List (GEvent × Rat)))
    (h' : List (GEvent × Rat)) :
    mass (Dist.push (fun h => (e, r) :: h) d) (fun x => x == (e', r') :: h') =
      if e = e' ∧ r = r' then mass d (fun x => x == h') else 0 := by
  rw [mass_push]
  by_cases hc : e = e' ∧ r = r'
  · rw [if_pos hc]; obtain ⟨rfl, rfl⟩ := hc
    congr 1; funext x; simp
  · rw [if_neg hc]
    have : (fun x : List (GEvent × Rat) => ((e, r) :: x == (e', r') :: h')) = fun _ => false := by
      funext x; simp; tauto
    rw [this, mass_false]

theorem mass_push_cons_nil (e : GEvent) (r : Rat) (d : Dist (List (GEvent × Rat))) :
    mass (Dist.push (fun h => (e, r) :: h) d) (fun x => x == []) = 0 := by
  rw [mass_push]
  have : (fun x : List (GEvent × Rat) => ((e, r) :: x == [])) = fun _ => false := by
    funext x; simp
  rw [this, mass_false]

theorem mass_pure_nil (h : List (GEvent × Rat)) :
    mass (Dist.pure ([] : List (GEvent × Rat))) (fun x => x == h) = if h = [] then 1 else 0 := by
  rw [mass_pure]
  cases h <;> simp

/-! ### the stop test -/

theorem nodeRate_nonneg (P : GParams) (h : WF P) (u : Node) : 0 ≤ Chain.nodeRate P u := by
  unfold Chain.nodeRate
  cases hf : P.nw with
  | none => simpa using h.gamma_nonneg
  | some f => exact mul_nonneg h.gamma_nonneg (h.nw_nonneg f hf u)

theorem edgeRate_nonneg (P : GParams) (h : WF P) (u v : Node) : 0 ≤ Chain.edgeRate P u v := by
  unfold Chain.edgeRate
  cases hf : P.ew with
  | none => simpa using h.tau_nonneg
  | some f => exact mul_nonneg h.tau_nonneg (h.ew_nonneg f hf u v)

theorem rate_nonneg (P : GParams) (h : WF P) (e : GEvent) : 0 ≤ Chain.rate P e := by
  cases e with
  | recover u => exact nodeRate_nonneg P h u
  | transmit u v => exact edgeRate_nonneg P h u v

theorem chain_totalRate_nonneg (P : GParams) (h : WF P) (st : Node → St) : 0 ≤ Chain.totalRate P st := by
  unfold Chain.totalRate
  have h1 := sumRat_map_nonneg (Chain.enabledRec P st) (Chain.nodeRate P) (fun c _ => nodeRate_nonneg P h c)
  have h2 := sumRat_map_nonneg (Chain.enabledTrans P st) (fun p => Chain.edgeRate P p.1 p.2)
    (fun c _ => edgeRate_nonneg P h c.1 c.2)
  linarith

/-- under the invariant the loop's stop test is "the chain is in an absorbing status" -/
theorem halted_iff (P : GParams) (h : WF P) (s : GState) (hs : Inv P s) :
    halted P s ↔ Chain.totalRate P s.status = 0 := by
  rw [← clock_eq' P h s hs]
  constructor
  · rintro (he | hn)
    · have hi : s.inf.items = [] := by simpa using he
      have hl : s.links.items = [] := by
        cases hl : s.links.items with
        | nil => rfl
        | cons p t =>
          obtain ⟨a, b⟩ := p
          have hm : (a, b) ∈ s.links.items := by rw [hl]; simp
          have := (hs.link_items a b).1 hm
          have ha : a ∈ s.inf.items := (hs.inf_items a).2 ⟨this.1, this.2.1⟩
          rw [hi] at ha; simp at ha
      unfold totalRate
      rw [rec_rate_eq P s hs, trans_rate_eq P s hs, hi, hl]; simp
    · have := chain_totalRate_nonneg P h s.status
      rw [← clock_eq' P h s hs] at this
      exact le_antisymm (not_lt.1 hn) this
  · intro h0
    right; rw [h0]; exact lt_irrefl 0

theorem pos_of_not_halted (P : GParams) (s : GState) (hh : ¬ halted P s) : 0 < totalRate P s := by
  unfold halted at hh
  by_contra hc
  exact hh (Or.inr hc)

/-! ### one step of the two laws -/

/-- mass of the continuation after `e` -/
def contMass (P : GParams) (k n : Nat) (s : GState) (e : GEvent) (h' : List (GEvent × Rat)) : Rat :=
  match applyEvent P s e 0 with
  | some s' => mass (trajDist P k n s') (fun x => x == h')
  | none => 0

theorem traj_zero (P : GParams) (k : Nat) (s : GState) : trajDist P k 0 s = Dist.pure [] := rfl

theorem traj_halted (P : GParams) (k n : Nat) (s : GState) (hh : halted P s) :
    trajDist P k n s = Dist.pure [] := by
  cases n with
  | zero => rfl
  | succ n => rw [trajDist, if_pos hh]

theorem traj_nil (P : GParams) (k n : Nat) (s : GState) (hh : ¬ halted P s) :
    mass (trajDist P k (n + 1) s) (fun x => x == []) = 0 := by
  rw [trajDist, if_neg hh]
  apply mass_bind_zero
  rintro ⟨o, p⟩ _
  cases o with
  | none => rfl
  | some e =>
    dsimp only
    cases applyEvent P s e 0 with
    | none => rfl
    | some s' => exact mass_push_cons_nil _ _ _

theorem traj_step (P : GParams) (k n : Nat) (s : GState) (hh : ¬ halted P s) (e : GEvent) (r : Rat)
    (h' : List (GEvent × Rat)) :
    mass (trajDist P k (n + 1) s) (fun x => x == (e, r) :: h') =
      if r = totalRate P s then
        mass (pickDist P s k) (fun o => o == some e) * contMass P k n s e h'
      else 0 := by
  rw [trajDist, if_neg hh]
  by_cases hr : r = totalRate P s
  · rw [if_pos hr]
    apply mass_bind_indicator
    rintro ⟨o, p⟩ _
    cases o with
    | none => simp [mass_nil]
    | some e2 =>
      dsimp only
      by_cases he : e2 = e
      · subst he
        simp only [beq_self_eq_true, if_true]
        unfold contMass
        cases applyEvent P s e2 0 with
        | none => rfl
        | some s' =>
          dsimp only
          rw [mass_push_cons, if_pos ⟨rfl, hr.symm⟩]
      · have : (some e2 == some e) = false := by simp [he]
        rw [this]
        simp only [Bool.false_eq_true, if_false]
        cases applyEvent P s e2 0 with
        | none => rfl
        | some s' =>
          dsimp only
          rw [mass_push_cons, if_neg (fun hc => he hc.1)]
  · rw [if_neg hr]
    apply mass_bind_zero
    rintro ⟨o, p⟩ _
    cases o with
    | none => rfl
    | some e2 =>
      dsimp only
      cases applyEvent P s e2 0 with
      | none => rfl
      | some s' =>
        dsimp only
        rw [mass_push_cons, if_neg (fun hc => hr hc.2.symm)]

theorem mem_enabled (P : GParams) (st : Node → St) (e : GEvent) :
    e ∈ Chain.enabled P st ↔
      (match e with
       | .recover u => u ∈ Chain.enabledRec P st
       | .transmit u v => (u, v) ∈ Chain.enabledTrans P st) := by
  unfold Chain.enabled
  cases e with
  | recover u => simp
  | transmit u v => simp

theorem enabled_nodup (P : GParams) (h : WF P) (st : Node → St) : (Chain.enabled P st).Nodup := by
  unfold Chain.enabled
  apply List.Nodup.append
  · exact (enabledRec_nodup P h st).map (fun a b hab => by injection hab)
  · refine (enabledTrans_nodup P h st).map ?_
    rintro ⟨a, b⟩ ⟨c, d⟩ hab
    injection hab with h1 h2
    subst h1 h2; rfl
  · intro e h1 h2
    simp only [List.mem_map] at h1 h2
    obtain ⟨u, -, rfl⟩ := h1
    obtain ⟨p, -, hp⟩ := h2
    cases hp

theorem chain_zero (P : GParams) (st : Node → St) : Chain.jumpDist P 0 st = Dist.pure [] := rfl

theorem chain_halted (P : GParams) (n : Nat) (st : Node → St) (h0 : Chain.totalRate P st = 0) :
    Chain.jumpDist P n st = Dist.pure [] := by
  cases n with
  | zero => rfl
  | succ n => rw [Chain.jumpDist, if_pos h0]

theorem chain_nil (P : GParams) (n : Nat) (st : Node → St) (h0 : Chain.totalRate P st ≠ 0) :
    mass (Chain.jumpDist P (n + 1) st) (fun x => x == []) = 0 := by
  rw [Chain.jumpDist, if_neg h0]
  apply mass_bind_zero
  rintro ⟨e, p⟩ _
  exact mass_push_cons_nil _ _ _

theorem chain_step (P : GParams) (h : WF P) (n : Nat) (st : Node → St) (h0 : Chain.totalRate P st ≠ 0)
    (e : GEvent) (r : Rat) (h' : List (GEvent × Rat)) :
    mass (Chain.jumpDist P (n + 1) st) (fun x => x == (e, r) :: h') =
      if r = Chain.totalRate P st then
        (if e ∈ Chain.enabled P st then Chain.rate P e / Chain.totalRate P st else 0) *
          mass (Chain.jumpDist P n (Chain.apply P st e)) (fun x => x == h')
      else 0 := by
  rw [Chain.jumpDist, if_neg h0]
  by_cases hr : r = Chain.totalRate P st
  · rw [if_pos hr, ← mass_map_point (Chain.enabled P st) (fun e => Chain.rate P e / Chain.totalRate P st) e
      (enabled_nodup P h st)]
    apply mass_bind_indicator
    rintro ⟨e2, p⟩ _
    dsimp only
    rw [mass_push_cons]
    by_cases he : e2 = e
    · subst he; simp [hr]
    · simp [he]
  · rw [if_neg hr]
    apply mass_bind_zero
    rintro ⟨e2, p⟩ _
    dsimp only
    rw [mass_push_cons, if_neg (fun hc => hr hc.2.symm)]


/-! ### the induction over events -/

/-- the two one-step jump laws as one statement about events -/
theorem jump_law_event (P : GParams) (h : WF P) (s : GState) (hs : Inv P s) (hpos : 0 < totalRate P s)
    (e : GEvent) (he : Enabled s e) (k : Nat) (hk : 0 < k) :
    mass (pickDist P s k) (fun o => o == some e) =
      Chain.rate P e / Chain.totalRate P s.status * stepFactor s k e := by
  cases e with
  | recover u => exact jump_law_rec' P h s hs hpos u he k hk
  | transmit u v => exact jump_law_trans' P h s hs hpos u v he k hk

theorem enabled_iff_chain (P : GParams) (s : GState) (hs : Inv P s) (e : GEvent) :
    Enabled s e ↔ e ∈ Chain.enabled P s.status := by
  rw [mem_enabled]
  obtain ⟨h1, h2⟩ := enabled_iff' P s hs
  cases e with
  | recover u => exact (h1 u).symm
  | transmit u v => exact (h2 (u, v)).symm

/-- an enabled event can be applied whatever time is recorded: no KeyError, invariant preserved, status as in the
chain -/
theorem applyEvent_spec (P : GParams) (h : WF P) (s : GState) (hs : Inv P s) (e : GEvent) (t : Rat)
    (he : Enabled s e) :
    ∃ s', applyEvent P s e t = some s' ∧ Inv P s' ∧ s'.status = Chain.apply P s.status e := by
  cases e with
  | recover u => exact applyRec_inv' P h s hs u t he
  | transmit u v => exact applyTrans_inv' P h s hs u v t he

/-- **trajectory law** (weighted or not): mass of a history under the model's `n`-event law = its mass under the
jump chain × the product of the acceptance factors along it -/
theorem traj_law (P : GParams) (h : WF P) (k : Nat) (hk : 0 < k) (n : Nat) (s : GState) (hs : Inv P s)
    (hist : List (GEvent × Rat)) :
    mass (trajDist P k n s) (fun x => x == hist) =
      mass (Chain.jumpDist P n s.status) (fun x => x == hist) * accProd P k s hist := by
  induction n generalizing s hist with
  | zero =>
    rw [traj_zero, chain_zero, mass_pure_nil]
    cases hist with
    | nil => simp [accProd]
    | cons a t => simp
  | succ n ih =>
    by_cases hh : halted P s
    · rw [traj_halted P k _ s hh, chain_halted P _ _ ((halted_iff P h s hs).1 hh), mass_pure_nil]
      cases hist with
      | nil => simp [accProd]
      | cons a t => simp
    · have hpos := pos_of_not_halted P s hh
      have h0 : Chain.totalRate P s.status ≠ 0 := fun hc => hh ((halted_iff P h s hs).2 hc)
      cases hist with
      | nil => rw [traj_nil P k n s hh, chain_nil P n _ h0]; ring
      | cons a h' =>
        obtain ⟨e, r⟩ := a
        rw [traj_step P k n s hh, chain_step P h n _ h0, clock_eq' P h s hs]
        by_cases hr : r = Chain.totalRate P s.status
        · rw [if_pos hr, if_pos hr]
          by_cases he : Enabled s e
          · obtain ⟨s', h1, h2, h3⟩ := applyEvent_spec P h s hs e 0 he
            rw [jump_law_event P h s hs hpos e he k hk, if_pos ((enabled_iff_chain P s hs e).1 he)]
            unfold contMass
            rw [accProd, if_pos he, h1]
            dsimp only
            rw [ih s' h2 h', h3]; ring
          · rw [jump_law_support' P s k e he, if_neg (fun hc => he ((enabled_iff_chain P s hs e).2 hc))]
            ring
        · rw [if_neg hr, if_neg hr]; ring

/-! ### bounds on the acceptance factors -/

theorem rej_unit {α : Type} [DecidableEq α] (l : LD α) (hl : LD.Inv l) (hw : l.weighted = true) :
    0 ≤ l.rejProb ∧ l.rejProb ≤ 1 := by
  have hW := weightSum_nonneg l hl hw
  rcases lt_or_eq_of_le hW with hp | h0
  · obtain ⟨h1, h2⟩ := LD.rej_bounds l hl hw hp
    exact ⟨h1, le_of_lt h2⟩
  · unfold LD.rejProb; rw [← h0]; simp

theorem stepDefect_unit (P : GParams) (s : GState) (hs : Inv P s) (k : Nat) (e : GEvent) :
    0 ≤ stepDefect s k e ∧ stepDefect s k e ≤ 1 := by
  cases e with
  | recover u =>
    unfold stepDefect
    by_cases hw : s.inf.weighted = true
    · rw [if_pos hw]
      obtain ⟨h1, h2⟩ := rej_unit s.inf hs.infInv hw
      exact ⟨pow_nonneg h1 k, pow_le_one₀ h1 h2⟩
    · rw [if_neg hw]; exact ⟨le_refl 0, zero_le_one⟩
  | transmit u v =>
    unfold stepDefect
    by_cases hw : s.links.weighted = true
    · rw [if_pos hw]
      obtain ⟨h1, h2⟩ := rej_unit s.links hs.linkInv hw
      exact ⟨pow_nonneg h1 k, pow_le_one₀ h1 h2⟩
    · rw [if_neg hw]; exact ⟨le_refl 0, zero_le_one⟩

theorem stepFactor_eq (s : GState) (k : Nat) (e : GEvent) : stepFactor s k e = 1 - stepDefect s k e := by
  cases e <;> simp only [stepFactor, stepDefect] <;> split <;> ring

/-- `0 ≤ Π c_i ≤ 1` and `Π (1-ρ_i^k) ≥ 1 - Σ ρ_i^k`, `Σ ρ_i^k ≥ 0` -/
theorem accProd_bounds (P : GParams) (h : WF P) (k : Nat) (s : GState) (hs : Inv P s)
    (hist : List (GEvent × Rat)) :
    0 ≤ accProd P k s hist ∧ accProd P k s hist ≤ 1 ∧ 1 - defectSum P k s hist ≤ accProd P k s hist ∧
      0 ≤ defectSum P k s hist := by
  induction hist generalizing s with
  | nil => simp [accProd, defectSum]
  | cons a t ih =>
    obtain ⟨e, r⟩ := a
    by_cases he : Enabled s e
    · obtain ⟨s', h1, h2, -⟩ := applyEvent_spec P h s hs e 0 he
      rw [accProd, defectSum, if_pos he, if_pos he, h1]
      dsimp only
      obtain ⟨i1, i2, i3, i4⟩ := ih s' h2
      obtain ⟨d1, d2⟩ := stepDefect_unit P s hs k e
      rw [stepFactor_eq]
      refine ⟨mul_nonneg (by linarith) i1, ?_, ?_, by linarith⟩
      · nlinarith
      · nlinarith
    · rw [accProd, defectSum, if_neg he, if_neg he]
      simp

theorem accProd_unweighted (P : GParams) (h : WF P) (k : Nat) (s : GState) (hs : Inv P s)
    (hinf : s.inf.weighted = false) (hlinks : s.links.weighted = false) (hist : List (GEvent × Rat)) :
    accProd P k s hist = 1 := by
  induction hist generalizing s with
  | nil => rfl
  | cons a t ih =>
    obtain ⟨e, r⟩ := a
    by_cases he : Enabled s e
    · obtain ⟨s', h1, h2, -⟩ := applyEvent_spec P h s hs e 0 he
      rw [accProd, if_pos he, h1]
      dsimp only
      have e1 : s'.inf.weighted = false := by rw [h2.infW, ← hs.infW]; exact hinf
      have e2 : s'.links.weighted = false := by rw [h2.linkW, ← hs.linkW]; exact hlinks
      rw [ih s' h2 e1 e2]
      cases e <;> simp [stepFactor, hinf, hlinks]
    · rw [accProd, if_neg he]

/-! ### the chain's law is a non-negative measure -/

theorem jumpDist_nonneg (P : GParams) (h : WF P) (n : Nat) (st : Node → St) :
    Dist.NonNeg (Chain.jumpDist P n st) := by
  induction n generalizing st with
  | zero => exact nonneg_pure _
  | succ n ih =>
    rw [Chain.jumpDist]
    split
    · exact nonneg_pure _
    · apply nonneg_bind
      · intro x hx
        simp only [List.mem_map] at hx
        obtain ⟨e, -, rfl⟩ := hx
        exact div_nonneg (rate_nonneg P h e) (chain_totalRate_nonneg P h st)
      · intro x _
        exact nonneg_push _ _ (ih _)


/-! ### support: positive-mass histories are legal paths -/

/-- support of the jump chain: legal path, at most `n` events, and fewer than `n` only if it ends absorbed -/
theorem chain_support (P : GParams) (h : WF P) (n : Nat) (st : Node → St) (hist : List (GEvent × Rat))
    (hm : mass (Chain.jumpDist P n st) (fun x => x == hist) ≠ 0) :
    Chain.Legal P st hist ∧ hist.length ≤ n ∧
      (hist.length < n → Chain.totalRate P (Chain.applyHist P st hist) = 0) := by
  induction n generalizing st hist with
  | zero =>
    rw [chain_zero, mass_pure_nil] at hm
    cases hist with
    | nil => simp [Chain.Legal]
    | cons a t => simp at hm
  | succ n ih =>
    by_cases h0 : Chain.totalRate P st = 0
    · rw [chain_halted P _ _ h0, mass_pure_nil] at hm
      cases hist with
      | nil => simp [Chain.Legal, Chain.applyHist, h0]
      | cons a t => simp at hm
    · cases hist with
      | nil => exact absurd (chain_nil P n st h0) hm
      | cons a h' =>
        obtain ⟨e, r⟩ := a
        rw [chain_step P h n st h0] at hm
        by_cases hr : r = Chain.totalRate P st
        · rw [if_pos hr] at hm
          by_cases he : e ∈ Chain.enabled P st
          · rw [if_pos he] at hm
            obtain ⟨i1, i2, i3⟩ := ih (Chain.apply P st e) h' (right_ne_zero_of_mul hm)
            have hpos : 0 < Chain.totalRate P st :=
              lt_of_le_of_ne (chain_totalRate_nonneg P h st) (Ne.symm h0)
            refine ⟨⟨(mem_enabled P st e).1 he, hr, hpos, i1⟩, ?_, ?_⟩
            · simp only [List.length_cons]; omega
            · intro hl
              simp only [List.length_cons] at hl
              exact i3 (by omega)
          · rw [if_neg he] at hm; simp at hm
        · rw [if_neg hr] at hm; exact absurd rfl hm

theorem legal_prefix (P : GParams) (st : Node → St) (h1 h2 : List (GEvent × Rat))
    (hl : Chain.Legal P st (h1 ++ h2)) : Chain.Legal P st h1 := by
  induction h1 generalizing st with
  | nil => trivial
  | cons a t ih =>
    obtain ⟨e, r⟩ := a
    obtain ⟨a1, a2, a3, a4⟩ := hl
    exact ⟨a1, a2, a3, ih _ a4⟩

/-- along a legal path of the chain the model never raises KeyError, keeps its invariant, and its status is the
chain's -/
theorem legal_applyHist (P : GParams) (h : WF P) (s : GState) (hs : Inv P s) (hist : List (GEvent × Rat))
    (hl : Chain.Legal P s.status hist) :
    ∃ s', applyHist P s hist = some s' ∧ Inv P s' ∧ s'.status = Chain.applyHist P s.status hist := by
  induction hist generalizing s with
  | nil => exact ⟨s, rfl, hs, rfl⟩
  | cons a t ih =>
    obtain ⟨e, r⟩ := a
    obtain ⟨a1, -, -, a4⟩ := hl
    have he : Enabled s e := (enabled_iff_chain P s hs e).2 ((mem_enabled P _ e).2 a1)
    obtain ⟨s', h1, h2, h3⟩ := applyEvent_spec P h s hs e 0 he
    rw [← h3] at a4
    obtain ⟨s'', g1, g2, g3⟩ := ih s' h2 a4
    refine ⟨s'', ?_, g2, ?_⟩
    · rw [applyHist, h1]; exact g1
    · rw [g3, h3]; rfl

/-! ### recorded times do not influence the law -/

/-- the part of the state that selection and bookkeeping read: everything except the recorded times and the log -/
def Core (a b : GState) : Prop :=
  a.status = b.status ∧ a.inf = b.inf ∧ a.links = b.links ∧ a.S = b.S ∧ a.I = b.I ∧ a.R = b.R

theorem core_refl (a : GState) : Core a a := ⟨rfl, rfl, rfl, rfl, rfl, rfl⟩

/-- `applyEvent` with two different event times: same outcome class, same core -/
theorem applyEvent_core (P : GParams) (a b : GState) (hc : Core a b) (e : GEvent) (t t' : Rat) :
    match applyEvent P a e t, applyEvent P b e t' with
    | some a', some b' => Core a' b'
    | none, none => True
    | _, _ => False := by
  rcases a with ⟨st, inf, links, tm, S, I, R, lg⟩
  rcases b with ⟨st', inf', links', tm', S', I', R', lg'⟩
  obtain ⟨h1, h2, h3, h4, h5, h6⟩ := hc
  dsimp only at h1 h2 h3 h4 h5 h6
  subst h1 h2 h3 h4 h5 h6
  cases e with
  | recover u =>
    simp only [applyEvent, applyRec, Option.bind_eq_bind, Option.pure_def]
    cases inf.remove u with
    | none => trivial
    | some i1 =>
      simp only [Option.bind_some]
      cases (if P.sis = true then recLoopSIS P (fset st u (if P.sis = true then St.S else St.R)) u links (P.nbrs u)
               else recLoopSIR (fset st u (if P.sis = true then St.S else St.R)) u links (P.nbrs u)) with
      | none => trivial
      | some l1 => exact ⟨rfl, rfl, rfl, rfl, rfl, rfl⟩
  | transmit u v =>
    simp only [applyEvent, applyTrans, Option.bind_eq_bind, Option.pure_def]
    cases inf.update v (nodeW P v) with
    | none => trivial
    | some i1 =>
      simp only [Option.bind_some]
      cases transLoop P (fset st v St.I) v links (P.nbrs v) with
      | none => trivial
      | some l1 => exact ⟨rfl, rfl, rfl, rfl, rfl, rfl⟩

/-- the `n`-event law with an arbitrary supply of recorded event times (one per event) -/
def trajDistT (P : GParams) (k : Nat) : List Rat → GState → Dist (List (GEvent × Rat))
  | [], _ => Dist.pure []
  | t :: ts, s =>
    if halted P s then Dist.pure []
    else
      Dist.bind (pickDist P s k) fun o =>
        match o with
        | none => []
        | some e =>
          match applyEvent P s e t with
          | none => []
          | some s' => Dist.push (fun h => (e, totalRate P s) :: h) (trajDistT P k ts s')

theorem trajDistT_eq' (P : GParams) (k : Nat) (ts : List Rat) (a b : GState) (hc : Core a b) :
    trajDistT P k ts a = trajDist P k ts.length b := by
  induction ts generalizing a b with
  | nil => rfl
  | cons t ts ih =>
    obtain ⟨-, c2, c3, -⟩ := id hc
    have e1 : totalRate P a = totalRate P b := by
      unfold totalRate recRate transRate; rw [c2, c3]
    have e2 : halted P a ↔ halted P b := by unfold halted; rw [e1, c2]
    have e3 : pickDist P a k = pickDist P b k := by
      unfold pickDist recThr recRate; rw [e1, c2, c3]
    rw [trajDistT, List.length_cons, trajDist]
    by_cases hh : halted P a
    · rw [if_pos hh, if_pos (e2.1 hh)]
    · rw [if_neg hh, if_neg (fun hb => hh (e2.2 hb)), e3]
      congr 1
      funext o
      cases o with
      | none => rfl
      | some e =>
        dsimp only
        have := applyEvent_core P a b hc e t 0
        cases ha : applyEvent P a e t with
        | none =>
          cases hb : applyEvent P b e 0 with
          | none => rfl
          | some b' => rw [ha, hb] at this; exact absurd this id
        | some a' =>
          cases hb : applyEvent P b e 0 with
          | none => rw [ha, hb] at this; exact absurd this id
          | some b' =>
            rw [ha, hb] at this
            dsimp only at this ⊢
            rw [ih a' b' this, e1]


/-! ### the chain's law is a probability measure -/

theorem sum_rates (P : GParams) (st : Node → St) :
    sumRat ((Chain.enabled P st).map (Chain.rate P)) = Chain.totalRate P st := by
  unfold Chain.enabled Chain.totalRate
  rw [List.map_append, sumRat_append, List.map_map, List.map_map]
  rfl

theorem jumpDist_total (P : GParams) (n : Nat) (st : Node → St) :
    mass (Chain.jumpDist P n st) (fun _ => true) = 1 := by
  induction n generalizing st with
  | zero => simp [chain_zero, mass_pure]
  | succ n ih =>
    rw [Chain.jumpDist]
    split
    · simp [mass_pure]
    · rename_i h0
      rw [mass_bind, List.map_map,
        sumRat_map_congr _ _ (fun e => Chain.rate P e * (Chain.totalRate P st)⁻¹) (by
          intro e _
          simp only [Function.comp]
          rw [mass_push, ih]; ring),
        sumRat_map_mul_right, sum_rates]
      field_simp

/-! ### the defect vanishes as the budget of rejection rounds grows -/

theorem pow_small (q ε : Rat) (h0 : 0 ≤ q) (h1 : q < 1) (hε : 0 < ε) : ∃ K : Nat, ∀ k, K ≤ k → q ^ k ≤ ε := by
  obtain ⟨K, hK⟩ := exists_pow_lt_of_lt_one hε h1
  exact ⟨K, fun k hk => le_trans (pow_le_pow_of_le_one h0 (le_of_lt h1) hk) (le_of_lt hK)⟩

theorem sumRat_ge_mem {γ : Type} (l : List γ) (f : γ → Rat) (hf : ∀ c ∈ l, 0 ≤ f c) (x : γ) (hx : x ∈ l) :
    f x ≤ sumRat (l.map f) := by
  induction l with
  | nil => simp at hx
  | cons a t ih =>
    simp only [List.map_cons, sumRat_cons]
    have ha := hf a (by simp)
    have ht := sumRat_map_nonneg t f (fun c hc => hf c (by simp [hc]))
    rcases List.mem_cons.1 hx with rfl | hx'
    · linarith
    · have := ih (fun c hc => hf c (by simp [hc])) hx'
      linarith

/-- a candidate with a non-zero rate makes the structure's weight sum positive, hence `ρ < 1` (C16) -/
theorem stepDefect_small (P : GParams) (h : WF P) (s : GState) (hs : Inv P s) (e : GEvent) (he : Enabled s e)
    (hr : Chain.rate P e ≠ 0) (ε : Rat) (hε : 0 < ε) : ∃ K : Nat, ∀ k, K ≤ k → stepDefect s k e ≤ ε := by
  cases e with
  | recover u =>
    by_cases hw : s.inf.weighted = true
    · have hsome : P.nw.isSome = true := by rw [← hs.infW]; exact hw
      obtain ⟨f, hf⟩ := Option.isSome_iff_exists.1 hsome
      have hu : s.inf.getW u = f u := hs.inf_w f hf u he
      have hfu : f u ≠ 0 := by
        intro hc
        apply hr
        simp [Chain.rate, Chain.nodeRate, hf, hc]
      have hpos : 0 < s.inf.getW u := by
        rw [hu]; exact lt_of_le_of_ne (h.nw_nonneg f hf u) (Ne.symm hfu)
      have hW : 0 < s.inf.weightSum :=
        lt_of_lt_of_le hpos (sumRat_ge_mem s.inf.items s.inf.getW (hs.infInv.nonneg hw) u he)
      obtain ⟨b1, b2⟩ := LD.rej_bounds s.inf hs.infInv hw hW
      obtain ⟨K, hK⟩ := pow_small _ ε b1 b2 hε
      exact ⟨K, fun k hk => by simp only [stepDefect, hw, if_true]; exact hK k hk⟩
    · exact ⟨0, fun k _ => by simp only [stepDefect, hw]; exact le_of_lt hε⟩
  | transmit u v =>
    by_cases hw : s.links.weighted = true
    · have hsome : P.ew.isSome = true := by rw [← hs.linkW]; exact hw
      obtain ⟨f, hf⟩ := Option.isSome_iff_exists.1 hsome
      have hu : s.links.getW (u, v) = f u v := hs.link_w f hf (u, v) he
      have hfu : f u v ≠ 0 := by
        intro hc
        apply hr
        simp [Chain.rate, Chain.edgeRate, hf, hc]
      have hpos : 0 < s.links.getW (u, v) := by
        rw [hu]; exact lt_of_le_of_ne (h.ew_nonneg f hf u v) (Ne.symm hfu)
      have hW : 0 < s.links.weightSum :=
        lt_of_lt_of_le hpos (sumRat_ge_mem s.links.items s.links.getW (hs.linkInv.nonneg hw) (u, v) he)
      obtain ⟨b1, b2⟩ := LD.rej_bounds s.links hs.linkInv hw hW
      obtain ⟨K, hK⟩ := pow_small _ ε b1 b2 hε
      exact ⟨K, fun k hk => by simp only [stepDefect, hw, if_true]; exact hK k hk⟩
    · exact ⟨0, fun k _ => by simp only [stepDefect, hw]; exact le_of_lt hε⟩

theorem defect_small (P : GParams) (h : WF P) (s : GState) (hs : Inv P s) (hist : List (GEvent × Rat))
    (hl : Chain.Legal P s.status hist) (hr : ∀ x ∈ hist, Chain.rate P x.1 ≠ 0) (ε : Rat) (hε : 0 < ε) :
    ∃ K : Nat, ∀ k, K ≤ k → defectSum P k s hist ≤ ε := by
  induction hist generalizing s ε with
  | nil => exact ⟨0, fun k _ => by simp only [defectSum]; exact le_of_lt hε⟩
  | cons a t ih =>
    obtain ⟨e, r⟩ := a
    obtain ⟨a1, -, -, a4⟩ := hl
    have he : Enabled s e := (enabled_iff_chain P s hs e).2 ((mem_enabled P _ e).2 a1)
    obtain ⟨s', h1, h2, h3⟩ := applyEvent_spec P h s hs e 0 he
    rw [← h3] at a4
    have hε2 : 0 < ε / 2 := by linarith
    obtain ⟨K1, hK1⟩ := ih s' h2 a4 (fun x hx => hr x (by simp [hx])) (ε / 2) hε2
    obtain ⟨K2, hK2⟩ := stepDefect_small P h s hs e he (hr (e, r) (by simp)) (ε / 2) hε2
    refine ⟨max K1 K2, fun k hk => ?_⟩
    rw [defectSum, if_pos he, h1]
    dsimp only
    have := hK1 k (le_trans (le_max_left _ _) hk)
    have := hK2 k (le_trans (le_max_right _ _) hk)
    linarith

/-- events on a positive-mass path of the chain have non-zero rates -/
theorem chain_support_rate (P : GParams) (h : WF P) (n : Nat) (st : Node → St) (hist : List (GEvent × Rat))
    (hm : mass (Chain.jumpDist P n st) (fun x => x == hist) ≠ 0) : ∀ x ∈ hist, Chain.rate P x.1 ≠ 0 := by
  induction n generalizing st hist with
  | zero =>
    rw [chain_zero, mass_pure_nil] at hm
    cases hist with
    | nil => simp
    | cons a t => simp at hm
  | succ n ih =>
    by_cases h0 : Chain.totalRate P st = 0
    · rw [chain_halted P _ _ h0, mass_pure_nil] at hm
      cases hist with
      | nil => simp
      | cons a t => simp at hm
    · cases hist with
      | nil => simp
      | cons a h' =>
        obtain ⟨e, r⟩ := a
        rw [chain_step P h n st h0] at hm
        by_cases hr : r = Chain.totalRate P st
        · rw [if_pos hr] at hm
          have i1 := ih (Chain.apply P st e) h' (right_ne_zero_of_mul hm)
          have i2 := left_ne_zero_of_mul hm
          intro x hx
          rcases List.mem_cons.1 hx with rfl | hx'
          · intro hc
            apply i2
            dsimp only at hc
            rw [hc]; simp
          · exact i1 x hx'
        · rw [if_neg hr] at hm; exact absurd rfl hm


end Gillespie

/-! ### `halted` is the tape loop's stop test -/
namespace Gillespie

/-- the tape loop (no time horizon) returns the current state exactly on `halted` … -/
theorem loop_halted (P : GParams) (cfuel fuel : Nat) (s : GState) (tv : Rat) (hh : halted P s) :
    loop P none cfuel (fuel + 1) s (if totalRate P s > 0 then some tv else none) = pure s := by
  by_cases hp : totalRate P s > 0
  · rw [if_pos hp, loop]
    have : s.inf.items.isEmpty = true := by
      rcases hh with h | h
      · exact h
      · exact absurd hp h
    simp [this]
  · rw [if_neg hp, loop]

/-- … and otherwise selects an event with `pick` in `s`, applies it, and draws the next holding time with the total
rate of the new state -/
theorem loop_running (P : GParams) (cfuel fuel : Nat) (s : GState) (tv : Rat) (hh : ¬ halted P s) :
    loop P none cfuel (fuel + 1) s (if totalRate P s > 0 then some tv else none) =
      (do
        let e ← pick P s cfuel
        match applyEvent P s e tv with
        | none => TM.fail "KeyError"
        | some s' =>
          let tot := totalRate P s'
          if tot > 0 then do
            let d ← TM.popExpo tot
            loop P none cfuel fuel s' (some (tv + d))
          else loop P none cfuel fuel s' none) := by
  have hp : totalRate P s > 0 := pos_of_not_halted P s hh
  have he : ¬ (s.inf.items.isEmpty = true) := fun h => hh (Or.inl h)
  rw [if_pos hp, loop, if_neg (by simp [he, ERat.lt])]
  rfl

end Gillespie
