import Driver
import EoNVerif.Gen.FastSIRGen
open Lean Drv

/-! JSON-lines driver for the code GENERATED from `fast_SIR`'s own part (Gen/FastSIRGen.lean) plugged into the code
generated from `fast_nonMarkov_SIR`.  `np.exp` is a table read off the implementation's own calls. -/
namespace DrvGenFSIR
open PyFS GenFSIR

def run (j : Json) : Except String Json := do
  let n ← getNat (← fld j "n")
  let adj ← getList (getList getNat) (← fld j "adj")
  let tmin ← getRat (← fld j "tmin")
  let tmax ← getERat (← fld j "tmax")
  let infs ← getList getNat (← fld j "infs")
  let recs ← getList getNat (← fld j "recs")
  let tau ← getRat (← fld j "tau")
  let gamma ← getRat (← fld j "gamma")
  let tape ← getList getDraw (← fld j "tape")
  let exps ← getList (fun e => do match ← getArr e with
    | [a, b] => pure ((← getRat a), (← getRat b))
    | _ => .error "bad exp entry") (← fld j "exps")
  let ew ← match fldOpt j "ew" with
    | some .null => pure none
    | none => pure none
    | some x => do
      let l ← getList (fun e => do match ← getArr e with
        | [a, b, w] => pure (((← getNat a), (← getNat b)), (← getRat w))
        | _ => .error "bad ew entry") x
      pure (some l)
  let nw ← match fldOpt j "nw" with
    | some .null => pure none
    | none => pure none
    | some x => (getList getRat x).map some
  let tw : Option Rate2 := ew.map fun l => fun x y => match PyRT.alFind? l (x, y) with | some w => pure w | none => throw "KeyError"
  let rw : Option Rate1 := nw.map fun l => fun x => match l[x]? with | some w => pure w | none => throw "KeyError"
  let exp : Rat → Rat := fun x => match PyRT.alFind? exps x with | some v => v | none => 0
  match (fast_SIR exp (listFn adj []) n tmin tmax tau gamma tw rw infs recs (4 * n * n + 4 * n + 10)) { tape := tape } with
  | .error e => pure (errObj e)
  | .ok (s, ts) =>
    pure (Json.mkObj [("ok", Json.bool true), ("times", jArr jERat s.times), ("S", jArr jInt s.S), ("I", jArr jInt s.I),
      ("R", jArr jInt s.R),
      ("trans", jArr (fun e => Json.arr #[jERat e.1, (match e.2.1 with | some u => jNat u | none => Json.null), jNat e.2.2]) s.transmissions),
      ("trace", Json.arr (ts.trace.map jCall)), ("unused", jNat ts.tape.length)])

def handle (line : String) : String :=
  match Json.parse line with
  | .ok j => match run j with
    | .ok r => r.compress
    | .error e => (errObj ("driverfsir:" ++ e)).compress
  | .error e => (errObj ("parse:" ++ e)).compress
end DrvGenFSIR
