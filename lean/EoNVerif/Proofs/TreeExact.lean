import EoNVerif.Model.ODE2
import Mathlib.Tactic.Ring
import Mathlib.Tactic.FieldSimp
import Mathlib.Tactic.Linarith
import Mathlib.Tactic.LinearCombination
import Mathlib.Algebra.Order.Field.Rat
/-!
Tree exactness of the pair-based SIR system (`ODE.sirPairBased`, the model of `_dSIR_pair_based_`) for the two smallest
trees, against an explicit master (Kolmogorov forward) equation of the node-level SIR Markov chain, over `Rat`.

Index convention (that of `ODE.sirPairBased`): `XY i j = P(i susceptible ∧ j infectious)` and `tr i j` is the rate at
which infectious `j` infects susceptible `i`; `rr i` is the recovery rate of `i`.
-/
set_option linter.unusedSimpArgs false
namespace TreeExact
open St

/-- sum over the three statuses, written out -/
def sumSt (f : St → Rat) : Rat := f S + f I + f R
/-- indicator of `x = y` -/
def ind (x y : St) : Rat := if x = y then 1 else 0

/-! ## Part A: the single edge 0 – 1 -/

def nbrs2 : Nat → List Nat
  | 0 => [1]
  | 1 => [0]
  | _ => []

/-- rate at which node 0 leaves its current status `a` when node 1 has status `b` -/
def leave2_0 (tr : Nat → Nat → Rat) (rr : Nat → Rat) (a b : St) : Rat :=
  match a with
  | S => tr 0 1 * ind b I
  | I => rr 0
  | R => 0
/-- rate at which node 1 leaves its current status `b` when node 0 has status `a` -/
def leave2_1 (tr : Nat → Nat → Rat) (rr : Nat → Rat) (a b : St) : Rat :=
  match b with
  | S => tr 1 0 * ind a I
  | I => rr 1
  | R => 0

/-- master equation of the SIR chain on the edge: `d/dt p(a,b)` = inflow (through node 0, through node 1) − outflow;
the only moves of a node are S → I (infection) and I → R (recovery) -/
def me2 (tr : Nat → Nat → Rat) (rr : Nat → Rat) (p : St → St → Rat) (a b : St) : Rat :=
  (match a with
    | S => 0
    | I => leave2_0 tr rr S b * p S b
    | R => leave2_0 tr rr I b * p I b)
  + (match b with
    | S => 0
    | I => leave2_1 tr rr a S * p a S
    | R => leave2_1 tr rr a I * p a I)
  - (leave2_0 tr rr a b + leave2_1 tr rr a b) * p a b

/-- `X_i = P(i = S)` -/
def mX2 (p : St → St → Rat) : Nat → Rat
  | 0 => sumSt fun b => p S b
  | 1 => sumSt fun a => p a S
  | _ => 0
/-- `Y_i = P(i = I)` -/
def mY2 (p : St → St → Rat) : Nat → Rat
  | 0 => sumSt fun b => p I b
  | 1 => sumSt fun a => p a I
  | _ => 0
/-- `XY i j = P(i = S ∧ j = I)` on the two directed edges, `0` elsewhere -/
def mXY2 (p : St → St → Rat) : Nat → Nat → Rat
  | 0, 1 => p S I
  | 1, 0 => p I S
  | _, _ => 0
/-- `XX i j = P(i = S ∧ j = S)` on the two directed edges, `0` elsewhere -/
def mXX2 (p : St → St → Rat) : Nat → Nat → Rat
  | 0, 1 => p S S
  | 1, 0 => p S S
  | _, _ => 0

theorem me2_conserves_aux (tr : Nat → Nat → Rat) (rr : Nat → Rat) (p : St → St → Rat) :
    sumSt (fun a => sumSt fun b => me2 tr rr p a b) = 0 := by
  simp [sumSt, me2, leave2_0, leave2_1, ind]
  ring

/-- unfolding set for Part A -/
macro "edge_simp" : tactic =>
  `(tactic| (simp [ODE.sirPairBased, ODE.xinv, nbrs2, mX2, mY2, mXY2, mXX2, sumSt, me2, leave2_0, leave2_1, ind] <;> ring))

theorem edge_dX (tr : Nat → Nat → Rat) (rr : Nat → Rat) (p : St → St → Rat) (i : Nat) :
    mX2 (me2 tr rr p) i = (ODE.sirPairBased nbrs2 tr rr (mX2 p) (mY2 p) (mXY2 p) (mXX2 p)).1 i := by
  match i with
  | 0 => edge_simp
  | 1 => edge_simp
  | n + 2 => simp [ODE.sirPairBased, nbrs2, mX2]

theorem edge_dY (tr : Nat → Nat → Rat) (rr : Nat → Rat) (p : St → St → Rat) (i : Nat) :
    mY2 (me2 tr rr p) i = (ODE.sirPairBased nbrs2 tr rr (mX2 p) (mY2 p) (mXY2 p) (mXX2 p)).2.1 i := by
  match i with
  | 0 => edge_simp
  | 1 => edge_simp
  | n + 2 => simp [ODE.sirPairBased, nbrs2, mY2]

theorem edge_dXY (tr : Nat → Nat → Rat) (rr : Nat → Rat) (p : St → St → Rat) (i j : Nat) :
    mXY2 (me2 tr rr p) i j = (ODE.sirPairBased nbrs2 tr rr (mX2 p) (mY2 p) (mXY2 p) (mXX2 p)).2.2.1 i j := by
  match i, j with
  | 0, 0 => simp [ODE.sirPairBased, nbrs2, mXY2]
  | 0, 1 => edge_simp
  | 0, n + 2 => simp [ODE.sirPairBased, nbrs2, mXY2]
  | 1, 0 => edge_simp
  | 1, 1 => simp [ODE.sirPairBased, nbrs2, mXY2]
  | 1, n + 2 => simp [ODE.sirPairBased, nbrs2, mXY2]
  | m + 2, _ => simp [ODE.sirPairBased, nbrs2, mXY2]

theorem edge_dXX (tr : Nat → Nat → Rat) (rr : Nat → Rat) (p : St → St → Rat) (i j : Nat) :
    mXX2 (me2 tr rr p) i j = (ODE.sirPairBased nbrs2 tr rr (mX2 p) (mY2 p) (mXY2 p) (mXX2 p)).2.2.2 i j := by
  match i, j with
  | 0, 0 => simp [ODE.sirPairBased, nbrs2, mXX2]
  | 0, 1 => edge_simp
  | 0, n + 2 => simp [ODE.sirPairBased, nbrs2, mXX2]
  | 1, 0 => edge_simp
  | 1, 1 => simp [ODE.sirPairBased, nbrs2, mXX2]
  | 1, n + 2 => simp [ODE.sirPairBased, nbrs2, mXX2]
  | m + 2, _ => simp [ODE.sirPairBased, nbrs2, mXX2]

/-- **Single edge: the pair-based system is the marginal system of the master equation, exactly, for every `p`.** -/
theorem edge_exact_aux (tr : Nat → Nat → Rat) (rr : Nat → Rat) (p : St → St → Rat) :
    (mX2 (me2 tr rr p), mY2 (me2 tr rr p), mXY2 (me2 tr rr p), mXX2 (me2 tr rr p))
      = ODE.sirPairBased nbrs2 tr rr (mX2 p) (mY2 p) (mXY2 p) (mXX2 p) := by
  refine Prod.ext ?_ (Prod.ext ?_ (Prod.ext ?_ ?_))
  · funext i; exact edge_dX tr rr p i
  · funext i; exact edge_dY tr rr p i
  · funext i j; exact edge_dXY tr rr p i j
  · funext i j; exact edge_dXX tr rr p i j

/-! ## Part B: the path 0 – 1 – 2 -/

def nbrs3 : Nat → List Nat
  | 0 => [1]
  | 1 => [0, 2]
  | 2 => [1]
  | _ => []

/-- rate at which node 0 leaves status `a` (neighbour 1 has status `b`) -/
def leave3_0 (tr : Nat → Nat → Rat) (rr : Nat → Rat) (a b _c : St) : Rat :=
  match a with
  | S => tr 0 1 * ind b I
  | I => rr 0
  | R => 0
/-- rate at which node 1 leaves status `b` (neighbours 0 and 2 have statuses `a`, `c`) -/
def leave3_1 (tr : Nat → Nat → Rat) (rr : Nat → Rat) (a b c : St) : Rat :=
  match b with
  | S => tr 1 0 * ind a I + tr 1 2 * ind c I
  | I => rr 1
  | R => 0
/-- rate at which node 2 leaves status `c` (neighbour 1 has status `b`) -/
def leave3_2 (tr : Nat → Nat → Rat) (rr : Nat → Rat) (_a b c : St) : Rat :=
  match c with
  | S => tr 2 1 * ind b I
  | I => rr 2
  | R => 0

/-- master equation of the SIR chain on the path 0 – 1 – 2 (27 states): inflow through each of the three nodes minus
outflow -/
def me3 (tr : Nat → Nat → Rat) (rr : Nat → Rat) (p : St → St → St → Rat) (a b c : St) : Rat :=
  (match a with
    | S => 0
    | I => leave3_0 tr rr S b c * p S b c
    | R => leave3_0 tr rr I b c * p I b c)
  + (match b with
    | S => 0
    | I => leave3_1 tr rr a S c * p a S c
    | R => leave3_1 tr rr a I c * p a I c)
  + (match c with
    | S => 0
    | I => leave3_2 tr rr a b S * p a b S
    | R => leave3_2 tr rr a b I * p a b I)
  - (leave3_0 tr rr a b c + leave3_1 tr rr a b c + leave3_2 tr rr a b c) * p a b c

def mX3 (p : St → St → St → Rat) : Nat → Rat
  | 0 => sumSt fun b => sumSt fun c => p S b c
  | 1 => sumSt fun a => sumSt fun c => p a S c
  | 2 => sumSt fun a => sumSt fun b => p a b S
  | _ => 0
def mY3 (p : St → St → St → Rat) : Nat → Rat
  | 0 => sumSt fun b => sumSt fun c => p I b c
  | 1 => sumSt fun a => sumSt fun c => p a I c
  | 2 => sumSt fun a => sumSt fun b => p a b I
  | _ => 0
/-- `XY i j = P(i = S ∧ j = I)` on the four directed edges -/
def mXY3 (p : St → St → St → Rat) : Nat → Nat → Rat
  | 0, 1 => sumSt fun c => p S I c
  | 1, 0 => sumSt fun c => p I S c
  | 1, 2 => sumSt fun a => p a S I
  | 2, 1 => sumSt fun a => p a I S
  | _, _ => 0
/-- `XX i j = P(i = S ∧ j = S)` on the four directed edges -/
def mXX3 (p : St → St → St → Rat) : Nat → Nat → Rat
  | 0, 1 => sumSt fun c => p S S c
  | 1, 0 => sumSt fun c => p S S c
  | 1, 2 => sumSt fun a => p a S S
  | 2, 1 => sumSt fun a => p a S S
  | _, _ => 0

/-- `PA a = P(0 = a ∧ 1 = S)` -/
def PA (p : St → St → St → Rat) (a : St) : Rat := sumSt fun b => p a S b
/-- `PB b = P(1 = S ∧ 2 = b)` -/
def PB (p : St → St → St → Rat) (b : St) : Rat := sumSt fun a => p a S b
/-- `P(1 = S)` (`= mX3 p 1`) -/
def PS (p : St → St → St → Rat) : Rat := sumSt fun a => sumSt fun b => p a S b

theorem PS_eq_mX3 (p : St → St → St → Rat) : PS p = mX3 p 1 := rfl

/-- the conditional-independence (closure) relation at the middle node: given 1 = S, the statuses of 0 and 2 are
independent -/
def Closure (p : St → St → St → Rat) : Prop := ∀ a b : St, p a S b * PS p = PA p a * PB p b

theorem me3_conserves_aux (tr : Nat → Nat → Rat) (rr : Nat → Rat) (p : St → St → St → Rat) :
    sumSt (fun a => sumSt fun b => sumSt fun c => me3 tr rr p a b c) = 0 := by
  simp [sumSt, me3, leave3_0, leave3_1, leave3_2, ind]
  ring

macro "path_simp" : tactic =>
  `(tactic| (simp [ODE.sirPairBased, nbrs3, mX3, mY3, mXY3, mXX3, sumSt, me3, leave3_0, leave3_1, leave3_2, ind] <;> ring))

theorem path_dX (tr : Nat → Nat → Rat) (rr : Nat → Rat) (p : St → St → St → Rat) (i : Nat) :
    mX3 (me3 tr rr p) i = (ODE.sirPairBased nbrs3 tr rr (mX3 p) (mY3 p) (mXY3 p) (mXX3 p)).1 i := by
  match i with
  | 0 => path_simp
  | 1 => path_simp
  | 2 => path_simp
  | n + 3 => simp [ODE.sirPairBased, nbrs3, mX3]

theorem path_dY (tr : Nat → Nat → Rat) (rr : Nat → Rat) (p : St → St → St → Rat) (i : Nat) :
    mY3 (me3 tr rr p) i = (ODE.sirPairBased nbrs3 tr rr (mX3 p) (mY3 p) (mXY3 p) (mXX3 p)).2.1 i := by
  match i with
  | 0 => path_simp
  | 1 => path_simp
  | 2 => path_simp
  | n + 3 => simp [ODE.sirPairBased, nbrs3, mY3]

/-! ### the pair components: each uses exactly one instance of the closure relation -/

theorem path_dXY_01 (tr : Nat → Nat → Rat) (rr : Nat → Rat) (p : St → St → St → Rat) (hx : PS p ≠ 0)
    (h : p S S I * PS p = PA p S * PB p I) :
    mXY3 (me3 tr rr p) 0 1 = (ODE.sirPairBased nbrs3 tr rr (mX3 p) (mY3 p) (mXY3 p) (mXX3 p)).2.2.1 0 1 := by
  have hx' : PS p * ODE.xinv (PS p) = 1 := by simp [ODE.xinv, hx]
  simp [ODE.sirPairBased, nbrs3, ← PS_eq_mX3]
  generalize ODE.xinv (PS p) = x at hx' ⊢
  simp only [PS, PA, PB, sumSt] at h hx'
  simp [mXY3, mXX3, sumSt, me3, leave3_0, leave3_1, leave3_2, ind]
  linear_combination (tr 1 2 * x) * h - (tr 1 2 * p S S I) * hx'

theorem path_dXY_10 (tr : Nat → Nat → Rat) (rr : Nat → Rat) (p : St → St → St → Rat) (hx : PS p ≠ 0)
    (h : p I S I * PS p = PA p I * PB p I) :
    mXY3 (me3 tr rr p) 1 0 = (ODE.sirPairBased nbrs3 tr rr (mX3 p) (mY3 p) (mXY3 p) (mXX3 p)).2.2.1 1 0 := by
  have hx' : PS p * ODE.xinv (PS p) = 1 := by simp [ODE.xinv, hx]
  simp [ODE.sirPairBased, nbrs3, ← PS_eq_mX3]
  generalize ODE.xinv (PS p) = x at hx' ⊢
  simp only [PS, PA, PB, sumSt] at h hx'
  simp [mXY3, mXX3, sumSt, me3, leave3_0, leave3_1, leave3_2, ind]
  linear_combination (-(tr 1 2 * x)) * h + (tr 1 2 * p I S I) * hx'

theorem path_dXY_12 (tr : Nat → Nat → Rat) (rr : Nat → Rat) (p : St → St → St → Rat) (hx : PS p ≠ 0)
    (h : p I S I * PS p = PA p I * PB p I) :
    mXY3 (me3 tr rr p) 1 2 = (ODE.sirPairBased nbrs3 tr rr (mX3 p) (mY3 p) (mXY3 p) (mXX3 p)).2.2.1 1 2 := by
  have hx' : PS p * ODE.xinv (PS p) = 1 := by simp [ODE.xinv, hx]
  simp [ODE.sirPairBased, nbrs3, ← PS_eq_mX3]
  generalize ODE.xinv (PS p) = x at hx' ⊢
  simp only [PS, PA, PB, sumSt] at h hx'
  simp [mXY3, mXX3, sumSt, me3, leave3_0, leave3_1, leave3_2, ind]
  linear_combination (-(tr 1 0 * x)) * h + (tr 1 0 * p I S I) * hx'

theorem path_dXY_21 (tr : Nat → Nat → Rat) (rr : Nat → Rat) (p : St → St → St → Rat) (hx : PS p ≠ 0)
    (h : p I S S * PS p = PA p I * PB p S) :
    mXY3 (me3 tr rr p) 2 1 = (ODE.sirPairBased nbrs3 tr rr (mX3 p) (mY3 p) (mXY3 p) (mXX3 p)).2.2.1 2 1 := by
  have hx' : PS p * ODE.xinv (PS p) = 1 := by simp [ODE.xinv, hx]
  simp [ODE.sirPairBased, nbrs3, ← PS_eq_mX3]
  generalize ODE.xinv (PS p) = x at hx' ⊢
  simp only [PS, PA, PB, sumSt] at h hx'
  simp [mXY3, mXX3, sumSt, me3, leave3_0, leave3_1, leave3_2, ind]
  linear_combination (tr 1 0 * x) * h - (tr 1 0 * p I S S) * hx'

theorem path_dXX_01 (tr : Nat → Nat → Rat) (rr : Nat → Rat) (p : St → St → St → Rat) (hx : PS p ≠ 0)
    (h : p S S I * PS p = PA p S * PB p I) :
    mXX3 (me3 tr rr p) 0 1 = (ODE.sirPairBased nbrs3 tr rr (mX3 p) (mY3 p) (mXY3 p) (mXX3 p)).2.2.2 0 1 := by
  have hx' : PS p * ODE.xinv (PS p) = 1 := by simp [ODE.xinv, hx]
  simp [ODE.sirPairBased, nbrs3, ← PS_eq_mX3]
  generalize ODE.xinv (PS p) = x at hx' ⊢
  simp only [PS, PA, PB, sumSt] at h hx'
  simp [mXY3, mXX3, sumSt, me3, leave3_0, leave3_1, leave3_2, ind]
  linear_combination (-(tr 1 2 * x)) * h + (tr 1 2 * p S S I) * hx'

theorem path_dXX_10 (tr : Nat → Nat → Rat) (rr : Nat → Rat) (p : St → St → St → Rat) (hx : PS p ≠ 0)
    (h : p S S I * PS p = PA p S * PB p I) :
    mXX3 (me3 tr rr p) 1 0 = (ODE.sirPairBased nbrs3 tr rr (mX3 p) (mY3 p) (mXY3 p) (mXX3 p)).2.2.2 1 0 := by
  have hx' : PS p * ODE.xinv (PS p) = 1 := by simp [ODE.xinv, hx]
  simp [ODE.sirPairBased, nbrs3, ← PS_eq_mX3]
  generalize ODE.xinv (PS p) = x at hx' ⊢
  simp only [PS, PA, PB, sumSt] at h hx'
  simp [mXY3, mXX3, sumSt, me3, leave3_0, leave3_1, leave3_2, ind]
  linear_combination (-(tr 1 2 * x)) * h + (tr 1 2 * p S S I) * hx'

theorem path_dXX_12 (tr : Nat → Nat → Rat) (rr : Nat → Rat) (p : St → St → St → Rat) (hx : PS p ≠ 0)
    (h : p I S S * PS p = PA p I * PB p S) :
    mXX3 (me3 tr rr p) 1 2 = (ODE.sirPairBased nbrs3 tr rr (mX3 p) (mY3 p) (mXY3 p) (mXX3 p)).2.2.2 1 2 := by
  have hx' : PS p * ODE.xinv (PS p) = 1 := by simp [ODE.xinv, hx]
  simp [ODE.sirPairBased, nbrs3, ← PS_eq_mX3]
  generalize ODE.xinv (PS p) = x at hx' ⊢
  simp only [PS, PA, PB, sumSt] at h hx'
  simp [mXY3, mXX3, sumSt, me3, leave3_0, leave3_1, leave3_2, ind]
  linear_combination (-(tr 1 0 * x)) * h + (tr 1 0 * p I S S) * hx'

theorem path_dXX_21 (tr : Nat → Nat → Rat) (rr : Nat → Rat) (p : St → St → St → Rat) (hx : PS p ≠ 0)
    (h : p I S S * PS p = PA p I * PB p S) :
    mXX3 (me3 tr rr p) 2 1 = (ODE.sirPairBased nbrs3 tr rr (mX3 p) (mY3 p) (mXY3 p) (mXX3 p)).2.2.2 2 1 := by
  have hx' : PS p * ODE.xinv (PS p) = 1 := by simp [ODE.xinv, hx]
  simp [ODE.sirPairBased, nbrs3, ← PS_eq_mX3]
  generalize ODE.xinv (PS p) = x at hx' ⊢
  simp only [PS, PA, PB, sumSt] at h hx'
  simp [mXY3, mXX3, sumSt, me3, leave3_0, leave3_1, leave3_2, ind]
  linear_combination (-(tr 1 0 * x)) * h + (tr 1 0 * p I S S) * hx'

theorem path_dXY (tr : Nat → Nat → Rat) (rr : Nat → Rat) (p : St → St → St → Rat) (hx : PS p ≠ 0)
    (hSI : p S S I * PS p = PA p S * PB p I) (hII : p I S I * PS p = PA p I * PB p I)
    (hIS : p I S S * PS p = PA p I * PB p S) (i j : Nat) :
    mXY3 (me3 tr rr p) i j = (ODE.sirPairBased nbrs3 tr rr (mX3 p) (mY3 p) (mXY3 p) (mXX3 p)).2.2.1 i j := by
  match i, j with
  | 0, 0 => simp [ODE.sirPairBased, nbrs3, mXY3]
  | 0, 1 => exact path_dXY_01 tr rr p hx hSI
  | 0, n + 2 => simp [ODE.sirPairBased, nbrs3, mXY3]
  | 1, 0 => exact path_dXY_10 tr rr p hx hII
  | 1, 1 => simp [ODE.sirPairBased, nbrs3, mXY3]
  | 1, 2 => exact path_dXY_12 tr rr p hx hII
  | 1, n + 3 => simp [ODE.sirPairBased, nbrs3, mXY3]
  | 2, 0 => simp [ODE.sirPairBased, nbrs3, mXY3]
  | 2, 1 => exact path_dXY_21 tr rr p hx hIS
  | 2, n + 2 => simp [ODE.sirPairBased, nbrs3, mXY3]
  | m + 3, _ => simp [ODE.sirPairBased, nbrs3, mXY3]

theorem path_dXX (tr : Nat → Nat → Rat) (rr : Nat → Rat) (p : St → St → St → Rat) (hx : PS p ≠ 0)
    (hSI : p S S I * PS p = PA p S * PB p I) (hIS : p I S S * PS p = PA p I * PB p S) (i j : Nat) :
    mXX3 (me3 tr rr p) i j = (ODE.sirPairBased nbrs3 tr rr (mX3 p) (mY3 p) (mXY3 p) (mXX3 p)).2.2.2 i j := by
  match i, j with
  | 0, 0 => simp [ODE.sirPairBased, nbrs3, mXX3]
  | 0, 1 => exact path_dXX_01 tr rr p hx hSI
  | 0, n + 2 => simp [ODE.sirPairBased, nbrs3, mXX3]
  | 1, 0 => exact path_dXX_10 tr rr p hx hSI
  | 1, 1 => simp [ODE.sirPairBased, nbrs3, mXX3]
  | 1, 2 => exact path_dXX_12 tr rr p hx hIS
  | 1, n + 3 => simp [ODE.sirPairBased, nbrs3, mXX3]
  | 2, 0 => simp [ODE.sirPairBased, nbrs3, mXX3]
  | 2, 1 => exact path_dXX_21 tr rr p hx hIS
  | 2, n + 2 => simp [ODE.sirPairBased, nbrs3, mXX3]
  | m + 3, _ => simp [ODE.sirPairBased, nbrs3, mXX3]

/-- **Path 0 – 1 – 2: if the two sides of the susceptible middle node are conditionally independent under `p`
(and `P(1 = S) ≠ 0`), the pair-based right-hand side at the marginals of `p` is the derivative of the marginals under
the master equation.**  (`dX`, `dY` need no hypothesis: `path_dX`, `path_dY`.) -/
theorem path_exact_given_closure_aux (tr : Nat → Nat → Rat) (rr : Nat → Rat) (p : St → St → St → Rat)
    (hx : mX3 p 1 ≠ 0) (hcl : Closure p) :
    (mX3 (me3 tr rr p), mY3 (me3 tr rr p), mXY3 (me3 tr rr p), mXX3 (me3 tr rr p))
      = ODE.sirPairBased nbrs3 tr rr (mX3 p) (mY3 p) (mXY3 p) (mXX3 p) := by
  refine Prod.ext ?_ (Prod.ext ?_ (Prod.ext ?_ ?_))
  · funext i; exact path_dX tr rr p i
  · funext i; exact path_dY tr rr p i
  · funext i j; exact path_dXY tr rr p hx (hcl S I) (hcl I I) (hcl I S) i j
  · funext i j; exact path_dXX tr rr p hx (hcl S I) (hcl I S) i j

/-! ## the closure relation: holds for product-form (in particular pure) `p`, and is invariant under the master equation -/

/-- if the `1 = S` slice of `p` has product form, the closure relation holds -/
theorem closure_holds_prod_aux (p : St → St → St → Rat) (u v : St → Rat) (h : ∀ a b, p a S b = u a * v b) : Closure p := by
  intro a b
  simp only [PS, PA, PB, sumSt, h]
  ring

/-- point mass at the joint state `(a0, b0, c0)` -/
def pure3 (a0 b0 c0 : St) : St → St → St → Rat := fun a b c => ind a a0 * ind b b0 * ind c c0

/-- a pure (deterministic) initial condition satisfies the closure relation -/
theorem closure_holds_pure_aux (a0 b0 c0 : St) : Closure (pure3 a0 b0 c0) :=
  closure_holds_prod_aux _ (fun a => ind a a0 * ind S b0) (fun b => ind b c0) (fun _ _ => rfl)

/-- generator of node 0 while node 1 is susceptible, killed at the rate at which 0 infects 1:
`I → R` at rate `rr 0`, `I` is left at total rate `rr 0 + tr 1 0` (recovery of 0, or node 1 leaving `S`) -/
def M0 (tr : Nat → Nat → Rat) (rr : Nat → Rat) (a a' : St) : Rat :=
  ind a' I * (rr 0 * ind a R - (rr 0 + tr 1 0) * ind a I)
/-- the same for node 2 -/
def M2 (tr : Nat → Nat → Rat) (rr : Nat → Rat) (b b' : St) : Rat :=
  ind b' I * (rr 2 * ind b R - (rr 2 + tr 1 2) * ind b I)

/-- on the slice `1 = S` the master equation is `M0 ⊗ 1 + 1 ⊗ M2`: nodes 0 and 2 evolve independently -/
theorem me3_mid_S (tr : Nat → Nat → Rat) (rr : Nat → Rat) (p : St → St → St → Rat) (a b : St) :
    me3 tr rr p a S b = sumSt (fun a' => M0 tr rr a a' * p a' S b) + sumSt (fun b' => M2 tr rr b b' * p a S b') := by
  cases a <;> cases b <;> simp [me3, leave3_0, leave3_1, leave3_2, M0, M2, sumSt, ind] <;> ring

/-- defect of the closure relation -/
def Fcl (p : St → St → St → Rat) (a b : St) : Rat := p a S b * PS p - PA p a * PB p b
/-- derivative of `Fcl` at `p` in the direction `v` (product rule) -/
def dFcl (p v : St → St → St → Rat) (a b : St) : Rat :=
  v a S b * PS p + p a S b * PS v - PA v a * PB p b - PA p a * PB v b

/-- `dFcl` is the first-order term of `Fcl` along `p + e·v` -/
theorem Fcl_expand (p v : St → St → St → Rat) (e : Rat) (a b : St) :
    Fcl (fun x y z => p x y z + e * v x y z) a b = Fcl p a b + e * dFcl p v a b + e ^ 2 * Fcl v a b := by
  simp only [Fcl, dFcl, PS, PA, PB, sumSt]
  ring

theorem closure_iff_Fcl (p : St → St → St → Rat) : Closure p ↔ ∀ a b, Fcl p a b = 0 := by
  simp only [Closure, Fcl, sub_eq_zero]

/-- the 2×2 minors of the slice `q(a,b) = p a S b` -/
def Gm (p : St → St → St → Rat) (a b a' b' : St) : Rat := p a S b * p a' S b' - p a S b' * p a' S b
def dGm (p v : St → St → St → Rat) (a b a' b' : St) : Rat :=
  v a S b * p a' S b' + p a S b * v a' S b' - v a S b' * p a' S b - p a S b' * v a' S b

theorem Gm_expand (p v : St → St → St → Rat) (e : Rat) (a b a' b' : St) :
    Gm (fun x y z => p x y z + e * v x y z) a b a' b' = Gm p a b a' b' + e * dGm p v a b a' b' + e ^ 2 * Gm v a b a' b' := by
  simp only [Gm, dGm]
  ring

/-- the closure defect is the sum of the minors through `(a,b)` -/
theorem Fcl_eq_sum_Gm (p : St → St → St → Rat) (a b : St) :
    Fcl p a b = sumSt fun a' => sumSt fun b' => Gm p a b a' b' := by
  simp only [Fcl, Gm, PS, PA, PB, sumSt]
  ring

theorem dFcl_eq_sum_dGm (p v : St → St → St → Rat) (a b : St) :
    dFcl p v a b = sumSt fun a' => sumSt fun b' => dGm p v a b a' b' := by
  simp only [dFcl, dGm, PS, PA, PB, sumSt]
  ring

/-- **the minors obey a closed linear system with constant coefficients under the master equation** -/
theorem minors_invariant_aux (tr : Nat → Nat → Rat) (rr : Nat → Rat) (p : St → St → St → Rat) (a b a' b' : St) :
    dGm p (me3 tr rr p) a b a' b' =
      sumSt (fun x => M0 tr rr a x * Gm p x b a' b') + sumSt (fun x => M0 tr rr a' x * Gm p a b x b')
      + sumSt (fun y => M2 tr rr b y * Gm p a y a' b') + sumSt (fun y => M2 tr rr b' y * Gm p a b a' y) := by
  simp only [dGm, Gm, me3_mid_S, sumSt]
  ring

/-- **the closure defect obeys a linear system under the master equation** (coefficients polynomial in `p` and the
rates, after multiplication by `P(1 = S)`) -/
theorem closure_invariant_aux (tr : Nat → Nat → Rat) (rr : Nat → Rat) (p : St → St → St → Rat) (a b : St) :
    PS p * dFcl p (me3 tr rr p) a b =
      PS p * (sumSt (fun x => M0 tr rr a x * Fcl p x b) + sumSt (fun y => M2 tr rr b y * Fcl p a y))
      - tr 1 0 * (PA p I * Fcl p a b - PA p a * Fcl p I b)
      - tr 1 2 * (PB p I * Fcl p a b - PB p b * Fcl p a I) := by
  simp only [dFcl, Fcl, PS, PA, PB, me3_mid_S, sumSt]
  simp [M0, M2, ind]
  ring

theorem sumSt_ind_left (f : St → Rat) (a : St) : sumSt (fun x => ind a x * f x) = f a := by
  cases a <;> simp [sumSt, ind]

/-- explicit coefficients of the linear system for the closure defect (valid where `P(1 = S) ≠ 0`) -/
def cF (tr : Nat → Nat → Rat) (rr : Nat → Rat) (p : St → St → St → Rat) (a b a' b' : St) : Rat :=
  M0 tr rr a a' * ind b b' + M2 tr rr b b' * ind a a'
  - ODE.xinv (PS p) * (tr 1 0 * (PA p I * ind a a' * ind b b' - PA p a * ind I a' * ind b b')
                       + tr 1 2 * (PB p I * ind a a' * ind b b' - PB p b * ind a a' * ind I b'))

/-- **`d/dt F a b = Σ_{a',b'} cF a b a' b' · F a' b'`** along the master equation, wherever `P(1 = S) ≠ 0` -/
theorem closure_invariant_coeff_aux (tr : Nat → Nat → Rat) (rr : Nat → Rat) (p : St → St → St → Rat) (hx : PS p ≠ 0)
    (a b : St) :
    dFcl p (me3 tr rr p) a b = sumSt fun a' => sumSt fun b' => cF tr rr p a b a' b' * Fcl p a' b' := by
  have h := closure_invariant_aux tr rr p a b
  have hx' : PS p * ODE.xinv (PS p) = 1 := by simp [ODE.xinv, hx]
  have e : (sumSt fun a' => sumSt fun b' => cF tr rr p a b a' b' * Fcl p a' b')
      = (sumSt (fun x => M0 tr rr a x * Fcl p x b) + sumSt (fun y => M2 tr rr b y * Fcl p a y))
        - ODE.xinv (PS p) * (tr 1 0 * (PA p I * Fcl p a b - PA p a * Fcl p I b)
                             + tr 1 2 * (PB p I * Fcl p a b - PB p b * Fcl p a I)) := by
    cases a <;> cases b <;> simp [cF, sumSt, ind] <;> ring
  rw [e]
  generalize ODE.xinv (PS p) = x at hx' ⊢
  apply mul_left_cancel₀ hx
  rw [h]
  linear_combination (tr 1 0 * (PA p I * Fcl p a b - PA p a * Fcl p I b)
                             + tr 1 2 * (PB p I * Fcl p a b - PB p b * Fcl p a I)) * hx'

/-- consequence: where the closure relation holds, its defect has zero derivative along the master equation -/
theorem closure_stationary_aux (tr : Nat → Nat → Rat) (rr : Nat → Rat) (p : St → St → St → Rat) (hx : PS p ≠ 0)
    (hcl : Closure p) (a b : St) : dFcl p (me3 tr rr p) a b = 0 := by
  rw [closure_invariant_coeff_aux tr rr p hx]
  have h0 := (closure_iff_Fcl p).1 hcl
  simp [sumSt, h0]

/-- all minors vanish ⇒ closure relation -/
theorem closure_of_minors_aux (p : St → St → St → Rat) (h : ∀ a b a' b', Gm p a b a' b' = 0) : Closure p := by
  rw [closure_iff_Fcl]; intro a b
  rw [Fcl_eq_sum_Gm]; simp [sumSt, h]

/-- closure relation and `P(1 = S) ≠ 0` ⇒ all minors vanish -/
theorem minors_of_closure_aux (p : St → St → St → Rat) (hx : PS p ≠ 0) (hcl : Closure p) (a b a' b' : St) :
    Gm p a b a' b' = 0 := by
  have h : PS p * PS p * Gm p a b a' b' = 0 := by
    have e : PS p * PS p * Gm p a b a' b'
        = (p a S b * PS p) * (p a' S b' * PS p) - (p a S b' * PS p) * (p a' S b * PS p) := by
      simp only [Gm]; ring
    rw [e, hcl a b, hcl a' b', hcl a b', hcl a' b]; ring
  rcases mul_eq_zero.1 h with h | h
  · exact absurd (mul_self_eq_zero.1 h) hx
  · exact h

/-- a pure initial condition has all minors zero -/
theorem minors_pure_aux (a0 b0 c0 a b a' b' : St) : Gm (pure3 a0 b0 c0) a b a' b' = 0 := by
  simp only [Gm, pure3]; ring

end TreeExact
