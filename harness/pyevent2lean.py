#!/usr/bin/env python3
"""pyevent2lean — translator for the event-driven SIR simulator of `EoN.simulation`:
`fast_nonMarkov_SIR` (main body), its two event handlers `_process_trans_SIR_` / `_process_rec_SIR_` and the priority
queue class `myQueue`, read from /repo's working tree on every run -> lean/EoNVerif/Gen/EventSIRGen.lean.

Built on the statement translator of pyfunc2lean.py (same output shape: the shared mutable objects — times, S, I, R, Q,
status, rec_time, pred_inf_time, transmissions — form a record `Loc`, every statement is a step in the tape monad).
What is specific here:
* `myQueue`: `_Q_` is the list of pushed entries, `heapq.heappush` appends, `heapq.heappop` removes the entry that is
  smallest in the tuple order `(time, counter, ...)` (the documented behaviour of `heapq`; counters are unique, so the
  function objects are never compared).  The *condition* of `add` (`time < self.tmax`) and the counter increment are
  translated from the source; the heap itself is library code and is modelled, not translated.
* an entry's function pointer and argument tuple become a tag: `Q.add(t, _process_rec_SIR_, args=(node, ...))` is
  `Ev.recov node`, `Q.add(t, _process_trans_SIR_, args=(G, source, target, ...))` is `Ev.trans source target`;
  `pop_and_run` dispatches on the tag to the translated handler (the remaining arguments are the shared objects).
* the user's `trans_and_rec_time_fxn(node, sus_neighbors, *args)` is a parameter
  `transRec : Node -> List Node -> TM (List (Node x ERat) x ERat)` (delays in dictionary order, duration).
Translated slice of `fast_nonMarkov_SIR`: from `status = defaultdict(...)` to the removal of the synthetic
initial-infection rows (`times = times[len(initial_infecteds):]` ...), skipping the argument normalisation block
(`if initial_infecteds is None: ... elif G.has_node(...)`, C05).  Anything outside the subset raises Unsupported.
"""
import ast, os, sys, hashlib
import pyfunc2lean as pf
from pyfunc2lean import Unsupported

REPO = os.environ.get("EON_REPO", "/repo")

FIELDS = [("status", "status"), ("rec_time", "nodefn:erat"), ("pred_inf_time", "nodefn:erat"), ("Q", "queue"),
          ("times", "list:erat"), ("S", "list:int"), ("I", "list:int"), ("R", "list:int"), ("transmissions", "trans"),
          ("number_initially_recovered", "int")]
pf.LEAN_TY.update({"nodefn:erat": "Node → ERat", "queue": "MyQueue"})
pf.DEFAULT.update({"nodefn:erat": "fun _ => none", "queue": "MyQueue.init none"})
PARAMS_MAIN = {"tmin": ("P.tmin", "rat"), "tmax": ("P.tmax", "erat"), "initial_infecteds": ("initial_infecteds", "nodes"),
               "initial_recovereds": ("initial_recovereds", "nodes")}
PARAMS_TRANS = dict(PARAMS_MAIN, time=("time", "erat"), source=("source", "onode"), target=("target", "node"))
PARAMS_REC = dict(PARAMS_MAIN, time=("time", "erat"), node=("node", "node"))


# queued function -> (constructor, expected names of the shared-object arguments, positions of the node payload)
EVENTS_SIR = {
    "_process_rec_SIR_": ("recov", (1, ["times", "S", "I", "R", "status"]), [0]),
    "_process_trans_SIR_": ("trans", (3, ["times", "S", "I", "R", "Q", "status", "rec_time", "pred_inf_time", "transmissions",
                                          "trans_and_rec_time_fxn", "trans_and_rec_time_args"]), [1, 2]),
}
EVENTS_FSIS = {
    "_process_rec_SIS_": ("recov", (1, ["times", "recovery_times", "S", "I", "status"]), [0]),
    "_process_trans_SIS_Markov": ("trans", (3, ["times", "S", "I", "Q", "status", "rec_time", "infection_times", "recovery_times",
                                                "transmissions", "trans_rate_fxn", "rec_rate_fxn"]), [1, 2]),
}


class EvFn(pf.Fn):
    def __init__(self, node, params, fields=None, ns="GenESIR", events=None):
        super().__init__(node, fields or FIELDS, ns, params=params, profile="event")
        self.events = events or EVENTS_SIR

    def expr(self, e, ind):
        src = ast.unparse(e)
        if src == "defaultdict(lambda: 'S')":
            return [], "(fun _ => St.S)", "status"
        if src == "defaultdict(lambda: tmin - 1)":
            return [], "(fun _ => some (P.tmin - 1))", "nodefn:erat"
        if src == "defaultdict(lambda: float('Inf'))":
            return [], "(fun _ => none)", "nodefn:erat"
        if src == "myQueue(tmax)":
            return [], "(MyQueue.init P.tmax)", "queue"
        if src == "Q.tmax":
            return [], "σ.Q.tmax", "erat"
        if src == "[]":
            return [], "[]", "list:empty"
        if isinstance(e, ast.Subscript) and isinstance(e.value, ast.Name):
            k = self.fields.get(e.value.id) or self.temps.get(e.value.id)
            if k == "nodefn:erat":
                pk, key, kk = self.expr(e.slice, ind)
                return pk, f"(σ.{e.value.id} {key})", "erat"
            if k == "delays":
                pk, key, kk = self.expr(e.slice, ind)
                t = self.tmp("dl")
                return pk + [f"{ind}let {t} ← PyTM.liftE (PyRT.dictGet {e.value.id} {key})"], t, "erat"
        if isinstance(e, ast.ListComp) and src == "[v for v in G.neighbors(target) if status[v] == 'S']":
            return [], "((P.nbrs target).filter (fun v => decide (σ.status v = St.S)))", "nodes"
        if isinstance(e, ast.Tuple) and len(e.elts) == 3:
            parts = [self.expr(x, ind) for x in e.elts]
            if [k for _, _, k in parts] == ["erat", "onode", "node"]:
                return sum((p for p, _, _ in parts), []), f"({parts[0][1]}, {parts[1][1]}, {parts[2][1]})", "transrow"
        if isinstance(e, ast.Compare) and len(e.ops) == 1 and isinstance(e.ops[0], ast.LtE):
            pa, a, ka = self.expr(e.left, ind)
            pb, b, kb = self.expr(e.comparators[0], ind)
            if "erat" in (ka, kb):
                a2 = a if ka == "erat" else f"(some {a})"
                b2 = b if kb == "erat" else f"(some {b})"
                return pa + pb, f"(ERat.le {a2} {b2})", "bool"
        if isinstance(e, ast.BinOp) and isinstance(e.op, ast.Sub):
            pa, a, ka = self.expr(e.left, ind)
            pb, b, kb = self.expr(e.right, ind)
            if ka == "int" and kb in ("int", "num"):
                return pa + pb, f"({a} - {b})", "int"
        if isinstance(e, ast.Subscript) and isinstance(e.slice, ast.Slice) and isinstance(e.value, ast.Name) \
                and e.slice.upper is None and e.slice.step is None and ast.unparse(e.slice.lower) == "len(initial_infecteds)":
            pv, v, kv = self.expr(e.value, ind)
            if kv in ("list:int", "list:erat"):
                return pv, f"({v}.drop initial_infecteds.length)", kv
        return super().expr(e, ind)

    def call(self, e, ind):
        src = ast.unparse(e)
        f = e.func
        if isinstance(f, ast.Name) and f.id == "trans_and_rec_time_fxn":
            if [ast.unparse(a) for a in e.args] != ["target", "suscep_neighbors", "*trans_and_rec_time_args"]:
                raise Unsupported("callback arguments " + src)
            t = self.tmp("jr")
            return [f"{ind}let {t} ← P.transRec target suscep_neighbors"], t, "jointres"
        if isinstance(f, ast.Attribute) and ast.unparse(f) == "Q.add" and len(e.args) == 2 and len(e.keywords) == 1 and e.keywords[0].arg == "args":
            p, tm, k = self.expr(e.args[0], ind)
            if k == "rat":
                tm = f"(some {tm})"
            elif k != "erat":
                raise Unsupported("Q.add time kind " + k)
            fn = ast.unparse(e.args[1])
            args = e.keywords[0].value
            if fn not in self.events:
                raise Unsupported("Q.add of " + fn)
            ctor, (pos, shared), payload = self.events[fn]
            if isinstance(args, ast.Name) and args.id == "trans_event_args" and ctor == "trans" and self.params.get("source", ("", ""))[1] == "node":
                # the caller's tuple (G, source, target, shared objects...): validated at every call site of this function
                p1, ev = [], "(Ev.trans (some source) target)"
            else:
                if not isinstance(args, ast.Tuple):
                    raise Unsupported("Q.add args")
                names = [ast.unparse(a) for a in args.elts]
                if names[pos:] != shared or (ctor != "recov" and names[0] != "G"):
                    raise Unsupported("args of the %s event: %s" % (ctor, names))
                parts = [self.expr(args.elts[i], ind) for i in payload]
                p1 = sum((q for q, _, _ in parts), [])
                if ctor == "recov":
                    if parts[0][2] != "node":
                        raise Unsupported("recovery event node")
                    ev = f"(Ev.recov {parts[0][1]})"
                else:
                    fut = ""
                    if ctor == "transF":
                        kf = parts[2][2]
                        if kf not in ("list:erat", "list:empty"):
                            raise Unsupported("future transmissions of kind " + kf)
                        fut = " " + parts[2][1]
                        parts = parts[:2]
                    (_, a, ka), (_, b, kb) = parts
                    if ka == "node":
                        a = f"(some {a})"
                    elif ka not in ("none", "onode"):
                        raise Unsupported("transmission event source")
                    if kb != "node":
                        raise Unsupported("transmission event target")
                    ev = f"(Ev.trans {a} {b}{fut})"
            return p + p1 + [f"{ind}let σ := {{ σ with Q := MyQueue.add σ.Q {tm} {ev} }}"], "()", "unit"
        return super().call(e, ind)

    def block(self, stmts, ind, in_loop=False):
        out = []
        for i, st in enumerate(stmts):
            src = ast.unparse(st)
            # tuple of four list assignments
            if isinstance(st, ast.Assign) and isinstance(st.targets[0], ast.Tuple) and isinstance(st.value, ast.Tuple) \
                    and len(st.targets[0].elts) == len(st.value.elts) and len(st.value.elts) in (3, 4) \
                    and all(isinstance(v, ast.List) for v in st.value.elts):
                for tgt, val in zip(st.targets[0].elts, st.value.elts):
                    out += super().block([ast.Assign(targets=[tgt], value=val, lineno=st.lineno)], ind, False)
                continue
            if isinstance(st, ast.Assign) and isinstance(st.targets[0], ast.Tuple) and src.startswith("trans_delay, rec_delay = "):
                p, t, k = self.expr(st.value, ind)
                if k != "jointres":
                    raise Unsupported(src)
                self.temps["trans_delay"], self.temps["rec_delay"] = "delays", "erat"
                out += p + [f"{ind}let (trans_delay, rec_delay) := {t}"]
                continue
            if isinstance(st, ast.Assign) and isinstance(st.targets[0], ast.Subscript) and isinstance(st.targets[0].value, ast.Name) \
                    and self.fields.get(st.targets[0].value.id) == "nodefn:erat":
                d = st.targets[0].value.id
                pk, key, kk = self.expr(st.targets[0].slice, ind)
                p, t, k = self.expr(st.value, ind)
                if k == "rat":
                    t = f"(some {t})"
                elif k != "erat":
                    raise Unsupported(src)
                out += pk + p + [f"{ind}let σ := {{ σ with {d} := fset σ.{d} {key} {t} }}"]
                continue
            if isinstance(st, ast.Assign) and isinstance(st.targets[0], ast.Name) and st.targets[0].id in ("inf_time", "suscep_neighbors"):
                p, t, k = self.expr(st.value, ind)
                self.temps[st.targets[0].id] = k
                out += p + [f"{ind}let {st.targets[0].id} := {t}"]
                continue
            if isinstance(st, ast.For) and ast.unparse(st.iter) == "trans_delay" and self.temps.get("trans_delay") == "delays":
                v = st.target.id
                saved = dict(self.temps)
                self.temps[v] = "node"
                body = self.block(st.body, ind + "  ", in_loop=True)
                self.temps = saved
                out += [f"{ind}let σ ← (trans_delay.map (·.1)).foldlM (fun (σ : Loc) ({v} : Node) => do"] + body + [f"{ind}  pure σ) σ"]
                continue
            if isinstance(st, ast.If) and ast.unparse(st.test) == "initial_recovereds is not None":
                # the harness passes a (possibly empty) list; `None` and `[]` take the same path through this block
                out += self.block(st.body, ind, in_loop)
                continue
            out += super().block([st], ind, in_loop and i == len(stmts) - 1)
        return out


def queue_lean(cls, future=False):
    """myQueue -> Lean.  `add`'s guard and counter increment are translated; heappush / heappop are modelled."""
    m = {n.name: n for n in cls.body if isinstance(n, ast.FunctionDef)}
    if [ast.unparse(s) for s in m["__init__"].body] != ["self._Q_ = []", "self.tmax = tmax", "self.counter = 0"]:
        raise Unsupported("myQueue.__init__ changed")
    add = [s for s in m["add"].body if not (isinstance(s, ast.Expr) and isinstance(s.value, ast.Constant))]
    if len(add) != 1 or not isinstance(add[0], ast.If) or add[0].orelse:
        raise Unsupported("myQueue.add shape")
    test = add[0].test
    if not (isinstance(test, ast.Compare) and ast.unparse(test.left) == "time" and ast.unparse(test.comparators[0]) == "self.tmax"):
        raise Unsupported("myQueue.add guard")
    op = {ast.Lt: "ERat.lt", ast.LtE: "ERat.le"}.get(type(test.ops[0]))
    if op is None:
        raise Unsupported("myQueue.add comparison")
    if [ast.unparse(s) for s in add[0].body] != ["heapq.heappush(self._Q_, (time, self.counter, function, args))", "self.counter += 1"]:
        raise Unsupported("myQueue.add body changed")
    par = [s for s in m["pop_and_run"].body if not (isinstance(s, ast.Expr) and isinstance(s.value, ast.Constant))]
    if [ast.unparse(s) for s in par] != ["t, counter, function, args = heapq.heappop(self._Q_)", "function(t, *args)"]:
        raise Unsupported("myQueue.pop_and_run changed")
    if [ast.unparse(s) for s in m["__len__"].body if not (isinstance(s, ast.Expr) and isinstance(s.value, ast.Constant))] != ["return len(self._Q_)"]:
        raise Unsupported("myQueue.__len__ changed")
    FUT = " (future : List ERat)" if future else ""
    return f'''/-- tag of a queued event: the function pointer and its node arguments -/
inductive Ev
  | trans (source : Option Node) (target : Node){FUT}
  | recov (node : Node)
deriving DecidableEq, Repr

/-- the attributes of a `myQueue` object; `q` holds the pushed tuples `(time, counter, tag)` -/
structure MyQueue where
  q : List (ERat × Nat × Ev)
  tmax : ERat
  counter : Nat

/-- generated from `myQueue.__init__` -/
def MyQueue.init (tmax : ERat) : MyQueue := {{ q := [], tmax := tmax, counter := 0 }}

/-- generated from `myQueue.add` (EoN/simulation.py:{m["add"].lineno}): the guard is the source's comparison -/
def MyQueue.add (s : MyQueue) (time : ERat) (e : Ev) : MyQueue :=
  if {op} time s.tmax then {{ s with q := s.q ++ [(time, s.counter, e)], counter := s.counter + 1 }} else s

/-- generated from `myQueue.__len__` -/
def MyQueue.len (s : MyQueue) : Nat := s.q.length

/-- tuple order on `(time, counter)` -/
def MyQueue.before (a b : ERat × Nat × Ev) : Bool :=
  ERat.lt a.1 b.1 || (a.1 == b.1 && a.2.1 < b.2.1)

/-- `heapq.heappop`: the smallest entry and the rest (model of the library routine) -/
def MyQueue.popMin (s : MyQueue) : Except String ((ERat × Nat × Ev) × MyQueue) :=
  match s.q with
  | [] => throw "IndexError"
  | x :: xs =>
    let m := xs.foldl (fun m y => if MyQueue.before y m then y else m) x
    pure (m, {{ s with q := s.q.erase m }})
'''


HEADER = '''import EoNVerif.Gen.PyTM
/-!
GENERATED by harness/pyevent2lean.py from `myQueue`, `_process_trans_SIR_`, `_process_rec_SIR_` and
`fast_nonMarkov_SIR` of EoN/simulation.py — do not edit; regenerated on every check run.   source sha1: {sha}
-/
open PyTM

namespace GenESIR

'''


def translate(repo=REPO):
    src = open(os.path.join(repo, "EoN", "simulation.py")).read()
    tree = ast.parse(src)
    fns = {n.name: n for n in tree.body if isinstance(n, ast.FunctionDef)}
    cls = {n.name: n for n in tree.body if isinstance(n, ast.ClassDef)}
    errors, parts, sources = {}, [], []
    try:
        parts.append(queue_lean(cls["myQueue"]))
        sources.append(ast.unparse(cls["myQueue"]))
        fields = dict(FIELDS)
        parts.append("/-- the arguments: the graph is read through `G.neighbors` and `G.order()`, the user rule through `transRec` -/\n"
                     "structure EArgs where\n  nbrs : Node → List Node\n  order : Nat\n  tmin : Rat\n  tmax : ERat\n"
                     "  transRec : Node → List Node → TM (List (Node × ERat) × ERat)\n")
        parts.append("/-- the objects shared by the main function and the event handlers -/\nstructure Loc where\n" +
                     "\n".join(f"  {f} : {pf.LEAN_TY[k]}" for f, k in FIELDS) + "\n")
        parts.append("def Loc.init : Loc :=\n  { " + ", ".join(f"{f} := {pf.DEFAULT[k]}" for f, k in FIELDS) + " }\n")
        # --- _process_rec_SIR_
        n = fns["_process_rec_SIR_"]
        if [a.arg for a in n.args.args] != ["time", "node", "times", "S", "I", "R", "status"]:
            raise Unsupported("_process_rec_SIR_ parameters")
        body = [s for s in n.body if not (isinstance(s, ast.Expr) and isinstance(s.value, ast.Constant))]
        lines = EvFn(n, PARAMS_REC).block(body, "  ")
        parts.append(f"/-- generated from `_process_rec_SIR_` (EoN/simulation.py:{n.lineno}) -/\n"
                     "def process_rec (P : EArgs) (time : ERat) (node : Node) (σ : Loc) : TM Loc := do\n" + "\n".join(lines) + "\n  pure σ\n")
        sources.append(ast.unparse(n))
        # --- _process_trans_SIR_
        n = fns["_process_trans_SIR_"]
        want = ["time", "G", "source", "target", "times", "S", "I", "R", "Q", "status", "rec_time", "pred_inf_time", "transmissions",
                "trans_and_rec_time_fxn", "trans_and_rec_time_args"]
        if [a.arg for a in n.args.args] != want:
            raise Unsupported("_process_trans_SIR_ parameters")
        body = [s for s in n.body if not (isinstance(s, ast.Expr) and isinstance(s.value, ast.Constant))]
        lines = EvFn(n, PARAMS_TRANS).block(body, "  ")
        parts.append(f"/-- generated from `_process_trans_SIR_` (EoN/simulation.py:{n.lineno}) -/\n"
                     "def process_trans (P : EArgs) (time : ERat) (source : Option Node) (target : Node) (σ : Loc) : TM Loc := do\n"
                     + "\n".join(lines) + "\n  pure σ\n")
        sources.append(ast.unparse(n))
        # --- pop_and_run + main
        parts.append("/-- generated from `myQueue.pop_and_run`: pop the smallest entry and call its function on the shared objects -/\n"
                     "def pop_and_run (P : EArgs) (σ : Loc) : TM Loc := do\n"
                     "  let (m, q) ← PyTM.liftE (MyQueue.popMin σ.Q)\n  let σ := { σ with Q := q }\n"
                     "  match m.2.2 with\n  | Ev.trans source target => process_trans P m.1 source target σ\n"
                     "  | Ev.recov node => process_rec P m.1 node σ\n")
        n = fns["fast_nonMarkov_SIR"]
        body = n.body
        start = next((i for i, s in enumerate(body) if ast.unparse(s) == "status = defaultdict(lambda: 'S')"), None)
        wi = next((i for i, s in enumerate(body) if isinstance(s, ast.While)), None)
        if start is None or wi is None:
            raise Unsupported("slice markers of fast_nonMarkov_SIR not found")
        wh = body[wi]
        if ast.unparse(wh.test) != "Q" or [ast.unparse(s) for s in wh.body] != ["Q.pop_and_run()"]:
            raise Unsupported("main loop is no longer `while Q: Q.pop_and_run()`")
        pre_stmts = [s for s in body[start:wi] if not (isinstance(s, ast.If) and ast.unparse(s.test) == "initial_infecteds is None")]
        if len(pre_stmts) != wi - start - 1:
            raise Unsupported("argument normalisation block not found where expected")
        post = body[wi + 1: wi + 5]
        if [ast.unparse(s) for s in post] != ["times = times[len(initial_infecteds):]", "S = S[len(initial_infecteds):]",
                                              "I = I[len(initial_infecteds):]", "R = R[len(initial_infecteds):]"]:
            raise Unsupported("removal of the synthetic initial rows changed")
        fn = EvFn(n, PARAMS_MAIN)
        pre = fn.block(pre_stmts, "  ")
        post_l = fn.block(post, "  ")
        parts.append("/-- generated from `while Q: Q.pop_and_run()`; `fuel` bounds the number of events -/\n"
                     "def loop (P : EArgs) : Nat → Loc → TM Loc\n  | 0, _ => TM.fail \"fuel\"\n  | fuel + 1, σ => do\n"
                     "    if decide (MyQueue.len σ.Q > 0) then do\n      let σ ← pop_and_run P σ\n      loop P fuel σ\n    else pure σ\n")
        parts.append(f"/-- generated from `fast_nonMarkov_SIR` (EoN/simulation.py:{body[start].lineno}-{post[-1].lineno}) -/\n"
                     "def run (P : EArgs) (initial_infecteds initial_recovereds : List Node) (fuel : Nat) : TM Loc := do\n"
                     "  let σ : Loc := Loc.init\n" + "\n".join(pre) + "\n  let σ ← loop P fuel σ\n" + "\n".join(post_l) + "\n  pure σ\n")
        sources.append(ast.unparse(ast.Module(body=pre_stmts + [wh] + post, type_ignores=[])))
    except (Unsupported, KeyError) as ex:
        errors["fast_nonMarkov_SIR"] = f"unsupported: {ex}"
    sha = hashlib.sha1("\n".join(sources).encode()).hexdigest()
    return HEADER.format(sha=sha) + "\n".join(parts) + "\nend GenESIR\n", errors


# ======================================================================================= fast_SIS (Markovian SIS)
FIELDS_FS = [("status", "status"), ("rec_time", "nodefn:erat"), ("Q", "queue"), ("times", "list:erat"), ("S", "list:int"),
             ("I", "list:int"), ("infection_times", "ddlist"), ("recovery_times", "ddlist"), ("transmissions", "trans"),
             # locals of the handlers that are assigned on several paths (kept in the record; always written before read)
             ("rec_rate", "rat"), ("delay", "erat"), ("transmission_time", "erat")]
PARAMS_FS_MAIN = {"tmin": ("P.tmin", "rat"), "tmax": ("P.tmax", "erat"), "initial_infecteds": ("initial_infecteds", "nodes")}
PARAMS_FS_TRANS = dict(PARAMS_FS_MAIN, time=("time", "erat"), source=("source", "onode"), target=("target", "node"))
PARAMS_FS_REC = dict(PARAMS_FS_MAIN, time=("time", "erat"), node=("node", "node"))
PARAMS_FS_FIND = dict(PARAMS_FS_MAIN, time=("time", "erat"), tau=("tau", "rat"), source=("source", "node"), target=("target", "node"))


class FsFn(EvFn):
    def __init__(self, node, params):
        super().__init__(node, params, fields=FIELDS_FS, ns="GenFSIS", events=EVENTS_FSIS)

    def expr(self, e, ind):
        if ast.unparse(e) == "defaultdict(lambda: [])":
            return [], "[]", "list:empty"
        return super().expr(e, ind)

    def call(self, e, ind):
        f = e.func
        src = ast.unparse(e)
        if isinstance(f, ast.Name) and f.id == "trans_rate_fxn" and len(e.args) == 2:
            (p1, a, ka), (p2, b, kb) = self.expr(e.args[0], ind), self.expr(e.args[1], ind)
            if (ka, kb) != ("node", "node"):
                raise Unsupported("trans_rate_fxn arguments")
            return p1 + p2, f"(P.transRate {a} {b})", "rat"
        if isinstance(f, ast.Name) and f.id == "rec_rate_fxn" and len(e.args) == 1:
            p1, a, ka = self.expr(e.args[0], ind)
            if ka != "node":
                raise Unsupported("rec_rate_fxn argument")
            return p1, f"(P.recRate {a})", "rat"
        if isinstance(f, ast.Name) and f.id == "_find_next_trans_SIS_Markov":
            names = [ast.unparse(a) for a in e.args]
            if len(e.args) != 7 or names[0] != "Q" or names[1] != "time" or names[5:] != ["status", "rec_time"] \
                    or len(e.keywords) != 1 or e.keywords[0].arg != "trans_event_args" or not isinstance(e.keywords[0].value, ast.Tuple):
                raise Unsupported("call of _find_next_trans_SIS_Markov: " + src[:80])
            tea = [ast.unparse(a) for a in e.keywords[0].value.elts]
            ctor, (pos, shared), payload = self.events["_process_trans_SIS_Markov"]
            # the event that the callee may queue carries (G, source, target, shared objects): must be the callee's own source/target
            if tea[0] != "G" or tea[1] != names[3] or tea[2] != names[4] or tea[pos:] != shared:
                raise Unsupported("trans_event_args do not match the call: " + str(tea))
            pr, rate, kr = self.expr(e.args[2], ind)
            (p3, a, ka), (p4, b, kb) = self.expr(e.args[3], ind), self.expr(e.args[4], ind)
            if kr != "rat" or (ka, kb) != ("node", "node"):
                raise Unsupported("argument kinds of _find_next_trans_SIS_Markov")
            return pr + p3 + p4 + [f"{ind}let σ ← find_next_trans P time {rate} {a} {b} σ"], "()", "unit"
        return super().call(e, ind)

    def block(self, stmts, ind, in_loop=False):
        out = []
        for i, st in enumerate(stmts):
            if isinstance(st, ast.Raise):
                name = st.exc.func.attr if (isinstance(st.exc, ast.Call) and isinstance(st.exc.func, ast.Attribute)) else "Exception"
                out.append(f'{ind}let σ ← (TM.fail "{name}" : TM Loc)')
                continue
            if isinstance(st, ast.If) and ast.unparse(st.test) == "source is not None" and self.params.get("source", ("", ""))[1] == "onode" \
                    and not st.orelse:
                saved = dict(self.params)
                self.params = dict(self.params, source=("source", "node"))
                body = self.block(st.body, ind + "    ", False)
                self.params = saved
                out += [f"{ind}let σ ← (match source with", f"{ind}  | some source => do"] + body + [f"{ind}    pure σ", f"{ind}  | none => pure σ)"]
                continue
            out += super().block([st], ind, in_loop and i == len(stmts) - 1)
        return out


HEADER_FS = HEADER.replace("`myQueue`, `_process_trans_SIR_`, `_process_rec_SIR_` and\n`fast_nonMarkov_SIR`",
                           "`myQueue`, `_process_trans_SIS_Markov`, `_find_next_trans_SIS_Markov`, `_process_rec_SIS_` and\n`fast_SIS`").replace("namespace GenESIR", "namespace GenFSIS")


def body_of(n):
    return [s for s in n.body if not (isinstance(s, ast.Expr) and isinstance(s.value, ast.Constant))]


def translate_fsis(repo=REPO):
    src = open(os.path.join(repo, "EoN", "simulation.py")).read()
    tree = ast.parse(src)
    fns = {n.name: n for n in tree.body if isinstance(n, ast.FunctionDef)}
    cls = {n.name: n for n in tree.body if isinstance(n, ast.ClassDef)}
    errors, parts, sources = {}, [], []
    try:
        parts.append(queue_lean(cls["myQueue"]))
        sources.append(ast.unparse(cls["myQueue"]))
        parts.append("/-- the arguments: the graph is read through `G.neighbors` and `G.order()`; `transRate` / `recRate` are the rate functions\n"
                     "returned by `EoN._get_rate_functions_` (tau * edge weight, gamma * node weight) -/\n"
                     "structure FArgs where\n  nbrs : Node → List Node\n  order : Nat\n  tmin : Rat\n  tmax : ERat\n"
                     "  transRate : Node → Node → Rat\n  recRate : Node → Rat\n")
        parts.append("/-- the objects shared by the main function and the event handlers -/\nstructure Loc where\n" +
                     "\n".join(f"  {f} : {pf.LEAN_TY[k]}" for f, k in FIELDS_FS) + "\n")
        parts.append("def Loc.init : Loc :=\n  { " + ", ".join(f"{f} := {pf.DEFAULT[k]}" for f, k in FIELDS_FS) + " }\n")
        # --- _process_rec_SIS_
        n = fns["_process_rec_SIS_"]
        if [a.arg for a in n.args.args] != ["time", "node", "times", "recovery_times", "S", "I", "status"]:
            raise Unsupported("_process_rec_SIS_ parameters")
        lines = FsFn(n, PARAMS_FS_REC).block(body_of(n), "  ")
        parts.append(f"/-- generated from `_process_rec_SIS_` (EoN/simulation.py:{n.lineno}) -/\n"
                     "def process_rec (P : FArgs) (time : ERat) (node : Node) (σ : Loc) : TM Loc := do\n" + "\n".join(lines) + "\n  pure σ\n")
        sources.append(ast.unparse(n))
        # --- _find_next_trans_SIS_Markov
        n = fns["_find_next_trans_SIS_Markov"]
        if [a.arg for a in n.args.args] != ["Q", "time", "tau", "source", "target", "status", "rec_time", "trans_event_args"]:
            raise Unsupported("_find_next_trans_SIS_Markov parameters")
        lines = FsFn(n, PARAMS_FS_FIND).block(body_of(n), "  ")
        parts.append(f"/-- generated from `_find_next_trans_SIS_Markov` (EoN/simulation.py:{n.lineno}) -/\n"
                     "def find_next_trans (P : FArgs) (time : ERat) (tau : Rat) (source target : Node) (σ : Loc) : TM Loc := do\n"
                     + "\n".join(lines) + "\n  pure σ\n")
        sources.append(ast.unparse(n))
        # --- _process_trans_SIS_Markov
        n = fns["_process_trans_SIS_Markov"]
        want = ["time", "G", "source", "target", "times", "S", "I", "Q", "status", "rec_time", "infection_times", "recovery_times",
                "transmissions", "trans_rate_fxn", "rec_rate_fxn"]
        if [a.arg for a in n.args.args] != want:
            raise Unsupported("_process_trans_SIS_Markov parameters")
        lines = FsFn(n, PARAMS_FS_TRANS).block(body_of(n), "  ")
        parts.append(f"/-- generated from `_process_trans_SIS_Markov` (EoN/simulation.py:{n.lineno}) -/\n"
                     "def process_trans (P : FArgs) (time : ERat) (source : Option Node) (target : Node) (σ : Loc) : TM Loc := do\n"
                     + "\n".join(lines) + "\n  pure σ\n")
        sources.append(ast.unparse(n))
        parts.append("/-- generated from `myQueue.pop_and_run`: pop the smallest entry and call its function on the shared objects -/\n"
                     "def pop_and_run (P : FArgs) (σ : Loc) : TM Loc := do\n"
                     "  let (m, q) ← PyTM.liftE (MyQueue.popMin σ.Q)\n  let σ := { σ with Q := q }\n"
                     "  match m.2.2 with\n  | Ev.trans source target => process_trans P m.1 source target σ\n"
                     "  | Ev.recov node => process_rec P m.1 node σ\n")
        # --- main
        n = fns["fast_SIS"]
        body = n.body
        start = next((i for i, s in enumerate(body) if ast.unparse(s) == "times = [tmin]"), None)
        wi = next((i for i, s in enumerate(body) if isinstance(s, ast.While)), None)
        if start is None or wi is None:
            raise Unsupported("slice markers of fast_SIS not found")
        wh = body[wi]
        if ast.unparse(wh.test) != "Q" or [ast.unparse(s) for s in wh.body] != ["Q.pop_and_run()"]:
            raise Unsupported("main loop is no longer `while Q: Q.pop_and_run()`")
        # the rate functions come from EoN._get_rate_functions_ (parameters transRate / recRate)
        if not any(ast.unparse(s).startswith("trans_rate_fxn, rec_rate_fxn = EoN._get_rate_functions_(G, tau, gamma, transmission_weight, recovery_weight)")
                   for s in body[:start]):
            raise Unsupported("rate functions are no longer obtained from EoN._get_rate_functions_")
        post = body[wi + 1: wi + 4]
        if [ast.unparse(s) for s in post] != ["times = times[len(initial_infecteds):]", "S = S[len(initial_infecteds):]",
                                              "I = I[len(initial_infecteds):]"]:
            raise Unsupported("removal of the synthetic initial rows changed")
        fn = FsFn(n, PARAMS_FS_MAIN)
        pre = fn.block(body[start:wi], "  ")
        post_l = fn.block(post, "  ")
        parts.append("/-- generated from `while Q: Q.pop_and_run()`; `fuel` bounds the number of events -/\n"
                     "def loop (P : FArgs) : Nat → Loc → TM Loc\n  | 0, _ => TM.fail \"fuel\"\n  | fuel + 1, σ => do\n"
                     "    if decide (MyQueue.len σ.Q > 0) then do\n      let σ ← pop_and_run P σ\n      loop P fuel σ\n    else pure σ\n")
        parts.append(f"/-- generated from `fast_SIS` (EoN/simulation.py:{body[start].lineno}-{post[-1].lineno}) -/\n"
                     "def run (P : FArgs) (initial_infecteds : List Node) (fuel : Nat) : TM Loc := do\n"
                     "  let σ : Loc := Loc.init\n" + "\n".join(pre) + "\n  let σ ← loop P fuel σ\n" + "\n".join(post_l) + "\n  pure σ\n")
        sources.append(ast.unparse(ast.Module(body=body[start:wi + 4], type_ignores=[])))
    except (Unsupported, KeyError) as ex:
        errors["fast_SIS"] = f"unsupported: {ex}"
    sha = hashlib.sha1("\n".join(sources).encode()).hexdigest()
    return HEADER_FS.format(sha=sha) + "\n".join(parts) + "\nend GenFSIS\n", errors



# ======================================================================================= fast_nonMarkov_SIS
FIELDS_NS = [("status", "status"), ("rec_time", "nodefn:erat"), ("Q", "queue"), ("times", "list:erat"), ("S", "list:int"),
             ("I", "list:int"), ("infection_times", "ddlist"), ("recovery_times", "ddlist"), ("transmissions", "trans"),
             # locals of the handler that are re-assigned inside branches (kept in the record; written before read)
             ("trans_times", "list:erat"), ("following_transmissions", "list:erat")]
PARAMS_NS_MAIN = {"tmin": ("P.tmin", "rat"), "tmax": ("P.tmax", "erat"), "initial_infecteds": ("initial_infecteds", "nodes")}
PARAMS_NS_TRANS = dict(PARAMS_NS_MAIN, time=("time", "erat"), source=("source", "onode"), target=("target", "node"),
                       future_transmissions=("future_transmissions", "list:erat"))
PARAMS_NS_REC = dict(PARAMS_NS_MAIN, time=("time", "erat"), node=("node", "node"))
EVENTS_NS = {
    "_process_rec_SIS_": ("recov", (1, ["times", "recovery_times", "S", "I", "status"]), [0]),
    "_process_trans_SIS_nonMarkov_": ("transF", (4, ["times", "S", "I", "Q", "status", "rec_time", "infection_times", "recovery_times",
                                                     "transmissions", "trans_and_rec_time_fxn", "trans_and_rec_time_args"]), [1, 2, 3]),
}


class NsFn(EvFn):
    def __init__(self, node, params):
        super().__init__(node, params, fields=FIELDS_NS, ns="GenNMSIS", events=EVENTS_NS)

    def expr(self, e, ind):
        src = ast.unparse(e)
        if src == "defaultdict(lambda: [])":
            return [], "[]", "list:empty"
        if isinstance(e, ast.Subscript) and isinstance(e.value, ast.Name) and self.temps.get(e.value.id) == "delaysL":
            pk, key, kk = self.expr(e.slice, ind)
            t = self.tmp("dl")
            return pk + [f"{ind}let {t} ← PyTM.liftE (PyRT.dictGet {e.value.id} {key})"], t, "list:erat"
        if isinstance(e, ast.Subscript) and isinstance(e.slice, ast.Slice) and e.slice.upper is None and e.slice.step is None \
                and ast.unparse(e.slice.lower) == "1":
            pv, v, kv = self.expr(e.value, ind)
            if kv == "list:erat":
                return pv, f"({v}.drop 1)", "list:erat"
        if isinstance(e, ast.ListComp) and len(e.generators) == 1 and isinstance(e.generators[0].target, ast.Name) \
                and len(e.generators[0].ifs) <= 1 and not e.generators[0].is_async:
            g = e.generators[0]
            pv, seq, kv = self.expr(g.iter, ind)
            if kv != "list:erat":
                raise Unsupported("comprehension over " + kv)
            x = g.target.id
            saved = dict(self.temps)
            saved_params = self.params
            self.params = {k: v for k, v in self.params.items() if k != x}     # the comprehension variable shadows a parameter
            self.temps[x] = "erat"
            pe, elt, ke = self.expr(e.elt, ind)
            pc, cond = ([], None)
            if g.ifs:
                pc, cond = self.truth(g.ifs[0], ind)
            self.temps, self.params = saved, saved_params
            if pe or pc or ke != "erat":
                raise Unsupported("comprehension with effects / of kind " + ke)
            out = seq
            if cond is not None:
                out = f"({out}.filter (fun {x} => {cond}))"
            if elt != x:
                out = f"({out}.map (fun {x} => {elt}))"
            return pv, out, "list:erat"
        if isinstance(e, ast.Compare) and len(e.ops) == 1 and isinstance(e.ops[0], ast.Gt):
            pa, a, ka = self.expr(e.left, ind)
            pb, b, kb = self.expr(e.comparators[0], ind)
            if ka == "erat" and kb == "erat":
                return pa + pb, f"(ERat.lt {b} {a})", "bool"
        return super().expr(e, ind)

    def truth(self, e, ind):
        p, t, k = self.expr(e, ind)
        if k == "list:erat":
            return p, f"(!{t}.isEmpty)"
        if k == "bool":
            return p, t
        return super().truth(e, ind)

    def call(self, e, ind):
        f = e.func
        if isinstance(f, ast.Name) and f.id == "trans_and_rec_time_fxn":
            if [ast.unparse(a) for a in e.args] != ["target", "G.neighbors(target)", "*trans_and_rec_time_args"]:
                raise Unsupported("callback arguments " + ast.unparse(e))
            t = self.tmp("jr")
            # the user rule may depend on how many times `target` has been infected before this call (the harness's
            # tables are indexed by the k-th infection): that count is read off the shared `infection_times`
            return [f"{ind}let {t} ← P.transRec ((alGet σ.infection_times [] target).length - 1) target (P.nbrs target)"], t, "jointresL"
        return super().call(e, ind)

    def block(self, stmts, ind, in_loop=False):
        out = []
        for i, st in enumerate(stmts):
            src = ast.unparse(st)
            if isinstance(st, ast.Assign) and isinstance(st.targets[0], ast.Tuple) and src.startswith("trans_delays, rec_delay = "):
                p, t, k = self.expr(st.value, ind)
                if k != "jointresL":
                    raise Unsupported(src)
                self.temps["trans_delays"], self.temps["rec_delay"] = "delaysL", "erat"
                out += p + [f"{ind}let (trans_delays, rec_delay) := {t}"]
                continue
            if isinstance(st, ast.Assign) and isinstance(st.targets[0], ast.Name) and self.fields.get(st.targets[0].id) == "list:erat":
                p, t, k = self.expr(st.value, ind)
                if k != "list:erat":
                    raise Unsupported(src)
                out += p + [f"{ind}let σ := {{ σ with {st.targets[0].id} := {t} }}"]
                continue
            out += super().block([st], ind, in_loop and i == len(stmts) - 1)
        return out


HEADER_NS = HEADER.replace("`myQueue`, `_process_trans_SIR_`, `_process_rec_SIR_` and\n`fast_nonMarkov_SIR`",
                           "`myQueue`, `_process_trans_SIS_nonMarkov_`, `_process_rec_SIS_` and\n`fast_nonMarkov_SIS`").replace("namespace GenESIR", "namespace GenNMSIS")


def translate_nmsis(repo=REPO):
    src = open(os.path.join(repo, "EoN", "simulation.py")).read()
    tree = ast.parse(src)
    fns = {n.name: n for n in tree.body if isinstance(n, ast.FunctionDef)}
    cls = {n.name: n for n in tree.body if isinstance(n, ast.ClassDef)}
    errors, parts, sources = {}, [], []
    try:
        parts.append(queue_lean(cls["myQueue"], future=True))
        sources.append(ast.unparse(cls["myQueue"]))
        parts.append("/-- the arguments: the graph is read through `G.neighbors` and `G.order()`; `transRec k node nbrs` is the user's\n"
                     "`trans_and_rec_time_fxn(node, nbrs, *args)` at the `k`-th infection of `node` (k = 0 the first): the list of delays per\n"
                     "neighbour in dictionary order and the duration -/\n"
                     "structure NArgs where\n  nbrs : Node → List Node\n  order : Nat\n  tmin : Rat\n  tmax : ERat\n"
                     "  transRec : Nat → Node → List Node → TM (List (Node × List ERat) × ERat)\n")
        parts.append("/-- the objects shared by the main function and the event handlers -/\nstructure Loc where\n" +
                     "\n".join(f"  {f} : {pf.LEAN_TY[k]}" for f, k in FIELDS_NS) + "\n")
        parts.append("def Loc.init : Loc :=\n  { " + ", ".join(f"{f} := {pf.DEFAULT[k]}" for f, k in FIELDS_NS) + " }\n")
        n = fns["_process_rec_SIS_"]
        if [a.arg for a in n.args.args] != ["time", "node", "times", "recovery_times", "S", "I", "status"]:
            raise Unsupported("_process_rec_SIS_ parameters")
        lines = NsFn(n, PARAMS_NS_REC).block(body_of(n), "  ")
        parts.append(f"/-- generated from `_process_rec_SIS_` (EoN/simulation.py:{n.lineno}) -/\n"
                     "def process_rec (P : NArgs) (time : ERat) (node : Node) (σ : Loc) : TM Loc := do\n" + "\n".join(lines) + "\n  pure σ\n")
        sources.append(ast.unparse(n))
        n = fns["_process_trans_SIS_nonMarkov_"]
        want = ["time", "G", "source", "target", "future_transmissions", "times", "S", "I", "Q", "status", "rec_time", "infection_times",
                "recovery_times", "transmissions", "trans_and_rec_time_fxn", "trans_and_rec_time_args"]
        if [a.arg for a in n.args.args] != want:
            raise Unsupported("_process_trans_SIS_nonMarkov_ parameters")
        lines = NsFn(n, PARAMS_NS_TRANS).block(body_of(n), "  ")
        parts.append(f"/-- generated from `_process_trans_SIS_nonMarkov_` (EoN/simulation.py:{n.lineno}) -/\n"
                     "def process_trans (P : NArgs) (time : ERat) (source : Option Node) (target : Node) (future_transmissions : List ERat) "
                     "(σ : Loc) : TM Loc := do\n" + "\n".join(lines) + "\n  pure σ\n")
        sources.append(ast.unparse(n))
        parts.append("/-- generated from `myQueue.pop_and_run`: pop the smallest entry and call its function on the shared objects -/\n"
                     "def pop_and_run (P : NArgs) (σ : Loc) : TM Loc := do\n"
                     "  let (m, q) ← PyTM.liftE (MyQueue.popMin σ.Q)\n  let σ := { σ with Q := q }\n"
                     "  match m.2.2 with\n  | Ev.trans source target future => process_trans P m.1 source target future σ\n"
                     "  | Ev.recov node => process_rec P m.1 node σ\n")
        n = fns["fast_nonMarkov_SIS"]
        body = n.body
        start = next((i for i, s in enumerate(body) if ast.unparse(s) == "times, S, I = ([tmin], [G.order()], [0])"), None)
        wi = next((i for i, s in enumerate(body) if isinstance(s, ast.While)), None)
        if start is None or wi is None:
            raise Unsupported("slice markers of fast_nonMarkov_SIS not found")
        wh = body[wi]
        if ast.unparse(wh.test) != "Q" or [ast.unparse(s) for s in wh.body] != ["Q.pop_and_run()"]:
            raise Unsupported("main loop is no longer `while Q: Q.pop_and_run()`")
        post = body[wi + 1: wi + 4]
        if [ast.unparse(s) for s in post] != ["times = times[len(initial_infecteds):]", "S = S[len(initial_infecteds):]",
                                              "I = I[len(initial_infecteds):]"]:
            raise Unsupported("removal of the synthetic initial rows changed")
        fn = NsFn(n, PARAMS_NS_MAIN)
        pre = fn.block(body[start:wi], "  ")
        post_l = fn.block(post, "  ")
        parts.append("/-- generated from `while Q: Q.pop_and_run()`; `fuel` bounds the number of events -/\n"
                     "def loop (P : NArgs) : Nat → Loc → TM Loc\n  | 0, _ => TM.fail \"fuel\"\n  | fuel + 1, σ => do\n"
                     "    if decide (MyQueue.len σ.Q > 0) then do\n      let σ ← pop_and_run P σ\n      loop P fuel σ\n    else pure σ\n")
        parts.append(f"/-- generated from `fast_nonMarkov_SIS` (EoN/simulation.py:{body[start].lineno}-{post[-1].lineno}) -/\n"
                     "def run (P : NArgs) (initial_infecteds : List Node) (fuel : Nat) : TM Loc := do\n"
                     "  let σ : Loc := Loc.init\n" + "\n".join(pre) + "\n  let σ ← loop P fuel σ\n" + "\n".join(post_l) + "\n  pure σ\n")
        sources.append(ast.unparse(ast.Module(body=body[start:wi + 4], type_ignores=[])))
    except (Unsupported, KeyError) as ex:
        errors["fast_nonMarkov_SIS"] = f"unsupported: {ex}"
    sha = hashlib.sha1("\n".join(sources).encode()).hexdigest()
    return HEADER_NS.format(sha=sha) + "\n".join(parts) + "\nend GenNMSIS\n", errors



def _write(target, text):
    old = open(target).read() if os.path.exists(target) else None
    if text and old != text:
        tmp = target + ".tmp%d" % os.getpid()
        with open(tmp, "w") as f:
            f.write(text)
        os.replace(tmp, target)
    return old != text


def regenerate(which=("sir", "fsis", "nmsis")):
    """`which`: the families to regenerate; a family whose translation fails keeps its old file and reports the error"""
    import warnings
    gen = os.path.join(os.path.dirname(os.path.abspath(__file__)), "..", "lean", "EoNVerif", "Gen")
    changed, errors = False, {}
    with warnings.catch_warnings():
        warnings.simplefilter("ignore")
        if "sir" in which:
            text, e = translate()
            errors.update(e)
            if not e:
                changed |= _write(os.path.join(gen, "EventSIRGen.lean"), text)
        if "fsis" in which:
            text, e = translate_fsis()
            errors.update(e)
            if not e:
                changed |= _write(os.path.join(gen, "FastSISGen.lean"), text)
        if "nmsis" in which:
            text, e = translate_nmsis()
            errors.update(e)
            if not e:
                changed |= _write(os.path.join(gen, "EventSISGen.lean"), text)
    return changed, errors


def main():
    changed, errors = regenerate()
    print("pyevent2lean: Gen/EventSIRGen.lean, Gen/FastSISGen.lean, Gen/EventSISGen.lean %s" % ("rewritten" if changed else "up to date"))
    for n, e in errors.items():
        print(f"pyevent2lean: {n}: {e}")
    return 1 if errors else 0


if __name__ == "__main__":
    sys.exit(main())
