import DriverArgs
partial def loopArgs (h : IO.FS.Stream) (out : IO.FS.Stream) : IO Unit := do
  let line ← h.getLine
  if line.isEmpty then return ()
  out.putStrLn (DrvGenArgs.handle line)
  loopArgs h out
def main : IO Unit := do loopArgs (← IO.getStdin) (← IO.getStdout)
