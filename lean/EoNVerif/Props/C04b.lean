import EoNVerif.Proofs.EventSIRRows
/-!
C04 / C05 — target statements about the rows returned by the event-driven SIR model (`EventSIR.rows`, the arrays of
`fast_nonMarkov_SIR` / `fast_SIR` after the `len(initial_infecteds)` synthetic rows have been stripped).

`traj` (the arrays as a `Traj`) is defined, unchanged, in `EoNVerif/Proofs/EventSIRRows.lean`.
-/
namespace EventSIR

/-- **C04**: for every delay/duration table and every tie-breaking order the returned arrays are well-formed
(equal lengths, first time tmin, ordered, below tmax, non-negative counts summing to N, one legal move per row,
S non-increasing, R non-decreasing) -/
theorem rows_wf (nodes : List Node) (nbrs : Node → List Node) (delay : Node → Node → ERat) (dur : Node → ERat)
    (tmin : Rat) (tmax : ERat) (infs recs : List Node) (h : WF nodes nbrs delay dur infs recs)
    (hrn : recs.Nodup) (htm : ERat.lt (some tmin) tmax = true) (sel : Nat → Nat) (fuel : Nat)
    (hq : (run (tableParams nodes nbrs delay dur tmin tmax) sel infs recs fuel).queue = []) :
    Pred.wellFormed TrajKind.sirCont nodes.length tmin tmax false false
      (traj (run (tableParams nodes nbrs delay dur tmin tmax) sel infs recs fuel) infs.length) = true :=
  rows_wf_core h htm (Inv.run h sel fuel) (RInv.run h hrn htm sel fuel) hq

set_option linter.unusedVariables false in -- `hrn` is part of the fixed statement but not needed
/-- **C05**: with heapq's tie-breaking (`sel = 0`: smallest insertion counter first) row 0 is the requested initial
condition -/
theorem row0_ic (nodes : List Node) (nbrs : Node → List Node) (delay : Node → Node → ERat) (dur : Node → ERat)
    (tmin : Rat) (tmax : ERat) (infs recs : List Node) (h : WF nodes nbrs delay dur infs recs)
    (hrn : recs.Nodup) (htm : ERat.lt (some tmin) tmax = true) (fuel : Nat)
    (hq : (run (tableParams nodes nbrs delay dur tmin tmax) (fun _ => 0) infs recs fuel).queue = []) :
    Pred.initialOK nodes.length infs recs
      (Pred.row (traj (run (tableParams nodes nbrs delay dur tmin tmax) (fun _ => 0) infs recs fuel) infs.length).cols 0)
      none true = true := by
  have hrow := Ph.final h infs.length 0 _ (by omega) (Ph.init (tmin := tmin) (tmax := tmax) h htm) fuel 0 hq
  have hrow' : Pred.row (traj (run (tableParams nodes nbrs delay dur tmin tmax) (fun _ => 0) infs recs fuel)
      infs.length).cols 0 =
      [(nodes.length : Int) - (infs.length : Int) - (recs.length : Int), (infs.length : Int), (recs.length : Int)] := hrow
  rw [hrow']
  simp [Pred.initialOK]

/-- **C05**: initially recovered nodes are never infected -/
theorem recovered_never_infected (nodes : List Node) (nbrs : Node → List Node) (delay : Node → Node → ERat) (dur : Node → ERat)
    (tmin : Rat) (tmax : ERat) (infs recs : List Node) (h : WF nodes nbrs delay dur infs recs)
    (sel : Nat → Nat) (fuel : Nat) :
    ∀ e ∈ (run (tableParams nodes nbrs delay dur tmin tmax) sel infs recs fuel).trans, e.2.2 ∉ recs := by
  intro e he
  obtain ⟨p, hp⟩ := (Inv.run (tmin := tmin) (tmax := tmax) h sel fuel).tr_walk e he
  exact TW.not_recs hp

end EventSIR

/-! non-vacuity: a 4-clique with two initial infecteds and one initially recovered node, a zero delay `0 → 2`, a zero
duration of node `0` (both events happen at `tmin` and may be popped before the initial event of node `1`) and a
horizon that cuts the last recovery -/
def c04bNb (u : Node) : List Node :=
  match u with | 0 => [1, 2, 3] | 1 => [0, 2, 3] | 2 => [0, 1, 3] | 3 => [0, 1, 2] | _ => []
def c04bDelay (u v : Node) : ERat := if u = 0 ∧ v = 2 then some 0 else some 1
def c04bDur (u : Node) : ERat := if u = 0 then some 0 else some 2

theorem c04b_wf : EventSIR.WF [0, 1, 2, 3] c04bNb c04bDelay c04bDur [0, 1] [3] where
  nodup := by decide
  nbr_nodup := by
    intro u hu
    simp only [List.mem_cons, List.not_mem_nil, or_false] at hu
    rcases hu with rfl | rfl | rfl | rfl <;> decide
  nbr_mem := by
    intro u hu
    simp only [List.mem_cons, List.not_mem_nil, or_false] at hu
    rcases hu with rfl | rfl | rfl | rfl <;> decide
  delay_nonneg := by
    intro u v d hd
    unfold c04bDelay at hd
    split at hd <;> (injection hd with hd; subst hd; decide +kernel)
  dur_nonneg := by
    intro u d hd
    unfold c04bDur at hd
    split at hd <;> (injection hd with hd; subst hd; decide +kernel)
  infs_nodup := by decide
  infs_mem := by decide
  recs_mem := by decide
  disjoint := by decide

/-- the run terminates (every tie order tried) … -/
example : (EventSIR.run (EventSIR.tableParams [0, 1, 2, 3] c04bNb c04bDelay c04bDur 0 (some 3)) (fun k => k)
    [0, 1] [3] 30).queue = [] := by decide +kernel
example : (EventSIR.run (EventSIR.tableParams [0, 1, 2, 3] c04bNb c04bDelay c04bDur 0 (some 3)) (fun _ => 0)
    [0, 1] [3] 30).queue = [] := by decide +kernel

/-- … under the tie order `sel k = k` the recovery of node `0` (zero duration, at `tmin`) is popped before the initial
event of node `1`; the returned arrays then start with the non-initial row `(S, I, R) = (2, 0, 2)` -/
example : EventSIR.rows (EventSIR.run (EventSIR.tableParams [0, 1, 2, 3] c04bNb c04bDelay c04bDur 0 (some 3))
    (fun k => k) [0, 1] [3] 30) 2 = ([0, 0, 0, 2, 2], [2, 1, 0, 0, 0], [0, 1, 2, 1, 0], [2, 2, 2, 3, 4]) := by
  decide +kernel

/-- `rows_wf` applies to it -/
example : Pred.wellFormed TrajKind.sirCont 4 0 (some 3) false false
    (EventSIR.traj (EventSIR.run (EventSIR.tableParams [0, 1, 2, 3] c04bNb c04bDelay c04bDur 0 (some 3)) (fun k => k)
      [0, 1] [3] 30) 2) = true :=
  EventSIR.rows_wf _ _ _ _ _ _ _ _ c04b_wf (by decide) (by decide +kernel) _ _ (by decide +kernel)

/-- `row0_ic` applies under `heapq` order … -/
example : Pred.initialOK 4 [0, 1] [3]
    (Pred.row (EventSIR.traj (EventSIR.run (EventSIR.tableParams [0, 1, 2, 3] c04bNb c04bDelay c04bDur 0 (some 3))
      (fun _ => 0) [0, 1] [3] 30) 2).cols 0) none true = true :=
  EventSIR.row0_ic _ _ _ _ _ _ _ _ c04b_wf (by decide) (by decide +kernel) _ (by decide +kernel)

/-- … and its restriction to `heapq` order is necessary: under `sel k = k` row 0 is `[2, 0, 2]`, not the requested
`[4 - 2 - 1, 2, 1]`, so the conclusion of `row0_ic` fails for that tie order -/
example : Pred.initialOK 4 [0, 1] [3]
    (Pred.row (EventSIR.traj (EventSIR.run (EventSIR.tableParams [0, 1, 2, 3] c04bNb c04bDelay c04bDur 0 (some 3))
      (fun k => k) [0, 1] [3] 30) 2).cols 0) none true = false := by decide +kernel
