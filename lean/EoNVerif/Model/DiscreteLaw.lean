import EoNVerif.Model.Discrete
import EoNVerif.Rand.Dist
/-! Law side of the `basic_*` discrete simulators: independent Bernoulli(p) contacts. -/
namespace Discrete

/-- "at least one of `k` independent contacts succeeds" — each contact is one `random.random() < p` -/
def anyContact (p : Rat) : Nat → Dist Bool
  | 0 => Dist.pure false
  | k + 1 => Dist.bind (Dist.bern p) fun b => if b then Dist.pure true else anyContact p k

/-- `percolate_network`: one Bernoulli(p) draw per edge, kept edges collected in order -/
def percolateDist {ε : Type} (p : Rat) : List ε → Dist (List ε)
  | [] => Dist.pure []
  | e :: es => Dist.bind (Dist.bern p) fun b =>
      Dist.push (fun kept => if b then e :: kept else kept) (percolateDist p es)

end Discrete
