import EoNVerif.Proofs.GenSimple
import EoNVerif.Props.C03
/-!
C03b — refinement: the Lean code GENERATED statement by statement from `Gillespie_simple_contagion`
(`/repo/EoN/simulation.py` 4100-4305 without the specification set-up 4112-4175; generated file
`EoNVerif/Gen/SimpleGen.lean`, namespace `GenSC`, regenerated from the Python source on every verification run, calling
the generated `_ListDict_` code `Gen/ListDictGen.lean` / `Gen/ListDictTM.lean`) and the hand-written model `Simple.run`
(`EoNVerif/Model/Simple.lean`) are BISIMILAR on every tape state, so the C03 theorems proved about the model hold for
the generated code.

* `GenSC.Agree A P ic tmin tmax cfuel` (defined in `EoNVerif/Proofs/GenSimple.lean`) — the two programs are given the
  same arguments: same graph, same initial condition, `A.spont`/`A.induced` are the keys `(src, dst)` /
  `((a, b), (a, c))` of the model's transition lists, same rates, `spOut`/`inOut` = the keys with the given source (in
  list order), one empty `_ListDict_` per key in `pt0`, and `gw0` satisfies `GenSC.GWInv`: for every WEIGHTED transition
  the table holds every node `[u]` / every ordered neighbour pair `[u, v]` with the tabulated weight, for an unweighted
  transition every read returns `None`.
* `GenSC.Rel P σ s` — same status map; for the `i`-th spontaneous (induced) transition the dict
  `potential_transitions` holds, under its key, a `_ListDict_` related by `GenLD.R` (C16b) to the `i`-th structure of the
  model, which satisfies `LD.Inv`; `σ.times = s.times.reverse.map some`; the count table as in C15b (`GenCC.DRel`); the
  `get_weight` invariant `GWInv`.  `node_history`, `transmissions` (full data) are not related.
* Hypotheses: `Simple.WF P`, distinct keys within each kind (`(P.spont.map kS).Nodup`, `(P.ind.map kI).Nodup` — a
  spontaneous and an induced key are always different), `P.ret.Nodup`.
* The generated code contains two things the model does not have: the fill-in statements
  `if (a,b) not in get_weight[tr]: get_weight[tr][(a,b)] = get_weight[tr][(b,a)]` (they preserve `GWInv`,
  `GenSC.GWInv.fill`) and the small-total repair `if total_weight() < 10**-7 and total_weight() != 0:
  update_total_weight()` (the identity under the `_ListDict_` invariant, `gen_repair_id`).
Helper lemmas are in `EoNVerif/Proofs/GenSimple.lean`.
-/
namespace GenSC
variable {τ : Type} [DecidableEq τ]

/-! ## Part 1 — simulation -/

/-- **bisimulation of `run`** on every tape state: the generated function and the model both raise (and then neither
raises `KeyError`), or both return with the same tape state (same scripted draws consumed, same calls logged with the
same rates and candidate lists) and related states. -/
theorem gen_run_bisim (A : SArgs τ) (P : SCParams τ) (ic : Node → τ) (tmin : Rat) (tmax : ERat) (cfuel : Nat)
    (hAg : Agree A P ic tmin tmax cfuel) (hwf : Simple.WF P) (hndS : (P.spont.map (kS (τ := τ))).Nodup)
    (hndI : (P.ind.map (kI (τ := τ))).Nodup) (hret : P.ret.Nodup) (fuel : Nat) (ts : TapeSt) :
    ResRel P (run A fuel ts) (Simple.run P ic tmin tmax fuel cfuel ts) :=
  run_bisim A P ic tmin tmax cfuel hAg hwf hndS hndI hret fuel ts

/-- **forward simulation**: every normally returning run of the model, on every tape state, is matched by the
generated code: it returns normally, with the SAME final tape state and a related state. -/
theorem gen_run_refines (A : SArgs τ) (P : SCParams τ) (ic : Node → τ) (tmin : Rat) (tmax : ERat) (cfuel : Nat)
    (hAg : Agree A P ic tmin tmax cfuel) (hwf : Simple.WF P) (hndS : (P.spont.map (kS (τ := τ))).Nodup)
    (hndI : (P.ind.map (kI (τ := τ))).Nodup) (hret : P.ret.Nodup) (fuel : Nat) (ts ts' : TapeSt) (s : SCState τ)
    (h : Simple.run P ic tmin tmax fuel cfuel ts = .ok (s, ts')) :
    ∃ σ, run A fuel ts = .ok (σ, ts') ∧ Rel P σ s :=
  (gen_run_bisim A P ic tmin tmax cfuel hAg hwf hndS hndI hret fuel ts).fwd h

/-- **backward simulation**: every normally returning run of the generated code is a run of the model, with the same
final tape state and a related state. -/
theorem gen_run_refines_back (A : SArgs τ) (P : SCParams τ) (ic : Node → τ) (tmin : Rat) (tmax : ERat) (cfuel : Nat)
    (hAg : Agree A P ic tmin tmax cfuel) (hwf : Simple.WF P) (hndS : (P.spont.map (kS (τ := τ))).Nodup)
    (hndI : (P.ind.map (kI (τ := τ))).Nodup) (hret : P.ret.Nodup) (fuel : Nat) (ts ts' : TapeSt) (σ : Loc τ)
    (h : run A fuel ts = .ok (σ, ts')) :
    ∃ s, Simple.run P ic tmin tmax fuel cfuel ts = .ok (s, ts') ∧ Rel P σ s :=
  (gen_run_bisim A P ic tmin tmax cfuel hAg hwf hndS hndI hret fuel ts).bwd h

/-- the two programs raise on the same tape states -/
theorem gen_run_fails_iff (A : SArgs τ) (P : SCParams τ) (ic : Node → τ) (tmin : Rat) (tmax : ERat) (cfuel : Nat)
    (hAg : Agree A P ic tmin tmax cfuel) (hwf : Simple.WF P) (hndS : (P.spont.map (kS (τ := τ))).Nodup)
    (hndI : (P.ind.map (kI (τ := τ))).Nodup) (hret : P.ret.Nodup) (fuel : Nat) (ts : TapeSt) :
    (∃ e, run A fuel ts = .error e) ↔ (∃ e, Simple.run P ic tmin tmax fuel cfuel ts = .error e) := by
  have hb := gen_run_bisim A P ic tmin tmax cfuel hAg hwf hndS hndI hret fuel ts
  constructor
  · rintro ⟨e, he⟩
    rw [he] at hb
    cases hm : Simple.run P ic tmin tmax fuel cfuel ts with
    | error e' => exact ⟨e', rfl⟩
    | ok q => rw [hm] at hb; exact absurd hb (by simp [ResRel])
  · rintro ⟨e, he⟩
    rw [he] at hb
    cases hm : run A fuel ts with
    | error e' => exact ⟨e', rfl⟩
    | ok q => rw [hm] at hb; exact absurd hb (by simp [ResRel])

/-- the `while` loop alone, from any related pair of states satisfying the simulation's loop invariant (the model's
clock argument is the generated local `t`, the generated local `total_rate` is the model's total rate) -/
theorem gen_loop_bisim (A : SArgs τ) (P : SCParams τ) (ic : Node → τ) (tmin : Rat) (tmax : ERat) (cfuel : Nat)
    (hAg : Agree A P ic tmin tmax cfuel) (hwf : Simple.WF P) (hndS : (P.spont.map (kS (τ := τ))).Nodup)
    (hndI : (P.ind.map (kI (τ := τ))).Nodup) (hret : P.ret.Nodup) (fuel : Nat) (σ : Loc τ) (s : SCState τ)
    (ts : TapeSt) (hR : Rel P σ s) (hI : Simple.Inv P s) (htot : σ.total_rate = Simple.totalRate P s)
    (hh : A.full = true → ∀ u ∈ P.nodes, alHas σ.node_history u = true) :
    ResRel P (loop A fuel σ ts) (Simple.loop P tmax cfuel fuel s σ.t ts) :=
  loop_bisim A P ic tmin tmax cfuel hAg hwf hndS hndI hret fuel σ s ts (LInv.of_inv hR hI htot hh)

/-- **initial population** (the `for node in G.nodes():` loop of the generated function): started on the empty
structures it computes, key by key, what the model's `initNodes` computes position by position -/
theorem gen_init_refines (A : SArgs τ) (P : SCParams τ) (ic : Node → τ) (tmin : Rat) (tmax : ERat) (cfuel : Nat)
    (hAg : Agree A P ic tmin tmax cfuel) (hwf : Simple.WF P) (hndS : (P.spont.map (kS (τ := τ))).Nodup)
    (hndI : (P.ind.map (kI (τ := τ))).Nodup) (σ : Loc τ) (hst : σ.status = ic)
    (hpt : σ.potential_transitions = A.pt0) (hgw : σ.get_weight = A.gw0) (ps pi : List (LD Actor))
    (hm : Simple.initNodes P ic P.nodes (P.spont.map fun tr => LD.empty tr.w.isSome)
      (P.ind.map fun tr => LD.empty tr.w.isSome) = some (ps, pi)) :
    ∃ σ', A.nodes.foldlM (initNodeBody A) σ = pure σ' ∧ Frame σ σ' ∧ GWInv P σ'.get_weight ∧
      PTRel σ'.potential_transitions kS P.spont ps ∧ PTRel σ'.potential_transitions kI P.ind pi := by
  rw [hAg.nodes]
  exact initNodes_fold A P ic tmin tmax cfuel hAg hwf hndS hndI ic P.nodes (fun u hu => hu) σ hst
    (by rw [hgw]; exact hAg.gw0) _ _ ps pi
    (by rw [hpt]; exact PTRel_init A.pt0 kS (fun tr => tr.w.isSome) P.spont hAg.pt0S)
    (by rw [hpt]; exact PTRel_init A.pt0 kI (fun tr => tr.w.isSome) P.ind hAg.pt0I) hm

/-- **small-total repair**: `update_total_weight()` is the identity on every structure related to a model structure
satisfying the `_ListDict_` invariant (the recomputed sum IS the running total, and the reads insert no key) -/
theorem gen_repair_id (p : GenLD.PyLD Actor) (ld : LD Actor) (hR : GenLD.R p ld) (hI : LD.Inv ld)
    (hw : ld.weighted = true) : GenLD.update_total_weight p = .ok p :=
  update_total_weight_id p ld hR hI hw

/-- … and the three repair statements as a whole change nothing observable (`Evo`: only the entry of key `k` is
rewritten, with a structure related to the same model structure) -/
theorem gen_repair_stmt (P : SCParams τ) (σ : Loc τ) (k : PyTM.Tr τ) (ld : LD Actor) (h : St P k σ ld) :
    ∃ σ', stRepair σ k = pure σ' ∧ Evo P k σ σ' ld :=
  stRepair_eval P σ k ld h

/-- **transition choice**: the generated `for transition in …: r -= share; if r < 0: break` loop (with the checked
division) returns the key at index `Simple.pickIdx` of the shares `rate·total_weight/total_rate` -/
theorem gen_choice (pt : PT τ) (rate : PyTM.Tr τ → Rat) (tot : Rat) (htot : tot ≠ 0) (K : List (PyTM.Tr τ))
    (hK : ∀ k ∈ K, ∃ p, PyRT.alFind? pt k = some p) (r : Rat) :
    ∃ r' d, K.foldlM (cbody pt rate tot) (r, none, false) =
      .ok (r', K[Simple.pickIdx (K.map fun k => rate k * twK pt k / tot) r]?, d) :=
  chooseFold pt rate tot htot K hK r

/-- the loop body of the generated function is the staged body used in the proofs (definitional) -/
theorem gen_loop_unfold (A : SArgs τ) (fuel : Nat) (σ : Loc τ) :
    loop A (fuel + 1) σ =
      if ((decide (σ.total_rate > (0 : Rat))) && (ERat.lt σ.t A.tmax)) then iter A fuel σ else pure σ :=
  loop_succ A fuel σ

/-! ## Part 2 — the C03 facts, for the generated code -/

/-- **invariant (C03 `run_inv`)**: in the state returned by the generated function, on every tape, the structure
stored under every spontaneous key lists exactly the nodes `[u]` whose status is the transition's source, without
repetition, with the tabulated weights -/
theorem gen_run_inv_spont (A : SArgs τ) (P : SCParams τ) (ic : Node → τ) (tmin : Rat) (tmax : ERat) (cfuel : Nat)
    (hAg : Agree A P ic tmin tmax cfuel) (hwf : Simple.WF P) (hndS : (P.spont.map (kS (τ := τ))).Nodup)
    (hndI : (P.ind.map (kI (τ := τ))).Nodup) (hret : P.ret.Nodup) (fuel : Nat) (ts ts' : TapeSt) (σ : Loc τ)
    (h : run A fuel ts = .ok (σ, ts')) (tr : SpontTr τ) (htr : tr ∈ P.spont) :
    ∃ p, PyRT.dictGet σ.potential_transitions (kS tr) = .ok p ∧ p.weighted = tr.w.isSome ∧ p.items.Nodup ∧
      (∀ a, a ∈ p.items ↔ ∃ u, a = [u] ∧ u ∈ P.nodes ∧ σ.status u = tr.src) ∧
      (∀ f, tr.w = some f → ∀ u, [u] ∈ p.items → alGet p.weight 0 [u] = f u) :=
  (run_ginv A P ic tmin tmax cfuel hAg hwf hndS hndI hret fuel ts ts' σ h).spont tr htr

/-- … and the structure under every induced key lists exactly the ordered neighbour pairs `[u, v]` (along edge
direction) with statuses `(a, b)` -/
theorem gen_run_inv_ind (A : SArgs τ) (P : SCParams τ) (ic : Node → τ) (tmin : Rat) (tmax : ERat) (cfuel : Nat)
    (hAg : Agree A P ic tmin tmax cfuel) (hwf : Simple.WF P) (hndS : (P.spont.map (kS (τ := τ))).Nodup)
    (hndI : (P.ind.map (kI (τ := τ))).Nodup) (hret : P.ret.Nodup) (fuel : Nat) (ts ts' : TapeSt) (σ : Loc τ)
    (h : run A fuel ts = .ok (σ, ts')) (tr : IndTr τ) (htr : tr ∈ P.ind) :
    ∃ p, PyRT.dictGet σ.potential_transitions (kI tr) = .ok p ∧ p.weighted = tr.w.isSome ∧ p.items.Nodup ∧
      (∀ a, a ∈ p.items ↔ ∃ u v, a = [u, v] ∧ u ∈ P.nodes ∧ v ∈ P.succ u ∧ σ.status u = tr.a ∧ σ.status v = tr.b) ∧
      (∀ f, tr.w = some f → ∀ u v, [u, v] ∈ p.items → alGet p.weight 0 [u, v] = f u v) :=
  (run_ginv A P ic tmin tmax cfuel hAg hwf hndS hndI hret fuel ts ts' σ h).ind tr htr

/-- **clock (C03 `clock_eq`)**: the rate-summing loop of the generated code — whose result is the argument handed to
`random.expovariate` — evaluated on the returned state, is the total rate of the specified chain -/
theorem gen_run_clock (A : SArgs τ) (P : SCParams τ) (ic : Node → τ) (tmin : Rat) (tmax : ERat) (cfuel : Nat)
    (hAg : Agree A P ic tmin tmax cfuel) (hwf : Simple.WF P) (hndS : (P.spont.map (kS (τ := τ))).Nodup)
    (hndI : (P.ind.map (kI (τ := τ))).Nodup) (hret : P.ret.Nodup) (fuel : Nat) (ts ts' : TapeSt) (σ : Loc τ)
    (h : run A fuel ts = .ok (σ, ts')) :
    (A.spont.map Sum.inl ++ A.induced.map Sum.inr).foldlM (fun (acc : Rat) (transition : PyTM.Tr τ) => do
        let ld ← PyRT.dictGet σ.potential_transitions transition
        let (_, w) ← GenLD.total_weight ld
        pure (acc + A.rate transition * w)) 0 =
      (.ok (Simple.specTotal P σ.status) : Except String Rat) :=
  (run_ginv A P ic tmin tmax cfuel hAg hwf hndS hndI hret fuel ts ts' σ h).clock hAg hwf

/-- **counts**: the last entry of every reported column is the number of nodes in that status -/
theorem gen_run_counts (A : SArgs τ) (P : SCParams τ) (ic : Node → τ) (tmin : Rat) (tmax : ERat) (cfuel : Nat)
    (hAg : Agree A P ic tmin tmax cfuel) (hwf : Simple.WF P) (hndS : (P.spont.map (kS (τ := τ))).Nodup)
    (hndI : (P.ind.map (kI (τ := τ))).Nodup) (hret : P.ret.Nodup) (fuel : Nat) (ts ts' : TapeSt) (σ : Loc τ)
    (h : run A fuel ts = .ok (σ, ts')) (x : τ) (hx : x ∈ P.ret) :
    GenCC.lastI (alGet σ.data [] x) = PyTM.countSt P.nodes σ.status x :=
  (run_ginv A P ic tmin tmax cfuel hAg hwf hndS hndI hret fuel ts ts' σ h).counts x hx

/-- the same invariant holds after the generated loop from any state satisfying the loop invariant (i.e. at every
iteration, not only at the end of `run`) -/
theorem gen_loop_inv (A : SArgs τ) (P : SCParams τ) (ic : Node → τ) (tmin : Rat) (tmax : ERat) (cfuel : Nat)
    (hAg : Agree A P ic tmin tmax cfuel) (hwf : Simple.WF P) (hndS : (P.spont.map (kS (τ := τ))).Nodup)
    (hndI : (P.ind.map (kI (τ := τ))).Nodup) (hret : P.ret.Nodup) (fuel : Nat) (ts ts' : TapeSt) (σ σ' : Loc τ)
    (s : SCState τ) (hL : LInv A P σ s) (h : loop A fuel σ ts = .ok (σ', ts')) : GInv P σ' :=
  loop_ginv A P ic tmin tmax cfuel hAg hwf hndS hndI hret fuel ts ts' σ σ' s hL h

/-- **no `KeyError`** (C03 `run_no_keyerror`, for the generated code): on every tape state the generated function does
not raise `KeyError` — neither from a `_ListDict_.remove` of an unlisted candidate nor from the dict reads
`potential_transitions[tr]`, `data[status]`, `node_history[node]` -/
theorem gen_run_no_keyerror (A : SArgs τ) (P : SCParams τ) (ic : Node → τ) (tmin : Rat) (tmax : ERat) (cfuel : Nat)
    (hAg : Agree A P ic tmin tmax cfuel) (hwf : Simple.WF P) (hndS : (P.spont.map (kS (τ := τ))).Nodup)
    (hndI : (P.ind.map (kI (τ := τ))).Nodup) (hret : P.ret.Nodup) (fuel : Nat) (ts : TapeSt) :
    run A fuel ts ≠ .error "KeyError" :=
  (run_bisim A P ic tmin tmax cfuel hAg hwf hndS hndI hret fuel ts).no_keyerror

end GenSC


/-! ## non-vacuity 1: SIR on the path 0 — 1 — 2 (`P3`, `ic3`, `P3_wf` of `Props/C03.lean`), unweighted, undirected -/
namespace GenSC.Example

/-- the arguments of the generated function for the example of C03 (what the specification set-up of the Python function
computes from the two transition graphs `I → R` (rate 1) and `(I,S) → (I,I)` (rate 2)), full data on -/
def A3 : SArgs String where
  nodes := [0, 1, 2]
  nbrs := nbrs3
  pred := nbrs3
  directed := false
  ic := ic3
  ret := ["S", "I", "R"]
  spont := [("I", "R")]
  induced := [(("I", "S"), ("I", "I"))]
  rate := fun k => match k with | .inl _ => 1 | .inr _ => 2
  spHas := fun s => decide (s = "I") || decide (s = "R")
  spOut := fun s => if s = "I" then [("I", "R")] else []
  inHas := fun p => decide (p = ("I", "S")) || decide (p = ("I", "I"))
  inOut := fun p => if p = ("I", "S") then [(("I", "S"), ("I", "I"))] else []
  pt0 := [(Sum.inl ("I", "R"), GenLD.init false), (Sum.inr (("I", "S"), ("I", "I")), GenLD.init false)]
  gw0 := []
  tmin := 0
  tmax := some 1
  full := true
  cfuel := 5

theorem P3_spont (tr : SpontTr String) (h : tr ∈ P3.spont) : tr = { src := "I", dst := "R", rate := 1, w := none } := by
  simpa [P3] using h

theorem P3_ind (tr : IndTr String) (h : tr ∈ P3.ind) : tr = { a := "I", b := "S", c := "I", rate := 2, w := none } := by
  simpa [P3] using h

theorem A3_gw0 : GWInv P3 A3.gw0 where
  spontW := by intro tr h f hf; rw [P3_spont tr h] at hf; cases hf
  spontU := by intro tr _ _ a; rfl
  indW := by intro tr h f hf; rw [P3_ind tr h] at hf; cases hf
  indU := by intro tr _ _ a; rfl

theorem A3_agree : Agree A3 P3 ic3 0 (some 1) 5 where
  nodes := rfl
  nbrs := rfl
  pred := rfl
  directed := rfl
  ic := rfl
  ret := rfl
  spont := rfl
  induced := rfl
  rateS := by intro tr h; rw [P3_spont tr h]; rfl
  rateI := by intro tr h; rw [P3_ind tr h]; rfl
  spOut := by
    intro x
    by_cases hx : x = "I"
    · subst hx; rfl
    · have : ("I" = x) = False := by simp [eq_comm, hx]
      simp [A3, hx, this]
  spHas := by
    intro x hx
    have : ¬ x = "I" := by
      intro h; subst h; simp [A3] at hx
    simp [A3, this]
  inOut := by
    intro x
    by_cases hx : x = ("I", "S")
    · subst hx; rfl
    · have : (("I", "S") = x) = False := by simp [eq_comm, hx]
      simp [A3, hx, this]
  inHas := by
    intro x hx
    have : ¬ x = ("I", "S") := by
      intro h; subst h; simp [A3] at hx
    simp [A3, this]
  pt0S := by intro tr h; rw [P3_spont tr h]; rfl
  pt0I := by intro tr h; rw [P3_ind tr h]; rfl
  gw0 := A3_gw0
  tmin := rfl
  tmax := rfl
  cfuel := rfl

theorem P3_keysS : (P3.spont.map (kS (τ := String))).Nodup := by simp [P3]
theorem P3_keysI : (P3.ind.map (kI (τ := String))).Nodup := by simp [P3]
theorem P3_ret_nodup : P3.ret.Nodup := by decide

/-- a short explicit tape: first clock draw 1/2 (rate 3), uniform 1/2 (shares 1/3, 2/3: the transmission is chosen),
`random.choice` index 0 (the pair `[0, 1]`), second clock draw 1 (rate 4; the next event time 3/2 exceeds `tmax = 1`) -/
def tape3 : TapeSt := { tape := [.expo (1/2), .unif (1/2), .choice 0, .expo 1] }

/-- the GENERATED code on that tape: node 1 is infected by node 0 at time 1/2, the reported columns move … -/
example : ((run A3 2 tape3).toOption.map fun (σ, _) => (σ.times, σ.data)) =
    some ([some 0, some (1/2)], [("S", [2, 1]), ("I", [1, 2]), ("R", [0, 0])]) := by
  decide +kernel

example : ((run A3 2 tape3).toOption.map fun (σ, _) => σ.transmissions) = some [(some (1/2), some 0, 1)] := by
  decide +kernel

/-- … the candidates are `[0], [1]` (recovery) and the pair `[1, 2]` (transmission) … -/
example : ((run A3 2 tape3).toOption.map fun (σ, _) =>
      σ.potential_transitions.map fun kp => (PyTM.isSpont kp.1, kp.2.items)) =
    some [(true, [[0], [1]]), (false, [[1, 2]])] := by decide +kernel

/-- … the next event time is 3/2 > tmax, the tape is consumed, and the logged calls carry the clock rates 3 and 4 and
the candidate list `[[0, 1]]` -/
example : ((run A3 2 tape3).toOption.map fun (σ, ts) => (σ.t, ts.tape)) = some (some (3/2), []) := by decide +kernel

example : ((run A3 2 tape3).toOption.map fun (_, ts) => ts.trace.toList) =
    some [Call.expo 3, Call.unif, Call.choice [[0, 1]], Call.expo 4] := by decide +kernel

/-- the fill-in statements and the reads have populated `get_weight` with `None` entries only -/
example : ((run A3 2 tape3).toOption.map fun (σ, _) => σ.get_weight.map fun kt => (PyTM.isSpont kt.1, kt.2)) =
    some [(true, [([0], none), ([1], none)]),
      (false, [([0, 1], none), ([1, 0], none), ([2, 1], none), ([1, 2], none)])] := by
  decide +kernel

/-- the MODEL on the same tape: same results (reversed lists), same candidates … -/
example : ((Simple.run P3 ic3 0 (some 1) 2 5 tape3).toOption.map fun (s, _) => (s.times, s.data)) =
    some ([1/2, 0], [[1, 2], [2, 1], [0, 0]]) := by decide +kernel

example : ((Simple.run P3 ic3 0 (some 1) 2 5 tape3).toOption.map fun (s, _) =>
      (s.ptS.map (·.items), s.ptI.map (·.items))) = some ([[[0], [1]]], [[[1, 2]]]) := by decide +kernel

/-- … and the same tape state -/
example : ((Simple.run P3 ic3 0 (some 1) 2 5 tape3).toOption.map fun (_, ts) => (ts.tape, ts.trace.toList)) =
    some ([], [Call.expo 3, Call.unif, Call.choice [[0, 1]], Call.expo 4]) := by decide +kernel

/-- a failing tape (the `random.choice` draw is missing): both programs raise -/
example : (run A3 2 { tape := [.expo (1/2), .unif (1/2)] }).toOption.isNone = true ∧
    (Simple.run P3 ic3 0 (some 1) 2 5 { tape := [.expo (1/2), .unif (1/2)] }).toOption.isNone = true := by
  decide +kernel

/-- all hypotheses of the refinement theorems hold for the concrete arguments, so they apply: the two programs are
bisimilar on EVERY tape state and every amount of fuel -/
example (fuel : Nat) (ts : TapeSt) : ResRel P3 (run A3 fuel ts) (Simple.run P3 ic3 0 (some 1) fuel 5 ts) :=
  gen_run_bisim A3 P3 ic3 0 (some 1) 5 A3_agree P3_wf P3_keysS P3_keysI P3_ret_nodup fuel ts

/-- … and every state returned by the generated code satisfies the transported C03 invariant, e.g. the clock -/
example (fuel : Nat) (ts ts' : TapeSt) (σ : Loc String) (h : run A3 fuel ts = .ok (σ, ts')) :
    (A3.spont.map Sum.inl ++ A3.induced.map Sum.inr).foldlM (fun (acc : Rat) (transition : PyTM.Tr String) => do
        let ld ← PyRT.dictGet σ.potential_transitions transition
        let (_, w) ← GenLD.total_weight ld
        pure (acc + A3.rate transition * w)) 0 =
      (.ok (Simple.specTotal P3 σ.status) : Except String Rat) :=
  gen_run_clock A3 P3 ic3 0 (some 1) 5 A3_agree P3_wf P3_keysS P3_keysI P3_ret_nodup fuel ts ts' σ h

/-- the run above is a successful one (the hypothesis of the previous example is satisfiable) -/
example : ∃ σ ts', run A3 2 tape3 = .ok (σ, ts') := by
  cases h : run A3 2 tape3 with
  | ok q => exact ⟨q.1, q.2, rfl⟩
  | error e =>
    have : (run A3 2 tape3).toOption.isSome = true := by decide +kernel
    rw [h] at this; simp [Except.toOption] at this

end GenSC.Example

/-! ## non-vacuity 2: a WEIGHTED SIS-like process on the DIRECTED edge 0 → 1 -/
namespace GenSC.Example2

def succ2 (u : Node) : List Node := if u = 0 then [1] else []
def pred2 (u : Node) : List Node := if u = 1 then [0] else []
def wS2 (u : Node) : Rat := (u : Rat) + 1
def wI2 (_ _ : Node) : Rat := 3

/-- recovery `I → S` at rate 1·(u+1), transmission along the edge at rate 2·3 -/
def P2 : SCParams String :=
  { nodes := [0, 1], succ := succ2, pred := pred2, directed := true,
    spont := [{ src := "I", dst := "S", rate := 1, w := some wS2 }],
    ind := [{ a := "I", b := "S", c := "I", rate := 2, w := some wI2 }],
    ret := ["S", "I"] }

def ic2 (u : Node) : String := if u = 0 then "I" else "S"

theorem mem_nodes2 {u : Node} (hu : u ∈ P2.nodes) : u = 0 ∨ u = 1 := by simpa [P2] using hu

theorem P2_spont (tr : SpontTr String) (h : tr ∈ P2.spont) :
    tr = { src := "I", dst := "S", rate := 1, w := some wS2 } := by simpa [P2] using h

theorem P2_ind (tr : IndTr String) (h : tr ∈ P2.ind) :
    tr = { a := "I", b := "S", c := "I", rate := 2, w := some wI2 } := by simpa [P2] using h

theorem P2_wf : Simple.WF P2 where
  nodup := by decide
  succ_nodup := by
    intro u hu
    rcases mem_nodes2 hu with rfl | rfl <;> decide
  succ_mem := by
    intro u hu v hv
    have hv' : v ∈ succ2 u := hv
    rcases mem_nodes2 hu with rfl | rfl
    · have : v = 1 := by simpa [succ2] using hv'
      subst this; simp [P2]
    · simp [succ2] at hv'
  succ_out := by
    intro u hu
    have : ¬ (u = 0 ∨ u = 1) := by simpa [P2] using hu
    simp only [not_or] at this
    simp [P2, succ2, this.1]
  pred_nodup := by
    intro u hu
    rcases mem_nodes2 hu with rfl | rfl <;> decide
  pred_iff := by
    intro u v
    show u ∈ pred2 v ↔ v ∈ succ2 u
    unfold pred2 succ2
    by_cases hv : v = 1 <;> by_cases hu : u = 0 <;> simp [hv, hu]
  undirected_symm := by intro h; cases h
  noloop := by
    intro u hu
    have hu' : u ∈ succ2 u := hu
    unfold succ2 at hu'
    by_cases h0 : u = 0
    · subst h0; simp at hu'
    · simp [h0] at hu'
  wS_nonneg := by
    intro tr htr f hf u
    rw [P2_spont tr htr] at hf
    obtain rfl := Option.some.inj hf
    unfold wS2
    positivity
  wI_nonneg := by
    intro tr htr f hf u v
    rw [P2_ind tr htr] at hf
    obtain rfl := Option.some.inj hf
    unfold wI2
    norm_num
  rate_nonneg := by
    constructor
    · intro tr htr; rw [P2_spont tr htr]; decide
    · intro tr htr; rw [P2_ind tr htr]; decide

/-- the arguments of the generated function: both `get_weight` tables are tabulated by the set-up -/
def A2 : SArgs String where
  nodes := [0, 1]
  nbrs := succ2
  pred := pred2
  directed := true
  ic := ic2
  ret := ["S", "I"]
  spont := [("I", "S")]
  induced := [(("I", "S"), ("I", "I"))]
  rate := fun k => match k with | .inl _ => 1 | .inr _ => 2
  spHas := fun s => decide (s = "I") || decide (s = "S")
  spOut := fun s => if s = "I" then [("I", "S")] else []
  inHas := fun p => decide (p = ("I", "S")) || decide (p = ("I", "I"))
  inOut := fun p => if p = ("I", "S") then [(("I", "S"), ("I", "I"))] else []
  pt0 := [(Sum.inl ("I", "S"), GenLD.init true), (Sum.inr (("I", "S"), ("I", "I")), GenLD.init true)]
  gw0 := [(Sum.inl ("I", "S"), [([0], some 1), ([1], some 2)]), (Sum.inr (("I", "S"), ("I", "I")), [([0, 1], some 3)])]
  tmin := 0
  tmax := some 1
  full := false
  cfuel := 5

theorem A2_gw0 : GWInv P2 A2.gw0 where
  spontW := by
    intro tr h f hf u hu
    rw [P2_spont tr h] at hf ⊢
    obtain rfl := Option.some.inj hf
    rcases mem_nodes2 hu with rfl | rfl
    · exact ⟨by decide +kernel, by decide +kernel⟩
    · exact ⟨by decide +kernel, by decide +kernel⟩
  spontU := by intro tr h hf; rw [P2_spont tr h] at hf; cases hf
  indW := by
    intro tr h f hf u hu v hv
    rw [P2_ind tr h] at hf ⊢
    obtain rfl := Option.some.inj hf
    have hv' : v ∈ succ2 u := hv
    rcases mem_nodes2 hu with rfl | rfl
    · have : v = 1 := by simpa [succ2] using hv'
      subst this
      exact ⟨by decide +kernel, by decide +kernel⟩
    · simp [succ2] at hv'
  indU := by intro tr h hf; rw [P2_ind tr h] at hf; cases hf

theorem A2_agree : Agree A2 P2 ic2 0 (some 1) 5 where
  nodes := rfl
  nbrs := rfl
  pred := rfl
  directed := rfl
  ic := rfl
  ret := rfl
  spont := rfl
  induced := rfl
  rateS := by intro tr h; rw [P2_spont tr h]; rfl
  rateI := by intro tr h; rw [P2_ind tr h]; rfl
  spOut := by
    intro x
    by_cases hx : x = "I"
    · subst hx; rfl
    · have : ("I" = x) = False := by simp [eq_comm, hx]
      simp [A2, hx, this]
  spHas := by
    intro x hx
    have : ¬ x = "I" := by
      intro h; subst h; simp [A2] at hx
    simp [A2, this]
  inOut := by
    intro x
    by_cases hx : x = ("I", "S")
    · subst hx; rfl
    · have : (("I", "S") = x) = False := by simp [eq_comm, hx]
      simp [A2, hx, this]
  inHas := by
    intro x hx
    have : ¬ x = ("I", "S") := by
      intro h; subst h; simp [A2] at hx
    simp [A2, this]
  pt0S := by intro tr h; rw [P2_spont tr h]; rfl
  pt0I := by intro tr h; rw [P2_ind tr h]; rfl
  gw0 := A2_gw0
  tmin := rfl
  tmax := rfl
  cfuel := rfl

theorem P2_keysS : (P2.spont.map (kS (τ := String))).Nodup := by simp [P2]
theorem P2_keysI : (P2.ind.map (kI (τ := String))).Nodup := by simp [P2]
theorem P2_ret_nodup : P2.ret.Nodup := by decide

/-- clock draw 1/10 (rate 1·1 + 2·3 = 7), uniform 1/2 (shares 1/7, 6/7: the transmission), `random.choice` index 0 and
acceptance draw 1/2 < 3/3 (weighted rejection step), clock draw 2 (rate 1·(1+2) = 3; 21/10 > tmax) -/
def tape2 : TapeSt := { tape := [.expo (1/10), .unif (1/2), .choice 0, .unif (1/2), .expo 2] }

/-- the GENERATED code: node 1 is infected; both nodes are recovery candidates with weights 1 and 2 (running total 3),
the transmission structure is empty (total reset to 0 by `remove`) -/
example : ((run A2 2 tape2).toOption.map fun (σ, _) => (σ.times, σ.data)) =
    some ([some 0, some (1/10)], [("S", [1, 0]), ("I", [1, 2])]) := by decide +kernel

example : ((run A2 2 tape2).toOption.map fun (σ, _) =>
      σ.potential_transitions.map fun kp => (kp.2.items, kp.2.weight)) =
    some [([[0], [1]], [([0], 1), ([1], 2)]), ([], [])] := by decide +kernel

example : ((run A2 2 tape2).toOption.map fun (σ, _) => σ.potential_transitions.map fun kp => kp.2.total_weight_) =
    some [3, 0] := by decide +kernel

example : ((run A2 2 tape2).toOption.map fun (σ, ts) => (σ.t, ts.tape)) = some (some (21/10), []) := by
  decide +kernel

example : ((run A2 2 tape2).toOption.map fun (_, ts) => ts.trace.toList) =
    some [Call.expo 7, Call.unif, Call.choice [[0, 1]], Call.unif, Call.expo 3] := by decide +kernel

/-- the MODEL on the same tape -/
example : ((Simple.run P2 ic2 0 (some 1) 2 5 tape2).toOption.map fun (s, _) => (s.times, s.data)) =
    some ([1/10, 0], [[0, 1], [2, 1]]) := by decide +kernel

example : ((Simple.run P2 ic2 0 (some 1) 2 5 tape2).toOption.map fun (s, _) =>
      (s.ptS ++ s.ptI).map fun l => (l.items, l.weight)) =
    some [([[0], [1]], [([0], 1), ([1], 2)]), ([], [])] := by decide +kernel

example : ((Simple.run P2 ic2 0 (some 1) 2 5 tape2).toOption.map fun (s, _) => (s.ptS ++ s.ptI).map (·.total)) =
    some [3, 0] := by decide +kernel

example : ((Simple.run P2 ic2 0 (some 1) 2 5 tape2).toOption.map fun (_, ts) => (ts.tape, ts.trace.toList)) =
    some ([], [Call.expo 7, Call.unif, Call.choice [[0, 1]], Call.unif, Call.expo 3]) := by decide +kernel

/-- the refinement theorems apply to the weighted, directed example as well -/
example (fuel : Nat) (ts : TapeSt) : ResRel P2 (run A2 fuel ts) (Simple.run P2 ic2 0 (some 1) fuel 5 ts) :=
  gen_run_bisim A2 P2 ic2 0 (some 1) 5 A2_agree P2_wf P2_keysS P2_keysI P2_ret_nodup fuel ts

example (fuel : Nat) (ts : TapeSt) : run A2 fuel ts ≠ .error "KeyError" :=
  gen_run_no_keyerror A2 P2 ic2 0 (some 1) 5 A2_agree P2_wf P2_keysS P2_keysI P2_ret_nodup fuel ts

end GenSC.Example2

/-! axioms -/
#print axioms GenSC.gen_run_bisim
#print axioms GenSC.gen_run_refines
#print axioms GenSC.gen_run_refines_back
#print axioms GenSC.gen_run_fails_iff
#print axioms GenSC.gen_loop_bisim
#print axioms GenSC.gen_init_refines
#print axioms GenSC.gen_repair_id
#print axioms GenSC.gen_repair_stmt
#print axioms GenSC.gen_choice
#print axioms GenSC.gen_loop_unfold
#print axioms GenSC.gen_run_inv_spont
#print axioms GenSC.gen_run_inv_ind
#print axioms GenSC.gen_run_clock
#print axioms GenSC.gen_run_counts
#print axioms GenSC.gen_loop_inv
#print axioms GenSC.gen_run_no_keyerror
