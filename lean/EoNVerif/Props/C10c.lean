import EoNVerif.Gen.InvestState
/-!
C10c — the STATEFUL part of `Simulation_Investigation`, for the Lean code GENERATED from the source (harness/pysi2lean.py ->
Gen/InvestState.lean): the caching prologue / epilogue of `summary()`, `__init__`'s call of it, and the accessors
`t() / S() / I() / R()` that read the cache.  Statement: **after construction, for every sequence of `summary(nodelist=…)`
calls (whole population, the graph object, or any sub-population, in any order) the cache holds the whole-population summary,
so the accessors always describe the whole population**; a sub-population summary is computed afresh and leaves the object
unchanged.  (The seeded change C10 round 6 — a one-slot "most recent request" cache — falsifies exactly this.)
-/
namespace GenSIProps
open GenSI

variable (hist : Node → List Rat × List String) (statuses : List String) (allNodes : List Node)

/-- the invariant of a constructed object: every cache attribute holds (its part of) the whole-population summary `w` -/
def Inv (w : Summ) (st : GenSI.St) : Prop := st._summary_ = some w ∧ st._t_ = some w.1 ∧ st._D_ = some w.2

/-- `__init__`: if the whole-population summary can be computed the fresh object satisfies the invariant … -/
theorem init_inv (w : Summ) (h : GenInvest.summary hist statuses allNodes = .ok w) :
    ∃ st, init hist statuses allNodes = .ok st ∧ Inv w st := by
  refine ⟨{ _summary_ := some w, _t_ := some w.1, _D_ := some w.2 }, ?_, rfl, rfl, rfl⟩
  simp [init, summary, NL.isNone, NL.isG, NL.eqG, NL.nodes, h, bind, Except.bind, pure, Except.pure]

/-- … and otherwise construction fails with the computation's exception -/
theorem init_error (e : String) (h : GenInvest.summary hist statuses allNodes = .error e) :
    init hist statuses allNodes = .error e := by
  simp [init, summary, NL.isNone, NL.isG, NL.eqG, NL.nodes, h, bind, Except.bind, pure, Except.pure]

/-- `summary()` / `summary(G)` on a constructed object: the cached whole-population summary, object unchanged -/
theorem summary_whole (w : Summ) (st : GenSI.St) (hI : Inv w st) (nl : NL) (hnl : nl = NL.none ∨ nl = NL.graph) :
    summary hist statuses allNodes st nl = .ok (w, st) := by
  obtain ⟨h1, _, _⟩ := hI
  rcases hnl with rfl | rfl <;>
    simp [summary, NL.isNone, NL.isG, h1, bind, Except.bind, pure, Except.pure]

/-- `summary(nodelist=l)` for any other list: computed afresh for `l`, and the object is left exactly as it was -/
theorem summary_sub (st : GenSI.St) (l : List Node) :
    summary hist statuses allNodes st (NL.list l) = (GenInvest.summary hist statuses l).map (fun r => (r, st)) := by
  cases h : GenInvest.summary hist statuses l <;>
    simp [summary, NL.isNone, NL.isG, NL.eqG, NL.nodes, h, bind, Except.bind, pure, Except.pure, Except.map]

/-- one `summary` call preserves the invariant, whatever was asked for and whether or not it succeeded -/
theorem summary_inv (w : Summ) (st : GenSI.St) (hI : Inv w st) (nl : NL) :
    ∀ r st', summary hist statuses allNodes st nl = .ok (r, st') → st' = st := by
  intro r st' h
  cases nl with
  | none => rw [summary_whole hist statuses allNodes w st hI NL.none (Or.inl rfl)] at h; cases h; rfl
  | graph => rw [summary_whole hist statuses allNodes w st hI NL.graph (Or.inr rfl)] at h; cases h; rfl
  | list l =>
    rw [summary_sub] at h
    cases h2 : GenInvest.summary hist statuses l with
    | error e => simp [h2, Except.map] at h
    | ok v => simp [h2, Except.map] at h; exact h.2.symm

/-- the state after a sequence of `summary` requests (failed requests leave the object as it was: Python raises, the
object is not modified because the only assignments come after the computation) -/
def after (st : GenSI.St) : List NL → GenSI.St
  | [] => st
  | nl :: rest =>
    match summary hist statuses allNodes st nl with
    | .ok (_, st') => after st' rest
    | .error _ => after st rest

/-- **any sequence of requests leaves a constructed object unchanged** -/
theorem after_eq (w : Summ) (st : GenSI.St) (hI : Inv w st) (reqs : List NL) : after hist statuses allNodes st reqs = st := by
  induction reqs with
  | nil => rfl
  | cons nl rest ih =>
    simp only [after]
    cases h : summary hist statuses allNodes st nl with
    | error e => exact ih
    | ok p =>
      obtain ⟨r, st'⟩ := p
      have := summary_inv hist statuses allNodes w st hI nl r st' h
      subst this
      exact ih

/-- **the accessors after any sequence of requests**: `t()` is the whole-population time grid and `S()/I()/R()` the
whole-population count columns (`EoNError` iff the status is not a possible status) -/
theorem accessors_after (w : Summ) (st0 : GenSI.St) (h0 : init hist statuses allNodes = .ok st0)
    (hw : GenInvest.summary hist statuses allNodes = .ok w) (reqs : List NL) :
    let st := after hist statuses allNodes st0 reqs
    t st = .ok w.1 ∧
    S statuses st = (if statuses.contains "S" then PySI.col statuses w.2 "S" else .error "EoNError") ∧
    I statuses st = (if statuses.contains "I" then PySI.col statuses w.2 "I" else .error "EoNError") ∧
    R statuses st = (if statuses.contains "R" then PySI.col statuses w.2 "R" else .error "EoNError") ∧
    summary hist statuses allNodes st NL.none = .ok (w, st) := by
  obtain ⟨st1, h1, hI⟩ := init_inv hist statuses allNodes w hw
  rw [h0] at h1
  cases h1
  intro st
  have hst : st = st0 := after_eq hist statuses allNodes w st0 hI reqs
  rw [hst]
  obtain ⟨hs, _, _⟩ := hI
  refine ⟨by simp [t, hs]; rfl, ?_, ?_, ?_, summary_whole hist statuses allNodes w st0 ⟨hs, ‹_›, ‹_›⟩ NL.none (Or.inl rfl)⟩ <;>
    (simp only [S, I, R, hs]; split <;> rfl)

/-- an accessor on an object whose cache was never filled raises AttributeError (cannot happen after `__init__`) -/
theorem t_unset : t ({} : GenSI.St) = .error "AttributeError" := rfl

/-! non-vacuity: two nodes, node 0 infected at time 1; the sub-population request does not disturb the accessors -/
def exHist : Node → List Rat × List String := fun u => if u = 0 then ([0, 1], ["S", "I"]) else ([0], ["S"])
example : (init exHist ["S", "I"] [0, 1]).toOption.map (fun st => ((t st).toOption, (S ["S", "I"] st).toOption, (I ["S", "I"] st).toOption, (R ["S", "I"] st).toOption))
    = some (some [0, 1], some [2, 1], some [0, 1], none) := by decide +kernel
example : ((init exHist ["S", "I"] [0, 1]).toOption.map fun st =>
      let st' := after exHist ["S", "I"] [0, 1] st [NL.list [1], NL.none, NL.list [0], NL.graph]
      decide ((summary exHist ["S", "I"] [0, 1] st (NL.list [1])).toOption.map (·.1) = some ([0], [[1], [0]]) ∧ (t st').toOption = some [0, 1]))
    = some true := by decide +kernel

end GenSIProps
