"""C03 — Gillespie_simple_contagion realises exactly the user-specified transitions.
Tape correspondence with the Lean interpreter model over generated *model specifications* (library + random spec
graphs, weight labels / rate functions, directed and undirected contact graphs); property-level facts on the
implementation directly: every logged event is an enabled transition of the specification in the state just before it
(Lean spec `enabledS/enabledI`), count rows track the statuses; exact one-step law vs rate/total."""
from fractions import Fraction as F
import common, allsims, specs, gen, sims, symu, rng as rngmod
from common import rs, fr
from predchecks import strip


def spec_req(c, G, idx, li):
    """transitions in the order the code iterates them: sorted(edges())"""
    sp = sorted(c["spont"], key=lambda e: (e[0], e[1]))
    ind = sorted(c["induced"], key=lambda e: (tuple(e[0]), tuple(e[1])))
    inv = {v: k for k, v in li.items()}
    nodew = [None] * c["n"]
    for i, w in enumerate(c["nodew"]):
        nodew[li[i]] = w
    ew, ewf = [], []       # weight_label table (symmetric) and rate_function table (per ordered pair)
    for (u, v), w, wr in zip(c["edges"], c["edgew"], c.get("edgew_rev") or c["edgew"]):
        ew.append([li[u], li[v], w]); ewf.append([li[u], li[v], w])
        if not c.get("directed"):
            ew.append([li[v], li[u], w]); ewf.append([li[v], li[u], wr])
    ic = [None] * c["n"]
    for i, s in enumerate(c["IC"]):
        ic[li[i]] = s
    return dict(n=c["n"], succ=gen.adj_lists(G, idx), pred=gen.pred_lists(G, idx), directed=bool(c.get("directed")),
                ret=c["return_statuses"],
                spont=[[a, b, r, (nodew if m else None)] for a, b, r, m in sp],
                induced=[[a, b, d, r, (ewf if m == "fn" else (ew if m else None))] for (a, b), (c_, d), r, m in ind],
                IC=ic, tmin=c["tmin"], tmax=c["tmax"])


def correspondence(ctx, drv):
    reqs, metas, rate_reqs = [], [], []
    for _ in range(ctx.scale(1000, 5000)):
        c = allsims.gen_case(ctx.rng, "Gillespie_simple_contagion")
        out, G, idx = allsims.run_impl(c, rng=ctx.rng, full=True)
        rep = dict(entry="Gillespie_simple_contagion", case=strip(c), tape=out["tape"])
        ctx.count("spec:" + c["spec"])
        ctx.count("directed" if c.get("directed") else "undirected")
        if not out["ok"]:
            ctx.case(rep, nontrivial=False)
            ctx.violation("Gillespie_simple_contagion raised %s" % out["err"], dict(rep, error=out["err"], tb=out.get("tb")))
            continue
        plain, _, _ = allsims.run_impl(c, tape=out["tape"], full=False)
        li = out["lab_index"]
        base = spec_req(c, G, idx, li)
        reqs.append(dict(base, op="simple", tape=out["tape"]))
        # every event must be an enabled spec transition in the state just before it: replay the histories
        events = sorted(((F(t), v, s) for v, h in enumerate(out["history"]) for t, s in h[1:]), key=lambda e: e[0])
        status = list(base["IC"])
        ev_checks = []
        trans = {(t, v): u for t, u, v in out["transmissions"]}
        for t, v, s in events:
            ev_checks.append((list(status), v, s, trans.get((rs(t), v))))
            status[v] = s
        for st, v, s, u in ev_checks[:25]:
            rate_reqs.append(dict(base, op="simple_rates", status=st))
        metas.append((rep, out, plain, c, ev_checks[:25]))
    resps = drv.batch(reqs)
    rresps = drv.batch(rate_reqs)
    k = 0
    for (rep, out, plain, c, ev_checks), m in zip(metas, resps):
        ctx.traces += 1
        nontriv = len(out["summary"]["times"]) > 1
        ctx.case(rep, nontrivial=nontriv, sample=dict(rep, events=len(ev_checks)))
        ctx.count("events", len(ev_checks))
        bad = None
        for st, v, s, u in ev_checks:
            r = rresps[k]
            k += 1
            ok = any(e[1] == v and e[2] == s and F(e[3]) > 0 and (u is None or e[0] == u) for e in r["events"])
            if not ok and bad is None:
                bad = dict(status_before=st, node=v, new_status=s, source=u, enabled=r["events"][:20])
        if bad:
            ctx.violation("an event in the output is not an enabled transition of the specification (positive rate) in the state before it",
                          dict(rep, event=bad))
            continue
        if plain["ok"]:
            # the returned counts and the node histories of the same run (same draws) must describe the same epidemic
            final = [h[-1][1] for h in out["history"]]
            want = [sum(1 for s_ in final if s_ == x) for x in c["return_statuses"]]
            got = [col[-1] for col in plain["cols"]]
            sums = [sum(col[i] for col in plain["cols"]) for i in range(len(plain["times"]))]
            if want != got:
                ctx.violation("the last row of the returned counts %s differs from the final statuses in the node histories of the same run %s" % (got, want),
                              dict(rep, arrays=plain, final_statuses=final))
                continue
            if set(c["return_statuses"]) >= set(c["statuses"]) and any(x != c["n"] for x in sums):
                ctx.violation("a row of the returned counts does not sum to N although every status is returned", dict(rep, arrays=plain))
                continue
        if not m.get("ok"):
            ctx.disagreement("simple-model-error", dict(rep, model=m))
            continue
        d = []
        tv = common.trace_violation(out["trace"], m["trace"])
        if tv:
            ctx.violation("%s: %s" % (rep["entry"], tv), dict(rep, model_trace=m["trace"][:60]))
            continue
        if m["trace"] != out["trace"]:
            i = next((i for i in range(min(len(m["trace"]), len(out["trace"]))) if m["trace"][i] != out["trace"][i]), -1)
            d.append("RNG trace (clock rate / candidate list) at call %d: impl %s model %s" % (
                i, out["trace"][i] if 0 <= i < len(out["trace"]) else None, m["trace"][i] if 0 <= i < len(m["trace"]) else None))
        if plain["ok"] and (plain["times"] != m["times"] or plain["cols"] != m["cols"]):
            d.append("arrays")
        mlog = [[e[0], e[1], e[2]] for e in m["log"] if e[1] is not None]
        if out["transmissions"] != mlog:
            d.append("transmissions")
        if d:
            ctx.disagreement("simple-tape:" + ";".join(d)[:300], dict(rep, diffs=d))
    generated_model(ctx, reqs, metas)


def generated_model(ctx, reqs, metas):
    """the Lean code GENERATED from the source of Gillespie_simple_contagion (harness/pysimple2lean.py ->
    Gen/SimpleGen.lean: bookkeeping set-up, initial population, the whole event loop), run by its own driver on the same
    scripted draws as the implementation.  Compared: RNG-call trace (clock rates, candidate lists), times, count
    columns, the transmission list and every node history (the implementation ran with full data)."""
    import fcntl, subprocess, os, json, pysimple2lean, pyclass2lean
    lean = common.LEAN
    os.makedirs(os.path.join(lean, ".audit"), exist_ok=True)
    with open(os.path.join(lean, ".audit", "gengill.lock"), "w") as lock:
        fcntl.flock(lock, fcntl.LOCK_EX)
        try:
            _, e1 = pyclass2lean.regenerate()
            _, e2 = pysimple2lean.regenerate()
            errors = dict(e1, **e2)
        except Exception as e:
            errors = {"translator": "crashed: %r" % e}
        if errors:
            ctx.disagreement("generated-simple:translation", dict(entry="Gillespie_simple_contagion", errors=errors))
            return
        p = common.lake(["build", "driversc"])
    if p.returncode != 0:
        ctx.disagreement("generated-simple:build", dict(entry="Gillespie_simple_contagion", log="\n".join(
            l for l in (p.stdout + p.stderr).splitlines() if "error" in l)[:1500]))
        return
    exe = os.path.join(lean, ".lake", "build", "bin", "driversc")
    data = "\n".join(json.dumps(dict(r, full=True), separators=(",", ":")) for r in reqs) + "\n"
    q = subprocess.run([exe], input=data, capture_output=True, text=True)
    lines = q.stdout.splitlines()
    if q.returncode != 0 or len(lines) != len(reqs):
        raise RuntimeError("driversc crashed: " + q.stderr[-1000:])
    for (rep, out, plain, c, ev_checks), line in zip(metas, lines):
        g = json.loads(line)
        ctx.count("generated-model-runs")
        if not g.get("ok"):
            ctx.disagreement("generated-simple-error", dict(rep, generated=g))
            continue
        d = []
        if g["trace"] != out["trace"]:
            i = next((i for i in range(min(len(g["trace"]), len(out["trace"]))) if g["trace"][i] != out["trace"][i]), -1)
            d.append("RNG trace at call %d: impl %s generated %s" % (i, out["trace"][i] if 0 <= i < len(out["trace"]) else None,
                                                                   g["trace"][i] if 0 <= i < len(g["trace"]) else None))
        if plain["ok"] and (plain["times"] != g["times"] or plain["cols"] != g["cols"]):
            d.append("arrays")
        if out["transmissions"] != g["trans"]:
            d.append("transmissions")
        hist = {h[0]: [[t, s_] for t, s_ in zip(h[1], h[2])] for h in g["history"]}
        if [hist.get(i) for i in range(c["n"])] != out["history"]:
            d.append("node histories")
        if d:
            ctx.disagreement("generated-simple-tape:" + ";".join(d)[:300], dict(rep, diffs=d))


def one_step_law(ctx, drv):
    import contextlib, EoN.simulation as sim
    reqs, metas = [], []
    for _ in range(ctx.scale(150, 800)):
        c = allsims.gen_case(ctx.rng, "Gillespie_simple_contagion", nmax=4 if not ctx.thorough else 4)
        if c.get("directed") and c["n"] > 3:
            continue
        c["tmin"], c["tmax"] = "0", "3/2"
        G, lab = sims.build_graph(c)
        idx = gen.index_of(G)
        li = {i: idx[lab(i)] for i in range(c["n"])}
        clock = []

        def fn(ex):
            sr = symu.SymRandom(ex, dt=1.0)

            @contextlib.contextmanager
            def fake(tr):
                o = sim.random
                sim.random = sr
                try:
                    yield tr
                finally:
                    sim.random = o
            old = specs.rngmod.scripted
            specs.rngmod.scripted = fake
            try:
                G2, lab2 = sims.build_graph(c)
                res = specs.call(c, G2, lab2, None, True)
            finally:
                specs.rngmod.scripted = old
            if sr.rates:
                clock.append(sr.rates[0])
            idx2 = gen.index_of(G2)
            st = res.get_statuses(time=1.2)
            o = [None] * c["n"]
            for u in G2:
                o[idx2[u]] = st[u]
            return "|".join(o)
        rep = dict(entry="Gillespie_simple_contagion", stream="one-step-law", case=strip(c))
        try:
            agg = symu.Explorer(14).run(fn)
        except symu.Budget:
            ctx.count("law:enumeration-budget-exceeded")
            ctx.case(rep, nontrivial=False)
            continue
        except Exception as e:
            ctx.violation("simple contagion raised %s during law enumeration" % type(e).__name__, dict(rep, error=type(e).__name__))
            continue
        base = spec_req(c, G, idx, li)
        reqs.append(dict(base, op="simple_rates", status=base["IC"]))
        metas.append((rep, agg, clock[0] if clock else None, base["IC"]))
    for (rep, agg, clock, ic), r in zip(metas, drv.batch(reqs)):
        tot = F(r["total"])
        spec = {}
        for u, v, s, rate in r["events"]:
            if F(rate) > 0 and tot > 0:
                st = list(ic)
                st[v] = s
                spec["|".join(st)] = spec.get("|".join(st), F(0)) + F(rate) / tot
        if tot == 0:
            spec = {"|".join(ic): F(1)}
        ctx.case(rep, nontrivial=len(spec) > 1)
        ctx.count("law-states")
        if clock is not None and clock != tot:
            ctx.violation("clock rate %s differs from the total rate of the specification %s" % (clock, tot), dict(rep, clock=str(clock), total=str(tot)))
            continue
        bad = symu.interval_ok(agg, spec)
        if bad:
            ctx.violation("one-step event law differs from rate/total of the specification", dict(rep, law=[[k, str(a), str(b)] for k, a, b, _ in bad[:5]]))


def run(ctx):
    drv = common.LeanDriver()
    correspondence(ctx, drv)
    one_step_law(ctx, drv)
