import EoNVerif.Gen.FastSISGen
import EoNVerif.Model.FastSIS
import EoNVerif.Proofs.FastSIS
import EoNVerif.Proofs.EventSIS2
/-!
The code generated statement by statement from `fast_SIS` / `_process_trans_SIS_Markov` / `_find_next_trans_SIS_Markov` /
`_process_rec_SIS_` / `myQueue` (`Gen/FastSISGen.lean`, namespace `GenFSIS`) refines the hand-written model
`Model/FastSIS.lean`, in lock step.

* `RR R x y`: two results of tape computations are both errors with the same message, or both successes with the same
  tape state (remaining tape and call trace) and `R`-related values; `RR.bind` / `RR.pure` / `RR.fail` compose it.
* `QRel`: the `myQueue` object (entries `(time, counter, tag)` popped by smallest `(time, counter)`) against the model's
  insertion-ordered list popped at the first entry of minimal time; `QRel.add`, `popMin_sim`.
* `Rel` (`RelX` + `infection_times`): statuses, recovery times, queue, and the Python output objects (`times`, `S`, `I`,
  `transmissions`, `infection_times`, `recovery_times`) as functions (`Trows`, `Srows`, `Irows`, `ddOf`) of the model's
  change log.
* `find_sim`, `nbr_sim`, `prec_sim`, `ptrans_sim`, `loop_sim`, `run_sim`: each generated function against its model
  counterpart; the same `expovariate` calls with the same rates in the same order, the same exceptions.
* `RelOut`, `gen_run_refines`, `gen_run_refines_back`, `gen_run_error_iff`: the statements used in `Props/C02d.lean`,
  with closed forms of the rows (`Trows_eq`, `Irows_eq`, `Srows_eq`, `alGet_ddOf`).
* `netI_take_eq_count`, `run_log_nodes`: in the model the net infection count is the number of infectious nodes and
  every logged node is a node of the graph.
-/
open PyTM GenFSIS

namespace GenFS

/-- lock-step relation on results of tape computations -/
def RR {α β : Type} (R : α → β → Prop) : Except String (α × TapeSt) → Except String (β × TapeSt) → Prop
  | .ok (a, t), .ok (b, t') => R a b ∧ t = t'
  | .error e, .error e' => e = e'
  | _, _ => False

theorem RR.bind {α β γ δ : Type} {R : α → β → Prop} {R' : γ → δ → Prop} {m : TM α} {n : TM β}
    {k : α → TM γ} {k' : β → TM δ} {ts : TapeSt}
    (h : RR R (m ts) (n ts)) (hk : ∀ a b t, R a b → RR R' (k a t) (k' b t)) :
    RR R' ((m >>= k) ts) ((n >>= k') ts) := by
  simp only [Bind.bind, StateT.bind]
  cases hm : m ts with
  | error e =>
    cases hn : n ts with
    | error e' => rw [hm, hn] at h; exact h
    | ok q => rw [hm, hn] at h; exact h.elim
  | ok p =>
    obtain ⟨a, t⟩ := p
    cases hn : n ts with
    | error e' => rw [hm, hn] at h; exact h.elim
    | ok q =>
      obtain ⟨b, t'⟩ := q
      rw [hm, hn] at h
      obtain ⟨h1, rfl⟩ := h
      exact hk a b t h1

theorem RR.pure {α β : Type} {R : α → β → Prop} {a : α} {b : β} (ts : TapeSt) (h : R a b) :
    RR R ((pure a : TM α) ts) ((pure b : TM β) ts) := ⟨h, rfl⟩

theorem RR.fail {α β : Type} {R : α → β → Prop} (e : String) (ts : TapeSt) :
    RR R ((TM.fail e : TM α) ts) ((TM.fail e : TM β) ts) := rfl

theorem RR.refl {α : Type} (x : Except String (α × TapeSt)) : RR Eq x x := by
  cases x with
  | error e => rfl
  | ok p => obtain ⟨a, t⟩ := p; exact ⟨rfl, rfl⟩

theorem RR.mono {α β : Type} {R R' : α → β → Prop} {x : Except String (α × TapeSt)} {y : Except String (β × TapeSt)}
    (h : RR R x y) (hR : ∀ a b, R a b → R' a b) : RR R' x y := by
  cases x with
  | error e => cases y with
    | error e' => exact h
    | ok q => exact h.elim
  | ok p => 
    obtain ⟨a, t⟩ := p
    cases y with
    | error e' => exact h.elim
    | ok q => obtain ⟨b, t'⟩ := q; exact ⟨hR a b h.1, h.2⟩



/-- the generated event tag of a model event -/
def conv : FEv → Ev
  | .trans s t => .trans s t
  | .recov u => .recov u

/-- the `(time, tag)` part of the generated queue entry of a model item -/
def ent (i : FItem) : ERat × Ev := (some i.time, conv i.ev)

/-- forget the counter of a generated queue entry -/
def unc (x : ERat × Nat × Ev) : ERat × Ev := (x.1, x.2.2)

structure QRel (tmax : Rat) (q : MyQueue) (l : List FItem) : Prop where
  tmax_eq : q.tmax = some tmax
  sorted : q.q.Pairwise (fun a b => a.2.1 < b.2.1)
  below : ∀ x ∈ q.q, x.2.1 < q.counter
  ents : q.q.map unc = l.map ent

theorem QRel.len {tmax : Rat} {q : MyQueue} {l : List FItem} (h : QRel tmax q l) : q.len = l.length := by
  have := congrArg List.length h.ents
  simpa [MyQueue.len] using this

theorem QRel.init (tmax : Rat) : QRel tmax (MyQueue.init (some tmax)) [] :=
  ⟨rfl, List.Pairwise.nil, by simp [MyQueue.init], rfl⟩

theorem QRel.add {tmax : Rat} {q : MyQueue} {l : List FItem} (h : QRel tmax q l) (t : Rat) (e : FEv) :
    QRel tmax (q.add (some t) (conv e)) (FastSIS.qadd tmax l t e) := by
  unfold MyQueue.add FastSIS.qadd
  rw [h.tmax_eq]
  by_cases ht : t < tmax
  · have : ERat.lt (some t) (some tmax) = true := by simp [ERat.lt, ht]
    rw [if_pos this, if_pos ht]
    refine ⟨rfl, ?_, ?_, ?_⟩
    · show (q.q ++ [(some t, q.counter, conv e)]).Pairwise _
      rw [List.pairwise_append]
      refine ⟨h.sorted, List.pairwise_singleton _ _, ?_⟩
      intro a ha b hb
      simp only [List.mem_singleton] at hb
      subst hb
      exact h.below a ha
    · intro x hx
      show x.2.1 < q.counter + 1
      rcases List.mem_append.1 hx with hx | hx
      · exact Nat.lt_succ_of_lt (h.below x hx)
      · simp only [List.mem_singleton] at hx
        subst hx
        exact Nat.lt_succ_self _
    · show (q.q ++ [(some t, q.counter, conv e)]).map unc = (l ++ [(⟨t, e⟩ : FItem)]).map ent
      rw [List.map_append, List.map_append, h.ents]
      rfl
  · have : ERat.lt (some t) (some tmax) = false := by simp [ERat.lt, ht]
    rw [this, if_neg ht]
    simpa using h

/-! ### the minimum of the generated queue -/

def lexlt (a : Rat × Nat) (b : Rat × Nat) : Prop := a.1 < b.1 ∨ (a.1 = b.1 ∧ a.2 < b.2)

theorem before_iff (a b : Rat) (c c' : Nat) (e e' : Ev) :
    MyQueue.before (some a, c, e) (some b, c', e') = true ↔ lexlt (a, c) (b, c') := by
  simp [MyQueue.before, ERat.lt, lexlt]

theorem lexlt_irrefl (a : Rat × Nat) : ¬ lexlt a a := by
  rintro (h | ⟨_, h⟩)
  · exact lt_irrefl _ h
  · exact Nat.lt_irrefl _ h

theorem lexlt_trans {a b c : Rat × Nat} (h1 : lexlt a b) (h2 : lexlt b c) : lexlt a c := by
  rcases h1 with h1 | ⟨h1, h1'⟩ <;> rcases h2 with h2 | ⟨h2, h2'⟩
  · exact Or.inl (lt_trans h1 h2)
  · exact Or.inl (h2 ▸ h1)
  · exact Or.inl (h1 ▸ h2)
  · exact Or.inr ⟨h1.trans h2, Nat.lt_trans h1' h2'⟩

theorem lexlt_negtrans {a b c : Rat × Nat} (h : lexlt a c) : lexlt a b ∨ lexlt b c := by
  rcases lt_trichotomy a.1 b.1 with hab | hab | hab
  · exact Or.inl (Or.inl hab)
  · rcases Nat.lt_or_ge a.2 b.2 with hn | hn
    · exact Or.inl (Or.inr ⟨hab, hn⟩)
    · right
      rcases h with h | ⟨h, h'⟩
      · exact Or.inl (hab ▸ h)
      · exact Or.inr ⟨hab.symm.trans h, Nat.lt_of_le_of_lt hn h'⟩
  · right
    rcases h with h | ⟨h, h'⟩
    · exact Or.inl (lt_trans hab h)
    · exact Or.inl (h ▸ hab)

/-- key of an entry with a finite time -/
def key (x : ERat × Nat × Ev) : Rat × Nat := (x.1.getD 0, x.2.1)

theorem before_key {x y : ERat × Nat × Ev} (hx : ∃ t, x.1 = some t) (hy : ∃ t, y.1 = some t) :
    MyQueue.before x y = true ↔ lexlt (key x) (key y) := by
  obtain ⟨a, c, e⟩ := x
  obtain ⟨b, c', e'⟩ := y
  obtain ⟨t, ht⟩ := hx
  obtain ⟨t', ht'⟩ := hy
  simp only at ht ht'
  subst ht ht'
  exact before_iff _ _ _ _ _ _

theorem foldl_min (xs : List (ERat × Nat × Ev)) (x : ERat × Nat × Ev)
    (hfin : ∀ y ∈ x :: xs, ∃ t, y.1 = some t) :
    xs.foldl (fun m y => if MyQueue.before y m then y else m) x ∈ x :: xs ∧
    ∀ y ∈ x :: xs, ¬ lexlt (key y) (key (xs.foldl (fun m y => if MyQueue.before y m then y else m) x)) := by
  induction xs generalizing x with
  | nil =>
    refine ⟨by simp, ?_⟩
    intro y hy
    simp only [List.mem_singleton] at hy
    subst hy
    exact lexlt_irrefl _
  | cons y ys ih =>
    rw [List.foldl_cons]
    have hx := hfin x (by simp)
    have hy := hfin y (by simp)
    by_cases hb : MyQueue.before y x = true
    · rw [if_pos hb]
      have hb' := (before_key hy hx).1 hb
      obtain ⟨h1, h2⟩ := ih y (fun z hz => hfin z (by simp at hz ⊢; tauto))
      refine ⟨by simp at h1 ⊢; tauto, ?_⟩
      intro z hz
      rcases List.mem_cons.1 hz with rfl | hz
      · intro hzm
        exact h2 y (by simp) (lexlt_trans hb' hzm)
      · exact h2 z hz
    · rw [if_neg hb]
      have hb' : ¬ lexlt (key y) (key x) := fun h => hb ((before_key hy hx).2 h)
      obtain ⟨h1, h2⟩ := ih x (fun z hz => hfin z (by simp at hz ⊢; tauto))
      refine ⟨by simp at h1 ⊢; tauto, ?_⟩
      intro z hz
      rcases List.mem_cons.1 hz with rfl | hz
      · exact h2 z (by simp)
      · rcases List.mem_cons.1 hz with rfl | hz
        · intro hzm
          rcases lexlt_negtrans (b := key x) hzm with h | h
          · exact hb' h
          · exact h2 x (by simp) h
        · exact h2 z (by simp [hz])



theorem QRel.fin {tmax : Rat} {q : MyQueue} {l : List FItem} (h : QRel tmax q l) :
    ∀ x ∈ q.q, ∃ t, x.1 = some t := by
  intro x hx
  have : unc x ∈ l.map ent := by rw [← h.ents]; exact List.mem_map_of_mem hx
  obtain ⟨i, _, hi⟩ := List.mem_map.1 this
  exact ⟨i.time, (congrArg Prod.fst hi).symm⟩

theorem pop_nil : FastSIS.pop [] = none := rfl

/-- `heappop` on a related queue pops the entry of the model's `pop` (first entry of minimal time) -/
theorem popMin_sim {tmax : Rat} {q : MyQueue} {l : List FItem} (h : QRel tmax q l) (hne : q.q ≠ []) :
    ∃ x l' c q', FastSIS.pop l = some (x, l') ∧ q.popMin = .ok ((some x.time, c, conv x.ev), q') ∧
      QRel tmax q' l' := by
  cases hq : q.q with
  | nil => exact absurd hq hne
  | cons x0 xs =>
    have hfin := h.fin
    rw [hq] at hfin
    obtain ⟨hmem, hmin⟩ := foldl_min xs x0 hfin
    generalize hm : xs.foldl (fun m y => if MyQueue.before y m then y else m) x0 = m at hmem hmin
    have hpop : q.popMin = .ok (m, { q with q := q.q.erase m }) := by
      unfold MyQueue.popMin
      rw [hq]
      simp only [hm]
      rfl
    obtain ⟨q1, q2, hsplit⟩ := List.append_of_mem hmem
    rw [← hq] at hsplit
    have hsorted := h.sorted
    rw [hsplit, List.pairwise_append] at hsorted
    obtain ⟨hs1, hs2, hs3⟩ := hsorted
    rw [List.pairwise_cons] at hs2
    have hnot : m ∉ q1 := fun hin => Nat.lt_irrefl _ (hs3 m hin m (by simp))
    have herase : q.q.erase m = q1 ++ q2 := by
      rw [hsplit, List.erase_append_right _ hnot, List.erase_cons_head]
    have hents := h.ents
    rw [hsplit, List.map_append, List.map_cons] at hents
    obtain ⟨l1, lr, hl, hl1, hlr⟩ := List.map_eq_append_iff.1 hents.symm
    obtain ⟨x, l2, hlr', hx, hl2⟩ := List.map_eq_cons_iff.1 hlr
    subst hlr'
    have hmfin : ∃ t, m.1 = some t := hfin m hmem
    -- times of entries before / after `m`
    have ht1 : ∀ y ∈ l1, x.time < y.time := by
      intro y hy
      have : ent y ∈ q1.map unc := by rw [← hl1]; exact List.mem_map_of_mem hy
      obtain ⟨z, hz, hzy⟩ := List.mem_map.1 this
      have hzq : z ∈ x0 :: xs := by rw [← hq, hsplit]; simp [hz]
      have hc : z.2.1 < m.2.1 := hs3 z hz m (by simp)
      have hnl := hmin z hzq
      have hzt : z.1 = some y.time := congrArg Prod.fst hzy
      have hmt : m.1 = some x.time := (congrArg Prod.fst hx).symm
      simp only [lexlt, key, hzt, hmt, Option.getD_some, not_or, not_and, not_lt] at hnl
      rcases lt_or_eq_of_le hnl.1 with hlt | heq
      · exact hlt
      · exact absurd hc (Nat.not_lt.2 (hnl.2 heq.symm))
    have ht2 : ∀ y ∈ l2, x.time ≤ y.time := by
      intro y hy
      have : ent y ∈ q2.map unc := by rw [← hl2]; exact List.mem_map_of_mem hy
      obtain ⟨z, hz, hzy⟩ := List.mem_map.1 this
      have hzq : z ∈ x0 :: xs := by rw [← hq, hsplit]; simp [hz]
      have hnl := hmin z hzq
      have hzt : z.1 = some y.time := congrArg Prod.fst hzy
      have hmt : m.1 = some x.time := (congrArg Prod.fst hx).symm
      simp only [lexlt, key, hzt, hmt, Option.getD_some, not_or, not_and, not_lt] at hnl
      exact hnl.1
    have hpopl : FastSIS.pop l = some (x, l1 ++ l2) := by
      rw [FastSIS.pop_eq]
      exact EventSIS.gpop_of_min FItem.time hl ht1 ht2
    have hmeq : m = (some x.time, m.2.1, conv x.ev) := by
      obtain ⟨a, c, e⟩ := m
      simp only [unc, ent, Prod.mk.injEq] at hx
      obtain ⟨h1, h2⟩ := hx
      simp only [← h1, ← h2]
    refine ⟨x, l1 ++ l2, m.2.1, { q with q := q.q.erase m }, hpopl, by rw [hpop, ← hmeq], ?_⟩
    refine ⟨h.tmax_eq, ?_, ?_, ?_⟩
    · show (q.q.erase m).Pairwise _
      rw [herase, List.pairwise_append]
      exact ⟨hs1, hs2.2, fun a ha b hb => Nat.lt_trans (hs3 a ha m (by simp)) (hs2.1 b hb)⟩
    · intro y hy
      exact h.below y (List.mem_of_mem_erase hy)
    · show (q.q.erase m).map unc = _
      rw [herase, List.map_append, List.map_append, hl1, hl2]


/-- the generated function leaves everything but the queue and the scratch locals unchanged -/
structure FrG (σ σ' : Loc) : Prop where
  status : σ'.status = σ.status
  rec_time : σ'.rec_time = σ.rec_time
  times : σ'.times = σ.times
  S : σ'.S = σ.S
  I : σ'.I = σ.I
  infection_times : σ'.infection_times = σ.infection_times
  recovery_times : σ'.recovery_times = σ.recovery_times
  transmissions : σ'.transmissions = σ.transmissions

structure FrM (s s' : FSState) : Prop where
  inf : s'.inf = s.inf
  recTime : s'.recTime = s.recTime
  log : s'.log = s.log
  trans : s'.trans = s.trans

theorem FrG.refl (σ : Loc) : FrG σ σ := ⟨rfl, rfl, rfl, rfl, rfl, rfl, rfl, rfl⟩
theorem FrM.refl (s : FSState) : FrM s s := ⟨rfl, rfl, rfl, rfl⟩
theorem FrG.comp {a b c : Loc} (h1 : FrG a b) (h2 : FrG b c) : FrG a c :=
  ⟨h2.status.trans h1.status, h2.rec_time.trans h1.rec_time, h2.times.trans h1.times, h2.S.trans h1.S,
    h2.I.trans h1.I, h2.infection_times.trans h1.infection_times, h2.recovery_times.trans h1.recovery_times,
    h2.transmissions.trans h1.transmissions⟩
theorem FrM.comp {a b c : FSState} (h1 : FrM a b) (h2 : FrM b c) : FrM a c :=
  ⟨h2.inf.trans h1.inf, h2.recTime.trans h1.recTime, h2.log.trans h1.log, h2.trans.trans h1.trans⟩
theorem FrG.upd {σ σ' : Loc} (h : FrG σ σ') (q : MyQueue) (r : Rat) (d tt : ERat) :
    FrG σ { σ' with Q := q, rec_rate := r, delay := d, transmission_time := tt } :=
  ⟨h.status, h.rec_time, h.times, h.S, h.I, h.infection_times, h.recovery_times, h.transmissions⟩
theorem FrM.upd {s s' : FSState} (h : FrM s s') (q : List FItem) : FrM s { s' with queue := q } :=
  ⟨h.inf, h.recTime, h.log, h.trans⟩

theorem fail_bind {α β : Type} (e : String) (k : α → TM β) : (TM.fail e >>= k) = TM.fail e := rfl

theorem ERat.lt_some (a b : Rat) : ERat.lt (some a) (some b) = decide (a < b) := rfl
theorem ERat.lt_none (b : ERat) : ERat.lt none b = false := by cases b <;> rfl

theorem find_sim (A : FArgs) (P : FSParams) (σ : Loc) (s : FSState) (hrec : σ.rec_time = s.recTime)
    (hQ : QRel P.tmax σ.Q s.queue) (time tau : Rat) (src tgt : Node) (ts : TapeSt) :
    RR (fun σ' s' => FrG σ σ' ∧ FrM s s' ∧ QRel P.tmax σ'.Q s'.queue)
      (find_next_trans A (some time) tau src tgt σ ts) (FastSIS.findNext P s time tau src tgt ts) := by
  unfold find_next_trans FastSIS.findNext
  by_cases hlt : ERat.lt (s.recTime tgt) (s.recTime src) = true
  · rw [if_pos (show ERat.lt (σ.rec_time tgt) (σ.rec_time src) = true by rw [hrec]; exact hlt), if_pos hlt]
    -- the tail after the first draw
    have tail : ∀ (σ1 : Loc) (t1 : ERat) (t : TapeSt), FrG σ σ1 → σ1.Q = σ.Q →
        t1 = ERat.add (some time) σ1.delay →
        RR (fun σ' s' => FrG σ σ' ∧ FrM s s' ∧ QRel P.tmax σ'.Q s'.queue)
          ((do
            let σ ←
              (if (ERat.add (some time) σ1.delay).lt (σ1.rec_time tgt) = true then do
                  let d_2 ← TM.popExpo tau
                  pure { σ1 with delay := some d_2, transmission_time := (σ1.rec_time tgt).add (some d_2) }
                else pure { σ1 with transmission_time := ERat.add (some time) σ1.delay } : TM Loc)
            if (σ.transmission_time.lt (σ.rec_time src) && σ.transmission_time.lt σ.Q.tmax) = true then
                pure { σ with Q := σ.Q.add σ.transmission_time (Ev.trans (some src) tgt) }
              else pure σ : TM Loc) t)
          ((do
            let t2 ← (if t1.lt (s.recTime tgt) = true then do
                  let d ← TM.popExpo tau
                  pure ((s.recTime tgt).add (some d))
                else pure t1 : TM ERat)
            match t2 with
              | some tt =>
                if ERat.lt (some tt) (s.recTime src) = true ∧ tt < P.tmax then
                  pure { s with queue := FastSIS.qadd P.tmax s.queue tt (FEv.trans (some src) tgt) }
                else pure s
              | none => pure s : TM FSState) t) := by
      intro σ1 t1 t hF hQ1 ht1
      refine RR.bind (R := fun σ2 t2 => FrG σ σ2 ∧ σ2.Q = σ.Q ∧ σ2.transmission_time = t2) ?_ ?_
      · have hcond : ERat.lt (ERat.add (some time) σ1.delay) (σ1.rec_time tgt) = ERat.lt t1 (s.recTime tgt) := by
          rw [← ht1, hF.rec_time, hrec]
        rw [hcond]
        by_cases hc : t1.lt (s.recTime tgt) = true
        · rw [if_pos hc, if_pos hc]
          refine RR.bind (RR.refl _) ?_
          rintro d _ t' rfl
          refine RR.pure _ ⟨hF.upd _ _ _ _, hQ1, ?_⟩
          show (σ1.rec_time tgt).add (some d) = _
          rw [hF.rec_time, hrec]
        · rw [if_neg hc, if_neg hc]
          exact RR.pure _ ⟨hF.upd _ _ _ _, hQ1, ht1.symm⟩
      · rintro σ2 t2 t' ⟨hF2, hQ2, htt⟩
        have hgc : (σ2.transmission_time.lt (σ2.rec_time src) && σ2.transmission_time.lt σ2.Q.tmax) =
            (ERat.lt t2 (s.recTime src) && ERat.lt t2 (some P.tmax)) := by
          rw [htt, hF2.rec_time, hrec, hQ2, hQ.tmax_eq]
        cases t2 with
        | none =>
          have hg : ¬ (σ2.transmission_time.lt (σ2.rec_time src) && σ2.transmission_time.lt σ2.Q.tmax) = true := by
            rw [hgc]; simp [ERat.lt_none]
          rw [if_neg hg]
          exact RR.pure _ ⟨hF2, FrM.refl s, hQ2 ▸ hQ⟩
        | some tt =>
          by_cases hc : ERat.lt (some tt) (s.recTime src) = true ∧ tt < P.tmax
          · have hg : (σ2.transmission_time.lt (σ2.rec_time src) && σ2.transmission_time.lt σ2.Q.tmax) = true := by
              rw [hgc]; simp [ERat.lt_some, hc.1, hc.2]
            rw [if_pos hg]; dsimp only; rw [if_pos hc]
            refine RR.pure _ ⟨hF2.upd _ _ _ _, (FrM.refl s).upd _, ?_⟩
            show QRel P.tmax (σ2.Q.add σ2.transmission_time (Ev.trans (some src) tgt)) _
            rw [hQ2, htt]
            exact hQ.add tt (FEv.trans (some src) tgt)
          · have hg : ¬ (σ2.transmission_time.lt (σ2.rec_time src) && σ2.transmission_time.lt σ2.Q.tmax) = true := by
              rw [hgc]; simpa [ERat.lt_some] using hc
            rw [if_neg hg]; dsimp only; rw [if_neg hc]
            exact RR.pure _ ⟨hF2, FrM.refl s, hQ2 ▸ hQ⟩
    rcases lt_trichotomy tau 0 with h0 | h0 | h0
    · have h1 : ¬ tau > 0 := not_lt.2 (le_of_lt h0)
      have h2 : ¬ tau = 0 := ne_of_lt h0
      simp only [h1, h2, h0, decide_false, if_true, if_false, Bool.false_eq_true]
      rw [fail_bind]
      exact RR.fail _ _
    · subst h0
      simp only [decide_true, if_true, lt_irrefl, decide_false, if_false, Bool.false_eq_true]
      rw [pure_bind, pure_bind]
      exact tail { σ with delay := none } none ts ((FrG.refl σ).upd _ _ _ _) rfl rfl
    · have h3 : ¬ tau < 0 := not_lt.2 (le_of_lt h0)
      have h1 : tau > 0 := h0
      simp only [h1, h3, decide_true, if_true, if_false]
      refine RR.bind (R := fun σ1 t1 => FrG σ σ1 ∧ σ1.Q = σ.Q ∧ t1 = ERat.add (some time) σ1.delay) ?_
        (fun σ1 t1 t h => tail σ1 t1 t h.1 h.2.1 h.2.2)
      refine RR.bind (RR.refl _) ?_
      rintro d _ t' rfl
      exact RR.pure _ ⟨(FrG.refl σ).upd _ _ _ _, rfl, rfl⟩
  · rw [if_neg (show ¬ ERat.lt (σ.rec_time tgt) (σ.rec_time src) = true by rw [hrec]; exact hlt), if_neg hlt]
    exact RR.pure _ ⟨FrG.refl σ, FrM.refl s, hQ⟩


theorem nbr_sim (A : FArgs) (P : FSParams) (htr : A.transRate = P.transRate) (time : Rat) (tgt : Node) (l : List Node)
    (σ : Loc) (s : FSState) (hrec : σ.rec_time = s.recTime) (hQ : QRel P.tmax σ.Q s.queue) (ts : TapeSt) :
    RR (fun σ' s' => FrG σ σ' ∧ FrM s s' ∧ QRel P.tmax σ'.Q s'.queue)
      (l.foldlM (fun (σ : Loc) (v : Node) => find_next_trans A (some time) (A.transRate tgt v) tgt v σ) σ ts)
      (FastSIS.nbrLoop P time tgt l s ts) := by
  induction l generalizing σ s ts with
  | nil => exact RR.pure _ ⟨FrG.refl σ, FrM.refl s, hQ⟩
  | cons v rest ih =>
    rw [List.foldlM_cons, FastSIS.nbrLoop, htr]
    refine RR.bind (find_sim A P σ s hrec hQ time _ tgt v ts) ?_
    rintro σ1 s1 t ⟨hF, hM, hQ1⟩
    rw [← htr]
    refine RR.mono (ih σ1 s1 (by rw [hF.rec_time, hM.recTime, hrec]) hQ1 t) ?_
    rintro σ2 s2 ⟨hF2, hM2, hQ2⟩
    exact ⟨hF.comp hF2, hM.comp hM2, hQ2⟩

/-! ### the output rows as functions of the model's (reversed) change log -/

/-- net number of infections in a reversed change log -/
def icount : List (Rat × Node × Bool) → Int
  | [] => 0
  | e :: r => icount r + (if e.2.2 then 1 else -1)

/-- the `times` list: `tmin`, then the time of every status change -/
def Trows (tmin : Rat) : List (Rat × Node × Bool) → List ERat
  | [] => [some tmin]
  | e :: r => Trows tmin r ++ [some e.1]

/-- the `I` list: 0, then the running net count -/
def Irows : List (Rat × Node × Bool) → List Int
  | [] => [0]
  | e :: r => Irows r ++ [icount (e :: r)]

/-- the `S` list: `N`, then `N` minus the running net count -/
def Srows (N : Int) : List (Rat × Node × Bool) → List Int
  | [] => [N]
  | e :: r => Srows N r ++ [N - icount (e :: r)]

/-- the `infection_times` (`b = true`) / `recovery_times` (`b = false`) dictionaries -/
def ddOf (b : Bool) : List (Rat × Node × Bool) → List (Node × List ERat)
  | [] => []
  | e :: r => if e.2.2 = b then ddAppend (ddOf b r) e.2.1 (some e.1) else ddOf b r

def stOf (b : Bool) : St := if b then St.I else St.S

theorem listLast_concat {α : Type} (l : List α) (x : α) : listLast (l ++ [x]) = .ok x := by
  simp [listLast]; rfl

theorem listLast_Irows (log : List (Rat × Node × Bool)) : listLast (Irows log) = .ok (icount log) := by
  cases log with
  | nil => rfl
  | cons e r => exact listLast_concat _ _

theorem listLast_Srows (N : Int) (log : List (Rat × Node × Bool)) : listLast (Srows N log) = .ok (N - icount log) := by
  cases log with
  | nil => simp [Srows, icount, listLast]; rfl
  | cons e r => exact listLast_concat _ _

theorem liftE_ok {α : Type} (a : α) : liftE (.ok a : Except String α) = pure a := rfl

/-! ### the simulation relation -/

structure Agree (A : FArgs) (P : FSParams) : Prop where
  nbrs : A.nbrs = P.nbrs
  order : A.order = P.nodes.length
  tmin : A.tmin = P.tmin
  tmax : A.tmax = some P.tmax
  transRate : A.transRate = P.transRate
  recRate : A.recRate = P.recRate

/-- everything but `infection_times` (which the generated code updates after the neighbour loop) -/
structure RelX (A : FArgs) (P : FSParams) (σ : Loc) (s : FSState) : Prop where
  status : ∀ u, σ.status u = stOf (s.inf u)
  rec_time : σ.rec_time = s.recTime
  queue : QRel P.tmax σ.Q s.queue
  times : σ.times = Trows P.tmin s.log
  S : σ.S = Srows (A.order : Int) s.log
  I : σ.I = Irows s.log
  trans : σ.transmissions = s.trans.reverse.map (fun e => ((some e.1 : ERat), e.2.1, e.2.2))
  recov : σ.recovery_times = ddOf false s.log

structure Rel (A : FArgs) (P : FSParams) (σ : Loc) (s : FSState) : Prop extends RelX A P σ s where
  infect : σ.infection_times = ddOf true s.log

theorem RelX.frame {A : FArgs} {P : FSParams} {σ σ' : Loc} {s s' : FSState} (h : RelX A P σ s)
    (hG : FrG σ σ') (hM : FrM s s') (hQ : QRel P.tmax σ'.Q s'.queue) : RelX A P σ' s' := by
  refine ⟨?_, ?_, hQ, ?_, ?_, ?_, ?_, ?_⟩
  · rw [hG.status, hM.inf]; exact h.status
  · rw [hG.rec_time, hM.recTime]; exact h.rec_time
  · rw [hG.times, hM.log]; exact h.times
  · rw [hG.S, hM.log]; exact h.S
  · rw [hG.I, hM.log]; exact h.I
  · rw [hG.transmissions, hM.trans]; exact h.trans
  · rw [hG.recovery_times, hM.log]; exact h.recov

theorem Rel.frame {A : FArgs} {P : FSParams} {σ σ' : Loc} {s s' : FSState} (h : Rel A P σ s)
    (hG : FrG σ σ') (hM : FrM s s') (hQ : QRel P.tmax σ'.Q s'.queue) : Rel A P σ' s' :=
  ⟨h.toRelX.frame hG hM hQ, by rw [hG.infection_times, hM.log]; exact h.infect⟩

/-- `_process_rec_SIS_` -/
theorem prec_sim (A : FArgs) (P : FSParams) (σ : Loc) (s : FSState) (h : Rel A P σ s) (time : Rat) (u : Node)
    (ts : TapeSt) :
    RR (Rel A P) (process_rec A (some time) u σ ts) ((pure (FastSIS.processRec s time u) : TM FSState) ts) := by
  have hI := listLast_Irows s.log
  have hS := listLast_Srows (A.order : Int) s.log
  rw [← h.I] at hI
  rw [← h.S] at hS
  unfold process_rec
  simp only [hI, hS, liftE_ok, pure_bind]
  refine RR.pure _ ⟨⟨?_, h.rec_time, h.queue, ?_, ?_, ?_, h.trans, ?_⟩, ?_⟩
  · intro w
    show fset σ.status u St.S w = stOf (fset s.inf u false w)
    unfold fset
    split
    · rfl
    · exact h.status w
  · show σ.times ++ [some time] = Trows P.tmin ((time, u, false) :: s.log)
    rw [h.times]; rfl
  · show σ.S ++ [(A.order : Int) - icount s.log + 1] = Srows _ ((time, u, false) :: s.log)
    rw [h.S]
    simp only [Srows, icount]
    congr 2
    simp only [Bool.false_eq_true, if_false]
    omega
  · show σ.I ++ [icount s.log - 1] = Irows ((time, u, false) :: s.log)
    rw [h.I]
    simp only [Irows, icount]
    congr 2
  · show ddAppend σ.recovery_times u (some time) = ddOf false ((time, u, false) :: s.log)
    rw [h.recov]
    simp [ddOf]
  · show σ.infection_times = ddOf true ((time, u, false) :: s.log)
    rw [h.infect]
    simp [ddOf]


theorem RR.of_eq {α : Type} {x y : Except String (α × TapeSt)} (h : x = y) : RR Eq x y := h ▸ RR.refl x

theorem RR.map_left {α β γ : Type} {R : α → β → Prop} {R' : γ → β → Prop} {m : TM α} {n : TM β} {f : α → γ}
    {ts : TapeSt} (h : RR R (m ts) (n ts)) (hf : ∀ a b, R a b → R' (f a) b) :
    RR R' ((m >>= fun a => (Pure.pure (f a) : TM γ)) ts) (n ts) := by
  rw [← bind_pure n]
  exact RR.bind h (fun a b t hab => RR.pure t (hf a b hab))

theorem fset_same {α β : Type} [DecidableEq α] (f : α → β) (x : α) (v : β) : fset f x v x = v := by simp [fset]

/-- the generated state after the bookkeeping of an infection of `tgt` (before the recovery event is queued) -/
def gInf (A : FArgs) (σ : Loc) (time : Rat) (src : Option Node) (tgt : Node) (ic : Int) (recT : ERat) : Loc :=
  { σ with status := fset σ.status tgt St.I, rec_time := fset σ.rec_time tgt recT, times := σ.times ++ [some time],
           S := σ.S ++ [(A.order : Int) - ic - 1], I := σ.I ++ [ic + 1],
           transmissions := σ.transmissions ++ [(some time, src, tgt)], rec_rate := A.recRate tgt }

/-- the model state after the bookkeeping of an infection of `tgt`, with queue `q` -/
def mInf (s : FSState) (time : Rat) (src : Option Node) (tgt : Node) (recT : ERat) (q : List FItem) : FSState :=
  { inf := fset s.inf tgt true, recTime := fset s.recTime tgt recT, queue := q,
    log := (time, tgt, true) :: s.log, trans := (time, src, tgt) :: s.trans }

theorem relX_infect {A : FArgs} {P : FSParams} {σ : Loc} {s : FSState} (h : Rel A P σ s) (time : Rat)
    (src : Option Node) (tgt : Node) (recT : ERat) (q : MyQueue) (l : List FItem) (hQ : QRel P.tmax q l) :
    RelX A P { gInf A σ time src tgt (icount s.log) recT with Q := q } (mInf s time src tgt recT l) := by
  refine ⟨?_, ?_, hQ, ?_, ?_, ?_, ?_, ?_⟩
  · intro w
    show fset σ.status tgt St.I w = stOf (fset s.inf tgt true w)
    unfold fset
    split
    · rfl
    · exact h.status w
  · show fset σ.rec_time tgt recT = fset s.recTime tgt recT
    rw [h.rec_time]
  · show σ.times ++ [some time] = Trows P.tmin ((time, tgt, true) :: s.log)
    rw [h.times]; rfl
  · show σ.S ++ [(A.order : Int) - icount s.log - 1] = Srows _ ((time, tgt, true) :: s.log)
    rw [h.S]
    simp only [Srows, icount]
    congr 2
    simp only [if_true]
    omega
  · show σ.I ++ [icount s.log + 1] = Irows ((time, tgt, true) :: s.log)
    rw [h.I]
    simp only [Irows, icount]
    congr 2
  · show σ.transmissions ++ [(some time, src, tgt)] = _
    rw [h.trans]
    simp [mInf]
  · show σ.recovery_times = ddOf false ((time, tgt, true) :: s.log)
    rw [h.recov]
    simp [ddOf]

/-- the neighbour loop and the final `infection_times` update -/
theorem ptrans_tailQ (A : FArgs) (P : FSParams) (hA : Agree A P) (s : FSState) (time : Rat) (tgt : Node)
    (σ8 : Loc) (sQ : FSState) (t : TapeSt) (hX : RelX A P σ8 sQ) (hit : σ8.infection_times = ddOf true s.log)
    (hlog : sQ.log = (time, tgt, true) :: s.log) :
    RR (Rel A P)
      ((List.foldlM (fun σ v => find_next_trans A (some time) (A.transRate tgt v) tgt v σ) σ8 (A.nbrs tgt) >>=
        fun σ => pure { σ with infection_times := ddAppend σ.infection_times tgt (some time) }) t)
      (FastSIS.nbrLoop P time tgt (P.nbrs tgt) sQ t) := by
  rw [hA.nbrs]
  refine RR.map_left (nbr_sim A P hA.transRate time tgt (P.nbrs tgt) σ8 sQ hX.rec_time hX.queue t) ?_
  rintro σ9 s9 ⟨hG, hM, hQ9⟩
  have hX9 := hX.frame hG hM hQ9
  refine ⟨⟨hX9.status, hX9.rec_time, hX9.queue, hX9.times, hX9.S, hX9.I, hX9.trans, hX9.recov⟩, ?_⟩
  show ddAppend σ9.infection_times tgt (some time) = ddOf true s9.log
  rw [hG.infection_times, hit, hM.log, hlog]
  simp [ddOf]

/-- the part of the infection branch after the recovery time `recT` has been drawn -/
theorem ptrans_tailR (A : FArgs) (P : FSParams) (hA : Agree A P) (σ : Loc) (s : FSState) (h : Rel A P σ s) (time : Rat)
    (src : Option Node) (tgt : Node) (recT : ERat) (t : TapeSt) :
    RR (Rel A P)
      (((fun σ : Loc => do
        let σ ← (if (σ.rec_time tgt).lt σ.Q.tmax = true then
            pure { σ with Q := σ.Q.add (σ.rec_time tgt) (Ev.recov tgt) }
          else pure σ : TM Loc)
        let σ ← List.foldlM (fun σ v => find_next_trans A (some time) (A.transRate tgt v) tgt v σ) σ (A.nbrs tgt)
        pure { σ with infection_times := ddAppend σ.infection_times tgt (some time) })
        (gInf A σ time src tgt (icount s.log) recT)) t)
      (FastSIS.nbrLoop P time tgt (P.nbrs tgt)
        (match recT with
        | some rt =>
          { inf := fset s.inf tgt true, recTime := fset s.recTime tgt recT,
            queue := FastSIS.qadd P.tmax s.queue rt (FEv.recov tgt), log := (time, tgt, true) :: s.log,
            trans := (time, src, tgt) :: s.trans }
        | none =>
          { inf := fset s.inf tgt true, recTime := fset s.recTime tgt recT, queue := s.queue,
            log := (time, tgt, true) :: s.log, trans := (time, src, tgt) :: s.trans }) t) := by
  have hrt : (gInf A σ time src tgt (icount s.log) recT).rec_time tgt = recT := fset_same _ _ _
  have hqq : (gInf A σ time src tgt (icount s.log) recT).Q = σ.Q := rfl
  show RR (Rel A P) (((_ : TM Loc) >>= _) t) _
  cases recT with
  | none =>
    rw [hrt, if_neg (by rw [ERat.lt_none]; simp), pure_bind]
    exact ptrans_tailQ A P hA s time tgt _ _ t (relX_infect h time src tgt none σ.Q s.queue h.queue) h.infect rfl
  | some rt =>
    have hq8 := relX_infect h time src tgt (some rt) _ _ (h.queue.add rt (FEv.recov tgt))
    by_cases hc : ERat.lt (some rt) σ.Q.tmax = true
    · rw [hrt, hqq, if_pos hc, pure_bind]
      exact ptrans_tailQ A P hA s time tgt _ _ t hq8 h.infect rfl
    · rw [hrt, hqq, if_neg hc, pure_bind]
      have : σ.Q.add (some rt) (conv (FEv.recov tgt)) = σ.Q := by
        unfold MyQueue.add; rw [if_neg hc]
      rw [this] at hq8
      exact ptrans_tailQ A P hA s time tgt _ _ t hq8 h.infect rfl

/-- `_process_trans_SIS_Markov` -/
theorem ptrans_sim (A : FArgs) (P : FSParams) (hA : Agree A P) (σ : Loc) (s : FSState) (h : Rel A P σ s) (time : Rat)
    (src : Option Node) (tgt : Node) (ts : TapeSt) :
    RR (Rel A P) (process_trans A (some time) src tgt σ ts) (FastSIS.processTrans P s time src tgt ts) := by
  have hI := listLast_Irows s.log
  have hS := listLast_Srows (A.order : Int) s.log
  rw [← h.I] at hI
  rw [← h.S] at hS
  unfold process_trans FastSIS.processTrans
  refine RR.bind (R := Rel A P) ?_ ?_
  · by_cases hinf : s.inf tgt = true
    · have hst : ¬ σ.status tgt = St.S := by rw [h.status, hinf]; simp [stOf]
      simp only [hst, decide_false, hinf, Bool.not_true, Bool.false_eq_true, if_false]
      exact RR.pure _ h
    · have hinf' : s.inf tgt = false := by simpa using hinf
      have hst : σ.status tgt = St.S := by rw [h.status, hinf']; rfl
      simp only [hst, decide_true, if_true, hinf', Bool.not_false, hI, hS, liftE_ok, pure_bind]
      have tailR := ptrans_tailR A P hA σ s h time src tgt
      have hrr : A.recRate tgt = P.recRate tgt := by rw [hA.recRate]
      have tri := lt_trichotomy (P.recRate tgt) 0
      rcases tri with h0 | h0 | h0
      · have h1 : decide (A.recRate tgt > 0) = false := by rw [hrr]; exact decide_eq_false (not_lt.2 (le_of_lt h0))
        have h2 : decide (A.recRate tgt = 0) = false := by rw [hrr]; exact decide_eq_false (ne_of_lt h0)
        simp only [h1, h2, h0, if_true, if_false, Bool.false_eq_true]
        rw [fail_bind]
        exact RR.fail _ _
      · have h1 : decide (A.recRate tgt > 0) = false := by rw [hrr, h0]; exact decide_eq_false (lt_irrefl _)
        have h2 : decide (A.recRate tgt = 0) = true := by rw [hrr, h0]; exact decide_eq_true rfl
        have h3 : ¬ P.recRate tgt < 0 := by rw [h0]; exact lt_irrefl _
        have h4 : ¬ P.recRate tgt > 0 := by rw [h0]; exact lt_irrefl _
        simp only [h1, h2, h3, h4, if_true, if_false, Bool.false_eq_true]
        rw [pure_bind, pure_bind]
        exact tailR none ts
      · have h1 : decide (A.recRate tgt > 0) = true := by rw [hrr]; exact decide_eq_true h0
        have h3 : ¬ P.recRate tgt < 0 := not_lt.2 (le_of_lt h0)
        have h4 : P.recRate tgt > 0 := h0
        simp only [h1, h3, h4, if_true, if_false]
        refine RR.bind (R := fun σ7 recT => σ7 = gInf A σ time src tgt (icount s.log) recT) ?_ ?_
        · refine RR.bind (RR.of_eq (by rw [hrr])) ?_
          rintro d _ t rfl
          exact RR.pure _ rfl
        · rintro σ7 recT t rfl
          exact tailR recT t
  · rintro σ1 s1 t h1
    cases src with
    | none => exact RR.pure _ h1
    | some u =>
      show RR (Rel A P) (find_next_trans A (some time) (A.transRate u tgt) u tgt σ1 t) _
      rw [hA.transRate]
      exact RR.mono (find_sim A P σ1 s1 h1.rec_time h1.queue time _ u tgt t)
        (fun σ2 s2 ⟨hG, hM, hQ⟩ => h1.frame hG hM hQ)


theorem Rel.setQ {A : FArgs} {P : FSParams} {σ : Loc} {s : FSState} (h : Rel A P σ s) (q : MyQueue) (l : List FItem)
    (hQ : QRel P.tmax q l) : Rel A P { σ with Q := q } { s with queue := l } :=
  h.frame ((FrG.refl σ).upd _ _ _ _) ((FrM.refl s).upd _) hQ

/-- `while Q: Q.pop_and_run()` -/
theorem loop_sim (A : FArgs) (P : FSParams) (hA : Agree A P) (fuel : Nat) (σ : Loc) (s : FSState) (h : Rel A P σ s)
    (ts : TapeSt) : RR (Rel A P) (GenFSIS.loop A fuel σ ts) (FastSIS.loop P fuel s ts) := by
  induction fuel generalizing σ s ts with
  | zero => exact RR.fail _ _
  | succ fuel ih =>
    rw [GenFSIS.loop, FastSIS.loop]
    by_cases hq : σ.Q.q = []
    · have hlen : ¬ σ.Q.len > 0 := by simp [MyQueue.len, hq]
      have hl : s.queue = [] := by
        have := h.queue.len
        rw [MyQueue.len, hq] at this
        exact List.length_eq_zero_iff.1 this.symm
      simp only [hlen, decide_false, Bool.false_eq_true, if_false, hl, pop_nil]
      exact RR.pure _ h
    · have hlen : σ.Q.len > 0 := by
        unfold MyQueue.len; exact List.length_pos_of_ne_nil hq
      obtain ⟨x, l', c, q', hpop, hpm, hQ'⟩ := popMin_sim h.queue hq
      simp only [hlen, decide_true, if_true, hpop, pop_and_run, hpm, liftE_ok, pure_bind]
      refine RR.bind (R := Rel A P) ?_ (fun σ1 s1 t h1 => ih σ1 s1 h1 t)
      have h0 := h.setQ q' l' hQ'
      cases hx : x.ev with
      | trans src tgt =>
        simp only [conv]
        exact ptrans_sim A P hA _ _ h0 x.time src tgt ts
      | recov u =>
        simp only [conv]
        exact prec_sim A P _ _ h0 x.time u ts


/-- the final `times = times[len(initial_infecteds):]` (same for `S`, `I`) of `fast_SIS` -/
def dropRows (n : Nat) (σ : Loc) : Loc := { σ with times := σ.times.drop n, S := σ.S.drop n, I := σ.I.drop n }

theorem init_fold_rel (A : FArgs) (P : FSParams) (hA : Agree A P) (infs : List Node) (σ : Loc) (s : FSState)
    (h : Rel A P σ s) :
    Rel A P (infs.foldl (fun (σ : Loc) (u : Node) => { σ with Q := σ.Q.add (some A.tmin) (Ev.trans none u) }) σ)
      { s with queue := infs.foldl (fun q u => FastSIS.qadd P.tmax q P.tmin (FEv.trans none u)) s.queue } := by
  induction infs generalizing σ s with
  | nil => exact h
  | cons u rest ih =>
    rw [List.foldl_cons, List.foldl_cons]
    have h1 := h.setQ _ _ (h.queue.add P.tmin (FEv.trans none u))
    rw [← hA.tmin] at h1
    have := ih _ _ h1
    rw [hA.tmin] at this ⊢
    exact this

theorem init_rel (A : FArgs) (P : FSParams) (hA : Agree A P) :
    Rel A P { Loc.init with times := [some A.tmin], S := [(A.order : Int)], I := [0], Q := MyQueue.init A.tmax,
                            status := fun _ => St.S, rec_time := fun _ => some (A.tmin - 1), infection_times := [],
                            recovery_times := [], transmissions := [] }
      { inf := fun _ => false, recTime := fun _ => some (P.tmin - 1), queue := [], log := [], trans := [] } := by
  refine ⟨⟨fun u => rfl, ?_, ?_, ?_, rfl, rfl, rfl, rfl⟩, rfl⟩
  · show (fun _ => some (A.tmin - 1)) = fun _ => some (P.tmin - 1)
    rw [hA.tmin]
  · show QRel P.tmax (MyQueue.init A.tmax) []
    rw [hA.tmax]; exact QRel.init _
  · show [some A.tmin] = Trows P.tmin []
    rw [hA.tmin]; rfl

/-- **lock-step refinement**: on every tape the generated `fast_SIS` and the model either both fail with the same
exception or both succeed with the same remaining tape and call trace, in related states -/
theorem run_sim (A : FArgs) (P : FSParams) (hA : Agree A P) (infs : List Node) (fuel : Nat) (ts : TapeSt) :
    RR (fun σ s => ∃ σ0, Rel A P σ0 s ∧ σ = dropRows infs.length σ0)
      (GenFSIS.run A infs fuel ts) (FastSIS.run P infs fuel ts) := by
  unfold GenFSIS.run FastSIS.run
  simp only [List.foldlM_pure, pure_bind]
  rw [← bind_pure (FastSIS.loop P fuel (FastSIS.init P infs))]
  refine RR.bind (loop_sim A P hA fuel _ _ (init_fold_rel A P hA infs _ _ (init_rel A P hA)) ts) ?_
  intro σ0 s t h
  exact RR.pure _ ⟨σ0, h, rfl⟩


/-! ### closed forms of the rows -/

/-- net number of infections in a list of status changes (any order) -/
def netI (L : List (Rat × Node × Bool)) : Int :=
  ((L.filter (fun e => e.2.2)).length : Int) - ((L.filter (fun e => !e.2.2)).length : Int)

theorem netI_cons (e : Rat × Node × Bool) (L : List (Rat × Node × Bool)) :
    netI (e :: L) = netI L + (if e.2.2 then 1 else -1) := by
  unfold netI
  cases h : e.2.2 <;> simp [h] <;> omega

theorem netI_reverse (L : List (Rat × Node × Bool)) : netI L.reverse = netI L := by
  unfold netI; simp [List.filter_reverse]

theorem icount_eq (log : List (Rat × Node × Bool)) : icount log = netI log := by
  induction log with
  | nil => rfl
  | cons e r ih => rw [netI_cons, icount, ih]

theorem Trows_eq (tmin : Rat) (log : List (Rat × Node × Bool)) :
    Trows tmin log = some tmin :: log.reverse.map (fun e => (some e.1 : ERat)) := by
  induction log with
  | nil => rfl
  | cons e r ih => simp [Trows, ih]

theorem Irows_eq (log : List (Rat × Node × Bool)) :
    Irows log = (List.range (log.length + 1)).map (fun k => netI (log.reverse.take k)) := by
  induction log with
  | nil => rfl
  | cons e r ih =>
    rw [Irows, ih, List.length_cons, List.range_succ (n := r.length + 1), List.map_append]
    congr 1
    · apply List.map_congr_left
      intro k hk
      have hk' : k ≤ r.reverse.length := by simp at hk ⊢; omega
      rw [List.reverse_cons, List.take_append_of_le_length hk']
    · simp only [List.map_cons, List.map_nil]
      rw [icount_eq, ← netI_reverse, List.take_of_length_le (by simp)]

theorem Srows_eq_map (N : Int) (log : List (Rat × Node × Bool)) : Srows N log = (Irows log).map (fun i => N - i) := by
  induction log with
  | nil => simp [Srows, Irows]
  | cons e r ih => simp [Srows, Irows, ih]

theorem Srows_eq (N : Int) (log : List (Rat × Node × Bool)) :
    Srows N log = (List.range (log.length + 1)).map (fun k => N - netI (log.reverse.take k)) := by
  rw [Srows_eq_map, Irows_eq, List.map_map]; rfl

theorem alGet_ddOf (b : Bool) (log : List (Rat × Node × Bool)) (u : Node) :
    alGet (ddOf b log) [] u =
      (log.reverse.filter (fun e => e.2.1 == u && e.2.2 == b)).map (fun e => (some e.1 : ERat)) := by
  induction log with
  | nil => rfl
  | cons e r ih =>
    rw [ddOf, List.reverse_cons, List.filter_append, List.map_append, ← ih]
    by_cases hb : e.2.2 = b
    · rw [if_pos hb, ddAppend]
      by_cases hu : e.2.1 = u
      · subst hu
        rw [alGet_alSet_self]
        simp [hb]
      · rw [alGet_alSet_ne _ _ _ _ _ (Ne.symm hu)]
        simp [hu]
    · rw [if_neg hb]
      simp [hb]

/-! ### the relation between the returned generated state and the final model state -/

structure RelOut (A : FArgs) (P : FSParams) (n : Nat) (σ : Loc) (s : FSState) : Prop where
  status : ∀ u, σ.status u = if s.inf u then St.I else St.S
  rec_time : σ.rec_time = s.recTime
  queue : QRel P.tmax σ.Q s.queue
  times : σ.times = (some P.tmin :: s.log.reverse.map (fun e => (some e.1 : ERat))).drop n
  S : σ.S = ((List.range (s.log.length + 1)).map (fun k => (A.order : Int) - netI (s.log.reverse.take k))).drop n
  I : σ.I = ((List.range (s.log.length + 1)).map (fun k => netI (s.log.reverse.take k))).drop n
  trans : σ.transmissions = s.trans.reverse.map (fun e => ((some e.1 : ERat), e.2.1, e.2.2))
  infect : σ.infection_times = ddOf true s.log
  recov : σ.recovery_times = ddOf false s.log
  infect_get : ∀ u, alGet σ.infection_times [] u =
    (s.log.reverse.filter (fun e => e.2.1 == u && e.2.2 == true)).map (fun e => (some e.1 : ERat))
  recov_get : ∀ u, alGet σ.recovery_times [] u =
    (s.log.reverse.filter (fun e => e.2.1 == u && e.2.2 == false)).map (fun e => (some e.1 : ERat))

theorem Rel.out {A : FArgs} {P : FSParams} {σ0 : Loc} {s : FSState} (h : Rel A P σ0 s) (n : Nat) :
    RelOut A P n (dropRows n σ0) s where
  status := h.status
  rec_time := h.rec_time
  queue := h.queue
  times := by show σ0.times.drop n = _; rw [h.times, Trows_eq]
  S := by show σ0.S.drop n = _; rw [h.S, Srows_eq]
  I := by show σ0.I.drop n = _; rw [h.I, Irows_eq]
  trans := h.trans
  infect := h.infect
  recov := h.recov
  infect_get := fun u => by show alGet σ0.infection_times [] u = _; rw [h.infect, alGet_ddOf]
  recov_get := fun u => by show alGet σ0.recovery_times [] u = _; rw [h.recov, alGet_ddOf]

theorem run_sim_out (A : FArgs) (P : FSParams) (hA : Agree A P) (infs : List Node) (fuel : Nat) (ts : TapeSt) :
    RR (RelOut A P infs.length) (GenFSIS.run A infs fuel ts) (FastSIS.run P infs fuel ts) :=
  RR.mono (run_sim A P hA infs fuel ts) (by rintro σ s ⟨σ0, h, rfl⟩; exact h.out _)

theorem RR.ok_right {α β : Type} {R : α → β → Prop} {x : Except String (α × TapeSt)} {b : β} {t : TapeSt}
    (h : RR R x (.ok (b, t))) : ∃ a, x = .ok (a, t) ∧ R a b := by
  cases x with
  | error e => exact h.elim
  | ok p => obtain ⟨a, t'⟩ := p; obtain ⟨h1, rfl⟩ := h; exact ⟨a, rfl, h1⟩

theorem RR.ok_left {α β : Type} {R : α → β → Prop} {y : Except String (β × TapeSt)} {a : α} {t : TapeSt}
    (h : RR R (.ok (a, t)) y) : ∃ b, y = .ok (b, t) ∧ R a b := by
  cases y with
  | error e => exact h.elim
  | ok p => obtain ⟨b, t'⟩ := p; obtain ⟨h1, rfl⟩ := h; exact ⟨b, rfl, h1⟩

theorem RR.error_iff {α β : Type} {R : α → β → Prop} {x : Except String (α × TapeSt)}
    {y : Except String (β × TapeSt)} (h : RR R x y) (e : String) : x = .error e ↔ y = .error e := by
  cases x with
  | error e1 => cases y with
    | error e2 => have : e1 = e2 := h; subst this; constructor <;> intro h' <;> cases h' <;> rfl
    | ok q => exact h.elim
  | ok p =>
    obtain ⟨a, t⟩ := p
    cases y with
    | error e2 => exact h.elim
    | ok q => constructor <;> intro h' <;> cases h'

/-- **forward refinement**: every successful run of the model is a run of the generated code on the same tape, with the
same remaining tape / call trace, ending in a related state -/
theorem gen_run_refines (A : FArgs) (P : FSParams) (hA : Agree A P) (infs : List Node) (fuel : Nat) (ts ts' : TapeSt)
    (s : FSState) (hr : FastSIS.run P infs fuel ts = .ok (s, ts')) :
    ∃ σ, GenFSIS.run A infs fuel ts = .ok (σ, ts') ∧ RelOut A P infs.length σ s := by
  have := run_sim_out A P hA infs fuel ts
  rw [hr] at this
  exact this.ok_right

/-- **backward refinement**: every successful run of the generated code is a run of the model -/
theorem gen_run_refines_back (A : FArgs) (P : FSParams) (hA : Agree A P) (infs : List Node) (fuel : Nat)
    (ts ts' : TapeSt) (σ : Loc) (hr : GenFSIS.run A infs fuel ts = .ok (σ, ts')) :
    ∃ s, FastSIS.run P infs fuel ts = .ok (s, ts') ∧ RelOut A P infs.length σ s := by
  have := run_sim_out A P hA infs fuel ts
  rw [hr] at this
  exact this.ok_left

/-- the generated code and the model raise the same exceptions on the same tapes -/
theorem gen_run_error_iff (A : FArgs) (P : FSParams) (hA : Agree A P) (infs : List Node) (fuel : Nat) (ts : TapeSt)
    (e : String) : GenFSIS.run A infs fuel ts = .error e ↔ FastSIS.run P infs fuel ts = .error e :=
  (run_sim_out A P hA infs fuel ts).error_iff e


/-! ### the `I` rows count the infectious nodes -/

theorem count_update (nodes : List Node) (hn : nodes.Nodup) (f g : Node → Bool) (v : Node) (b : Bool) (hv : v ∈ nodes)
    (hfv : f v = !b) (hgv : g v = b) (hg : ∀ u, u ≠ v → g u = f u) :
    ((nodes.filter g).length : Int) = (nodes.filter f).length + (if b then 1 else -1) := by
  induction nodes with
  | nil => simp at hv
  | cons a t ih =>
    rw [List.nodup_cons] at hn
    by_cases hav : a = v
    · subst hav
      have ht : t.filter g = t.filter f := by
        apply List.filter_congr
        intro u hu
        exact hg u (fun h => hn.1 (h ▸ hu))
      rw [List.filter_cons, List.filter_cons, hfv, hgv, ht]
      cases b <;> simp
    · have hvt : v ∈ t := by
        rcases List.mem_cons.1 hv with h | h
        · exact absurd h.symm hav
        · exact h
      have := ih hn.2 hvt
      rw [List.filter_cons, List.filter_cons, hg a hav]
      cases f a <;> simp [this]
      omega

theorem netI_eq_count (P : FSParams) (l : List (Rat × Node × Bool)) (hL : FastSIS.Legal P l) (nodes : List Node)
    (hn : nodes.Nodup) (hmem : ∀ e ∈ l, e.2.1 ∈ nodes) :
    netI l = ((nodes.filter (fun u => FastSIS.cur l u)).length : Int) := by
  induction l with
  | nil => simp [netI, FastSIS.cur]
  | cons e rest ih =>
    obtain ⟨h1, h2, _⟩ := hL
    rw [netI_cons, ih h1 (fun e' he' => hmem e' (List.mem_cons_of_mem _ he'))]
    symm
    apply count_update nodes hn _ _ e.2.1 e.2.2 (hmem e List.mem_cons_self) h2
    · simp [FastSIS.cur]
    · intro u hu
      simp [FastSIS.cur, Ne.symm hu]

theorem Legal_suffix (P : FSParams) (post pre : List (Rat × Node × Bool)) (h : FastSIS.Legal P (post ++ pre)) :
    FastSIS.Legal P pre := by
  induction post with
  | nil => exact h
  | cons e post ih => exact ih h.1

/-- in a legal change log the net count after `k` entries is the number of nodes that are infectious then -/
theorem netI_take_eq_count (P : FSParams) (l : List (Rat × Node × Bool)) (hL : FastSIS.Legal P l) (nodes : List Node)
    (hn : nodes.Nodup) (hmem : ∀ e ∈ l.reverse, e.2.1 ∈ nodes) (k : Nat) (hk : k ≤ l.reverse.length) :
    netI (l.reverse.take k) = ((nodes.filter (fun u => FastSIS.statusAfter l.reverse k u)).length : Int) := by
  rw [List.length_reverse] at hk
  have hsplit : l = l.take (l.length - k) ++ l.drop (l.length - k) := (List.take_append_drop _ _).symm
  generalize hpre : l.drop (l.length - k) = pre at hsplit
  generalize l.take (l.length - k) = post at hsplit
  have hlen : pre.length = k := by rw [← hpre, List.length_drop]; omega
  subst hsplit
  have htake : (post ++ pre).reverse.take k = pre.reverse := by
    rw [List.reverse_append, List.take_append_of_le_length (by simp [hlen]), List.take_of_length_le (by simp [hlen])]
  have hst : ∀ u, FastSIS.statusAfter (post ++ pre).reverse k u = FastSIS.cur pre u := by
    intro u
    rw [List.reverse_append, ← hlen]
    exact FastSIS.statusAfter_eq_cur pre post.reverse u
  rw [htake, netI_reverse]
  simp only [hst]
  apply netI_eq_count P pre (Legal_suffix P post pre hL) nodes hn
  intro e he
  exact hmem e (by simp [he])

/-! ### every logged node is a node of the graph -/

theorem cur_mem {l : List (Rat × Node × Bool)} {u : Node} (h : FastSIS.cur l u = true) : ∃ e ∈ l, e.2.1 = u := by
  induction l with
  | nil => simp [FastSIS.cur] at h
  | cons e rest ih =>
    by_cases he : e.2.1 = u
    · exact ⟨e, List.mem_cons_self, he⟩
    · simp only [FastSIS.cur, if_neg he] at h
      obtain ⟨e', h1, h2⟩ := ih h
      exact ⟨e', List.mem_cons_of_mem _ h1, h2⟩

theorem loop_log_nodes (P : FSParams) (infs : List Node) (hWF : FastSIS.WF P infs) (fuel : Nat) (s : FSState) (now : Rat)
    (ts ts' : TapeSt) (s' : FSState) (hI : FastSIS.Inv P infs now s) (hJ : ∀ e ∈ s.log, e.2.1 ∈ P.nodes)
    (hts : FastSIS.TapeNonneg ts) (h : FastSIS.loop P fuel s ts = .ok (s', ts')) : ∀ e ∈ s'.log, e.2.1 ∈ P.nodes := by
  induction fuel generalizing s now ts with
  | zero => exact absurd h (TM.fail_ne_ok _ _ _)
  | succ fuel ih =>
    rw [FastSIS.loop] at h
    cases hp : FastSIS.pop s.queue with
    | none =>
      rw [hp] at h
      obtain ⟨rfl, rfl⟩ := TM.pure_ok _ _ _ _ h
      exact hJ
    | some xq =>
      obtain ⟨x, q⟩ := xq
      rw [hp] at h
      dsimp only at h
      obtain ⟨l1, l2, hq, rfl, hlt, hle⟩ := FastSIS.pop_some hp
      have hmin : ∀ y ∈ l1 ++ l2, x.time ≤ y.time := by
        intro y hy
        rcases List.mem_append.1 hy with hy | hy
        · exact le_of_lt (hlt y hy)
        · exact hle y hy
      have hinf : ∀ u, s.inf u = true → u ∈ P.nodes := by
        intro u hu
        rw [hI.status u] at hu
        obtain ⟨e, he, rfl⟩ := cur_mem hu
        exact hJ e he
      obtain ⟨s1, ts1, h1, h2⟩ := TM.bind_ok _ _ _ _ _ h
      cases hx : x.ev with
      | trans src tgt =>
        rw [hx] at h1
        obtain ⟨hI0, hnow, hsrc⟩ := FastSIS.Inv_pop_trans hI hq hmin src tgt hx
        obtain ⟨hI1, hts1⟩ := FastSIS.Inv_processTrans hI0 src tgt hnow hsrc _ _ _ hts h1
        obtain ⟨_, sm, a, hsm, rfl, _⟩ := FastSIS.processTrans_spec _ _ _ _ _ _ _ _ hts h1
        refine ih _ _ _ hI1 ?_ hts1 h2
        have htgt : tgt ∈ P.nodes := by
          cases src with
          | none => exact hWF.infs_mem tgt hsrc.1
          | some u => exact hWF.nbr_mem u (hinf u hsrc.2.1) tgt hsrc.1
        rcases hsm with ⟨_, rfl⟩ | ⟨_, recT, _, rfl⟩
        · exact hJ
        · intro e he
          rcases List.mem_cons.1 he with rfl | he
          · exact htgt
          · exact hJ e he
      | recov u =>
        rw [hx] at h1
        obtain ⟨rfl, rfl⟩ := TM.pure_ok _ _ _ _ h1
        refine ih _ _ _ (FastSIS.Inv_pop_rec hI hq hmin u hx) ?_ hts h2
        have hxq : x ∈ s.queue := by rw [hq]; simp
        have hu := hinf u (hI.rec_q x hxq u hx).1
        intro e he
        rcases List.mem_cons.1 he with rfl | he
        · exact hu
        · exact hJ e he

theorem run_log_nodes (P : FSParams) (infs : List Node) (hWF : FastSIS.WF P infs) (fuel : Nat) (ts ts' : TapeSt)
    (hts : FastSIS.TapeNonneg ts) (s : FSState) (hr : FastSIS.run P infs fuel ts = .ok (s, ts')) :
    ∀ e ∈ s.log, e.2.1 ∈ P.nodes :=
  loop_log_nodes P infs hWF fuel _ _ ts ts' s (FastSIS.Inv_init P infs hWF.horizon) (by simp [FastSIS.init]) hts hr

end GenFS
