"""Scripted randomness for EoN.simulation.

`TapeRandom` stands in for the module-level `random` (and, through `NumpyProxy`, for `np.random`) inside
EoN.simulation.  In *record* mode it draws dyadic values from a seeded generator and logs every call with its
arguments; in *replay* mode it serves a given tape.  Any attribute other than the five primitives raises, so a
simulator that starts consuming randomness from elsewhere is noticed.
"""
import contextlib
from fractions import Fraction
import numpy as _np


class TapeError(Exception):
    pass


def enc_item(x, idx):
    """encode a candidate (node or tuple of nodes) as a list of node indices"""
    if isinstance(x, tuple) and all((y in idx) for y in x) and not (x in idx):
        return [idx[y] for y in x]
    if x in idx:
        return [idx[x]]
    if isinstance(x, tuple):
        return [idx[y] for y in x]
    raise KeyError(x)


class TapeRandom:
    def __init__(self, rng=None, tape=None, idx=None, unif_bits=12, delay_den=16, delay_max=48, max_calls=200000, free_choice=False):
        self.rng, self.tape, self.idx = rng, (list(tape) if tape is not None else None), idx
        self.pos = 0
        self.exp_log = []      # scalar np.exp calls (argument, value) as exact rationals
        self.log = []          # wire-format tape  [["u","3/8"],["e","1/2"],["c",2],["s",[..]],["b",k]]
        self.trace = []        # calls with arguments [["u"],["e",rate],["c",seq],["s",n,k],["b",n,p]]
        self.unif_bits, self.delay_den, self.delay_max = unif_bits, delay_den, delay_max
        self.max_calls = max_calls
        self.free_choice = free_choice   # replay mode: `choice` is served by `rng`, not by the tape
        self.forced_unif = None   # optional callable(thr-less) to bias draws

    def _next(self, kind):
        if len(self.log) >= self.max_calls:
            raise TapeError("too many RNG calls")
        if self.tape is None:
            return None
        if self.pos >= len(self.tape):
            raise TapeError("tape exhausted")
        d = self.tape[self.pos]
        self.pos += 1
        if d[0] != kind:
            raise TapeError("tape kind mismatch: wanted %s got %s" % (kind, d[0]))
        return d[1]

    # --- the five primitives
    def random(self):
        v = self._next("u")
        if v is None:
            # odd numerator over 2^(bits+1): never equal to a threshold built from the small-denominator rates and
            # weights of the generators, so float and exact comparisons agree
            v = Fraction(2 * self.rng.randrange(2 ** self.unif_bits) + 1, 2 ** (self.unif_bits + 1))
        else:
            v = Fraction(v)
        self.log.append(["u", str(v)])
        self.trace.append(["u"])
        return float(v)

    def expovariate(self, rate):
        if rate == 0:
            raise ZeroDivisionError("float division by zero")
        v = self._next("e")
        if v is None:
            v = Fraction(self.rng.randrange(1, self.delay_max + 1), self.delay_den)
        else:
            v = Fraction(v)
        self.log.append(["e", str(v)])
        self.trace.append(["e", rate])
        return float(v)

    def choice(self, seq):
        n = len(seq)
        if n == 0:
            raise IndexError("Cannot choose from an empty sequence")
        v = None if (self.free_choice and self.tape is not None) else self._next("c")
        if v is None:
            v = self.rng.randrange(n)
        self.log.append(["c", v])
        self.trace.append(["c", list(seq)])
        return seq[v]

    def sample(self, population, k):
        pop = list(population)
        n = len(pop)
        if not 0 <= k <= n:
            raise ValueError("Sample larger than population or is negative")
        v = self._next("s")
        if v is None:
            v = self.rng.sample(range(n), k)
        self.log.append(["s", list(v)])
        self.trace.append(["s", n, k])
        return [pop[i] for i in v]

    def binomial(self, n, p):
        v = self._next("b")
        if v is None:
            # any value in 0..n is a legal outcome when 0<p<1
            if p <= 0:
                v = 0
            elif p >= 1:
                v = int(n)
            else:
                v = self.rng.randrange(int(n) + 1)
        self.log.append(["b", int(v)])
        self.trace.append(["b", int(n), float(p)])
        return int(v)

    def __getattr__(self, name):
        raise TapeError("EoN.simulation used random.%s, which is not one of the five modelled primitives" % name)


class _NpRandom:
    def __init__(self, tr):
        self._tr = tr

    def binomial(self, n, p):
        return self._tr.binomial(n, p)

    def __getattr__(self, name):
        raise TapeError("EoN.simulation used np.random.%s" % name)


class NumpyProxy:
    def __init__(self, tr):
        self.random = _NpRandom(tr)
        self._tr = tr

    def exp(self, x):
        """np.exp, with scalar calls logged (argument and value as exact rationals) for the generated-code drivers"""
        v = _np.exp(x)
        try:
            if _np.ndim(x) == 0:
                self._tr.exp_log.append((Fraction(float(x)), Fraction(float(v))))
        except Exception:
            pass
        return v

    def __getattr__(self, name):
        return getattr(_np, name)


@contextlib.contextmanager
def scripted(tr):
    """install `tr` as EoN.simulation.random / .np for the duration of the block"""
    import EoN.simulation as sim
    old_r, old_np = sim.random, sim.np
    sim.random, sim.np = tr, NumpyProxy(tr)
    try:
        yield tr
    finally:
        sim.random, sim.np = old_r, old_np
