import EoNVerif.Proofs.EventSIRFinal
import EoNVerif.Spec.Predicates
import Mathlib.Data.List.Chain
/-!
Helper lemmas for C04 / C05 on the event-driven SIR model: the row lists (`times`, `S`, `I`, `R`) kept by the event
loop.  An invariant `RInv` (the row lists are the columns of a list of rows whose head holds the current status
counts, consecutive rows differ by one legal move, times are the popped times, nondecreasing, in `[tmin, tmax)`,
and there is one `tmin` row more than there are reported transmissions at `tmin`) is carried along `loop` next to
the Dijkstra invariant `Inv`; a bridge lemma turns a chronological row list into `Pred.wellFormed`.
For `heapq` tie-breaking (`sel = 0`) the first `len(initial_infecteds)` pops are shown to be the initial events.
-/
namespace EventSIR

/-- the arrays as a trajectory -/
def traj (s : ESState) (k : Nat) : Traj :=
  { times := (rows s k).1, cols := [(rows s k).2.1, (rows s k).2.2.1, (rows s k).2.2.2] }

/-- one row of the output arrays -/
structure Row where
  t : Rat
  S : Int
  I : Int
  R : Int

/-- `new` follows `old`: time does not decrease and one node makes a legal move -/
def mv (new old : Row) : Prop :=
  old.t ≤ new.t ∧ ((new.S = old.S - 1 ∧ new.I = old.I + 1 ∧ new.R = old.R) ∨
    (new.S = old.S ∧ new.I = old.I - 1 ∧ new.R = old.R + 1))

/-! ### generic list facts -/

theorem allIdx_iff (n : Nat) (p : Nat → Bool) : Pred.allIdx n p = true ↔ ∀ i, i < n → p i = true := by
  unfold Pred.allIdx
  simp [List.all_eq_true]

theorem nondecreasing_map {α : Type} (R : α → α → Prop) (f : α → Rat) (hR : ∀ a b, R a b → f a ≤ f b) :
    ∀ l : List α, l.IsChain R → Pred.nondecreasing (l.map f) = true := by
  intro l
  induction l with
  | nil => intro _; rfl
  | cons a l ih =>
    intro hc
    cases l with
    | nil => rfl
    | cons b l =>
      rw [List.isChain_cons_cons] at hc
      simp only [List.map_cons, Pred.nondecreasing, Bool.and_eq_true, decide_eq_true_eq]
      exact ⟨hR _ _ hc.1, by simpa using ih hc.2⟩

theorem nonincrInt_map {α : Type} (R : α → α → Prop) (f : α → Int) (hR : ∀ a b, R a b → f b ≤ f a) :
    ∀ l : List α, l.IsChain R → Pred.nonincrInt (l.map f) = true := by
  intro l
  induction l with
  | nil => intro _; rfl
  | cons a l ih =>
    intro hc
    cases l with
    | nil => rfl
    | cons b l =>
      rw [List.isChain_cons_cons] at hc
      simp only [List.map_cons, Pred.nonincrInt, Bool.and_eq_true, decide_eq_true_eq]
      exact ⟨hR _ _ hc.1, by simpa using ih hc.2⟩

theorem nondecrInt_map {α : Type} (R : α → α → Prop) (f : α → Int) (hR : ∀ a b, R a b → f a ≤ f b) :
    ∀ l : List α, l.IsChain R → Pred.nondecrInt (l.map f) = true := by
  intro l
  induction l with
  | nil => intro _; rfl
  | cons a l ih =>
    intro hc
    cases l with
    | nil => rfl
    | cons b l =>
      rw [List.isChain_cons_cons] at hc
      simp only [List.map_cons, Pred.nondecrInt, Bool.and_eq_true, decide_eq_true_eq]
      exact ⟨hR _ _ hc.1, by simpa using ih hc.2⟩

theorem row_map (l : List Row) (i : Nat) (hi : i < l.length) :
    Pred.row [l.map (·.S), l.map (·.I), l.map (·.R)] i = [l[i].S, l[i].I, l[i].R] := by
  simp [Pred.row, List.getD_eq_getElem?_getD, List.getElem?_eq_getElem hi]

/-- a chronological row list with the row facts is a well-formed trajectory -/
theorem wellFormed_of_rows (N : Nat) (tmin : Rat) (tmax : ERat) (l : List Row)
    (hhd : ∃ r rest, l = r :: rest ∧ r.t = tmin)
    (hch : l.IsChain (fun a b => mv b a))
    (hall : ∀ r ∈ l, ERat.lt (some r.t) tmax = true ∧ 0 ≤ r.S ∧ 0 ≤ r.I ∧ 0 ≤ r.R ∧ r.S + r.I + r.R = (N : Int)) :
    Pred.wellFormed TrajKind.sirCont N tmin tmax false false
      { times := l.map (·.t), cols := [l.map (·.S), l.map (·.I), l.map (·.R)] } = true := by
  obtain ⟨r0, rest, hl, hr0⟩ := hhd
  have hlen : 0 < l.length := by rw [hl]; simp
  have h5 : Pred.nondecreasing (l.map (·.t)) = true :=
    nondecreasing_map _ _ (fun a b hab => hab.1) l hch
  have h6 : (l.map (·.t)).all (Pred.beforeHorizon TrajKind.sirCont tmin tmax) = true := by
    simp only [List.all_eq_true, List.mem_map]
    rintro t ⟨r, hr, rfl⟩
    exact (hall r hr).1
  have h7 : Pred.allIdx (l.map (·.t)).length
      (fun i => (Pred.row [l.map (·.S), l.map (·.I), l.map (·.R)] i).all (fun c => decide (0 ≤ c))) = true := by
    rw [allIdx_iff]
    intro i hi
    rw [List.length_map] at hi
    obtain ⟨_, g1, g2, g3, _⟩ := hall l[i] (List.getElem_mem hi)
    rw [row_map l i hi]
    simp [g1, g2, g3]
  have h8 : Pred.allIdx (l.map (·.t)).length
      (fun i => Pred.sumInt (Pred.row [l.map (·.S), l.map (·.I), l.map (·.R)] i) == (N : Int)) = true := by
    rw [allIdx_iff]
    intro i hi
    rw [List.length_map] at hi
    obtain ⟨_, _, _, _, g⟩ := hall l[i] (List.getElem_mem hi)
    rw [row_map l i hi]
    simp only [Pred.sumInt, List.foldr_cons, List.foldr_nil, beq_iff_eq]
    omega
  have h9 : Pred.allIdx ((l.map (·.t)).length - 1)
      (fun i => Pred.sirMove (Pred.row [l.map (·.S), l.map (·.I), l.map (·.R)] i)
        (Pred.row [l.map (·.S), l.map (·.I), l.map (·.R)] (i + 1))) = true := by
    rw [allIdx_iff]
    intro i hi
    rw [List.length_map] at hi
    have hi1 : i + 1 < l.length := by omega
    have hi0 : i < l.length := by omega
    have := List.isChain_iff_getElem.1 hch i hi1
    rw [row_map l i hi0, row_map l (i + 1) hi1]
    simp only [Pred.sirMove, Bool.or_eq_true, Bool.and_eq_true, beq_iff_eq]
    rcases this.2 with g | g
    · left; exact ⟨⟨g.1, g.2.1⟩, g.2.2⟩
    · right; exact ⟨⟨g.1, g.2.1⟩, g.2.2⟩
  have h10 : Pred.nonincrInt (l.map (·.S)) = true :=
    nonincrInt_map _ _ (fun a b hab => by rcases hab.2 with g | g <;> omega) l hch
  have h11 : Pred.nondecrInt (l.map (·.R)) = true :=
    nondecrInt_map _ _ (fun a b hab => by rcases hab.2 with g | g <;> omega) l hch
  have h4 : (l.map (·.t)).head? = some tmin := by rw [hl]; simp [hr0]
  unfold Pred.wellFormed
  simp only [h4, h5, h6, h7, h8, h9]
  simp [h10, h11, hlen]

/-! ### status counts -/

/-- number of nodes with status `x` -/
def cnt (nodes : List Node) (st : Node → St) (x : St) : Int :=
  ((nodes.countP fun v => decide (st v = x) : Nat) : Int)

theorem cnt_nonneg (nodes : List Node) (st : Node → St) (x : St) : 0 ≤ cnt nodes st x := by
  unfold cnt; omega

theorem cnt_sum (nodes : List Node) (st : Node → St) :
    cnt nodes st St.S + cnt nodes st St.I + cnt nodes st St.R = (nodes.length : Int) := by
  unfold cnt
  induction nodes with
  | nil => simp
  | cons a l ih =>
    simp only [List.countP_cons, List.length_cons]
    cases h : st a <;> simp <;> omega

theorem countP_fset (st : Node → St) (tgt : Node) (b x : St) : ∀ l : List Node, l.Nodup →
    (l.countP fun v => decide (fset st tgt b v = x)) + (if tgt ∈ l ∧ st tgt = x then 1 else 0) =
      (l.countP fun v => decide (st v = x)) + (if tgt ∈ l ∧ b = x then 1 else 0) := by
  intro l
  induction l with
  | nil => intro _; simp
  | cons a l ih =>
    intro hn
    rw [List.nodup_cons] at hn
    have ih := ih hn.2
    simp only [List.countP_cons, List.mem_cons]
    by_cases ha : a = tgt
    · subst ha
      have hnot : ¬ (a ∈ l) := hn.1
      simp only [hnot, false_and, if_false, Nat.add_zero] at ih
      rw [ih, fset_same]
      simp only [true_or, true_and]
      by_cases h1 : b = x <;> by_cases h2 : st a = x <;> simp [h1, h2]
    · have hne : tgt ≠ a := fun e => ha e.symm
      rw [fset_other _ _ _ _ ha]
      simp only [hne, false_or]
      omega

theorem cnt_fset (nodes : List Node) (hn : nodes.Nodup) (st : Node → St) (tgt : Node) (ht : tgt ∈ nodes) (b x : St) :
    cnt nodes (fset st tgt b) x + (if st tgt = x then 1 else 0) = cnt nodes st x + (if b = x then 1 else 0) := by
  have := countP_fset st tgt b x nodes hn
  simp only [ht, true_and] at this
  unfold cnt
  split_ifs at this ⊢ <;> omega

theorem countP_mem_eq (nodes recs : List Node) (hn : nodes.Nodup) (hrn : recs.Nodup) (hsub : ∀ u ∈ recs, u ∈ nodes) :
    (nodes.countP fun v => decide (v ∈ recs)) = recs.length := by
  rw [List.countP_eq_length_filter]
  apply Nat.le_antisymm
  · exact nodup_length_le (hn.filter _) (fun x hx => by simpa using (List.mem_filter.1 hx).2)
  · exact nodup_length_le hrn (fun x hx => List.mem_filter.2 ⟨hsub x hx, by simpa using hx⟩)

theorem cnt_init (nodes recs : List Node) (hn : nodes.Nodup) (hrn : recs.Nodup) (hsub : ∀ u ∈ recs, u ∈ nodes) :
    cnt nodes (fun v => if v ∈ recs then St.R else St.S) St.S = (nodes.length : Int) - (recs.length : Int) ∧
    cnt nodes (fun v => if v ∈ recs then St.R else St.S) St.I = 0 ∧
    cnt nodes (fun v => if v ∈ recs then St.R else St.S) St.R = (recs.length : Int) := by
  have hsum := cnt_sum nodes (fun v => if v ∈ recs then St.R else St.S)
  have hR : cnt nodes (fun v => if v ∈ recs then St.R else St.S) St.R = (recs.length : Int) := by
    unfold cnt
    rw [← countP_mem_eq nodes recs hn hrn hsub]
    congr 1
    apply List.countP_congr
    intro v _
    by_cases hv : v ∈ recs <;> simp [hv]
  have hI : cnt nodes (fun v => if v ∈ recs then St.R else St.S) St.I = 0 := by
    unfold cnt
    have : (nodes.countP fun v => decide ((if v ∈ recs then St.R else St.S) = St.I)) = 0 := by
      rw [List.countP_eq_zero]
      intro v _
      by_cases hv : v ∈ recs <;> simp [hv]
    rw [this]; rfl
  refine ⟨?_, hI, hR⟩
  omega

/-! ### one step, with the row lists -/

section Rows
variable {nodes : List Node} {nbrs : Node → List Node} {delay : Node → Node → ERat} {dur : Node → ERat}
  {tmin : Rat} {tmax : ERat} {infs recs : List Node}

theorem processTrans_S_rows (s : ESState) (time : Rat) (src : Option Node) (tgt : Node) (h : s.status tgt = St.S) :
    let s' := processTrans (tableParams nodes nbrs delay dur tmin tmax) s time src tgt
    s'.times = time :: s.times ∧ s'.S = (hd s.S - 1) :: s.S ∧ s'.I = (hd s.I + 1) :: s.I ∧ s'.R = hd s.R :: s.R := by
  unfold processTrans
  rw [if_pos h]
  exact ⟨rfl, rfl, rfl, rfl⟩

/-- `step_some` extended with the row lists -/
theorem step_rows {sel : Nat} {s s' : ESState}
    (h : step (tableParams nodes nbrs delay dur tmin tmax) sel s = some s') :
    ∃ x l1 l2, s.queue = l1 ++ x :: l2 ∧ (∀ y ∈ s.queue, x.time ≤ y.time) ∧
      ((∃ src tgt, x.ev = QEv.trans src tgt ∧ s.status tgt ≠ St.S ∧ s'.status = s.status ∧
          s'.queue = l1 ++ l2 ∧ s'.trans = s.trans ∧
          s'.times = s.times ∧ s'.S = s.S ∧ s'.I = s.I ∧ s'.R = s.R) ∨
       (∃ src tgt, x.ev = QEv.trans src tgt ∧ s.status tgt = St.S ∧ s'.status = fset s.status tgt St.I ∧
          s'.queue = (schB nbrs delay dur tmax s.status s.predInf (l1 ++ l2) x.time tgt).2 ∧
          s'.trans = (x.time, src, tgt) :: s.trans ∧
          s'.times = x.time :: s.times ∧ s'.S = (hd s.S - 1) :: s.S ∧ s'.I = (hd s.I + 1) :: s.I ∧
          s'.R = hd s.R :: s.R) ∨
       (∃ u, x.ev = QEv.recov u ∧ s'.status = fset s.status u St.R ∧
          s'.queue = l1 ++ l2 ∧ s'.trans = s.trans ∧
          s'.times = x.time :: s.times ∧ s'.S = hd s.S :: s.S ∧ s'.I = (hd s.I - 1) :: s.I ∧
          s'.R = (hd s.R + 1) :: s.R)) := by
  unfold step at h
  split at h
  · cases h
  · rename_i x q hp
    obtain ⟨l1, l2, h1, h2, h3⟩ := pop_some hp
    refine ⟨x, l1, l2, h1, h3, ?_⟩
    subst h2
    simp only at h
    split at h
    · rename_i src tgt hev
      injection h with h
      by_cases hs : s.status tgt = St.S
      · right; left
        have h1 := processTrans_S nodes nbrs delay dur tmin tmax { s with queue := l1 ++ l2 } x.time src tgt hs
        have h2 := processTrans_S_rows (nodes := nodes) (nbrs := nbrs) (delay := delay) (dur := dur) (tmin := tmin)
          (tmax := tmax) { s with queue := l1 ++ l2 } x.time src tgt hs
        rw [h] at h1 h2
        exact ⟨src, tgt, hev, hs, h1.1, h1.2.2.2.1, h1.2.2.2.2, h2⟩
      · left
        rw [processTrans_notS _ { s with queue := l1 ++ l2 } _ _ _ hs] at h
        subst h
        exact ⟨src, tgt, hev, hs, rfl, rfl, rfl, rfl, rfl, rfl, rfl⟩
    · rename_i u hev
      injection h with h
      right; right
      subst h
      exact ⟨u, hev, rfl, rfl, rfl, rfl, rfl, rfl, rfl⟩

/-! ### the row invariant -/

/-- the row invariant on the components of the state; `rs` is the list of rows, newest first -/
structure RInvC (nodes : List Node) (tmin : Rat) (tmax : ERat) (st : Node → St) (q : List QItem) (tr : List TEv)
    (rs : List Row) : Prop where
  st_nodes : ∀ v, st v ≠ St.S → v ∈ nodes
  head : ∃ r rest, rs = r :: rest ∧ r.S = cnt nodes st St.S ∧ r.I = cnt nodes st St.I ∧ r.R = cnt nodes st St.R ∧
    ∀ x ∈ q, r.t ≤ x.time
  chain : rs.IsChain mv
  all : ∀ r ∈ rs, tmin ≤ r.t ∧ ERat.lt (some r.t) tmax = true ∧ 0 ≤ r.S ∧ 0 ≤ r.I ∧ 0 ≤ r.R ∧
    r.S + r.I + r.R = (nodes.length : Int)
  cntT : (tr.countP fun e => decide (e.1 = tmin)) + 1 ≤ rs.countP fun r => decide (r.t = tmin)

/-- the row invariant on a state -/
def RInv (nodes : List Node) (tmin : Rat) (tmax : ERat) (s : ESState) : Prop :=
  ∃ rs : List Row, s.times = rs.map (·.t) ∧ s.S = rs.map (·.S) ∧ s.I = rs.map (·.I) ∧ s.R = rs.map (·.R) ∧
    RInvC nodes tmin tmax s.status s.queue s.trans rs

theorem RInv.step (h : WF nodes nbrs delay dur infs recs) {sel : Nat} {s s' : ESState}
    (hI : Inv nodes nbrs delay dur tmin tmax infs recs s) (hR : RInv nodes tmin tmax s)
    (hs : step (tableParams nodes nbrs delay dur tmin tmax) sel s = some s') : RInv nodes tmin tmax s' := by
  obtain ⟨rs, et, eS, eI, eR, hC⟩ := hR
  obtain ⟨x, l1, l2, hq, hmin, hc⟩ := step_rows hs
  obtain ⟨r, rest, hrs, hrS, hrI, hrR, hrq⟩ := hC.head
  have hx : x ∈ s.queue := by rw [hq]; simp
  have hrx : r.t ≤ x.time := hrq x hx
  have hrmem : r ∈ rs := by rw [hrs]; simp
  have hxlt : ERat.lt (some x.time) tmax = true := hI.q_lt x hx
  have hdS : hd s.S = r.S := by rw [eS, hrs]; rfl
  have hdI : hd s.I = r.I := by rw [eI, hrs]; rfl
  have hdR : hd s.R = r.R := by rw [eR, hrs]; rfl
  have hsubq : ∀ y ∈ l1 ++ l2, y ∈ s.queue := fun y hy => by rw [hq]; exact mem_mid hy
  rcases hc with ⟨src, tgt, hev, hst, e1, e4, e5, f1, f2, f3, f4⟩ | ⟨src, tgt, hev, hst, e1, e4, e5, f1, f2, f3, f4⟩ |
    ⟨u, hev, e1, e4, e5, f1, f2, f3, f4⟩
  · refine ⟨rs, by rw [f1, et], by rw [f2, eS], by rw [f3, eI], by rw [f4, eR], ?_⟩
    rw [e1, e4, e5]
    exact { st_nodes := hC.st_nodes
            head := ⟨r, rest, hrs, hrS, hrI, hrR, fun y hy => hrq y (hsubq y hy)⟩
            chain := hC.chain
            all := hC.all
            cntT := hC.cntT }
  · -- an infection
    have htn : tgt ∈ nodes := (hI.q_tr x hx src tgt hev).1
    have cS := cnt_fset nodes h.nodup s.status tgt htn St.I St.S
    have cI := cnt_fset nodes h.nodup s.status tgt htn St.I St.I
    have cR := cnt_fset nodes h.nodup s.status tgt htn St.I St.R
    rw [hst] at cS cI cR
    simp only [if_true, reduceCtorEq, if_false, Int.add_zero] at cS cI cR
    have hsum := cnt_sum nodes (fset s.status tgt St.I)
    have n1 := cnt_nonneg nodes (fset s.status tgt St.I) St.S
    have n2 := cnt_nonneg nodes (fset s.status tgt St.I) St.I
    have n3 := cnt_nonneg nodes (fset s.status tgt St.I) St.R
    refine ⟨⟨x.time, r.S - 1, r.I + 1, r.R⟩ :: rs, by rw [f1, et]; rfl, by rw [f2, hdS, eS]; rfl,
      by rw [f3, hdI, eI]; rfl, by rw [f4, hdR, eR]; rfl, ?_⟩
    rw [e1, e4, e5]
    -- the new queue
    obtain ⟨r1, hq1, _, hr1, _⟩ := q1B_spec dur tmax (l1 ++ l2) x.time tgt
    obtain ⟨ex, hq2, _, hex⟩ := schedule_struct tmax x.time tgt (ERat.add (some x.time) (dur tgt))
      ((susB nbrs s.status tgt).map fun v => (v, delay tgt v)) s.predInf (q1B dur tmax (l1 ++ l2) x.time tgt)
    have hqn : (schB nbrs delay dur tmax s.status s.predInf (l1 ++ l2) x.time tgt).2 = l1 ++ l2 ++ r1 ++ ex := by
      unfold schB; rw [hq2, hq1]
    exact {
      st_nodes := by
        intro v hv
        by_cases hvt : v = tgt
        · rw [hvt]; exact htn
        · rw [fset_other _ _ _ _ hvt] at hv; exact hC.st_nodes v hv
      head := by
        refine ⟨_, rs, rfl, by simp only; omega, by simp only; omega, by simp only; omega, ?_⟩
        intro y hy
        rw [hqn] at hy
        simp only [List.mem_append] at hy
        rcases hy with (hy | hy) | hy
        · exact hmin y (hsubq y (List.mem_append.2 hy))
        · obtain ⟨t, rfl, g, _⟩ := hr1 y hy
          obtain ⟨a, b, ha, hb, hab⟩ := ERat.add_eq_some.1 g
          injection ha with ha
          have := h.dur_nonneg tgt b hb
          show x.time ≤ t
          linarith
        · obtain ⟨v, d, t, hvd, rfl, g, _⟩ := hex y hy
          simp only [List.mem_map, Prod.mk.injEq] at hvd
          obtain ⟨v', _, rfl, rfl⟩ := hvd
          obtain ⟨a, b, ha, hb, hab⟩ := ERat.add_eq_some.1 g
          injection ha with ha
          have := h.delay_nonneg tgt v' b hb
          show x.time ≤ t
          linarith
      chain := by
        rw [hrs, List.isChain_cons_cons, ← hrs]
        exact ⟨⟨hrx, Or.inl ⟨rfl, rfl, rfl⟩⟩, hC.chain⟩
      all := by
        intro r' hr'
        rcases List.mem_cons.1 hr' with rfl | hr'
        · refine ⟨le_trans (hC.all r hrmem).1 hrx, hxlt, ?_, ?_, ?_, ?_⟩ <;> simp only <;> omega
        · exact hC.all r' hr'
      cntT := by
        have := hC.cntT
        simp only [List.countP_cons]
        omega }
  · -- a recovery
    obtain ⟨hsu, _⟩ := hI.rec_q x hx u hev
    have hun : u ∈ nodes := hC.st_nodes u (by rw [hsu]; simp)
    have cS := cnt_fset nodes h.nodup s.status u hun St.R St.S
    have cI := cnt_fset nodes h.nodup s.status u hun St.R St.I
    have cR := cnt_fset nodes h.nodup s.status u hun St.R St.R
    rw [hsu] at cS cI cR
    simp only [if_true, reduceCtorEq, if_false, Int.add_zero] at cS cI cR
    have hsum := cnt_sum nodes (fset s.status u St.R)
    have n1 := cnt_nonneg nodes (fset s.status u St.R) St.S
    have n2 := cnt_nonneg nodes (fset s.status u St.R) St.I
    have n3 := cnt_nonneg nodes (fset s.status u St.R) St.R
    refine ⟨⟨x.time, r.S, r.I - 1, r.R + 1⟩ :: rs, by rw [f1, et]; rfl, by rw [f2, hdS, eS]; rfl,
      by rw [f3, hdI, eI]; rfl, by rw [f4, hdR, eR]; rfl, ?_⟩
    rw [e1, e4, e5]
    exact {
      st_nodes := by
        intro v hv
        by_cases hvt : v = u
        · rw [hvt]; exact hun
        · rw [fset_other _ _ _ _ hvt] at hv; exact hC.st_nodes v hv
      head := by
        refine ⟨_, rs, rfl, by simp only; omega, by simp only; omega, by simp only; omega, ?_⟩
        intro y hy
        exact hmin y (hsubq y hy)
      chain := by
        rw [hrs, List.isChain_cons_cons, ← hrs]
        exact ⟨⟨hrx, Or.inr ⟨rfl, rfl, rfl⟩⟩, hC.chain⟩
      all := by
        intro r' hr'
        rcases List.mem_cons.1 hr' with rfl | hr'
        · refine ⟨le_trans (hC.all r hrmem).1 hrx, hxlt, ?_, ?_, ?_, ?_⟩ <;> simp only <;> omega
        · exact hC.all r' hr'
      cntT := by
        have := hC.cntT
        simp only [List.countP_cons]
        split_ifs <;> omega }

end Rows

section RowsLoop
variable {nodes : List Node} {nbrs : Node → List Node} {delay : Node → Node → ERat} {dur : Node → ERat}
  {tmin : Rat} {tmax : ERat} {infs recs : List Node}

theorem RInv.init (h : WF nodes nbrs delay dur infs recs) (hrn : recs.Nodup)
    (htm : ERat.lt (some tmin) tmax = true) :
    RInv nodes tmin tmax (init (tableParams nodes nbrs delay dur tmin tmax) infs recs) := by
  obtain ⟨c1, c2, c3⟩ := cnt_init nodes recs h.nodup hrn h.recs_mem
  refine ⟨[⟨tmin, (nodes.length : Int) - (recs.length : Int), 0, (recs.length : Int)⟩], rfl, rfl, rfl, rfl, ?_⟩
  exact {
    st_nodes := by
      intro v hv
      by_cases hvr : v ∈ recs
      · exact h.recs_mem v hvr
      · exfalso; apply hv
        show (if v ∈ recs then St.R else St.S) = St.S
        rw [if_neg hvr]
    head := by
      refine ⟨_, [], rfl, c1.symm, c2.symm, c3.symm, ?_⟩
      intro x hx
      have hx' : x ∈ initQueue (tableParams nodes nbrs delay dur tmin tmax) infs [] := hx
      rw [initQueue_table, List.nil_append, if_pos htm] at hx'
      simp only [List.mem_map] at hx'
      obtain ⟨u, _, rfl⟩ := hx'
      exact le_refl _
    chain := by simp
    all := by
      intro r hr
      simp only [List.mem_singleton] at hr
      subst hr
      have n1 := cnt_nonneg nodes (fun v => if v ∈ recs then St.R else St.S) St.S
      simp only
      exact ⟨le_refl _, htm, by omega, by omega, by omega, by omega⟩
    cntT := by
      show ([] : List TEv).countP _ + 1 ≤ _
      simp }

theorem RInv.loop (h : WF nodes nbrs delay dur infs recs) (sel : Nat → Nat) (fuel : Nat) :
    ∀ (k : Nat) (s : ESState), Inv nodes nbrs delay dur tmin tmax infs recs s → RInv nodes tmin tmax s →
      RInv nodes tmin tmax (loop (tableParams nodes nbrs delay dur tmin tmax) sel fuel k s) := by
  induction fuel with
  | zero => intro k s _ hR; exact hR
  | succ fuel ih =>
    intro k s hI hR
    unfold EventSIR.loop
    split
    · exact hR
    · rename_i s' hs
      exact ih _ _ (hI.step h hs) (hR.step h hI hs)

theorem RInv.run (h : WF nodes nbrs delay dur infs recs) (hrn : recs.Nodup) (htm : ERat.lt (some tmin) tmax = true)
    (sel : Nat → Nat) (fuel : Nat) :
    RInv nodes tmin tmax (run (tableParams nodes nbrs delay dur tmin tmax) sel infs recs fuel) :=
  RInv.loop h sel fuel 0 _ (Inv.init h) (RInv.init h hrn htm)

/-- once the queue is empty every initial node has been reported, at `tmin` -/
theorem Inv.infs_reported (h : WF nodes nbrs delay dur infs recs) {s : ESState}
    (hI : Inv nodes nbrs delay dur tmin tmax infs recs s) (hq : s.queue = [])
    (htm : ERat.lt (some tmin) tmax = true) : ∀ v ∈ infs, ∃ e ∈ s.trans, e.2.2 = v ∧ e.1 = tmin := by
  intro v hv
  have hvr : v ∉ recs := h.disjoint v hv
  have hns : s.status v ≠ St.S := by
    intro hs
    obtain ⟨p0, hp0, hle⟩ := ERat.le_some_iff.1 (hI.pred_init v hv hs)
    have hlt : ERat.lt (some p0) tmax = true := ERat.lt_of_le_of_lt (by simpa using hle) htm
    obtain ⟨x, hx, _⟩ := hI.pred_q v p0 hs hp0 hlt
    rw [hq] at hx; simp at hx
  obtain ⟨e, he, hev⟩ := InvC.mem_of_not_S hI hns hvr
  refine ⟨e, he, hev, le_antisymm ?_ ?_⟩
  · apply hI.tr_opt e he [] tmin
    rw [hev]; exact GW.init _ ⟨hv, hvr⟩
  · obtain ⟨p, hp⟩ := hI.tr_walk e he
    exact GW.t0_le (Et_nonneg h) hp

theorem Inv.infs_count (h : WF nodes nbrs delay dur infs recs) {s : ESState}
    (hI : Inv nodes nbrs delay dur tmin tmax infs recs s) (hq : s.queue = [])
    (htm : ERat.lt (some tmin) tmax = true) :
    infs.length ≤ s.trans.countP fun e => decide (e.1 = tmin) := by
  rw [List.countP_eq_length_filter, ← List.length_map (f := fun e : TEv => e.2.2)]
  apply nodup_length_le h.infs_nodup
  intro v hv
  obtain ⟨e, he, hev, het⟩ := hI.infs_reported h hq htm v hv
  exact List.mem_map.2 ⟨e, List.mem_filter.2 ⟨he, by simpa using het⟩, hev⟩

/-- in a time-ordered list starting at `tmin` with at least `k+1` rows at `tmin`, row `k` is at `tmin` -/
theorem drop_head_tmin (tmin : Rat) : ∀ (c : List Row), c.Pairwise (fun a b => a.t ≤ b.t) → (∀ r ∈ c, tmin ≤ r.t) →
    ∀ k, k + 1 ≤ (c.countP fun r => decide (r.t = tmin)) → ∃ r rest, c.drop k = r :: rest ∧ r.t = tmin := by
  intro c
  induction c with
  | nil => intro _ _ k hk; simp at hk
  | cons a c ih =>
    intro hp hge k hk
    rw [List.pairwise_cons] at hp
    cases k with
    | zero =>
      refine ⟨a, c, rfl, ?_⟩
      have hpos : 0 < ((a :: c).countP fun r => decide (r.t = tmin)) := by omega
      obtain ⟨r, hr, hrt⟩ := List.countP_pos_iff.1 hpos
      simp only [decide_eq_true_eq] at hrt
      have h1 := hge a (List.mem_cons_self ..)
      rcases List.mem_cons.1 hr with rfl | hr
      · exact hrt
      · have := hp.1 r hr
        linarith
    | succ k =>
      rw [List.drop_succ_cons]
      apply ih hp.2 (fun r hr => hge r (List.mem_cons_of_mem _ hr))
      rw [List.countP_cons] at hk
      split_ifs at hk <;> omega

theorem chain_le_pairwise (c : List Row) (hc : c.IsChain (fun a b => a.t ≤ b.t)) :
    c.Pairwise (fun a b => a.t ≤ b.t) := by
  have : Trans (fun a b : Row => a.t ≤ b.t) (fun a b : Row => a.t ≤ b.t) (fun a b : Row => a.t ≤ b.t) :=
    ⟨fun h1 h2 => le_trans h1 h2⟩
  exact List.isChain_iff_pairwise.1 hc

/-- **C04 core**: a terminated state satisfying both invariants has well-formed rows -/
theorem rows_wf_core (h : WF nodes nbrs delay dur infs recs) (htm : ERat.lt (some tmin) tmax = true) {s : ESState}
    (hI : Inv nodes nbrs delay dur tmin tmax infs recs s) (hR : RInv nodes tmin tmax s) (hq : s.queue = []) :
    Pred.wellFormed TrajKind.sirCont nodes.length tmin tmax false false (traj s infs.length) = true := by
  obtain ⟨rs, et, eS, eI, eR, hC⟩ := hR
  have htraj : traj s infs.length =
      { times := (rs.reverse.drop infs.length).map (·.t),
        cols := [(rs.reverse.drop infs.length).map (·.S), (rs.reverse.drop infs.length).map (·.I),
                 (rs.reverse.drop infs.length).map (·.R)] } := by
    unfold traj rows
    simp only [et, eS, eI, eR, List.map_drop, List.map_reverse]
  rw [htraj]
  have hch : rs.reverse.IsChain (fun a b => mv b a) := List.isChain_reverse.2 hC.chain
  have hcnt := hI.infs_count h hq htm
  have hcntT := hC.cntT
  apply wellFormed_of_rows
  · apply drop_head_tmin tmin rs.reverse
    · exact chain_le_pairwise _ (hch.imp fun a b hab => hab.1)
    · intro r hr; exact (hC.all r (List.mem_reverse.1 hr)).1
    · rw [List.countP_reverse]; exact le_trans (Nat.succ_le_succ hcnt) hcntT
  · exact hch.drop _
  · intro r hr
    have := hC.all r (List.mem_reverse.1 (List.mem_of_mem_drop hr))
    exact ⟨this.2.1, this.2.2.1, this.2.2.2.1, this.2.2.2.2.1, this.2.2.2.2.2⟩

end RowsLoop

/-! ### `heapq` tie-breaking (`sel = 0`): the initial events are popped first -/

theorem minTime_cons_of_le (x : QItem) (rest : List QItem) (hmin : ∀ y ∈ rest, x.time ≤ y.time) :
    minTime (x :: rest) = some x.time := by
  rcases minTime_spec rest with ⟨h0, _⟩ | ⟨m, h0, _, y, hy, hym⟩
  · simp [minTime, h0]
  · have := hmin y hy
    simp only [minTime, h0]
    rw [if_pos (by rw [← hym]; exact this)]

theorem pop_zero_head (x : QItem) (rest : List QItem) (hmin : ∀ y ∈ rest, x.time ≤ y.time) :
    pop 0 (x :: rest) = some (x, rest) := by
  have hm := minTime_cons_of_le x rest hmin
  have hc : ∃ c', minIdxs (x :: rest) = 0 :: c' := by
    unfold minIdxs
    rw [hm]
    simp only [List.length_cons, List.range_succ_eq_map, List.filter_cons]
    simp
  obtain ⟨c', hc⟩ := hc
  unfold pop
  simp [hc]

theorem col_drop (l lf : List Int) (k : Nat) (a : Int) (hl : l.length = k + 1) (hh : hd l = a) (hs : l <:+ lf) :
    (lf.reverse.drop k).getD 0 0 = a := by
  obtain ⟨ext, rfl⟩ := hs
  cases l with
  | nil => simp at hl
  | cons b tl =>
    have hb : b = a := hh
    have htl : tl.reverse.length = k := by simp at hl ⊢; omega
    have : (ext ++ b :: tl).reverse = tl.reverse ++ (b :: ext.reverse) := by simp
    rw [this, List.drop_left' htl, hb]
    rfl

section Heapq
variable {nodes : List Node} {nbrs : Node → List Node} {delay : Node → Node → ERat} {dur : Node → ERat}
  {tmin : Rat} {tmax : ERat} {infs recs : List Node}

theorem step_suffix {sel : Nat} {s s' : ESState}
    (hs : step (tableParams nodes nbrs delay dur tmin tmax) sel s = some s') :
    s.S <:+ s'.S ∧ s.I <:+ s'.I ∧ s.R <:+ s'.R := by
  obtain ⟨x, l1, l2, _, _, hc⟩ := step_rows hs
  rcases hc with ⟨_, _, _, _, _, _, _, _, f2, f3, f4⟩ | ⟨_, _, _, _, _, _, _, _, f2, f3, f4⟩ |
    ⟨_, _, _, _, _, _, f2, f3, f4⟩
  · rw [f2, f3, f4]; exact ⟨List.suffix_refl _, List.suffix_refl _, List.suffix_refl _⟩
  · rw [f2, f3, f4]; exact ⟨List.suffix_cons _ _, List.suffix_cons _ _, List.suffix_cons _ _⟩
  · rw [f2, f3, f4]; exact ⟨List.suffix_cons _ _, List.suffix_cons _ _, List.suffix_cons _ _⟩

theorem loop_suffix (sel : Nat → Nat) (fuel : Nat) : ∀ (k : Nat) (s : ESState),
    s.S <:+ (loop (tableParams nodes nbrs delay dur tmin tmax) sel fuel k s).S ∧
    s.I <:+ (loop (tableParams nodes nbrs delay dur tmin tmax) sel fuel k s).I ∧
    s.R <:+ (loop (tableParams nodes nbrs delay dur tmin tmax) sel fuel k s).R := by
  induction fuel with
  | zero => intro k s; exact ⟨List.suffix_refl _, List.suffix_refl _, List.suffix_refl _⟩
  | succ fuel ih =>
    intro k s
    unfold EventSIR.loop
    split
    · exact ⟨List.suffix_refl _, List.suffix_refl _, List.suffix_refl _⟩
    · rename_i s' hs
      obtain ⟨a1, a2, a3⟩ := step_suffix hs
      obtain ⟨b1, b2, b3⟩ := ih (k + 1) s'
      exact ⟨a1.trans b1, a2.trans b2, a3.trans b3⟩

/-- the initial event of `u` -/
def iniEv (tmin : Rat) (u : Node) : QItem := ⟨tmin, QEv.trans none u⟩

/-- state after the first `i` pops under `heapq` order: exactly the first `i` initial nodes have been infected -/
structure Ph (nodes : List Node) (nbrs : Node → List Node) (delay : Node → Node → ERat) (dur : Node → ERat)
    (tmin : Rat) (tmax : ERat) (infs recs : List Node) (i : Nat) (s : ESState) : Prop where
  inv : Inv nodes nbrs delay dur tmin tmax infs recs s
  queue : ∃ extra, s.queue = (infs.drop i).map (iniEv tmin) ++ extra ∧ ∀ x ∈ extra, tmin ≤ x.time
  tr : ∀ e ∈ s.trans, ∃ j, j < i ∧ infs[j]? = some e.2.2
  lenS : s.S.length = i + 1
  lenI : s.I.length = i + 1
  lenR : s.R.length = i + 1
  hdS : hd s.S = (nodes.length : Int) - (i : Int) - (recs.length : Int)
  hdI : hd s.I = (i : Int)
  hdR : hd s.R = (recs.length : Int)

theorem Ph.init (h : WF nodes nbrs delay dur infs recs) (htm : ERat.lt (some tmin) tmax = true) :
    Ph nodes nbrs delay dur tmin tmax infs recs 0 (init (tableParams nodes nbrs delay dur tmin tmax) infs recs) where
  inv := Inv.init h
  queue := by
    refine ⟨[], ?_, by simp⟩
    show initQueue (tableParams nodes nbrs delay dur tmin tmax) infs [] = _
    rw [initQueue_table, if_pos htm]
    simp [iniEv]
  tr := by intro e he; exact absurd he (by simp [EventSIR.init])
  lenS := rfl
  lenI := rfl
  lenR := rfl
  hdS := by
    show (nodes.length : Int) - (recs.length : Int) = _
    simp
  hdI := rfl
  hdR := rfl

theorem Ph.step (h : WF nodes nbrs delay dur infs recs) {i : Nat} {s : ESState}
    (hP : Ph nodes nbrs delay dur tmin tmax infs recs i s) (hi : i < infs.length) :
    ∃ s', step (tableParams nodes nbrs delay dur tmin tmax) 0 s = some s' ∧
      Ph nodes nbrs delay dur tmin tmax infs recs (i + 1) s' := by
  obtain ⟨extra, hq, hex⟩ := hP.queue
  rw [List.drop_eq_getElem_cons hi, List.map_cons, List.cons_append] at hq
  have hu : infs[i] ∈ infs := List.getElem_mem hi
  have hmin : ∀ y ∈ (infs.drop (i + 1)).map (iniEv tmin) ++ extra, (iniEv tmin infs[i]).time ≤ y.time := by
    intro y hy
    rcases List.mem_append.1 hy with hy | hy
    · obtain ⟨v, _, rfl⟩ := List.mem_map.1 hy
      exact le_refl _
    · exact hex y hy
  have hpop := pop_zero_head _ _ hmin
  rw [← hq] at hpop
  have hst : s.status infs[i] = St.S := by
    refine (hP.inv.st_S _).2 ⟨h.disjoint _ hu, ?_⟩
    intro e he heq
    obtain ⟨j, hj, hje⟩ := hP.tr e he
    rw [heq, ← List.getElem?_eq_getElem hi] at hje
    have := (List.getElem?_inj (by omega) h.infs_nodup).1 hje
    omega
  have hs : EventSIR.step (tableParams nodes nbrs delay dur tmin tmax) 0 s =
      some (processTrans (tableParams nodes nbrs delay dur tmin tmax)
        { s with queue := (infs.drop (i + 1)).map (iniEv tmin) ++ extra } tmin none infs[i]) := by
    unfold EventSIR.step
    rw [hpop]
    rfl
  refine ⟨_, hs, ?_⟩
  have p1 := processTrans_S nodes nbrs delay dur tmin tmax
    { s with queue := (infs.drop (i + 1)).map (iniEv tmin) ++ extra } tmin none infs[i] hst
  have p2 := processTrans_S_rows (nodes := nodes) (nbrs := nbrs) (delay := delay) (dur := dur) (tmin := tmin)
    (tmax := tmax) { s with queue := (infs.drop (i + 1)).map (iniEv tmin) ++ extra } tmin none infs[i] hst
  simp only at p1 p2
  obtain ⟨_, _, _, pq, ptr⟩ := p1
  obtain ⟨_, pS, pI, pR⟩ := p2
  obtain ⟨r1, hq1, _, hr1, _⟩ := q1B_spec dur tmax ((infs.drop (i + 1)).map (iniEv tmin) ++ extra) tmin infs[i]
  obtain ⟨ex, hq2, _, hexs⟩ := schedule_struct tmax tmin infs[i] (ERat.add (some tmin) (dur infs[i]))
    ((susB nbrs s.status infs[i]).map fun v => (v, delay infs[i] v)) s.predInf
    (q1B dur tmax ((infs.drop (i + 1)).map (iniEv tmin) ++ extra) tmin infs[i])
  exact {
    inv := hP.inv.step h hs
    queue := by
      refine ⟨extra ++ r1 ++ ex, ?_, ?_⟩
      · rw [pq]; unfold schB; rw [hq2, hq1]; simp only [List.append_assoc]
      · intro y hy
        simp only [List.mem_append] at hy
        rcases hy with (hy | hy) | hy
        · exact hex y hy
        · obtain ⟨t, rfl, g, _⟩ := hr1 y hy
          obtain ⟨a, b, ha, hb, hab⟩ := ERat.add_eq_some.1 g
          injection ha with ha
          have := h.dur_nonneg _ b hb
          show tmin ≤ t
          linarith
        · obtain ⟨v, d, t, hvd, rfl, g, _⟩ := hexs y hy
          simp only [List.mem_map, Prod.mk.injEq] at hvd
          obtain ⟨v', _, rfl, rfl⟩ := hvd
          obtain ⟨a, b, ha, hb, hab⟩ := ERat.add_eq_some.1 g
          injection ha with ha
          have := h.delay_nonneg _ v' b hb
          show tmin ≤ t
          linarith
    tr := by
      intro e he
      rw [ptr] at he
      rcases List.mem_cons.1 he with rfl | he
      · exact ⟨i, by omega, List.getElem?_eq_getElem hi⟩
      · obtain ⟨j, hj, hje⟩ := hP.tr e he
        exact ⟨j, by omega, hje⟩
    lenS := by rw [pS, List.length_cons, hP.lenS]
    lenI := by rw [pI, List.length_cons, hP.lenI]
    lenR := by rw [pR, List.length_cons, hP.lenR]
    hdS := by
      rw [pS]
      show hd s.S - 1 = _
      rw [hP.hdS]; push_cast; omega
    hdI := by
      rw [pI]
      show hd s.I + 1 = _
      rw [hP.hdI]; push_cast; omega
    hdR := by
      rw [pR]
      show hd s.R = _
      exact hP.hdR }

/-- **C05 core**: under `heapq` order row `len(initial_infecteds)` of the raw arrays is the requested initial condition -/
theorem Ph.final (h : WF nodes nbrs delay dur infs recs) : ∀ (d i : Nat) (s : ESState), i + d = infs.length →
    Ph nodes nbrs delay dur tmin tmax infs recs i s → ∀ (fuel idx : Nat),
    (loop (tableParams nodes nbrs delay dur tmin tmax) (fun _ => 0) fuel idx s).queue = [] →
    Pred.row (traj (loop (tableParams nodes nbrs delay dur tmin tmax) (fun _ => 0) fuel idx s) infs.length).cols 0 =
      [(nodes.length : Int) - (infs.length : Int) - (recs.length : Int), (infs.length : Int), (recs.length : Int)] := by
  intro d
  induction d with
  | zero =>
    intro i s hi hP fuel idx _
    have hik : i = infs.length := by omega
    subst hik
    obtain ⟨a1, a2, a3⟩ := loop_suffix (nodes := nodes) (nbrs := nbrs) (delay := delay) (dur := dur) (tmin := tmin)
      (tmax := tmax) (fun _ => 0) fuel idx s
    have c1 := col_drop _ _ _ _ hP.lenS hP.hdS a1
    have c2 := col_drop _ _ _ _ hP.lenI hP.hdI a2
    have c3 := col_drop _ _ _ _ hP.lenR hP.hdR a3
    unfold traj rows Pred.row
    simp only [List.map_cons, List.map_nil]
    rw [c1, c2, c3]
  | succ d ih =>
    intro i s hi hP fuel idx hq
    have hlt : i < infs.length := by omega
    obtain ⟨s', hs, hP'⟩ := hP.step h hlt
    cases fuel with
    | zero =>
      exfalso
      obtain ⟨extra, hqe, _⟩ := hP.queue
      rw [List.drop_eq_getElem_cons hlt] at hqe
      have : (loop (tableParams nodes nbrs delay dur tmin tmax) (fun _ => 0) 0 idx s).queue = s.queue := rfl
      rw [this, hqe] at hq
      simp at hq
      omega
    | succ fuel =>
      have hl : loop (tableParams nodes nbrs delay dur tmin tmax) (fun _ => 0) (fuel + 1) idx s =
          loop (tableParams nodes nbrs delay dur tmin tmax) (fun _ => 0) fuel (idx + 1) s' := by
        rw [EventSIR.loop]
        simp only [hs]
      rw [hl] at hq ⊢
      exact ih (i + 1) s' (by omega) hP' fuel (idx + 1) hq

end Heapq

end EventSIR
