import EoNVerif.Basic
/-!
C19 — a small model of the only place where EoN's entry points touch their arguments' *identity*: the prologues of
`SIR_heterogeneous_pairwise`, `SIS_effective_degree`, `SIR_effective_degree` flatten 2-d array arguments before
handing them to the integrator.  NumPy arrays are mutable objects; assigning `.shape` changes the caller's object.
The model is a heap of array objects (object id ↦ shape and data); `reshape` models `a.shape = …` (in place, data
untouched), `copyObj` models `a = a.copy()` (fresh object).  `prologueFixed` is the code after the repair
(6620a7f), `prologueOld` the code before it.
-/
namespace Args

structure Arr where
  shape : List Nat
  data : List Rat
deriving DecidableEq, Repr

abbrev Heap := List (Nat × Arr)

def lookup (h : Heap) (id : Nat) : Option Arr :=
  match h with
  | [] => none
  | p :: t => if p.1 = id then some p.2 else lookup t id

/-- `obj.shape = sh` : in place, same data -/
def reshape (h : Heap) (id : Nat) (sh : List Nat) : Heap :=
  h.map fun p => if p.1 = id then (p.1, { p.2 with shape := sh }) else p

/-- a fresh object id -/
def fresh (h : Heap) : Nat := (h.map (·.1)).foldl max 0 + 1

/-- `x = obj.copy()` -/
def copyObj (h : Heap) (id : Nat) : Heap × Nat :=
  match lookup h id with
  | some a => (h ++ [(fresh h, a)], fresh h)
  | none => (h, id)

/-- prologue as repaired: copy both array arguments, flatten the copies; returns the heap and the ids the rest of
the function works with -/
def prologueFixed (h : Heap) (a b : Nat) (k : Nat) : Heap × Nat × Nat :=
  let (h1, a') := copyObj h a
  let (h2, b') := copyObj h1 b
  (reshape (reshape h2 a' [k * k, 1]) b' [k * k, 1], a', b')

/-- prologue before the repair: flatten the caller's objects in place -/
def prologueOld (h : Heap) (a b : Nat) (k : Nat) : Heap × Nat × Nat :=
  (reshape (reshape h a [k * k, 1]) b [k * k, 1], a, b)

/-- what the integrator is given: the flattened data of the two working arrays -/
def solverInput (r : Heap × Nat × Nat) : Option (List Rat × List Rat) :=
  match lookup r.1 r.2.1, lookup r.1 r.2.2 with
  | some x, some y => some (x.data, y.data)
  | _, _ => none

end Args
