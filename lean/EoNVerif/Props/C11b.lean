import EoNVerif.Proofs.GenEventSIR
import EoNVerif.Props.C11
import EoNVerif.Props.C04b
/-!
C11b — the Lean code GENERATED statement by statement from `myQueue`, `_process_trans_SIR_`, `_process_rec_SIR_` and
`fast_nonMarkov_SIR` (`EoNVerif/Gen/EventSIRGen.lean`) refines the hand-written model `EventSIR` run with `heapq`'s
tie-breaking (`sel = fun _ => 0`), hence the first-passage-percolation theorems of C11 (proved for every tie-breaking)
hold of the generated code.

`Agree`, `KeysOK`, `WFJ`, `StepInv`, `QRel`, `Rel`, `OutRel`, `genTrans`, `genRecov`, `tableArgs` are defined in
`EoNVerif/Proofs/GenEventSIR.lean`.
-/
open EventSIR

namespace GenESIR

/-- **refinement, forward**: whenever the generated `fast_nonMarkov_SIR` returns normally it has not touched the
random tape, the model run with the same fuel and `heapq` tie-breaking has emptied its queue, and the returned
objects are the model's: the four arrays are `rows s len(initial_infecteds)`, the transmission list is the model's
(in chronological order), `status`, `rec_time`, `pred_inf_time` coincide, the queue is empty. -/
theorem gen_run_refines {A : EArgs} {P : ESParams} (hA : Agree A P) (hW : WFJ P) (infs recs : List Node) (fuel : Nat)
    (ts : TapeSt) (σ : Loc) (ts' : TapeSt) (h : run A infs recs fuel ts = .ok (σ, ts')) :
    ts' = ts ∧ (EventSIR.run P (fun _ => 0) infs recs fuel).queue = [] ∧
      OutRel infs.length σ (EventSIR.run P (fun _ => 0) infs recs fuel) :=
  run_refines hA (StepInv.ofWFJ hW) infs recs trivial fuel ts σ ts' h

/-- the same with the `dict` hypothesis required only along the run: `J` is any invariant of the model's event loop
(under `heapq` tie-breaking) which implies `KeysOK` for the targets of the queued transmissions -/
theorem gen_run_refines_inv {A : EArgs} {P : ESParams} {J : ESState → Prop} (hA : Agree A P) (hJ : StepInv P J)
    (infs recs : List Node) (h0 : J (init P infs recs)) (fuel : Nat)
    (ts : TapeSt) (σ : Loc) (ts' : TapeSt) (h : run A infs recs fuel ts = .ok (σ, ts')) :
    ts' = ts ∧ (EventSIR.run P (fun _ => 0) infs recs fuel).queue = [] ∧
      OutRel infs.length σ (EventSIR.run P (fun _ => 0) infs recs fuel) :=
  run_refines hA hJ infs recs h0 fuel ts σ ts' h

/-- **refinement, backward**: if the model run empties its queue within `fuel` events, the generated function with
one more unit of fuel returns normally (no `IndexError`, no `KeyError`, no "fuel") with the model's objects. -/
theorem gen_run_refines_back {A : EArgs} {P : ESParams} (hA : Agree A P) (hW : WFJ P) (infs recs : List Node)
    (fuel : Nat) (ts : TapeSt) (hq : (EventSIR.run P (fun _ => 0) infs recs fuel).queue = []) :
    ∃ σ, run A infs recs (fuel + 1) ts = .ok (σ, ts) ∧
      OutRel infs.length σ (EventSIR.run P (fun _ => 0) infs recs fuel) :=
  run_refines_back hA (StepInv.ofWFJ hW) infs recs trivial fuel ts hq

/-- the generated function raises no Python exception: it returns, or the event bound `fuel` was too small -/
theorem gen_run_total {A : EArgs} {P : ESParams} (hA : Agree A P) (hW : WFJ P) (infs recs : List Node) (fuel : Nat)
    (ts : TapeSt) :
    (∃ σ, run A infs recs fuel ts = .ok (σ, ts)) ∨ run A infs recs fuel ts = .error "fuel" :=
  run_total hA (StepInv.ofWFJ hW) infs recs trivial fuel ts

section FPP
variable (nodes : List Node) (nbrs : Node → List Node) (delay : Node → Node → ERat) (dur : Node → ERat)
  (tmin : Rat) (tmax : ERat) (infs recs : List Node)

/-- **first-passage percolation for the generated code**: whenever the generated `fast_nonMarkov_SIR` (called with
table-driven rules) returns, its transmission list and its recoveries satisfy the C11 predicate `isFPP`: every node is
reported exactly at its shortest-path time when that is before `tmax` and not at all otherwise, infectors are
shortest-path predecessors, recoveries are `dur` later.  (`genTrans σ` lists the transmissions most recent first.) -/
theorem gen_fpp (h : WF nodes nbrs delay dur infs recs) {A : EArgs}
    (hA : Agree A (tableParams nodes nbrs delay dur tmin tmax)) (fuel : Nat) (ts : TapeSt) (σ : Loc) (ts' : TapeSt)
    (hrun : run A infs recs fuel ts = .ok (σ, ts')) :
    isFPP nodes nbrs delay dur tmin tmax infs recs (genTrans σ) (genRecov nodes recs σ) = true := by
  obtain ⟨_, hq, hO⟩ := run_refines hA (StepInv.table h tmin tmax) infs recs (Inv.init h) fuel ts σ ts' hrun
  rw [hO.genTrans_eq, hO.genRecov_eq]
  exact fpp nodes nbrs delay dur tmin tmax infs recs h (fun _ => 0) fuel hq

/-- each node is reported infected at most once by the generated code -/
theorem gen_fpp_once (h : WF nodes nbrs delay dur infs recs) {A : EArgs}
    (hA : Agree A (tableParams nodes nbrs delay dur tmin tmax)) (fuel : Nat) (ts : TapeSt) (σ : Loc) (ts' : TapeSt)
    (hrun : run A infs recs fuel ts = .ok (σ, ts')) (v : Node) :
    ((genTrans σ).filter fun e => e.2.2 == v).length ≤ 1 := by
  obtain ⟨_, _, hO⟩ := run_refines hA (StepInv.table h tmin tmax) infs recs (Inv.init h) fuel ts σ ts' hrun
  rw [hO.genTrans_eq]
  exact fpp_once nodes nbrs delay dur tmin tmax infs recs h (fun _ => 0) fuel v

/-- the same statement for the transmission list in the order in which the generated code returns it
(chronological); all its times are finite, so `filterMap decT` only strips the `some`s (`OutRel.trans_eq`) -/
theorem gen_fpp_chrono (h : WF nodes nbrs delay dur infs recs) {A : EArgs}
    (hA : Agree A (tableParams nodes nbrs delay dur tmin tmax)) (fuel : Nat) (ts : TapeSt) (σ : Loc) (ts' : TapeSt)
    (hrun : run A infs recs fuel ts = .ok (σ, ts')) :
    isFPP nodes nbrs delay dur tmin tmax infs recs (σ.transmissions.filterMap decT) (genRecov nodes recs σ) = true ∧
      σ.transmissions = (σ.transmissions.filterMap decT).map encT := by
  have hrev : σ.transmissions.filterMap decT = (genTrans σ).reverse := by
    unfold genTrans; rw [List.reverse_reverse]
  obtain ⟨_, _, hO⟩ := run_refines hA (StepInv.table h tmin tmax) infs recs (Inv.init h) fuel ts σ ts' hrun
  refine ⟨?_, ?_⟩
  · rw [hrev, isFPP_reverse _ _ _ _ _ _ _ _ _ _
      (gen_fpp_once nodes nbrs delay dur tmin tmax infs recs h hA fuel ts σ ts' hrun)]
    exact gen_fpp nodes nbrs delay dur tmin tmax infs recs h hA fuel ts σ ts' hrun
  · rw [hrev]; exact hO.trans_eq

/-- **soundness in explicit form**: each transmission reported by the generated code goes along a kept edge from a
node reported infected `delay` earlier, or is the source-less entry of an initial node at `tmin`; all times `< tmax` -/
theorem gen_fpp_sound (h : WF nodes nbrs delay dur infs recs) {A : EArgs}
    (hA : Agree A (tableParams nodes nbrs delay dur tmin tmax)) (fuel : Nat) (ts : TapeSt) (σ : Loc) (ts' : TapeSt)
    (hrun : run A infs recs fuel ts = .ok (σ, ts')) :
    ∀ e ∈ genTrans σ, ERat.lt (some e.1) tmax = true ∧
      match e.2.1 with
      | none => e.2.2 ∈ infs ∧ e.1 = tmin
      | some u => keeps nbrs delay dur u e.2.2 = true ∧ u ∉ recs ∧
          ∃ eu ∈ genTrans σ, eu.2.2 = u ∧ ERat.add (some eu.1) (delay u e.2.2) = some e.1 := by
  obtain ⟨_, _, hO⟩ := run_refines hA (StepInv.table h tmin tmax) infs recs (Inv.init h) fuel ts σ ts' hrun
  rw [hO.genTrans_eq]
  exact fpp_sound nodes nbrs delay dur tmin tmax infs recs h (fun _ => 0) fuel

/-- **total correctness**: with an event bound above `(N+1)² + N + 1` the generated function returns (tape untouched)
and its output is first-passage percolation -/
theorem gen_fpp_total (h : WF nodes nbrs delay dur infs recs) {A : EArgs}
    (hA : Agree A (tableParams nodes nbrs delay dur tmin tmax)) (fuel : Nat) (ts : TapeSt)
    (hf : (nodes.length + 1) * (nodes.length + 1) + nodes.length + 1 < fuel) :
    ∃ σ, run A infs recs fuel ts = .ok (σ, ts) ∧
      isFPP nodes nbrs delay dur tmin tmax infs recs (genTrans σ) (genRecov nodes recs σ) = true := by
  obtain ⟨f, rfl⟩ : ∃ f, fuel = f + 1 := ⟨fuel - 1, by omega⟩
  have hq := fpp_terminates nodes nbrs delay dur tmin tmax infs recs h (fun _ => 0) f (by omega)
  obtain ⟨σ, hr, _⟩ := run_refines_back hA (StepInv.table h tmin tmax) infs recs (Inv.init h) f ts hq
  exact ⟨σ, hr, gen_fpp nodes nbrs delay dur tmin tmax infs recs h hA (f + 1) ts σ ts hr⟩

/-! #### the returned arrays (C04 / C05 transported to the generated code) -/

/-- the four arrays returned by the generated code, as a trajectory (all times are finite: `OutRel.times`) -/
def genTraj (σ : Loc) : Traj := { times := σ.times.filterMap id, cols := [σ.S, σ.I, σ.R] }

theorem OutRel.genTraj_eq {k : Nat} {σ : Loc} {s : ESState} (h : OutRel k σ s) : genTraj σ = traj s k := by
  unfold genTraj traj
  rw [h.times, h.S, h.I, h.R, List.filterMap_map]
  congr 1
  exact List.filterMap_some

/-- **C04 for the generated code**: the returned arrays are well-formed (equal lengths, first time `tmin`, ordered,
below `tmax`, non-negative counts summing to `N`, one legal move per row) -/
theorem gen_rows_wf (h : WF nodes nbrs delay dur infs recs) (hrn : recs.Nodup)
    (htm : ERat.lt (some tmin) tmax = true) {A : EArgs}
    (hA : Agree A (tableParams nodes nbrs delay dur tmin tmax)) (fuel : Nat) (ts : TapeSt) (σ : Loc) (ts' : TapeSt)
    (hrun : run A infs recs fuel ts = .ok (σ, ts')) :
    Pred.wellFormed TrajKind.sirCont nodes.length tmin tmax false false (genTraj σ) = true := by
  obtain ⟨_, hq, hO⟩ := run_refines hA (StepInv.table h tmin tmax) infs recs (Inv.init h) fuel ts σ ts' hrun
  rw [hO.genTraj_eq]
  exact rows_wf nodes nbrs delay dur tmin tmax infs recs h hrn htm (fun _ => 0) fuel hq

/-- **C05 for the generated code**: row 0 of the returned arrays is the requested initial condition (this is where
`heapq`'s tie-breaking — smallest counter first, `sel = 0` — matters) -/
theorem gen_row0_ic (h : WF nodes nbrs delay dur infs recs) (hrn : recs.Nodup)
    (htm : ERat.lt (some tmin) tmax = true) {A : EArgs}
    (hA : Agree A (tableParams nodes nbrs delay dur tmin tmax)) (fuel : Nat) (ts : TapeSt) (σ : Loc) (ts' : TapeSt)
    (hrun : run A infs recs fuel ts = .ok (σ, ts')) :
    Pred.initialOK nodes.length infs recs (Pred.row (genTraj σ).cols 0) none true = true := by
  obtain ⟨_, hq, hO⟩ := run_refines hA (StepInv.table h tmin tmax) infs recs (Inv.init h) fuel ts σ ts' hrun
  rw [hO.genTraj_eq]
  exact row0_ic nodes nbrs delay dur tmin tmax infs recs h hrn htm fuel hq

end FPP

end GenESIR

/-! ## non-vacuity -/
open GenESIR

/-- what is compared in the examples: the four returned arrays … -/
def c11bRows (r : Except String (Loc × TapeSt)) : Option (List ERat × List Int × List Int × List Int) :=
  match r with
  | .ok (σ, _) => some (σ.times, σ.S, σ.I, σ.R)
  | .error _ => none

/-- … and the transmission list -/
def c11bTrans (r : Except String (Loc × TapeSt)) : Option (List (ERat × Option Node × Node)) :=
  match r with
  | .ok (σ, _) => some σ.transmissions
  | .error _ => none

/-! ### example 1: the path 0 – 1 – 2 – 3, one initial infection, an infinite duration, a cut at `tmax = 6` -/
def pNb (u : Node) : List Node := match u with | 0 => [1] | 1 => [0, 2] | 2 => [1, 3] | 3 => [2] | _ => []
def pDelay (u v : Node) : ERat :=
  if u = 0 ∧ v = 1 then some 1 else if u = 1 ∧ v = 2 then some (1/2) else if u = 2 ∧ v = 3 then some 4 else some 7
def pDur (u : Node) : ERat := if u = 0 then some 2 else if u = 1 then some 1 else if u = 2 then none else some 1

/-- the generated function evaluates to the expected rows (the recovery of node 3 at 13/2 ≥ tmax is cut) -/
example : c11bRows (run (tableArgs [0,1,2,3] pNb pDelay pDur 0 (some 6)) [0] [] 40 { tape := [] }) =
      some ([some 0, some 1, some (3/2), some 2, some 2, some (11/2)], [3, 2, 1, 1, 1, 0], [1, 2, 3, 2, 1, 2],
        [0, 0, 0, 1, 2, 2]) ∧
    c11bTrans (run (tableArgs [0,1,2,3] pNb pDelay pDur 0 (some 6)) [0] [] 40 { tape := [] }) =
      some [(some 0, none, 0), (some 1, some 0, 1), (some (3/2), some 1, 2), (some (11/2), some 2, 3)] := by
  decide +kernel

/-- … and these are the model's rows -/
example : rows (EventSIR.run (tableParams [0,1,2,3] pNb pDelay pDur 0 (some 6)) (fun _ => 0) [0] [] 40) 1 =
    ([0, 1, 3/2, 2, 2, 11/2], [3, 2, 1, 1, 1, 0], [1, 2, 3, 2, 1, 2], [0, 0, 0, 1, 2, 2]) := by
  decide +kernel

theorem pNb_nodup : ∀ u, (pNb u).Nodup := by
  intro u; unfold pNb; split <;> decide

theorem pWF : WF [0,1,2,3] pNb pDelay pDur [0] [] where
  nodup := by decide
  nbr_nodup := by decide
  nbr_mem := by decide
  delay_nonneg := by
    intro u v d h
    unfold pDelay at h
    split_ifs at h <;> (injection h with h; subst h; decide +kernel)
  dur_nonneg := by
    intro u d h
    unfold pDur at h
    split_ifs at h <;> (injection h with h; subst h; decide +kernel)
  infs_nodup := by decide
  infs_mem := by decide
  recs_mem := by decide
  disjoint := by decide

/-- the hypotheses of the refinement theorems hold: the generated run above is related to the model run -/
example : ∃ σ, run (tableArgs [0,1,2,3] pNb pDelay pDur 0 (some 6)) [0] [] 40 { tape := [] } = .ok (σ, { tape := [] }) ∧
    OutRel 1 σ (EventSIR.run (tableParams [0,1,2,3] pNb pDelay pDur 0 (some 6)) (fun _ => 0) [0] [] 39) ∧
    isFPP [0,1,2,3] pNb pDelay pDur 0 (some 6) [0] [] (genTrans σ) (genRecov [0,1,2,3] [] σ) = true := by
  have hA := agree_tableArgs [0,1,2,3] pNb pDelay pDur 0 (some 6)
  have hW := WFJ_table [0,1,2,3] pNb pDelay pDur 0 (some 6) pNb_nodup
  have hq := fpp_terminates [0,1,2,3] pNb pDelay pDur 0 (some 6) [0] [] pWF (fun _ => 0) 39 (by decide)
  obtain ⟨σ, hr, hO⟩ := gen_run_refines_back hA hW [0] [] 39 { tape := [] } hq
  exact ⟨σ, hr, hO, gen_fpp [0,1,2,3] pNb pDelay pDur 0 (some 6) [0] [] pWF hA 40 _ σ _ hr⟩

/-! ### example 2: a triangle with two pendant nodes, two initial infections (a tie at `tmin`), an initially
recovered node, a zero delay and a three-way tie at time 1.  Node 2 is reached at time 1 both from 0 and from 1;
`heapq` (smallest counter) lets 0 be the infector, as the model with `sel = 0` does (`sel = 1` would report 1). -/
def tNb (u : Node) : List Node :=
  match u with | 0 => [1, 2] | 1 => [0, 2, 3] | 2 => [0, 1, 4] | 3 => [1] | 4 => [2] | _ => []
def tDelay (u v : Node) : ERat :=
  if u = 0 ∧ v = 2 then some 1 else if u = 1 ∧ v = 2 then some 1 else if u = 2 ∧ v = 4 then some 0
  else if u = 1 ∧ v = 3 then some 1 else some 9
def tDur (u : Node) : ERat := if u = 0 then some 1 else if u = 1 then some 1 else some 3

example : c11bRows (run (tableArgs [0,1,2,3,4] tNb tDelay tDur 0 none) [0, 1] [3] 60 { tape := [] }) =
      some ([some 0, some 1, some 1, some 1, some 1, some 4, some 4], [2, 2, 1, 1, 0, 0, 0], [2, 1, 2, 1, 2, 1, 0],
        [1, 2, 2, 3, 3, 4, 5]) ∧
    c11bTrans (run (tableArgs [0,1,2,3,4] tNb tDelay tDur 0 none) [0, 1] [3] 60 { tape := [] }) =
      some [(some 0, none, 0), (some 0, none, 1), (some 1, some 0, 2), (some 1, some 2, 4)] := by
  decide +kernel

example : (EventSIR.run (tableParams [0,1,2,3,4] tNb tDelay tDur 0 none) (fun _ => 0) [0, 1] [3] 60).trans.reverse =
    [(0, none, 0), (0, none, 1), (1, some 0, 2), (1, some 2, 4)] := by
  decide +kernel

/-- with too small an event bound the generated function fails with "fuel" and nothing else -/
example : (run (tableArgs [0,1,2,3,4] tNb tDelay tDur 0 none) [0, 1] [3] 5 { tape := [] }).toOption.isNone = true := by
  decide +kernel

theorem tWF : WF [0,1,2,3,4] tNb tDelay tDur [0, 1] [3] where
  nodup := by decide
  nbr_nodup := by decide
  nbr_mem := by decide
  delay_nonneg := by
    intro u v d h
    unfold tDelay at h
    split_ifs at h <;> (injection h with h; subst h; decide +kernel)
  dur_nonneg := by
    intro u d h
    unfold tDur at h
    split_ifs at h <;> (injection h with h; subst h; decide +kernel)
  infs_nodup := by decide
  infs_mem := by decide
  recs_mem := by decide
  disjoint := by decide

/-- total correctness instantiated: the bound is `(5+1)² + 5 + 1 = 42 < 60` -/
example : ∃ σ, run (tableArgs [0,1,2,3,4] tNb tDelay tDur 0 none) [0, 1] [3] 60 { tape := [] } = .ok (σ, { tape := [] }) ∧
    isFPP [0,1,2,3,4] tNb tDelay tDur 0 none [0, 1] [3] (genTrans σ) (genRecov [0,1,2,3,4] [3] σ) = true :=
  gen_fpp_total [0,1,2,3,4] tNb tDelay tDur 0 none [0, 1] [3] tWF
    (agree_tableArgs [0,1,2,3,4] tNb tDelay tDur 0 none) 60 { tape := [] } (by decide)

#print axioms GenESIR.gen_run_refines
#print axioms GenESIR.gen_run_refines_inv
#print axioms GenESIR.gen_run_refines_back
#print axioms GenESIR.gen_run_total
#print axioms GenESIR.gen_fpp
#print axioms GenESIR.gen_fpp_once
#print axioms GenESIR.gen_fpp_chrono
#print axioms GenESIR.gen_fpp_sound
#print axioms GenESIR.gen_fpp_total
#print axioms GenESIR.gen_rows_wf
#print axioms GenESIR.gen_row0_ic
