import EoNVerif.Basic
/-!
Models of `EoN.auxiliary.subsample`, `get_time_shift` and of the degree-distribution helpers of `EoN.analytic`
(`get_Pk`, `get_Pnk`, `get_PGF`, `get_PGFPrime`, `get_PGFDPrime`, `estimate_R0`).
-/
namespace Helpers

/-! ### subsample (auxiliary.py 105–129): two-pointer scan -/

/-- inner `while`: consume observations with `time ≤ report`, remembering the last status seen -/
def advance {α : Type} (obs : List (Rat × α)) (r : Rat) (cand : Option α) : List (Rat × α) × Option α :=
  match obs with
  | (t, s) :: rest => if t ≤ r then advance rest r (some s) else (obs, cand)
  | [] => ([], cand)

/-- outer `while` over the report times -/
def scan {α : Type} (obs : List (Rat × α)) (cand : Option α) : List Rat → List (Option α)
  | [] => []
  | r :: rs =>
    let p := advance obs r cand
    p.2 :: scan p.1 p.2 rs

/-- `subsample(report_times, times, status)` for one series. Errors: empty `report_times` or `times` (IndexError),
`report_times[0] < times[0]` (EoNError). -/
def subsample {α : Type} (report times : List Rat) (status : List α) : Except String (List (Option α)) :=
  match report, times with
  | [], _ => .error "IndexError"
  | _, [] => .error "IndexError"
  | r0 :: _, t0 :: _ =>
    if r0 < t0 then .error "EoNError"
    else .ok (scan (times.zip status) none report)

/-- specification: the value of the last observation at or before `r` -/
def lastLE {α : Type} (obs : List (Rat × α)) (r : Rat) : Option α :=
  ((obs.filter fun o => o.1 ≤ r).getLast?).map (·.2)

/-! ### get_time_shift (187–190) -/

/-- `for index, t in enumerate(times): if L[index] >= threshold: break; return t` -/
def timeShift (times L : List Rat) (thr : Rat) : Except String Rat :=
  match times with
  | [] => .error "NameError"         -- `t` is never bound
  | _ =>
    if L.length < times.length ∧ ((times.zip L).find? fun p => p.2 ≥ thr).isNone then .error "IndexError" else
    match (times.zip L).find? fun p => p.2 ≥ thr with
    | some p => .ok p.1
    | none => .ok (times.getLast!)

/-! ### degree distribution helpers -/

/-- number of entries of `l` equal to `k` -/
def countEq (l : List Nat) (k : Nat) : Nat := (l.filter (· = k)).length

/-- `get_Pk`: `Pk[k] = N_k / N` (as a function; the dict has the keys with `N_k > 0`) -/
def Pk (degs : List Nat) (k : Nat) : Rat := (countEq degs k : Rat) / (degs.length : Rat)

def maxDeg (degs : List Nat) : Nat := degs.foldl max 0

/-- `get_PGF(Pk)(x) = Σ_{k=0}^{maxk} Pk[k] x^k` -/
def psi (degs : List Nat) (x : Rat) : Rat :=
  sumRat ((List.range (maxDeg degs + 1)).map fun k => Pk degs k * x ^ k)
/-- `get_PGFPrime(Pk)(x) = Σ k Pk[k] x^(k-1)` -/
def psiP (degs : List Nat) (x : Rat) : Rat :=
  sumRat ((List.range (maxDeg degs + 1)).map fun k => Pk degs k * ((k : Rat) * x ^ (k - 1)))
/-- `get_PGFDPrime(Pk)(x) = Σ k(k-1) Pk[k] x^(k-2)` -/
def psiDP (degs : List Nat) (x : Rat) : Rat :=
  sumRat ((List.range (maxDeg degs + 1)).map fun k => Pk degs k * ((k : Rat) * ((k : Rat) - 1) * x ^ (k - 2)))

/-- mean of `f(k)` over the nodes -/
def meanDeg (degs : List Nat) (f : Nat → Rat) : Rat := sumRat (degs.map f) / (degs.length : Rat)

/-- `estimate_R0 = T ψ''(1)/ψ'(1)` -/
def R0 (degs : List Nat) (T : Rat) : Rat := T * psiDP degs 1 / psiP degs 1

/-- `get_Pnk`: `Pnk[k1][k2] = Σ_{u : deg u = k1} #{v ∈ nbrs u : deg v = k2} / (k1 · N_{k1})`.
`adj` = adjacency lists indexed by node position. -/
def Pnk (adj : List (List Nat)) (k1 k2 : Nat) : Rat :=
  let deg := fun (u : Nat) => (adj.getD u []).length
  let degs := adj.map (·.length)
  sumRat ((List.range adj.length).map fun u =>
    if deg u = k1 then
      (((adj.getD u []).filter fun v => deg v = k2).length : Rat) * (1 / ((k1 : Rat) * (countEq degs k1 : Rat)))
    else 0)

end Helpers
