import EoNVerif.Model.Helpers
import EoNVerif.Proofs.ListDict
import Mathlib.Algebra.Polynomial.Derivative
import Mathlib.Algebra.Polynomial.Eval.Defs
/-!
Helper lemmas for C20 (`subsample`, `get_time_shift`, `get_Pk`, `get_Pnk`, PGF helpers, `estimate_R0`).
-/
namespace Helpers
open Polynomial

/-- nondecreasing -/
def Sorted (l : List Rat) : Prop := l.Pairwise (· ≤ ·)

/-- the three helpers are a polynomial and its first and second derivative -/
noncomputable def psiPoly (degs : List Nat) : ℚ[X] :=
  ((List.range (maxDeg degs + 1)).map fun k => C (Pk degs k) * X ^ k).sum

/-! ### subsample -/

/-- `advance` splits a time-sorted list into the maximal prefix with time `≤ r` and the remainder, the
candidate becomes the status of the last consumed observation. -/
theorem advance_spec {α : Type} (r : Rat) (rest : List (Rat × α))
    (hs : rest.Pairwise (fun a b => a.1 ≤ b.1)) (consumed : List (Rat × α)) :
    ∃ pre post, rest = pre ++ post ∧ (∀ o ∈ pre, o.1 ≤ r) ∧ (∀ o ∈ post, r < o.1) ∧
      advance rest r (consumed.getLast?.map (·.2)) = (post, (consumed ++ pre).getLast?.map (·.2)) := by
  induction rest generalizing consumed with
  | nil => exact ⟨[], [], rfl, by simp, by simp, by simp [advance]⟩
  | cons o rest ih =>
    obtain ⟨t, s⟩ := o
    rw [List.pairwise_cons] at hs
    by_cases h : t ≤ r
    · obtain ⟨pre, post, he, h1, h2, h3⟩ := ih hs.2 (consumed ++ [(t, s)])
      refine ⟨(t, s) :: pre, post, by simp [he], ?_, h2, ?_⟩
      · intro o ho
        rcases List.mem_cons.1 ho with rfl | ho
        · exact h
        · exact h1 o ho
      · simp only [advance, h, if_true]
        simp only [List.getLast?_concat, Option.map_some, List.append_assoc, List.singleton_append] at h3
        exact h3
    · refine ⟨[], (t, s) :: rest, rfl, by simp, ?_, by simp [advance, h]⟩
      intro o ho
      rcases List.mem_cons.1 ho with rfl | ho
      · exact not_le.1 h
      · exact lt_of_lt_of_le (not_le.1 h) (hs.1 o ho)

theorem filter_le_eq {α : Type} (r : Rat) (pre post : List (Rat × α))
    (h1 : ∀ o ∈ pre, o.1 ≤ r) (h2 : ∀ o ∈ post, r < o.1) :
    (pre ++ post).filter (fun o => o.1 ≤ r) = pre := by
  rw [List.filter_append, List.filter_eq_self.2, List.filter_eq_nil_iff.2]
  · simp
  · intro o ho
    simpa using h2 o ho
  · intro o ho
    simpa using h1 o ho

theorem scan_spec {α : Type} (rs : List Rat) (hrs : rs.Pairwise (· ≤ ·)) (consumed rest : List (Rat × α))
    (hs : (consumed ++ rest).Pairwise (fun a b => a.1 ≤ b.1))
    (hc : ∀ o ∈ consumed, ∀ r ∈ rs, o.1 ≤ r) :
    scan rest (consumed.getLast?.map (·.2)) rs = rs.map (lastLE (consumed ++ rest)) := by
  induction rs generalizing consumed rest with
  | nil => rfl
  | cons r rs ih =>
    rw [List.pairwise_cons] at hrs
    obtain ⟨pre, post, he, h1, h2, h3⟩ :=
      advance_spec r rest (hs.sublist (List.sublist_append_right _ _)) consumed
    subst he
    have hcp : ∀ o ∈ consumed ++ pre, o.1 ≤ r := by
      intro o ho
      rcases List.mem_append.1 ho with ho | ho
      · exact hc o ho r (by simp)
      · exact h1 o ho
    simp only [scan, h3, List.map_cons]
    congr 1
    · unfold lastLE
      rw [← List.append_assoc, filter_le_eq r (consumed ++ pre) post hcp h2]
    · rw [← List.append_assoc]
      apply ih hrs.2 (consumed ++ pre) post (by rwa [List.append_assoc])
      intro o ho r' hr'
      exact le_trans (hcp o ho) (hrs.1 r' hr')

theorem zip_sorted {α : Type} (times : List Rat) (status : List α) (ht : times.Pairwise (· ≤ ·)) :
    (times.zip status).Pairwise (fun a b => a.1 ≤ b.1) := by
  induction times generalizing status with
  | nil => simp
  | cons t ts ih =>
    cases status with
    | nil => simp
    | cons s ss =>
      rw [List.pairwise_cons] at ht
      simp only [List.zip_cons_cons, List.pairwise_cons]
      refine ⟨?_, ih ss ht.2⟩
      intro o ho
      exact ht.1 _ (List.of_mem_zip ho).1

/-! ### get_time_shift -/

theorem find_zip_first (times L : List Rat) (thr : Rat) (hlen : L.length = times.length)
    (i : Nat) (hi : i < times.length) (hreach : thr ≤ L.getD i 0) (hfirst : ∀ j < i, L.getD j 0 < thr) :
    (times.zip L).find? (fun p => p.2 ≥ thr) = some (times.getD i 0, L.getD i 0) := by
  induction times generalizing L i with
  | nil => simp at hi
  | cons t ts ih =>
    cases L with
    | nil => simp at hlen
    | cons l ls =>
      cases i with
      | zero =>
        simp only [List.getD_cons_zero] at hreach
        simp [hreach]
      | succ i =>
        have h0 : l < thr := by simpa using hfirst 0 (Nat.succ_pos _)
        simp only [List.getD_cons_succ] at hreach
        simp only [List.zip_cons_cons, List.getD_cons_succ]
        rw [List.find?_cons_of_neg (by simpa using h0)]
        apply ih ls (by simpa using hlen) i (by simpa using hi) hreach
        intro j hj
        simpa using hfirst (j + 1) (Nat.succ_lt_succ hj)

theorem find_zip_none (times L : List Rat) (thr : Rat) (hnever : ∀ l ∈ L, l < thr) :
    (times.zip L).find? (fun p => p.2 ≥ thr) = none := by
  rw [List.find?_eq_none]
  intro p hp
  simpa using hnever p.2 (List.of_mem_zip hp).2

/-! ### degree histogram -/

theorem le_foldl_max (l : List Nat) (init : Nat) :
    init ≤ l.foldl max init ∧ ∀ d ∈ l, d ≤ l.foldl max init := by
  induction l generalizing init with
  | nil => simp
  | cons a t ih =>
    simp only [List.foldl_cons]
    obtain ⟨h1, h2⟩ := ih (max init a)
    refine ⟨le_trans (le_max_left _ _) h1, ?_⟩
    intro d hd
    rcases List.mem_cons.1 hd with rfl | hd
    · exact le_trans (le_max_right _ _) h1
    · exact h2 d hd

theorem le_maxDeg (degs : List Nat) : ∀ d ∈ degs, d ≤ maxDeg degs := (le_foldl_max degs 0).2

/-- regrouping a sum over the elements by the value of `g` -/
theorem sumRat_count_general {γ : Type} (l : List γ) (g : γ → Nat) (f : Nat → Rat) (n : Nat)
    (hn : ∀ v ∈ l, g v ≤ n) :
    sumRat ((List.range (n + 1)).map fun k => ((l.filter fun v => g v = k).length : Rat) * f k)
      = sumRat (l.map fun v => f (g v)) := by
  induction l with
  | nil => exact sumRat_map_zero _ _ (fun k _ => by simp)
  | cons a t ih =>
    have hk : ∀ k ∈ List.range (n + 1),
        (((a :: t).filter fun v => g v = k).length : Rat) * f k
          = f k * (if k = g a then 1 else 0) + ((t.filter fun v => g v = k).length : Rat) * f k := by
      intro k _
      by_cases h : g a = k
      · have h' : k = g a := h.symm
        simp [h]
        ring
      · have h' : ¬ k = g a := fun e => h e.symm
        simp [h, h']
    rw [sumRat_map_congr _ _ _ hk, sumRat_map_add,
      sumRat_indicator _ (g a) f List.nodup_range
        (by simpa using Nat.lt_succ_of_le (hn a (by simp))),
      ih (fun v hv => hn v (by simp [hv]))]
    simp

theorem sumRat_countEq (degs : List Nat) (f : Nat → Rat) :
    sumRat ((List.range (maxDeg degs + 1)).map fun k => (countEq degs k : Rat) * f k)
      = sumRat (degs.map f) :=
  sumRat_count_general degs id f (maxDeg degs) (le_maxDeg degs)

theorem countEq_zero_above (degs : List Nat) (k : Nat) (hk : maxDeg degs < k) : countEq degs k = 0 := by
  unfold countEq
  rw [List.length_eq_zero_iff, List.filter_eq_nil_iff]
  intro d hd
  have := le_maxDeg degs d hd
  simp
  omega

theorem sumRat_Pk_mul (degs : List Nat) (f : Nat → Rat) :
    sumRat ((List.range (maxDeg degs + 1)).map fun k => Pk degs k * f k) = meanDeg degs f := by
  unfold meanDeg
  rw [← sumRat_countEq degs f, div_eq_mul_inv, ← sumRat_map_mul_right]
  apply sumRat_map_congr
  intro k _
  unfold Pk
  ring

theorem length_ne_zero {degs : List Nat} (h : degs ≠ []) : (degs.length : Rat) ≠ 0 := by
  have : degs.length ≠ 0 := fun e => h (List.length_eq_zero_iff.1 e)
  exact_mod_cast this

/-! ### polynomials -/

theorem eval_list_sum_map (l : List Nat) (g : Nat → ℚ[X]) (x : ℚ) :
    ((l.map g).sum).eval x = sumRat (l.map fun k => (g k).eval x) := by
  induction l with
  | nil => simp
  | cons a t ih => simp [ih]

theorem derivative_list_sum_map (l : List Nat) (g : Nat → ℚ[X]) :
    derivative ((l.map g).sum) = (l.map fun k => derivative (g k)).sum := by
  induction l with
  | nil => simp
  | cons a t ih => simp [ih]

/-! ### get_Pnk -/

theorem sumRat_comm {β γ : Type} (l : List β) (m : List γ) (f : β → γ → Rat) :
    sumRat (l.map fun a => sumRat (m.map fun b => f a b))
      = sumRat (m.map fun b => sumRat (l.map fun a => f a b)) := by
  induction l with
  | nil => exact (sumRat_map_zero _ _ (fun k _ => by simp)).symm
  | cons a t ih => simp [ih, sumRat_map_add]

theorem sumRat_ite_const (l : List Nat) (k : Nat) (c : Rat) :
    sumRat (l.map fun d => if d = k then c else 0) = (countEq l k : Rat) * c := by
  induction l with
  | nil => simp [countEq]
  | cons a t ih =>
    simp only [List.map_cons, sumRat_cons, ih]
    by_cases h : a = k
    · simp [countEq, h]; ring
    · simp [countEq, h]

theorem map_deg_range (adj : List (List Nat)) :
    (List.range adj.length).map (fun u => (adj.getD u []).length) = adj.map (·.length) := by
  apply List.ext_getElem
  · simp
  · intro i h1 h2
    simp at h1 h2
    simp [h1]

theorem deg_le_maxDeg (adj : List (List Nat)) (v : Nat) :
    (adj.getD v []).length ≤ maxDeg (adj.map (·.length)) := by
  by_cases hv : v < adj.length
  · apply le_maxDeg
    have : adj.getD v [] = adj[v] := by simp [hv]
    rw [this]
    exact List.mem_map.2 ⟨adj[v], List.getElem_mem hv, rfl⟩
  · have : adj.getD v [] = [] := by simp [not_lt.1 hv]
    rw [this]
    simp

/-- row sums of `Pnk` (well-formedness of the neighbour indices is not needed: an out-of-range index has
model degree 0, which is within the range summed over) -/
theorem Pnk_row_sum_aux (adj : List (List Nat)) (k1 : Nat) (hk : 0 < k1)
    (hex : 0 < countEq (adj.map (·.length)) k1) :
    sumRat ((List.range (maxDeg (adj.map (·.length)) + 1)).map fun k2 => Pnk adj k1 k2) = 1 := by
  have hk' : (k1 : Rat) ≠ 0 := by exact_mod_cast hk.ne'
  have hN : ((countEq (adj.map (·.length)) k1 : Nat) : Rat) ≠ 0 := by exact_mod_cast hex.ne'
  simp only [Pnk]
  rw [sumRat_comm]
  have hin : ∀ u ∈ List.range adj.length,
      sumRat ((List.range (maxDeg (adj.map (·.length)) + 1)).map fun k2 =>
        if (adj.getD u []).length = k1 then
          (((adj.getD u []).filter fun v => (adj.getD v []).length = k2).length : Rat) *
            (1 / ((k1 : Rat) * (countEq (adj.map (·.length)) k1 : Rat)))
        else 0)
      = (fun d => if d = k1 then 1 / (countEq (adj.map (·.length)) k1 : Rat) else 0)
          ((adj.getD u []).length) := by
    intro u _
    by_cases hu : (adj.getD u []).length = k1
    · simp only [hu, if_true]
      rw [sumRat_count_general (adj.getD u []) (fun v => (adj.getD v []).length) (fun _ => _) _
        (fun v _ => deg_le_maxDeg adj v), sumRat_map_const, hu]
      field_simp
    · simp only [hu, if_false]
      exact sumRat_map_zero _ _ (fun _ _ => rfl)
  rw [sumRat_map_congr _ _ _ hin]
  have hmm : ∀ h : Nat → Rat, (List.range adj.length).map (fun u => h ((adj.getD u []).length))
      = (adj.map (·.length)).map h := by
    intro h
    rw [← map_deg_range, List.map_map]
    rfl
  rw [hmm (fun d => if d = k1 then 1 / (countEq (adj.map (·.length)) k1 : Rat) else 0), sumRat_ite_const]
  field_simp

end Helpers
