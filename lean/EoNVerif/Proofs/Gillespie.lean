import EoNVerif.Model.Gillespie
import EoNVerif.Model.GillespieLaw
import EoNVerif.Spec.Chain
import EoNVerif.Proofs.ListDict
import Mathlib.Tactic.Ring
import Mathlib.Tactic.FieldSimp
import Mathlib.Tactic.Linarith
import Mathlib.Algebra.Order.Field.Rat
import Mathlib.Data.List.Nodup
/-!
Helper lemmas for C01 / C02 (`Gillespie_SIR` / `Gillespie_SIS`): the definitions of `Gillespie.WF` and
`Gillespie.Inv`, a generic specification of a batch of `_ListDict_` operations with pairwise distinct keys,
the five neighbour loops written as such batches, invariant preservation of the event applications, inversion
lemmas for the tape monad, and the algebra of the one-step law.
-/

/-! ### a batch of `update`/`remove` operations with distinct keys -/
namespace LD
variable {α : Type} [DecidableEq α]

def Op.key : Op α → α
  | .ins x _ => x
  | .upd x _ => x
  | .rem x => x

/-- admissible operation in state `s`: an `update` of an absent candidate with a weight argument matching the
weighted flag and a non-negative increment, or a `remove` of a present candidate -/
def Op.ok (s : LD α) : Op α → Prop
  | .ins _ _ => False
  | .upd x w => x ∉ s.items ∧ w.isSome = s.weighted ∧ ∀ v, w = some v → 0 ≤ v
  | .rem x => x ∈ s.items

theorem ite_some_exists {β : Type} (c : Prop) [Decidable c] (a b : β) :
    ∃ r, (if c then some a else some b) = some r := by
  split <;> exact ⟨_, rfl⟩

theorem update_some_exists (s : LD α) (x : α) (w : Rat) (hwt : s.weighted = true) :
    ∃ s', s.update x (some w) = some s' := by
  unfold update
  simp only [hwt, Bool.not_true, Bool.false_eq_true, if_false]
  exact ite_some_exists _ _ _

theorem update_none_shape (s : LD α) (x : α) (hwt : s.weighted = false) :
    ∃ s', s.update x none = some s' ∧ s'.weighted = false ∧ s'.weight = s.weight ∧
      s'.items = (if x ∈ s.items then s.items else s.items ++ [x]) := by
  unfold update
  simp only [hwt, Bool.false_eq_true, if_false]
  by_cases hx : x ∈ s.items
  · simp only [hx, if_true]; exact ⟨_, rfl, hwt, rfl, rfl⟩
  · simp only [hx, if_false]; exact ⟨_, rfl, rfl, rfl, rfl⟩

/-- shape of a successful `update` with any argument -/
theorem update_any (s s' : LD α) (x : α) (w : Option Rat) (hs : s.update x w = some s') :
    s'.weighted = s.weighted ∧ (∀ y, y ∈ s'.items ↔ (y ∈ s.items ∨ y = x)) ∧
      (∀ y, y ≠ x → s'.getW y = s.getW y) := by
  cases w with
  | some v =>
    obtain ⟨h1, h2, -⟩ := update_shape s s' x v hs
    exact ⟨h2.trans h1.symm, update_mem s s' x v hs, fun y hy => update_getW_ne s s' x y v hs hy⟩
  | none =>
    have hwt : s.weighted = false := by
      cases hw : s.weighted with
      | false => rfl
      | true => simp [update, hw] at hs
    obtain ⟨s'', hs'', h1, h2, h3⟩ := update_none_shape s x hwt
    rw [hs] at hs''
    obtain rfl := Option.some.inj hs''
    refine ⟨h1.trans hwt.symm, ?_, ?_⟩
    · intro y; rw [h3]; split <;> simp_all
    · intro y _; unfold getW; rw [h2]

theorem update_exists (s : LD α) (x : α) (w : Option Rat) (hw : w.isSome = s.weighted) :
    ∃ s', s.update x w = some s' := by
  cases w with
  | some v => exact update_some_exists s x v (by simpa using hw.symm)
  | none =>
    obtain ⟨s', h, -⟩ := update_none_shape s x (by simpa using hw.symm)
    exact ⟨s', h⟩

theorem remove_getW_ne (s s' : LD α) (x y : α) (hs : s.remove x = some s') (hy : y ≠ x) :
    s'.getW y = s.getW y := by
  have hx : x ∈ s.items := by
    by_contra hx
    unfold remove at hs
    rw [if_neg hx] at hs; simp at hs
  cases hwt : s.weighted with
  | true =>
    obtain ⟨s'', hs'', -, -, hrest⟩ := remove_shape s x hx
    rw [hs] at hs''
    obtain rfl := Option.some.inj hs''
    unfold getW
    rw [(hrest hwt).1]
    exact alGet_alDel_ne _ _ _ _ hy
  | false =>
    unfold remove at hs
    simp only [hx, hwt, if_true, Bool.false_eq_true, if_false] at hs
    obtain rfl := Option.some.inj hs
    rfl

theorem remove_any (s : LD α) (x : α) (h : Inv s) (hx : x ∈ s.items) :
    ∃ s', s.remove x = some s' ∧ Inv s' ∧ s'.weighted = s.weighted ∧
      (∀ y, y ∈ s'.items ↔ (y ∈ s.items ∧ y ≠ x)) ∧ (∀ y, y ≠ x → s'.getW y = s.getW y) := by
  obtain ⟨s', hs', hit, hwd, -⟩ := remove_shape s x hx
  refine ⟨s', hs', inv_remove s s' x h hx hs', hwd, ?_, fun y hy => remove_getW_ne s s' x y hs' hy⟩
  intro y; rw [hit]; exact mem_swapRemove _ _ _ h.nodup hx

/-- **batch specification**: a list of admissible operations with pairwise distinct keys never fails
(no KeyError), preserves the invariant, and changes membership and weights exactly as listed. -/
theorem applyOps_spec (ops : List (Op α)) (s : LD α) (h : Inv s)
    (hk : ops.Pairwise fun a b => a.key ≠ b.key) (hop : ∀ o ∈ ops, o.ok s) :
    ∃ s', s.applyOps ops = some s' ∧ Inv s' ∧ s'.weighted = s.weighted ∧
      (∀ y, y ∈ s'.items ↔ ((y ∈ s.items ∧ Op.rem y ∉ ops) ∨ ∃ w, Op.upd y w ∈ ops)) ∧
      (∀ y w, Op.upd y (some w) ∈ ops → s'.getW y = w) ∧
      (∀ y, (∀ o ∈ ops, o.key ≠ y) → s'.getW y = s.getW y) := by
  induction ops generalizing s with
  | nil => exact ⟨s, rfl, h, rfl, by simp, by simp, fun _ _ => rfl⟩
  | cons o os ih =>
    rw [List.pairwise_cons] at hk
    obtain ⟨hk1, hk2⟩ := hk
    have ho := hop o (by simp)
    cases o with
    | ins x w => exact absurd ho (by simp [Op.ok])
    | upd x w =>
      obtain ⟨hx, hw, hnn⟩ := ho
      obtain ⟨s1, hs1⟩ := update_exists s x w hw
      obtain ⟨hwd1, hmem1, hget1⟩ := update_any s s1 x w hs1
      have hinv1 : Inv s1 := inv_update s s1 x w h hnn hs1
      have hop1 : ∀ o ∈ os, o.ok s1 := by
        intro o' ho'
        have hne : x ≠ o'.key := hk1 o' ho'
        have := hop o' (by simp [ho'])
        cases o' with
        | ins _ _ => exact this
        | upd x' w' =>
          refine ⟨?_, by rw [hwd1]; exact this.2.1, this.2.2⟩
          rw [hmem1]; rintro (h1 | h1)
          · exact this.1 h1
          · exact hne h1.symm
        | rem x' => exact (hmem1 x').2 (Or.inl this)
      obtain ⟨s', hs', hinv', hwd', hmem', hgw', hgo'⟩ := ih s1 hinv1 hk2 hop1
      refine ⟨s', ?_, hinv', hwd'.trans hwd1, ?_, ?_, ?_⟩
      · simp only [applyOps, applyOp, hs1]; exact hs'
      · intro y
        rw [hmem', hmem1]
        constructor
        · rintro (⟨h1 | h1, h2⟩ | ⟨w', h1⟩)
          · exact Or.inl ⟨h1, by simp [h2]⟩
          · exact Or.inr ⟨w, by simp [h1]⟩
          · exact Or.inr ⟨w', by simp [h1]⟩
        · rintro (⟨h1, h2⟩ | ⟨w', h1⟩)
          · exact Or.inl ⟨Or.inl h1, fun hc => h2 (by simp [hc])⟩
          · rcases List.mem_cons.1 h1 with h1 | h1
            · injection h1 with h1 h1'
              by_cases hr : Op.rem y ∈ os
              · exact absurd h1.symm (hk1 _ hr)
              · exact Or.inl ⟨Or.inr h1, hr⟩
            · exact Or.inr ⟨w', h1⟩
      · intro y v hy
        rcases List.mem_cons.1 hy with hy | hy
        · injection hy with hy1 hy2
          subst hy1; subst hy2
          rw [hgo' y (fun o' ho' => (hk1 o' ho').symm)]
          have hwt : s.weighted = true := by simpa using hw.symm
          rw [update_getW_self s s1 y v hs1, getW_of_not_mem s h hwt y hx]; ring
        · exact hgw' y v hy
      · intro y hy
        rw [hgo' y (fun o' ho' => hy o' (by simp [ho'])), hget1 y]
        exact fun hc => hy (Op.upd x w) List.mem_cons_self hc.symm
    | rem x =>
      have hx : x ∈ s.items := ho
      obtain ⟨s1, hs1, hinv1, hwd1, hmem1, hget1⟩ := remove_any s x h hx
      have hop1 : ∀ o ∈ os, o.ok s1 := by
        intro o' ho'
        have hne : x ≠ o'.key := hk1 o' ho'
        have := hop o' (by simp [ho'])
        cases o' with
        | ins _ _ => exact this
        | upd x' w' =>
          refine ⟨?_, by rw [hwd1]; exact this.2.1, this.2.2⟩
          rw [hmem1]; exact fun h1 => this.1 h1.1
        | rem x' => exact (hmem1 x').2 ⟨this, fun hc => hne hc.symm⟩
      obtain ⟨s', hs', hinv', hwd', hmem', hgw', hgo'⟩ := ih s1 hinv1 hk2 hop1
      refine ⟨s', ?_, hinv', hwd'.trans hwd1, ?_, ?_, ?_⟩
      · simp only [applyOps, applyOp, hs1]; exact hs'
      · intro y
        rw [hmem', hmem1]
        constructor
        · rintro (⟨⟨h1, h2⟩, h3⟩ | ⟨w', h1⟩)
          · refine Or.inl ⟨h1, ?_⟩
            intro hc
            rcases List.mem_cons.1 hc with hc | hc
            · injection hc with hc; exact h2 hc
            · exact h3 hc
          · exact Or.inr ⟨w', by simp [h1]⟩
        · rintro (⟨h1, h2⟩ | ⟨w', h1⟩)
          · exact Or.inl ⟨⟨h1, fun hc => h2 (by simp [hc])⟩, fun hc => h2 (by simp [hc])⟩
          · rcases List.mem_cons.1 h1 with h1 | h1
            · cases h1
            · exact Or.inr ⟨w', h1⟩
      · intro y v hy
        rcases List.mem_cons.1 hy with hy | hy
        · cases hy
        · exact hgw' y v hy
      · intro y hy
        rw [hgo' y (fun o' ho' => hy o' (by simp [ho'])), hget1 y]
        exact fun hc => hy (Op.rem x) List.mem_cons_self hc.symm

/-- the batch specification with the "unchanged weight" clause stated for surviving candidates -/
theorem applyOps_spec' (ops : List (Op α)) (s : LD α) (h : Inv s)
    (hk : ops.Pairwise fun a b => a.key ≠ b.key) (hop : ∀ o ∈ ops, o.ok s) :
    ∃ s', s.applyOps ops = some s' ∧ Inv s' ∧ s'.weighted = s.weighted ∧
      (∀ y, y ∈ s'.items ↔ ((y ∈ s.items ∧ Op.rem y ∉ ops) ∨ ∃ w, Op.upd y w ∈ ops)) ∧
      (∀ y w, Op.upd y (some w) ∈ ops → s'.getW y = w) ∧
      (∀ y ∈ s'.items, (¬ ∃ w, Op.upd y w ∈ ops) → y ∈ s.items ∧ s'.getW y = s.getW y) := by
  obtain ⟨s', hs', hinv', hwd', hmem', hgw', hgo'⟩ := applyOps_spec ops s h hk hop
  refine ⟨s', hs', hinv', hwd', hmem', hgw', ?_⟩
  intro y hy hnu
  rcases (hmem' y).1 hy with ⟨h1, h2⟩ | h1
  · refine ⟨h1, hgo' y ?_⟩
    intro o ho hkey
    have hok := hop o ho
    cases o with
    | ins _ _ => exact hok
    | upd x w => exact hnu ⟨w, by rw [← show x = y from hkey]; exact ho⟩
    | rem x => exact h2 (by rw [← show x = y from hkey]; exact ho)
  · exact absurd h1 hnu

end LD

namespace Gillespie

/-- well-formed undirected simple contact network with non-negative symmetric weights -/
structure WF (P : GParams) : Prop where
  nodup : P.nodes.Nodup
  nbr_nodup : ∀ u ∈ P.nodes, (P.nbrs u).Nodup
  nbr_mem : ∀ u ∈ P.nodes, ∀ v ∈ P.nbrs u, v ∈ P.nodes
  nbr_out : ∀ u, u ∉ P.nodes → P.nbrs u = []
  symm : ∀ u v, v ∈ P.nbrs u → u ∈ P.nbrs v
  noloop : ∀ u, u ∉ P.nbrs u
  ew_nonneg : ∀ f, P.ew = some f → ∀ u v, 0 ≤ f u v
  ew_symm : ∀ f, P.ew = some f → ∀ u v, f u v = f v u
  nw_nonneg : ∀ f, P.nw = some f → ∀ u, 0 ≤ f u
  tau_nonneg : 0 ≤ P.tau
  gamma_nonneg : 0 ≤ P.gamma

/-- The bookkeeping invariant: the two candidate structures equal the sets implied by the statuses. -/
structure Inv (P : GParams) (s : GState) : Prop where
  infInv : LD.Inv s.inf
  linkInv : LD.Inv s.links
  infW : s.inf.weighted = P.nw.isSome
  linkW : s.links.weighted = P.ew.isSome
  inf_items : ∀ u, u ∈ s.inf.items ↔ (u ∈ P.nodes ∧ s.status u = St.I)
  link_items : ∀ u v, (u, v) ∈ s.links.items ↔ (u ∈ P.nodes ∧ s.status u = St.I ∧ v ∈ P.nbrs u ∧ s.status v = St.S)
  inf_w : ∀ f, P.nw = some f → ∀ u ∈ s.inf.items, s.inf.getW u = f u
  link_w : ∀ f, P.ew = some f → ∀ p ∈ s.links.items, s.links.getW p = f p.1 p.2
  sis_noR : P.sis = true → ∀ u, s.status u ≠ St.R

/-! ### the neighbour loops as batches of operations -/

abbrev LOp := LD.Op (Node × Node)

def initLinksOps (P : GParams) (status : Node → St) (node : Node) (l : List Node) : List LOp :=
  l.filterMap fun nbr => if status nbr = St.S then some (.upd (node, nbr) (edgeW P node nbr)) else none

def recSIROps (status : Node → St) (u : Node) (l : List Node) : List LOp :=
  l.filterMap fun nbr => if status nbr = St.S then some (.rem (u, nbr)) else none

def recSISOps (P : GParams) (status : Node → St) (u : Node) (l : List Node) : List LOp :=
  l.filterMap fun nbr =>
    if nbr = u then none
    else if status nbr = St.S then some (.rem (u, nbr))
    else some (.upd (nbr, u) (edgeW P u nbr))

def transOps (P : GParams) (status : Node → St) (v : Node) (l : List Node) : List LOp :=
  l.filterMap fun nbr =>
    if status nbr = St.S then some (.upd (v, nbr) (edgeW P v nbr))
    else if (P.sis ∨ status nbr = St.I) ∧ nbr ≠ v then some (.rem (nbr, v))
    else none

theorem initLinks_eq (P : GParams) (status : Node → St) (node : Node) (l : List Node)
    (links : LD (Node × Node)) :
    initLinks P status node links l = links.applyOps (initLinksOps P status node l) := by
  induction l generalizing links with
  | nil => rfl
  | cons nbr rest ih =>
    unfold initLinks initLinksOps
    by_cases h1 : status nbr = St.S
    · simp only [List.filterMap_cons, h1, if_true, LD.applyOps, LD.applyOp]
      cases links.update (node, nbr) (edgeW P node nbr) with
      | none => rfl
      | some l1 => exact ih l1
    · simp only [List.filterMap_cons, h1, if_false]
      exact ih links

theorem recLoopSIR_eq (status : Node → St) (u : Node) (l : List Node) (links : LD (Node × Node)) :
    recLoopSIR status u links l = links.applyOps (recSIROps status u l) := by
  induction l generalizing links with
  | nil => rfl
  | cons nbr rest ih =>
    unfold recLoopSIR recSIROps
    by_cases h1 : status nbr = St.S
    · simp only [List.filterMap_cons, h1, if_true, LD.applyOps, LD.applyOp]
      cases links.remove (u, nbr) with
      | none => rfl
      | some l1 => exact ih l1
    · simp only [List.filterMap_cons, h1, if_false]
      exact ih links

theorem recLoopSIS_eq (P : GParams) (status : Node → St) (u : Node) (l : List Node)
    (links : LD (Node × Node)) :
    recLoopSIS P status u links l = links.applyOps (recSISOps P status u l) := by
  induction l generalizing links with
  | nil => rfl
  | cons nbr rest ih =>
    unfold recLoopSIS recSISOps
    by_cases h0 : nbr = u
    · simp only [List.filterMap_cons, h0, if_true]
      exact ih links
    · by_cases h1 : status nbr = St.S
      · simp only [List.filterMap_cons, h0, h1, if_true, if_false, LD.applyOps, LD.applyOp]
        cases links.remove (u, nbr) with
        | none => rfl
        | some l1 => exact ih l1
      · simp only [List.filterMap_cons, h0, h1, if_false, LD.applyOps, LD.applyOp]
        cases links.update (nbr, u) (edgeW P u nbr) with
        | none => rfl
        | some l1 => exact ih l1

theorem transLoop_eq (P : GParams) (status : Node → St) (v : Node) (l : List Node)
    (links : LD (Node × Node)) :
    transLoop P status v links l = links.applyOps (transOps P status v l) := by
  induction l generalizing links with
  | nil => rfl
  | cons nbr rest ih =>
    unfold transLoop transOps
    by_cases h1 : status nbr = St.S
    · simp only [List.filterMap_cons, h1, if_true, LD.applyOps, LD.applyOp]
      cases links.update (v, nbr) (edgeW P v nbr) with
      | none => rfl
      | some l1 => exact ih l1
    · by_cases h2 : (P.sis ∨ status nbr = St.I) ∧ nbr ≠ v
      · simp only [List.filterMap_cons, h1, if_false]
        rw [if_pos h2, if_pos h2]
        simp only [LD.applyOps, LD.applyOp]
        cases links.remove (nbr, v) with
        | none => rfl
        | some l1 => exact ih l1
      · simp only [List.filterMap_cons, h1, if_false]
        rw [if_neg h2, if_neg h2]
        exact ih links

/-! membership in the batches -/

theorem mem_initLinksOps_upd (P : GParams) (st : Node → St) (node : Node) (l : List Node) (p : Node × Node)
    (w : Option Rat) :
    LD.Op.upd p w ∈ initLinksOps P st node l ↔
      (p.1 = node ∧ p.2 ∈ l ∧ st p.2 = St.S ∧ w = edgeW P node p.2) := by
  obtain ⟨a, b⟩ := p
  simp only [initLinksOps, List.mem_filterMap]
  constructor
  · rintro ⟨n, hn, hg⟩
    split at hg
    · cases hg; simp_all
    · cases hg
  · rintro ⟨rfl, h2, h3, rfl⟩
    exact ⟨b, h2, by simp [h3]⟩

theorem mem_initLinksOps_rem (P : GParams) (st : Node → St) (node : Node) (l : List Node) (p : Node × Node) :
    LD.Op.rem p ∉ initLinksOps P st node l := by
  simp only [initLinksOps, List.mem_filterMap]
  rintro ⟨n, hn, hg⟩
  split at hg <;> cases hg

theorem mem_recSIROps_upd (st : Node → St) (u : Node) (l : List Node) (p : Node × Node) (w : Option Rat) :
    LD.Op.upd p w ∉ recSIROps st u l := by
  simp only [recSIROps, List.mem_filterMap]
  rintro ⟨n, hn, hg⟩
  split at hg <;> cases hg

theorem mem_recSIROps_rem (st : Node → St) (u : Node) (l : List Node) (p : Node × Node) :
    LD.Op.rem p ∈ recSIROps st u l ↔ (p.1 = u ∧ p.2 ∈ l ∧ st p.2 = St.S) := by
  obtain ⟨a, b⟩ := p
  simp only [recSIROps, List.mem_filterMap]
  constructor
  · rintro ⟨n, hn, hg⟩
    split at hg
    · cases hg; simp_all
    · cases hg
  · rintro ⟨rfl, h2, h3⟩
    exact ⟨b, h2, by simp [h3]⟩

theorem mem_recSISOps_upd (P : GParams) (st : Node → St) (u : Node) (l : List Node) (p : Node × Node)
    (w : Option Rat) :
    LD.Op.upd p w ∈ recSISOps P st u l ↔
      (p.2 = u ∧ p.1 ∈ l ∧ p.1 ≠ u ∧ st p.1 ≠ St.S ∧ w = edgeW P u p.1) := by
  obtain ⟨a, b⟩ := p
  simp only [recSISOps, List.mem_filterMap]
  constructor
  · rintro ⟨n, hn, hg⟩
    split at hg
    · cases hg
    · split at hg
      · cases hg
      · cases hg; simp_all
  · rintro ⟨rfl, h2, h3, h4, rfl⟩
    exact ⟨a, h2, by simp [h3, h4]⟩

theorem mem_recSISOps_rem (P : GParams) (st : Node → St) (u : Node) (l : List Node) (p : Node × Node) :
    LD.Op.rem p ∈ recSISOps P st u l ↔ (p.1 = u ∧ p.2 ∈ l ∧ p.2 ≠ u ∧ st p.2 = St.S) := by
  obtain ⟨a, b⟩ := p
  simp only [recSISOps, List.mem_filterMap]
  constructor
  · rintro ⟨n, hn, hg⟩
    split at hg
    · cases hg
    · split at hg
      · cases hg; simp_all
      · cases hg
  · rintro ⟨rfl, h2, h3, h4⟩
    exact ⟨b, h2, by simp [h3, h4]⟩

theorem mem_transOps_upd (P : GParams) (st : Node → St) (v : Node) (l : List Node) (p : Node × Node)
    (w : Option Rat) :
    LD.Op.upd p w ∈ transOps P st v l ↔ (p.1 = v ∧ p.2 ∈ l ∧ st p.2 = St.S ∧ w = edgeW P v p.2) := by
  obtain ⟨a, b⟩ := p
  simp only [transOps, List.mem_filterMap]
  constructor
  · rintro ⟨n, hn, hg⟩
    split at hg
    · cases hg; simp_all
    · split at hg <;> cases hg
  · rintro ⟨rfl, h2, h3, rfl⟩
    exact ⟨b, h2, by simp [h3]⟩

theorem mem_transOps_rem (P : GParams) (st : Node → St) (v : Node) (l : List Node) (p : Node × Node) :
    LD.Op.rem p ∈ transOps P st v l ↔
      (p.2 = v ∧ p.1 ∈ l ∧ st p.1 ≠ St.S ∧ (P.sis = true ∨ st p.1 = St.I) ∧ p.1 ≠ v) := by
  obtain ⟨a, b⟩ := p
  simp only [transOps, List.mem_filterMap]
  constructor
  · rintro ⟨n, hn, hg⟩
    split at hg
    · cases hg
    · split at hg
      · cases hg; simp_all
      · cases hg
  · rintro ⟨rfl, h2, h3, h4, h5⟩
    exact ⟨a, h2, by simp [h3, h4, h5]⟩

/-! distinct keys -/

theorem initLinksOps_keys (P : GParams) (st : Node → St) (node : Node) (l : List Node) (hl : l.Nodup) :
    (initLinksOps P st node l).Pairwise fun a b => a.key ≠ b.key := by
  refine List.Pairwise.filterMap (R := (· ≠ ·)) _ ?_ hl
  intro a a' hne b hb b' hb'
  split at hb <;> split at hb' <;> cases hb <;> cases hb'
  simp [LD.Op.key, hne]

theorem recSIROps_keys (st : Node → St) (u : Node) (l : List Node) (hl : l.Nodup) :
    (recSIROps st u l).Pairwise fun a b => a.key ≠ b.key := by
  refine List.Pairwise.filterMap (R := (· ≠ ·)) _ ?_ hl
  intro a a' hne b hb b' hb'
  split at hb <;> split at hb' <;> cases hb <;> cases hb'
  simp [LD.Op.key, hne]

theorem recSISOps_keys (P : GParams) (st : Node → St) (u : Node) (l : List Node) (hl : l.Nodup) :
    (recSISOps P st u l).Pairwise fun a b => a.key ≠ b.key := by
  refine List.Pairwise.filterMap (R := (· ≠ ·)) _ ?_ hl
  intro a a' hne b hb b' hb'
  split at hb
  · cases hb
  · split at hb' 
    · cases hb'
    · split at hb <;> split at hb' <;> cases hb <;> cases hb' <;> simp_all [LD.Op.key]

theorem transOps_keys (P : GParams) (st : Node → St) (v : Node) (l : List Node) (hl : l.Nodup) :
    (transOps P st v l).Pairwise fun a b => a.key ≠ b.key := by
  refine List.Pairwise.filterMap (R := (· ≠ ·)) _ ?_ hl
  intro a a' hne b hb b' hb'
  split at hb
  · split at hb'
    · cases hb; cases hb'; simp [LD.Op.key, hne]
    · split at hb'
      · cases hb; cases hb'; simp_all [LD.Op.key]
      · cases hb'
  · split at hb
    · split at hb'
      · cases hb; cases hb'; simp_all [LD.Op.key]
      · split at hb'
        · cases hb; cases hb'; simp [LD.Op.key, hne]
        · cases hb'
    · cases hb

/-! weights handed to `update` -/

theorem edgeW_isSome (P : GParams) (a b : Node) : (edgeW P a b).isSome = P.ew.isSome := by
  unfold edgeW; cases P.ew <;> rfl

theorem nodeW_isSome (P : GParams) (a : Node) : (nodeW P a).isSome = P.nw.isSome := by
  unfold nodeW; cases P.nw <;> rfl

theorem edgeW_some (P : GParams) (f : Node → Node → Rat) (hf : P.ew = some f) (a b : Node) :
    edgeW P a b = some (f a b) := by
  unfold edgeW; rw [hf]; rfl

theorem nodeW_some (P : GParams) (f : Node → Rat) (hf : P.nw = some f) (a : Node) :
    nodeW P a = some (f a) := by
  unfold nodeW; rw [hf]; rfl

theorem edgeW_nonneg (P : GParams) (h : WF P) (a b : Node) (x : Rat) (hx : edgeW P a b = some x) : 0 ≤ x := by
  cases hf : P.ew with
  | none => simp [edgeW, hf] at hx
  | some f =>
    rw [edgeW_some P f hf] at hx
    obtain rfl := Option.some.inj hx
    exact h.ew_nonneg f hf a b

theorem nodeW_nonneg (P : GParams) (h : WF P) (a : Node) (x : Rat) (hx : nodeW P a = some x) : 0 ≤ x := by
  cases hf : P.nw with
  | none => simp [nodeW, hf] at hx
  | some f =>
    rw [nodeW_some P f hf] at hx
    obtain rfl := Option.some.inj hx
    exact h.nw_nonneg f hf a

theorem fset_self {α β : Type} [DecidableEq α] (f : α → β) (x : α) (v : β) : fset f x v x = v := by
  simp [fset]

theorem fset_ne {α β : Type} [DecidableEq α] (f : α → β) (x y : α) (v : β) (h : y ≠ x) :
    fset f x v y = f y := by
  simp [fset, h]

theorem St.eq_I_of (x : St) (h1 : x ≠ St.S) (h2 : x ≠ St.R) : x = St.I := by
  cases x <;> simp_all

/-- the links part of a transmission to `v` -/
theorem trans_links (P : GParams) (h : WF P) (s : GState) (hs : Inv P s) (u v : Node)
    (huv : (u, v) ∈ s.links.items) :
    ∃ links', transLoop P (fset s.status v St.I) v s.links (P.nbrs v) = some links' ∧ LD.Inv links' ∧
      links'.weighted = s.links.weighted ∧
      (∀ a b, (a, b) ∈ links'.items ↔
        (a ∈ P.nodes ∧ fset s.status v St.I a = St.I ∧ b ∈ P.nbrs a ∧ fset s.status v St.I b = St.S)) ∧
      (∀ f, P.ew = some f → ∀ p ∈ links'.items, links'.getW p = f p.1 p.2) := by
  obtain ⟨hu, hsu, hvu, hsv⟩ := (hs.link_items u v).1 huv
  have hvn : v ∈ P.nodes := h.nbr_mem u hu v hvu
  have hok : ∀ o ∈ transOps P (fset s.status v St.I) v (P.nbrs v), o.ok s.links := by
    intro o ho
    obtain ⟨n, hn, hg⟩ := List.mem_filterMap.1 ho
    split at hg
    · cases hg
      refine ⟨?_, ?_, edgeW_nonneg P h v n⟩
      · rw [hs.link_items]; rintro ⟨-, h2, -⟩; rw [hsv] at h2; cases h2
      · rw [edgeW_isSome, hs.linkW]
    · split at hg
      · cases hg
        rename_i h1 h2
        obtain ⟨h2, h3⟩ := h2
        rw [fset_ne _ _ _ _ h3] at h1 h2
        show (n, v) ∈ s.links.items
        rw [hs.link_items]
        refine ⟨h.nbr_mem v hvn n hn, ?_, h.symm v n hn, hsv⟩
        rcases h2 with h2 | h2
        · exact St.eq_I_of _ h1 (hs.sis_noR h2 n)
        · exact h2
      · cases hg
  obtain ⟨links', hl, hinv, hwd, hmem, hgw, hgo⟩ :=
    LD.applyOps_spec' _ s.links hs.linkInv (transOps_keys P (fset s.status v St.I) v (P.nbrs v)
      (h.nbr_nodup v hvn)) hok
  simp only [mem_transOps_upd, mem_transOps_rem] at hmem hgw hgo
  refine ⟨links', by rw [transLoop_eq]; exact hl, hinv, hwd, ?_, ?_⟩
  · intro a b
    rw [hmem (a, b), hs.link_items]
    have hsym := h.symm
    have hnoR := hs.sis_noR
    simp only [fset]
    grind
  · intro f hf p hp
    by_cases hup : ∃ w, p.1 = v ∧ p.2 ∈ P.nbrs v ∧ fset s.status v St.I p.2 = St.S ∧ w = edgeW P v p.2
    · obtain ⟨w, h1, h2, h3, h4⟩ := hup
      rw [hgw p (f v p.2) ⟨h1, h2, h3, (edgeW_some P f hf v p.2).symm⟩, h1]
    · obtain ⟨h1, h2⟩ := hgo p hp hup
      rw [h2]; exact hs.link_w f hf p h1

/-- the links part of an SIR recovery of `u` -/
theorem recSIR_links (P : GParams) (h : WF P) (s : GState) (hs : Inv P s) (u : Node)
    (hu : u ∈ s.inf.items) :
    ∃ links', recLoopSIR (fset s.status u St.R) u s.links (P.nbrs u) = some links' ∧ LD.Inv links' ∧
      links'.weighted = s.links.weighted ∧
      (∀ a b, (a, b) ∈ links'.items ↔
        (a ∈ P.nodes ∧ fset s.status u St.R a = St.I ∧ b ∈ P.nbrs a ∧ fset s.status u St.R b = St.S)) ∧
      (∀ f, P.ew = some f → ∀ p ∈ links'.items, links'.getW p = f p.1 p.2) := by
  obtain ⟨hun, hsu⟩ := (hs.inf_items u).1 hu
  have hok : ∀ o ∈ recSIROps (fset s.status u St.R) u (P.nbrs u), o.ok s.links := by
    intro o ho
    obtain ⟨n, hn, hg⟩ := List.mem_filterMap.1 ho
    split at hg
    · cases hg
      rename_i h1
      show (u, n) ∈ s.links.items
      rw [hs.link_items]
      refine ⟨hun, hsu, hn, ?_⟩
      have hne : n ≠ u := by
        rintro rfl; rw [fset_self] at h1; cases h1
      rwa [fset_ne _ _ _ _ hne] at h1
    · cases hg
  obtain ⟨links', hl, hinv, hwd, hmem, hgw, hgo⟩ :=
    LD.applyOps_spec' _ s.links hs.linkInv (recSIROps_keys (fset s.status u St.R) u (P.nbrs u)
      (h.nbr_nodup u hun)) hok
  simp only [mem_recSIROps_upd, mem_recSIROps_rem, exists_false, or_false, not_false_eq_true,
    forall_true_left] at hmem hgw hgo
  refine ⟨links', by rw [recLoopSIR_eq]; exact hl, hinv, hwd, ?_, ?_⟩
  · intro a b
    rw [hmem (a, b), hs.link_items]
    simp only [fset]
    grind
  · intro f hf p hp
    obtain ⟨h1, h2⟩ := hgo p hp
    rw [h2]; exact hs.link_w f hf p h1

/-- the links part of an SIS recovery of `u` -/
theorem recSIS_links (P : GParams) (h : WF P) (s : GState) (hs : Inv P s) (u : Node)
    (hu : u ∈ s.inf.items) (hsis : P.sis = true) :
    ∃ links', recLoopSIS P (fset s.status u St.S) u s.links (P.nbrs u) = some links' ∧ LD.Inv links' ∧
      links'.weighted = s.links.weighted ∧
      (∀ a b, (a, b) ∈ links'.items ↔
        (a ∈ P.nodes ∧ fset s.status u St.S a = St.I ∧ b ∈ P.nbrs a ∧ fset s.status u St.S b = St.S)) ∧
      (∀ f, P.ew = some f → ∀ p ∈ links'.items, links'.getW p = f p.1 p.2) := by
  obtain ⟨hun, hsu⟩ := (hs.inf_items u).1 hu
  have hok : ∀ o ∈ recSISOps P (fset s.status u St.S) u (P.nbrs u), o.ok s.links := by
    intro o ho
    obtain ⟨n, hn, hg⟩ := List.mem_filterMap.1 ho
    split at hg
    · cases hg
    · rename_i hne
      split at hg
      · cases hg
        rename_i h1
        show (u, n) ∈ s.links.items
        rw [hs.link_items]
        rw [fset_ne _ _ _ _ hne] at h1
        exact ⟨hun, hsu, hn, h1⟩
      · cases hg
        refine ⟨?_, ?_, edgeW_nonneg P h u n⟩
        · rw [hs.link_items]; rintro ⟨-, -, -, h2⟩; rw [hsu] at h2; cases h2
        · rw [edgeW_isSome, hs.linkW]
  obtain ⟨links', hl, hinv, hwd, hmem, hgw, hgo⟩ :=
    LD.applyOps_spec' _ s.links hs.linkInv (recSISOps_keys P (fset s.status u St.S) u (P.nbrs u)
      (h.nbr_nodup u hun)) hok
  simp only [mem_recSISOps_upd, mem_recSISOps_rem] at hmem hgw hgo
  refine ⟨links', by rw [recLoopSIS_eq]; exact hl, hinv, hwd, ?_, ?_⟩
  · intro a b
    rw [hmem (a, b), hs.link_items]
    have hsym := h.symm
    have hI : ∀ x, s.status x ≠ St.S → s.status x = St.I :=
      fun x hx => St.eq_I_of _ hx (hs.sis_noR hsis x)
    have hnl := h.noloop
    have hnm := h.nbr_mem u hun
    simp only [fset]
    grind
  · intro f hf p hp
    by_cases hup : ∃ w, p.2 = u ∧ p.1 ∈ P.nbrs u ∧ p.1 ≠ u ∧ fset s.status u St.S p.1 ≠ St.S ∧
        w = edgeW P u p.1
    · obtain ⟨w, h1, h2, h3, h4, h5⟩ := hup
      rw [hgw p (f u p.1) ⟨h1, h2, h3, h4, (edgeW_some P f hf u p.1).symm⟩, h1]
      exact h.ew_symm f hf u p.1
    · obtain ⟨h1, h2⟩ := hgo p hp hup
      rw [h2]; exact hs.link_w f hf p h1

/-! ### event applications preserve the invariant -/

theorem applyRec_inv' (P : GParams) (h : WF P) (s : GState) (hs : Inv P s) (u : Node) (t : Rat)
    (hu : u ∈ s.inf.items) :
    ∃ s', applyRec P s u t = some s' ∧ Inv P s' ∧ s'.status = Chain.apply P s.status (.recover u) := by
  obtain ⟨hun, hsu⟩ := (hs.inf_items u).1 hu
  obtain ⟨inf', hinf', hinvI, hwdI, hmemI, hgetI⟩ := LD.remove_any s.inf u hs.infInv hu
  have key : ∀ (x : St) (links' : LD (Node × Node)), x ≠ St.I → (P.sis = true → x = St.S) →
      LD.Inv links' → links'.weighted = s.links.weighted →
      (∀ a b, (a, b) ∈ links'.items ↔
        (a ∈ P.nodes ∧ fset s.status u x a = St.I ∧ b ∈ P.nbrs a ∧ fset s.status u x b = St.S)) →
      (∀ f, P.ew = some f → ∀ p ∈ links'.items, links'.getW p = f p.1 p.2) →
      ∀ (tm : List Rat) (S I R : List Int) (lg : List (Rat × GEvent)),
      Inv P { status := fset s.status u x, inf := inf', links := links', times := tm, S := S, I := I,
              R := R, log := lg } := by
    intro x links' hxI hxS hinvL hwdL hmemL hgetL tm S I R lg
    refine ⟨hinvI, hinvL, hwdI.trans hs.infW, hwdL.trans hs.linkW, ?_, hmemL, ?_, hgetL, ?_⟩
    · intro a
      show a ∈ inf'.items ↔ (a ∈ P.nodes ∧ fset s.status u x a = St.I)
      rw [hmemI, hs.inf_items]
      by_cases ha : a = u
      · subst ha; rw [fset_self]; simp [hxI]
      · rw [fset_ne _ _ _ _ ha]; simp [ha]
    · intro f hf a ha
      have ha' := (hmemI a).1 ha
      show inf'.getW a = f a
      rw [hgetI a ha'.2]; exact hs.inf_w f hf a ha'.1
    · intro hsis a
      show fset s.status u x a ≠ St.R
      by_cases ha : a = u
      · subst ha; rw [fset_self, hxS hsis]; simp
      · rw [fset_ne _ _ _ _ ha]; exact hs.sis_noR hsis a
  cases hsis : P.sis with
  | true =>
    obtain ⟨links', hl, hinvL, hwdL, hmemL, hgetL⟩ := recSIS_links P h s hs u hu hsis
    have e : applyRec P s u t = some
        { status := fset s.status u St.S, inf := inf', links := links',
          times := t :: s.times, S := (hd s.S + 1) :: s.S, I := (hd s.I - 1) :: s.I, R := s.R,
          log := (t, GEvent.recover u) :: s.log } := by
      simp only [applyRec, hinf', hsis, if_true, hl]; rfl
    exact ⟨_, e, key St.S links' (by simp) (fun _ => rfl) hinvL hwdL hmemL hgetL _ _ _ _ _,
      by simp [Chain.apply, hsis]⟩
  | false =>
    obtain ⟨links', hl, hinvL, hwdL, hmemL, hgetL⟩ := recSIR_links P h s hs u hu
    have e : applyRec P s u t = some
        { status := fset s.status u St.R, inf := inf', links := links',
          times := t :: s.times, S := hd s.S :: s.S, I := (hd s.I - 1) :: s.I, R := (hd s.R + 1) :: s.R,
          log := (t, GEvent.recover u) :: s.log } := by
      simp only [applyRec, hinf', hsis, Bool.false_eq_true, if_false, hl]; rfl
    exact ⟨_, e, key St.R links' (by simp) (fun hc => by rw [hsis] at hc; cases hc) hinvL hwdL hmemL hgetL _ _ _ _ _,
      by simp [Chain.apply, hsis]⟩

theorem applyTrans_inv' (P : GParams) (h : WF P) (s : GState) (hs : Inv P s) (u v : Node) (t : Rat)
    (huv : (u, v) ∈ s.links.items) :
    ∃ s', applyTrans P s u v t = some s' ∧ Inv P s' ∧
      s'.status = Chain.apply P s.status (.transmit u v) := by
  obtain ⟨hu, hsu, hvu, hsv⟩ := (hs.link_items u v).1 huv
  have hvn : v ∈ P.nodes := h.nbr_mem u hu v hvu
  have hvinf : v ∉ s.inf.items := by
    rw [hs.inf_items]; rintro ⟨-, h2⟩; rw [hsv] at h2; cases h2
  obtain ⟨inf', hinf'⟩ := LD.update_exists s.inf v (nodeW P v) (by rw [nodeW_isSome, hs.infW])
  obtain ⟨hwdI, hmemI, hgetI⟩ := LD.update_any s.inf inf' v (nodeW P v) hinf'
  have hinvI : LD.Inv inf' := LD.inv_update s.inf inf' v (nodeW P v) hs.infInv (nodeW_nonneg P h v) hinf'
  obtain ⟨links', hl, hinvL, hwdL, hmemL, hgetL⟩ := trans_links P h s hs u v huv
  have e : applyTrans P s u v t = some
      { status := fset s.status v St.I, inf := inf', links := links',
        times := t :: s.times, S := (hd s.S - 1) :: s.S, I := (hd s.I + 1) :: s.I,
        R := (if P.sis then s.R else hd s.R :: s.R), log := (t, GEvent.transmit u v) :: s.log } := by
    simp only [applyTrans, hinf', hl]; rfl
  refine ⟨_, e, ?_, ?_⟩
  · refine ⟨hinvI, hinvL, hwdI.trans hs.infW, hwdL.trans hs.linkW, ?_, hmemL, ?_, hgetL, ?_⟩
    · intro a
      show a ∈ inf'.items ↔ (a ∈ P.nodes ∧ fset s.status v St.I a = St.I)
      rw [hmemI, hs.inf_items]
      by_cases ha : a = v
      · subst ha; rw [fset_self]; simp [hvn]
      · rw [fset_ne _ _ _ _ ha]; simp [ha]
    · intro f hf a ha
      show inf'.getW a = f a
      by_cases hav : a = v
      · subst hav
        rw [nodeW_some P f hf] at hinf'
        rw [LD.update_getW_self s.inf inf' a (f a) hinf',
          LD.getW_of_not_mem s.inf hs.infInv (by rw [hs.infW, hf]; rfl) a hvinf]
        ring
      · rw [hgetI a hav]
        rcases (hmemI a).1 ha with h1 | h1
        · exact hs.inf_w f hf a h1
        · exact absurd h1 hav
    · intro hsis a
      show fset s.status v St.I a ≠ St.R
      by_cases ha : a = v
      · subst ha; rw [fset_self]; simp
      · rw [fset_ne _ _ _ _ ha]; exact hs.sis_noR hsis a
  · simp [Chain.apply]

/-! ### the initial state -/

theorem initLinks_spec (P : GParams) (h : WF P) (status : Node → St) (node : Node) (hn : node ∈ P.nodes)
    (links : LD (Node × Node)) (hinv : LD.Inv links) (hw : links.weighted = P.ew.isSome)
    (hfresh : ∀ b, (node, b) ∉ links.items) :
    ∃ links', initLinks P status node links (P.nbrs node) = some links' ∧ LD.Inv links' ∧
      links'.weighted = links.weighted ∧
      (∀ p, p ∈ links'.items ↔ (p ∈ links.items ∨ (p.1 = node ∧ p.2 ∈ P.nbrs node ∧ status p.2 = St.S))) ∧
      (∀ f, P.ew = some f → ∀ p, p.1 = node → p.2 ∈ P.nbrs node → status p.2 = St.S →
        links'.getW p = f node p.2) ∧
      (∀ p, p.1 ≠ node → links'.getW p = links.getW p) := by
  have hok : ∀ o ∈ initLinksOps P status node (P.nbrs node), o.ok links := by
    intro o ho
    obtain ⟨n, hn, hg⟩ := List.mem_filterMap.1 ho
    split at hg
    · cases hg
      exact ⟨hfresh n, by rw [edgeW_isSome, hw], edgeW_nonneg P h node n⟩
    · cases hg
  obtain ⟨links', hl, hinv', hwd, hmem, hgw, hgo⟩ :=
    LD.applyOps_spec _ links hinv (initLinksOps_keys P status node (P.nbrs node) (h.nbr_nodup node hn)) hok
  simp only [mem_initLinksOps_upd, mem_initLinksOps_rem, not_false_eq_true, and_true] at hmem hgw
  refine ⟨links', by rw [initLinks_eq]; exact hl, hinv', hwd, ?_, ?_, ?_⟩
  · intro p
    rw [hmem p]
    constructor
    · rintro (h1 | ⟨w, h1, h2, h3, -⟩)
      · exact Or.inl h1
      · exact Or.inr ⟨h1, h2, h3⟩
    · rintro (h1 | ⟨h1, h2, h3⟩)
      · exact Or.inl h1
      · exact Or.inr ⟨_, h1, h2, h3, rfl⟩
  · intro f hf p h1 h2 h3
    exact hgw p (f node p.2) ⟨h1, h2, h3, (edgeW_some P f hf node p.2).symm⟩
  · intro p hp
    apply hgo p
    intro o ho
    obtain ⟨n, hn, hg⟩ := List.mem_filterMap.1 ho
    split at hg
    · cases hg
      intro hc
      exact hp (by rw [← hc]; rfl)
    · cases hg

theorem initLoop_spec (P : GParams) (h : WF P) (status : Node → St) (l : List Node) (hl : l.Nodup)
    (hln : ∀ n ∈ l, n ∈ P.nodes) (inf : LD Node) (links : LD (Node × Node))
    (hinvI : LD.Inv inf) (hinvL : LD.Inv links)
    (hwI : inf.weighted = P.nw.isSome) (hwL : links.weighted = P.ew.isSome)
    (hfI : ∀ n ∈ l, n ∉ inf.items) (hfL : ∀ n ∈ l, ∀ b, (n, b) ∉ links.items) :
    ∃ inf' links', initLoop P status l inf links = some (inf', links') ∧ LD.Inv inf' ∧ LD.Inv links' ∧
      inf'.weighted = P.nw.isSome ∧ links'.weighted = P.ew.isSome ∧
      (∀ a, a ∈ inf'.items ↔ (a ∈ inf.items ∨ a ∈ l)) ∧
      (∀ p, p ∈ links'.items ↔ (p ∈ links.items ∨ (p.1 ∈ l ∧ p.2 ∈ P.nbrs p.1 ∧ status p.2 = St.S))) ∧
      (∀ f, P.nw = some f → ∀ a ∈ l, inf'.getW a = f a) ∧
      (∀ a, a ∉ l → inf'.getW a = inf.getW a) ∧
      (∀ f, P.ew = some f → ∀ p, p.1 ∈ l → p.2 ∈ P.nbrs p.1 → status p.2 = St.S →
        links'.getW p = f p.1 p.2) ∧
      (∀ p, p.1 ∉ l → links'.getW p = links.getW p) := by
  induction l generalizing inf links with
  | nil =>
    exact ⟨inf, links, rfl, hinvI, hinvL, hwI, hwL, by simp, by simp, by simp, fun _ _ => rfl, by simp,
      fun _ _ => rfl⟩
  | cons node rest ih =>
    rw [List.nodup_cons] at hl
    obtain ⟨hnr, hrest⟩ := hl
    have hnode : node ∈ P.nodes := hln node (by simp)
    obtain ⟨inf1, hinf1⟩ := LD.update_exists inf node (nodeW P node) (by rw [nodeW_isSome, hwI])
    obtain ⟨hwd1, hmem1, hget1⟩ := LD.update_any inf inf1 node (nodeW P node) hinf1
    have hinv1 : LD.Inv inf1 := LD.inv_update inf inf1 node (nodeW P node) hinvI (nodeW_nonneg P h node) hinf1
    obtain ⟨links1, hl1, hinvL1, hwdL1, hmemL1, hgwL1, hgoL1⟩ :=
      initLinks_spec P h status node hnode links hinvL hwL (hfL node (by simp))
    obtain ⟨inf', links', hloop, hI', hL', hwI', hwL', hmemI', hmemL', hgI', hgoI', hgL', hgoL'⟩ :=
      ih hrest (fun n hn => hln n (by simp [hn])) inf1 links1 hinv1 hinvL1 (hwd1.trans hwI)
        (hwdL1.trans hwL)
        (by
          intro n hn
          rw [hmem1]; rintro (h1 | h1)
          · exact hfI n (by simp [hn]) h1
          · exact hnr (h1 ▸ hn))
        (by
          intro n hn b
          rw [hmemL1]; rintro (h1 | ⟨h1, -⟩)
          · exact hfL n (by simp [hn]) b h1
          · exact hnr (h1 ▸ hn))
    refine ⟨inf', links', ?_, hI', hL', hwI', hwL', ?_, ?_, ?_, ?_, ?_, ?_⟩
    · simp only [initLoop, hinf1, hl1]; exact hloop
    · intro a
      rw [hmemI', hmem1, List.mem_cons]
      constructor
      · rintro ((h1 | h1) | h1)
        · exact Or.inl h1
        · exact Or.inr (Or.inl h1)
        · exact Or.inr (Or.inr h1)
      · rintro (h1 | h1 | h1)
        · exact Or.inl (Or.inl h1)
        · exact Or.inl (Or.inr h1)
        · exact Or.inr h1
    · intro p
      rw [hmemL', hmemL1, List.mem_cons]
      constructor
      · rintro ((h1 | ⟨h1, h2, h3⟩) | ⟨h1, h2, h3⟩)
        · exact Or.inl h1
        · exact Or.inr ⟨Or.inl h1, h1 ▸ h2, h3⟩
        · exact Or.inr ⟨Or.inr h1, h2, h3⟩
      · rintro (h1 | ⟨h1 | h1, h2, h3⟩)
        · exact Or.inl (Or.inl h1)
        · exact Or.inl (Or.inr ⟨h1, h1 ▸ h2, h3⟩)
        · exact Or.inr ⟨h1, h2, h3⟩
    · intro f hf a ha
      rcases List.mem_cons.1 ha with h1 | h1
      · subst h1
        rw [hgoI' a hnr]
        rw [nodeW_some P f hf] at hinf1
        rw [LD.update_getW_self inf inf1 a (f a) hinf1,
          LD.getW_of_not_mem inf hinvI (by rw [hwI, hf]; rfl) a (hfI a (by simp))]
        ring
      · exact hgI' f hf a h1
    · intro a ha
      rw [List.mem_cons, not_or] at ha
      rw [hgoI' a ha.2, hget1 a ha.1]
    · intro f hf p h1 h2 h3
      rcases List.mem_cons.1 h1 with h1 | h1
      · have hpr : p.1 ∉ rest := h1 ▸ hnr
        rw [hgoL' p hpr, hgwL1 f hf p h1 (h1 ▸ h2) h3, h1]
      · exact hgL' f hf p h1 h2 h3
    · intro p hp
      rw [List.mem_cons, not_or] at hp
      rw [hgoL' p hp.2, hgoL1 p hp.1]

theorem init_inv' (P : GParams) (h : WF P) (infs recs : List Node) (tmin : Rat)
    (hi : infs.Nodup) (him : ∀ u ∈ infs, u ∈ P.nodes) (hd : ∀ u ∈ infs, u ∉ recs)
    (hsis : P.sis = true → recs = []) :
    ∃ s, init P infs recs tmin = some s ∧ Inv P s ∧ s.status = initStatus infs recs := by
  obtain ⟨inf', links', hloop, hI', hL', hwI', hwL', hmemI', hmemL', hgI', -, hgL', -⟩ :=
    initLoop_spec P h (initStatus infs recs) infs hi him (LD.empty P.nw.isSome) (LD.empty P.ew.isSome)
      (LD.inv_empty _) (LD.inv_empty _) rfl rfl (by simp [LD.empty]) (by simp [LD.empty])
  have hstI : ∀ a, initStatus infs recs a = St.I ↔ a ∈ infs := by
    intro a
    unfold initStatus
    by_cases h1 : a ∈ recs
    · simp only [h1, if_true]
      constructor
      · intro hc; cases hc
      · intro hc; exact absurd h1 (hd a hc)
    · by_cases h2 : a ∈ infs <;> simp [h1, h2]
  have e : init P infs recs tmin = some
      { status := initStatus infs recs, inf := inf', links := links', times := [tmin],
        S := [(P.nodes.length : Int) - (infs.length : Int) - (recs.length : Int)],
        I := [(infs.length : Int)], R := [(recs.length : Int)], log := [] } := by
    simp only [init, hloop]
  refine ⟨_, e, ?_, rfl⟩
  refine ⟨hI', hL', hwI', hwL', ?_, ?_, ?_, ?_, ?_⟩
  · intro a
    show a ∈ inf'.items ↔ (a ∈ P.nodes ∧ initStatus infs recs a = St.I)
    rw [hmemI', hstI]
    simp only [LD.empty, List.not_mem_nil, false_or]
    exact ⟨fun ha => ⟨him a ha, ha⟩, fun ha => ha.2⟩
  · intro a b
    show (a, b) ∈ links'.items ↔
      (a ∈ P.nodes ∧ initStatus infs recs a = St.I ∧ b ∈ P.nbrs a ∧ initStatus infs recs b = St.S)
    rw [hmemL', hstI]
    simp only [LD.empty, List.not_mem_nil, false_or]
    exact ⟨fun ⟨h1, h2, h3⟩ => ⟨him a h1, h1, h2, h3⟩, fun ⟨_, h1, h2, h3⟩ => ⟨h1, h2, h3⟩⟩
  · intro f hf a ha
    show inf'.getW a = f a
    have ha' : a ∈ infs := by
      have := (hmemI' a).1 ha
      simpa [LD.empty] using this
    exact hgI' f hf a ha'
  · intro f hf p hp
    show links'.getW p = f p.1 p.2
    have hp' := (hmemL' p).1 hp
    simp only [LD.empty, List.not_mem_nil, false_or] at hp'
    exact hgL' f hf p hp'.1 hp'.2.1 hp'.2.2
  · intro hs a
    show initStatus infs recs a ≠ St.R
    unfold initStatus
    rw [hsis hs]
    by_cases h2 : a ∈ infs <;> simp [h2]

end Gillespie

/-! ### inversion lemmas for the tape monad -/
namespace TM

theorem bind_ok {α β : Type} (m : TM α) (k : α → TM β) (ts ts' : TapeSt) (b : β)
    (h : (m >>= k) ts = .ok (b, ts')) : ∃ a ts1, m ts = .ok (a, ts1) ∧ k a ts1 = .ok (b, ts') := by
  simp only [bind, StateT.bind] at h
  cases hm : m ts with
  | error e => rw [hm] at h; cases h
  | ok p =>
    obtain ⟨a, ts1⟩ := p
    rw [hm] at h
    exact ⟨a, ts1, rfl, h⟩

theorem bind_err {α β : Type} (m : TM α) (k : α → TM β) (ts : TapeSt) (e : String)
    (h : (m >>= k) ts = .error e) :
    m ts = .error e ∨ ∃ a ts1, m ts = .ok (a, ts1) ∧ k a ts1 = .error e := by
  simp only [bind, StateT.bind] at h
  cases hm : m ts with
  | error e' => rw [hm] at h; exact Or.inl (by simpa [Except.bind] using h)
  | ok p =>
    obtain ⟨a, ts1⟩ := p
    rw [hm] at h
    exact Or.inr ⟨a, ts1, rfl, h⟩

theorem pure_ok {α : Type} (a b : α) (ts ts' : TapeSt) (h : (pure a : TM α) ts = .ok (b, ts')) :
    b = a ∧ ts' = ts := by
  simp only [pure, StateT.pure] at h
  cases h; exact ⟨rfl, rfl⟩

theorem pure_ne_err {α : Type} (a : α) (ts : TapeSt) (e : String) : (pure a : TM α) ts ≠ .error e := by
  simp [pure, StateT.pure, Except.pure]

theorem fail_ne_ok {α : Type} (msg : String) (ts : TapeSt) (r : α × TapeSt) :
    (TM.fail msg : TM α) ts ≠ .ok r := by
  simp [TM.fail]

theorem popUnif_err (ts : TapeSt) (e : String) (h : popUnif ts = .error e) : e ≠ "KeyError" := by
  unfold popUnif at h
  split at h <;> cases h <;> decide

theorem popExpo_err (rate : Rat) (ts : TapeSt) (e : String) (h : popExpo rate ts = .error e) :
    e ≠ "KeyError" := by
  unfold popExpo at h
  split at h
  · cases h; decide
  · split at h <;> cases h <;> decide

theorem popChoice_err (seq : List (List Nat)) (ts : TapeSt) (e : String) (h : popChoice seq ts = .error e) :
    e ≠ "KeyError" := by
  unfold popChoice at h
  split at h
  · cases h; decide
  · split at h
    · split at h <;> cases h; decide
    · cases h; decide
    · cases h; decide

end TM

namespace Gillespie

theorem chooseTM_mem {α : Type} [DecidableEq α] (enc : α → List Nat) (ld : LD α) (fuel : Nat)
    (ts ts' : TapeSt) (c : α) (hc : chooseTM enc ld fuel ts = .ok (c, ts')) : c ∈ ld.items := by
  induction fuel generalizing ts with
  | zero => exact absurd hc (TM.fail_ne_ok _ _ _)
  | succ fuel ih =>
    rw [chooseTM] at hc
    obtain ⟨i, ts1, -, h2⟩ := TM.bind_ok _ _ _ _ _ hc
    cases hi : ld.items[i]? with
    | none => rw [hi] at h2; exact absurd h2 (TM.fail_ne_ok _ _ _)
    | some c' =>
      rw [hi] at h2
      have hmem : c' ∈ ld.items := List.mem_of_getElem? hi
      dsimp only at h2
      split at h2
      · obtain ⟨rfl, -⟩ := TM.pure_ok _ _ _ _ h2; exact hmem
      · split at h2
        · exact absurd h2 (TM.fail_ne_ok _ _ _)
        · obtain ⟨r, ts2, -, h4⟩ := TM.bind_ok _ _ _ _ _ h2
          split at h4
          · obtain ⟨rfl, -⟩ := TM.pure_ok _ _ _ _ h4; exact hmem
          · exact ih ts2 h4

theorem chooseTM_err {α : Type} [DecidableEq α] (enc : α → List Nat) (ld : LD α) (fuel : Nat)
    (ts : TapeSt) (e : String) (hc : chooseTM enc ld fuel ts = .error e) : e ≠ "KeyError" := by
  induction fuel generalizing ts with
  | zero => simp only [chooseTM, TM.fail] at hc; cases hc; decide
  | succ fuel ih =>
    rw [chooseTM] at hc
    rcases TM.bind_err _ _ _ _ hc with h1 | ⟨i, ts1, -, h2⟩
    · exact TM.popChoice_err _ _ _ h1
    · cases hi : ld.items[i]? with
      | none => rw [hi] at h2; simp only [TM.fail] at h2; cases h2; decide
      | some c' =>
        rw [hi] at h2
        dsimp only at h2
        split at h2
        · exact absurd h2 (TM.pure_ne_err _ _ _)
        · split at h2
          · simp only [TM.fail] at h2; cases h2; decide
          · rcases TM.bind_err _ _ _ _ h2 with h3 | ⟨r, ts2, -, h4⟩
            · exact TM.popUnif_err _ _ h3
            · split at h4
              · exact absurd h4 (TM.pure_ne_err _ _ _)
              · exact ih ts2 h4

/-- the event is enabled in `s`: its candidate is in the corresponding `_ListDict_` -/
def Enabled (s : GState) : GEvent → Prop
  | .recover u => u ∈ s.inf.items
  | .transmit u v => (u, v) ∈ s.links.items

theorem pick_enabled' (P : GParams) (s : GState) (fuel : Nat) (ts ts' : TapeSt) (e : GEvent)
    (hp : pick P s fuel ts = .ok (e, ts')) : Enabled s e := by
  unfold pick at hp
  obtain ⟨r, ts1, -, h2⟩ := TM.bind_ok _ _ _ _ _ hp
  split at h2
  · obtain ⟨u, ts2, h3, h4⟩ := TM.bind_ok _ _ _ _ _ h2
    obtain ⟨rfl, -⟩ := TM.pure_ok _ _ _ _ h4
    exact chooseTM_mem _ _ _ _ _ _ h3
  · obtain ⟨⟨u, v⟩, ts2, h3, h4⟩ := TM.bind_ok _ _ _ _ _ h2
    obtain ⟨rfl, -⟩ := TM.pure_ok _ _ _ _ h4
    exact chooseTM_mem _ _ _ _ _ _ h3

theorem pick_err (P : GParams) (s : GState) (fuel : Nat) (ts : TapeSt) (e : String)
    (hp : pick P s fuel ts = .error e) : e ≠ "KeyError" := by
  unfold pick at hp
  rcases TM.bind_err _ _ _ _ hp with h1 | ⟨r, ts1, -, h2⟩
  · exact TM.popUnif_err _ _ h1
  · split at h2
    · rcases TM.bind_err _ _ _ _ h2 with h3 | ⟨u, ts2, -, h4⟩
      · exact chooseTM_err _ _ _ _ _ h3
      · exact absurd h4 (TM.pure_ne_err _ _ _)
    · rcases TM.bind_err _ _ _ _ h2 with h3 | ⟨⟨u, v⟩, ts2, -, h4⟩
      · exact chooseTM_err _ _ _ _ _ h3
      · exact absurd h4 (TM.pure_ne_err _ _ _)

/-- an enabled event can be applied: no KeyError, invariant preserved -/
theorem applyEvent_inv (P : GParams) (h : WF P) (s : GState) (hs : Inv P s) (e : GEvent) (t : Rat)
    (he : Enabled s e) :
    ∃ s', applyEvent P s e t = some s' ∧ Inv P s' := by
  cases e with
  | recover u =>
    obtain ⟨s', h1, h2, -⟩ := applyRec_inv' P h s hs u t he
    exact ⟨s', h1, h2⟩
  | transmit u v =>
    obtain ⟨s', h1, h2, -⟩ := applyTrans_inv' P h s hs u v t he
    exact ⟨s', h1, h2⟩

theorem loop_inv' (P : GParams) (h : WF P) (tmax : ERat) (cfuel fuel : Nat) (s s' : GState) (t : ERat)
    (ts ts' : TapeSt) (hs : Inv P s) (hl : loop P tmax cfuel fuel s t ts = .ok (s', ts')) : Inv P s' := by
  induction fuel generalizing s t ts with
  | zero => rw [loop] at hl; exact absurd hl (TM.fail_ne_ok _ _ _)
  | succ fuel ih =>
    cases t with
    | none =>
      rw [loop] at hl
      obtain ⟨rfl, -⟩ := TM.pure_ok _ _ _ _ hl; exact hs
    | some tv =>
      rw [loop] at hl
      split at hl
      · obtain ⟨rfl, -⟩ := TM.pure_ok _ _ _ _ hl; exact hs
      · obtain ⟨e, ts1, h1, h2⟩ := TM.bind_ok _ _ _ _ _ hl
        obtain ⟨s1, hs1, hinv1⟩ := applyEvent_inv P h s hs e tv (pick_enabled' P s cfuel ts ts1 e h1)
        rw [hs1] at h2
        dsimp only at h2
        split at h2
        · obtain ⟨d, ts2, -, h4⟩ := TM.bind_ok _ _ _ _ _ h2
          exact ih s1 _ ts2 hinv1 h4
        · exact ih s1 _ ts1 hinv1 h2

theorem loop_no_keyerror' (P : GParams) (h : WF P) (tmax : ERat) (cfuel fuel : Nat) (s : GState) (t : ERat)
    (ts : TapeSt) (hs : Inv P s) : loop P tmax cfuel fuel s t ts ≠ .error "KeyError" := by
  induction fuel generalizing s t ts with
  | zero =>
    rw [loop]; simp only [TM.fail]; intro hc
    injection hc with hc
    exact absurd hc (by decide)
  | succ fuel ih =>
    intro hl
    cases t with
    | none => rw [loop] at hl; exact absurd hl (TM.pure_ne_err _ _ _)
    | some tv =>
      rw [loop] at hl
      split at hl
      · exact absurd hl (TM.pure_ne_err _ _ _)
      · rcases TM.bind_err _ _ _ _ hl with h1 | ⟨e, ts1, h1, h2⟩
        · exact pick_err P s cfuel ts _ h1 rfl
        · obtain ⟨s1, hs1, hinv1⟩ := applyEvent_inv P h s hs e tv (pick_enabled' P s cfuel ts ts1 e h1)
          rw [hs1] at h2
          dsimp only at h2
          split at h2
          · rcases TM.bind_err _ _ _ _ h2 with h3 | ⟨d, ts2, -, h4⟩
            · exact TM.popExpo_err _ _ _ h3 rfl
            · exact ih s1 _ ts2 hinv1 h4
          · exact ih s1 _ ts1 hinv1 h2

theorem run_inv' (P : GParams) (h : WF P) (infs recs : List Node) (tmin : Rat) (tmax : ERat)
    (fuel cfuel : Nat) (hi : infs.Nodup) (him : ∀ u ∈ infs, u ∈ P.nodes)
    (hd : ∀ u ∈ infs, u ∉ recs) (hsis : P.sis = true → recs = []) (ts ts' : TapeSt) (s' : GState)
    (hrun : run P infs recs tmin tmax fuel cfuel ts = .ok (s', ts')) : Inv P s' := by
  obtain ⟨s0, h0, hinv0, -⟩ := init_inv' P h infs recs tmin hi him hd hsis
  unfold run at hrun
  rw [h0] at hrun
  dsimp only at hrun
  split at hrun
  · obtain ⟨d, ts1, -, h2⟩ := TM.bind_ok _ _ _ _ _ hrun
    exact loop_inv' P h tmax cfuel fuel s0 s' _ ts1 ts' hinv0 h2
  · exact loop_inv' P h tmax cfuel fuel s0 s' _ ts ts' hinv0 hrun

/-! ### enabled sets and the clock -/

theorem enabled_iff' (P : GParams) (s : GState) (hs : Inv P s) :
    (∀ u, u ∈ Chain.enabledRec P s.status ↔ u ∈ s.inf.items) ∧
    (∀ p, p ∈ Chain.enabledTrans P s.status ↔ p ∈ s.links.items) := by
  constructor
  · intro u
    rw [hs.inf_items]
    simp [Chain.enabledRec, List.mem_filter]
  · rintro ⟨a, b⟩
    rw [hs.link_items]
    simp only [Chain.enabledTrans, List.mem_flatMap]
    constructor
    · rintro ⟨x, hx, hp⟩
      split at hp
      · rename_i hxI
        simp only [List.mem_map, List.mem_filter, decide_eq_true_eq] at hp
        obtain ⟨y, ⟨hy1, hy2⟩, hxy⟩ := hp
        cases hxy
        exact ⟨hx, hxI, hy1, hy2⟩
      · simp at hp
    · rintro ⟨h1, h2, h3, h4⟩
      refine ⟨a, h1, ?_⟩
      rw [if_pos h2]
      simp only [List.mem_map, List.mem_filter, decide_eq_true_eq]
      exact ⟨b, ⟨h3, h4⟩, rfl⟩

theorem enabledRec_nodup (P : GParams) (h : WF P) (st : Node → St) : (Chain.enabledRec P st).Nodup :=
  h.nodup.filter _

theorem enabledTrans_nodup (P : GParams) (h : WF P) (st : Node → St) : (Chain.enabledTrans P st).Nodup := by
  unfold Chain.enabledTrans
  rw [List.nodup_flatMap]
  constructor
  · intro x hx
    split
    · refine List.Nodup.map ?_ ((h.nbr_nodup x hx).filter _)
      intro a b hab
      exact (Prod.mk.inj hab).2
    · exact List.nodup_nil
  · refine h.nodup.pairwise_of_forall_ne ?_
    intro a _ b _ hab
    have key : ∀ (x : Node) (p : Node × Node),
        p ∈ (if st x = St.I then ((P.nbrs x).filter fun v => st v = St.S).map fun v => (x, v) else []) →
        p.1 = x := by
      intro x p hp
      split at hp
      · simp only [List.mem_map] at hp
        obtain ⟨y, -, rfl⟩ := hp
        rfl
      · simp at hp
    intro p hp1 hp2
    exact hab ((key a p hp1).symm.trans (key b p hp2))

theorem rec_rate_eq (P : GParams) (s : GState) (hs : Inv P s) :
    recRate P s = sumRat (s.inf.items.map (Chain.nodeRate P)) := by
  unfold recRate LD.totalWeight Chain.nodeRate
  cases hf : P.nw with
  | none =>
    have hw : s.inf.weighted = false := by rw [hs.infW, hf]; rfl
    simp only [hw, Bool.false_eq_true, if_false]
    rw [sumRat_map_const]; ring
  | some f =>
    have hw : s.inf.weighted = true := by rw [hs.infW, hf]; rfl
    simp only [hw, if_true]
    rw [hs.infInv.total hw, sumRat_map_mul_left]
    unfold LD.weightSum
    rw [sumRat_map_congr _ _ _ (hs.inf_w f hf)]

theorem trans_rate_eq (P : GParams) (s : GState) (hs : Inv P s) :
    transRate P s = sumRat (s.links.items.map fun p => Chain.edgeRate P p.1 p.2) := by
  unfold transRate LD.totalWeight Chain.edgeRate
  cases hf : P.ew with
  | none =>
    have hw : s.links.weighted = false := by rw [hs.linkW, hf]; rfl
    simp only [hw, Bool.false_eq_true, if_false]
    rw [sumRat_map_const]; ring
  | some f =>
    have hw : s.links.weighted = true := by rw [hs.linkW, hf]; rfl
    simp only [hw, if_true]
    rw [hs.linkInv.total hw, sumRat_map_mul_left s.links.items (fun p => f p.1 p.2) P.tau]
    unfold LD.weightSum
    rw [sumRat_map_congr _ _ _ (hs.link_w f hf)]

theorem clock_eq' (P : GParams) (h : WF P) (s : GState) (hs : Inv P s) :
    totalRate P s = Chain.totalRate P s.status := by
  obtain ⟨h1, h2⟩ := enabled_iff' P s hs
  have p1 : s.inf.items.Perm (Chain.enabledRec P s.status) :=
    (List.perm_ext_iff_of_nodup hs.infInv.nodup (enabledRec_nodup P h _)).2 fun a => (h1 a).symm
  have p2 : s.links.items.Perm (Chain.enabledTrans P s.status) :=
    (List.perm_ext_iff_of_nodup hs.linkInv.nodup (enabledTrans_nodup P h _)).2 fun a => (h2 a).symm
  unfold totalRate Chain.totalRate
  rw [rec_rate_eq P s hs, trans_rate_eq P s hs, sumRat_perm (p1.map _), sumRat_perm (p2.map _)]

end Gillespie

/-! ### distributions: push-forward and support -/
namespace Dist
variable {α β : Type}

theorem mass_push (g : α → β) (d : Dist α) (Q : β → Bool) :
    mass (Dist.push g d) Q = mass d (fun a => Q (g a)) := by
  induction d with
  | nil => rfl
  | cons x xs ih =>
    obtain ⟨a, p⟩ := x
    have : Dist.push g ((a, p) :: xs) = (g a, p) :: Dist.push g xs := rfl
    rw [this, mass_cons, mass_cons, ih]

theorem mass_false (d : Dist α) : mass d (fun _ => false) = 0 := by
  induction d with
  | nil => rfl
  | cons x xs ih =>
    obtain ⟨a, p⟩ := x
    rw [mass_cons, ih]; simp

end Dist

namespace LD
variable {α : Type} [DecidableEq α]
open Dist

/-- the event "the sampler returned `x`", with the `BEq` instance of the generic law theorems -/
def eqSome (x : α) : Option α → Bool := fun o => o == some x

theorem choose_law_eqSome (s : LD α) (h : Inv s) (hwt : s.weighted = true) (hpos : 0 < s.weightSum)
    (x : α) (hx : x ∈ s.items) (k : Nat) :
    mass (s.chooseDist k) (eqSome x) = s.getW x / s.weightSum * (1 - s.rejProb ^ k) :=
  choose_law s h hwt hpos x hx k

theorem choose_law_unweighted_eqSome (s : LD α) (h : Inv s) (hwt : s.weighted = false)
    (x : α) (hx : x ∈ s.items) (k : Nat) :
    mass (s.chooseDist (k + 1)) (eqSome x) = 1 / (s.items.length : Rat) :=
  choose_law_unweighted s h hwt x hx k

/-- only listed candidates can be chosen -/
theorem chooseDist_not_mem (s : LD α) (x : α) (hx : x ∉ s.items) (k : Nat) :
    mass (s.chooseDist k) (eqSome x) = 0 := by
  unfold eqSome
  induction k with
  | zero => simp [chooseDist, mass_pure]
  | succ k ih =>
    rw [chooseDist_succ_mass, ih]
    apply sumRat_map_zero
    intro c hc
    have hcx : c ≠ x := fun hc' => hx (hc' ▸ hc)
    simp [hcx]

end LD

namespace Gillespie
open Dist

theorem mass_pick (P : GParams) (s : GState) (k : Nat) (Q : Option GEvent → Bool) :
    mass (pickDist P s k) Q =
      recThr P s * mass (s.inf.chooseDist k) (fun o => Q (o.map GEvent.recover)) +
      (1 - recThr P s) * mass (s.links.chooseDist k) (fun o => Q (o.map fun p => GEvent.transmit p.1 p.2)) := by
  unfold pickDist
  rw [mass_bern_bind]
  simp only [if_true, Bool.false_eq_true, if_false, mass_push]

theorem pred_rec_rec (u : Node) :
    (fun o : Option Node => (o.map GEvent.recover == some (GEvent.recover u))) = LD.eqSome u := by
  funext o
  cases o <;> simp [LD.eqSome]

theorem pred_trans_rec (u : Node) :
    (fun o : Option (Node × Node) => ((o.map fun p => GEvent.transmit p.1 p.2) == some (GEvent.recover u)))
      = (fun _ => false) := by
  funext o
  cases o <;> simp

theorem pred_rec_trans (u v : Node) :
    (fun o : Option Node => (o.map GEvent.recover == some (GEvent.transmit u v))) = (fun _ => false) := by
  funext o
  cases o <;> simp

theorem pred_trans_trans (u v : Node) :
    (fun o : Option (Node × Node) => ((o.map fun p => GEvent.transmit p.1 p.2) == some (GEvent.transmit u v)))
      = LD.eqSome (u, v) := by
  funext o
  cases o with
  | none => simp [LD.eqSome]
  | some p => obtain ⟨a, b⟩ := p; simp [LD.eqSome]

theorem mass_pick_rec (P : GParams) (s : GState) (k : Nat) (u : Node) :
    mass (pickDist P s k) (fun o => o == some (GEvent.recover u)) =
      recThr P s * mass (s.inf.chooseDist k) (LD.eqSome u) := by
  rw [mass_pick]
  rw [pred_rec_rec, pred_trans_rec, mass_false]; ring

theorem mass_pick_trans (P : GParams) (s : GState) (k : Nat) (u v : Node) :
    mass (pickDist P s k) (fun o => o == some (GEvent.transmit u v)) =
      (1 - recThr P s) * mass (s.links.chooseDist k) (LD.eqSome (u, v)) := by
  rw [mass_pick]
  rw [pred_rec_trans, pred_trans_trans, mass_false]; ring

theorem weightSum_nonneg {α : Type} [DecidableEq α] (s : LD α) (h : LD.Inv s) (hwt : s.weighted = true) :
    0 ≤ s.weightSum :=
  sumRat_map_nonneg _ _ (h.nonneg hwt)

theorem jump_law_rec' (P : GParams) (h : WF P) (s : GState) (hs : Inv P s) (hpos : 0 < totalRate P s)
    (u : Node) (hu : u ∈ s.inf.items) (k : Nat) (hk : 0 < k) :
    mass (pickDist P s k) (fun o => o == some (GEvent.recover u)) =
      Chain.nodeRate P u / Chain.totalRate P s.status *
        (if s.inf.weighted then 1 - s.inf.rejProb ^ k else 1) := by
  rw [mass_pick_rec, ← clock_eq' P h s hs]
  have hT : totalRate P s ≠ 0 := ne_of_gt hpos
  cases hf : P.nw with
  | none =>
    have hw : s.inf.weighted = false := by rw [hs.infW, hf]; rfl
    obtain ⟨k', rfl⟩ : ∃ k', k = k' + 1 := ⟨k - 1, by omega⟩
    rw [LD.choose_law_unweighted_eqSome s.inf hs.infInv hw u hu k']
    have hn : (s.inf.items.length : Rat) ≠ 0 := by
      have : 0 < s.inf.items.length := List.length_pos_of_mem hu
      exact_mod_cast (ne_of_gt this)
    simp only [recThr, recRate, LD.totalWeight, Chain.nodeRate, hw, hf, Bool.false_eq_true, if_false]
    field_simp
  | some f =>
    have hw : s.inf.weighted = true := by rw [hs.infW, hf]; rfl
    have hW := weightSum_nonneg s.inf hs.infInv hw
    simp only [recThr, recRate, LD.totalWeight, Chain.nodeRate, hw, hf, if_true]
    rw [hs.infInv.total hw]
    rcases lt_or_eq_of_le hW with hWpos | hW0
    · rw [LD.choose_law_eqSome s.inf hs.infInv hw hWpos u hu k, hs.inf_w f hf u hu]
      have hWne : s.inf.weightSum ≠ 0 := ne_of_gt hWpos
      field_simp
    · rw [← hW0]
      simp [LD.rejProb, ← hW0]

theorem jump_law_trans' (P : GParams) (h : WF P) (s : GState) (hs : Inv P s) (hpos : 0 < totalRate P s)
    (u v : Node) (huv : (u, v) ∈ s.links.items) (k : Nat) (hk : 0 < k) :
    mass (pickDist P s k) (fun o => o == some (GEvent.transmit u v)) =
      Chain.edgeRate P u v / Chain.totalRate P s.status *
        (if s.links.weighted then 1 - s.links.rejProb ^ k else 1) := by
  rw [mass_pick_trans, ← clock_eq' P h s hs]
  have hT : totalRate P s ≠ 0 := ne_of_gt hpos
  have hthr : 1 - recThr P s = transRate P s / totalRate P s := by
    unfold recThr
    have : totalRate P s = recRate P s + transRate P s := rfl
    field_simp
    rw [this]; ring
  rw [hthr]
  cases hf : P.ew with
  | none =>
    have hw : s.links.weighted = false := by rw [hs.linkW, hf]; rfl
    obtain ⟨k', rfl⟩ : ∃ k', k = k' + 1 := ⟨k - 1, by omega⟩
    rw [LD.choose_law_unweighted_eqSome s.links hs.linkInv hw (u, v) huv k']
    have hn : (s.links.items.length : Rat) ≠ 0 := by
      have : 0 < s.links.items.length := List.length_pos_of_mem huv
      exact_mod_cast (ne_of_gt this)
    simp only [transRate, LD.totalWeight, Chain.edgeRate, hw, hf, Bool.false_eq_true, if_false]
    field_simp
  | some f =>
    have hw : s.links.weighted = true := by rw [hs.linkW, hf]; rfl
    have hW := weightSum_nonneg s.links hs.linkInv hw
    simp only [transRate, LD.totalWeight, Chain.edgeRate, hw, hf, if_true]
    rw [hs.linkInv.total hw]
    rcases lt_or_eq_of_le hW with hWpos | hW0
    · rw [LD.choose_law_eqSome s.links hs.linkInv hw hWpos (u, v) huv k, hs.link_w f hf (u, v) huv]
      have hWne : s.links.weightSum ≠ 0 := ne_of_gt hWpos
      field_simp
    · rw [← hW0]
      simp [LD.rejProb, ← hW0]

theorem jump_law_support' (P : GParams) (s : GState) (k : Nat) (e : GEvent) (he : ¬ Enabled s e) :
    mass (pickDist P s k) (fun o => o == some e) = 0 := by
  cases e with
  | recover u =>
    rw [mass_pick_rec, LD.chooseDist_not_mem s.inf u he k]; ring
  | transmit u v =>
    rw [mass_pick_trans, LD.chooseDist_not_mem s.links (u, v) he k]; ring

end Gillespie
