import EoNVerif.Proofs.GenFastSIS
import EoNVerif.Props.C02b
/-!
C02 (fast_SIS) — the Lean code GENERATED statement by statement from `fast_SIS`, `_process_trans_SIS_Markov`,
`_find_next_trans_SIS_Markov`, `_process_rec_SIS_` and `myQueue` of EoN/simulation.py (`Gen/FastSISGen.lean`, namespace
`GenFSIS`) refines the hand-written event-queue model `Model/FastSIS.lean`, in lock step: on every tape the two either
raise the same exception or return related states with the same remaining tape and call trace
(`GenFS.run_sim`, `GenFS.gen_run_refines`, `GenFS.gen_run_refines_back`, `GenFS.gen_run_error_iff` in
`Proofs/GenFastSIS.lean`; restated below).  Hence the theorems of `Props/C02b.lean` hold of the output of the generated
code (`gen_log_legal_trans_causal`, `gen_recovery_pending`, `gen_times_sorted`, `gen_S_add_I`).
-/
open PyTM GenFSIS GenFS FastSIS

namespace C02d

/-! ### the refinement theorems (proved in `Proofs/GenFastSIS.lean`) -/

/-- **forward**: every successful run of the model is a run of the generated code on the same tape, with the same
remaining tape and call trace, ending in a related state (`RelOut`: statuses, recovery times, queue, the `times` / `S` /
`I` rows after the final `[len(initial_infecteds):]`, transmissions, infection / recovery time dictionaries) -/
theorem gen_run_refines (A : FArgs) (P : FSParams) (hA : Agree A P) (infs : List Node) (fuel : Nat) (ts ts' : TapeSt)
    (s : FSState) (hr : FastSIS.run P infs fuel ts = .ok (s, ts')) :
    ∃ σ, GenFSIS.run A infs fuel ts = .ok (σ, ts') ∧ RelOut A P infs.length σ s :=
  GenFS.gen_run_refines A P hA infs fuel ts ts' s hr

/-- **backward**: every successful run of the generated code is a run of the model (in particular `IndexError` from
`S[-1]`, `I[-1]` or `heappop` cannot occur) -/
theorem gen_run_refines_back (A : FArgs) (P : FSParams) (hA : Agree A P) (infs : List Node) (fuel : Nat)
    (ts ts' : TapeSt) (σ : Loc) (hr : GenFSIS.run A infs fuel ts = .ok (σ, ts')) :
    ∃ s, FastSIS.run P infs fuel ts = .ok (s, ts') ∧ RelOut A P infs.length σ s :=
  GenFS.gen_run_refines_back A P hA infs fuel ts ts' σ hr

/-- the generated code and the model raise the same exceptions on the same tapes -/
theorem gen_run_error_iff (A : FArgs) (P : FSParams) (hA : Agree A P) (infs : List Node) (fuel : Nat) (ts : TapeSt)
    (e : String) : GenFSIS.run A infs fuel ts = .error e ↔ FastSIS.run P infs fuel ts = .error e :=
  GenFS.gen_run_error_iff A P hA infs fuel ts e

/-! ### the C02b properties on the output of the generated code -/


/-- the rows / dictionaries / statuses of a returned generated state are those of the chronological change log `log`
(`n` = number of initial infections, whose rows `fast_SIS` drops) -/
structure Explains (A : FArgs) (n : Nat) (σ : Loc) (log : List (Rat × Node × Bool)) : Prop where
  times : σ.times = (some A.tmin :: log.map (fun e => (some e.1 : ERat))).drop n
  I : σ.I = ((List.range (log.length + 1)).map (fun k => netI (log.take k))).drop n
  S : σ.S = ((List.range (log.length + 1)).map (fun k => (A.order : Int) - netI (log.take k))).drop n
  infect : ∀ u, alGet σ.infection_times [] u =
    (log.filter (fun e => e.2.1 == u && e.2.2 == true)).map (fun e => (some e.1 : ERat))
  recov : ∀ u, alGet σ.recovery_times [] u =
    (log.filter (fun e => e.2.1 == u && e.2.2 == false)).map (fun e => (some e.1 : ERat))
  status : ∀ u, σ.status u = if statusAfter log log.length u then St.I else St.S

theorem explains_of_relOut {A : FArgs} {P : FSParams} (hA : Agree A P) {infs : List Node} {now : Rat} {σ : Loc}
    {s : FSState} (h : RelOut A P infs.length σ s) (hI : Inv P infs now s) :
    Explains A infs.length σ s.log.reverse where
  times := by rw [h.times, hA.tmin]
  I := by rw [h.I, List.length_reverse]
  S := by rw [h.S, List.length_reverse]
  infect := h.infect_get
  recov := h.recov_get
  status := fun u => by
    rw [h.status, hI.status u]
    have := statusAfter_eq_cur s.log [] u
    rw [List.append_nil] at this
    rw [List.length_reverse, this]

/-- **C02b transferred to the generated code**: whenever the code generated from `fast_SIS` returns, its output rows
are those of a change log made of legal SIS moves (an infection entry concerns a node that is susceptible at that
moment, a recovery entry an infectious node; times are nondecreasing within `[tmin, tmax)`), and every recorded
transmission is a transition of the chain: it goes along an edge from a node that is infectious at that moment to the
node that becomes infected then (source-less entries are the initial infections at `tmin`), one per infection entry;
every logged node is a node of the graph and the `I` rows (`netI` of the prefixes) count the infectious nodes -/
theorem gen_log_legal_trans_causal (A : FArgs) (P : FSParams) (hA : Agree A P) (infs : List Node) (h : WF P infs)
    (fuel : Nat) (ts ts' : TapeSt) (hts : TapeNonneg ts) (σ : Loc)
    (hr : GenFSIS.run A infs fuel ts = .ok (σ, ts')) :
    ∃ log : List (Rat × Node × Bool), Explains A infs.length σ log ∧
      (∀ (k : Nat) (e : Rat × Node × Bool), log[k]? = some e →
        statusAfter log k e.2.1 = !e.2.2 ∧ A.tmin ≤ e.1 ∧ ERat.lt (some e.1) A.tmax = true) ∧
      (log.map (·.1)).Pairwise (· ≤ ·) ∧
      σ.transmissions.length = (log.filter fun e => e.2.2).length ∧
      (∀ (i : Nat) (e : ERat × Option Node × Node), σ.transmissions[i]? = some e →
        ∃ (r : Rat) (k : Nat), e.1 = some r ∧ log[k]? = some (r, e.2.2, true) ∧
          (match e.2.1 with
           | none => e.2.2 ∈ infs ∧ r = A.tmin
           | some u => e.2.2 ∈ A.nbrs u ∧ statusAfter log k u = true)) ∧
      (∀ e ∈ log, e.2.1 ∈ P.nodes) ∧
      ∀ k, k ≤ log.length → netI (log.take k) = ((P.nodes.filter (fun u => statusAfter log k u)).length : Int) := by
  obtain ⟨s, hs, hrel⟩ := gen_run_refines_back A P hA infs fuel ts ts' σ hr
  obtain ⟨now, hI, _⟩ := run_inv P infs h.horizon fuel ts ts' hts s hs
  obtain ⟨hl1, hl2⟩ := log_legal P infs h fuel ts ts' hts s hs
  obtain ⟨ht1, ht2⟩ := trans_causal P infs h fuel ts ts' hts s hs
  have hnodes : ∀ e ∈ s.log.reverse, e.2.1 ∈ P.nodes := fun e he =>
    run_log_nodes P infs h fuel ts ts' hts s hs e (List.mem_reverse.1 he)
  refine ⟨s.log.reverse, explains_of_relOut hA hrel hI, ?_, hl2, ?_, ?_, hnodes,
    fun k hk => netI_take_eq_count P s.log hI.legal P.nodes h.nodup hnodes k hk⟩
  · intro k e he
    obtain ⟨h1, h2, h3⟩ := hl1 k e he
    refine ⟨h1, by rw [hA.tmin]; exact h2, ?_⟩
    rw [hA.tmax, ERat.lt_some]; exact decide_eq_true h3
  · rw [hrel.trans, List.length_map]; exact ht1
  · intro i e he
    rw [hrel.trans, List.getElem?_map] at he
    cases he0 : s.trans.reverse[i]? with
    | none => rw [he0] at he; cases he
    | some e0 =>
      rw [he0] at he
      simp only [Option.map_some, Option.some.injEq] at he
      subst he
      obtain ⟨k, hk, hm⟩ := ht2 i e0 he0
      refine ⟨e0.1, k, rfl, hk, ?_⟩
      rw [hA.tmin, hA.nbrs]
      exact hm

/-- **recoveries**: when the generated code returns, its queue is empty and no infectious node has a recovery time
before `tmax` (every drawn recovery before the horizon has been carried out) -/
theorem gen_recovery_pending (A : FArgs) (P : FSParams) (hA : Agree A P) (infs : List Node) (h : WF P infs)
    (fuel : Nat) (ts ts' : TapeSt) (hts : TapeNonneg ts) (σ : Loc)
    (hr : GenFSIS.run A infs fuel ts = .ok (σ, ts')) :
    σ.Q.q = [] ∧ ∀ u, σ.status u = St.I → ERat.lt (σ.rec_time u) A.tmax = false := by
  obtain ⟨s, hs, hrel⟩ := gen_run_refines_back A P hA infs fuel ts ts' σ hr
  obtain ⟨hq, hrec⟩ := recovery_pending P infs h fuel ts ts' hts s hs
  constructor
  · have := hrel.queue.len
    rw [hq] at this
    exact List.length_eq_zero_iff.1 this
  · intro u hu
    rw [hrel.rec_time, hA.tmax]
    apply hrec
    have := hrel.status u
    rw [hu] at this
    cases hi : s.inf u with
    | true => rfl
    | false => rw [hi] at this; cases this

/-- the `times` output is nondecreasing and lies in `[tmin, tmax)` -/
theorem gen_times_sorted (A : FArgs) (P : FSParams) (hA : Agree A P) (infs : List Node) (h : WF P infs)
    (fuel : Nat) (ts ts' : TapeSt) (hts : TapeNonneg ts) (σ : Loc)
    (hr : GenFSIS.run A infs fuel ts = .ok (σ, ts')) :
    σ.times.Pairwise (fun a b => ERat.le a b = true) ∧
    ∀ t ∈ σ.times, ∃ r, t = some r ∧ A.tmin ≤ r ∧ ERat.lt (some r) A.tmax = true := by
  obtain ⟨log, hE, hl1, hl2, -, -, -, -⟩ := gen_log_legal_trans_causal A P hA infs h fuel ts ts' hts σ hr
  have hmem : ∀ e ∈ log, A.tmin ≤ e.1 ∧ ERat.lt (some e.1) A.tmax = true := by
    intro e he
    obtain ⟨k, hk⟩ := List.getElem?_of_mem he
    exact (hl1 k e hk).2
  have hfull : (some A.tmin :: log.map (fun e => (some e.1 : ERat))).Pairwise (fun a b => ERat.le a b = true) := by
    rw [List.pairwise_cons]
    constructor
    · intro b hb
      obtain ⟨e, he, rfl⟩ := List.mem_map.1 hb
      simpa [ERat.le] using (hmem e he).1
    · rw [List.pairwise_map] at hl2 ⊢
      exact hl2.imp (fun {a b} hab => by simpa [ERat.le] using hab)
  constructor
  · rw [hE.times]
    exact hfull.sublist (List.drop_sublist _ _)
  · intro t ht
    rw [hE.times] at ht
    have ht' := List.mem_of_mem_drop ht
    rcases List.mem_cons.1 ht' with rfl | ht'
    · refine ⟨A.tmin, rfl, le_refl _, ?_⟩
      rw [hA.tmax, hA.tmin, ERat.lt_some]; exact decide_eq_true h.horizon
    · obtain ⟨e, he, rfl⟩ := List.mem_map.1 ht'
      exact ⟨e.1, rfl, hmem e he⟩

/-- the population is conserved in the output rows: `S[k] = N - I[k]` (no hypothesis on the graph or the tape) -/
theorem gen_S_add_I (A : FArgs) (P : FSParams) (hA : Agree A P) (infs : List Node) (fuel : Nat) (ts ts' : TapeSt)
    (σ : Loc) (hr : GenFSIS.run A infs fuel ts = .ok (σ, ts')) :
    σ.S = σ.I.map (fun i => (A.order : Int) - i) ∧ σ.times.length = σ.I.length := by
  obtain ⟨s, hs, hrel⟩ := gen_run_refines_back A P hA infs fuel ts ts' σ hr
  constructor
  · rw [hrel.S, hrel.I, List.map_drop, List.map_map]; rfl
  · rw [hrel.times, hrel.I]; simp

/-- the last `I` row is the number of nodes whose returned status is `I`, the last `S` row the number of the others -/
theorem gen_last_row_counts (A : FArgs) (P : FSParams) (hA : Agree A P) (infs : List Node) (h : WF P infs)
    (fuel : Nat) (ts ts' : TapeSt) (hts : TapeNonneg ts) (σ : Loc)
    (hr : GenFSIS.run A infs fuel ts = .ok (σ, ts')) :
    (∀ i, σ.I.getLast? = some i → i = ((P.nodes.filter (fun u => σ.status u = St.I)).length : Int)) ∧
    (∀ j, σ.S.getLast? = some j → j = ((P.nodes.filter (fun u => σ.status u = St.S)).length : Int)) := by
  obtain ⟨log, hE, -, -, -, -, -, hcount⟩ := gen_log_legal_trans_causal A P hA infs h fuel ts ts' hts σ hr
  have hc := hcount log.length (le_refl _)
  rw [List.take_length] at hc
  have hfI : P.nodes.filter (fun u => σ.status u = St.I) = P.nodes.filter (fun u => statusAfter log log.length u) := by
    apply List.filter_congr
    intro u _
    rw [hE.status u]
    cases statusAfter log log.length u <;> simp
  have hfS : P.nodes.filter (fun u => σ.status u = St.S) =
      P.nodes.filter (fun u => !statusAfter log log.length u) := by
    apply List.filter_congr
    intro u _
    rw [hE.status u]
    cases statusAfter log log.length u <;> simp
  have hlen : ((P.nodes.filter (fun u => !statusAfter log log.length u)).length : Int) =
      (A.order : Int) - (P.nodes.filter (fun u => statusAfter log log.length u)).length := by
    have := List.length_eq_length_filter_add (l := P.nodes) (fun u => statusAfter log log.length u)
    rw [hA.order]
    omega
  have hlastI : ∀ i, σ.I.getLast? = some i → i = netI log := by
    intro i hi
    rw [hE.I, List.getLast?_drop] at hi
    split at hi
    · cases hi
    · simpa [List.getLast?_range] using hi.symm
  have hlastS : ∀ j, σ.S.getLast? = some j → j = (A.order : Int) - netI log := by
    intro j hj
    rw [hE.S, List.getLast?_drop] at hj
    split at hj
    · cases hj
    · simpa [List.getLast?_range] using hj.symm
  constructor
  · intro i hi
    rw [hlastI i hi, hc, hfI]
  · intro j hj
    rw [hlastS j hj, hc, hfS, hlen]

/-! ### non-vacuity 1: the run of `Props/C02b.lean` (path `0 – 1 – 2`, unit rates, horizon `[0, 10)`, node 0 initially
infected, 20 draws) on the generated code -/

def exA : FArgs :=
  { nbrs := exNbrs, order := 3, tmin := 0, tmax := some 10, transRate := fun _ _ => 1, recRate := fun _ => 1 }

theorem exA_agree : Agree exA exP := ⟨rfl, rfl, rfl, rfl, rfl, rfl⟩

/-- the generated code evaluates to the expected rows and consumes the whole tape -/
example : (match GenFSIS.run exA [0] 30 exTape with
    | .ok (σ, ts) =>
      σ.times == [some 0, some 1, some (3 / 2), some 2, some (5 / 2), some 3, some 4, some 5, some 6, some (13 / 2),
        some (15 / 2), some (17 / 2)]
      && σ.S == [2, 1, 0, 1, 0, 1, 0, 1, 0, 1, 0, 1]
      && σ.I == [1, 2, 3, 2, 3, 2, 3, 2, 3, 2, 3, 2]
      && σ.transmissions == [(some 0, none, 0), (some 1, some 0, 1), (some (3 / 2), some 1, 2), (some (5 / 2), some 0, 1),
        (some 4, some 1, 0), (some 6, some 1, 0), (some (15 / 2), some 1, 2)]
      && σ.Q.q.isEmpty && ts.tape.isEmpty
      && [0, 1, 2].map σ.status == [St.I, St.I, St.S]
      && [0, 1, 2].map σ.rec_time == [some 26, some (21 / 2), some (17 / 2)]
      && σ.infection_times == [(0, [some 0, some 4, some 6]), (1, [some 1, some (5 / 2)]), (2, [some (3 / 2), some (15 / 2)])]
      && σ.recovery_times == [(1, [some 2]), (0, [some 3, some 5]), (2, [some (13 / 2), some (17 / 2)])]
    | .error _ => false) = true := by decide +kernel

/-- the hypotheses of the refinement and of the transferred theorems hold for this run -/
example : ∃ σ ts', GenFSIS.run exA [0] 30 exTape = .ok (σ, ts') ∧
    (∃ s, FastSIS.run exP [0] 30 exTape = .ok (s, ts') ∧ RelOut exA exP 1 σ s) ∧
    σ.Q.q = [] ∧ (∀ u, σ.status u = St.I → ERat.lt (σ.rec_time u) exA.tmax = false) ∧
    σ.times.Pairwise (fun a b => ERat.le a b = true) ∧ σ.S = σ.I.map (fun i => (3 : Int) - i) := by
  cases hr : GenFSIS.run exA [0] 30 exTape with
  | error e =>
    have : (match GenFSIS.run exA [0] 30 exTape with | .ok _ => true | .error _ => false) = true := by decide +kernel
    rw [hr] at this; cases this
  | ok p =>
    obtain ⟨σ, ts'⟩ := p
    obtain ⟨h1, h2⟩ := gen_recovery_pending exA exP exA_agree [0] exP_wf 30 exTape ts' exTape_nonneg σ hr
    exact ⟨σ, ts', rfl, gen_run_refines_back exA exP exA_agree [0] 30 exTape ts' σ hr, h1, h2,
      (gen_times_sorted exA exP exA_agree [0] exP_wf 30 exTape ts' exTape_nonneg σ hr).1,
      (gen_S_add_I exA exP exA_agree [0] 30 exTape ts' σ hr).1⟩

/-- forward direction on this run: the model run of C02b yields the generated run -/
example : ∃ s σ ts', FastSIS.run exP [0] 30 exTape = .ok (s, ts') ∧ GenFSIS.run exA [0] 30 exTape = .ok (σ, ts') ∧
    RelOut exA exP 1 σ s := by
  cases hr : FastSIS.run exP [0] 30 exTape with
  | error e =>
    have : (match FastSIS.run exP [0] 30 exTape with | .ok _ => true | .error _ => false) = true := by decide +kernel
    rw [hr] at this; cases this
  | ok p =>
    obtain ⟨s, ts'⟩ := p
    obtain ⟨σ, h1, h2⟩ := gen_run_refines exA exP exA_agree [0] 30 exTape ts' s hr
    exact ⟨s, σ, ts', rfl, h1, h2⟩

/-! ### non-vacuity 2: a triangle with unequal transmission rates, a node that never recovers (recovery rate 0, recovery
time `inf`), horizon `[1, 4)`, initial infections `[0, 0, 1]` (with a repetition: the second event for node 0 is
ignored, but `len(initial_infecteds) = 3` rows are dropped, so the first returned row is not the `tmin` row), a tie
between two recoveries at time 3, and a tape that is not exhausted -/

def triNbrs : Node → List Node
  | 0 => [1, 2]
  | 1 => [0, 2]
  | 2 => [0, 1]
  | _ => []

def triA : FArgs :=
  { nbrs := triNbrs, order := 3, tmin := 1, tmax := some 4, transRate := fun u v => if u + v = 1 then 2 else 1,
    recRate := fun u => if u = 2 then 0 else 1 }

def triP : FSParams :=
  { nodes := [0, 1, 2], nbrs := triNbrs, transRate := fun u v => if u + v = 1 then 2 else 1,
    recRate := fun u => if u = 2 then 0 else 1, tmin := 1, tmax := 4 }

def triTape : TapeSt :=
  { tape := [1, 1/2, 1/2, 2, 1/4, 3, 1/2, 1, 1/3, 1, 1/2, 5, 1, 1/4, 2, 1, 1, 1/8, 1, 1, 1, 1, 1, 1].map Draw.expo }

theorem triA_agree : Agree triA triP := ⟨rfl, rfl, rfl, rfl, rfl, rfl⟩

theorem triP_wf : WF triP [0, 0, 1] where
  nodup := by decide
  nbr_mem := by decide
  symm := by
    intro u v h
    match u, v, h with
    | 0, v, h => simp [triP, triNbrs] at h; rcases h with rfl | rfl <;> simp [triP, triNbrs]
    | 1, v, h => simp [triP, triNbrs] at h; rcases h with rfl | rfl <;> simp [triP, triNbrs]
    | 2, v, h => simp [triP, triNbrs] at h; rcases h with rfl | rfl <;> simp [triP, triNbrs]
    | _ + 3, v, h => simp [triP, triNbrs] at h
  noloop := by
    intro u h
    match u, h with
    | 0, h => simp [triP, triNbrs] at h
    | 1, h => simp [triP, triNbrs] at h
    | 2, h => simp [triP, triNbrs] at h
    | _ + 3, h => simp [triP, triNbrs] at h
  rates := ⟨fun u v => by simp only [triP]; split <;> decide +kernel, fun u => by simp only [triP]; split <;> decide +kernel⟩
  infs_mem := by decide
  horizon := by decide +kernel

theorem tapeNonneg_of_all (ts : TapeSt)
    (h : ts.tape.all (fun d => match d with | Draw.expo x => decide (0 ≤ x) | _ => true) = true) : TapeNonneg ts := by
  intro d hd x hx
  subst hx
  have := List.all_eq_true.1 h _ hd
  simpa using this

theorem triTape_nonneg : TapeNonneg triTape := tapeNonneg_of_all _ (by decide +kernel)

example : (match GenFSIS.run triA [0, 0, 1] 40 triTape with
    | .ok (σ, ts) =>
      σ.times == [some (3 / 2), some 2, some (5 / 2), some 3, some 3]
      && σ.S == [0, 1, 0, 1, 2]
      && σ.I == [3, 2, 3, 2, 1]
      && σ.transmissions == [(some 1, none, 0), (some 1, none, 1), (some (3 / 2), some 0, 2), (some (5 / 2), some 2, 0)]
      && σ.Q.q.isEmpty && ts.tape.length == 12
      && [0, 1, 2].map σ.status == [St.S, St.S, St.I]
      && [0, 1, 2].map σ.rec_time == [some 3, some 3, none]
      && σ.infection_times == [(0, [some 1, some (5 / 2)]), (1, [some 1]), (2, [some (3 / 2)])]
      && σ.recovery_times == [(0, [some 2, some 3]), (1, [some 3])]
    | .error _ => false) = true := by decide +kernel

example : ∃ σ ts', GenFSIS.run triA [0, 0, 1] 40 triTape = .ok (σ, ts') ∧
    (∃ s, FastSIS.run triP [0, 0, 1] 40 triTape = .ok (s, ts') ∧ RelOut triA triP 3 σ s) ∧
    σ.Q.q = [] ∧ (∀ u, σ.status u = St.I → ERat.lt (σ.rec_time u) triA.tmax = false) ∧
    ∃ log, Explains triA 3 σ log ∧ (log.map (·.1)).Pairwise (· ≤ ·) := by
  cases hr : GenFSIS.run triA [0, 0, 1] 40 triTape with
  | error e =>
    have : (match GenFSIS.run triA [0, 0, 1] 40 triTape with | .ok _ => true | .error _ => false) = true := by
      decide +kernel
    rw [hr] at this; cases this
  | ok p =>
    obtain ⟨σ, ts'⟩ := p
    obtain ⟨h1, h2⟩ := gen_recovery_pending triA triP triA_agree _ triP_wf 40 triTape ts' triTape_nonneg σ hr
    obtain ⟨log, hE, _, hs, _⟩ :=
      gen_log_legal_trans_causal triA triP triA_agree _ triP_wf 40 triTape ts' triTape_nonneg σ hr
    exact ⟨σ, ts', rfl, gen_run_refines_back triA triP triA_agree _ 40 triTape ts' σ hr, h1, h2, log, hE, hs⟩

/-! ### non-vacuity 3: exceptions — a negative recovery rate raises `EoNError`, a short tape runs out, in both -/

example : (match GenFSIS.run { exA with recRate := fun _ => -1 } [0] 30 exTape,
      FastSIS.run { exP with recRate := fun _ => -1 } [0] 30 exTape with
    | .error e, .error e' => e == "EoNError" && e' == "EoNError"
    | _, _ => false) = true := by decide +kernel

example : (match GenFSIS.run exA [0] 30 { tape := [Draw.expo 3, Draw.expo 1] },
      FastSIS.run exP [0] 30 { tape := [Draw.expo 3, Draw.expo 1] } with
    | .error e, .error e' => e == "tape-exhausted" && e' == "tape-exhausted"
    | _, _ => false) = true := by decide +kernel

end C02d
