"""C04 — trajectories are well-formed.  `Pred.wellFormed` (Lean) is evaluated on the output of every simulator in
both return modes; the generator stresses tiny graphs, isolated nodes, zero rates, short horizons."""
import common, allsims, predchecks
from predchecks import strip


def edge_case(ctx, sim):
    """tiny graphs / zero rates / tmax close to tmin"""
    c = allsims.gen_case(ctx.rng, sim, nmax=ctx.rng.choice([1, 2, 3]))
    r = ctx.rng.random()
    if "tau" in c and r < 0.4:
        c["tau"] = "0"
    if "gamma" in c and 0.2 < r < 0.6:
        c["gamma"] = "0"
    return c


def run(ctx):
    drv = common.LeanDriver()
    per = ctx.scale(120, 600)
    reqs, metas = [], []
    for sim in allsims.SIMS:
        for k in range(per):
            c = edge_case(ctx, sim) if k % 4 == 0 else allsims.gen_case(ctx.rng, sim)
            out, G, idx = allsims.run_impl(c, rng=ctx.rng)
            ctx.count("%s:%s" % (sim, "ok" if out["ok"] else "err=" + out["err"]))
            rep = dict(entry=sim, case=strip(c), tape=out["tape"])
            if not out["ok"]:
                ctx.case(rep, nontrivial=False)
                ctx.violation("%s raised %s instead of returning a trajectory" % (sim, out["err"]),
                              dict(rep, error=out["err"], tb=out.get("tb")))
                continue
            rq = predchecks.wf_request(c, out, G.order())
            if "inf" in rq["times"] or any(isinstance(x, str) for col in rq["cols"] for x in col):
                ctx.case(rep, nontrivial=False)
                ctx.violation("%s returned non-finite times or non-integer counts" % sim, dict(rep, times=rq["times"][:10], cols=[c_[:10] for c_ in rq["cols"]]))
                continue
            reqs.append(rq)
            metas.append((rep, out))
    resps = drv.batch(reqs)
    for (rep, out), req, r in zip(metas, reqs, resps):
        nontriv = len(req["times"]) > 1
        ctx.case(rep, nontrivial=nontriv, sample=dict(rep, times=req["times"][:6], cols=[c[:6] for c in req["cols"]]))
        if not r.get("ok"):
            ctx.disagreement("wf-driver", dict(rep, resp=r))
        elif not r["holds"]:
            ctx.violation("%s returned a trajectory that is not well-formed" % rep["entry"],
                          dict(rep, full=out["full"], times=req["times"][:40], cols=[c[:40] for c in req["cols"]],
                               kind=req["kind"], extinct=req["extinct"]))
