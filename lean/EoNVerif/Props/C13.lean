import EoNVerif.Proofs.EventSIS2
/-!
C13 — target statements: the lazy chained-attempt queue of `fast_nonMarkov_SIS` refines the naive reference
semantics (every listed attempt is an agenda entry; an attempt infects iff the target is susceptible at that instant).
-/
namespace EventSIS

/-- nothing at or after `tmax` is reported (every fuel) -/
theorem log_before_tmax (P : SSParams) (infs : List Node) (fuel : Nat) :
    ∀ c ∈ (run P infs fuel).log, c.1 < P.tmax := (InvA_run P infs fuel).log_lt

/-- only susceptible nodes get infected and only infectious nodes recover: the log alternates per node, starting
with an infection -/
theorem log_alternates (P : SSParams) (infs : List Node) (h : WF P infs) (fuel : Nat) (v : Node) :
    let l := ((run P infs fuel).log.reverse.filter fun c => c.2.1 == v).map fun c => c.2.2
    (∀ i, i < l.length → l.getD i false = (i % 2 == 0)) := by
  intro l i hi
  have hB := InvB_run P infs fuel v
  have hl : l = (nlog (run P infs fuel).log v).map fun c => c.2.2 := rfl
  rw [hl] at hi ⊢
  simp only [List.length_map] at hi
  rw [List.getD_eq_getElem?_getD, List.getElem?_map, List.getElem?_eq_getElem hi]
  exact hB.alt i _ (List.getElem?_eq_getElem hi)

/-- every recovery happens exactly `dur` after the corresponding infection -/
theorem recovery_after_dur (P : SSParams) (infs : List Node) (h : WF P infs) (fuel : Nat) (v : Node) (i : Nat) :
    let l := (run P infs fuel).log.reverse.filter fun c => c.2.1 == v
    ∀ ci cr, l[2 * i]? = some ci → l[2 * i + 1]? = some cr → cr.1 = ci.1 + P.dur v i :=
  (InvB_run P infs fuel v).pair i

/-- every reported transmission is a listed attempt: the infector was infected `d` earlier for a listed delay `d` of
the infection it was then in -/
theorem trans_is_listed_attempt (P : SSParams) (infs : List Node) (h : WF P infs) (fuel : Nat) :
    ∀ e ∈ (run P infs fuel).trans,
      match e.2.1 with
      | none => e.2.2 ∈ infs ∧ e.1 = P.tmin
      | some u => e.2.2 ∈ P.nbrs u ∧
          ∃ eu ∈ (run P infs fuel).trans, eu.2.2 = u ∧ ∃ k d, d ∈ P.delays u e.2.2 k ∧ eu.1 + d = e.1 :=
  (InvC_run P infs fuel).tr

/-- **refinement (full statement)**: for ascending positive delay lists, positive durations and pairwise distinct
event times, once both runs have emptied their queues the lazy queue and the reference agenda produce the same
status-change log and the same transmission list -/
theorem nmSIS_refines (P : SSParams) (infs : List Node) (h : WF P infs) (fuel : Nat)
    (hq : (run P infs fuel).queue = []) (ha : (refRun P infs fuel).agenda = [])
    (hd : distinctTimes P.tmin (refRun P infs fuel).seen = true) :
    (run P infs fuel).log = (refRun P infs fuel).log ∧ (run P infs fuel).trans = (refRun P infs fuel).trans :=
  refines_main h fuel ha hd

end EventSIS

/-! non-vacuity: a reinfection of node 0 by node 1 through a chained second attempt -/
def exS : SSParams :=
  { nodes := [0, 1], nbrs := fun u => if u = 0 then [1] else if u = 1 then [0] else [],
    dur := fun u k => if u = 0 then (if k = 0 then 1 else 1/2) else 3, delays := fun u _ _ => if u = 1 then [1/2, 2] else [1/4],
    tmin := 0, tmax := 10 }
#eval (EventSIS.run exS [0] 100).log.reverse
#eval (EventSIS.refRun exS [0] 100).log.reverse
#eval EventSIS.distinctTimes 0 (EventSIS.refRun exS [0] 100).seen
