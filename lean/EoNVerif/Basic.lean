/-!
Basic vocabulary shared by all models.  No Mathlib import: everything here is core Lean so that the
driver can be compiled to a native executable.
-/

abbrev Node := Nat

/-- `float('Inf')`-capable time: `none` is `+∞`. -/
abbrev ERat := Option Rat

namespace ERat
def lt (a b : ERat) : Bool :=
  match a, b with
  | some x, some y => x < y
  | some _, none => true
  | none, _ => false
def le (a b : ERat) : Bool :=
  match a, b with
  | some x, some y => x ≤ y
  | _, none => true
  | none, some _ => false
def add (a b : ERat) : ERat :=
  match a, b with
  | some x, some y => some (x + y)
  | _, _ => none
end ERat

/-- The three SIR statuses (SIS uses `S`,`I`). -/
inductive St | S | I | R
deriving DecidableEq, Repr, Inhabited

/-- Association-list lookup with default, the model of `dict.get` / `defaultdict`. -/
def alGet {α β : Type} [DecidableEq α] (l : List (α × β)) (d : β) (x : α) : β :=
  match l with
  | [] => d
  | (k, v) :: t => if k = x then v else alGet t d x

def alSet {α β : Type} [DecidableEq α] (l : List (α × β)) (x : α) (v : β) : List (α × β) :=
  match l with
  | [] => [(x, v)]
  | (k, w) :: t => if k = x then (k, v) :: t else (k, w) :: alSet t x v

def alHas {α β : Type} [DecidableEq α] (l : List (α × β)) (x : α) : Bool :=
  match l with
  | [] => false
  | (k, _) :: t => if k = x then true else alHas t x

def alDel {α β : Type} [DecidableEq α] (l : List (α × β)) (x : α) : List (α × β) :=
  match l with
  | [] => []
  | (k, w) :: t => if k = x then alDel t x else (k, w) :: alDel t x

/-- functional update -/
def fset {α β : Type} [DecidableEq α] (f : α → β) (x : α) (v : β) : α → β :=
  fun y => if y = x then v else f y

def sumRat (l : List Rat) : Rat := l.foldr (· + ·) 0

@[simp] theorem sumRat_nil : sumRat [] = 0 := rfl
@[simp] theorem sumRat_cons (a : Rat) (l : List Rat) : sumRat (a :: l) = a + sumRat l := rfl
