import EoNVerif.Proofs.Simple
import Mathlib.Tactic.Ring
import Mathlib.Tactic.Linarith
/-!
Helper lemmas for C03 (`Gillespie_simple_contagion`), part 2: event application, initial state, main loop, clock.
-/

set_option linter.unusedSectionVars false

namespace Simple
variable {σ : Type} [DecidableEq σ]

/-! ### counts -/

theorem getD_eq_getElem' {β : Type} (l : List β) (d : β) {i : Nat} (h : i < l.length) : l.getD i d = l[i] :=
  (List.getElem_eq_getD d).symm

theorem filter_fset_not_mem (st : Node → σ) (m : Node) (new x : σ) (l : List Node) (hm : m ∉ l) :
    (l.filter fun u => fset st m new u = x) = l.filter fun u => st u = x := by
  apply List.filter_congr
  intro u hu
  have : u ≠ m := by rintro rfl; exact hm hu
  rw [Gillespie.fset_ne _ _ _ _ this]

theorem count_fset (st : Node → σ) (m : Node) (new x : σ) (l : List Node) (hl : l.Nodup) (hm : m ∈ l) :
    (((l.filter fun u => fset st m new u = x).length : Nat) : Int) =
      ((l.filter fun u => st u = x).length : Int) - (if st m = x then 1 else 0) + (if new = x then 1 else 0) := by
  induction l with
  | nil => cases hm
  | cons a l ih =>
    rw [List.nodup_cons] at hl
    obtain ⟨hal, hl'⟩ := hl
    by_cases ham : a = m
    · subst ham
      rw [List.filter_cons, List.filter_cons, filter_fset_not_mem st a new x l hal, Gillespie.fset_self]
      by_cases h1 : new = x <;> by_cases h2 : st a = x <;> simp [h1, h2]
    · have hm' : m ∈ l := by
        rcases List.mem_cons.1 hm with h1 | h1
        · exact absurd h1.symm ham
        · exact h1
      have ih' := ih hl' hm'
      rw [List.filter_cons, List.filter_cons, Gillespie.fset_ne _ _ _ _ ham]
      by_cases h3 : st a = x
      · simp only [h3, decide_true, if_true, List.length_cons, Nat.cast_add, Nat.cast_one] at ih' ⊢
        omega
      · simp only [h3, decide_false, Bool.false_eq_true, if_false] at ih' ⊢
        exact ih'

theorem countSt_fset (P : SCParams σ) (h : WF P) (st : Node → σ) (m : Node) (hm : m ∈ P.nodes) (new x : σ) :
    countSt P (fset st m new) x = countSt P st x - (if st m = x then 1 else 0) + (if new = x then 1 else 0) :=
  count_fset st m new x P.nodes h.nodup hm

/-! ### applying an event -/

theorem applyEvent_core (P : SCParams σ) (h : WF P) (s : SCState σ) (hs : Inv P s) (e : SCEvent) (t : Rat)
    (src : Option Node) (m : Node) (old new : σ) (hdec : decode P e = some (src, m, old, new))
    (hm : m ∈ P.nodes) (hold : s.status m = old) :
    ∃ s', applyEvent P s e t = some s' ∧ Inv P s' ∧ s'.status = fset s.status m new := by
  subst hold
  obtain ⟨ps, hps, hpsl, hpsq⟩ := mapPT_spec P.spont s.ptS (updSpontOne (s.status m) new m)
    (SpontOK (· ∈ P.nodes) s.status) (SpontOK (· ∈ P.nodes) (fset s.status m new)) hs.lenS
    (fun i tr ld h1 h2 => hs.spont i tr ld h1 h2)
    (fun tr ld htr hq => updSpontOne_spec P h s.status m hm new tr htr ld hq)
  obtain ⟨pi, hpi, hpil, hpiq⟩ := mapPT_spec P.ind s.ptI (updIndOne P (fset s.status m new) (s.status m) new m)
    (IndOK P (· ∈ P.nodes) s.status) (IndOK P (· ∈ P.nodes) (fset s.status m new)) hs.lenI
    (fun i tr ld h1 h2 => hs.ind i tr ld h1 h2)
    (fun tr ld htr hq => updIndOne_spec P h s.status m hm new tr htr ld hq)
  have e : applyEvent P s e t = some
      { status := fset s.status m new, ptS := ps, ptI := pi, times := t :: s.times,
        data := (List.zip P.ret s.data).map fun x =>
          (if new = x.fst then (if s.status m = x.fst then x.snd.headD 0 - 1 else x.snd.headD 0) + 1
            else if s.status m = x.fst then x.snd.headD 0 - 1 else x.snd.headD 0) :: x.snd,
        log := (t, src, m, new) :: s.log } := by
    unfold applyEvent
    simp only [hdec, Option.bind_eq_bind, Option.bind_some, hps, hpi]
    rfl
  refine ⟨_, e, ?_, rfl⟩
  · refine ⟨hpsl, hpil, fun i tr ld h1 h2 => hpsq i tr ld h1 h2, fun i tr ld h1 h2 => hpiq i tr ld h1 h2, ?_, ?_⟩
    · simp [hs.counts.1]
    · intro i hi
      have hi' : i < s.data.length := by rw [hs.counts.1]; exact hi
      have hc := hs.counts.2 i hi
      rw [getD_eq_getElem' _ _ hi', getD_eq_getElem' _ _ hi] at hc
      rw [getD_eq_getElem' _ _ (by simp [hs.counts.1, hi]), getD_eq_getElem' _ _ hi]
      simp only [List.getElem_map, List.getElem_zip, List.headD_cons]
      rw [countSt_fset P h s.status m hm new, hc]
      by_cases h1 : new = P.ret[i] <;> by_cases h2 : s.status m = P.ret[i] <;> simp [h1, h2]

theorem applyEvent_inv' (P : SCParams σ) (h : WF P) (s : SCState σ) (hs : Inv P s) (e : SCEvent) (t : Rat)
    (he : Enabled s e) :
    ∃ src m old new s', decode P e = some (src, m, old, new) ∧ s.status m = old ∧
      (∀ u, src = some u → m ∈ P.succ u ∧ ∃ tr, P.ind[e.idx - P.spont.length]? = some tr ∧ s.status u = tr.a) ∧
      applyEvent P s e t = some s' ∧ Inv P s' ∧ s'.status = fset s.status m new := by
  obtain ⟨ld, hld, hact⟩ := he
  by_cases hlt : e.idx < P.spont.length
  · have hlt' : e.idx < s.ptS.length := by rw [hs.lenS]; exact hlt
    rw [List.getElem?_append_left hlt'] at hld
    have htr : P.spont[e.idx]? = some P.spont[e.idx] := List.getElem?_eq_getElem hlt
    obtain ⟨-, -, hmem, -⟩ := hs.spont e.idx _ ld htr hld
    obtain ⟨u, hu, hun, hsu⟩ := (hmem e.actor).1 hact
    have hdec : decode P e = some (none, u, (P.spont[e.idx]).src, (P.spont[e.idx]).dst) := by
      unfold decode
      rw [if_pos hlt, htr, hu]
    obtain ⟨s', h1, h2, h3⟩ := applyEvent_core P h s hs e t none u _ (P.spont[e.idx]).dst hdec hun hsu
    exact ⟨none, u, _, _, s', hdec, hsu, (by intro u' hc; cases hc), h1, h2, h3⟩
  · have hge : s.ptS.length ≤ e.idx := by rw [hs.lenS]; exact Nat.le_of_not_lt hlt
    rw [List.getElem?_append_right hge, hs.lenS] at hld
    have hlt2 : e.idx - P.spont.length < P.ind.length := by
      rw [← hs.lenI]
      exact (List.getElem?_eq_some_iff.1 hld).1
    have htr : P.ind[e.idx - P.spont.length]? = some P.ind[e.idx - P.spont.length] :=
      List.getElem?_eq_getElem hlt2
    obtain ⟨-, -, hmem, -⟩ := hs.ind _ _ ld htr hld
    obtain ⟨u, v, huv, hun, hvu, hsu, hsv⟩ := (hmem e.actor).1 hact
    have hdec : decode P e = some (some u, v, (P.ind[e.idx - P.spont.length]).b,
        (P.ind[e.idx - P.spont.length]).c) := by
      unfold decode
      rw [if_neg hlt, htr, huv]
    have hvn : v ∈ P.nodes := h.succ_mem u hun v hvu
    obtain ⟨s', h1, h2, h3⟩ := applyEvent_core P h s hs e t (some u) v _ (P.ind[e.idx - P.spont.length]).c
      hdec hvn hsv
    refine ⟨some u, v, _, _, s', hdec, hsv, ?_, h1, h2, h3⟩
    intro u' hc
    obtain rfl : u = u' := Option.some.inj hc
    exact ⟨hvu, _, htr, hsu⟩

end Simple

/-! ### the initial state -/
namespace Simple
variable {σ : Type} [DecidableEq σ]

theorem initSpontOne_spec (P : SCParams σ) (h : WF P) (st : Node → σ) (u : Node) (D : Node → Prop) (hD : ¬ D u)
    (tr : SpontTr σ) (htr : tr ∈ P.spont) (ld : LD Actor) (hok : SpontOK D st tr ld) :
    ∃ ld', initSpontOne st u tr ld = some ld' ∧ SpontOK (fun x => D x ∨ x = u) st tr ld' := by
  obtain ⟨hinv, hwd, hmem, hgw⟩ := hok
  have hu : [u] ∉ ld.items := by
    rw [hmem]; rintro ⟨u', he, h1, -⟩
    obtain rfl : u = u' := by simpa using he
    exact hD h1
  unfold initSpontOne
  by_cases hsu : st u = tr.src
  · rw [if_pos hsu]
    obtain ⟨ld1, hld1⟩ := LD.update_exists ld [u] (wS tr u) (by rw [wS_isSome, hwd])
    obtain ⟨hwd1, hmem1, hget1⟩ := LD.update_any ld ld1 [u] (wS tr u) hld1
    have hinv1 : LD.Inv ld1 := LD.inv_update ld ld1 [u] (wS tr u) hinv (wS_nonneg P h tr htr u) hld1
    refine ⟨ld1, hld1, hinv1, hwd1.trans hwd, ?_, ?_⟩
    · intro a
      rw [hmem1, hmem]
      constructor
      · rintro (⟨u', rfl, h1, h2⟩ | rfl)
        · exact ⟨u', rfl, Or.inl h1, h2⟩
        · exact ⟨u, rfl, Or.inr rfl, hsu⟩
      · rintro ⟨u', rfl, h1 | rfl, h2⟩
        · exact Or.inl ⟨u', rfl, h1, h2⟩
        · exact Or.inr rfl
    · intro f hf u' hu'
      by_cases huu : u' = u
      · subst huu
        rw [wS_some tr f hf] at hld1
        rw [LD.update_getW_self ld ld1 [u'] (f u') hld1,
          LD.getW_of_not_mem ld hinv (by rw [hwd, hf]; rfl) [u'] hu]
        ring
      · have hne : [u'] ≠ [u] := by simpa using huu
        rw [hget1 [u'] hne]
        rcases (hmem1 [u']).1 hu' with h1 | h1
        · exact hgw f hf u' h1
        · exact absurd h1 hne
  · rw [if_neg hsu]
    refine ⟨ld, rfl, hinv, hwd, ?_, hgw⟩
    intro a
    rw [hmem]
    constructor
    · rintro ⟨u', rfl, h1, h2⟩
      exact ⟨u', rfl, Or.inl h1, h2⟩
    · rintro ⟨u', rfl, h1 | rfl, h2⟩
      · exact ⟨u', rfl, h1, h2⟩
      · exact absurd h2 hsu

def initOps (st : Node → σ) (u : Node) (tr : IndTr σ) (l : List Node) : List AOp :=
  l.flatMap fun v => B1 [u, v] False (st u = tr.a ∧ st v = tr.b) (wI tr u v)

theorem initIndNbrs_eq (st : Node → σ) (u : Node) (tr : IndTr σ) (l : List Node) (ld : LD Actor) :
    initIndNbrs st u tr l ld = ld.applyOps (initOps st u tr l) := by
  induction l generalizing ld with
  | nil => rfl
  | cons v rest ih =>
    unfold initOps at ih ⊢
    rw [List.flatMap_cons, initIndNbrs, LD.applyOps_append, applyOps_B1]
    rw [if_neg not_false, Option.bind_some]
    by_cases hc : st u = tr.a ∧ st v = tr.b
    · rw [if_pos hc, if_pos hc]
      cases ld.update [u, v] (wI tr u v) with
      | none => rfl
      | some ld1 => exact ih ld1
    · rw [if_neg hc, if_neg hc]
      exact ih ld

theorem initIndNbrs_spec (P : SCParams σ) (h : WF P) (st : Node → σ) (u : Node) (hu : u ∈ P.nodes)
    (D : Node → Prop) (hD : ¬ D u)
    (tr : IndTr σ) (htr : tr ∈ P.ind) (ld : LD Actor) (hok : IndOK P D st tr ld) :
    ∃ ld', initIndNbrs st u tr (P.succ u) ld = some ld' ∧ IndOK P (fun x => D x ∨ x = u) st tr ld' := by
  obtain ⟨hinv, hwd, hmem, hgw⟩ := hok
  have hfresh : ∀ v, [u, v] ∉ ld.items := by
    intro v
    rw [hmem]; rintro ⟨u', v', he, h1, -⟩
    obtain ⟨rfl, rfl⟩ : u = u' ∧ v = v' := by simpa using he
    exact hD h1
  have hU : ∀ y w, LD.Op.upd y w ∈ initOps st u tr (P.succ u) ↔
      ∃ v, v ∈ P.succ u ∧ y = [u, v] ∧ (st u = tr.a ∧ st v = tr.b) ∧ w = wI tr u v := by
    intro y w; unfold initOps; simp only [List.mem_flatMap, mem_B1_upd]
  have hR : ∀ y, LD.Op.rem y ∉ initOps st u tr (P.succ u) := by
    intro y; unfold initOps; simp only [List.mem_flatMap, mem_B1_rem, and_false, exists_false, not_false_eq_true]
  have hI : ∀ y w, LD.Op.ins y w ∉ initOps st u tr (P.succ u) := by
    intro y w; unfold initOps; simp only [List.mem_flatMap, mem_B1_ins, and_false, exists_false, not_false_eq_true]
  obtain ⟨ld', hl, hinv', hwd', hmem', hgw', hgo'⟩ :=
    LD.applyOps_spec2' (initOps st u tr (P.succ u)) ld hinv
      (by
        apply flatMap_pairwise _ (h.succ_nodup u hu)
        · intro v _; exact B1_pairwise _ _ _ _
        · intro v _ v' _ hne x hx y hy
          rw [key_of_mem_B1 _ _ _ _ x hx, key_of_mem_B1 _ _ _ _ y hy]
          simpa using hne)
      hI (fun x hx => absurd hx (hR x))
      (by
        intro x w hx
        obtain ⟨v, hv, rfl, -, rfl⟩ := (hU x w).1 hx
        exact ⟨Or.inl (hfresh v), by rw [wI_isSome, hwd], wI_nonneg P h tr htr u v⟩)
  refine ⟨ld', by rw [initIndNbrs_eq]; exact hl, hinv', hwd'.trans hwd, ?_, ?_⟩
  · intro a
    rw [hmem' a, hmem a]
    constructor
    · rintro (⟨⟨u', v', rfl, h1, h2⟩, -⟩ | ⟨w, hw⟩)
      · exact ⟨u', v', rfl, Or.inl h1, h2⟩
      · obtain ⟨v, hv, rfl, ⟨h1, h2⟩, -⟩ := (hU a w).1 hw
        exact ⟨u, v, rfl, Or.inr rfl, hv, h1, h2⟩
    · rintro ⟨u', v', rfl, h1 | rfl, h2, h3, h4⟩
      · exact Or.inl ⟨⟨u', v', rfl, h1, h2, h3, h4⟩, hR _⟩
      · exact Or.inr ⟨_, (hU _ _).2 ⟨v', h2, rfl, ⟨h3, h4⟩, rfl⟩⟩
  · intro f hf u' v' huv
    by_cases hup : ∃ w, LD.Op.upd [u', v'] w ∈ initOps st u tr (P.succ u)
    · obtain ⟨w, hw⟩ := hup
      obtain ⟨v, hv, he, -, rfl⟩ := (hU _ _).1 hw
      obtain ⟨rfl, rfl⟩ : u' = u ∧ v' = v := by simpa using he
      rw [wI_some tr f hf] at hw
      exact hgw' _ _ hw
    · obtain ⟨h1, h2⟩ := hgo' [u', v'] huv hup
      rw [h2]; exact hgw f hf u' v' h1

theorem SpontOK_congr (D D' : Node → Prop) (hDD : ∀ x, D x ↔ D' x) (st : Node → σ) (tr : SpontTr σ)
    (ld : LD Actor) (hok : SpontOK D st tr ld) : SpontOK D' st tr ld := by
  have : D = D' := funext fun x => propext (hDD x)
  rw [← this]; exact hok

theorem IndOK_congr (P : SCParams σ) (D D' : Node → Prop) (hDD : ∀ x, D x ↔ D' x) (st : Node → σ) (tr : IndTr σ)
    (ld : LD Actor) (hok : IndOK P D st tr ld) : IndOK P D' st tr ld := by
  have : D = D' := funext fun x => propext (hDD x)
  rw [← this]; exact hok

theorem initNodes_spec (P : SCParams σ) (h : WF P) (st : Node → σ) (l : List Node) (hl : l.Nodup)
    (hln : ∀ u ∈ l, u ∈ P.nodes) (D : Node → Prop) (hD : ∀ u ∈ l, ¬ D u) (ps pi : List (LD Actor))
    (lenS : ps.length = P.spont.length) (lenI : pi.length = P.ind.length)
    (hS : ∀ (i : Nat) tr ld, P.spont[i]? = some tr → ps[i]? = some ld → SpontOK D st tr ld)
    (hI : ∀ (i : Nat) tr ld, P.ind[i]? = some tr → pi[i]? = some ld → IndOK P D st tr ld) :
    ∃ ps' pi', initNodes P st l ps pi = some (ps', pi') ∧ ps'.length = P.spont.length ∧
      pi'.length = P.ind.length ∧
      (∀ (i : Nat) tr ld, P.spont[i]? = some tr → ps'[i]? = some ld → SpontOK (fun x => D x ∨ x ∈ l) st tr ld) ∧
      (∀ (i : Nat) tr ld, P.ind[i]? = some tr → pi'[i]? = some ld → IndOK P (fun x => D x ∨ x ∈ l) st tr ld) := by
  induction l generalizing D ps pi with
  | nil =>
    refine ⟨ps, pi, rfl, lenS, lenI, ?_, ?_⟩
    · intro i tr ld h1 h2
      exact SpontOK_congr D _ (by simp) st tr ld (hS i tr ld h1 h2)
    · intro i tr ld h1 h2
      exact IndOK_congr P D _ (by simp) st tr ld (hI i tr ld h1 h2)
  | cons u rest ih =>
    rw [List.nodup_cons] at hl
    obtain ⟨hur, hrest⟩ := hl
    have hu : u ∈ P.nodes := hln u (by simp)
    have hDu : ¬ D u := hD u (by simp)
    obtain ⟨ps1, hps1, hpsl, hpsq⟩ := mapPT_spec P.spont ps (initSpontOne st u)
      (SpontOK D st) (SpontOK (fun x => D x ∨ x = u) st) lenS hS
      (fun tr ld htr hq => initSpontOne_spec P h st u D hDu tr htr ld hq)
    obtain ⟨pi1, hpi1, hpil, hpiq⟩ := mapPT_spec P.ind pi (fun tr ld => initIndNbrs st u tr (P.succ u) ld)
      (IndOK P D st) (IndOK P (fun x => D x ∨ x = u) st) lenI hI
      (fun tr ld htr hq => initIndNbrs_spec P h st u hu D hDu tr htr ld hq)
    obtain ⟨ps', pi', hinit, hl1, hl2, hS', hI'⟩ := ih hrest (fun x hx => hln x (by simp [hx]))
      (fun x => D x ∨ x = u)
      (by
        intro x hx
        rintro (h1 | rfl)
        · exact hD x (by simp [hx]) h1
        · exact hur hx)
      ps1 pi1 hpsl hpil hpsq hpiq
    refine ⟨ps', pi', ?_, hl1, hl2, ?_, ?_⟩
    · simp only [initNodes, hps1, hpi1]; exact hinit
    · intro i tr ld h1 h2
      refine SpontOK_congr _ _ ?_ st tr ld (hS' i tr ld h1 h2)
      intro x; simp only [List.mem_cons, or_assoc]
    · intro i tr ld h1 h2
      refine IndOK_congr P _ _ ?_ st tr ld (hI' i tr ld h1 h2)
      intro x; simp only [List.mem_cons, or_assoc]

theorem init_inv' (P : SCParams σ) (h : WF P) (ic : Node → σ) (tmin : Rat) :
    ∃ s, init P ic tmin = some s ∧ Inv P s ∧ s.status = ic := by
  obtain ⟨ps, pi, hinit, hl1, hl2, hS, hI⟩ := initNodes_spec P h ic P.nodes h.nodup (fun u hu => hu)
    (fun _ => False) (fun _ _ hc => hc)
    (P.spont.map fun tr => LD.empty tr.w.isSome) (P.ind.map fun tr => LD.empty tr.w.isSome)
    (by simp) (by simp)
    (by
      intro i tr ld h1 h2
      rw [List.getElem?_map, h1] at h2
      obtain rfl := Option.some.inj h2
      exact ⟨LD.inv_empty _, rfl, by simp [LD.empty], by simp [LD.empty]⟩)
    (by
      intro i tr ld h1 h2
      rw [List.getElem?_map, h1] at h2
      obtain rfl := Option.some.inj h2
      exact ⟨LD.inv_empty _, rfl, by simp [LD.empty], by simp [LD.empty]⟩)
  have e : init P ic tmin = some
      { status := ic, ptS := ps, ptI := pi, times := [tmin],
        data := (P.ret.map fun x => [countSt P ic x]), log := [] } := by
    simp only [init, hinit]
  refine ⟨_, e, ⟨hl1, hl2, ?_, ?_, ?_, ?_⟩, rfl⟩
  · intro i tr ld h1 h2
    exact SpontOK_congr _ _ (by simp) ic tr ld (hS i tr ld h1 h2)
  · intro i tr ld h1 h2
    exact IndOK_congr P _ _ (by simp) ic tr ld (hI i tr ld h1 h2)
  · simp
  · intro i hi
    show ((P.ret.map fun x => [countSt P ic x]).getD i []).headD 0 = countSt P ic (P.ret.getD i (ic 0))
    rw [getD_eq_getElem' _ _ (by simpa using hi), getD_eq_getElem' _ _ hi]
    simp

end Simple

/-! ### selection, main loop -/
namespace Simple
variable {σ : Type} [DecidableEq σ]

theorem pick_enabled' (P : SCParams σ) (s : SCState σ) (cfuel : Nat) (ts ts' : TapeSt) (e : SCEvent)
    (hp : pick P s cfuel ts = .ok (e, ts')) : Enabled s e := by
  unfold pick at hp
  obtain ⟨r, ts1, -, h2⟩ := TM.bind_ok _ _ _ _ _ hp
  dsimp only at h2
  cases hld : (s.ptS ++ s.ptI)[pickIdx ((rateList P s).map fun x => x / totalRate P s) r]? with
  | none => rw [hld] at h2; exact absurd h2 (TM.fail_ne_ok _ _ _)
  | some ld =>
    rw [hld] at h2
    obtain ⟨a, ts2, h3, h4⟩ := TM.bind_ok _ _ _ _ _ h2
    obtain ⟨rfl, -⟩ := TM.pure_ok _ _ _ _ h4
    exact ⟨ld, hld, Gillespie.chooseTM_mem _ _ _ _ _ _ h3⟩

theorem loop_inv' (P : SCParams σ) (h : WF P) (tmax : ERat) (cfuel fuel : Nat) (s s' : SCState σ) (t : ERat)
    (ts ts' : TapeSt) (hs : Inv P s) (hl : loop P tmax cfuel fuel s t ts = .ok (s', ts')) : Inv P s' := by
  induction fuel generalizing s t ts with
  | zero => rw [loop] at hl; exact absurd hl (TM.fail_ne_ok _ _ _)
  | succ fuel ih =>
    cases t with
    | none =>
      rw [loop] at hl
      obtain ⟨rfl, -⟩ := TM.pure_ok _ _ _ _ hl; exact hs
    | some tv =>
      rw [loop] at hl
      dsimp only at hl
      split at hl
      · obtain ⟨rfl, -⟩ := TM.pure_ok _ _ _ _ hl; exact hs
      · obtain ⟨e, ts1, h1, h2⟩ := TM.bind_ok _ _ _ _ _ hl
        obtain ⟨_, _, _, _, s1, -, -, -, hs1, hinv1, -⟩ :=
          applyEvent_inv' P h s hs e tv (pick_enabled' P s cfuel ts ts1 e h1)
        rw [hs1] at h2
        dsimp only at h2
        split at h2
        · obtain ⟨d, ts2, -, h4⟩ := TM.bind_ok _ _ _ _ _ h2
          exact ih s1 _ ts2 hinv1 h4
        · exact ih s1 _ ts1 hinv1 h2

theorem run_inv' (P : SCParams σ) (h : WF P) (ic : Node → σ) (tmin : Rat) (tmax : ERat) (fuel cfuel : Nat)
    (ts ts' : TapeSt) (s' : SCState σ) (hr : run P ic tmin tmax fuel cfuel ts = .ok (s', ts')) : Inv P s' := by
  obtain ⟨s0, h0, hinv0, -⟩ := init_inv' P h ic tmin
  unfold run at hr
  rw [h0] at hr
  dsimp only at hr
  split at hr
  · obtain ⟨d, ts1, -, h2⟩ := TM.bind_ok _ _ _ _ _ hr
    exact loop_inv' P h tmax cfuel fuel s0 s' _ ts1 ts' hinv0 h2
  · exact loop_inv' P h tmax cfuel fuel s0 s' _ ts ts' hinv0 hr

/-- no `KeyError` ever: the only place the model raises it is a failed `applyEvent` / `init` -/
theorem loop_no_keyerror (P : SCParams σ) (h : WF P) (tmax : ERat) (cfuel fuel : Nat) (s : SCState σ) (t : ERat)
    (ts : TapeSt) (hs : Inv P s) : loop P tmax cfuel fuel s t ts ≠ .error "KeyError" := by
  induction fuel generalizing s t ts with
  | zero =>
    rw [loop]; simp only [TM.fail]; intro hc
    injection hc with hc
    exact absurd hc (by decide)
  | succ fuel ih =>
    intro hl
    cases t with
    | none => rw [loop] at hl; exact absurd hl (TM.pure_ne_err _ _ _)
    | some tv =>
      rw [loop] at hl
      dsimp only at hl
      split at hl
      · exact absurd hl (TM.pure_ne_err _ _ _)
      · rcases TM.bind_err _ _ _ _ hl with h1 | ⟨e, ts1, h1, h2⟩
        · unfold pick at h1
          rcases TM.bind_err _ _ _ _ h1 with h3 | ⟨r, ts2, -, h4⟩
          · exact TM.popUnif_err _ _ h3 rfl
          · dsimp only at h4
            cases hld : (s.ptS ++ s.ptI)[pickIdx ((rateList P s).map fun x => x / totalRate P s) r]? with
            | none =>
              rw [hld] at h4
              simp only [TM.fail] at h4
              injection h4 with h4
              exact absurd h4 (by decide)
            | some ld =>
              rw [hld] at h4
              rcases TM.bind_err _ _ _ _ h4 with h5 | ⟨a, ts3, -, h6⟩
              · exact Gillespie.chooseTM_err _ _ _ _ _ h5 rfl
              · exact absurd h6 (TM.pure_ne_err _ _ _)
        · obtain ⟨_, _, _, _, s1, -, -, -, hs1, hinv1, -⟩ :=
            applyEvent_inv' P h s hs e tv (pick_enabled' P s cfuel ts ts1 e h1)
          rw [hs1] at h2
          dsimp only at h2
          split at h2
          · rcases TM.bind_err _ _ _ _ h2 with h3 | ⟨d, ts2, -, h4⟩
            · exact TM.popExpo_err _ _ _ h3 rfl
            · exact ih s1 _ ts2 hinv1 h4
          · exact ih s1 _ ts1 hinv1 h2

theorem beq_inst_eq (a : Actor) : (fun o : Option Actor => o == some a) =
    (fun o => @BEq.beq (Option Actor) (@Option.instBEq Actor instBEqOfDecidableEq) o (some a)) := by
  funext o; rw [Bool.eq_iff_iff]; simp

theorem actor_law' (ld : LD Actor) (hinv : LD.Inv ld) (a : Actor) (ha : a ∈ ld.items) (k : Nat) (hk : 0 < k)
    (hpos : ld.weighted = true → 0 < ld.weightSum) :
    Dist.mass (ld.chooseDist k) (fun o => o == some a) =
      if ld.weighted then ld.getW a / ld.weightSum * (1 - ld.rejProb ^ k) else 1 / (ld.items.length : Rat) := by
  rw [beq_inst_eq]
  cases hw : ld.weighted with
  | true =>
    simp only [if_true]
    exact LD.choose_law ld hinv hw (hpos hw) a ha k
  | false =>
    simp only [Bool.false_eq_true, if_false]
    obtain ⟨k', rfl⟩ : ∃ k', k = k' + 1 := ⟨k - 1, by omega⟩
    exact LD.choose_law_unweighted ld hinv hw a ha k'

theorem inv_of_getElem (P : SCParams σ) (s : SCState σ) (hs : Inv P s) (i : Nat) (ld : LD Actor)
    (hl : (s.ptS ++ s.ptI)[i]? = some ld) : LD.Inv ld := by
  by_cases hlt : i < s.ptS.length
  · rw [List.getElem?_append_left hlt] at hl
    have hlt' : i < P.spont.length := by rw [← hs.lenS]; exact hlt
    exact (hs.spont i _ ld (List.getElem?_eq_getElem hlt') hl).1
  · have hge : s.ptS.length ≤ i := Nat.le_of_not_lt hlt
    rw [List.getElem?_append_right hge] at hl
    have hlt2 : i - s.ptS.length < P.ind.length := by
      rw [← hs.lenI]
      exact (List.getElem?_eq_some_iff.1 hl).1
    exact (hs.ind _ _ ld (List.getElem?_eq_getElem hlt2) hl).1

end Simple

/-! ### the clock -/
namespace Simple
variable {σ : Type} [DecidableEq σ]

theorem zipWith_sum {τ : Type} (trs : List τ) (pts : List (LD Actor)) (g : τ → LD Actor → Rat) (g' : τ → Rat)
    (hlen : pts.length = trs.length)
    (hh : ∀ (i : Nat) tr ld, trs[i]? = some tr → pts[i]? = some ld → g tr ld = g' tr) :
    sumRat (List.zipWith g trs pts) = sumRat (trs.map g') := by
  induction trs generalizing pts with
  | nil => simp
  | cons tr trs ih =>
    cases pts with
    | nil => simp at hlen
    | cons ld pts =>
      simp only [List.zipWith_cons_cons, List.map_cons, sumRat_cons]
      rw [hh 0 tr ld rfl rfl, ih pts (by simpa using hlen)
        (fun i tr' ld' h1 h2 => hh (i + 1) tr' ld' (by simpa using h1) (by simpa using h2))]

/-- rate × total weight of a candidate structure whose items are (a permutation of) the keys of a list of
enabled events with rates `rate · weight` -/
theorem rate_eq_generic {ι : Type} (E : List (ι × Rat)) (key : ι → Actor) (ld : LD Actor) (hinv : LD.Inv ld)
    (rate : Rat) (W : ι → Option Rat)
    (hperm : ld.items.Perm (E.map fun e => key e.1))
    (hnone : ld.weighted = false → ∀ e ∈ E, W e.1 = none)
    (hsome : ld.weighted = true → ∀ e ∈ E, W e.1 = some (ld.getW (key e.1)))
    (hE : ∀ e ∈ E, e.2 = rate * (W e.1).getD 1) :
    rate * ld.totalWeight = sumRat (E.map (·.2)) := by
  unfold LD.totalWeight
  cases hw : ld.weighted with
  | false =>
    simp only [Bool.false_eq_true, if_false]
    rw [sumRat_map_congr E (·.2) (fun _ => rate * 1) (by
      intro e he; rw [hE e he, hnone hw e he]; rfl)]
    rw [sumRat_map_const, hperm.length_eq, List.length_map]; ring
  | true =>
    simp only [if_true]
    rw [hinv.total hw]
    unfold LD.weightSum
    rw [sumRat_perm (hperm.map ld.getW), List.map_map]
    rw [sumRat_map_congr E (·.2) (fun e => rate * ld.getW (key e.1)) (by
      intro e he; rw [hE e he, hsome hw e he]; rfl)]
    rw [sumRat_map_mul_left]
    rfl

theorem spont_rate_eq (P : SCParams σ) (h : WF P) (st : Node → σ) (tr : SpontTr σ) (ld : LD Actor)
    (hok : SpontOK (· ∈ P.nodes) st tr ld) :
    tr.rate * ld.totalWeight = sumRat ((enabledS P st tr).map (·.2)) := by
  obtain ⟨hinv, hwd, hmem, hgw⟩ := hok
  have hkeys : (enabledS P st tr).map (fun e => [e.1]) = (P.nodes.filter fun u => st u = tr.src).map fun u => [u] := by
    unfold enabledS; rw [List.map_map]; rfl
  have hperm : ld.items.Perm ((enabledS P st tr).map fun e => [e.1]) := by
    rw [hkeys]
    apply (List.perm_ext_iff_of_nodup hinv.nodup ?_).2
    · intro a
      rw [hmem]
      simp only [List.mem_map, List.mem_filter, decide_eq_true_eq]
      constructor
      · rintro ⟨u, rfl, h1, h2⟩; exact ⟨u, ⟨h1, h2⟩, rfl⟩
      · rintro ⟨u, ⟨h1, h2⟩, rfl⟩; exact ⟨u, rfl, h1, h2⟩
    · refine List.Nodup.map ?_ (h.nodup.filter _)
      intro a b hab
      simpa using hab
  have hEmem : ∀ e ∈ enabledS P st tr, [e.1] ∈ ld.items ∧ e.2 = tr.rate * (wS tr e.1).getD 1 := by
    intro e he
    refine ⟨hperm.symm.subset (List.mem_map.2 ⟨e, he, rfl⟩), ?_⟩
    unfold enabledS at he
    obtain ⟨u, -, rfl⟩ := List.mem_map.1 he
    rfl
  apply rate_eq_generic (enabledS P st tr) (fun u => [u]) ld hinv tr.rate (wS tr) hperm
  · intro hw e _
    have : tr.w = none := by
      rw [hwd] at hw; cases hf : tr.w with
      | none => rfl
      | some f => rw [hf] at hw; cases hw
    simp [wS, this]
  · intro hw e he
    cases hf : tr.w with
    | none => rw [hwd, hf] at hw; cases hw
    | some f => rw [wS_some tr f hf, hgw f hf e.1 (hEmem e he).1]
  · intro e he; exact (hEmem e he).2

theorem ind_rate_eq (P : SCParams σ) (h : WF P) (st : Node → σ) (tr : IndTr σ) (ld : LD Actor)
    (hok : IndOK P (· ∈ P.nodes) st tr ld) :
    tr.rate * ld.totalWeight = sumRat ((enabledI P st tr).map (·.2)) := by
  obtain ⟨hinv, hwd, hmem, hgw⟩ := hok
  have hkeys : (enabledI P st tr).map (fun e => [e.1.1, e.1.2]) =
      P.nodes.flatMap fun u =>
        if st u = tr.a then ((P.succ u).filter fun v => st v = tr.b).map fun v => [u, v] else [] := by
    unfold enabledI
    rw [List.map_flatMap]
    congr 1
    funext u
    split
    · rw [List.map_map]; rfl
    · rfl
  have hperm : ld.items.Perm ((enabledI P st tr).map fun e => [e.1.1, e.1.2]) := by
    rw [hkeys]
    apply (List.perm_ext_iff_of_nodup hinv.nodup ?_).2
    · intro a
      rw [hmem]
      simp only [List.mem_flatMap]
      constructor
      · rintro ⟨u, v, rfl, h1, h2, h3, h4⟩
        refine ⟨u, h1, ?_⟩
        rw [if_pos h3]
        simp only [List.mem_map, List.mem_filter, decide_eq_true_eq]
        exact ⟨v, ⟨h2, h4⟩, rfl⟩
      · rintro ⟨u, h1, ha⟩
        split at ha
        · rename_i h3
          simp only [List.mem_map, List.mem_filter, decide_eq_true_eq] at ha
          obtain ⟨v, ⟨h2, h4⟩, rfl⟩ := ha
          exact ⟨u, v, rfl, h1, h2, h3, h4⟩
        · cases ha
    · rw [List.nodup_flatMap]
      constructor
      · intro x hx
        split
        · refine List.Nodup.map ?_ ((h.succ_nodup x hx).filter _)
          intro a b hab
          simpa using hab
        · exact List.nodup_nil
      · refine h.nodup.pairwise_of_forall_ne ?_
        intro a _ b _ hab
        have key : ∀ (x : Node) (p : Actor),
            p ∈ (if st x = tr.a then ((P.succ x).filter fun v => st v = tr.b).map fun v => [x, v] else []) →
            p.head? = some x := by
          intro x p hp
          split at hp
          · simp only [List.mem_map] at hp
            obtain ⟨y, -, rfl⟩ := hp
            rfl
          · cases hp
        intro p hp1 hp2
        have := (key a p hp1).symm.trans (key b p hp2)
        exact hab (Option.some.inj this)
  have hEmem : ∀ e ∈ enabledI P st tr, [e.1.1, e.1.2] ∈ ld.items ∧
      e.2 = tr.rate * (wI tr e.1.1 e.1.2).getD 1 := by
    intro e he
    refine ⟨hperm.symm.subset (List.mem_map.2 ⟨e, he, rfl⟩), ?_⟩
    unfold enabledI at he
    obtain ⟨u, -, he⟩ := List.mem_flatMap.1 he
    split at he
    · obtain ⟨v, -, rfl⟩ := List.mem_map.1 he
      rfl
    · cases he
  apply rate_eq_generic (enabledI P st tr) (fun p => [p.1, p.2]) ld hinv tr.rate (fun p => wI tr p.1 p.2) hperm
  · intro hw e _
    have : tr.w = none := by
      rw [hwd] at hw; cases hf : tr.w with
      | none => rfl
      | some f => rw [hf] at hw; cases hw
    simp [wI, this]
  · intro hw e he
    cases hf : tr.w with
    | none => rw [hwd, hf] at hw; cases hw
    | some f => rw [wI_some tr f hf, hgw f hf e.1.1 e.1.2 (hEmem e he).1]
  · intro e he; exact (hEmem e he).2

theorem clock_eq' (P : SCParams σ) (h : WF P) (s : SCState σ) (hs : Inv P s) :
    totalRate P s = specTotal P s.status := by
  unfold totalRate rateList specTotal
  rw [sumRat_append,
    zipWith_sum P.spont s.ptS _ (fun tr => sumRat ((enabledS P s.status tr).map (·.2))) hs.lenS
      (fun i tr ld h1 h2 => spont_rate_eq P h s.status tr ld (hs.spont i tr ld h1 h2)),
    zipWith_sum P.ind s.ptI _ (fun tr => sumRat ((enabledI P s.status tr).map (·.2))) hs.lenI
      (fun i tr ld h1 h2 => ind_rate_eq P h s.status tr ld (hs.ind i tr ld h1 h2))]

end Simple

namespace Simple
variable {σ : Type} [DecidableEq σ]

theorem run_no_keyerror' (P : SCParams σ) (h : WF P) (ic : Node → σ) (tmin : Rat) (tmax : ERat) (fuel cfuel : Nat)
    (ts : TapeSt) : run P ic tmin tmax fuel cfuel ts ≠ .error "KeyError" := by
  obtain ⟨s0, h0, hinv0, -⟩ := init_inv' P h ic tmin
  intro hr
  unfold run at hr
  rw [h0] at hr
  dsimp only at hr
  split at hr
  · rcases TM.bind_err _ _ _ _ hr with h3 | ⟨d, ts2, -, h4⟩
    · exact TM.popExpo_err _ _ _ h3 rfl
    · exact loop_no_keyerror P h tmax cfuel fuel s0 _ ts2 hinv0 h4
  · exact loop_no_keyerror P h tmax cfuel fuel s0 _ ts hinv0 hr

end Simple
