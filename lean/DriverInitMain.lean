import DriverInit
partial def loopInit (h : IO.FS.Stream) (out : IO.FS.Stream) : IO Unit := do
  let line ← h.getLine
  if line.isEmpty then return ()
  out.putStrLn (DrvGenInit.handle line)
  loopInit h out
def main : IO Unit := do loopInit (← IO.getStdin) (← IO.getStdout)
