import EoNVerif.Model.ODE
import EoNVerif.Proofs.ListDict
import Mathlib.Algebra.Polynomial.Derivative
import Mathlib.Algebra.Polynomial.Eval.Defs
/-!
Definitions and helper lemmas for C07 (semiconjugacy of the ODE models): the EBCM change of variables, the coefficient
polynomial of the generating function, the "all mass in one degree class" vector, and the sum lemmas that rewrite the
degree-class sums of the compact pairwise model in terms of `psiH`, `psiHP`, `psiHDP`.
-/
namespace ODE
open Polynomial

/-! ## EBCM change of variables -/
section EBCM
variable (K : Nat) (c : Nat → Rat) (N tau gamma phiS0 phiR0 : Rat)

/-- probability that a random neighbour of a test node is susceptible / recovered / infected, in EBCM variables -/
def phiS (theta : Rat) : Rat := phiS0 * psiHP K c theta / psiHP K c 1
def phiR (theta : Rat) : Rat := phiR0 + gamma * (1 - theta) / tau
def phiI (theta : Rat) : Rat := theta - phiS K c phiS0 theta - phiR tau gamma phiR0 theta
/-- the pair counts [SS], [SI] as functions of θ -/
def SSof (theta : Rat) : Rat := N * psiHP K c theta * phiS K c phiS0 theta
def SIof (theta : Rat) : Rat := N * psiHP K c theta * phiI K c tau gamma phiS0 phiR0 theta
/-- their θ-derivatives (uses ψ̂'' = (ψ̂')', see `psiHP_deriv`) -/
def dSSof (theta : Rat) : Rat :=
  N * (psiHDP K c theta * phiS K c phiS0 theta + psiHP K c theta * (phiS0 * psiHDP K c theta / psiHP K c 1))
def dSIof (theta : Rat) : Rat :=
  N * (psiHDP K c theta * phiI K c tau gamma phiS0 phiR0 theta
       + psiHP K c theta * (1 - phiS0 * psiHDP K c theta / psiHP K c 1 + gamma / tau))

end EBCM

/-- the coefficient polynomial of `psiH` -/
noncomputable def psiHPoly (K : Nat) (c : Nat → Rat) : ℚ[X] := ((List.range K).map fun k => C (c k) * X ^ k).sum

/-- all mass in degree class `n` -/
def only (n : Nat) (x : Rat) : Nat → Rat := fun k => if k = n then x else 0

/-! ## sums over degree classes -/

theorem sumTo_congr (K : Nat) (f g : Nat → Rat) (h : ∀ k, k < K → f k = g k) : sumTo K f = sumTo K g := by
  unfold sumTo
  apply sumRat_map_congr
  intro k hk
  exact h k (List.mem_range.1 hk)

theorem sumTo_mul_left (K : Nat) (f : Nat → Rat) (a : Rat) : sumTo K (fun k => a * f k) = a * sumTo K f :=
  sumRat_map_mul_left _ _ _

/-- a sum whose terms vanish off the index `n < K` -/
theorem sumTo_single (K n : Nat) (hn : n < K) (g : Nat → Rat) (h : ∀ k, k ≠ n → g k = 0) : sumTo K g = g n := by
  have e : sumTo K g = sumTo K (fun k => g k * (if k = n then 1 else 0)) := by
    apply sumTo_congr
    intro k _
    by_cases hk : k = n
    · simp [hk]
    · simp [hk, h k hk]
  rw [e]
  unfold sumTo
  exact sumRat_indicator _ n g List.nodup_range (List.mem_range.2 hn)

/-- Σ_k N c_k θ^k = N ψ̂(θ) -/
theorem sumTo_S (K : Nat) (c : Nat → Rat) (N theta : Rat) :
    sumTo K (fun k => N * c k * theta ^ k) = N * psiH K c theta := by
  unfold psiH
  rw [← sumTo_mul_left]
  apply sumTo_congr
  intro k _
  ring

/-- Σ_k k N c_k θ^k = N θ ψ̂'(θ) -/
theorem sumTo_kS (K : Nat) (c : Nat → Rat) (N theta : Rat) :
    sumTo K (fun k => kf k * (N * c k * theta ^ k)) = N * theta * psiHP K c theta := by
  unfold psiHP
  rw [← sumTo_mul_left]
  apply sumTo_congr
  intro k _
  cases k with
  | zero => simp [kf]
  | succ k =>
    simp only [Nat.add_sub_cancel, pow_succ]
    ring

/-- Σ_k k (k-1) N c_k θ^k = N θ² ψ̂''(θ) -/
theorem sumTo_kkS (K : Nat) (c : Nat → Rat) (N theta : Rat) :
    sumTo K (fun k => kf k * (kf k - 1) * (N * c k * theta ^ k)) = N * theta ^ 2 * psiHDP K c theta := by
  unfold psiHDP
  rw [← sumTo_mul_left]
  apply sumTo_congr
  intro k _
  match k with
  | 0 => simp [kf]
  | 1 => simp [kf]
  | k + 2 =>
    simp only [Nat.add_sub_cancel, pow_add]
    ring

/-! ## polynomials -/

theorem eval_list_sum_map (l : List Nat) (g : Nat → ℚ[X]) (x : ℚ) :
    ((l.map g).sum).eval x = sumRat (l.map fun k => (g k).eval x) := by
  induction l with
  | nil => simp
  | cons a t ih => simp [ih]

theorem derivative_list_sum_map (l : List Nat) (g : Nat → ℚ[X]) :
    derivative ((l.map g).sum) = (l.map fun k => derivative (g k)).sum := by
  induction l with
  | nil => simp
  | cons a t ih => simp [ih]

end ODE
