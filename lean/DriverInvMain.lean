import DriverInv
partial def loopInv (h : IO.FS.Stream) (out : IO.FS.Stream) : IO Unit := do
  let line ← h.getLine
  if line.isEmpty then return ()
  out.putStrLn (DrvGenInv.handle line)
  loopInv h out
def main : IO Unit := do loopInv (← IO.getStdin) (← IO.getStdout)
