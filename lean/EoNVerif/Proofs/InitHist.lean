import EoNVerif.Model.InitArgs
import EoNVerif.Model.History
import Mathlib.Data.Rat.Floor
import Mathlib.Tactic.Linarith
/-!
Helper lemmas for C05b: `InitArgs` (argument normalisation) and `History` (node histories from event times).
-/

namespace InitArgs

theorem roundHalfEven_spec' (x : Rat) :
    x - (roundHalfEven x : Rat) ≤ 1 / 2 ∧ (roundHalfEven x : Rat) - x ≤ 1 / 2 ∧
    (x - (x.floor : Rat) = 1 / 2 → (roundHalfEven x) % 2 = 0) := by
  have hfl : (x.floor : Rat) ≤ x := Rat.floor_le x
  have hlt : x < (x.floor : Rat) + 1 := by
    have := (Rat.floor_lt_iff (a := x) (x := x.floor + 1)).mp (by omega)
    push_cast at this
    exact this
  unfold roundHalfEven
  simp only
  split
  · rename_i h
    refine ⟨by linarith, by linarith, ?_⟩
    intro he; linarith
  · rename_i h
    split
    · rename_i h'
      push_cast
      refine ⟨by linarith, by linarith, ?_⟩
      intro he; linarith
    · rename_i h'
      have he : x - (x.floor : Rat) = 1 / 2 := by linarith
      split
      · rename_i h2
        refine ⟨by linarith, by linarith, fun _ => h2⟩
      · rename_i h2
        push_cast
        refine ⟨by linarith, by linarith, fun _ => by omega⟩

theorem popSample_ok (n k : Nat) (ts ts' : TapeSt) (l : List Nat)
    (h : TM.popSample n k ts = .ok (l, ts')) : l.length = k ∧ l.Nodup ∧ ∀ u ∈ l, u < n := by
  unfold TM.popSample at h
  split at h
  · cases h
  · split at h
    · split at h
      · rename_i hc
        cases h
        obtain ⟨h1, h2, h3⟩ := hc
        refine ⟨h1, h3, ?_⟩
        intro u hu
        simpa using (List.all_eq_true.mp h2) u hu
      · cases h
    · cases h
    · cases h

end InitArgs

namespace Pred

theorem nondecreasing_append (l : List Rat) (x : Rat) (h : nondecreasing l = true)
    (hl : ∀ y, l.getLast? = some y → y ≤ x) : nondecreasing (l ++ [x]) = true := by
  induction l with
  | nil => simp [nondecreasing]
  | cons a t ih =>
    cases t with
    | nil =>
      have := hl a (by simp)
      simp [nondecreasing, this]
    | cons b t' =>
      simp only [nondecreasing, Bool.and_eq_true, decide_eq_true_eq, List.cons_append] at h ⊢
      refine ⟨h.1, ?_⟩
      apply ih h.2
      intro y hy; apply hl; simpa [List.getLast?_cons_cons] using hy

theorem pairwise_append (legal : String → String → Bool) (l : List String) (x : String)
    (h : pairwise legal l = true)
    (hl : ∀ y, l.getLast? = some y → legal y x = true) : pairwise legal (l ++ [x]) = true := by
  induction l with
  | nil => simp [pairwise]
  | cons a t ih =>
    cases t with
    | nil =>
      have := hl a (by simp)
      simp [pairwise, this]
    | cons b t' =>
      simp only [pairwise, Bool.and_eq_true, List.cons_append] at h ⊢
      refine ⟨h.1, ?_⟩
      apply ih h.2
      intro y hy; apply hl; simpa [List.getLast?_cons_cons] using hy

theorem histWFg_append (legal : List (String × String)) (tmin : Rat) (h : Hist) (tl t : Rat) (sl s : String)
    (hwf : histWFg legal tmin h = true) (hlast : h.getLast? = some (tl, sl)) (hle : tl ≤ t)
    (hleg : legal.contains (sl, s) = true) : histWFg legal tmin (h ++ [(t, s)]) = true := by
  unfold histWFg histTimesOrdered at *
  simp only [Bool.and_eq_true] at hwf ⊢
  obtain ⟨⟨h1, h2⟩, h3⟩ := hwf
  refine ⟨⟨?_, ?_⟩, ?_⟩
  · cases h with
    | nil => simp at hlast
    | cons a t => simpa using h1
  · rw [List.map_append]
    apply nondecreasing_append _ _ h2
    intro y hy
    rw [List.getLast?_map, hlast] at hy
    simp at hy; rw [← hy]; exact hle
  · rw [List.map_append]
    apply pairwise_append _ _ _ h3
    intro y hy
    rw [List.getLast?_map, hlast] at hy
    simp at hy; rw [← hy]; exact hleg

end Pred

namespace History
open Pred

theorem sisLoop_wf (tmin : Rat) (infs : List Rat) : ∀ (recs : List Rat) (h : Hist) (tl : Rat),
    histWF false tmin h = true → h.getLast? = some (tl, "S") →
    (recs.length ≤ infs.length ∧ infs.length ≤ recs.length + 1) →
    (∀ t ∈ infs, tmin < t) →
    (∀ ti, infs[0]? = some ti → tl ≤ ti) →
    (∀ k, (∀ ti tr, infs[k]? = some ti → recs[k]? = some tr → ti ≤ tr) ∧
          (∀ tr ti, recs[k]? = some tr → infs[k + 1]? = some ti → tr ≤ ti)) →
    histWF false tmin (sisLoop tmin infs recs h) = true := by
  induction infs with
  | nil => intro recs h tl hwf _ _ _ _ _; simpa [sisLoop] using hwf
  | cons ti is ih =>
    intro recs h tl hwf hlast hlen hpos hhead halt
    have hne : ti ≠ tmin := ne_of_gt (hpos ti (by simp))
    have hti : tl ≤ ti := hhead ti (by simp)
    have hwf1 : histWF false tmin (h ++ [(ti, "I")]) = true :=
      histWFg_append _ _ _ tl ti "S" "I" hwf hlast hti (by decide)
    cases recs with
    | nil =>
      have : is = [] := by
        simp at hlen; exact hlen
      subst this
      simp only [sisLoop, if_neg hne]
      exact hwf1
    | cons tr rs =>
      simp only [sisLoop, if_neg hne]
      have htr : ti ≤ tr := (halt 0).1 ti tr (by simp) (by simp)
      apply ih rs _ tr
      · exact histWFg_append _ _ _ ti tr "I" "S" hwf1 (by simp) htr (by decide)
      · simp
      · simp at hlen; omega
      · intro t ht; exact hpos t (by simp [ht])
      · intro ti' hti'
        exact (halt 0).2 tr ti' (by simp) (by simpa using hti')
      · intro k
        refine ⟨fun a b ha hb => (halt (k + 1)).1 a b (by simpa using ha) (by simpa using hb),
                fun a b ha hb => (halt (k + 1)).2 a b (by simpa using ha) (by simpa using hb)⟩

end History
