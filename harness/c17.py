"""C17 — percolation-based probability / size estimators compute what they document.
estimate_SIR_prob_size_from_dir_perc on random digraphs (incl. no edges, several equally large SCCs): the returned
pair must be one of the per-largest-SCC values computed by the Lean reachability model.  The wrappers are run with the
percolated graph captured (scripted draws / table rules): the captured graph must have the nodes of G and contain
u->v exactly when the rule says so, and the estimate must be an allowed value for it."""
from fractions import Fraction as F
import networkx as nx
import numpy as np
import common, gen, sims, allsims, rng as rngmod
from common import fr, rs

TOL = F(1, 10 ** 12)


def in_allowed(pair, allowed):
    return any(abs(fr(pair[0]) - F(a)) <= TOL and abs(fr(pair[1]) - F(b)) <= TOL for a, b in allowed)


def digraph_req(H, idx):
    return dict(op="perc", n=H.order(), succ=[[idx[v] for v in H.successors(u)] if H.is_directed() else [idx[v] for v in H.neighbors(u)] for u in H])


def run(ctx):
    import EoN, EoN.simulation as sim
    drv = common.LeanDriver()
    reqs, metas = [], []
    # --- the core estimator on arbitrary digraphs
    for _ in range(ctx.scale(1200, 6000)):
        r = ctx.rng
        kind = r.random()
        if kind < 0.1:
            n = r.randint(1, 8)
            H = nx.DiGraph(); H.add_nodes_from(range(n))                     # no edges
        elif kind < 0.3:
            # several equally large components: disjoint directed cycles joined by one-way edges
            k, m = r.randint(2, 3), r.randint(2, 3)
            H = nx.DiGraph()
            for c in range(k):
                for i in range(m):
                    H.add_edge(c * m + i, c * m + (i + 1) % m)
            for _ in range(r.randint(0, 3)):
                a, b = r.sample(range(k), 2)
                H.add_edge(a * m + r.randrange(m), b * m + r.randrange(m)) if a < b else None
            for extra in range(r.randint(0, 2)):
                H.add_edge(k * m + extra, r.randrange(k * m))
        else:
            H = gen.random_graph(r, 1, 10, directed=True)
        idx = gen.index_of(H)
        rep = dict(entry="estimate_SIR_prob_size_from_dir_perc", n=H.order(), edges=[[idx[u], idx[v]] for u, v in H.edges()])
        try:
            pe, ar = EoN.estimate_SIR_prob_size_from_dir_perc(H)
        except Exception as e:
            ctx.case(rep, nontrivial=False)
            ctx.violation("estimate_SIR_prob_size_from_dir_perc raised %s" % type(e).__name__, dict(rep, error=type(e).__name__))
            continue
        reqs.append(digraph_req(H, idx))
        metas.append((rep, (pe, ar), None))
        ctx.count("dir_perc:edges=%s" % ("0" if H.number_of_edges() == 0 else ">0"))
    # --- wrappers
    for _ in range(ctx.scale(500, 3000)):
        r = ctx.rng
        which = r.choice(["bond", "directed", "timing", "xi_zeta"])
        c = sims.graph_case(r, 1, 8)
        G, lab = sims.build_graph(c)
        idx = gen.index_of(G)
        captured = {}
        rep = dict(entry="estimate:" + which, graph=c)
        tr = rngmod.TapeRandom(rng=r, idx=idx)
        try:
            if which == "bond":
                p = r.choice([F(0), F(1, 4), F(1, 2), F(3, 4), F(1)])
                rep["p"] = str(p)
                orig = sim.percolate_network
                sim.percolate_network = lambda G_, p_: captured.setdefault("H", orig(G_, p_))
                try:
                    with rngmod.scripted(tr):
                        res = EoN.estimate_SIR_prob_size(G, float(p))
                finally:
                    sim.percolate_network = orig
                H = captured["H"]
                draws = [F(d[1]) for d in tr.log if d[0] == "u"]
                kept = [e for e, x in zip(G.edges(), draws) if x < p]
                rule_ok = set(H.nodes()) == set(G.nodes()) and sorted(map(sorted, H.edges())) == sorted(map(sorted, kept))
            elif which == "directed":
                tau, gamma = r.choice(gen.RATES), r.choice(gen.RATES)
                rep.update(tau=str(tau), gamma=str(gamma))
                orig = sim.directed_percolate_network
                sim.directed_percolate_network = lambda *a, **k: captured.setdefault("H", orig(*a, **k))
                try:
                    with rngmod.scripted(tr):
                        res = EoN.estimate_directed_SIR_prob_size(G, float(tau), float(gamma))
                finally:
                    sim.directed_percolate_network = orig
                H = captured["H"]
                rule_ok = set(H.nodes()) == set(G.nodes()) and H.is_directed() and all(
                    G.has_edge(u, v) and d["delay_to_infection"] <= H.nodes[u]["duration"] for u, v, d in H.edges(data=True))
                # every neighbour pair not in H must have delay > duration: check from the trace order (rec then each nbr)
            elif which == "timing":
                cc = allsims.gen_case(r, "fast_nonMarkov_SIR")
                cc.update({k: c[k] for k in ("n", "order", "edges", "directed", "ew", "nw")})
                ed = [(u, v) for u, v in c["edges"]] + [(v, u) for u, v in c["edges"]]
                cc["dur"] = [str(r.choice(allsims.DELAYS)) for _ in range(c["n"])]
                cc["delay"] = [[u, v, str(r.choice(allsims.DELAYS))] for u, v in ed]
                rules = allsims.Rules(cc, lab, idx)
                rep["tables"] = dict(dur=cc["dur"], delay=cc["delay"])
                orig = sim.nonMarkov_directed_percolate_network_with_timing
                sim.nonMarkov_directed_percolate_network_with_timing = lambda *a, **k: captured.setdefault("H", orig(*a, **k))
                try:
                    res = EoN.estimate_nonMarkov_SIR_prob_size_with_timing(G, rules.trans_time, rules.rec_time)
                finally:
                    sim.nonMarkov_directed_percolate_network_with_timing = orig
                H = captured["H"]
                want = {(lab(u), lab(v)) for u, v, d in cc["delay"] if allsims.fl(d) <= allsims.fl(cc["dur"][u])}
                rule_ok = set(H.nodes()) == set(G.nodes()) and set(H.edges()) == want
            else:
                xi = {u: r.randrange(4) for u in G}
                zeta = {u: r.randrange(4) for u in G}
                thr = r.randrange(1, 6)
                rep.update(xi=[xi[u] for u in G], zeta=[zeta[u] for u in G], thr=thr)
                # the docstring only asks for something indexable by node ("xi[u]"): plain dict, defaultdict (the
                # library's own example uses one), a dict subclass with __missing__, and — for nodes 0..n-1 — list / array
                import collections
                kind = ["dict", "defaultdict", "missing", "list", "array"][r.randrange(5)]
                if kind in ("list", "array") and list(G) != list(range(G.order())):
                    kind = "defaultdict"
                def wrapc(d, kind=kind):
                    if kind == "defaultdict":
                        m = max(d.values()) if d else 0
                        out = collections.defaultdict(lambda m=m: m)
                        out.update({u: v for u, v in d.items() if v != m})      # the most frequent large value is the default
                        return out
                    if kind == "missing":
                        class D(dict):
                            def __missing__(self, key, d=d):
                                return d[key]
                        return D()
                    if kind == "list":
                        return [d[u] for u in G]
                    if kind == "array":
                        return np.array([d[u] for u in G])
                    return dict(d)
                xi_arg, zeta_arg = wrapc(xi), wrapc(zeta)
                rep["containers"] = kind
                ctx.count("nonMarkov-containers:" + kind)
                transmission = lambda x, z: x + z >= thr
                orig = sim.nonMarkov_directed_percolate_network
                sim.nonMarkov_directed_percolate_network = lambda *a, **k: captured.setdefault("H", orig(*a, **k))
                try:
                    res = EoN.estimate_nonMarkov_SIR_prob_size(G, xi_arg, zeta_arg, transmission)
                finally:
                    sim.nonMarkov_directed_percolate_network = orig
                H = captured["H"]
                want = {(u, v) for u in G for v in G.neighbors(u) if transmission(xi[u], zeta[v])}
                rule_ok = set(H.nodes()) == set(G.nodes()) and set(H.edges()) == want and H.is_directed()
        except Exception as e:
            ctx.case(rep, nontrivial=False)
            if G.order() == 0:
                continue
            ctx.violation("%s raised %s" % (rep["entry"], type(e).__name__), dict(rep, error=type(e).__name__, tape=tr.log))
            continue
        ctx.count("wrapper:" + which)
        rep["tape"] = tr.log
        if not rule_ok:
            ctx.case(rep, nontrivial=True)
            ctx.violation("%s: the percolated graph does not have the nodes of G / does not contain u->v exactly when the rule says so" % rep["entry"],
                          dict(rep, H=[[idx[u], idx[v]] for u, v in H.edges()]))
            continue
        hidx = {u: idx[u] for u in H}
        Hs = nx.DiGraph()
        Hs.add_nodes_from(G.nodes())
        Hs.add_edges_from(H.edges() if H.is_directed() else list(H.edges()) + [(v, u) for u, v in H.edges()])
        reqs.append(digraph_req(Hs, idx))
        metas.append((rep, res, "same" if which == "bond" else None))
    for (rep, res, flag), m in zip(metas, drv.batch(reqs)):
        ctx.traces += 1
        ctx.case(rep, nontrivial=m.get("maxscc", 0) > 1, sample=rep)
        if not m.get("ok"):
            ctx.disagreement("perc-driver", dict(rep, model=m))
            continue
        pe, ar = res
        if not (0 <= pe <= 1 and 0 <= ar <= 1):
            ctx.violation("%s returned values outside [0,1]" % rep["entry"], dict(rep, result=[pe, ar]))
        elif not in_allowed((pe, ar), m["allowed"]):
            ctx.violation("%s: (PE, AR) is not (fraction reaching a largest SCC, fraction reachable from it)" % rep["entry"],
                          dict(rep, result=[pe, ar], allowed=m["allowed"]))
        elif flag == "same" and pe != ar:
            ctx.violation("estimate_SIR_prob_size must return the largest-component fraction for both outputs", dict(rep, result=[pe, ar]))
