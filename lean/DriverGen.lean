import Driver
import EoNVerif.Gen.ListDictGen
open Lean Drv

/-! JSON-lines driver for the code GENERATED from `_ListDict_` (Gen/ListDictGen.lean): the same op protocol as
`DrvLD` in Driver.lean, run on `GenLD.PyLD`.  Separate executable: when the generated file does not build (changed
Python source outside the translator's subset, or a semantic change) only this driver is affected. -/
namespace DrvGenLD
open GenLD

def jLD (s : PyLD (List Nat)) : Json :=
  Json.mkObj [("items", jArr (jArr jNat) s.items),
              ("weights", jArr (fun x => jRat (alGet s.weight 0 x)) s.items),
              ("maxW", jRat s.max_weight),
              ("total", jRat (if s.weighted then s.total_weight_ else (s.items.length : Rat))),
              ("maxCnt", jInt s.max_weight_count),
              ("nweight", jNat s.weight.length),
              ("pos", jArr (fun x => match PyRT.alFind? s.item_to_position x with | some i => jNat i | none => Json.null) s.items),
              ("npos", jNat s.item_to_position.length)]

def stepOp (s : PyLD (List Nat)) (j : Json) : Except String (PyLD (List Nat) × Json) := do
  match ← getArr j with
  | [.str "ins", it, w] =>
    let it ← getList getNat it
    let w ← (match w with | .null => pure none | x => (getRat x).map some)
    let s' ← GenLD.insert s it w
    pure (s', jLD s')
  | [.str "upd", it, w] =>
    let it ← getList getNat it
    let w ← (match w with | .null => pure none | x => (getRat x).map some)
    let s' ← GenLD.update s it w
    pure (s', jLD s')
  | [.str "rem", it] =>
    let it ← getList getNat it
    let s' ← GenLD.remove s it
    pure (s', jLD s')
  | [.str "cho", draws] =>
    let ds ← getList (fun d => do
      match ← getArr d with
      | [i, r] => pure ((← getNat i), (← getRat r))
      | _ => .error "bad cho draw") draws
    if s.weighted ∧ s.max_weight = 0 ∧ !s.items.isEmpty then .error "ZeroDivisionError" else
    let (s', c) ← GenLD.choose_random s ds
    -- rounds = number of draws consumed is not returned by the generated code; the harness supplies exactly the
    -- draws the implementation consumed, so acceptance at the last one is what is compared
    pure (s', Json.mkObj [("chosen", jArr jNat c)])
  | _ => .error "bad op"

def run (j : Json) : Except String Json := do
  let weighted ← getBool (← fld j "weighted")
  let ops ← getArr (← fld j "ops")
  let mut s : PyLD (List Nat) := GenLD.init weighted
  let mut outs : Array Json := #[]
  for op in ops do
    match stepOp s op with
    | .ok (s', o) => s := s'; outs := outs.push o
    | .error e => outs := outs.push (Json.mkObj [("err", Json.str e)]); break
  pure (Json.mkObj [("ok", Json.bool true), ("outs", Json.arr outs)])

def handle (line : String) : String :=
  match Json.parse line with
  | .ok j => match run j with
    | .ok r => r.compress
    | .error e => (errObj ("drivergen:" ++ e)).compress
  | .error e => (errObj ("parse:" ++ e)).compress
end DrvGenLD
