#!/usr/bin/env python3
"""pypm2lean — translator for the dict-based right-hand side `_dEBCM_pref_mix_` of EoN/analytic.py
-> lean/EoNVerif/Gen/PrefMixGen.lean (namespace GenPM).

Everything runs in `Except String`.  A dict keyed by degree is an association list in insertion order
(`List (Nat × Rat)`; `Pnk` is `List (Nat × List (Nat × Rat))`), `d[k]` is `PyRT.dictGet` (KeyError), `d[k] = v` is `alSet`,
`sorted(D.keys())` is `PyGlue2.sortNat`, `enumerate` is `PyGlue2.enum`, `x ** e` with an integer exponent is
`PyGlue2.zpowE` (ZeroDivisionError for 0 to a negative power), `sum([e for k in D.keys()])` a `foldlM`, a list grown by
`extend` a `List Rat`, `X[i]` an index into the flat state.  A `for` loop is a `foldlM` whose state is the tuple of the
containers assigned in its body; names first assigned inside a loop body are local to one pass.
Supported statements: `a = X[<int expr>]`, `d = {}`, `l = [e]`, `l.extend([e, …])`, `a = <scalar expr>`, `d[k] = <scalar expr>`,
`for [i,] k in [enumerate(][sorted(]D.keys()[)][)]:`, `return np.array(l)`.  Anything else raises Unsupported."""
import ast, os, sys, hashlib

REPO = os.environ.get("EON_REPO", "/repo")


class Unsupported(Exception):
    pass


class T:
    def __init__(self, env):
        self.env = dict(env)      # name -> kind: rat, nat, dict, ddict, list, flat
        self.n = 0

    def tmp(self, b):
        self.n += 1
        return f"{b}_{self.n}"

    def intex(self, e):
        """integer expression over loop keys / indices -> Lean Int term"""
        if isinstance(e, ast.Constant) and isinstance(e.value, int) and not isinstance(e.value, bool):
            return f"({e.value} : Int)"
        if isinstance(e, ast.Name) and self.env.get(e.id) == "nat":
            return f"(({e.id} : Nat) : Int)"
        if isinstance(e, ast.BinOp) and type(e.op) in (ast.Add, ast.Sub, ast.Mult):
            sym = {ast.Add: "+", ast.Sub: "-", ast.Mult: "*"}[type(e.op)]
            return f"({self.intex(e.left)} {sym} {self.intex(e.right)})"
        raise Unsupported("integer expression " + ast.unparse(e))

    def natkey(self, e):
        if isinstance(e, ast.Name) and self.env.get(e.id) == "nat":
            return e.id
        raise Unsupported("dict key " + ast.unparse(e))

    def ex(self, e, ind):
        """-> (pre-lines, term) of kind rat"""
        src = ast.unparse(e)
        if isinstance(e, ast.Constant) and isinstance(e.value, (int, float)) and not isinstance(e.value, bool):
            from fractions import Fraction
            fr = Fraction(repr(e.value))
            return [], (f"({fr.numerator} : Rat)" if fr.denominator == 1 else f"(({fr.numerator} : Rat) / {fr.denominator})")
        if isinstance(e, ast.Name):
            k = self.env.get(e.id)
            if k == "rat":
                return [], e.id
            if k == "nat":
                return [], f"(({e.id} : Nat) : Rat)"
            raise Unsupported("name " + e.id + " of kind " + str(k))
        if isinstance(e, ast.UnaryOp) and isinstance(e.op, ast.USub):
            p, a = self.ex(e.operand, ind)
            return p, f"(-{a})"
        if isinstance(e, ast.BinOp) and isinstance(e.op, ast.Pow):
            p, a = self.ex(e.left, ind)
            x = self.tmp("pw")
            return p + [f"{ind}let {x} ← PyGlue2.zpowE {a} {self.intex(e.right)}"], x
        if isinstance(e, ast.BinOp) and type(e.op) in (ast.Add, ast.Sub, ast.Mult):
            pa, a = self.ex(e.left, ind)
            pb, b = self.ex(e.right, ind)
            sym = {ast.Add: "+", ast.Sub: "-", ast.Mult: "*"}[type(e.op)]
            return pa + pb, f"({a} {sym} {b})"
        if isinstance(e, ast.BinOp) and isinstance(e.op, ast.Div):
            pa, a = self.ex(e.left, ind)
            pb, b = self.ex(e.right, ind)
            q = self.tmp("q")
            return pa + pb + [f"{ind}let {q} ← PyTM.fdiv {a} {b}"], q
        if isinstance(e, ast.Subscript) and isinstance(e.value, ast.Name):
            k = self.env.get(e.value.id)
            if k == "dict":
                x = self.tmp("d")
                return [f"{ind}let {x} ← PyRT.dictGet {e.value.id} {self.natkey(e.slice)}"], x
            if k == "flat":
                x = self.tmp("x")
                return [f"{ind}let {x} ← PyPM.vidx {e.value.id} {self.intex(e.slice)}"], x
        if isinstance(e, ast.Subscript) and isinstance(e.value, ast.Subscript) and isinstance(e.value.value, ast.Name) \
                and self.env.get(e.value.value.id) == "ddict":
            r, x = self.tmp("row"), self.tmp("d")
            return [f"{ind}let {r} ← PyRT.dictGet {e.value.value.id} {self.natkey(e.value.slice)}",
                    f"{ind}let {x} ← PyRT.dictGet {r} {self.natkey(e.slice)}"], x
        if isinstance(e, ast.Call) and ast.unparse(e.func) == "sum" and len(e.args) == 1 and isinstance(e.args[0], (ast.ListComp, ast.GeneratorExp)):
            return self.compsum(e.args[0], ind)
        raise Unsupported("expression " + src[:70])

    def keys_of(self, it, ind):
        """`D.keys()` / `DD[k].keys()` / sorted(...) -> (pre, Lean term : List Nat)"""
        if isinstance(it, ast.Call) and ast.unparse(it.func) == "sorted" and len(it.args) == 1:
            p, t = self.keys_of(it.args[0], ind)
            return p, f"(PyGlue2.sortNat {t})"
        if isinstance(it, ast.Call) and isinstance(it.func, ast.Attribute) and it.func.attr == "keys" and not it.args:
            v = it.func.value
            if isinstance(v, ast.Name) and self.env.get(v.id) in ("dict", "ddict"):
                return [], f"({v.id}.map (·.1))"
            if isinstance(v, ast.Subscript) and isinstance(v.value, ast.Name) and self.env.get(v.value.id) == "ddict":
                r = self.tmp("row")
                return [f"{ind}let {r} ← PyRT.dictGet {v.value.id} {self.natkey(v.slice)}"], f"({r}.map (·.1))"
        raise Unsupported("iteration over " + ast.unparse(it))

    def compsum(self, g, ind):
        if len(g.generators) != 1 or g.generators[0].ifs or not isinstance(g.generators[0].target, ast.Name):
            raise Unsupported("comprehension " + ast.unparse(g)[:60])
        c = g.generators[0]
        pk, keys = self.keys_of(c.iter, ind)
        k = c.target.id
        sub = T(dict(self.env, **{k: "nat"}))
        sub.n = self.n + 100
        p, a = sub.ex(g.elt, ind + "    ")
        s = self.tmp("s")
        return pk + [f"{ind}let {s} ← {keys}.foldlM (fun (acc : Rat) ({k} : Nat) => do"] + p + [f"{ind}    pure (acc + {a})) (0 : Rat)"], s


TYS = {"rat": "Rat", "dict": "List (Nat × Rat)", "list": "List Rat"}


def assigned_containers(body, env):
    """containers (dicts / lists of the enclosing scope) written in a loop body, in order of first write"""
    out = []
    for st in body:
        nm = None
        if isinstance(st, ast.Assign) and len(st.targets) == 1 and isinstance(st.targets[0], ast.Subscript) and isinstance(st.targets[0].value, ast.Name):
            nm = st.targets[0].value.id
        elif isinstance(st, ast.Expr) and isinstance(st.value, ast.Call) and isinstance(st.value.func, ast.Attribute) \
                and st.value.func.attr == "extend" and isinstance(st.value.func.value, ast.Name):
            nm = st.value.func.value.id
        if nm is not None and env.get(nm) in ("dict", "list") and nm not in out:
            out.append(nm)
    return out


def block(tr, stmts, ind, fname, top):
    out = []
    for st in stmts:
        src = ast.unparse(st)
        if isinstance(st, ast.Assign) and len(st.targets) == 1:
            t = st.targets[0]
            if isinstance(t, ast.Name):
                if isinstance(st.value, ast.Dict) and not st.value.keys:
                    out.append(f"{ind}let {t.id} : List (Nat × Rat) := []")
                    tr.env[t.id] = "dict"
                    continue
                if isinstance(st.value, ast.List):
                    items = []
                    for el in st.value.elts:
                        p, a = tr.ex(el, ind)
                        out += p
                        items.append(a)
                    out.append(f"{ind}let {t.id} : List Rat := [{', '.join(items)}]")
                    tr.env[t.id] = "list"
                    continue
                p, a = tr.ex(st.value, ind)
                out += p + [f"{ind}let {t.id} : Rat := {a}"]
                tr.env[t.id] = "rat"
                continue
            if isinstance(t, ast.Subscript) and isinstance(t.value, ast.Name) and tr.env.get(t.value.id) == "dict":
                p, a = tr.ex(st.value, ind)
                out += p + [f"{ind}let {t.value.id} := alSet {t.value.id} {tr.natkey(t.slice)} {a}"]
                continue
        if isinstance(st, ast.Expr) and isinstance(st.value, ast.Call) and isinstance(st.value.func, ast.Attribute) and st.value.func.attr == "extend" \
                and isinstance(st.value.func.value, ast.Name) and tr.env.get(st.value.func.value.id) == "list" \
                and len(st.value.args) == 1 and isinstance(st.value.args[0], ast.List):
            items = []
            for el in st.value.args[0].elts:
                p, a = tr.ex(el, ind)
                out += p
                items.append(a)
            nm = st.value.func.value.id
            out.append(f"{ind}let {nm} := {nm} ++ [{', '.join(items)}]")
            continue
        if isinstance(st, ast.For) and not st.orelse:
            it, tgt = st.iter, st.target
            enum = isinstance(it, ast.Call) and ast.unparse(it.func) == "enumerate" and len(it.args) == 1
            pk, keys = tr.keys_of(it.args[0] if enum else it, ind)
            state = assigned_containers(st.body, tr.env)
            if not state:
                raise Unsupported(fname + ": loop without effect " + src[:50])
            sub = T(tr.env)
            sub.n = tr.n + 200
            if enum:
                if not (isinstance(tgt, ast.Tuple) and len(tgt.elts) == 2 and all(isinstance(x, ast.Name) for x in tgt.elts)):
                    raise Unsupported(fname + ": enumerate target")
                i, k = tgt.elts[0].id, tgt.elts[1].id
                sub.env.update({i: "nat", k: "nat"})
                binder, src_list = f"(ik_ : Nat × Nat)", f"(PyGlue2.enum {keys})"
                head = [f"{ind}    let {i} := ik_.1", f"{ind}    let {k} := ik_.2"]
            else:
                if not isinstance(tgt, ast.Name):
                    raise Unsupported(fname + ": loop target")
                k = tgt.id
                sub.env[k] = "nat"
                binder, src_list, head = f"({k} : Nat)", keys, []
            body = block(sub, st.body, ind + "    ", fname, False)
            tup = state[0] if len(state) == 1 else "(" + ", ".join(state) + ")"
            ty = TYS[tr.env[state[0]]] if len(state) == 1 else " × ".join(TYS[tr.env[s]] for s in state)
            out += pk + [f"{ind}let {tup} ← {src_list}.foldlM (fun (st_ : {ty}) {binder} => do",
                         f"{ind}    let {tup} := st_"] + head + body + [f"{ind}    pure {tup}) {tup}"]
            tr.n = sub.n
            continue
        if isinstance(st, ast.Return) and top and isinstance(st.value, ast.Call) and ast.unparse(st.value.func) == "np.array" \
                and len(st.value.args) == 1 and isinstance(st.value.args[0], ast.Name) and tr.env.get(st.value.args[0].id) == "list":
            out.append(f"{ind}pure (Gen.V.ofList {st.value.args[0].id})")
            return out, True
        raise Unsupported(fname + ": statement " + src[:70])
    return (out, False) if top else out


HEADER = '''import EoNVerif.Gen.PyGlue2
import EoNVerif.Gen.PyTM
/-!
GENERATED by harness/pypm2lean.py from `_dEBCM_pref_mix_` of EoN/analytic.py — do not edit; regenerated on every check
run.   source sha1: {sha}
-/
namespace PyPM
/-- `X[i]` on the flat state: Python's negative indices wrap, out of range is IndexError -/
def vidx (X : Gen.V) (i : Int) : Except String Rat :=
  if 0 ≤ i ∧ i.toNat < X.n then pure (X.f i.toNat)
  else if i < 0 ∧ (-i).toNat ≤ X.n then pure (X.f (X.n - (-i).toNat))
  else throw "IndexError"
end PyPM

namespace GenPM

'''


def translate(repo=REPO):
    tree = ast.parse(open(os.path.join(repo, "EoN", "analytic.py")).read())
    fns = {n.name: n for n in tree.body if isinstance(n, ast.FunctionDef)}
    errors, parts, srcs = {}, [], []
    name = "_dEBCM_pref_mix_"
    try:
        fn = fns[name]
        if [a.arg for a in fn.args.args] != ["X", "t", "rho", "tau", "gamma", "Pk", "Pnk"]:
            raise Unsupported(name + ": signature")
        tr = T({"X": "flat", "rho": "rat", "tau": "rat", "gamma": "rat", "Pk": "dict", "Pnk": "ddict"})
        body = [s for s in fn.body if not (isinstance(s, ast.Expr) and isinstance(s.value, ast.Constant))]
        lines, returned = block(tr, body, "  ", name, True)
        if not returned:
            raise Unsupported(name + ": no return")
        parts.append(f"/-- generated from `{name}` (EoN/analytic.py:{fn.lineno}) -/\n"
                     "def dEBCM_pref_mix (X : Gen.V) (rho tau gamma : Rat) (Pk : List (Nat × Rat)) (Pnk : List (Nat × List (Nat × Rat))) :\n"
                     "    Except String Gen.V := do\n" + "\n".join(lines) + "\n")
        srcs.append(ast.unparse(fn))
    except (Unsupported, KeyError) as ex:
        errors[name] = f"unsupported: {ex}"
    sha = hashlib.sha1("\n".join(srcs).encode()).hexdigest()
    return HEADER.format(sha=sha) + "\n".join(parts) + "\nend GenPM\n", errors


def regenerate():
    import warnings
    target = os.path.join(os.path.dirname(os.path.abspath(__file__)), "..", "lean", "EoNVerif", "Gen", "PrefMixGen.lean")
    with warnings.catch_warnings():
        warnings.simplefilter("ignore")
        text, errors = translate()
    old = open(target).read() if os.path.exists(target) else None
    if text and not errors and old != text:
        tmp = target + ".tmp%d" % os.getpid()
        with open(tmp, "w") as f:
            f.write(text)
        os.replace(tmp, target)
    return (old != text and not errors), errors


def main():
    changed, errors = regenerate()
    print("pypm2lean: Gen/PrefMixGen.lean %s" % ("rewritten" if changed else "up to date"))
    for n, e in errors.items():
        print(f"pypm2lean: {n}: {e}")
    return 1 if errors else 0


if __name__ == "__main__":
    sys.exit(main())
