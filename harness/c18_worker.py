"""subprocess worker for C18: runs the given cases with the real RNGs seeded and prints canonical dumps"""
import json, sys, os, random, warnings
warnings.filterwarnings("ignore")
sys.path.insert(0, os.path.dirname(os.path.abspath(__file__)))
import numpy as np
import common, allsims, gen, sims, rng as rngmod


class PassThrough:
    """keeps the real generators (seeded) but exposes only the five modelled primitives"""
    def random(self): return random.random()
    def expovariate(self, r): return random.expovariate(r)
    def choice(self, s): return random.choice(s)
    def sample(self, p, k): return random.sample(p, k)


def run_case(c, seed, full):
    G, lab = sims.build_graph(c)
    idx = gen.index_of(G)
    random.seed(seed); np.random.seed(seed)
    rules = allsims.Rules(c, lab, idx)
    try:
        # real RNG: call the simulator directly (no proxy)
        import contextlib
        @contextlib.contextmanager
        def noproxy(tr):
            yield tr
        old = rngmod.scripted
        rngmod.scripted = noproxy
        allsims.rngmod.scripted = noproxy
        sims.rngmod.scripted = noproxy
        try:
            import specs
            specs.rngmod.scripted = noproxy
            res = allsims.call_sim(c, G, lab, None, full, rules)
        finally:
            rngmod.scripted = old; allsims.rngmod.scripted = old; sims.rngmod.scripted = old; specs.rngmod.scripted = old
        if full:
            d = allsims.dump_full(res, G, idx, c)
            # canonical by label, not by insertion index
            names = [repr(u) for u in G]
            order = sorted(range(len(names)), key=lambda i: names[i])
            out = dict(summary=d["summary"], history=[[names[i], d["history"][i]] for i in order],
                       transmissions=[[t, (None if u is None else names[u]), names[v]] for t, u, v in d.get("transmissions", [])])
        else:
            out = dict(times=[repr(float(x)) for x in res[0]], cols=[[repr(float(y)) for y in x] for x in res[1:]])
        return dict(ok=True, out=out, state=[repr(random.random()), repr(float(np.random.random()))])
    except Exception as e:
        return dict(ok=False, err=type(e).__name__ + ":" + str(e)[:100])


if __name__ == "__main__":
    job = json.load(sys.stdin)
    print(json.dumps([run_case(c, s, f) for c, s, f in job]))
