import EoNVerif.Model.FastSIRLaw
import EoNVerif.Proofs.ListDict
import EoNVerif.Proofs.Discrete
import Mathlib.Tactic.Ring
import Mathlib.Tactic.Linarith
import Mathlib.Tactic.FieldSimp
import Mathlib.Algebra.Order.Field.Rat
import Mathlib.Data.Nat.Choose.Sum
import Mathlib.Data.List.Sublists
/-!
Helper lemmas for C01b: "binomial number, then uniform sample" = "independent Bernoulli per neighbour".
-/
namespace FastSIRLaw
open Discrete (mass_push mass_eq_zero mass_congr)

theorem rpow_eq (x : Rat) (n : Nat) : rpow x n = x ^ n := by
  induction n with
  | zero => simp [rpow]
  | succ n ih => rw [rpow, ih, pow_succ]

theorem choose_eq (n k : Nat) : choose n k = Nat.choose n k := by
  induction n generalizing k with
  | zero => cases k <;> simp [choose]
  | succ n ih => cases k with
    | zero => simp [choose]
    | succ k => rw [choose, ih, ih, Nat.choose_succ_succ]

theorem choose_pos {n k : Nat} (h : k ≤ n) : 0 < choose n k := by
  rw [choose_eq]; exact Nat.choose_pos h

/-! ### `sublistsLen` -/
section Sub
variable {α : Type}

theorem mem_sublistsLen (l : List α) (k : Nat) (s : List α) (hs : s ∈ sublistsLen l k) :
    s.Sublist l ∧ s.length = k := by
  induction l generalizing k s with
  | nil =>
    cases k with
    | zero => simp [sublistsLen] at hs; simp [hs]
    | succ k => simp [sublistsLen] at hs
  | cons a l ih =>
    cases k with
    | zero => simp [sublistsLen] at hs; simp [hs]
    | succ k =>
      simp only [sublistsLen, List.mem_append, List.mem_map] at hs
      rcases hs with ⟨s', hs', rfl⟩ | hs
      · obtain ⟨h1, h2⟩ := ih k s' hs'
        exact ⟨h1.cons_cons a, by simp [h2]⟩
      · obtain ⟨h1, h2⟩ := ih (k + 1) s hs
        exact ⟨h1.cons a, h2⟩

theorem length_sublistsLen (l : List α) (k : Nat) : (sublistsLen l k).length = choose l.length k := by
  induction l generalizing k with
  | nil => cases k <;> simp [sublistsLen, choose]
  | cons a l ih =>
    cases k with
    | zero => simp [sublistsLen, choose]
    | succ k => simp [sublistsLen, choose, ih]

/-- among the `j`-element sublists of a duplicate-free list, the one selected by `keep` occurs exactly once if
`j` is its length, and not at all otherwise (stated for a constant weight `c`) -/
theorem mass_sublistsLen [DecidableEq α] (l : List α) (hn : l.Nodup) (keep : α → Bool) (j : Nat) (c : Rat) :
    Dist.mass ((sublistsLen l j).map fun s => (s, c)) (fun s => s == l.filter keep)
      = if j = (l.filter keep).length then c else 0 := by
  induction l generalizing j with
  | nil =>
    cases j with
    | zero => simp [sublistsLen, Dist.mass]
    | succ j => simp [sublistsLen, Dist.mass]
  | cons a l ih =>
    have hnd := List.nodup_cons.mp hn
    cases j with
    | zero =>
      cases hk : keep a
      · simp only [sublistsLen, List.map_cons, List.map_nil, Dist.mass_cons, Dist.mass_nil, List.filter_cons, hk,
          Bool.false_eq_true, if_false]
        cases h : l.filter keep <;> simp
      · simp [sublistsLen, Dist.mass_cons, Dist.mass_nil, hk]
    | succ j =>
      simp only [sublistsLen, List.map_append, List.map_map, Dist.mass_append]
      cases hk : keep a with
      | true =>
        have h2 : Dist.mass ((sublistsLen l (j + 1)).map fun s => (s, c))
            (fun s => s == (a :: l).filter keep) = 0 := by
          apply mass_eq_zero
          intro x hx
          simp only [List.mem_map] at hx
          obtain ⟨s, hs, rfl⟩ := hx
          have hsub := (mem_sublistsLen l (j + 1) s hs).1
          simp only [List.filter_cons, hk, if_true, beq_eq_false_iff_ne, ne_eq]
          intro heq
          apply hnd.1
          apply hsub.subset
          rw [heq]; exact List.mem_cons_self
        have h1 : Dist.mass ((sublistsLen l j).map ((fun s => (s, c)) ∘ fun x => a :: x))
            (fun s => s == (a :: l).filter keep)
            = Dist.mass ((sublistsLen l j).map fun s => (s, c)) (fun s => s == l.filter keep) := by
          have : (sublistsLen l j).map ((fun s => (s, c)) ∘ fun x => a :: x)
              = Dist.push (fun x => a :: x) ((sublistsLen l j).map fun s => (s, c)) := by
            simp [Dist.push, List.map_map, Function.comp_def]
          rw [this, mass_push]
          apply mass_congr
          intro x _
          simp [hk]
        rw [h1, h2, ih hnd.2]
        simp [hk]
      | false =>
        have h1 : Dist.mass ((sublistsLen l j).map ((fun s => (s, c)) ∘ fun x => a :: x))
            (fun s => s == (a :: l).filter keep) = 0 := by
          apply mass_eq_zero
          intro x hx
          simp only [List.mem_map, Function.comp_apply] at hx
          obtain ⟨s, hs, rfl⟩ := hx
          simp only [List.filter_cons, hk, Bool.false_eq_true, if_false, beq_eq_false_iff_ne, ne_eq]
          intro heq
          apply hnd.1
          have : a ∈ l.filter keep := by rw [← heq]; exact List.mem_cons_self
          exact (List.mem_filter.mp this).1
        have h2 : (a :: l).filter keep = l.filter keep := by simp [hk]
        rw [h1, h2, ih hnd.2]
        simp

theorem mass_sampleDist [DecidableEq α] (l : List α) (hn : l.Nodup) (keep : α → Bool) (j : Nat) :
    Dist.mass (sampleDist l j) (fun s => s == l.filter keep)
      = if j = (l.filter keep).length then 1 / (choose l.length j : Rat) else 0 :=
  mass_sublistsLen l hn keep j _

/-- the sample has total mass one whenever it is defined (`j ≤ |l|`) -/
theorem mass_sampleDist_total (l : List α) (j : Nat) (hj : j ≤ l.length) :
    Dist.mass (sampleDist l j) (fun _ => true) = 1 := by
  have hc : (0 : Rat) < (choose l.length j : Rat) := by exact_mod_cast choose_pos hj
  simp only [sampleDist, Dist.mass, List.map_map, Function.comp_def, if_true]
  rw [sumRat_map_const, length_sublistsLen]
  field_simp

/-- **the sampling identity**, helper form -/
theorem recipients_law' [DecidableEq α] (l : List α) (hn : l.Nodup) (q : Rat) (keep : α → Bool) :
    Dist.mass (recipientsDist l q) (fun s => s == l.filter keep) =
      q ^ (l.filter keep).length * (1 - q) ^ (l.length - (l.filter keep).length) := by
  have hle : (l.filter keep).length ≤ l.length := List.length_filter_le _ _
  have hc : (0 : Rat) < (choose l.length (l.filter keep).length : Rat) := by exact_mod_cast choose_pos hle
  simp only [recipientsDist, binomialDist, Dist.mass_bind, List.map_map, Function.comp_def]
  rw [sumRat_map_congr _ _ (fun j => (binomialPmf l.length q j * (1 / (choose l.length j : Rat))) *
      (if j = (l.filter keep).length then 1 else 0))]
  · rw [sumRat_indicator _ _ _ List.nodup_range (List.mem_range.mpr (Nat.lt_succ_of_le hle))]
    simp only [binomialPmf, rpow_eq]
    field_simp
  · intro j _
    rw [mass_sampleDist l hn keep j]
    split <;> simp

end Sub

/-! ### the binomial law -/

theorem sumRat_range_eq_sum (n : Nat) (f : Nat → Rat) :
    sumRat ((List.range n).map f) = ∑ i ∈ Finset.range n, f i := by
  induction n with
  | zero => simp
  | succ n ih => rw [List.range_succ, List.map_append, sumRat_append, ih, Finset.sum_range_succ]; simp

/-- binomial theorem: the point masses of `binomialDist` add up to one -/
theorem binomialPmf_sum (n : Nat) (q : Rat) : sumRat ((List.range (n + 1)).map (binomialPmf n q)) = 1 := by
  rw [sumRat_range_eq_sum]
  have h := add_pow q (1 - q) n
  rw [show q + (1 - q) = 1 by ring, one_pow] at h
  rw [h]
  apply Finset.sum_congr rfl
  intro m _
  simp only [binomialPmf, rpow_eq, choose_eq]
  ring

theorem mass_binomialDist_total (n : Nat) (q : Rat) : Dist.mass (binomialDist n q) (fun _ => true) = 1 := by
  simp only [binomialDist, Dist.mass, List.map_map, Function.comp_def, if_true]
  exact binomialPmf_sum n q

theorem mass_binomialDist (n : Nat) (q : Rat) (k : Nat) :
    Dist.mass (binomialDist n q) (fun j => j == k) = if k ≤ n then binomialPmf n q k else 0 := by
  simp only [binomialDist, Dist.mass, List.map_map, Function.comp_def, beq_iff_eq]
  by_cases hk : k ≤ n
  · rw [if_pos hk]
    rw [sumRat_map_congr _ _ (fun j => binomialPmf n q j * (if j = k then 1 else 0))]
    · exact sumRat_indicator _ _ _ List.nodup_range (List.mem_range.mpr (Nat.lt_succ_of_le hk))
    · intro j _; split <;> simp
  · rw [if_neg hk]
    apply sumRat_map_zero
    intro j hj
    have : j ≠ k := by
      have := List.mem_range.mp hj
      omega
    simp [this]

theorem binomialPmf_nonneg (n : Nat) (q : Rat) (h0 : 0 ≤ q) (h1 : q ≤ 1) (k : Nat) : 0 ≤ binomialPmf n q k := by
  simp only [binomialPmf, rpow_eq]
  have : (0 : Rat) ≤ 1 - q := by linarith
  positivity

theorem recipients_total' {α : Type} (l : List α) (q : Rat) :
    Dist.mass (recipientsDist l q) (fun _ => true) = 1 := by
  simp only [recipientsDist, binomialDist, Dist.mass_bind, List.map_map, Function.comp_def]
  rw [sumRat_map_congr _ _ (binomialPmf l.length q)]
  · exact binomialPmf_sum _ q
  · intro j hj
    rw [mass_sampleDist_total l j (Nat.le_of_lt_succ (List.mem_range.mp hj)), mul_one]

/-- `binomialPmf` vanishes outside `0..n` -/
theorem binomialPmf_of_lt (n : Nat) (q : Rat) (k : Nat) (h : n < k) : binomialPmf n q k = 0 := by
  simp [binomialPmf, choose_eq, Nat.choose_eq_zero_of_lt h]

/-- `binomialDist` really is the binomial law: the number of successes among `n` independent
Bernoulli(`q`) draws has the point masses `binomialPmf n q` -/
theorem successCount_law (q : Rat) (n k : Nat) :
    Dist.mass (successCount q n) (fun c => c == k) = binomialPmf n q k := by
  induction n generalizing k with
  | zero =>
    cases k with
    | zero => simp [successCount, Dist.mass_pure, binomialPmf, choose, rpow]
    | succ k => simp [successCount, Dist.mass_pure, binomialPmf, choose]
  | succ n ih =>
    simp only [successCount]
    rw [Dist.mass_bern_bind, mass_push, mass_push]
    simp only [if_true, Bool.false_eq_true, if_false]
    cases k with
    | zero =>
      have h1 : Dist.mass (successCount q n) (fun a => a + 1 == 0) = 0 := by
        apply mass_eq_zero; intro x _; simp
      rw [h1, ih]
      simp only [binomialPmf, rpow_eq, choose_eq]
      simp only [Nat.choose_zero_right, Nat.cast_one, pow_zero, Nat.sub_zero]
      ring
    | succ k =>
      have h1 : Dist.mass (successCount q n) (fun a => a + 1 == k + 1)
          = Dist.mass (successCount q n) (fun a => a == k) := by
        apply mass_congr; intro x _; simp
      rw [h1, ih, ih]
      by_cases hk : k + 1 ≤ n
      · simp only [binomialPmf, rpow_eq, choose]
        have e1 : n + 1 - (k + 1) = n - k := by omega
        have e2 : n - k = (n - (k + 1)) + 1 := by omega
        rw [e1, e2]
        push_cast
        ring
      · rw [binomialPmf_of_lt n q (k + 1) (by omega)]
        simp only [binomialPmf, rpow_eq, choose_eq, Nat.choose_succ_succ]
        have : n.choose (k + 1) = 0 := Nat.choose_eq_zero_of_lt (by omega)
        rw [this]
        have e1 : n + 1 - (k + 1) = n - k := by omega
        rw [e1]
        push_cast
        ring

/-! ### the ordered sample, with the order forgotten, is the uniform subset -/
section Ordered
variable {α : Type} [DecidableEq α]

/-- `s` selects from `l` exactly the elements marked by `keep` -/
def agree (l : List α) (keep : α → Bool) (s : List α) : Bool := l.all fun x => s.contains x == keep x

theorem asSublist_beq_iff (l : List α) (keep : α → Bool) (s : List α) :
    (asSublist l s == l.filter keep) = agree l keep s := by
  rw [Bool.eq_iff_iff]
  simp only [asSublist, agree, beq_iff_eq, List.all_eq_true]
  constructor
  · intro h x hx
    have hm : x ∈ l.filter (fun x => s.contains x) ↔ x ∈ l.filter keep := by rw [h]
    simp only [List.mem_filter, hx, true_and] at hm
    exact Bool.eq_iff_iff.mpr hm
  · intro h
    apply List.filter_congr
    intro x hx
    exact h x hx

omit [DecidableEq α] in
theorem sumRat_filter_const (l : List α) (keep : α → Bool) (c : Rat) :
    sumRat (l.map fun x => if keep x then c else 0) = (l.filter keep).length * c := by
  induction l with
  | nil => simp
  | cons a l ih =>
    simp only [List.map_cons, sumRat_cons, ih, List.filter_cons]
    cases keep a <;> simp; ring

theorem length_filter_erase (l : List α) (hn : l.Nodup) (keep : α → Bool) (x : α) (hx : x ∈ l)
    (hk : keep x = true) : ((l.erase x).filter keep).length + 1 = (l.filter keep).length := by
  have h1 : (l.erase x).filter keep = (l.filter keep).erase x := by
    rw [hn.erase_eq_filter, (hn.filter keep).erase_eq_filter, List.filter_filter, List.filter_filter]
    apply List.filter_congr
    intro y _
    exact Bool.and_comm _ _
  have hm : x ∈ l.filter keep := List.mem_filter.mpr ⟨hx, hk⟩
  rw [h1, List.length_erase_of_mem hm]
  have : 0 < (l.filter keep).length := List.length_pos_of_mem hm
  omega

theorem ordered_law (k : Nat) : ∀ (l : List α), l.Nodup → ∀ keep : α → Bool,
    Dist.mass (orderedSampleDist l k) (agree l keep)
      = if k = (l.filter keep).length then 1 / (choose l.length k : Rat) else 0 := by
  induction k with
  | zero =>
    intro l _ keep
    simp only [orderedSampleDist, Dist.mass_pure, choose, Nat.cast_one, div_one]
    have : (agree l keep [] = true) ↔ 0 = (l.filter keep).length := by
      rw [eq_comm (a := 0), List.length_eq_zero_iff, List.filter_eq_nil_iff]; simp [agree]
    simp only [this]
  | succ k ih =>
    intro l hn keep
    simp only [orderedSampleDist]
    rw [Dist.mass_uniformIdx_bind]
    let F : Option α → Rat := fun o => match o with
      | none => 0
      | some x => 1 / (l.length : Rat) *
          Dist.mass (Dist.push (x :: ·) (orderedSampleDist (l.erase x) k)) (agree l keep)
    rw [sumRat_map_congr _ _ (fun i => F l[i]?)]
    · rw [sumRat_range_getElem? l F]
      have hterm : ∀ x ∈ l, F (some x) = if keep x then
          1 / (l.length : Rat) * (if k + 1 = (l.filter keep).length
            then 1 / (choose (l.length - 1) k : Rat) else 0) else 0 := by
        intro x hx
        simp only [F]
        rw [mass_push]
        cases hkx : keep x with
        | false =>
          rw [mass_eq_zero, mul_zero]; · simp
          intro y _
          rw [Bool.eq_false_iff]
          intro h
          simp only [agree, List.all_eq_true, beq_iff_eq] at h
          have := h x hx
          simp [hkx] at this
        | true =>
          have hc : Dist.mass (orderedSampleDist (l.erase x) k) (fun a => agree l keep (x :: a))
              = Dist.mass (orderedSampleDist (l.erase x) k) (agree (l.erase x) keep) := by
            apply mass_congr
            intro y _
            rw [Bool.eq_iff_iff]
            simp only [agree, List.all_eq_true, beq_iff_eq, hn.mem_erase_iff]
            constructor
            · intro h z hz
              have := h z hz.2
              simpa [hz.1] using this
            · intro h z hz
              by_cases hzx : z = x
              · subst hzx; simp [hkx]
              · have := h z ⟨hzx, hz⟩
                simpa [hzx] using this
          rw [hc, ih (l.erase x) (hn.erase x) keep, List.length_erase_of_mem hx]
          have hl := length_filter_erase l hn keep x hx hkx
          simp only [if_true]
          congr 1
          apply if_congr _ rfl rfl
          omega
      rw [sumRat_map_congr _ _ _ hterm, sumRat_filter_const]
      have hle : (l.filter keep).length ≤ l.length := List.length_filter_le _ _
      by_cases hm : k + 1 = (l.filter keep).length
      · rw [if_pos hm, if_pos hm, ← hm]
        obtain ⟨n, hn'⟩ : ∃ n, l.length = n + 1 := ⟨l.length - 1, by omega⟩
        rw [hn', Nat.add_sub_cancel]
        have h1 : (0 : Rat) < (choose n k : Rat) := by exact_mod_cast choose_pos (by omega)
        have h2 : (0 : Rat) < (choose (n + 1) (k + 1) : Rat) := by exact_mod_cast choose_pos (by omega)
        have h3 : ((n + 1 : Nat) : Rat) * (choose n k : Rat) = (choose (n + 1) (k + 1) : Rat) * ((k + 1 : Nat) : Rat) := by
          rw [choose_eq, choose_eq]
          exact_mod_cast Nat.add_one_mul_choose_eq n k
        have h4 : (0 : Rat) < ((n + 1 : Nat) : Rat) := by positivity
        rw [div_mul_div_comm, one_mul, h3]
        field_simp
      · rw [if_neg hm, if_neg hm]; simp
    · intro i hi
      have hi' := List.mem_range.mp hi
      simp only [F, List.getElem?_eq_getElem hi', hn.erase_getElem]

/-- forgetting the order of `random.sample(l,k)` gives the uniform `k`-subset, pointwise -/
theorem ordered_eq_sample (l : List α) (hn : l.Nodup) (keep : α → Bool) (k : Nat) :
    Dist.mass (Dist.push (asSublist l) (orderedSampleDist l k)) (fun s => s == l.filter keep)
      = Dist.mass (sampleDist l k) (fun s => s == l.filter keep) := by
  rw [mass_push, mass_sampleDist l hn keep k, ← ordered_law k l hn keep]
  apply mass_congr
  intro x _
  exact asSublist_beq_iff l keep x.1

omit [DecidableEq α] in
theorem ordered_total (k : Nat) : ∀ (l : List α), k ≤ l.length →
    Dist.mass (orderedSampleDist l k) (fun _ => true) = 1 := by
  induction k with
  | zero => intro l _; simp [orderedSampleDist, Dist.mass_pure]
  | succ k ih =>
    intro l hk
    simp only [orderedSampleDist]
    rw [Dist.mass_uniformIdx_bind, sumRat_map_congr _ _ (fun _ => 1 / (l.length : Rat))]
    · rw [sumRat_map_const, List.length_range]
      have : (0 : Rat) < (l.length : Rat) := by exact_mod_cast (by omega : 0 < l.length)
      field_simp
    · intro i hi
      have hi' := List.mem_range.mp hi
      simp only [List.getElem?_eq_getElem hi']
      rw [mass_push, ih _ (by rw [List.length_eraseIdx_of_lt hi']; omega), mul_one]

theorem recipientsOrd_law' (l : List α) (hn : l.Nodup) (q : Rat) (keep : α → Bool) :
    Dist.mass (recipientsOrdDist l q) (fun s => s == l.filter keep) =
      q ^ (l.filter keep).length * (1 - q) ^ (l.length - (l.filter keep).length) := by
  rw [← recipients_law' l hn q keep]
  simp only [recipientsOrdDist, recipientsDist, Dist.mass_bind]
  apply sumRat_map_congr
  intro c _
  rw [ordered_eq_sample l hn keep]

theorem recipientsOrd_total' (l : List α) (q : Rat) :
    Dist.mass (recipientsOrdDist l q) (fun _ => true) = 1 := by
  simp only [recipientsOrdDist, binomialDist, Dist.mass_bind, List.map_map, Function.comp_def]
  rw [sumRat_map_congr _ _ (binomialPmf l.length q)]
  · exact binomialPmf_sum _ q
  · intro j hj
    rw [mass_push, ordered_total j l (Nat.le_of_lt_succ (List.mem_range.mp hj)), mul_one]

end Ordered

/-! ### equality in law on every event -/
section Event

/-- a finite distribution supported on a duplicate-free list `S` is determined by its point masses on `S` -/
theorem mass_decomp {β : Type} [DecidableEq β] (d : Dist β) (S : List β) (hS : S.Nodup)
    (hsupp : ∀ x ∈ d, x.1 ∈ S) (P : β → Bool) :
    Dist.mass d P = sumRat (S.map fun s => if P s then Dist.mass d (fun b => b == s) else 0) := by
  induction d with
  | nil => rw [Dist.mass_nil, sumRat_map_zero]; intro c _; simp [Dist.mass_nil]
  | cons x xs ih =>
    obtain ⟨a, p⟩ := x
    have ha : a ∈ S := hsupp (a, p) List.mem_cons_self
    rw [Dist.mass_cons, ih (fun y hy => hsupp y (List.mem_cons_of_mem _ hy))]
    rw [sumRat_map_congr S (fun s => if P s then Dist.mass ((a, p) :: xs) (fun b => b == s) else 0)
        (fun s => (if P s then p else 0) * (if s = a then 1 else 0)
        + (if P s then Dist.mass xs (fun b => b == s) else 0)), sumRat_map_add,
      sumRat_indicator S a (fun s => if P s then p else 0) hS ha]
    intro s _
    rw [Dist.mass_cons]
    by_cases hs : s = a
    · subst hs; cases P s <;> simp
    · have : (a == s) = false := beq_eq_false_iff_ne.mpr (Ne.symm hs)
      cases P s <;> simp [this, hs]

theorem mass_eq_of_point {β : Type} [DecidableEq β] (d e : Dist β) (S : List β) (hS : S.Nodup)
    (hd : ∀ x ∈ d, x.1 ∈ S) (he : ∀ x ∈ e, x.1 ∈ S)
    (h : ∀ s ∈ S, Dist.mass d (fun b => b == s) = Dist.mass e (fun b => b == s)) (P : β → Bool) :
    Dist.mass d P = Dist.mass e P := by
  rw [mass_decomp d S hS hd P, mass_decomp e S hS he P]
  apply sumRat_map_congr
  intro s hs
  rw [h s hs]

variable {α : Type} [DecidableEq α]

theorem filter_contains_of_sublist {s l : List α} (h : s.Sublist l) (hn : l.Nodup) :
    l.filter (fun x => s.contains x) = s := by
  induction h with
  | slnil => rfl
  | @cons s l a h ih =>
    have hnd := List.nodup_cons.mp hn
    have : s.contains a = false := by
      rw [Bool.eq_false_iff]; intro hc
      exact hnd.1 (h.subset (by simpa using hc))
    rw [List.filter_cons, this]
    exact ih hnd.2
  | @cons_cons s l a h ih =>
    have hnd := List.nodup_cons.mp hn
    rw [List.filter_cons]
    simp only [List.contains_cons, beq_self_eq_true, Bool.true_or, if_true]
    congr 1
    have : l.filter (fun x => x == a || s.contains x) = l.filter (fun x => s.contains x) := by
      apply List.filter_congr
      intro x hx
      have : (x == a) = false := by
        rw [beq_eq_false_iff_ne]; rintro rfl; exact hnd.1 hx
      simp [this]
    rw [this, ih hnd.2]

omit [DecidableEq α] in
theorem recipients_support (l : List α) (q : Rat) (x : List α × Rat) (hx : x ∈ recipientsDist l q) :
    x.1 ∈ l.sublists := by
  simp only [recipientsDist, Dist.bind, sampleDist, List.mem_flatMap, List.mem_map] at hx
  obtain ⟨⟨k, p⟩, _, ⟨b, r⟩, ⟨s, hs, hb⟩, rfl⟩ := hx
  simp only [Prod.mk.injEq] at hb
  rw [List.mem_sublists, ← hb.1]
  exact (mem_sublistsLen l k s hs).1

/-- **equality in law**: every event has the same probability under "binomial number, then uniform sample"
and under "independent Bernoulli(q) per neighbour" -/
theorem recipients_eq_indep' (l : List α) (hn : l.Nodup) (q : Rat) (P : List α → Bool) :
    Dist.mass (recipientsDist l q) P = Dist.mass (indepDist l q) P := by
  apply mass_eq_of_point _ _ l.sublists (List.nodup_sublists.mpr hn) (recipients_support l q)
  · intro x hx
    rw [List.mem_sublists]
    exact Discrete.percolate_support' q l x.1 ⟨x.2, hx⟩
  · intro s hs
    rw [List.mem_sublists] at hs
    have key := (recipients_law' l hn q (fun x => s.contains x)).trans
      (Discrete.percolate_edge_law' q l hn (fun x => s.contains x)).symm
    rw [filter_contains_of_sublist hs hn] at key
    have hc : ∀ d : Dist (List α), Dist.mass d (fun b => @BEq.beq (List α) instBEqOfDecidableEq b s)
        = Dist.mass d (fun b => @BEq.beq (List α) List.instBEq b s) := by
      intro d; apply mass_congr; intro x _
      show decide (x.1 = s) = (x.1 == s)
      by_cases h : x.1 = s <;> simp [h]
    rw [hc, hc]
    exact key

theorem recipientsOrd_support (l : List α) (q : Rat) (x : List α × Rat) (hx : x ∈ recipientsOrdDist l q) :
    x.1 ∈ l.sublists := by
  simp only [recipientsOrdDist, Dist.bind, Dist.push, List.mem_flatMap, List.mem_map] at hx
  obtain ⟨⟨k, p⟩, _, ⟨b, r⟩, ⟨⟨s, r'⟩, _, hb⟩, rfl⟩ := hx
  simp only [Prod.mk.injEq] at hb
  rw [List.mem_sublists, ← hb.1]
  exact List.filter_sublist

/-- the same with the ordered `random.sample` -/
theorem recipientsOrd_eq_indep' (l : List α) (hn : l.Nodup) (q : Rat) (P : List α → Bool) :
    Dist.mass (recipientsOrdDist l q) P = Dist.mass (indepDist l q) P := by
  rw [← recipients_eq_indep' l hn q P]
  apply mass_eq_of_point _ _ l.sublists (List.nodup_sublists.mpr hn) (recipientsOrd_support l q)
    (recipients_support l q)
  intro s hs
  rw [List.mem_sublists] at hs
  have key := (recipientsOrd_law' l hn q (fun x => s.contains x)).trans
    (recipients_law' l hn q (fun x => s.contains x)).symm
  rw [filter_contains_of_sublist hs hn] at key
  have hc : ∀ d : Dist (List α), Dist.mass d (fun b => @BEq.beq (List α) instBEqOfDecidableEq b s)
      = Dist.mass d (fun b => @BEq.beq (List α) List.instBEq b s) := by
    intro d; apply mass_congr; intro x _
    show decide (x.1 = s) = (x.1 == s)
    by_cases h : x.1 = s <;> simp [h]
  rw [hc, hc]
  exact key

end Event

end FastSIRLaw
