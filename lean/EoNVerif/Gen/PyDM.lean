import EoNVerif.Gen.PyTM
/-!
Runtime of the code generated from the discrete-time simulators (`harness/pydisc2lean.py`).

Besides the scripted random tape (`TM`) the generated code needs two more oracles:
* the iteration order of a Python `set` (CPython: a function of the hashes and of the insertion history — not
  modelled).  A `set` is a duplicate-free `List Node` (insertion order); `for x in <set>` asks the oracle for a
  permutation of it (`iterSet`).  An entry `none` means "not observed": the list order is used.  The refinement
  theorems quantify over every oracle.
* the answers of the user callbacks `test_transmission(u, v, *args)` / `test_recovery(u)`: each call is logged with
  its arguments and answered from a script (`ask`), like the random primitives.
-/
namespace PyDM

structure DSt where
  orders : List (Option (List Node))
  answers : List Bool
  calls : Array (List Nat) := #[]

abbrev DM := StateT DSt TM

def liftT {α : Type} (x : TM α) : DM α := fun s => do let a ← x; pure (a, s)
def liftE {α : Type} (x : Except String α) : DM α := liftT (PyTM.liftE x)
def fail {α : Type} (msg : String) : DM α := liftT (TM.fail msg)

/-- `o` is a rearrangement of the duplicate-free list `s` -/
def isPermOf (o s : List Node) : Bool :=
  o.length == s.length && o.all (fun x => s.contains x) && s.all (fun x => o.contains x)

/-- `for x in s` for a Python `set` -/
def iterSet (s : List Node) : DM (List Node) := fun st =>
  match st.orders with
  | [] => TM.fail "order-oracle-exhausted"
  | none :: r => pure (s, { st with orders := r })
  | some o :: r => if isPermOf o s then pure (o, { st with orders := r }) else TM.fail "order-oracle-mismatch"

/-- a call of a user callback: logged with its arguments, answered from the script -/
def ask (call : List Nat) : DM Bool := fun st =>
  match st.answers with
  | [] => TM.fail "answers-exhausted"
  | b :: r => pure (b, { st with answers := r, calls := st.calls.push call })

/-- `set(l)` -/
def setOf (l : List Node) : List Node := l.foldl (fun acc x => if acc.contains x then acc else acc ++ [x]) []

/-- `s.add(x)` -/
def setAdd (s : List Node) (x : Node) : List Node := if s.contains x then s else s ++ [x]

/-- `d[k] = v` for a `defaultdict(lambda: True)` kept as a function -/
def fset (f : Node → Bool) (k : Node) (v : Bool) : Node → Bool := fun x => if x = k then v else f x

abbrev Hist := List (Node × (List Rat × List St))

/-- `node_history[u][0].append(x)` on `defaultdict(lambda: ([tmin], ['S']))` (a read of a missing key stores the default) -/
def nhApp0 (tmin : Rat) (d : Hist) (u : Node) (x : Rat) : Hist :=
  let e := alGet d ([tmin], [St.S]) u
  alSet d u (e.1 ++ [x], e.2)

/-- `node_history[u][1].append(s)` -/
def nhApp1 (tmin : Rat) (d : Hist) (u : Node) (s : St) : Hist :=
  let e := alGet d ([tmin], [St.S]) u
  alSet d u (e.1, e.2 ++ [s])

/-- `d[k].append(x)` on a plain dict: KeyError when `k` is missing -/
def dictAppend (d : List (Node × List Node)) (k : Node) (x : Node) : Except String (List (Node × List Node)) := do
  let l ← PyRT.dictGet d k
  pure (alSet d k (l ++ [x]))

/-- `random.choice(seq)` for a list of nodes -/
def choiceNode (seq : List Node) : DM Node := do
  let i ← liftT (TM.popChoice (seq.map PyTM.encNode))
  liftE (PyRT.listChoice seq i)

/-- what the translated slices read from their arguments -/
structure DArgs where
  order : Int                                   -- G.order()
  nbrs : Node → List Node                       -- G.neighbors(u)
  tmin : Rat
  tmax : ERat
  full : Bool                                   -- return_full_data
  p : Rat                                       -- basic_discrete_SIS
  testTrans : Node → Node → DM Bool             -- test_transmission(u, v, *args)
  testRec : Option (Node → DM Bool)             -- test_recovery
  initial_infecteds : List Node                 -- after normalisation
  initial_recovereds : Option (List Node)

end PyDM
