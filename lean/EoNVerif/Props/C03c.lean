import EoNVerif.Props.C03
import EoNVerif.Proofs.SimpleTraj
/-!
C03c — **the induction over events** for `Gillespie_simple_contagion`: the one-step laws of `Props/C03` (`clock_eq`,
`pickIdx_interval`, `actor_law`, `applyEvent_inv`) lifted to the law of whole finite histories, as `Props/C01g` does
for `Gillespie_SIR/SIS` and `Props/C15c` for `Gillespie_complex_contagion`.

Definitions (in `Proofs/SimpleTraj.lean`, restated here in words).  An event is `SCEvent = ⟨idx, actor⟩`: `idx`
indexes `P.spont ++ P.ind`, `actor = [u]` (spontaneous) or `[u, v]` (induced, `v` is modified).

* `Simple.Spec.events P st` — the enabled (transition, actor) pairs of the specification in status `st` (for the
  `j`-th spontaneous transition the nodes of status `src`; for the `j`-th induced one the ordered pairs `(u, v)`,
  `v ∈ succ u`, statuses `(a, b)`): the enumeration `Simple.enabledS/enabledI` of the model file, labelled with the
  transition index; `Simple.Spec.Enabled P st e` is its membership predicate (`events_iff_enabled`);
  `Simple.Spec.evRate P e` = spec rate × weight of the actor (`1` if the transition has no weight label);
  their sum is `Simple.specTotal P st` (`rates_sum`), the quantity of C03 `clock_eq`.
* `Simple.Spec.jumpDist P n st : Dist (List (SCEvent × Rat))` — first `n` jumps of the specified CTMC: if
  `specTotal = 0` the history ends; else the enabled event `e` is next with probability `evRate e / specTotal`,
  `(e, specTotal)` is recorded, and the chain continues from `Spec.apply P st e` (the modified node takes the
  to-status).
* `Simple.idxDist P s : Dist Nat` — law of the transition index picked by "one uniform draw against the cumulative
  shares": index `i` has probability `share_i = rateList[i] / totalRate` = the length of the `i`-th cumulative
  interval (`share_is_interval_length`), which by C03 `pickIdx_interval` is exactly the set of draws for which
  `pickIdx` answers `i` (the shares are the expressions the tape model `pick` hands to `pickIdx`; they sum to 1,
  `shares_sum_one`).  `Simple.pickDist P s k` = `idxDist`, then `chooseDist k` of that transition's list.
* `Simple.trajDist P k n s` — law of the first `n` events of the model's loop, each recorded with the rate of the
  `expovariate` draw (`totalRate P s`).  Stop test = the loop's (`Simple.halted`: `total_rate > 0` fails; no horizon).
  **Deviations from the plan, forced by the model** (as in C01g/C15c): sampler budget exhausted (`none`) and
  `applyEvent = none` are *errors*, not stops, and contribute no history (`trajDist` is a sub-distribution); the loop
  tests `total_rate > 0`, which under `WF`/`Inv` is `specTotal ≠ 0` (`halt_iff_absorbing`); the event time passed to
  `applyEvent` is only recorded (`traj_time_irrelevant`); `0 < k` is needed because an *unweighted* list accepts in
  the first round but `chooseDist 0` has made no round at all.
* `Simple.accProd P k s h = Π_i c_i`, `c_i = 1 - ρ_i^k` for the list used by the `i`-th event (in the state reached
  after `i-1` events) if it is weighted, `1` otherwise; `Simple.defectSum` = `Σ_i ρ_i^k`.
* `Simple.Spec.Legal P st h` — `h` is a path of the chain: every event is an enabled transition of the specification
  with a positive rate in the status reached so far; the recorded rate is `specTotal` there (positive).

Hypotheses, as in C03: `Simple.WF P` (graph well-formed, rates and weights non-negative) and `Simple.Inv P s` (true
after `init`, C03 `init_inv`; preserved, `traj_status`).
-/
namespace SimpleTraj
open Simple
variable {σ : Type} [DecidableEq σ]

/-- the loop's stop test is, under the invariant, "the chain is absorbed" (total rate 0) -/
theorem halt_iff_absorbing (P : SCParams σ) (h : WF P) (s : SCState σ) (hs : Inv P s) :
    halted P s ↔ specTotal P s.status = 0 :=
  halted_iff P h s hs

theorem loop_stops (P : SCParams σ) (cfuel fuel : Nat) (s : SCState σ) (tv : Rat) (hh : halted P s) :
    loop P none cfuel (fuel + 1) s (if totalRate P s > 0 then some tv else none) = pure s :=
  loop_halted P cfuel fuel s tv hh

theorem loop_continues (P : SCParams σ) (cfuel fuel : Nat) (s : SCState σ) (tv : Rat) (hh : ¬ halted P s) :
    loop P none cfuel (fuel + 1) s (if totalRate P s > 0 then some tv else none) =
      (do
        let e ← pick P s cfuel
        match applyEvent P s e tv with
        | none => TM.fail "KeyError"
        | some s' =>
          let tot := totalRate P s'
          if tot > 0 then do
            let d ← TM.popExpo tot
            loop P none cfuel fuel s' (some (tv + d))
          else loop P none cfuel fuel s' none) :=
  loop_running P cfuel fuel s tv hh

/-! #### the enumeration of the specification's events -/

theorem events_iff_enabled (P : SCParams σ) (st : Node → σ) (e : SCEvent) :
    e ∈ Spec.events P st ↔ Spec.Enabled P st e :=
  mem_events P st e

/-- no (transition, actor) pair is listed twice -/
theorem events_distinct (P : SCParams σ) (h : WF P) (st : Node → σ) : (Spec.events P st).Nodup :=
  events_nodup P h st

/-- the rates of the enabled events add up to the total rate of C03 `clock_eq` -/
theorem rates_sum (P : SCParams σ) (st : Node → σ) :
    sumRat ((Spec.events P st).map (Spec.evRate P)) = specTotal P st :=
  sum_rates P st

/-- the model's candidates are exactly the enabled transitions of the specification -/
theorem enabled_iff (P : SCParams σ) (s : SCState σ) (hs : Inv P s) (e : SCEvent) :
    Enabled s e ↔ Spec.Enabled P s.status e :=
  enabled_iff_spec P s hs e

/-! #### the transition index -/

omit [DecidableEq σ] in
theorem shares_sum_one (P : SCParams σ) (s : SCState σ) (hpos : 0 < totalRate P s) :
    sumRat ((rateList P s).map fun x => x / totalRate P s) = 1 :=
  shares_sum P s hpos

omit [DecidableEq σ] in
/-- the probability `idxDist` gives index `i` is the length of the `i`-th cumulative-share interval, i.e. (C03
`pickIdx_interval`) of the set of uniform draws for which `pickIdx` returns `i` -/
theorem share_is_interval_length (P : SCParams σ) (s : SCState σ) (i : Nat) :
    sumRat (((rateList P s).map fun x => x / totalRate P s).take (i + 1)) -
      sumRat (((rateList P s).map fun x => x / totalRate P s).take i) =
      (rateList P s).getD i 0 / totalRate P s :=
  share_interval (rateList P s) (totalRate P s) i

/-- **the index law is exact**: under `WF`/`Inv`, while the loop runs, the model's cumulative-share loop answers `i` on
the draw `r ∈ [0, 1)` **iff** `r` lies in the `i`-th cumulative-share interval — whose length is the weight
`idxDist` gives `i` (`share_is_interval_length`); so for a uniform `r` the index has law `idxDist` -/
theorem idx_law_exact (P : SCParams σ) (h : WF P) (s : SCState σ) (hs : Inv P s) (hpos : 0 < totalRate P s)
    (r : Rat) (h0 : 0 ≤ r) (h1 : r < 1) (i : Nat) :
    pickIdx ((rateList P s).map fun x => x / totalRate P s) r = i ↔
      (i < (rateList P s).length ∧
        sumRat (((rateList P s).map fun x => x / totalRate P s).take i) ≤ r ∧
        r < sumRat (((rateList P s).map fun x => x / totalRate P s).take (i + 1))) :=
  pick_index_exact P h s hs hpos r h0 h1 i

/-- **one-step jump law** (transition by cumulative share, then actor by the list's sampler): an enabled event is
selected with probability `evRate / specTotal` × the acceptance factor of its list; any other event never -/
theorem jump_law (P : SCParams σ) (h : WF P) (s : SCState σ) (hs : Inv P s) (e : SCEvent) (k : Nat)
    (hk : 0 < k) :
    Dist.mass (pickDist P s k) (fun o => o == some e) =
      if Enabled s e then Spec.evRate P e / specTotal P s.status * stepFactor s k e else 0 := by
  by_cases he : Enabled s e
  · rw [if_pos he]; exact jump_law_event P h s hs e he k hk
  · rw [if_neg he]; exact jump_law_support P s k e he

/-! #### histories -/

/-- **trajectory law**: for every history, length `n` and budget `k ≥ 1`, the model produces the history with the
probability the jump chain of the specification gives it, times `Π_i c_i` — the probability that none of the
rejection samplers of the (weighted) lists used ran out of rounds -/
theorem traj_law (P : SCParams σ) (h : WF P) (k : Nat) (hk : 0 < k) (n : Nat) (s : SCState σ) (hs : Inv P s)
    (hist : List (SCEvent × Rat)) :
    Dist.mass (trajDist P k n s) (fun x => x == hist) =
      Dist.mass (Spec.jumpDist P n s.status) (fun x => x == hist) * accProd P k s hist :=
  Simple.traj_law P h k hk n s hs hist

/-- no `get_weight` labels at all: the model's law of histories *is* the jump chain's -/
theorem traj_law_unweighted (P : SCParams σ) (h : WF P) (k : Nat) (hk : 0 < k) (n : Nat) (s : SCState σ)
    (hs : Inv P s) (hS : ∀ tr ∈ P.spont, tr.w = none) (hI : ∀ tr ∈ P.ind, tr.w = none)
    (hist : List (SCEvent × Rat)) :
    Dist.mass (trajDist P k n s) (fun x => x == hist) =
      Dist.mass (Spec.jumpDist P n s.status) (fun x => x == hist) := by
  rw [traj_law P h k hk n s hs hist, accProd_unweighted P h k s hs hS hI hist, mul_one]

theorem accProd_unit (P : SCParams σ) (h : WF P) (k : Nat) (s : SCState σ) (hs : Inv P s)
    (hist : List (SCEvent × Rat)) : 0 ≤ accProd P k s hist ∧ accProd P k s hist ≤ 1 :=
  ⟨(accProd_bounds P h k s hs hist).1, (accProd_bounds P h k s hs hist).2.1⟩

theorem jump_mass_nonneg (P : SCParams σ) (h : WF P) (n : Nat) (st : Node → σ)
    (Q : List (SCEvent × Rat) → Bool) : 0 ≤ Dist.mass (Spec.jumpDist P n st) Q :=
  Dist.mass_nonneg _ (jumpDist_nonneg P h n st) Q

/-- the model never over-weights a history -/
theorem traj_law_le (P : SCParams σ) (h : WF P) (k : Nat) (hk : 0 < k) (n : Nat) (s : SCState σ) (hs : Inv P s)
    (hist : List (SCEvent × Rat)) :
    Dist.mass (trajDist P k n s) (fun x => x == hist) ≤
      Dist.mass (Spec.jumpDist P n s.status) (fun x => x == hist) := by
  rw [traj_law P h k hk n s hs hist]
  have h1 := jump_mass_nonneg P h n s.status (fun x => x == hist)
  have h2 := (accProd_bounds P h k s hs hist).2.1
  nlinarith

/-- … and under-weights it by at most the relative defect `Σ_i ρ_i^k` (union bound) -/
theorem traj_law_ge (P : SCParams σ) (h : WF P) (k : Nat) (hk : 0 < k) (n : Nat) (s : SCState σ) (hs : Inv P s)
    (hist : List (SCEvent × Rat)) :
    Dist.mass (Spec.jumpDist P n s.status) (fun x => x == hist) * (1 - defectSum P k s hist) ≤
      Dist.mass (trajDist P k n s) (fun x => x == hist) := by
  rw [traj_law P h k hk n s hs hist]
  have h1 := jump_mass_nonneg P h n s.status (fun x => x == hist)
  have h2 := (accProd_bounds P h k s hs hist).2.2.1
  exact mul_le_mul_of_nonneg_left h2 h1

/-- the jump chain's law is a probability distribution (total mass 1), whatever the parameters -/
theorem jump_total (P : SCParams σ) (n : Nat) (st : Node → σ) :
    Dist.mass (Spec.jumpDist P n st) (fun _ => true) = 1 :=
  jumpDist_total P n st

/-- **the defect vanishes as `k → ∞`**: for every history and `ε > 0` there is a budget `K` from which on the model's
mass of the history is within `ε` below the chain's (never above: `traj_law_le`) -/
theorem traj_law_limit (P : SCParams σ) (h : WF P) (n : Nat) (s : SCState σ) (hs : Inv P s)
    (hist : List (SCEvent × Rat)) (ε : Rat) (hε : 0 < ε) :
    ∃ K : Nat, ∀ k, K ≤ k →
      Dist.mass (Spec.jumpDist P n s.status) (fun x => x == hist) - ε ≤
        Dist.mass (trajDist P k n s) (fun x => x == hist) := by
  have hm0 := jump_mass_nonneg P h n s.status (fun x => x == hist)
  by_cases hm : Dist.mass (Spec.jumpDist P n s.status) (fun x => x == hist) = 0
  · refine ⟨1, fun k hk => ?_⟩
    rw [traj_law P h k hk n s hs hist, hm]; linarith
  · have hpos : 0 < Dist.mass (Spec.jumpDist P n s.status) (fun x => x == hist) :=
      lt_of_le_of_ne hm0 (Ne.symm hm)
    obtain ⟨K, hK⟩ := defect_small P h s hs hist (chain_support P h n s.status hist hm).1 _ (div_pos hε hpos)
    refine ⟨max K 1, fun k hk => ?_⟩
    have h1 := traj_law_ge P h k (lt_of_lt_of_le Nat.one_pos (le_trans (le_max_right _ _) hk)) n s hs hist
    have h2 := hK k (le_trans (le_max_left _ _) hk)
    have h3 := mul_le_mul_of_nonneg_left h2 hm0
    rw [mul_div_cancel₀ _ hm] at h3
    linarith

/-- **support**: a history the model produces with positive probability is a legal path of the chain — each event is
an enabled transition of the specification, of positive rate, in the status reached by `Spec.apply` of its
predecessors, and the recorded rate is the total rate there —, has at most `n` events, fewer only if absorbed -/
theorem traj_support (P : SCParams σ) (h : WF P) (k : Nat) (hk : 0 < k) (n : Nat) (s : SCState σ) (hs : Inv P s)
    (hist : List (SCEvent × Rat)) (hm : Dist.mass (trajDist P k n s) (fun x => x == hist) ≠ 0) :
    Spec.Legal P s.status hist ∧ hist.length ≤ n ∧
      (hist.length < n → specTotal P (Spec.applyHist P s.status hist) = 0) := by
  rw [traj_law P h k hk n s hs hist] at hm
  exact chain_support P h n s.status hist (left_ne_zero_of_mul hm)

theorem jump_support (P : SCParams σ) (h : WF P) (n : Nat) (st : Node → σ) (hist : List (SCEvent × Rat))
    (hm : Dist.mass (Spec.jumpDist P n st) (fun x => x == hist) ≠ 0) :
    Spec.Legal P st hist ∧ hist.length ≤ n ∧
      (hist.length < n → specTotal P (Spec.applyHist P st hist) = 0) :=
  chain_support P h n st hist hm

/-- **status along a history**: after every prefix of a positive-probability history the model is in a state (no
KeyError) that satisfies `Inv` and whose status is the iterated `Spec.apply` -/
theorem traj_status (P : SCParams σ) (h : WF P) (k : Nat) (hk : 0 < k) (n : Nat) (s : SCState σ) (hs : Inv P s)
    (hist : List (SCEvent × Rat)) (hm : Dist.mass (trajDist P k n s) (fun x => x == hist) ≠ 0)
    (h1 h2 : List (SCEvent × Rat)) (hsplit : hist = h1 ++ h2) :
    ∃ s', applyHist P s h1 = some s' ∧ Inv P s' ∧ s'.status = Spec.applyHist P s.status h1 := by
  have hl := (traj_support P h k hk n s hs hist hm).1
  rw [hsplit] at hl
  exact legal_applyHist P h s hs h1 (legal_prefix P s.status h1 h2 hl)

theorem legal_status (P : SCParams σ) (h : WF P) (s : SCState σ) (hs : Inv P s) (hist : List (SCEvent × Rat))
    (hl : Spec.Legal P s.status hist) :
    ∃ s', applyHist P s hist = some s' ∧ Inv P s' ∧ s'.status = Spec.applyHist P s.status hist :=
  legal_applyHist P h s hs hist hl

/-- the recorded event time does not influence what `applyEvent` does to the rest of the state -/
theorem applyEvent_time (P : SCParams σ) (s : SCState σ) (e : SCEvent) (t t' : Rat) :
    match applyEvent P s e t, applyEvent P s e t' with
    | some a, some b => Core a b
    | none, none => True
    | _, _ => False :=
  applyEvent_coreT P s s (core_refl s) e t t'

/-- **times do not influence event selection** -/
theorem traj_time_irrelevant (P : SCParams σ) (k : Nat) (ts : List Rat) (s : SCState σ) :
    trajDistT P k ts s = trajDist P k ts.length s :=
  trajDistT_eq' P k ts s s (core_refl s)

/-- from the initial condition -/
theorem traj_law_init (P : SCParams σ) (h : WF P) (ic : Node → σ) (tmin : Rat) (k : Nat) (hk : 0 < k) (n : Nat)
    (hist : List (SCEvent × Rat)) :
    ∃ s, init P ic tmin = some s ∧
      Dist.mass (trajDist P k n s) (fun x => x == hist) =
        Dist.mass (Spec.jumpDist P n ic) (fun x => x == hist) * accProd P k s hist := by
  obtain ⟨s, h1, h2, h3⟩ := init_inv' P h ic tmin
  exact ⟨s, h1, by rw [traj_law P h k hk n s h2 hist, h3]⟩

end SimpleTraj

/-! ### non-vacuity

(1) The unweighted SIR specification `P3` of `Props/C03` on the path 0 – 1 – 2 (recovery rate 1 = transition 0,
transmission rate 2 = transition 1), node 0 infected.  Events: `⟨0,[0]⟩` rate 1, `⟨1,[0,1]⟩` rate 2, total 3; after
the transmission `0 → 1`: `⟨0,[0]⟩`, `⟨0,[1]⟩` rate 1 each, `⟨1,[1,2]⟩` rate 2, total 4.  History
`[(⟨1,[0,1]⟩, 3), (⟨1,[1,2]⟩, 4)]`: chain mass `2/3 · 2/4 = 1/3`, and the model's mass is the same (no weights).

(2) The same with weights (`P3w`): node weight `u + 1` on the recovery, edge weight 3 on `{0,1}` and 1 on `{1,2}` on
the transmission.  Rates: `⟨0,[0]⟩` 1, `⟨1,[0,1]⟩` 6, total 7; after `0 → 1`: `⟨0,[0]⟩` 1, `⟨0,[1]⟩` 2, `⟨1,[1,2]⟩` 2,
total 5.  History `[(⟨1,[0,1]⟩, 7), (⟨0,[1]⟩, 5)]`: chain mass `6/7 · 2/5 = 12/35`; `ρ₁ = 0` (one candidate pair),
`ρ₂ = 1 - 3/(2·2) = 1/4` (weights 1, 2), so the model's mass is `12/35 · (1 - 4^{-k})`. -/

open Simple

def exH3 : List (SCEvent × Rat) := [(⟨1, [0, 1]⟩, 3), (⟨1, [1, 2]⟩, 4)]

example : Spec.events P3 ic3 = [⟨0, [0]⟩, ⟨1, [0, 1]⟩] := by decide +kernel
example : Dist.mass (Spec.jumpDist P3 2 ic3) (fun x => x == exH3) = 1 / 3 := by decide +kernel
example : (init P3 ic3 0).map (fun s => Dist.mass (trajDist P3 1 2 s) (fun x => x == exH3)) = some (1 / 3) := by
  decide +kernel
example : (init P3 ic3 0).map (fun s => Dist.mass (trajDist P3 2 2 s) (fun x => x == exH3)) = some (1 / 3) := by
  decide +kernel
example : Dist.mass (Spec.jumpDist P3 2 ic3) (fun _ => true) = 1 := by decide +kernel

def P3w : SCParams String :=
  { P3 with
    spont := [{ src := "I", dst := "R", rate := 1, w := some fun u => (u : Rat) + 1 }],
    ind := [{ a := "I", b := "S", c := "I", rate := 2, w := some fun u v => if u + v = 1 then 3 else 1 }] }

def exH3w : List (SCEvent × Rat) := [(⟨1, [0, 1]⟩, 7), (⟨0, [1]⟩, 5)]

example : Dist.mass (Spec.jumpDist P3w 2 ic3) (fun x => x == exH3w) = 12 / 35 := by decide +kernel
example : (init P3w ic3 0).map (fun s => accProd P3w 2 s exH3w) = some (15 / 16) := by decide +kernel
example : (init P3w ic3 0).map (fun s => Dist.mass (trajDist P3w 1 2 s) (fun x => x == exH3w))
    = some (12 / 35 * (1 - (1/4)^1)) := by decide +kernel
example : (init P3w ic3 0).map (fun s => Dist.mass (trajDist P3w 2 2 s) (fun x => x == exH3w))
    = some (12 / 35 * (1 - (1/4)^2)) := by decide +kernel
example : (init P3w ic3 0).map (fun s => Dist.mass (trajDist P3w 3 2 s) (fun x => x == exH3w))
    = some (12 / 35 * (1 - (1/4)^3)) := by decide +kernel
/-- a wrong recorded rate, an event that is not enabled (node 2 cannot be infected before node 1), or an ill-formed
event has mass 0 in both laws -/
example : (init P3w ic3 0).map (fun s =>
      (Dist.mass (trajDist P3w 2 2 s) (fun x => x == [(⟨1, [0, 1]⟩, 7), (⟨0, [1]⟩, 4)]),
       Dist.mass (trajDist P3w 2 2 s) (fun x => x == [(⟨1, [1, 2]⟩, 7), (⟨0, [1]⟩, 5)]),
       Dist.mass (trajDist P3w 2 2 s) (fun x => x == [(⟨7, [0]⟩, 7)])))
    = some (0, 0, 0) := by decide +kernel
example : (Dist.mass (Spec.jumpDist P3w 2 ic3) (fun x => x == [(⟨1, [0, 1]⟩, 7), (⟨0, [1]⟩, 4)]),
           Dist.mass (Spec.jumpDist P3w 2 ic3) (fun x => x == [(⟨1, [1, 2]⟩, 7), (⟨0, [1]⟩, 5)]),
           Dist.mass (Spec.jumpDist P3w 2 ic3) (fun x => x == [(⟨7, [0]⟩, 7)])) = (0, 0, 0) := by decide +kernel
example : Dist.mass (Spec.jumpDist P3w 2 ic3) (fun _ => true) = 1 := by decide +kernel

/-- the hypotheses are satisfiable for the weighted specification too -/
theorem P3w_wf : Simple.WF P3w where
  nodup := P3_wf.nodup
  succ_nodup := P3_wf.succ_nodup
  succ_mem := P3_wf.succ_mem
  succ_out := P3_wf.succ_out
  pred_nodup := P3_wf.pred_nodup
  pred_iff := P3_wf.pred_iff
  undirected_symm := P3_wf.undirected_symm
  noloop := P3_wf.noloop
  wS_nonneg := by
    intro tr htr f hf u
    have : tr = { src := "I", dst := "R", rate := 1, w := some fun u => (u : Rat) + 1 } := by
      simpa [P3w] using htr
    rw [this] at hf
    obtain rfl : (fun u : Node => (u : Rat) + 1) = f := Option.some.inj hf
    have : (0 : Rat) ≤ (u : Rat) := Nat.cast_nonneg u
    dsimp only; linarith
  wI_nonneg := by
    intro tr htr f hf u v
    have : tr = { a := "I", b := "S", c := "I", rate := 2, w := some fun u v => if u + v = 1 then 3 else 1 } := by
      simpa [P3w] using htr
    rw [this] at hf
    obtain rfl : (fun u v : Node => if u + v = 1 then (3 : Rat) else 1) = f := Option.some.inj hf
    dsimp only; split <;> decide +kernel
  rate_nonneg := by
    constructor
    · intro tr htr
      have : tr = { src := "I", dst := "R", rate := 1, w := some fun u => (u : Rat) + 1 } := by
        simpa [P3w] using htr
      rw [this]; decide +kernel
    · intro tr htr
      have : tr = { a := "I", b := "S", c := "I", rate := 2, w := some fun u v => if u + v = 1 then 3 else 1 } := by
        simpa [P3w] using htr
      rw [this]; decide +kernel

/-- the general theorem, instantiated, gives for **every** budget `k ≥ 1` the value the direct computations above give
for `k = 1, 2, 3` -/
example (k : Nat) (hk : 0 < k) :
    ∃ s, init P3w ic3 0 = some s ∧
      Dist.mass (trajDist P3w k 2 s) (fun x => x == exH3w) = 12 / 35 * accProd P3w k s exH3w := by
  obtain ⟨s, h1, h2⟩ := SimpleTraj.traj_law_init P3w P3w_wf ic3 0 k hk 2 exH3w
  refine ⟨s, h1, ?_⟩
  rw [h2]
  congr 1
  decide +kernel

example (k : Nat) (hk : 0 < k) :
    ∃ s, init P3 ic3 0 = some s ∧ Dist.mass (trajDist P3 k 2 s) (fun x => x == exH3) = 1 / 3 := by
  obtain ⟨s, h1, h2, h3⟩ := init_inv' P3 P3_wf ic3 0
  refine ⟨s, h1, ?_⟩
  rw [SimpleTraj.traj_law_unweighted P3 P3_wf k hk 2 s h2 (by decide) (by decide) exH3, h3]
  decide +kernel
