"""C01 — Markovian SIR simulators sample the exact SIR chain (Gillespie_SIR tape correspondence + exact law;
fast_SIR: see fastsir.py)."""
import common, gillcheck, c11


def run(ctx):
    drv = common.LeanDriver()
    gillcheck.correspondence(ctx, drv, False, ctx.scale(1500, 6000), "Gillespie_SIR")
    cases = gillcheck.law_cases(ctx, False, ctx.scale(3, 4), ctx.scale(30, 300))
    if not ctx.thorough:
        cases = ctx.rng.sample(cases, min(len(cases), 150))
    gillcheck.law_check(ctx, drv, False, cases, "Gillespie_SIR")
    # fast_SIR on both dispatch paths: first-passage percolation of the delays/durations it drew (shared with C11)
    c11.fast_sir(ctx, drv)
