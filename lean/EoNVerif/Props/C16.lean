import EoNVerif.Model.ListDict
