import EoNVerif.Gen.InvestGen
import EoNVerif.Spec.Predicates
import EoNVerif.Model.History
import EoNVerif.Proofs.Investigation
import Mathlib.Tactic.Linarith
/-!
C10b — the Lean code GENERATED from `Simulation_Investigation.node_status / get_statuses / summary` and
`_transform_to_node_history_` (Gen/InvestGen.lean) equals the hand-written specifications (`Pred.nodeStatusImpl`,
`Pred.statusAt`, `Pred.summarySpec`, `History.sirHist`, `History.sisHist`).

A node history is the pair of parallel lists `(times, statuses)` in the generated code and the zipped list
`Pred.Hist` in the specifications; `unzipH` converts.
-/

namespace GenInvestProofs
open Pred PyRT GenInvest

/-- the pair of parallel lists Python stores for a node history -/
def unzipH (h : Hist) : List Rat × List String := (h.map (·.1), h.map (·.2))

@[simp] theorem unzipH_fst (h : Hist) : (unzipH h).1 = h.map (·.1) := rfl
@[simp] theorem unzipH_snd (h : Hist) : (unzipH h).2 = h.map (·.2) := rfl

/-! ### Python indexing -/

theorem ok_iff_toOption {α : Type} (e : Except String α) (a : α) : e = .ok a ↔ e.toOption = some a := by
  cases e <;> simp [Except.toOption]

theorem pyIndex_nat {α : Type} (l : List α) (i : Nat) (hi : i < l.length) :
    pyIndex l (i : Int) = .ok l[i] := by
  unfold pyIndex
  have h0 : ¬ ((i : Int) < 0) := by omega
  have h1 : ¬ ((i : Int) < 0 ∨ (i : Int) ≥ (l.length : Int)) := by omega
  simp only [h0, if_false] at h1 ⊢
  simp only [h1, if_false, Int.toNat_natCast, List.getElem?_eq_getElem hi]
  rfl

theorem pyIndex_nat_err {α : Type} (l : List α) (i : Nat) (hi : l.length ≤ i) :
    pyIndex l (i : Int) = .error "IndexError" := by
  unfold pyIndex
  have h0 : ¬ ((i : Int) < 0) := by omega
  have h1 : ((i : Int) < 0 ∨ (i : Int) ≥ (l.length : Int)) := by omega
  simp only [h0, if_false] at h1 ⊢
  simp only [h1, if_true]
  rfl

theorem pyIndex_neg_one_ok {α : Type} (l : List α) (hl : l ≠ []) :
    pyIndex l (-1 : Int) = .ok (l.getLast hl) := by
  unfold pyIndex
  have hpos : 0 < l.length := List.length_pos_iff.mpr hl
  have h0 : ((-1 : Int) < 0) := by omega
  have h1 : ¬ ((-1 : Int) + (l.length : Int) < 0 ∨ (-1 : Int) + (l.length : Int) ≥ (l.length : Int)) := by omega
  simp only [h0, if_true] at h1 ⊢
  have e : ((-1 : Int) + (l.length : Int)).toNat = l.length - 1 := by omega
  have hlt : l.length - 1 < l.length := by omega
  simp only [h1, if_false, e, List.getElem?_eq_getElem hlt]
  rw [List.getLast_eq_getElem]
  rfl

theorem pyIndex_neg_one_nil {α : Type} : pyIndex ([] : List α) (-1 : Int) = .error "IndexError" := rfl

theorem pyIndex_nonneg {α : Type} (l : List α) (i : Nat) :
    (pyIndex l (i : Int)).toOption = l[i]? := by
  by_cases hi : i < l.length
  · rw [pyIndex_nat l i hi, List.getElem?_eq_getElem hi]; rfl
  · rw [pyIndex_nat_err l i (Nat.le_of_not_lt hi), List.getElem?_eq_none (Nat.le_of_not_lt hi)]; rfl

theorem pyIndex_neg_one {α : Type} (l : List α) :
    (pyIndex l (-1 : Int)).toOption = l.getLast? := by
  by_cases hl : l = []
  · subst hl; rfl
  · rw [pyIndex_neg_one_ok l hl, List.getLast?_eq_some_getLast hl]; rfl

theorem pyIndex_zero_cons {α : Type} (a : α) (l : List α) : pyIndex (a :: l) 0 = .ok a :=
  pyIndex_nat (a :: l) 0 (by simp)

theorem pyIndex_zero_nil {α : Type} : pyIndex ([] : List α) 0 = .error "IndexError" := rfl

theorem pyIndex_neg_one_append {α : Type} (l : List α) (a : α) : pyIndex (l ++ [a]) (-1) = .ok a := by
  rw [pyIndex_neg_one_ok (l ++ [a]) (by simp)]
  simp

/-! ### 1. `node_status` / `get_statuses` -/

theorem filter_map_fst_length (h : Hist) (t : Rat) :
    ((h.map (·.1)).filter (fun c => decide (c ≤ t))).length = (h.filter fun e => e.1 ≤ t).length := by
  rw [List.filter_map, List.length_map]
  rfl

/-- the generated `node_status` is `Pred.nodeStatusImpl` (for EVERY history and time; on the empty history both
fail), including Python's wrap-around `statuses[-1]` when no change time is `≤ t` -/
theorem gen_node_status_toOption (h : Hist) (t : Rat) :
    (node_status (unzipH h) t).toOption = nodeStatusImpl h t := by
  unfold node_status nodeStatusImpl
  simp only [unzipH_fst, unzipH_snd, filter_map_fst_length]
  generalize hk : (h.filter fun e => e.1 ≤ t).length = k
  show (pyIndex _ _).toOption = _
  cases k with
  | zero =>
    simp only [if_true]
    show (pyIndex (h.map (·.2)) (-1)).toOption = _
    rw [pyIndex_neg_one, List.getLast?_map]
  | succ k =>
    have e : (((k + 1 : Nat) : Int) + (-1 : Int)) = ((k : Nat) : Int) := by omega
    rw [e, pyIndex_nonneg]
    simp

theorem gen_get_status_of_eq_node_status (h : List Rat × List String) (t : Rat) :
    get_status_of h t = node_status h t := rfl

theorem gen_node_status_eq (h : Hist) (t : Rat) (s : String) :
    node_status (unzipH h) t = .ok s ↔ nodeStatusImpl h t = some s := by
  rw [ok_iff_toOption, gen_node_status_toOption]

theorem gen_get_status_of_eq (h : Hist) (t : Rat) (s : String) :
    get_status_of (unzipH h) t = .ok s ↔ nodeStatusImpl h t = some s :=
  gen_node_status_eq h t s

/-- on a non-empty history the generated `node_status` never raises -/
theorem gen_node_status_total (h : Hist) (hne : h ≠ []) (t : Rat) : ∃ s, node_status (unzipH h) t = .ok s := by
  have hk : (h.filter fun e => e.1 ≤ t).length ≤ h.length := List.length_filter_le _ _
  have hpos : 0 < h.length := List.length_pos_iff.mpr hne
  have : (nodeStatusImpl h t).isSome = true := by
    unfold nodeStatusImpl
    simp only
    split
    · simp [List.getLast?_eq_some_getLast hne]
    · rename_i hk0
      have hlt : (h.filter fun e => e.1 ≤ t).length - 1 < h.length := by omega
      simp [List.getElem?_eq_getElem hlt]
  obtain ⟨s, hs⟩ := Option.isSome_iff_exists.mp this
  exact ⟨s, (gen_node_status_eq h t s).mpr hs⟩

theorem pairwise_of_nondecreasing : ∀ (l : List Rat), nondecreasing l = true → l.Pairwise (· ≤ ·)
  | [], _ => List.Pairwise.nil
  | [_], _ => by simp
  | a :: b :: t, h => by
    simp only [nondecreasing, Bool.and_eq_true, decide_eq_true_eq] at h
    have ih := pairwise_of_nondecreasing (b :: t) h.2
    rw [List.pairwise_cons]
    refine ⟨?_, ih⟩
    intro c hc
    rcases List.mem_cons.mp hc with rfl | hc
    · exact h.1
    · exact le_trans h.1 ((List.pairwise_cons.mp ih).1 c hc)

/-- the count-based lookup agrees with "latest change at or before `t`" on a time-ordered history, for every query
time at or after the history's first time (a list fact: no event log is involved) -/
theorem nodeStatusImpl_eq_statusAt_of_ordered (h : Hist) (tmin t : Rat) (hord : histTimesOrdered h = true)
    (hhead : h.head?.map (·.1) = some tmin) (ht : tmin ≤ t) : nodeStatusImpl h t = statusAt h t := by
  have hs := pairwise_of_nondecreasing _ hord
  have hft := Invest.filter_le_eq_take (fun e : Rat × String => e.1) t h hs
  have hpos : 0 < (h.filter fun e => e.1 ≤ t).length := by
    cases h with
    | nil => simp at hhead
    | cons e r =>
      simp only [List.head?_cons, Option.map_some, Option.some.injEq] at hhead
      simp [hhead, ht]
  have hle : (h.filter fun e => e.1 ≤ t).length ≤ h.length := List.length_filter_le _ _
  unfold nodeStatusImpl statusAt
  generalize hk : (h.filter fun e => e.1 ≤ t).length = k at *
  simp only [Nat.ne_of_gt hpos, if_false]
  rw [hft, List.getLast?_eq_getElem?, List.length_take, Nat.min_eq_left hle, List.getElem?_take]
  simp [hpos]

/-- **node_status == spec**: on a time-ordered history starting at `tmin`, for every query time `t ≥ tmin`, the
generated `node_status` returns the status of the latest change at or before `t` -/
theorem gen_node_status_eq_statusAt (h : Hist) (tmin t : Rat) (s : String) (hord : histTimesOrdered h = true)
    (hhead : h.head?.map (·.1) = some tmin) (ht : tmin ≤ t) :
    node_status (unzipH h) t = .ok s ↔ statusAt h t = some s := by
  rw [gen_node_status_eq, nodeStatusImpl_eq_statusAt_of_ordered h tmin t hord hhead ht]

theorem gen_get_status_of_eq_statusAt (h : Hist) (tmin t : Rat) (s : String) (hord : histTimesOrdered h = true)
    (hhead : h.head?.map (·.1) = some tmin) (ht : tmin ≤ t) :
    get_status_of (unzipH h) t = .ok s ↔ statusAt h t = some s :=
  gen_node_status_eq_statusAt h tmin t s hord hhead ht

/-- the wrap-around made explicit: when no change time is `≤ t` (query before the first change) the generated code
returns the LAST status of the history (Python's `statuses[-1]`), not an error -/
theorem gen_node_status_wrap (h : Hist) (hne : h ≠ []) (t : Rat) (hlt : ∀ e ∈ h, t < e.1) :
    node_status (unzipH h) t = .ok (h.getLast hne).2 := by
  rw [gen_node_status_eq]
  unfold nodeStatusImpl
  have : h.filter (fun e => e.1 ≤ t) = [] := by
    rw [List.filter_eq_nil_iff]
    intro e he
    simpa using hlt e he
  simp [this, List.getLast?_eq_some_getLast hne]

/-! ### 2. `_transform_to_node_history_` -/

theorem unzipH_append (h : Hist) (t : Rat) (s : String) :
    ((unzipH h).1 ++ [t], (unzipH h).2 ++ [s]) = unzipH (h ++ [(t, s)]) := by
  simp [unzipH]

theorem gen_transform_sir_eq (tmin : Rat) (inf rec : Option Rat) :
    transform_sir tmin inf rec = unzipH (History.sirHist tmin inf rec) := by
  unfold transform_sir History.sirHist
  cases inf with
  | none =>
    cases rec with
    | none => rfl
    | some tr =>
      by_cases h2 : tr = tmin <;> simp [h2, unzipH]
  | some ti =>
    cases rec with
    | none => by_cases h1 : ti = tmin <;> simp [h1, unzipH]
    | some tr =>
      by_cases h1 : ti = tmin <;> by_cases h2 : tr = tmin <;> simp [h1, h2, unzipH]

theorem gen_transform_sis_loop_eq (tmin : Rat) : ∀ (is rs : List Rat) (h : Hist),
    transform_sis_loop tmin is rs (unzipH h) = unzipH (History.sisLoop tmin is rs h)
  | [], _, _ => by simp [transform_sis_loop, History.sisLoop]
  | ti :: is, [], h => by
    unfold transform_sis_loop History.sisLoop
    by_cases h1 : ti = tmin
    · simp only [h1, if_true]
      have := gen_transform_sis_loop_eq tmin is [] [(tmin, "I")]
      simpa [unzipH] using this
    · simp only [h1, if_false]
      rw [unzipH_append]
      exact gen_transform_sis_loop_eq tmin is [] _
  | ti :: is, tr :: rs, h => by
    unfold transform_sis_loop History.sisLoop
    by_cases h1 : ti = tmin
    · simp only [h1, if_true]
      have := gen_transform_sis_loop_eq tmin is rs ([(tmin, "I")] ++ [(tr, "S")])
      simpa [unzipH] using this
    · simp only [h1, if_false]
      have := gen_transform_sis_loop_eq tmin is rs (h ++ [(ti, "I")] ++ [(tr, "S")])
      simpa [unzipH] using this

theorem gen_transform_sis_eq (tmin : Rat) (is rs : List Rat) :
    transform_sis tmin is rs = unzipH (History.sisHist tmin is rs) :=
  gen_transform_sis_loop_eq tmin is rs [(tmin, "S")]

/-! ### 3. `summary` -/

abbrev Delta := List (String × List (Rat × Int))
/-- one `delta[status][time] += c` request -/
abbrev Ev := String × Rat × Int

/-- `if status in delta: delta[status][time] += c` -/
def estep (d : Delta) (ev : Ev) : Delta := if alHasS d ev.1 then deltaAdd d ev.1 ev.2.1 ev.2.2 else d

/-- `zip(statuses[1:], statuses[:-1], times[1:])` of the history `(_, prev) :: r` -/
def chg (prev : String) : Hist → List (String × String × Rat)
  | [] => []
  | e :: r => (e.2, prev, e.1) :: chg e.2 r

/-- the `delta` updates of the change entries `r` of a history whose previous status is `prev` -/
def evsFrom (prev : String) : Hist → List Ev
  | [] => []
  | e :: r => (e.2, e.1, 1) :: (prev, e.1, -1) :: evsFrom e.2 r

/-- all `delta` updates `summary` performs for one node history, in order -/
def evs : Hist → List Ev
  | [] => []
  | e :: r => (e.2, e.1, 1) :: evsFrom e.2 r

/-- verbatim copy of the inner loop body of the generated `summary` -/
def innerStep (acc : List Rat × Delta) (x : String × String × Rat) : List Rat × Delta :=
        let (times, delta) := acc
        let (new_status, old_status, time) := x
        let delta := (if PyRT.alHasS delta new_status then PyRT.deltaAdd delta new_status time (1 : Int) else delta)
        let delta := (if PyRT.alHasS delta old_status then PyRT.deltaAdd delta old_status time (-1 : Int) else delta)
        let times := PyRT.setAdd times time
        (times, delta)

/-- verbatim copy of the per-node loop body of the generated `summary` -/
def nodeStepM (hist : Node → List Rat × List String) (acc : List Rat × Delta) (node : Node) :
    Except String (List Rat × Delta) := do
    let (times, delta) := acc
    let node_times := (hist node).1
    let node_statuses := (hist node).2
    let tmin ← PyRT.pyIndex node_times 0
    let times := PyRT.setAdd times tmin
    let s0 ← PyRT.pyIndex node_statuses 0
    let delta := (if PyRT.alHasS delta s0 then PyRT.deltaAdd delta s0 tmin (1 : Int) else delta)
    let zipped := PyRT.zip3 (PyRT.pySlice node_statuses (some (1 : Int)) none) (PyRT.pySlice node_statuses none (some (-1 : Int))) (PyRT.pySlice node_times (some (1 : Int)) none)
    let (times, delta) := zipped.foldl innerStep (times, delta)
    pure (times, delta)

/-- verbatim copy of the column loop body -/
def colStep (statuses : List String) (delta : Delta) (cols : List (List Int)) (time : Rat) :
    Except String (List (List Int)) :=
      (List.zip statuses cols).mapM (fun (p : String × List Int) => do
        let last ← PyRT.pyIndex p.2 (-1)
        pure (p.2 ++ [last + PyRT.deltaGet delta p.1 time]))

/-- verbatim copy of the part of `summary` after the node loop -/
def finish (statuses : List String) (times : List Rat) (delta : Delta) :
    Except String (List Rat × List (List Int)) := do
  let t := PyRT.sortedRat times
  let tmin ← PyRT.pyIndex t 0
  let cols0 : List (List Int) := statuses.map (fun status => [PyRT.deltaGet delta status tmin])
  let cols ← (PyRT.pySlice t (some 1) none).foldlM (colStep statuses delta) cols0
  pure (t, cols)

def delta0 (statuses : List String) : Delta := statuses.foldl (fun d status => alSet d status []) []

theorem summary_eq_def (hist : Node → List Rat × List String) (statuses : List String) (nodelist : List Node) :
    summary hist statuses nodelist =
      (do let (times, delta) ← nodelist.foldlM (nodeStepM hist) ([], delta0 statuses)
          finish statuses times delta) := rfl

/-! #### slices -/

theorem pySlice_from_one {α : Type} (l : List α) : pySlice l (some (1 : Int)) none = l.drop 1 := by
  cases l with
  | nil => rfl
  | cons a t =>
    unfold pySlice pyBound
    have h1 : ¬ ((1 : Int) < 0) := by omega
    have h2 : (min (1 : Int) ((t.length + 1 : Nat) : Int)).toNat = 1 := by omega
    simp only [h1, if_false, List.length_cons, h2, List.drop_succ_cons, List.drop_zero, Nat.add_sub_cancel]
    exact List.take_length

theorem pySlice_to_neg_one {α : Type} (l : List α) : pySlice l none (some (-1 : Int)) = l.dropLast := by
  unfold pySlice pyBound
  have h1 : ((-1 : Int) < 0) := by omega
  have h2 : (max ((-1 : Int) + ((l.length : Nat) : Int)) 0).toNat = l.length - 1 := by omega
  simp only [h1, if_true, h2, List.drop_zero, Nat.sub_zero]
  exact (List.dropLast_eq_take).symm

theorem zip3_chg (e : Rat × String) : ∀ (r : Hist),
    zip3 (r.map (·.2)) (((e :: r).map (·.2)).dropLast) (r.map (·.1)) = chg e.2 r
  | [] => rfl
  | e' :: r' => by
    have ih := zip3_chg e' r'
    simp only [List.map_cons, List.dropLast_cons_cons, zip3, chg] at ih ⊢
    rw [ih]

theorem innerStep_eq (T : List Rat) (D : Delta) (n o : String) (t : Rat) :
    innerStep (T, D) (n, o, t) = (setAdd T t, estep (estep D (n, t, 1)) (o, t, -1)) := rfl

theorem foldl_innerStep (prev : String) : ∀ (r : Hist) (T : List Rat) (D : Delta),
    (chg prev r).foldl innerStep (T, D) = ((r.map (·.1)).foldl setAdd T, (evsFrom prev r).foldl estep D)
  | [], _, _ => rfl
  | e :: r, T, D => by
    simp only [chg, List.foldl_cons, innerStep_eq, List.map_cons, evsFrom]
    exact foldl_innerStep e.2 r _ _

/-- the per-node loop body on a non-empty history: the node's change times are added to the set of times, its
`delta` updates are applied -/
theorem nodeStepM_ok (H : Node → Hist) (v : Node) (hne : H v ≠ []) (T : List Rat) (D : Delta) :
    nodeStepM (fun v => unzipH (H v)) (T, D) v =
      .ok (((H v).map (·.1)).foldl setAdd T, (evs (H v)).foldl estep D) := by
  unfold nodeStepM
  cases hH : H v with
  | nil => exact absurd hH hne
  | cons e r =>
    simp only [unzipH_fst, unzipH_snd, hH, pySlice_from_one, pySlice_to_neg_one]
    simp only [List.map_cons, pyIndex_zero_cons, List.drop_succ_cons, List.drop_zero]
    have hz := zip3_chg e r
    simp only [List.map_cons] at hz
    show (pure _ : Except String _) = _
    rw [hz, foldl_innerStep]
    rfl

theorem nodeStepM_empty (H : Node → Hist) (v : Node) (he : H v = []) (acc : List Rat × Delta) :
    nodeStepM (fun v => unzipH (H v)) acc v = .error "IndexError" := by
  unfold nodeStepM
  simp only [unzipH_fst, he, List.map_nil, pyIndex_zero_nil]
  rfl

theorem foldlM_nodeStepM (H : Node → Hist) : ∀ (nodes : List Node) (T : List Rat) (D : Delta),
    (∀ v ∈ nodes, H v ≠ []) →
    nodes.foldlM (nodeStepM (fun v => unzipH (H v))) (T, D) =
      .ok (((nodes.map H).flatMap (fun h => h.map (·.1))).foldl setAdd T,
           ((nodes.map H).flatMap evs).foldl estep D)
  | [], _, _, _ => rfl
  | v :: nodes, T, D, hne => by
    rw [List.foldlM_cons, nodeStepM_ok H v (hne v (by simp))]
    show List.foldlM _ _ nodes = _
    rw [foldlM_nodeStepM H nodes _ _ (fun w hw => hne w (List.mem_cons_of_mem _ hw))]
    simp only [List.map_cons, List.flatMap_cons, List.foldl_append]

/-! #### (a) the times -/

theorem mem_setAdd (s : List Rat) (x y : Rat) : y ∈ setAdd s x ↔ y ∈ s ∨ y = x := by
  unfold setAdd
  by_cases h : s.contains x = true
  · rw [if_pos h]
    constructor
    · exact Or.inl
    · rintro (h1 | rfl)
      · exact h1
      · simpa using h
  · rw [if_neg h]; simp

theorem mem_foldl_setAdd (y : Rat) : ∀ (l acc : List Rat), y ∈ l.foldl setAdd acc ↔ y ∈ acc ∨ y ∈ l
  | [], _ => by simp
  | x :: l, acc => by
    rw [List.foldl_cons, mem_foldl_setAdd y l, mem_setAdd, List.mem_cons]
    tauto

theorem insSorted_eq (x : Rat) : ∀ l : List Rat, insSorted x l = insertSorted x l
  | [] => rfl
  | y :: t => by
    unfold insSorted insertSorted
    rw [insSorted_eq x t]

theorem sortedRat_eq (s : List Rat) : sortedRat s = s.foldl (fun acc x => insertSorted x acc) [] := by
  unfold sortedRat
  congr 1
  funext acc x
  exact insSorted_eq x acc

/-- `sorted(list(times))` after the node loop is `Pred.allTimes`: both are strictly ascending lists with the same
members (no hypothesis on the histories) -/
theorem sortedRat_times_eq (hs : List Hist) :
    sortedRat ((hs.flatMap (fun h => h.map (·.1))).foldl setAdd []) = allTimes hs := by
  rw [sortedRat_eq]
  apply Invest.strict_ext _ _ (Invest.foldl_insertSorted_strict _ [] List.Pairwise.nil) (Invest.allTimes_strict hs)
  intro x
  unfold allTimes
  rw [Invest.mem_foldl_insertSorted, Invest.mem_foldl_insertSorted, mem_foldl_setAdd]
  simp

theorem allTimes_ne_nil (hs : List Hist) (hne : hs ≠ []) (hall : ∀ h ∈ hs, h ≠ []) : allTimes hs ≠ [] := by
  obtain ⟨h, hh⟩ := List.exists_mem_of_ne_nil hs hne
  obtain ⟨e, he⟩ := List.exists_mem_of_ne_nil h (hall h hh)
  have : e.1 ∈ allTimes hs := (Invest.mem_allTimes hs e.1).mpr ⟨h, hh, e, he, rfl⟩
  exact List.ne_nil_of_mem this

/-! #### (b) the table `delta` -/

theorem alGet_alSet {α β : Type} [DecidableEq α] (l : List (α × β)) (x y : α) (v d : β) :
    alGet (alSet l x v) d y = if x = y then v else alGet l d y := by
  induction l with
  | nil => simp [alSet, alGet]
  | cons p t ih =>
    obtain ⟨k, w⟩ := p
    simp only [alSet]
    by_cases hk : k = x
    · subst hk
      by_cases hy : k = y <;> simp [alGet, hy]
    · simp only [hk, if_false, alGet, ih]
      by_cases hy : k = y
      · have : ¬ x = y := fun e => hk (hy.trans e.symm)
        simp [hy, this]
      · simp [hy]

theorem alHasS_alSet {ν : Type} (d : List (String × ν)) (k k' : String) (v : ν) :
    alHasS (alSet d k v) k' = (alHasS d k' || k == k') := by
  induction d with
  | nil => simp [alSet, alHasS]
  | cons p t ih =>
    obtain ⟨k0, w⟩ := p
    unfold alHasS at ih ⊢
    simp only [alSet]
    by_cases hk : k0 = k
    · subst hk
      simp only [if_true, List.any_cons]
      cases (k0 == k') <;> simp
    · simp only [hk, if_false, List.any_cons, ih, Bool.or_assoc]

theorem alHasS_foldl_init (k : String) : ∀ (sts : List String) (acc : Delta),
    alHasS (sts.foldl (fun d status => alSet d status []) acc) k = true ↔ alHasS acc k = true ∨ k ∈ sts
  | [], _ => by simp
  | s :: sts, acc => by
    rw [List.foldl_cons, alHasS_foldl_init k sts, alHasS_alSet, List.mem_cons]
    simp only [Bool.or_eq_true, beq_iff_eq]
    constructor
    · rintro ((h | h) | h)
      · exact Or.inl h
      · exact Or.inr (Or.inl h.symm)
      · exact Or.inr (Or.inr h)
    · rintro (h | h | h)
      · exact Or.inl (Or.inl h)
      · exact Or.inl (Or.inr h.symm)
      · exact Or.inr h

theorem alHasS_delta0 (sts : List String) (k : String) : alHasS (delta0 sts) k = true ↔ k ∈ sts := by
  unfold delta0
  rw [alHasS_foldl_init]
  simp [alHasS]

theorem alGet_foldl_init (k : String) : ∀ (sts : List String) (acc : Delta),
    alGet acc [] k = [] → alGet (sts.foldl (fun d status => alSet d status []) acc) [] k = []
  | [], _, h => h
  | s :: sts, acc, h => by
    rw [List.foldl_cons]
    apply alGet_foldl_init k sts
    rw [alGet_alSet]
    split
    · rfl
    · exact h

theorem deltaGet_delta0 (sts : List String) (s : String) (t : Rat) : deltaGet (delta0 sts) s t = 0 := by
  unfold deltaGet delta0
  rw [alGet_foldl_init s sts [] rfl]
  rfl

theorem alHasS_estep (d : Delta) (ev : Ev) (k : String) : alHasS (estep d ev) k = alHasS d k := by
  unfold estep
  by_cases h : alHasS d ev.1 = true
  · rw [if_pos h]
    unfold deltaAdd
    rw [alHasS_alSet]
    by_cases hk : ev.1 = k
    · rw [← hk, h]; rfl
    · have : (ev.1 == k) = false := by simpa using hk
      rw [this, Bool.or_false]
  · rw [if_neg h]

theorem deltaGet_estep (d : Delta) (ev : Ev) (s : String) (t : Rat) :
    deltaGet (estep d ev) s t =
      deltaGet d s t + (if ev.1 = s ∧ ev.2.1 = t ∧ alHasS d ev.1 = true then ev.2.2 else 0) := by
  unfold estep
  by_cases h : alHasS d ev.1 = true
  · rw [if_pos h]
    unfold deltaGet deltaAdd
    rw [alGet_alSet]
    by_cases hs : ev.1 = s
    · rw [if_pos hs, alGet_alSet]
      subst hs
      by_cases ht : ev.2.1 = t
      · subst ht; simp [h]
      · simp [ht]
    · simp [hs]
  · rw [if_neg h]; simp [h]

/-- weighted count: the sum of the increments of the updates for status `s` whose time satisfies `p` -/
def W (s : String) (p : Rat → Bool) : List Ev → Int
  | [] => 0
  | ev :: l => (if ev.1 = s ∧ p ev.2.1 = true then ev.2.2 else 0) + W s p l

theorem W_append (s : String) (p : Rat → Bool) : ∀ (l1 l2 : List Ev), W s p (l1 ++ l2) = W s p l1 + W s p l2
  | [], l2 => by simp [W]
  | ev :: l1, l2 => by
    simp only [List.cons_append, W, W_append s p l1 l2]; omega

theorem W_congr (s : String) (p q : Rat → Bool) : ∀ (l : List Ev), (∀ ev ∈ l, p ev.2.1 = q ev.2.1) →
    W s p l = W s q l
  | [], _ => rfl
  | ev :: l, h => by
    simp only [W]
    rw [W_congr s p q l (fun e he => h e (List.mem_cons_of_mem _ he)), h ev (by simp)]

theorem W_split (s : String) (p q r : Rat → Bool) : ∀ (l : List Ev),
    (∀ ev ∈ l, p ev.2.1 = (q ev.2.1 || r ev.2.1) ∧ ¬ (q ev.2.1 = true ∧ r ev.2.1 = true)) →
    W s p l = W s q l + W s r l
  | [], _ => rfl
  | ev :: l, h => by
    simp only [W]
    rw [W_split s p q r l (fun e he => h e (List.mem_cons_of_mem _ he))]
    obtain ⟨h1, h2⟩ := h ev (by simp)
    rw [h1]
    by_cases hs : ev.1 = s
    · cases hq : q ev.2.1 <;> cases hr : r ev.2.1 <;> simp_all <;> omega
    · simp [hs]

theorem W_flatMap (s : String) (p : Rat → Bool) (f : Hist → List Ev) : ∀ (hs : List Hist),
    W s p (hs.flatMap f) = (hs.map fun h => W s p (f h)).sum
  | [] => rfl
  | h :: hs => by
    rw [List.flatMap_cons, W_append, W_flatMap s p f hs]; simp

/-- the value the node loop leaves in `delta[s][t]` (for a listed status): the net change of the number of nodes of
status `s` at time `t` -/
theorem deltaGet_foldl_estep (sts : List String) (s : String) (hs : s ∈ sts) (t : Rat) :
    ∀ (evl : List Ev) (d : Delta), (∀ k, alHasS d k = true ↔ k ∈ sts) →
      deltaGet (evl.foldl estep d) s t = deltaGet d s t + W s (fun x => x == t) evl
  | [], d, _ => by simp [W]
  | ev :: evl, d, hk => by
    rw [List.foldl_cons, deltaGet_foldl_estep sts s hs t evl (estep d ev)
      (fun k => by rw [alHasS_estep]; exact hk k), deltaGet_estep]
    simp only [W]
    by_cases h1 : ev.1 = s
    · have : alHasS d ev.1 = true := by rw [h1]; exact (hk s).mpr hs
      rw [h1] at this
      by_cases h2 : ev.2.1 = t
      · simp [h1, h2, this]; omega
      · simp [h1, h2]
    · simp [h1]

/-! #### (c) telescoping: net changes up to `t` = status count at `t` -/

/-- last status of `l`, or `prev` when `l` is empty -/
def lastSt (prev : String) (l : Hist) : String :=
  match l.getLast? with
  | some e => e.2
  | none => prev

theorem lastSt_nil (prev : String) : lastSt prev [] = prev := rfl

theorem lastSt_cons (prev : String) (e : Rat × String) (l : Hist) : lastSt prev (e :: l) = lastSt e.2 l := by
  cases l with
  | nil => rfl
  | cons e' l' =>
    simp only [lastSt, List.getLast?_cons_cons]
    rw [List.getLast?_eq_some_getLast (List.cons_ne_nil e' l')]

theorem filter_le_nil_of_gt (e : Rat × String) (r : Hist) (t : Rat)
    (h : ((e :: r).map (·.1)).Pairwise (· ≤ ·)) (he : ¬ e.1 ≤ t) : r.filter (fun x => x.1 ≤ t) = [] := by
  rw [List.map_cons, List.pairwise_cons] at h
  rw [List.filter_eq_nil_iff]
  intro x hx
  have := h.1 x.1 (List.mem_map_of_mem hx)
  simp only [decide_eq_true_eq, not_le]
  exact lt_of_lt_of_le (not_le.mp he) this

theorem W_evsFrom (s : String) (t : Rat) : ∀ (r : Hist) (prev : String), (r.map (·.1)).Pairwise (· ≤ ·) →
    W s (fun x => decide (x ≤ t)) (evsFrom prev r) =
      (if lastSt prev (r.filter fun e => e.1 ≤ t) = s then 1 else 0) - (if prev = s then 1 else 0)
  | [], prev, _ => by
    simp only [evsFrom, W, List.filter_nil, lastSt_nil]
    by_cases hp : prev = s <;> simp [hp]
  | e :: r, prev, h => by
    have h' := h
    rw [List.map_cons, List.pairwise_cons] at h'
    have ih := W_evsFrom s t r e.2 h'.2
    simp only [evsFrom, W, ih]
    by_cases he : e.1 ≤ t
    · simp only [List.filter_cons, he, decide_true, if_true, lastSt_cons, and_true]
      split_ifs <;> omega
    · have hnil := filter_le_nil_of_gt e r t h he
      simp only [List.filter_cons, he, decide_false, hnil, lastSt_nil, Bool.false_eq_true, and_false, if_false]
      omega

theorem W_evs (s : String) (t : Rat) (h : Hist) (hord : (h.map (·.1)).Pairwise (· ≤ ·)) :
    W s (fun x => decide (x ≤ t)) (evs h) = if statusAt h t = some s then 1 else 0 := by
  cases h with
  | nil => simp [evs, W, statusAt]
  | cons e r =>
    have h' := hord
    rw [List.map_cons, List.pairwise_cons] at h'
    simp only [evs, W, W_evsFrom s t r e.2 h'.2]
    by_cases he : e.1 ≤ t
    · have hst : statusAt (e :: r) t = some (lastSt e.2 (r.filter fun x => x.1 ≤ t)) := by
        unfold statusAt
        simp only [List.filter_cons, he, decide_true, if_true]
        rw [← lastSt_cons e.2 e]
        unfold lastSt
        simp [List.getLast?_cons]
      rw [hst]
      simp only [he, decide_true, and_true, Option.some.injEq]
      split_ifs <;> omega
    · have hnil := filter_le_nil_of_gt e r t hord he
      have hst : statusAt (e :: r) t = none := by
        unfold statusAt
        simp [he, hnil]
      rw [hst, hnil, lastSt_nil]
      simp [he]

theorem countAt_cons (h : Hist) (hs : List Hist) (t : Rat) (s : String) :
    countAt (h :: hs) t s = (if statusAt h t = some s then 1 else 0) + countAt hs t s := by
  unfold countAt
  by_cases hc : statusAt h t = some s
  · simp [hc]; omega
  · simp [hc]

/-- the net changes at all times `≤ t` add up to the number of nodes whose latest change at or before `t` gave `s` -/
theorem W_all_le (s : String) (t : Rat) : ∀ (hs : List Hist), (∀ h ∈ hs, histTimesOrdered h = true) →
    W s (fun x => decide (x ≤ t)) (hs.flatMap evs) = countAt hs t s
  | [], _ => rfl
  | h :: hs, hord => by
    rw [List.flatMap_cons, W_append, countAt_cons,
      W_all_le s t hs (fun h' hh' => hord h' (List.mem_cons_of_mem _ hh')),
      W_evs s t h (pairwise_of_nondecreasing _ (hord h (by simp)))]

theorem evsFrom_time_mem : ∀ (r : Hist) (prev : String) (ev : Ev), ev ∈ evsFrom prev r → ∃ e ∈ r, e.1 = ev.2.1
  | [], _, _, h => by simp [evsFrom] at h
  | e :: r, prev, ev, h => by
    simp only [evsFrom, List.mem_cons] at h
    rcases h with rfl | rfl | h
    · exact ⟨e, by simp, rfl⟩
    · exact ⟨e, by simp, rfl⟩
    · obtain ⟨e', he', h2⟩ := evsFrom_time_mem r e.2 ev h
      exact ⟨e', List.mem_cons_of_mem _ he', h2⟩

theorem evs_time_mem (h : Hist) (ev : Ev) (hev : ev ∈ evs h) : ∃ e ∈ h, e.1 = ev.2.1 := by
  cases h with
  | nil => simp [evs] at hev
  | cons e r =>
    simp only [evs, List.mem_cons] at hev
    rcases hev with rfl | hev
    · exact ⟨e, by simp, rfl⟩
    · obtain ⟨e', he', h2⟩ := evsFrom_time_mem r e.2 ev hev
      exact ⟨e', List.mem_cons_of_mem _ he', h2⟩

theorem allEvs_time_mem (hs : List Hist) (ev : Ev) (hev : ev ∈ hs.flatMap evs) : ev.2.1 ∈ allTimes hs := by
  obtain ⟨h, hh, hev'⟩ := List.mem_flatMap.mp hev
  obtain ⟨e, he, h2⟩ := evs_time_mem h ev hev'
  exact (Invest.mem_allTimes hs _).mpr ⟨h, hh, e, he, h2⟩

/-- consecutive entries `a, b` of a strictly ascending list: `a < b` and no member lies strictly between -/
theorem consecutive_of_strict : ∀ (ts : List Rat), ts.Pairwise (· < ·) → ∀ a b, (a, b) ∈ ts.zip ts.tail →
    a < b ∧ ∀ x ∈ ts, x ≤ a ∨ b ≤ x
  | [], _, _, _, h => by simp at h
  | [_], _, _, _, h => by simp at h
  | t0 :: t1 :: r, hp, a, b, h => by
    have hp' := hp
    rw [List.pairwise_cons] at hp'
    simp only [List.tail_cons, List.zip_cons_cons, List.mem_cons, Prod.mk.injEq] at h
    rcases h with ⟨rfl, rfl⟩ | h
    · refine ⟨hp'.1 b (by simp), ?_⟩
      intro x hx
      rcases List.mem_cons.mp hx with rfl | hx
      · exact Or.inl (le_refl _)
      · rcases List.mem_cons.mp hx with rfl | hx
        · exact Or.inr (le_refl _)
        · exact Or.inr (le_of_lt ((List.pairwise_cons.mp hp'.2).1 x hx))
    · obtain ⟨hab, hx⟩ := consecutive_of_strict (t1 :: r) hp'.2 a b (by simpa using h)
      refine ⟨hab, ?_⟩
      intro x hx'
      rcases List.mem_cons.mp hx' with rfl | hx'
      · have ha : a ∈ t1 :: r := (List.of_mem_zip h).1
        exact Or.inl (le_of_lt (hp'.1 a ha))
      · exact hx x hx'

/-- the count at a time = the count at the previous time + the net change at the time -/
theorem count_step (hs : List Hist) (hord : ∀ h ∈ hs, histTimesOrdered h = true) (a b : Rat)
    (hab : (a, b) ∈ (allTimes hs).zip (allTimes hs).tail) (s : String) :
    countAt hs b s = countAt hs a s + W s (fun x => x == b) (hs.flatMap evs) := by
  obtain ⟨hlt, hbetween⟩ := consecutive_of_strict _ (Invest.allTimes_strict hs) a b hab
  rw [← W_all_le s b hs hord, ← W_all_le s a hs hord]
  apply W_split
  intro ev hev
  rcases hbetween _ (allEvs_time_mem hs ev hev) with hx | hx
  · have h1 : ev.2.1 ≤ b := le_trans hx (le_of_lt hlt)
    have h2 : ev.2.1 ≠ b := ne_of_lt (lt_of_le_of_lt hx hlt)
    simp [h1, hx, h2]
  · have h1 : ¬ ev.2.1 ≤ a := not_le.mpr (lt_of_lt_of_le hlt hx)
    by_cases h2 : ev.2.1 = b
    · simp [h2, hlt]
    · have h3 : ¬ ev.2.1 ≤ b := fun hle => h2 (le_antisymm hle hx)
      simp [h1, h2, h3]

/-- at the first time the count is the net change -/
theorem count_base (hs : List Hist) (hord : ∀ h ∈ hs, histTimesOrdered h = true) (t0 : Rat) (rest : List Rat)
    (hts : allTimes hs = t0 :: rest) (s : String) :
    W s (fun x => x == t0) (hs.flatMap evs) = countAt hs t0 s := by
  rw [← W_all_le s t0 hs hord]
  apply W_congr
  intro ev hev
  have hm := allEvs_time_mem hs ev hev
  have hp := Invest.allTimes_strict hs
  rw [hts] at hm hp
  rw [List.pairwise_cons] at hp
  rcases List.mem_cons.mp hm with h | h
  · simp [h]
  · have hlt := hp.1 _ h
    have h1 : ¬ ev.2.1 ≤ t0 := not_le.mpr hlt
    have h2 : ev.2.1 ≠ t0 := ne_of_gt hlt
    simp [h1, h2]

/-! #### the column loop -/

theorem mapM_ok {α β : Type} (f : α → Except String β) (g : α → β) : ∀ (l : List α),
    (∀ a ∈ l, f a = .ok (g a)) → l.mapM f = .ok (l.map g)
  | [], _ => rfl
  | a :: l, h => by
    rw [List.mapM_cons, h a (by simp), mapM_ok f g l (fun b hb => h b (List.mem_cons_of_mem _ hb))]
    rfl

theorem zip_map_self {α β : Type} (g : α → β) : ∀ (l : List α), List.zip l (l.map g) = l.map (fun s => (s, g s))
  | [] => rfl
  | a :: l => by simp [zip_map_self g l]

theorem colStep_ok (sts : List String) (delta : Delta) (F : String → Rat → Int) (pre : List Rat) (tl time : Rat)
    (hF : ∀ s ∈ sts, F s time = F s tl + deltaGet delta s time) :
    colStep sts delta (sts.map fun s => (pre ++ [tl]).map (F s)) time =
      .ok (sts.map fun s => (pre ++ [tl] ++ [time]).map (F s)) := by
  unfold colStep
  rw [zip_map_self, mapM_ok _ (fun p => p.2 ++ [F p.1 time])]
  · rw [List.map_map]
    congr 1
    apply List.map_congr_left
    intro s _
    simp
  · intro p hp
    obtain ⟨s, hs, rfl⟩ := List.mem_map.mp hp
    simp only [List.map_append, List.map_cons, List.map_nil, pyIndex_neg_one_append]
    rw [hF s hs]
    rfl

theorem colsFold (sts : List String) (delta : Delta) (F : String → Rat → Int) : ∀ (rest pre : List Rat) (tl : Rat),
    (∀ a b, (a, b) ∈ (tl :: rest).zip rest → ∀ s ∈ sts, F s b = F s a + deltaGet delta s b) →
    rest.foldlM (colStep sts delta) (sts.map fun s => (pre ++ [tl]).map (F s)) =
      .ok (sts.map fun s => (pre ++ [tl] ++ rest).map (F s))
  | [], pre, tl, _ => by simp [pure, Except.pure]
  | t :: rest, pre, tl, h => by
    rw [List.foldlM_cons, colStep_ok sts delta F pre tl t (h tl t (by simp))]
    show List.foldlM _ _ rest = _
    have := colsFold sts delta F rest (pre ++ [tl]) t (fun a b hab => h a b (by simp [hab]))
    simpa [List.append_assoc] using this

/-- the part of `summary` after the node loop, given what the node loop leaves in `times` and `delta` -/
theorem finish_ok (sts : List String) (hs : List Hist) (hne : hs ≠ []) (hall : ∀ h ∈ hs, h ≠ [])
    (hord : ∀ h ∈ hs, histTimesOrdered h = true) (T : List Rat) (D : Delta)
    (hT : sortedRat T = allTimes hs)
    (hD : ∀ s ∈ sts, ∀ t, deltaGet D s t = W s (fun x => x == t) (hs.flatMap evs)) :
    finish sts T D = .ok (allTimes hs, sts.map fun s => (allTimes hs).map fun t => countAt hs t s) := by
  unfold finish
  simp only [hT]
  have hstep := count_step hs hord
  have hbase := count_base hs hord
  cases hts : allTimes hs with
  | nil => exact absurd hts (allTimes_ne_nil hs hne hall)
  | cons t0 rest =>
    rw [hts] at hstep
    simp only [pyIndex_zero_cons, pySlice_from_one, List.drop_succ_cons, List.drop_zero, List.tail_cons] at hstep ⊢
    have hc0 : (sts.map fun status => [deltaGet D status t0]) =
        sts.map fun s => (([] : List Rat) ++ [t0]).map (fun t => countAt hs t s) := by
      apply List.map_congr_left
      intro s hs'
      simp only [List.nil_append, List.map_cons, List.map_nil]
      rw [hD s hs', hbase t0 rest hts]
    show (do let cols ← List.foldlM (colStep sts D) _ rest; pure (t0 :: rest, cols)) = _
    rw [hc0, colsFold sts D (fun s t => countAt hs t s) rest [] t0
      (fun a b hab s hs' => by rw [hD s hs']; exact hstep a b hab s)]
    rfl

/-! #### assembling -/

/-- what the node loop returns -/
theorem node_loop_ok (H : Node → Hist) (sts : List String) (nodes : List Node) (hall : ∀ v ∈ nodes, H v ≠ []) :
    nodes.foldlM (nodeStepM (fun v => unzipH (H v))) ([], delta0 sts) =
      .ok (((nodes.map H).flatMap (fun h => h.map (·.1))).foldl setAdd [],
           ((nodes.map H).flatMap evs).foldl estep (delta0 sts)) :=
  foldlM_nodeStepM H nodes [] (delta0 sts) hall

theorem node_loop_delta (sts : List String) (hs : List Hist) (s : String) (hs' : s ∈ sts) (t : Rat) :
    deltaGet ((hs.flatMap evs).foldl estep (delta0 sts)) s t = W s (fun x => x == t) (hs.flatMap evs) := by
  rw [deltaGet_foldl_estep sts s hs' t _ _ (alHasS_delta0 sts), deltaGet_delta0, Int.zero_add]

/-- **summary == spec** for an arbitrary node list (`summary(nodelist=...)`): no hypothesis on the status list
(duplicates allowed) -/
theorem gen_summary_eq_nodes' (H : Node → Hist) (sts : List String) (nodes : List Node) (hne : nodes ≠ [])
    (hall : ∀ v ∈ nodes, H v ≠ []) (hord : ∀ v ∈ nodes, histTimesOrdered (H v) = true) :
    summary (fun v => unzipH (H v)) sts nodes =
      .ok ((summarySpec (nodes.map H) sts).times, (summarySpec (nodes.map H) sts).cols) := by
  rw [summary_eq_def, node_loop_ok H sts nodes hall]
  show finish sts _ _ = _
  rw [finish_ok sts (nodes.map H) (by simpa using hne)
    (fun h hh => by obtain ⟨v, hv, rfl⟩ := List.mem_map.mp hh; exact hall v hv)
    (fun h hh => by obtain ⟨v, hv, rfl⟩ := List.mem_map.mp hh; exact hord v hv)
    _ _ (sortedRat_times_eq _) (fun s hs' t => node_loop_delta sts _ s hs' t)]
  rfl

theorem range_map_getD (hs : List Hist) : (List.range hs.length).map (fun v => hs.getD v []) = hs := by
  apply List.ext_getElem
  · simp
  · intro i h1 h2
    simp [List.getElem?_eq_getElem h2]

/-! #### the times half without any ordering hypothesis -/

theorem colStep_total (sts : List String) (delta : Delta) (cols : List (List Int)) (time : Rat)
    (hc : ∀ c ∈ cols, c ≠ []) :
    ∃ cols', colStep sts delta cols time = .ok cols' ∧ ∀ c ∈ cols', c ≠ [] := by
  refine ⟨(List.zip sts cols).map (fun p => p.2 ++ [p.2.getLast?.getD 0 + deltaGet delta p.1 time]), ?_, ?_⟩
  · unfold colStep
    apply mapM_ok
    intro p hp
    have hne : p.2 ≠ [] := hc p.2 (List.of_mem_zip (show (p.1, p.2) ∈ List.zip sts cols from hp)).2
    rw [pyIndex_neg_one_ok p.2 hne, List.getLast?_eq_some_getLast hne]
    rfl
  · intro c hc'
    obtain ⟨p, _, rfl⟩ := List.mem_map.mp hc'
    simp

theorem colsFold_total (sts : List String) (delta : Delta) : ∀ (rest : List Rat) (cols : List (List Int)),
    (∀ c ∈ cols, c ≠ []) → ∃ cols', rest.foldlM (colStep sts delta) cols = .ok cols'
  | [], cols, _ => ⟨cols, rfl⟩
  | t :: rest, cols, hc => by
    obtain ⟨c1, h1, hc1⟩ := colStep_total sts delta cols t hc
    obtain ⟨c2, h2⟩ := colsFold_total sts delta rest c1 hc1
    refine ⟨c2, ?_⟩
    rw [List.foldlM_cons, h1]
    exact h2

/-- **times of summary == spec**, with NO ordering hypothesis on the histories: the call succeeds and the returned
time vector is `Pred.allTimes` -/
theorem gen_summary_times_eq_nodes' (H : Node → Hist) (sts : List String) (nodes : List Node) (hne : nodes ≠ [])
    (hall : ∀ v ∈ nodes, H v ≠ []) :
    ∃ cols, summary (fun v => unzipH (H v)) sts nodes = .ok ((summarySpec (nodes.map H) sts).times, cols) := by
  rw [summary_eq_def, node_loop_ok H sts nodes hall]
  show ∃ cols, finish sts _ _ = _
  unfold finish
  simp only [sortedRat_times_eq]
  have hnn : allTimes (nodes.map H) ≠ [] := allTimes_ne_nil _ (by simpa using hne)
    (fun h hh => by obtain ⟨v, hv, rfl⟩ := List.mem_map.mp hh; exact hall v hv)
  show ∃ cols, _ = Except.ok (allTimes (nodes.map H), cols)
  cases hts : allTimes (nodes.map H) with
  | nil => exact absurd hts hnn
  | cons t0 rest =>
    simp only [pyIndex_zero_cons]
    obtain ⟨c, hc⟩ := colsFold_total sts (((nodes.map H).flatMap evs).foldl estep (delta0 sts))
      (pySlice (t0 :: rest) (some 1) none)
      (sts.map fun status => [deltaGet (((nodes.map H).flatMap evs).foldl estep (delta0 sts)) status t0])
      (by intro c hc; obtain ⟨s, _, rfl⟩ := List.mem_map.mp hc; simp)
    refine ⟨c, ?_⟩
    show (List.foldlM _ _ _ >>= fun cols => (pure (t0 :: rest, cols) : Except String _)) = _
    rw [hc]
    rfl

/-- the failure cases: an empty node list, or a node with an empty history, make `summary` raise IndexError -/
theorem gen_summary_nil (hist : Node → List Rat × List String) (sts : List String) :
    summary hist sts [] = .error "IndexError" := rfl

end GenInvestProofs
