import EoNVerif.Gen.OdeGlue2
import EoNVerif.Proofs.GenGlue
import Mathlib.Tactic.Ring
import Mathlib.Tactic.Linarith
/-!
Helper definitions and lemmas for C06f (`Props/C06f.lean`): the sixteen ODE entry points GENERATED into
`Gen/OdeGlue2.lean` (namespace `GenGlue2`), for arbitrary solvers `odeint myodeint : (V → V) → V → Nat → V`.

* accessors `get` / `getV` / `getM` / `getN` / `getX` into the returned list of arrays (`PyGlue2.Out`);
* `Except` / `need` / `bdim` / `bidx` / slice simp lemmas;
* the closed forms `out…` of the returned lists as functions of the solution `X : Nat → V` (row `i` = time index `i`);
* sums of indicator vectors (`sumTo` of `V.ofList (l.map ind)` = number of members).
-/
namespace GenGlue2Proofs
open Gen PyGlue2
open ODE (sumTo)
open GenGlueProofs (Solver RowZero)

/-- the result type of every generated entry point: (the `X0` handed to the solver, the returned arrays) -/
abbrev Res : Type := Except String (V × List Out)

/-! ## accessors -/

/-- value at time index `i` of the `j`-th returned array when it is a time series (`0` otherwise) -/
def get (l : List Out) (j i : Nat) : Rat :=
  match l[j]? with
  | some (Out.s f) => f i
  | _ => 0

/-- class vector at time index `i` of the `j`-th returned array when it is a (class × time) or (a × b × time) array -/
def getV (l : List Out) (j i : Nat) : V :=
  match l[j]? with
  | some (Out.m _ f) => f i
  | some (Out.c _ _ f) => f i
  | _ => ⟨0, fun _ => 0⟩

/-- declared number of classes of the `j`-th returned array (`a * b` for a table) -/
def getN (l : List Out) (j : Nat) : Nat :=
  match l[j]? with
  | some (Out.m n _) => n
  | some (Out.c a b _) => a * b
  | _ => 0

/-- entry (class `k`, time index `i`) of the `j`-th returned array -/
def getM (l : List Out) (j i k : Nat) : Rat := (getV l j i).f k

/-- the `j`-th returned array when it is a 1-D array not indexed by the solver's time grid -/
def getX (l : List Out) (j : Nat) : V :=
  match l[j]? with
  | some (Out.v x) => x
  | _ => ⟨0, fun _ => 0⟩

@[simp] theorem get_zero_s (f : Nat → Rat) (l : List Out) (i : Nat) : get (Out.s f :: l) 0 i = f i := rfl
@[simp] theorem get_succ (a : Out) (l : List Out) (j i : Nat) : get (a :: l) (j + 1) i = get l j i := by
  simp [get]
@[simp] theorem getV_zero_m (n : Nat) (f : Nat → V) (l : List Out) (i : Nat) : getV (Out.m n f :: l) 0 i = f i := rfl
@[simp] theorem getV_zero_c (a b : Nat) (f : Nat → V) (l : List Out) (i : Nat) :
    getV (Out.c a b f :: l) 0 i = f i := rfl
@[simp] theorem getV_succ (a : Out) (l : List Out) (j i : Nat) : getV (a :: l) (j + 1) i = getV l j i := by
  simp [getV]
@[simp] theorem getN_zero_m (n : Nat) (f : Nat → V) (l : List Out) : getN (Out.m n f :: l) 0 = n := rfl
@[simp] theorem getN_zero_c (a b : Nat) (f : Nat → V) (l : List Out) : getN (Out.c a b f :: l) 0 = a * b := rfl
@[simp] theorem getN_succ (a : Out) (l : List Out) (j : Nat) : getN (a :: l) (j + 1) = getN l j := by
  simp [getN]
@[simp] theorem getX_zero_v (x : V) (l : List Out) : getX (Out.v x :: l) 0 = x := rfl
@[simp] theorem getX_succ (a : Out) (l : List Out) (j : Nat) : getX (a :: l) (j + 1) = getX l j := by
  simp [getX]

/-! ## `Except`, `need`, broadcasting, slices -/

@[simp] theorem ok_bind {α β : Type} (a : α) (f : α → Except String β) : (Except.ok a >>= f) = f a := rfl
@[simp] theorem err_bind {α β : Type} (e : String) (f : α → Except String β) :
    ((Except.error e : Except String α) >>= f) = .error e := rfl
@[simp] theorem pure_eq_ok {α : Type} (a : α) : (pure a : Except String α) = .ok a := rfl
@[simp] theorem throw_eq_err {α : Type} (e : String) : (throw e : Except String α) = .error e := rfl
@[simp] theorem need_some {α : Type} (x : α) (e : String) : need (some x) e = .ok x := rfl
@[simp] theorem need_none {α : Type} (e : String) : need (none : Option α) e = .error e := rfl

@[simp] theorem bdim_self (a : Nat) : bdim a a = .ok a := by simp [bdim]
@[simp] theorem bdim_one_right (a : Nat) : bdim a 1 = .ok a := by
  unfold bdim; by_cases h : a = 1 <;> simp [h]
@[simp] theorem bdim_one_left (a : Nat) : bdim 1 a = .ok a := by
  unfold bdim; by_cases h : 1 = a
  · simp [h]
  · simp [h]
theorem bdim_ok_iff (a b : Nat) : (∃ n, bdim a b = .ok n) ↔ (a = b ∨ a = 1 ∨ b = 1) := by
  unfold bdim
  by_cases h1 : a = b
  · simp [h1]
  · by_cases h2 : a = 1
    · subst h2
      by_cases h4 : 1 = b <;> simp [h4]
    · by_cases h3 : b = 1 <;> simp [h1, h2, h3]
theorem bdim_error (a b : Nat) (h1 : a ≠ b) (h2 : a ≠ 1) (h3 : b ≠ 1) : bdim a b = .error "ValueError" := by
  simp [bdim, h1, h2, h3]

theorem bidx_lt (n k : Nat) (h : k < n) : bidx n k = k := by
  unfold bidx
  split
  · omega
  · rfl

theorem ok_inj {a b : V × List Out} (h : (Except.ok a : Res) = Except.ok b) : a = b := by
  injection h

/-! ## `sumTo` -/

theorem sumTo_const (n : Nat) (c : Rat) : sumTo n (fun _ => c) = (n : Rat) * c := by
  induction n with
  | zero => simp [ODE.sumTo_zero_left]
  | succ n ih => rw [ODE.sumTo_succ, ih]; push_cast; ring

/-- `Σ_{k<n} (1 − y (bidx n k)) + Σ_{k<n} y k = n` -/
theorem sumTo_one_sub_bidx (n : Nat) (y : Nat → Rat) :
    sumTo n (fun k => 1 - y (bidx n k)) + sumTo n y = (n : Rat) := by
  have e : sumTo n (fun k => 1 - y (bidx n k)) = sumTo n (fun k => 1 - y k) :=
    ODE.sumTo_congr _ _ _ (fun k hk => by rw [bidx_lt n k hk])
  rw [e, GenGlueProofs.sumTo_sub, sumTo_const]; ring

/-- the sum of a list read through `getD` -/
theorem sumTo_getD (l : List Rat) : sumTo l.length (fun i => l.getD i 0) = sumRat l := by
  induction l with
  | nil => simp [ODE.sumTo_zero_left, sumRat]
  | cons a l ih =>
    have h := ODE.sumTo_shift l.length (fun i => (a :: l).getD i 0)
    have e : sumTo l.length (fun k => (a :: l).getD (k + 1) 0) = sumTo l.length (fun i => l.getD i 0) :=
      ODE.sumTo_congr _ _ _ (fun k _ => by simp [List.getD])
    rw [e, ih] at h
    rw [List.length_cons]
    have h0 : (a :: l).getD 0 0 = a := rfl
    rw [h0] at h
    have : sumRat (a :: l) = a + sumRat l := rfl
    rw [this]
    linarith

/-! ## closed forms: individual-based models -/

/-- `SIS_individual_based`: `Is = Y.T` (`n` rows), `Ss = ones(n) − Is`; without full data the two sums -/
def outSISInd (T : Nat → Rat) (n : Nat) (full : Bool) (Y : Nat → V) : List Out :=
  if full then
    [Out.s T, Out.m n (fun i => ⟨n, fun k => 1 - (Y i).f (bidx n k)⟩), Out.m n (fun i => Y i)]
  else
    [Out.s T, Out.s (fun i => sumTo n (fun k => 1 - (Y i).f (bidx n k))), Out.s (fun i => sumTo n (Y i).f)]

/-- the tail of `SIS_individual_based` once `Y0` and the node list (its length `N`) are fixed -/
def runSISInd (odeint : Solver) (N : Nat) (nbrs : Nat → List Nat) (tr : Nat → Nat → Rat) (rr : Nat → Rat)
    (Y0 : V) (T : Nat → Rat) (full : Bool) : Res :=
  .ok (Y0, outSISInd T Y0.n full (odeint (fun st => Gen.dSIS_individual_based st N nbrs tr rr) Y0))

/-- `SIR_individual_based`: `Ss = V.T[:a]`, `Is = V.T[a:]` (`b` rows), `Rs = ones(a) − Ss − Is` (`m` rows after
broadcasting), `S, I, R` their sums -/
def outSIRInd (T : Nat → Rat) (a b m : Nat) (full : Bool) (X : Nat → V) : List Out :=
  let Rs : Nat → V := fun i => ⟨m, fun k => (1 - (X i).f (bidx a (bidx a k))) - (X i).f (a + bidx b k)⟩
  if full then
    [Out.s T, Out.s (fun i => sumTo a (X i).f), Out.s (fun i => sumTo b (fun k => (X i).f (a + k))),
     Out.s (fun i => sumTo m (Rs i).f),
     Out.m a (fun i => ⟨a, (X i).f⟩), Out.m b (fun i => ⟨b, fun k => (X i).f (a + k)⟩), Out.m m Rs]
  else
    [Out.s T, Out.s (fun i => sumTo a (X i).f), Out.s (fun i => sumTo b (fun k => (X i).f (a + k))),
     Out.s (fun i => sumTo m (Rs i).f)]

/-- the tail of `SIR_individual_based` once `X0`, `Y0` and the node list (its length `N`) are fixed: the only
remaining exception is NumPy's broadcasting `ValueError` of `ones(N) − Ss − Is` -/
def runSIRInd (odeint : Solver) (N : Nat) (nbrs : Nat → List Nat) (tr : Nat → Nat → Rat) (rr : Nat → Rat)
    (X0 Y0 : V) (T : Nat → Rat) (full : Bool) : Res :=
  match bdim X0.n Y0.n with
  | .error e => .error e
  | .ok m => .ok (V.append X0 Y0, outSIRInd T X0.n Y0.n m full
      (odeint (fun st => Gen.dSIR_individual_based st N nbrs tr rr) (V.append X0 Y0)))

/-- `1 − Y0` -/
def vcompl (y : V) : V := ⟨y.n, fun k => 1 - y.f k⟩
@[simp] theorem vcompl_n (y : V) : (vcompl y).n = y.n := rfl
@[simp] theorem vcompl_f (y : V) (k : Nat) : (vcompl y).f k = 1 - y.f k := rfl
@[simp] theorem vones_n (n : Nat) : (vones n).n = n := rfl
@[simp] theorem vones_f (n k : Nat) : (vones n).f k = 1 := rfl
@[simp] theorem vrep_n (x : Rat) (n : Nat) : (vrep x n).n = n := rfl
@[simp] theorem vrep_f (x : Rat) (n k : Nat) : (vrep x n).f k = x := rfl

/-- indicator vector of a node set along a node list -/
def indV (nl : List Nat) (p : Nat → Bool) (a b : Rat) : V := V.ofList (nl.map fun u => if p u then a else b)
@[simp] theorem indV_n (nl : List Nat) (p : Nat → Bool) (a b : Rat) : (indV nl p a b).n = nl.length := by
  simp [indV]
theorem indV_f (nl : List Nat) (p : Nat → Bool) (a b : Rat) (k : Nat) (hk : k < nl.length) :
    (indV nl p a b).f k = if p (nl.getD k 0) then a else b := by
  simp [indV, V.ofList, List.getD, hk]

theorem sumRat_ind (nl : List Nat) (p : Nat → Bool) :
    sumRat (nl.map fun u => if p u then (1 : Rat) else 0) = ((nl.filter p).length : Rat) := by
  induction nl with
  | nil => simp [sumRat]
  | cons a l ih =>
    have h : sumRat ((a :: l).map fun u => if p u then (1 : Rat) else 0)
        = (if p a then (1 : Rat) else 0) + sumRat (l.map fun u => if p u then (1 : Rat) else 0) := rfl
    rw [h, ih]
    by_cases hp : p a = true
    · simp [List.filter_cons, hp]; ring
    · simp [List.filter_cons, hp]

theorem sumRat_ind' (nl : List Nat) (p : Nat → Bool) :
    sumRat (nl.map fun u => if p u then (0 : Rat) else 1) = ((nl.filter (fun u => !p u)).length : Rat) := by
  have : (fun u => if p u then (0 : Rat) else 1) = (fun u => if (!p u) = true then (1 : Rat) else 0) := by
    funext u; cases p u <;> simp
  rw [this]
  exact sumRat_ind nl (fun u => !p u)

/-- the sum of an indicator vector is the number of members -/
theorem sumTo_indV (nl : List Nat) (p : Nat → Bool) :
    sumTo nl.length (indV nl p 1 0).f = ((nl.filter p).length : Rat) := by
  have h := sumTo_getD (nl.map fun u => if p u then (1 : Rat) else 0)
  rw [List.length_map] at h
  rw [← sumRat_ind, ← h]; rfl

theorem sumTo_indV' (nl : List Nat) (p : Nat → Bool) :
    sumTo nl.length (indV nl p 0 1).f = ((nl.filter (fun u => !p u)).length : Rat) := by
  have h := sumTo_getD (nl.map fun u => if p u then (0 : Rat) else 1)
  rw [List.length_map] at h
  rw [← sumRat_ind', ← h]; rfl

/-! ### lemmas about `outSISInd` / `outSIRInd` (abstract solution) -/

theorem runSISInd_ok {odeint : Solver} {N : Nat} {nbrs : Nat → List Nat} {tr : Nat → Nat → Rat} {rr : Nat → Rat}
    {Y0 : V} {T : Nat → Rat} {full : Bool} {x0 : V} {l : List Out}
    (h : runSISInd odeint N nbrs tr rr Y0 T full = .ok (x0, l)) :
    x0 = Y0 ∧ l = outSISInd T Y0.n full (odeint (fun st => Gen.dSIS_individual_based st N nbrs tr rr) Y0) := by
  have := ok_inj h
  exact ⟨(congrArg Prod.fst this).symm, (congrArg Prod.snd this).symm⟩

theorem outSISInd_conserve (T : Nat → Rat) (n : Nat) (Y : Nat → V) (i : Nat) :
    get (outSISInd T n false Y) 1 i + get (outSISInd T n false Y) 2 i = (n : Rat) := by
  simp only [outSISInd, Bool.false_eq_true, if_false, get_succ, get_zero_s]
  exact sumTo_one_sub_bidx n (Y i).f

theorem outSISInd_conserve_full (T : Nat → Rat) (n : Nat) (Y : Nat → V) (i : Nat) :
    getN (outSISInd T n true Y) 1 = n ∧ getN (outSISInd T n true Y) 2 = n ∧
    (∀ k, k < n → getM (outSISInd T n true Y) 1 i k + getM (outSISInd T n true Y) 2 i k = 1) ∧
    sumTo n (getM (outSISInd T n true Y) 1 i) + sumTo n (getM (outSISInd T n true Y) 2 i) = (n : Rat) ∧
    (∀ k, getM (outSISInd T n true Y) 2 i k = (Y i).f k) := by
  refine ⟨rfl, rfl, fun k hk => ?_, ?_, fun _ => rfl⟩
  · simp only [outSISInd, if_true, getM, getV_succ, getV_zero_m, bidx_lt n k hk]; ring
  · simp only [outSISInd, if_true, getM, getV_succ, getV_zero_m]
    exact sumTo_one_sub_bidx n (Y i).f

theorem outSISInd_init (T : Nat → Rat) (Y0 : V) (Y : Nat → V) (hY : Y 0 = Y0) :
    get (outSISInd T Y0.n false Y) 2 0 = sumTo Y0.n Y0.f ∧
    get (outSISInd T Y0.n false Y) 1 0 = (Y0.n : Rat) - sumTo Y0.n Y0.f := by
  have h := outSISInd_conserve T Y0.n Y 0
  have h2 : get (outSISInd T Y0.n false Y) 2 0 = sumTo Y0.n Y0.f := by
    simp only [outSISInd, Bool.false_eq_true, if_false, get_succ, get_zero_s, hY]
  refine ⟨h2, ?_⟩
  rw [h2] at h; linarith

theorem outSISInd_init_full (T : Nat → Rat) (Y0 : V) (Y : Nat → V) (hY : Y 0 = Y0) (k : Nat) (hk : k < Y0.n) :
    getM (outSISInd T Y0.n true Y) 2 0 k = Y0.f k ∧ getM (outSISInd T Y0.n true Y) 1 0 k = 1 - Y0.f k := by
  simp only [outSISInd, if_true, getM, getV_succ, getV_zero_m, hY, bidx_lt _ k hk]
  exact ⟨trivial, trivial⟩

/-! ### slices of a concatenation -/
@[simp] theorem sliceLo_zero (n : Nat) : sliceLo n 0 = 0 := by simp [sliceLo]
@[simp] theorem sliceLo_left (a b : Nat) : sliceLo (a + b) a = a := by simp [sliceLo]
@[simp] theorem sliceLen_left (a b : Nat) : sliceLen (a + b) 0 a = a := by simp [sliceLen]
@[simp] theorem sliceLen_right (a b : Nat) : sliceLen (a + b) a (a + b) = b := by simp [sliceLen]
theorem sliceLo_le (n lo : Nat) (h : lo ≤ n) : sliceLo n lo = lo := by simp [sliceLo, h]
theorem sliceLen_le (n lo hi : Nat) (h1 : lo ≤ hi) (h2 : hi ≤ n) : sliceLen n lo hi = hi - lo := by
  simp [sliceLen, Nat.min_eq_left h2, Nat.min_eq_left (Nat.le_trans h1 h2)]

/-! ### lemmas about `outSIRInd` -/

theorem runSIRInd_ok {odeint : Solver} {N : Nat} {nbrs : Nat → List Nat} {tr : Nat → Nat → Rat} {rr : Nat → Rat}
    {X0 Y0 : V} {T : Nat → Rat} {full : Bool} {x0 : V} {l : List Out}
    (h : runSIRInd odeint N nbrs tr rr X0 Y0 T full = .ok (x0, l)) :
    x0 = V.append X0 Y0 ∧ ∃ m, bdim X0.n Y0.n = .ok m ∧
      l = outSIRInd T X0.n Y0.n m full (odeint (fun st => Gen.dSIR_individual_based st N nbrs tr rr) (V.append X0 Y0)) := by
  unfold runSIRInd at h
  cases hb : bdim X0.n Y0.n with
  | error e => rw [hb] at h; cases h
  | ok m =>
    rw [hb] at h
    have := ok_inj h
    exact ⟨(congrArg Prod.fst this).symm, m, rfl, (congrArg Prod.snd this).symm⟩

theorem runSIRInd_eq_length {odeint : Solver} {N : Nat} {nbrs : Nat → List Nat} {tr : Nat → Nat → Rat} {rr : Nat → Rat}
    {X0 Y0 : V} {T : Nat → Rat} {full : Bool} (hn : X0.n = Y0.n) :
    runSIRInd odeint N nbrs tr rr X0 Y0 T full = .ok (V.append X0 Y0, outSIRInd T X0.n X0.n X0.n full
      (odeint (fun st => Gen.dSIR_individual_based st N nbrs tr rr) (V.append X0 Y0))) := by
  unfold runSIRInd
  rw [← hn, bdim_self]

theorem runSIRInd_error {odeint : Solver} {N : Nat} {nbrs : Nat → List Nat} {tr : Nat → Nat → Rat} {rr : Nat → Rat}
    {X0 Y0 : V} {T : Nat → Rat} {full : Bool} (h1 : X0.n ≠ Y0.n) (h2 : X0.n ≠ 1) (h3 : Y0.n ≠ 1) :
    runSIRInd odeint N nbrs tr rr X0 Y0 T full = .error "ValueError" := by
  unfold runSIRInd
  rw [bdim_error _ _ h1 h2 h3]

theorem outSIRInd_conserve (T : Nat → Rat) (a : Nat) (full : Bool) (X : Nat → V) (i : Nat) :
    get (outSIRInd T a a a full X) 1 i + get (outSIRInd T a a a full X) 2 i + get (outSIRInd T a a a full X) 3 i
      = (a : Rat) := by
  have e : sumTo a (fun k => 1 - (X i).f (bidx a (bidx a k)) - (X i).f (a + bidx a k))
      = sumTo a (fun k => 1 - (X i).f k - (X i).f (a + k)) :=
    ODE.sumTo_congr _ _ _ (fun k hk => by rw [bidx_lt a k hk, bidx_lt a k hk])
  cases full <;>
    simp only [outSIRInd, Bool.false_eq_true, if_false, if_true, get_succ, get_zero_s] <;>
    rw [e, GenGlueProofs.sumTo_sub3, sumTo_const] <;> ring

theorem outSIRInd_conserve_full (T : Nat → Rat) (a : Nat) (X : Nat → V) (i : Nat) :
    getN (outSIRInd T a a a true X) 4 = a ∧ getN (outSIRInd T a a a true X) 5 = a ∧
    getN (outSIRInd T a a a true X) 6 = a ∧
    (∀ k, k < a → getM (outSIRInd T a a a true X) 4 i k + getM (outSIRInd T a a a true X) 5 i k
      + getM (outSIRInd T a a a true X) 6 i k = 1) ∧
    get (outSIRInd T a a a true X) 1 i = sumTo a (getM (outSIRInd T a a a true X) 4 i) ∧
    get (outSIRInd T a a a true X) 2 i = sumTo a (getM (outSIRInd T a a a true X) 5 i) ∧
    get (outSIRInd T a a a true X) 3 i = sumTo a (getM (outSIRInd T a a a true X) 6 i) := by
  refine ⟨rfl, rfl, rfl, fun k hk => ?_, rfl, rfl, rfl⟩
  simp only [outSIRInd, if_true, getM, getV_succ, getV_zero_m, bidx_lt a k hk]; ring

theorem outSIRInd_init (T : Nat → Rat) (X0 Y0 : V) (hn : Y0.n = X0.n) (full : Bool) (X : Nat → V)
    (hX : X 0 = V.append X0 Y0) :
    get (outSIRInd T X0.n X0.n X0.n full X) 1 0 = sumTo X0.n X0.f ∧
    get (outSIRInd T X0.n X0.n X0.n full X) 2 0 = sumTo X0.n Y0.f ∧
    get (outSIRInd T X0.n X0.n X0.n full X) 3 0 = (X0.n : Rat) - sumTo X0.n X0.f - sumTo X0.n Y0.f := by
  have hc := outSIRInd_conserve T X0.n full X 0
  have h1 : get (outSIRInd T X0.n X0.n X0.n full X) 1 0 = sumTo X0.n X0.f := by
    cases full <;>
      simp only [outSIRInd, Bool.false_eq_true, if_false, if_true, get_succ, get_zero_s, hX] <;>
      exact GenGlueProofs.sumTo_append_left _ _
  have h2 : get (outSIRInd T X0.n X0.n X0.n full X) 2 0 = sumTo X0.n Y0.f := by
    have := GenGlueProofs.sumTo_append_right X0 Y0
    rw [hn] at this
    cases full <;>
      simp only [outSIRInd, Bool.false_eq_true, if_false, if_true, get_succ, get_zero_s, hX] <;>
      exact this
  refine ⟨h1, h2, ?_⟩
  rw [h1, h2] at hc; linarith

theorem outSIRInd_init_full (T : Nat → Rat) (X0 Y0 : V) (X : Nat → V) (hX : X 0 = V.append X0 Y0)
    (k : Nat) (hk : k < X0.n) :
    getM (outSIRInd T X0.n X0.n X0.n true X) 4 0 k = X0.f k ∧
    getM (outSIRInd T X0.n X0.n X0.n true X) 5 0 k = Y0.f k ∧
    getM (outSIRInd T X0.n X0.n X0.n true X) 6 0 k = 1 - X0.f k - Y0.f k := by
  simp only [outSIRInd, if_true, getM, getV_succ, getV_zero_m, hX, bidx_lt _ k hk, V.append_f_ge,
    V.append_f_lt _ _ k hk]
  exact ⟨trivial, trivial, trivial⟩

/-! ## closed forms: pair-based models -/

theorem sl3_0 (a b c : Nat) : sliceLen (a + b + c) 0 a = a := by simp [sliceLen]; omega
theorem sl3_1 (a b c : Nat) : sliceLen (a + b + c) a (a + b) = b := by simp [sliceLen]; omega
theorem sl3_2 (a b c : Nat) : sliceLen (a + b + c) (a + b) (a + b + c) = c := by simp [sliceLen]
theorem so3_1 (a b c : Nat) : sliceLo (a + b + c) a = a := by simp [sliceLo]; omega
theorem so3_2 (a b c : Nat) : sliceLo (a + b + c) (a + b) = a + b := by simp [sliceLo]

/-- `SIS_pair_based`: `Ys = V.T[:N]`, `Xs = ones(N) − Ys`, `XY = V.T[N:N+N²]`, `XX = V.T[N+N²:]`, `S`, `I` the sums -/
def outSISPair (T : Nat → Rat) (N : Nat) (full : Bool) (X : Nat → V) : List Out :=
  if full then
    [Out.s T, Out.s (fun i => sumTo N (fun k => 1 - (X i).f (bidx N k))), Out.s (fun i => sumTo N (X i).f),
     Out.m N (fun i => ⟨N, fun k => 1 - (X i).f (bidx N k)⟩), Out.m N (fun i => ⟨N, (X i).f⟩),
     Out.c N N (fun i => ⟨N ^ 2, fun k => (X i).f (N + k)⟩), Out.c N N (fun i => ⟨N ^ 2, fun k => (X i).f (N + N ^ 2 + k)⟩)]
  else
    [Out.s T, Out.s (fun i => sumTo N (fun k => 1 - (X i).f (bidx N k))), Out.s (fun i => sumTo N (X i).f)]

theorem outSISPair_conserve (T : Nat → Rat) (N : Nat) (full : Bool) (X : Nat → V) (i : Nat) :
    get (outSISPair T N full X) 1 i + get (outSISPair T N full X) 2 i = (N : Rat) := by
  cases full <;> simp only [outSISPair, Bool.false_eq_true, if_false, if_true, get_succ, get_zero_s] <;>
    exact sumTo_one_sub_bidx N (X i).f

theorem outSISPair_full (T : Nat → Rat) (N : Nat) (X : Nat → V) (i : Nat) :
    getN (outSISPair T N true X) 3 = N ∧ getN (outSISPair T N true X) 4 = N ∧
    getN (outSISPair T N true X) 5 = N * N ∧ getN (outSISPair T N true X) 6 = N * N ∧
    (∀ k, k < N → getM (outSISPair T N true X) 3 i k + getM (outSISPair T N true X) 4 i k = 1) ∧
    get (outSISPair T N true X) 1 i = sumTo N (getM (outSISPair T N true X) 3 i) ∧
    get (outSISPair T N true X) 2 i = sumTo N (getM (outSISPair T N true X) 4 i) := by
  refine ⟨rfl, rfl, rfl, rfl, fun k hk => ?_, rfl, rfl⟩
  simp only [outSISPair, if_true, getM, getV_succ, getV_zero_m, bidx_lt N k hk]; ring

theorem outSISPair_init (T : Nat → Rat) (N : Nat) (full : Bool) (X : Nat → V) (x0 : V) (y : Nat → Rat)
    (hX : X 0 = x0) (hy : ∀ k, k < N → x0.f k = y k) :
    get (outSISPair T N full X) 2 0 = sumTo N y ∧ get (outSISPair T N full X) 1 0 = (N : Rat) - sumTo N y := by
  have hc := outSISPair_conserve T N full X 0
  have h2 : get (outSISPair T N full X) 2 0 = sumTo N y := by
    cases full <;> simp only [outSISPair, Bool.false_eq_true, if_false, if_true, get_succ, get_zero_s, hX] <;>
      exact ODE.sumTo_congr _ _ _ hy
  refine ⟨h2, ?_⟩
  rw [h2] at hc; linarith

theorem sl4_0 (a b : Nat) : sliceLen (a + a + b + b) 0 a = a := by simp [sliceLen]; omega
theorem sl4_1 (a b : Nat) : sliceLen (a + a + b + b) a (2 * a) = a := by simp [sliceLen]; omega
theorem sl4_2 (a b : Nat) : sliceLen (a + a + b + b) (2 * a) (2 * a + b) = b := by simp [sliceLen]; omega
theorem sl4_3 (a b : Nat) : sliceLen (a + a + b + b) (2 * a + b) (a + a + b + b) = b := by simp [sliceLen]; omega
theorem so4_1 (a b : Nat) : sliceLo (a + a + b + b) a = a := by simp [sliceLo]; omega
theorem so4_2 (a b : Nat) : sliceLo (a + a + b + b) (2 * a) = 2 * a := by simp [sliceLo]; omega
theorem so4_3 (a b : Nat) : sliceLo (a + a + b + b) (2 * a + b) = 2 * a + b := by simp [sliceLo]; omega

/-- `SIR_pair_based`: `Xs = V.T[:N]`, `Ys = V.T[N:2N]`, `Zs = ones(N) − Xs − Ys`, `XY = V.T[2N:2N+N²]`,
`XX = V.T[2N+N²:]`; `S, I, R` the sums -/
def outSIRPair (T : Nat → Rat) (N : Nat) (full : Bool) (X : Nat → V) : List Out :=
  let Zs : Nat → V := fun i => ⟨N, fun k => (1 - (X i).f (bidx N (bidx N k))) - (X i).f (N + bidx N k)⟩
  if full then
    [Out.s T, Out.s (fun i => sumTo N (X i).f), Out.s (fun i => sumTo N (fun k => (X i).f (N + k))),
     Out.s (fun i => sumTo N (Zs i).f),
     Out.m N (fun i => ⟨N, (X i).f⟩), Out.m N (fun i => ⟨N, fun k => (X i).f (N + k)⟩), Out.m N Zs,
     Out.c N N (fun i => ⟨N ^ 2, fun k => (X i).f (2 * N + k)⟩),
     Out.c N N (fun i => ⟨N ^ 2, fun k => (X i).f (2 * N + N ^ 2 + k)⟩)]
  else
    [Out.s T, Out.s (fun i => sumTo N (X i).f), Out.s (fun i => sumTo N (fun k => (X i).f (N + k))),
     Out.s (fun i => sumTo N (Zs i).f)]

theorem outSIRPair_get (T : Nat → Rat) (N : Nat) (full : Bool) (X : Nat → V) (i : Nat) :
    get (outSIRPair T N full X) 1 i = get (outSIRInd T N N N full X) 1 i ∧
    get (outSIRPair T N full X) 2 i = get (outSIRInd T N N N full X) 2 i ∧
    get (outSIRPair T N full X) 3 i = get (outSIRInd T N N N full X) 3 i := by
  cases full <;> exact ⟨rfl, rfl, rfl⟩

theorem outSIRPair_conserve (T : Nat → Rat) (N : Nat) (full : Bool) (X : Nat → V) (i : Nat) :
    get (outSIRPair T N full X) 1 i + get (outSIRPair T N full X) 2 i + get (outSIRPair T N full X) 3 i = (N : Rat) := by
  obtain ⟨a, b, c⟩ := outSIRPair_get T N full X i
  rw [a, b, c]
  exact outSIRInd_conserve T N full X i

theorem outSIRPair_full (T : Nat → Rat) (N : Nat) (X : Nat → V) (i : Nat) :
    getN (outSIRPair T N true X) 4 = N ∧ getN (outSIRPair T N true X) 5 = N ∧ getN (outSIRPair T N true X) 6 = N ∧
    getN (outSIRPair T N true X) 7 = N * N ∧ getN (outSIRPair T N true X) 8 = N * N ∧
    (∀ k, k < N → getM (outSIRPair T N true X) 4 i k + getM (outSIRPair T N true X) 5 i k
      + getM (outSIRPair T N true X) 6 i k = 1) ∧
    get (outSIRPair T N true X) 1 i = sumTo N (getM (outSIRPair T N true X) 4 i) ∧
    get (outSIRPair T N true X) 2 i = sumTo N (getM (outSIRPair T N true X) 5 i) ∧
    get (outSIRPair T N true X) 3 i = sumTo N (getM (outSIRPair T N true X) 6 i) := by
  refine ⟨rfl, rfl, rfl, rfl, rfl, fun k hk => ?_, rfl, rfl, rfl⟩
  simp only [outSIRPair, if_true, getM, getV_succ, getV_zero_m, bidx_lt N k hk]; ring

theorem outSIRPair_init (T : Nat → Rat) (N : Nat) (full : Bool) (X : Nat → V) (x0 : V) (x y : Nat → Rat)
    (hX : X 0 = x0) (hx : ∀ k, k < N → x0.f k = x k) (hy : ∀ k, k < N → x0.f (N + k) = y k) :
    get (outSIRPair T N full X) 1 0 = sumTo N x ∧ get (outSIRPair T N full X) 2 0 = sumTo N y ∧
    get (outSIRPair T N full X) 3 0 = (N : Rat) - sumTo N x - sumTo N y := by
  have hc := outSIRPair_conserve T N full X 0
  have h1 : get (outSIRPair T N full X) 1 0 = sumTo N x := by
    cases full <;> simp only [outSIRPair, Bool.false_eq_true, if_false, if_true, get_succ, get_zero_s, hX] <;>
      exact ODE.sumTo_congr _ _ _ hx
  have h2 : get (outSIRPair T N full X) 2 0 = sumTo N y := by
    cases full <;> simp only [outSIRPair, Bool.false_eq_true, if_false, if_true, get_succ, get_zero_s, hX] <;>
      exact ODE.sumTo_congr _ _ _ hy
  refine ⟨h1, h2, ?_⟩
  rw [h1, h2] at hc; linarith

/-! ## reading a result at a time index (decidable equality: used by the closed examples) -/

/-- the solver that returns the initial state at every time index -/
def constOdeint : Solver := fun _ X0 _ => X0
theorem constOdeint_zero : RowZero constOdeint := fun _ _ => rfl

/-- a solver that adds `i` to every component in row `i` (`RowZero`, does not preserve sums) -/
def driftOdeint : Solver := fun _ X0 i => ⟨X0.n, fun k => X0.f k + (i : Rat)⟩

/-- the values of a returned array at time index `i` -/
def outAt (o : Out) (i : Nat) : List Rat :=
  match o with
  | Out.s f => [f i]
  | Out.m n f => (List.range n).map (f i).f
  | Out.c a b f => (List.range (a * b)).map (f i).f
  | Out.v x => x.toList
  | Out.d l => l.map (fun p => p.2 i)
  | Out.dl l => l.flatMap (·.2)

/-- a result read at time index `i`: the exception, or (the `X0` handed to the solver, the returned arrays) -/
def rowAt (r : Res) (i : Nat) : String ⊕ (List Rat × List (List Rat)) :=
  match r with
  | .error e => .inl e
  | .ok (x0, l) => .inr (x0.toList, l.map (fun o => outAt o i))

end GenGlue2Proofs
