import EoNVerif.Proofs.GenEq
/-!
Tie by translation (C06 / C07 / C08).  `Gen/Analytic.lean` is regenerated from `EoN/analytic.py` on every run by
`harness/py2lean.py`; the theorems below (proved in `Proofs/GenEq.lean`) state that every generated right-hand side
equals the hand-written model the C06–C08 theorems are about, for every state and parameter:

  `GenEq.gen_sisHomMF`  `GenEq.gen_sirHomMF`  `GenEq.gen_sisHomPW`  `GenEq.gen_sirHomPW`
  `GenEq.gen_sisHetMF`  `GenEq.gen_sirHetMF`  `GenEq.gen_sisCompactPW`  `GenEq.gen_sirCompactPW`
  `GenEq.gen_sisSuperCompactPW`  `GenEq.gen_sirSuperCompactPW`  `GenEq.gen_sirCompactED`
  `GenEq.gen_ebcm` (+ `gen_ebcm_guard` for the ψ̂'(1) = 0 guard)

Consequences transported to the generated code (examples of use):
-/
namespace GenProps
open Gen ODE GenEq

/-- the generated `_dSIS_homogeneous_meanfield_` conserves S + I -/
theorem gen_sisHomMF_conserve (nN tau gamma S I : Rat) :
    (dSIS_homogeneous_meanfield (V.ofList [S, I]) nN tau gamma).f 0
      + (dSIS_homogeneous_meanfield (V.ofList [S, I]) nN tau gamma).f 1 = 0 := by
  obtain ⟨_, h0, h1⟩ := gen_sisHomMF nN tau gamma S I
  rw [h0, h1]
  simp [sisHomMF]

end GenProps
