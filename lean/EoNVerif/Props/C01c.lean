import EoNVerif.Proofs.FastSIRLaw2
/-!
C01c — the law of the transmission delays on the constant-`tau` path of `fast_SIR`
(`/repo/EoN/simulation.py`: `_truncated_exponential_`, l.17-22, called at l.1942 as
`trans_delay[v] = _truncated_exponential_(tau, duration)` for every recipient `v`).

Claim to be checked: given that `node` transmits to `v` before it recovers, the delay has the Exp(`tau`) law
conditioned on being `< duration`, whose distribution function on `[0,T]` (`T = duration`, `r = tau`) is
`truncCdf r T s = (1 - exp(-r s)) / (1 - exp(-r T))`  (`= P(X ≤ s) / P(X ≤ T)` for `X ~ Exp(r)`, see
`expovariate_cdf`).

**What the source really computes** (l.20-22):
```
t = random.expovariate(rate);  L = int(t/T);  return t - L*T
```
an Exp(`rate`) draw reduced modulo `T` (`truncExp`), *not* the inverse-CDF expression
`-log(1 - random.random()*(1 - exp(-rate*T)))/rate` (`invCdfTruncExp`).  The theorems show that the two samplers
are different functions of the uniform draw but have the same distribution function, namely `truncCdf`:
for the source, the set of uniform draws `u ∈ [0,1)` giving a delay `≤ s` is the disjoint union of the intervals
`[1 - exp(-r kT), 1 - exp(-r (kT+s))]`, `k = 0,1,2,…`, whose lengths form a geometric series with sum
`truncCdf r T s`.

Randomness is modelled by the uniform draw `u = random.random() ∈ [0,1)` with Lebesgue measure; real numbers stand
for the floats (rounding is not modelled).  Together with C01b (`Props/C01b.lean`, who receives a transmission)
this is the sampling identity behind `_trans_and_rec_time_Markovian_const_trans_`.

Note: this file (and `Proofs/FastSIRLaw2.lean`) deliberately imports nothing from the project: Mathlib's analysis
library declares a class `Dist`, which clashes with the project's `Dist` (`EoNVerif/Rand/Dist.lean`), so C01c
cannot be imported into the same environment as the `Dist`-based files (do not add it to `EoNVerif/Props.lean`;
check it on its own with `lake env lean EoNVerif/Props/C01c.lean` / `lake build EoNVerif.Props.C01c`).
-/
namespace FastSIRLaw
open MeasureTheory

/-- `random.expovariate(r)` (`-log(1-u)/r`) has the Exp(`r`) distribution function `1 - exp(-r s)` -/
theorem expovariate_cdf {r : ℝ} (hr : 0 < r) (s : ℝ) :
    volume {u : ℝ | u ∈ Set.Ico (0 : ℝ) 1 ∧ expovariate r u ≤ s} = ENNReal.ofReal (1 - Real.exp (-r * s)) :=
  expovariate_volume' hr s

/-- the value returned by `_truncated_exponential_(r, T)` (l.20-22) lies in `[0, T)`: the transmission happens
strictly before the recovery of the transmitting node -/
theorem truncExp_range {r T u : ℝ} (hr : 0 < r) (hT : 0 < T) (h0 : 0 ≤ u) (h1 : u < 1) :
    0 ≤ truncExp r T u ∧ truncExp r T u < T :=
  truncExp_range' hr hT h0 h1

/-- the event "delay `≤ s`" in terms of the uniform draw: `u` lies in one of the intervals
`[1 - exp(-r kT), 1 - exp(-r (kT+s))]` -/
theorem truncExp_le_iff {r T u : ℝ} (hr : 0 < r) (hT : 0 < T) (h0 : 0 ≤ u) (h1 : u < 1) (s : ℝ) :
    truncExp r T u ≤ s ↔
      ∃ k : ℕ, 1 - Real.exp (-r * ((k : ℝ) * T)) ≤ u ∧ u ≤ 1 - Real.exp (-r * ((k : ℝ) * T + s)) :=
  truncExp_le_iff' hr hT h0 h1 s

/-- these intervals are pairwise disjoint (for `s < T`), and their lengths add up to `truncCdf r T s` -/
theorem truncExp_intervals {r T s : ℝ} (hr : 0 < r) (hT : 0 < T) (hs0 : 0 ≤ s) (hsT : s < T) :
    (∀ k : ℕ, 0 ≤ lo r T k ∧ lo r T k ≤ hi r T s k ∧ hi r T s k < lo r T (k + 1) ∧ hi r T s k < 1) ∧
    HasSum (fun k : ℕ => hi r T s k - lo r T k) (truncCdf r T s) :=
  ⟨fun k => ⟨lo_nonneg hr hT k, lo_le_hi hr hs0 k, hi_lt_lo_succ hr hsT k, hi_lt_one r T s k⟩,
    hasSum_lengths hr hT s⟩

/-- **C01c**: with `u` uniform on `[0,1)`, `_truncated_exponential_(r, T)` has the distribution function of the
Exp(`r`) law conditioned on `[0,T)`: `P(delay ≤ s) = (1 - exp(-r s)) / (1 - exp(-r T))` for `0 ≤ s < T`
(and the delay is `< T` surely, `truncExp_range`). -/
theorem truncExp_cdf {r T : ℝ} (hr : 0 < r) (hT : 0 < T) {s : ℝ} (hs0 : 0 ≤ s) (hsT : s < T) :
    volume {u : ℝ | u ∈ Set.Ico (0 : ℝ) 1 ∧ truncExp r T u ≤ s}
      = ENNReal.ofReal ((1 - Real.exp (-r * s)) / (1 - Real.exp (-r * T))) :=
  truncExp_volume' hr hT hs0 hsT

/-- the inverse-CDF sampler `x = -log(1 - u (1 - exp(-r T)))/r` also lands in `[0,T)` ... -/
theorem invCdf_range {r T u : ℝ} (hr : 0 < r) (hT : 0 < T) (h0 : 0 ≤ u) (h1 : u < 1) :
    0 ≤ invCdfTruncExp r T u ∧ invCdfTruncExp r T u < T :=
  invCdf_range' hr hT h0 h1

/-- ... and satisfies the inverse-CDF property `x ≤ t ↔ u ≤ (1 - exp(-r t))/(1 - exp(-r T))` -/
theorem invCdf_le_iff {r T u : ℝ} (hr : 0 < r) (hT : 0 < T) (h0 : 0 ≤ u) (h1 : u < 1) (t : ℝ) :
    invCdfTruncExp r T u ≤ t ↔ u ≤ (1 - Real.exp (-r * t)) / (1 - Real.exp (-r * T)) :=
  invCdf_le_iff' hr hT h0 h1 t

theorem invCdf_cdf {r T : ℝ} (hr : 0 < r) (hT : 0 < T) {s : ℝ} (hs0 : 0 ≤ s) (hsT : s ≤ T) :
    volume {u : ℝ | u ∈ Set.Ico (0 : ℝ) 1 ∧ invCdfTruncExp r T u ≤ s}
      = ENNReal.ofReal ((1 - Real.exp (-r * s)) / (1 - Real.exp (-r * T))) :=
  invCdf_volume' hr hT hs0 hsT

/-- **the source's "modulo" sampler and the inverse-CDF sampler have the same law** -/
theorem truncExp_same_law {r T : ℝ} (hr : 0 < r) (hT : 0 < T) {s : ℝ} (hs0 : 0 ≤ s) (hsT : s < T) :
    volume {u : ℝ | u ∈ Set.Ico (0 : ℝ) 1 ∧ truncExp r T u ≤ s}
      = volume {u : ℝ | u ∈ Set.Ico (0 : ℝ) 1 ∧ invCdfTruncExp r T u ≤ s} := by
  rw [truncExp_volume' hr hT hs0 hsT, invCdf_volume' hr hT hs0 hsT.le]

/-- the distribution function goes from `0` at `s = 0` to `1` at `s = T`, monotonically -/
theorem truncCdf_shape {r T : ℝ} (hr : 0 < r) (hT : 0 < T) :
    truncCdf r T 0 = 0 ∧ truncCdf r T T = 1 ∧ ∀ s t, s ≤ t → truncCdf r T s ≤ truncCdf r T t :=
  ⟨truncCdf_zero r T, truncCdf_self hr hT, fun _ _ h => truncCdf_mono hr hT h⟩

/-! ### concrete instances -/

example : 0 ≤ truncExp 2 3 (1 / 2) ∧ truncExp 2 3 (1 / 2) < 3 :=
  truncExp_range (by norm_num) (by norm_num) (by norm_num) (by norm_num)
example : 0 ≤ invCdfTruncExp 2 3 (1 / 2) ∧ invCdfTruncExp 2 3 (1 / 2) < 3 :=
  invCdf_range (by norm_num) (by norm_num) (by norm_num) (by norm_num)
example : volume {u : ℝ | u ∈ Set.Ico (0 : ℝ) 1 ∧ truncExp 2 3 u ≤ 1}
    = ENNReal.ofReal ((1 - Real.exp (-2 * 1)) / (1 - Real.exp (-2 * 3))) :=
  truncExp_cdf (by norm_num) (by norm_num) (by norm_num) (by norm_num)
example : invCdfTruncExp 2 3 (1 / 2) ≤ 1 ↔ (1 / 2 : ℝ) ≤ (1 - Real.exp (-2 * 1)) / (1 - Real.exp (-2 * 3)) :=
  invCdf_le_iff (by norm_num) (by norm_num) (by norm_num) (by norm_num) 1
/-- the first draw interval for `r = 1, T = 1, s = 1/2`: `u = 0` (so `t = 0`) gives delay `0 ≤ 1/2` -/
example : truncExp 1 1 0 ≤ 1 / 2 := by
  rw [truncExp_le_iff (by norm_num) (by norm_num) (le_refl _) (by norm_num)]
  exact ⟨0, by simp, by simp [Real.exp_le_one_iff]⟩

end FastSIRLaw
