import Driver
import EoNVerif.Gen.OdeGlue
open Lean Drv

/-! JSON-lines driver for the code GENERATED from the ODE entry points (Gen/OdeGlue.lean).  `integrate.odeint` is the
table of rows the real SciPy returned in the implementation's own call; function-valued arguments (psihat, …) are
tables of the values the real callables take at the points where the generated code evaluates them. -/
namespace DrvGenGlue
open Gen PyGlue GenGlue

def getV (j : Json) (k : String) : Except String V := do
  pure (V.ofList (← getList getRat (← fld j k)))

def getF (j : Json) (k : String) : Except String (Rat → Rat) := do
  match fldOpt j k with
  | none => pure fun _ => 0
  | some x =>
    let l ← getList (fun e => do match ← getArr e with
      | [a, b] => pure ((← getRat a), (← getRat b))
      | _ => .error "bad table entry") x
    pure fun y => match l.find? (fun p => p.1 == y) with | some p => p.2 | none => 0

def r (j : Json) (k : String) : Except String Rat := do getRat (← fld j k)

def jSer (tc : Nat) (s : Ser) : Json :=
  match s with
  | .s f => Json.mkObj [("s", jArr jRat ((List.range tc).map f))]
  | .m f => Json.mkObj [("m", jArr (fun i => jArr jRat (f i).toList) (List.range tc))]

def run (j : Json) : Except String Json := do
  let name ← getStr (← fld j "fn")
  let rows ← getList (getList getRat) (← fld j "X")
  let odeint : (V → V) → V → Nat → V := fun _ _ i => V.ofList (rows.getD i [])
  let tc ← getNat (← fld j "tcount")
  let tmin ← r j "tmin"
  let tmax ← r j "tmax"
  let full ← match fldOpt j "return_full_data" with | some b => getBool b | none => pure false
  let x0 ← (match name with
    | "SIS_homogeneous_meanfield" => do pure (SIS_homogeneous_meanfield odeint (← r j "S0") (← r j "I0") (← r j "n") (← r j "tau") (← r j "gamma") tmin tmax tc)
    | "SIR_homogeneous_meanfield" => do pure (SIR_homogeneous_meanfield odeint (← r j "S0") (← r j "I0") (← r j "R0") (← r j "n") (← r j "tau") (← r j "gamma") tmin tmax tc)
    | "SIS_homogeneous_pairwise" => do pure (SIS_homogeneous_pairwise odeint (← r j "S0") (← r j "I0") (← r j "SI0") (← r j "SS0") (← r j "n") (← r j "tau") (← r j "gamma") tmin tmax tc full)
    | "SIR_homogeneous_pairwise" => do pure (SIR_homogeneous_pairwise odeint (← r j "S0") (← r j "I0") (← r j "R0") (← r j "SI0") (← r j "SS0") (← r j "n") (← r j "tau") (← r j "gamma") tmin tmax tc full)
    | "SIS_heterogeneous_meanfield" => do pure (SIS_heterogeneous_meanfield odeint (← getV j "Sk0") (← getV j "Ik0") (← r j "tau") (← r j "gamma") tmin tmax tc full)
    | "SIR_heterogeneous_meanfield" => do pure (SIR_heterogeneous_meanfield odeint (← getV j "Sk0") (← getV j "Ik0") (← getV j "Rk0") (← r j "tau") (← r j "gamma") tmin tmax tc full)
    | "SIS_compact_pairwise" => do pure (SIS_compact_pairwise odeint (← getV j "Sk0") (← getV j "Ik0") (← r j "SI0") (← r j "SS0") (← r j "II0") (← r j "tau") (← r j "gamma") tmin tmax tc full)
    | "SIR_compact_pairwise" => do pure (SIR_compact_pairwise odeint (← getV j "Sk0") (← r j "I0") (← r j "R0") (← r j "SS0") (← r j "SI0") (← r j "tau") (← r j "gamma") tmin tmax tc full)
    | "SIS_super_compact_pairwise" => do pure (SIS_super_compact_pairwise odeint (← r j "S0") (← r j "I0") (← r j "SS0") (← r j "SI0") (← r j "II0") (← r j "tau") (← r j "gamma") (← r j "k_ave") (← r j "ksquare_ave") (← r j "kcube_ave") tmin tmax tc full)
    | "SIR_super_compact_pairwise" => do pure (SIR_super_compact_pairwise odeint (← r j "R0") (← r j "SS0") (← r j "SI0") (← r j "N") (← r j "tau") (← r j "gamma") (← getF j "psihat") (← getF j "psihatPrime") (← getF j "psihatDPrime") tmin tmax tc full)
    | "SIR_compact_effective_degree" => do pure (SIR_compact_effective_degree odeint (← getV j "Skappa0") (← r j "I0") (← r j "R0") (← r j "SI0") (← r j "tau") (← r j "gamma") tmin tmax tc full)
    | "EBCM" => do pure (EBCM odeint (← r j "N") (← getF j "psihat") (← getF j "psihatPrime") (← r j "tau") (← r j "gamma") (← r j "phiS0") (← r j "phiR0") (← r j "R0") tmin tmax tc full)
    | s => .error ("no glue generated for " ++ s))
  match x0 with
  | .error e => pure (errObj e)
  | .ok l => pure (Json.mkObj [("ok", Json.bool true), ("out", Json.arr (l.map (jSer tc)).toArray)])

def handle (line : String) : String :=
  match Json.parse line with
  | .ok j => match run j with
    | .ok r => r.compress
    | .error e => (errObj ("driverglue:" ++ e)).compress
  | .error e => (errObj ("parse:" ++ e)).compress
end DrvGenGlue
