import EoNVerif.Gen.Vec
/-!
Runtime of the code generated from the ODE entry points (`harness/pyglue2lean.py`).
-/
namespace PyGlue

/-- a returned array: a time series, or a (class × time) array given as the class vector at each time index -/
inductive Ser
  | s (f : Nat → Rat)
  | m (f : Nat → Gen.V)

/-- `np.linspace(tmin, tmax, tcount)` at index `i` (exact arithmetic) -/
def linspace (tmin tmax : Rat) (tcount : Nat) (i : Nat) : Rat :=
  if tcount ≤ 1 then tmin else tmin + (i : Rat) * ((tmax - tmin) / ((tcount : Rat) - 1))

end PyGlue
