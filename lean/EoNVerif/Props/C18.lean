import EoNVerif.Proofs.PrefixDet
/-!
C18 — a simulation is a function of (inputs, the consumed prefix of the random stream).
Running a model on a longer tape gives the same result and leaves exactly the extra draws unconsumed; in particular
two runs from identically seeded generators (same stream) coincide, and nothing but the five primitives is consumed.
The definitions `TapeSt.extend` and `TM.PrefixDet` live in `EoNVerif.Proofs.PrefixDet`.
-/

namespace TM
theorem prefixDet_pure {α : Type} (a : α) : PrefixDet (pure a : TM α) := prefixDet_pure' a
theorem prefixDet_bind {α β : Type} (m : TM α) (f : α → TM β) (hm : PrefixDet m) (hf : ∀ a, PrefixDet (f a)) :
    PrefixDet (m >>= f) := prefixDet_bind' m f hm hf
theorem prefixDet_popUnif : PrefixDet TM.popUnif := prefixDet_popUnif'
theorem prefixDet_popExpo (r : Rat) : PrefixDet (TM.popExpo r) := prefixDet_popExpo' r
theorem prefixDet_popChoice (seq : List (List Nat)) : PrefixDet (TM.popChoice seq) := prefixDet_popChoice' seq
theorem prefixDet_popSample (n k : Nat) : PrefixDet (TM.popSample n k) := prefixDet_popSample' n k
theorem prefixDet_popBinom (n : Nat) (p : Rat) : PrefixDet (TM.popBinom n p) := prefixDet_popBinom' n p
end TM

theorem gillespie_prefixDet (P : GParams) (infs recs : List Node) (tmin : Rat) (tmax : ERat) (fuel cfuel : Nat) :
    TM.PrefixDet (Gillespie.run P infs recs tmin tmax fuel cfuel) :=
  Gillespie.run_prefixDet P infs recs tmin tmax fuel cfuel

theorem complex_prefixDet {σ : Type} [DecidableEq σ] (P : CCParams σ) (ic : Node → σ) (tmin : Rat) (tmax : ERat) (fuel cfuel : Nat) :
    TM.PrefixDet (Complex.run P ic tmin tmax fuel cfuel) :=
  Complex.run_prefixDet P ic tmin tmax fuel cfuel

theorem simple_prefixDet {σ : Type} [DecidableEq σ] (P : SCParams σ) (ic : Node → σ) (tmin : Rat) (tmax : ERat) (fuel cfuel : Nat) :
    TM.PrefixDet (Simple.run P ic tmin tmax fuel cfuel) :=
  Simple.run_prefixDet P ic tmin tmax fuel cfuel

theorem fastSIS_prefixDet (P : FSParams) (infs : List Node) (fuel : Nat) :
    TM.PrefixDet (FastSIS.run P infs fuel) :=
  FastSIS.run_prefixDet P infs fuel

/-- reproducibility: identical inputs and identical streams give identical outputs (and consume the same amount) -/
theorem gillespie_reproducible (P : GParams) (infs recs : List Node) (tmin : Rat) (tmax : ERat) (fuel cfuel : Nat)
    (ts₁ ts₂ : TapeSt) (h : ts₁ = ts₂) :
    Gillespie.run P infs recs tmin tmax fuel cfuel ts₁ = Gillespie.run P infs recs tmin tmax fuel cfuel ts₂ := by
  subst h; rfl

/-! non-vacuity: an unweighted SIR run on the path 0–1–2 from node 0 succeeds on a 4-draw tape (transmission 0→1,
then `tmax` is reached), consuming the whole tape; on the tape extended by two draws it yields the same event log
and leaves exactly the two extra draws -/
namespace C18Ex
def nbrs (u : Node) : List Node := match u with | 0 => [1] | 1 => [0, 2] | 2 => [1] | _ => []
def P : GParams := { nodes := [0, 1, 2], nbrs := nbrs, tau := 1, gamma := 1, ew := none, nw := none, sis := false }
def tape : List Draw := [.expo (1/2), .unif (3/4), .choice 0, .expo 2]
def obs (r : Except String (GState × TapeSt)) : Option (List (Rat × GEvent) × List Draw) :=
  match r with
  | .ok (s, ts) => some (s.log, ts.tape)
  | .error _ => none

example : obs (Gillespie.run P [0] [] 0 (some 1) 5 5 { tape := tape }) =
    some ([(1/2, GEvent.transmit 0 1)], []) := by decide +kernel
example : obs (Gillespie.run P [0] [] 0 (some 1) 5 5 (TapeSt.extend { tape := tape } [.unif 0, .binom 3])) =
    some ([(1/2, GEvent.transmit 0 1)], [.unif 0, .binom 3]) := by decide +kernel
end C18Ex
