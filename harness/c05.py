"""C05 — requested initial conditions are what the simulation starts from.  `Pred.initialOK` (Lean) on row 0 and on
get_statuses(time=tmin) of every SIR/SIS simulator and wrapper, over all calling conventions; both-given => EoNError;
initially recovered nodes are never infected later; wrappers start the same epidemic as the function they wrap."""
from fractions import Fraction as F
import common, allsims, predchecks, inithist, gen, rng as rngmod
from predchecks import strip
from allsims import SIR

SIMS = [s for s in allsims.SIMS if s not in ("Gillespie_simple_contagion", "Gillespie_complex_contagion")]


def both_given(ctx):
    """rho and initial_infecteds together must be rejected with EoNError — also for falsy values (node 0, [], rho=0)"""
    import EoN, networkx as nx
    G = nx.path_graph(4)
    variants = [dict(initial_infecteds=[1], rho=0.5), dict(initial_infecteds=0, rho=0.5), dict(initial_infecteds=[0, 2], rho=0.25),
                dict(initial_infecteds=2, rho=0.0), dict(initial_infecteds=[], rho=0.5)]
    calls = {
        "Gillespie_SIR": lambda kw: EoN.Gillespie_SIR(G, 1., 1., **kw),
        "Gillespie_SIS": lambda kw: EoN.Gillespie_SIS(G, 1., 1., tmax=1, **kw),
        "fast_SIR": lambda kw: EoN.fast_SIR(G, 1., 1., **kw),
        "fast_SIS": lambda kw: EoN.fast_SIS(G, 1., 1., tmax=1, **kw),
        "fast_nonMarkov_SIR": lambda kw: EoN.fast_nonMarkov_SIR(G, trans_time_fxn=lambda u, v: 1., rec_time_fxn=lambda u: 1., **kw),
        "fast_nonMarkov_SIS": lambda kw: EoN.fast_nonMarkov_SIS(G, trans_time_fxn=lambda u, v, d: [1.], rec_time_fxn=lambda u: 1., tmax=2, **kw),
        "discrete_SIR": lambda kw: EoN.discrete_SIR(G, args=(0.5,), **kw),
        "basic_discrete_SIR": lambda kw: EoN.basic_discrete_SIR(G, 0.5, **kw),
        "basic_discrete_SIS": lambda kw: EoN.basic_discrete_SIS(G, 0.5, tmax=2, **kw),
        "percolation_based_discrete_SIR": lambda kw: EoN.percolation_based_discrete_SIR(G, 0.5, **kw),
    }
    for name, f in calls.items():
        for i, kw in enumerate(variants):
            rep = dict(entry=name, stream="both-given", kwargs={k: v for k, v in kw.items()})
            ctx.case(rep, nontrivial=True)
            ctx.count("both-given")
            try:
                f(dict(kw))
                ctx.violation("%s accepted both rho and initial_infecteds (%s)" % (name, kw), rep)
            except Exception as e:
                nodes = kw["initial_infecteds"] if isinstance(kw["initial_infecteds"], list) else [kw["initial_infecteds"]]
                m = ctx.drv.batch([dict(op="norminit", n=4, tape=[], init=dict(kind="both", nodes=nodes, rho=str(F(kw["rho"]))))])[0]
                if m.get("err") != "EoNError":
                    ctx.disagreement("norminit-both", dict(rep, model=m))
                if type(e).__name__ != "EoNError":
                    ctx.violation("%s raised %s instead of EoNError for both rho and initial_infecteds (%s)" % (name, type(e).__name__, kw),
                                  dict(rep, error=type(e).__name__))


def rho_grid(ctx):
    """rho selects int(round(N*rho)) distinct nodes — identically in every simulator that takes rho; a grid of (N, rho)
    with exact halves (round-half-even), values just below / above a half, 0 and 1.  Direct calls with the real
    (seeded) generators; the expected count is the property's own expression evaluated in Python."""
    import random
    import networkx as nx, numpy as np, EoN
    grid = [(5, 0.5), (25, 0.1), (10, 0.05), (50, 0.25), (4, 0.375), (4, 0.625), (6, 0.25), (7, 0.5), (3, 0.5),
            (8, 0.0625), (9, 0.5), (10, 0.25), (12, 0.125), (5, 0.3), (5, 0.1), (20, 0.075), (6, 1.0), (11, 0.5), (13, 0.5)]
    calls = {
        "fast_SIR": lambda G, rho, full: EoN.fast_SIR(G, 1.0, 1.0, rho=rho, tmax=0.5, return_full_data=full),
        "fast_SIS": lambda G, rho, full: EoN.fast_SIS(G, 1.0, 1.0, rho=rho, tmax=0.5, return_full_data=full),
        "Gillespie_SIR": lambda G, rho, full: EoN.Gillespie_SIR(G, 1.0, 1.0, rho=rho, tmax=0.5, return_full_data=full),
        "Gillespie_SIS": lambda G, rho, full: EoN.Gillespie_SIS(G, 1.0, 1.0, rho=rho, tmax=0.5, return_full_data=full),
        "basic_discrete_SIR": lambda G, rho, full: EoN.basic_discrete_SIR(G, 0.5, rho=rho, tmax=2, return_full_data=full),
        "basic_discrete_SIS": lambda G, rho, full: EoN.basic_discrete_SIS(G, 0.5, rho=rho, tmax=2, return_full_data=full),
        "percolation_based_discrete_SIR": lambda G, rho, full: EoN.percolation_based_discrete_SIR(G, 0.5, rho=rho, tmax=2, return_full_data=full),
        "discrete_SIR": lambda G, rho, full: EoN.discrete_SIR(G, args=(0.5,), rho=rho, tmax=2, return_full_data=full),
        "fast_nonMarkov_SIR": lambda G, rho, full: EoN.fast_nonMarkov_SIR(G, trans_time_fxn=lambda u, v: 1.0, rec_time_fxn=lambda u: 2.0,
                                                                          rho=rho, tmax=0.5, return_full_data=full),
        "fast_nonMarkov_SIS": lambda G, rho, full: EoN.fast_nonMarkov_SIS(G, trans_time_fxn=lambda u, v, d: [1.0], rec_time_fxn=lambda u: 2.0,
                                                                          rho=rho, tmax=0.5, return_full_data=full),
    }
    for sim, fn in calls.items():
        for k, (n, rho) in enumerate(grid):
            seed = ctx.rng.randrange(10 ** 6)
            G = nx.gnp_random_graph(n, 0.4, seed=seed)
            want = int(round(n * rho))
            full = k % 2 == 1
            rep = dict(entry=sim, stream="rho-grid", n=n, rho=rho, want=want, seed=seed, return_full_data=full)
            random.seed(seed); np.random.seed(seed)
            ctx.case(rep, nontrivial=True)
            ctx.count("rho-grid:" + sim)
            try:
                r = fn(G, rho, full)
            except Exception as e:
                ctx.violation("%s raised %s for rho=%r on %d nodes" % (sim, type(e).__name__, rho, n), dict(rep, error=repr(e)[:200]))
                continue
            if full:
                st = r.get_statuses(time=r.t()[0])
                i0 = sum(1 for v in st.values() if v == "I")
                s0 = sum(1 for v in st.values() if v == "S")
            else:
                i0, s0 = int(r[2][0]), int(r[1][0])
            if i0 != want or s0 != n - want:
                ctx.violation("%s: rho=%r on N=%d starts with %d infected / %d susceptible nodes, int(round(N*rho)) = %d"
                              % (sim, rho, n, i0, s0, want), rep)


def generated_model(ctx, items):
    """the Lean code GENERATED from the argument normalisation at the head of every simulator (harness/pyargs2lean.py ->
    Gen/ArgsGen.lean), run by its own driver on the same arguments and sample draws as the implementation; plus the
    conflicting-argument combinations (rho with initial_infecteds / with initial_recovereds): same exception or same
    normalised list."""
    import fcntl, subprocess, os, json, pyargs2lean, EoN
    lean = common.LEAN
    os.makedirs(os.path.join(lean, ".audit"), exist_ok=True)
    with open(os.path.join(lean, ".audit", "gengill.lock"), "w") as lock:
        fcntl.flock(lock, fcntl.LOCK_EX)
        try:
            _, errors = pyargs2lean.regenerate()
        except Exception as e:
            errors = {"translator": "crashed: %r" % e}
        if errors:
            ctx.disagreement("generated-args:translation", dict(entry="argument normalisation", errors=errors))
            return
        p = common.lake(["build", "driverargs"])
    if p.returncode != 0:
        ctx.disagreement("generated-args:build", dict(entry="argument normalisation", log="\n".join(
            l for l in (p.stdout + p.stderr).splitlines() if "error" in l)[:1500]))
        return
    reqs, metas = [], []
    for rep, c, out, infs in items:
        li = out["lab_index"]
        init = c["init"]
        rq = dict(sim=c["sim"], n=c["n"], rho=None, infs=None, recs=None, tape=[d for d in out["tape"] if d[0] == "s"][:1])
        if init["kind"] == "list":
            rq["infs"] = out.get("init_order") or [li[i] for i in init["nodes"]]
        elif init["kind"] == "single":
            rq["infs"] = li[init["node"]]
        elif init["kind"] == "rho":
            rq["rho"] = init["rho"]
        if c["sim"] in allsims.HAS_RECS and c.get("recs"):
            rq["recs"] = [li[i] for i in c["recs"]]
        reqs.append(rq)
        metas.append((rep, dict(ok=True, infs=list(infs))))
    # conflicting / unusual combinations, straight calls
    for sim in SIMS:
        for k in range(ctx.scale(6, 30)):
            c = allsims.gen_case(ctx.rng, sim)
            c["prewarm"] = False
            G, lab = allsims.build_graph(c)
            idx = gen.index_of(G)
            n = c["n"]
            nodes = list(range(n))
            combo = ["rho+infs", "rho+recs", "rho+single", "rho-only"][k % 4]
            rho = ctx.rng.choice([F(1, 4), F(1, 2), F(3, 4)])
            kw = dict(rho=float(rho))
            rq = dict(sim=sim, n=n, rho=str(rho), infs=None, recs=None)
            if combo == "rho+infs":
                ii = ctx.rng.sample(nodes, ctx.rng.randint(1, min(2, n)))
                kw["initial_infecteds"] = [lab(i) for i in ii]
                rq["infs"] = [idx[lab(i)] for i in ii]
            elif combo == "rho+single":
                i = ctx.rng.choice(nodes)
                kw["initial_infecteds"] = lab(i)
                rq["infs"] = idx[lab(i)]
            elif combo == "rho+recs":
                if sim not in allsims.HAS_RECS:
                    continue
                jj = ctx.rng.sample(nodes, ctx.rng.randint(1, min(2, n)))
                kw["initial_recovereds"] = [lab(i) for i in jj]
                rq["recs"] = [idx[lab(i)] for i in jj]
            tr = rngmod.TapeRandom(rng=ctx.rng, idx=idx)
            rules = allsims.Rules(c, lab, idx)
            c2 = dict(c, init=dict(kind="none"), recs=[], _objs=kw)
            rep = dict(entry=sim, stream="generated-args", combo=combo, case=strip(c), kw={k_: str(v) for k_, v in kw.items()})
            try:
                allsims.call_sim(c2, G, lab, tr, False, rules)
                s_ = next((d for d in tr.log if d[0] == "s"), None)
                impl = dict(ok=True, infs=list(s_[1]) if s_ else None)
            except Exception as e:
                impl = dict(ok=False, err=allsims.err_enum(e))
                if impl["err"] != "EoNError" and combo == "rho+recs":
                    # rho together with initial_recovereds is rejected only by fast_nonMarkov_SIR / fast_SIR; the other
                    # SIR simulators sample from all nodes and crash later (KeyError) when a sampled node is also
                    # listed as recovered — overlapping sets are outside C05's quantifier (DESIGN §6, "seen but
                    # outside"); the normalisation itself has succeeded, which is what is compared here
                    s_ = next((d for d in tr.log if d[0] == "s"), None)
                    if s_ is not None:
                        impl = dict(ok=True, infs=list(s_[1]))
                        ctx.count("generated-args:rho+recs:crashed-after-normalisation")
            rq["tape"] = [d for d in tr.log if d[0] == "s"][:1]
            reqs.append(rq)
            metas.append((rep, impl))
            ctx.count("generated-args:" + combo)
    exe = os.path.join(lean, ".lake", "build", "bin", "driverargs")
    data = "\n".join(json.dumps(q, separators=(",", ":")) for q in reqs) + "\n"
    q = subprocess.run([exe], input=data, capture_output=True, text=True)
    lines = q.stdout.splitlines()
    if q.returncode != 0 or len(lines) != len(reqs):
        raise RuntimeError("driverargs crashed: " + q.stderr[-1000:])
    for (rep, impl), line in zip(metas, lines):
        g = json.loads(line)
        ctx.count("generated-args-runs")
        if impl["ok"] != bool(g.get("ok")):
            ctx.disagreement("generated-args:outcome", dict(rep, impl=impl, generated=g))
        elif not impl["ok"]:
            if impl["err"] != g.get("err"):
                ctx.disagreement("generated-args:exception", dict(rep, impl=impl, generated=g))
        elif impl["infs"] is not None and impl["infs"] != g["infs"]:
            ctx.disagreement("generated-args:initial nodes", dict(rep, impl=impl, generated=g))


def run(ctx):
    drv = ctx.drv = common.LeanDriver()
    both_given(ctx)
    rho_grid(ctx)
    per = ctx.scale(120, 600)
    reqs, metas = [], []
    nreqs, nmetas = [], []
    gitems = []
    for sim in SIMS:
        for k in range(per):
            c = allsims.gen_case(ctx.rng, sim)
            if k % 12 == 5:
                # an EMPTY request (no initially infected node; any container kind), with or without initially
                # recovered nodes: the epidemic that starts is "everybody susceptible except the recovered", one row
                c["init"] = dict(kind="list", nodes=[])
                c["full"] = (k // 12) % 2 == 1
                if sim in allsims.HAS_RECS and (k // 24) % 2 == 0 and c["n"] >= 2:
                    c["recs"] = sorted(ctx.rng.sample(range(c["n"]), ctx.rng.randint(1, min(2, c["n"] - 1))))
                elif sim in allsims.HAS_RECS:
                    c["recs"] = []
                ctx.count("%s:empty-request%s" % (sim, "+recs" if c.get("recs") else ""))
            if sim == "fast_nonMarkov_SIR":
                # zero delays/durations make later events simultaneous with tmin; "the state at tmin" is then not
                # the request in the time-collapsed summary.  C05 is about the request, so keep delays positive here
                # (zero values are exercised by C11).
                c["dur"] = [d if d != "0" else "1/4" for d in c["dur"]]
                c["delay"] = [[u, v, d if d != "0" else "1/4"] for u, v, d in c["delay"]]
            out, G, idx = allsims.run_impl(c, rng=ctx.rng)
            ctx.count("%s:%s:%s" % (sim, c["init"]["kind"], c.get("container", "-")))
            rep = dict(entry=sim, case=strip(c), tape=out["tape"])
            if not out["ok"]:
                ctx.case(rep, nontrivial=False)
                ctx.violation("%s raised %s on a consistent initial condition" % (sim, out["err"]), dict(rep, error=out["err"], tb=out.get("tb")))
                continue
            if sim in ("fast_SIR", "fast_nonMarkov_SIR") and allsims.zero_delay_at_tmin(c, out):
                ctx.count("skipped:zero-delay-at-tmin")
                ctx.case(rep, nontrivial=False)
                continue
            infs, recs = allsims.requested_init(c, out)
            if infs is None:
                ctx.disagreement("no-sample-call", rep)
                continue
            nreqs.append(inithist.norminit_requests(c, out))
            nmetas.append((rep, infs))
            gitems.append((rep, c, out, infs))
            if c["init"]["kind"] == "rho":
                want = int(round(G.order() * float(F(c["init"]["rho"]))))
                if len(infs) != want or len(set(infs)) != len(infs):
                    ctx.violation("rho selected %d nodes, expected %d distinct" % (len(infs), want), dict(rep, selected=infs))
            sir = sim in SIR
            if out["full"]:
                row0 = [col[0] for col in out["summary"]["cols"]]
                status = out.get("status_tmin")
                if status is None:
                    ctx.violation("%s: get_statuses(time=tmin) raised %s" % (sim, out.get("status_err")), rep)
                    continue
                # initially recovered nodes never infected later; default get_statuses() is the state at tmin
                bad = [v for v in recs if any(s == "I" for _, s in out["history"][v])]
                if bad:
                    ctx.violation("%s: initially recovered node infected later" % sim, dict(rep, nodes=bad))
                if out.get("status_default") != status:
                    ctx.violation("%s: get_statuses() without a time differs from get_statuses(time=tmin)" % sim,
                                  dict(rep, default=out.get("status_default"), at_tmin=status))
            else:
                row0 = [col[0] for col in out["cols"]]
                status = None
                # the same call in full-data mode on the same draws (the recorded-infector choice of the discrete
                # simulators is the only extra draw): same final counts, initially recovered nodes never infected
                disc = "discrete" in sim
                whole = c["tmax"] == "inf" or (F(c["tmax"]) - F(c["tmin"])).denominator == 1
                if (disc and sim != "discrete_SIR") or (disc and not whole):
                    # the p-based wrappers legitimately consume different draws in the two modes (full-data mode tests
                    # every infectious neighbour to record the possible infectors); fractional horizons: see C04
                    ctx.count("cross-mode:skipped")
                    other = None
                else:
                    other, _, _ = allsims.run_impl(c, tape=out["tape"], rng=ctx.rng, full=True, free_choice=disc)
                    if other["ok"] and allsims.zero_delay_at_tmin(c, other):
                        ctx.count("cross-mode:skipped")
                        other = None
                if other is None:
                    pass
                elif not other["ok"]:
                    ctx.violation("%s: full-data mode raised %s on the draws the array mode consumed" % (sim, other["err"]), dict(rep, tb=other.get("tb")))
                    continue
                else:
                    ctx.count("cross-mode:compared")
                    last = [col[-1] for col in out["cols"]]
                    olast = [col[-1] for col in other["summary"]["cols"]]
                    if last != olast or [col[0] for col in other["summary"]["cols"]] != row0:
                        ctx.violation("%s: array mode and full-data mode of the same call differ (first/last rows)" % sim,
                                      dict(rep, array_mode=dict(times=out["times"], cols=out["cols"]), full_mode=other["summary"]))
                        continue
                    bad = [v for v in recs if any(s_ == "I" for _, s_ in other["history"][v])]
                    if bad:
                        ctx.violation("%s: initially recovered node infected later" % sim, dict(rep, nodes=bad))
                        continue
            if any(isinstance(x, str) for x in row0):
                ctx.violation("%s: non-integer counts in row 0" % sim, dict(rep, row0=row0))
                continue
            reqs.append(dict(op="ic", sir=sir, N=G.order(), infs=infs, recs=recs, row0=row0, status=status))
            metas.append((rep, row0, status))
    for (rep, row0, status), rq, r in zip(metas, reqs, drv.batch(reqs)):
        ctx.case(rep, nontrivial=True, sample=dict(rep, row0=row0))
        if not r.get("ok"):
            ctx.disagreement("ic-driver", dict(rep, resp=r))
        elif not r["holds"]:
            ctx.violation("%s does not start from the requested initial condition" % rep["entry"],
                          dict(rep, row0=row0, status_at_tmin=status, requested_infected=rq["infs"], requested_recovered=rq["recs"]))
    for (rep, infs), r in zip(nmetas, drv.batch(nreqs)):
        ctx.count("norminit:%s" % rep["case"]["init"]["kind"])
        if not r.get("ok") or r["infs"] != list(infs):
            ctx.disagreement("norminit", dict(rep, impl=list(infs), model=r))
    generated_model(ctx, gitems)
