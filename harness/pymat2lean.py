#!/usr/bin/env python3
"""pymat2lean — translator for the matrix-valued right-hand sides of EoN/analytic.py
(`_dSIS_heterogeneous_pairwise_`, `_dSIR_heterogeneous_pairwise_`) -> lean/EoNVerif/Gen/AnalyticMat.lean (namespace GenMat).

A NumPy value is tracked with its static rank and its storage:
  rank 0  scalar `Rat`;  rank 1  vector of length `kcount` (`Nat → Rat`);  rank 2  `kcount × kcount` matrix (`Nat → Nat → Rat`);
  flat    the state `X` and slices of it (`Gen.V`-style: index function).
Supported: `kcount = len(Ks)`, slices of `X` with bounds that are polynomials in `kcount`, `A.shape = (kcount, kcount)` on a
slice of length kcount**2 (row-major view), `A.T`, `A.sum(1)`, name aliases, elementwise `+ - * /` with NumPy broadcasting
(scalar with anything; vector with matrix along the LAST axis), unary minus, the masked assignment `a[a == 0] = 1`,
`d.shape = (kcount**2, 1)`, `v[:, None]`, `np.concatenate((…), axis=0).T[0]`, `return`.
Storage / aliasing: a slice of `X`, a `.T`, a reshaped slice and `b = a` are VIEWS; arithmetic creates fresh storage.  A
masked assignment is accepted only on a name whose storage is fresh; it rebinds every alias of that storage (as NumPy
does).  A masked assignment into a view of the state raises Unsupported (it would change the caller's state vector).
Anything else raises Unsupported — a failed translation is an undischarged obligation."""
import ast, os, sys, hashlib

REPO = os.environ.get("EON_REPO", "/repo")


class Unsupported(Exception):
    pass


class _P(ast.AST):
    """a polynomial literal inside a shape expression"""
    def __init__(self, p):
        self.p = p


class Val:
    def __init__(self, rank, term, store, length=None):
        self.rank, self.term, self.store, self.length = rank, term, store, length   # length: Lean Nat term for flat values


class Tr:
    def __init__(self, fname, params):
        self.fname = fname
        self.env = {}
        self.lines = []
        self.nstore = 0
        self.version = {}
        for name, kind in params:
            if kind == "flat":
                self.env[name] = Val("flat", f"{name}.f", self.fresh("state:" + name), f"{name}.n")
            elif kind == "vec":
                self.env[name] = Val(1, f"{name}.f", self.fresh("arg:" + name))
            elif kind == "mat":
                self.env[name] = Val(2, name, self.fresh("arg:" + name))
            else:
                self.env[name] = Val(0, name, None)

    def fresh(self, tag="fresh"):
        self.nstore += 1
        return (self.nstore, tag)

    def bad(self, msg):
        raise Unsupported(f"{self.fname}: {msg}")

    # ------------------------------------------------------------------ integer (shape) expressions
    def nat(self, e):
        if isinstance(e, ast.Constant) and isinstance(e.value, int) and e.value >= 0:
            return str(e.value)
        if isinstance(e, ast.Name) and e.id == "kcount" and "kcount" in self.env:
            return "kcount"
        if isinstance(e, ast.BinOp) and isinstance(e.op, (ast.Add, ast.Mult)):
            return f"({self.nat(e.left)} {'+' if isinstance(e.op, ast.Add) else '*'} {self.nat(e.right)})"
        if isinstance(e, ast.BinOp) and isinstance(e.op, ast.Pow) and isinstance(e.right, ast.Constant) and isinstance(e.right.value, int):
            return f"({self.nat(e.left)} ^ {e.right.value})"
        self.bad("shape expression " + ast.unparse(e))

    def poly(self, e):
        """the shape expression as a polynomial in kcount: {power: coefficient}"""
        if isinstance(e, ast.Constant) and isinstance(e.value, int):
            return {0: e.value} if e.value else {}
        if isinstance(e, ast.Name) and e.id == "kcount":
            return {1: 1}
        if isinstance(e, ast.BinOp) and isinstance(e.op, ast.Add):
            a, b = self.poly(e.left), self.poly(e.right)
            return {k: v for k, v in ((k, a.get(k, 0) + b.get(k, 0)) for k in set(a) | set(b)) if v}
        if isinstance(e, ast.BinOp) and isinstance(e.op, ast.Mult):
            a, b, r = self.poly(e.left), self.poly(e.right), {}
            for i, x in a.items():
                for j, y in b.items():
                    r[i + j] = r.get(i + j, 0) + x * y
            return {k: v for k, v in r.items() if v}
        if isinstance(e, ast.BinOp) and isinstance(e.op, ast.Pow) and isinstance(e.right, ast.Constant) and isinstance(e.right.value, int):
            r = {0: 1}
            for _ in range(e.right.value):
                r = self.poly(ast.BinOp(left=_P(r), op=ast.Mult(), right=e.left))
            return r
        if isinstance(e, _P):
            return e.p
        self.bad("shape expression " + ast.unparse(e))

    # ------------------------------------------------------------------ expressions
    def pt(self, v, i="k", j="l"):
        """pointwise term of value v at matrix position (i, j) under NumPy broadcasting against a matrix"""
        if v.rank == 0:
            return v.term
        if v.rank == 1:
            return f"({v.term} {j})"
        return f"({v.term} {i} {j})"

    def binop(self, op, a, b):
        sym = {ast.Add: "+", ast.Sub: "-", ast.Mult: "*", ast.Div: "/"}[type(op)]
        if a.rank == "flat" or b.rank == "flat":
            self.bad("arithmetic on an unshaped slice of the state")
        r = max(a.rank, b.rank)
        if r == 0:
            return Val(0, f"({a.term} {sym} {b.term})", None)
        if r == 1:
            ta = a.term if a.rank == 0 else f"({a.term} k)"
            tb = b.term if b.rank == 0 else f"({b.term} k)"
            return Val(1, f"(fun k => {ta} {sym} {tb})", self.fresh())
        return Val(2, f"(fun k l => {self.pt(a)} {sym} {self.pt(b)})", self.fresh())

    def ex(self, e):
        if isinstance(e, ast.Constant) and isinstance(e.value, (int, float)) and not isinstance(e.value, bool):
            from fractions import Fraction
            fr = Fraction(repr(e.value))
            return Val(0, f"({fr.numerator} : Rat)" if fr.denominator == 1 else f"(({fr.numerator} : Rat) / {fr.denominator})", None)
        if isinstance(e, ast.Name):
            if e.id not in self.env:
                self.bad("unknown name " + e.id)
            v = self.env[e.id]
            if v.rank == "nat":
                return Val(0, f"(({v.term} : Nat) : Rat)", None)
            return v
        if isinstance(e, ast.UnaryOp) and isinstance(e.op, ast.USub):
            v = self.ex(e.operand)
            return self.binop(ast.Sub(), Val(0, "(0 : Rat)", None), v)
        if isinstance(e, ast.BinOp) and type(e.op) in (ast.Add, ast.Sub, ast.Mult, ast.Div):
            return self.binop(e.op, self.ex(e.left), self.ex(e.right))
        if isinstance(e, ast.Attribute) and e.attr == "T":
            v = self.ex(e.value)
            if v.rank != 2:
                self.bad(".T of a non-matrix " + ast.unparse(e))
            return Val(2, f"(fun k l => {v.term} l k)", v.store)                       # a view
        if isinstance(e, ast.Call) and isinstance(e.func, ast.Attribute) and e.func.attr == "sum" and len(e.args) == 1 \
                and isinstance(e.args[0], ast.Constant) and e.args[0].value in (0, 1) and not e.keywords:
            v = self.ex(e.func.value)
            if v.rank != 2:
                self.bad(".sum(axis) of a non-matrix")
            if e.args[0].value == 1:
                return Val(1, f"(fun k => sumTo kcount (fun l => {v.term} k l))", self.fresh())
            return Val(1, f"(fun l => sumTo kcount (fun k => {v.term} k l))", self.fresh())
        if isinstance(e, ast.Subscript) and isinstance(e.value, ast.Name) and isinstance(e.slice, ast.Slice) and e.slice.step is None:
            v = self.env.get(e.value.id)
            if v is None or v.rank != "flat":
                self.bad("slice of " + e.value.id)
            lo = self.nat(e.slice.lower) if e.slice.lower is not None else "0"
            if e.slice.upper is None:
                self.bad("open-ended slice " + ast.unparse(e))
            hi = self.nat(e.slice.upper)
            pl = self.poly(e.slice.lower) if e.slice.lower is not None else {}
            ph = self.poly(e.slice.upper)
            r = Val("flat", f"(fun i => {v.term} ({lo} + i))", v.store, f"({hi} - {lo})")     # a view of the state
            r.lenpoly = {k: c for k, c in ((k, ph.get(k, 0) - pl.get(k, 0)) for k in set(pl) | set(ph)) if c}
            if r.lenpoly == {1: 1}:                 # a slice of length kcount is used as a vector (still a view of the state)
                return Val(1, r.term, v.store)
            return r
        self.bad("expression " + ast.unparse(e)[:60])

    # ------------------------------------------------------------------ statements
    def bind(self, name, v):
        """emit `let name := …` (versioned so that a rebinding shadows cleanly)"""
        ty = {0: "Rat", 1: "Nat → Rat", 2: "Nat → Nat → Rat", "flat": "Nat → Rat"}[v.rank]
        self.lines.append(f"  let {name} : {ty} := {v.term}")
        nv = Val(v.rank, name, v.store, v.length)
        if hasattr(v, "lenpoly"):
            nv.lenpoly = v.lenpoly
        self.env[name] = nv

    def stmt(self, st):
        src = ast.unparse(st)
        if isinstance(st, ast.Assign) and len(st.targets) == 1:
            t = st.targets[0]
            # kcount = len(Ks)
            if isinstance(t, ast.Name) and src == "kcount = len(Ks)" and self.env.get("Ks") is not None and self.env["Ks"].rank == 1:
                self.lines.append("  let kcount : Nat := Ks.n")
                self.env["kcount"] = Val("nat", "kcount", None)
                return
            # A.shape = (kcount, kcount)   /   d.shape = (kcount**2, 1)
            if isinstance(t, ast.Attribute) and t.attr == "shape" and isinstance(t.value, ast.Name) and isinstance(st.value, ast.Tuple) \
                    and len(st.value.elts) == 2:
                nm = t.value.id
                v = self.env.get(nm)
                if v is None:
                    self.bad("reshape of unknown " + nm)
                a, b = ast.unparse(st.value.elts[0]), ast.unparse(st.value.elts[1])
                if (a, b) == ("kcount", "kcount") and v.rank == "flat":
                    if getattr(v, "lenpoly", None) != {2: 1}:
                        self.bad(f"reshape of a slice of length {v.length} to (kcount, kcount)")
                    self.bind(nm, Val(2, f"(fun k l => {v.term} (k * kcount + l))", v.store))
                    return
                if (a, b) == ("kcount ** 2", "1") and v.rank == 2:
                    self.env[nm] = Val("col2", v.term, v.store)           # a (kcount², 1) column: row-major flattening
                    return
                self.bad("reshape " + src)
            # a[a == 0] = 1
            if isinstance(t, ast.Subscript) and isinstance(t.value, ast.Name) and isinstance(t.slice, ast.Compare):
                nm = t.value.id
                c = t.slice
                if not (isinstance(c.left, ast.Name) and c.left.id == nm and len(c.ops) == 1 and isinstance(c.ops[0], ast.Eq)
                        and isinstance(c.comparators[0], ast.Constant) and isinstance(st.value, ast.Constant)):
                    self.bad("masked assignment " + src)
                v = self.env.get(nm)
                if v is None or v.rank not in (1, 2):
                    self.bad("masked assignment on " + nm)
                if v.store is None or v.store[1] != "fresh":
                    self.bad(f"in-place write `{src}` into {v.store[1] if v.store else 'a scalar'} (a view of the caller's data)")
                z, o = self.ex(c.comparators[0]).term, self.ex(st.value).term
                aliases = [n for n, w in self.env.items() if isinstance(w, Val) and w.store == v.store and w.rank in (1, 2)]
                for n in aliases:
                    w = self.env[n]
                    if w.rank == 1:
                        self.bind(n, Val(1, f"(fun k => if {w.term} k = {z} then {o} else {w.term} k)", v.store))
                    else:
                        self.bind(n, Val(2, f"(fun k l => if {w.term} k l = {z} then {o} else {w.term} k l)", v.store))
                return
            if isinstance(t, ast.Name):
                # dX = np.concatenate((…), axis=0).T[0]
                if isinstance(st.value, ast.Subscript) and ast.unparse(st.value).startswith("np.concatenate("):
                    self.concat(t.id, st.value)
                    return
                v = self.ex(st.value)
                if isinstance(st.value, ast.Name):
                    self.env[t.id] = self.env[st.value.id]                # plain alias: same term, same storage
                    self.lines.append(f"  -- {src}  (alias)")
                    return
                self.bind(t.id, v)
                return
        if isinstance(st, ast.Return) and isinstance(st.value, ast.Name) and st.value.id in self.env and self.env[st.value.id].rank == "out":
            self.lines.append(f"  {self.env[st.value.id].term}")
            return "returned"
        self.bad("statement " + src[:70])

    def concat(self, name, e):
        # np.concatenate((p0, p1, …), axis=0).T[0]
        ok = isinstance(e.slice, ast.Constant) and e.slice.value == 0 and isinstance(e.value, ast.Attribute) and e.value.attr == "T"
        call = e.value.value if ok else None
        if not (ok and isinstance(call, ast.Call) and ast.unparse(call.func) == "np.concatenate" and len(call.args) == 1
                and isinstance(call.args[0], ast.Tuple) and [ast.unparse(k) for k in call.keywords] == ["axis=0"]):
            self.bad("concatenate " + ast.unparse(e)[:60])
        parts = []
        for p in call.args[0].elts:
            if isinstance(p, ast.Subscript) and isinstance(p.value, ast.Name) and ast.unparse(p.slice) == "(slice(None, None, None), None)" or \
                    (isinstance(p, ast.Subscript) and ast.unparse(p).endswith("[:, None]")):
                v = self.ex(p.value)
                if v.rank != 1:
                    self.bad("column of a non-vector " + ast.unparse(p))
                parts.append(("kcount", f"fun i => {v.term} i"))
            elif isinstance(p, ast.Name) and p.id in self.env and self.env[p.id].rank == "col2":
                v = self.env[p.id]
                parts.append(("(kcount ^ 2)", f"fun i => {v.term} (i / kcount) (i % kcount)"))
            else:
                self.bad("concatenate part " + ast.unparse(p))
        term = None
        for ln, f in reversed(parts):
            piece = f"(⟨{ln}, {f}⟩ : Gen.V)"
            term = piece if term is None else f"Gen.V.append {piece} ({term})"
        self.env[name] = Val("out", term, None)


SIGS = {
    "_dSIS_heterogeneous_pairwise_": (["X", "t", "Nk", "NkNl", "tau", "gamma", "Ks"],
                                      [("X", "flat"), ("Nk", "vec"), ("NkNl", "mat"), ("tau", "s"), ("gamma", "s"), ("Ks", "vec")]),
    "_dSIR_heterogeneous_pairwise_": (["X", "t", "tau", "gamma", "Nk", "Ks"],
                                      [("X", "flat"), ("tau", "s"), ("gamma", "s"), ("Nk", "vec"), ("Ks", "vec")]),
}
LTYPE = {"flat": "Gen.V", "vec": "Gen.V", "mat": "Nat → Nat → Rat", "s": "Rat"}


def translate_fn(fn):
    want, params = SIGS[fn.name]
    got = [a.arg for a in fn.args.args]
    if got != want:
        raise Unsupported(f"{fn.name}: signature {got}")
    tr = Tr(fn.name, params)
    body = [s for s in fn.body if not (isinstance(s, ast.Expr) and isinstance(s.value, ast.Constant))]
    done = None
    for st in body:
        if done:
            raise Unsupported(f"{fn.name}: code after return")
        done = tr.stmt(st)
    if not done:
        raise Unsupported(f"{fn.name}: no return")
    lname = fn.name.strip("_")
    args = " ".join(f"({n} : {LTYPE[k]})" for n, k in params)
    return (f"/-- generated from `{fn.name}` (EoN/analytic.py:{fn.lineno}) -/\n"
            f"def {lname} {args} : Gen.V :=\n" + "\n".join(tr.lines) + "\n")


HEADER = '''import EoNVerif.Gen.Vec
/-!
GENERATED by harness/pymat2lean.py from the matrix-valued right-hand sides of EoN/analytic.py — do not edit; regenerated on
every check run.   source sha1: {sha}
A (kcount × kcount) array is `Nat → Nat → Rat`; reshaping a slice of the state is the row-major view `(k, l) ↦ v (k·kcount + l)`;
`a[a == 0] = 1` rebinds the name (and every alias of the same storage).
-/
namespace GenMat
open ODE

'''


def translate(repo=REPO):
    tree = ast.parse(open(os.path.join(repo, "EoN", "analytic.py")).read())
    fns = {n.name: n for n in tree.body if isinstance(n, ast.FunctionDef)}
    errors, parts, srcs = {}, [], []
    for name in SIGS:
        try:
            parts.append(translate_fn(fns[name]))
            srcs.append(ast.unparse(fns[name]))
        except (Unsupported, KeyError) as ex:
            errors[name] = f"unsupported: {ex}"
    sha = hashlib.sha1("\n".join(srcs).encode()).hexdigest()
    return HEADER.format(sha=sha) + "\n".join(parts) + "\nend GenMat\n", errors


def regenerate():
    target = os.path.join(os.path.dirname(os.path.abspath(__file__)), "..", "lean", "EoNVerif", "Gen", "AnalyticMat.lean")
    text, errors = translate()
    old = open(target).read() if os.path.exists(target) else None
    if text and not errors and old != text:
        tmp = target + ".tmp%d" % os.getpid()
        with open(tmp, "w") as f:
            f.write(text)
        os.replace(tmp, target)
    return (old != text and not errors), errors


def main():
    changed, errors = regenerate()
    print("pymat2lean: Gen/AnalyticMat.lean %s" % ("rewritten" if changed else "up to date"))
    for n, e in errors.items():
        print(f"pymat2lean: {n}: {e}")
    return 1 if errors else 0


if __name__ == "__main__":
    sys.exit(main())
