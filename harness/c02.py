"""C02 — Markovian SIS simulators sample the exact SIS chain."""
import common, gillcheck, fastsis


def run(ctx):
    drv = common.LeanDriver()
    gillcheck.correspondence(ctx, drv, True, ctx.scale(1500, 6000), "Gillespie_SIS")
    cases = gillcheck.law_cases(ctx, True, ctx.scale(3, 4), ctx.scale(30, 300))
    if not ctx.thorough:
        cases = ctx.rng.sample(cases, min(len(cases), 150))
    gillcheck.law_check(ctx, drv, True, cases, "Gillespie_SIS")
    # law after 2 and 3 events (exact enumeration of the real code vs the composed chain): reaches what only shows
    # after the event lists have been updated (removal of the heaviest item, re-insertion of existing links, ...)
    gillcheck.k_step_check(ctx, drv, True, gillcheck.kstep_cases(ctx, True, ctx.scale(25, 150)), 2, "Gillespie_SIS")
    gillcheck.k_step_check(ctx, drv, True, gillcheck.kstep_cases(ctx, True, ctx.scale(10, 60)), 3, "Gillespie_SIS")
    if any(st.startswith("Gillespie_SIS") for st, _ in ctx.disagreements) and not ctx.violations:
        # tape correspondence broke without a property-level failure so far: search harder for a concrete failing input
        gillcheck.k_step_check(ctx, drv, True, gillcheck.kstep_cases(ctx, True, 150), 2, "Gillespie_SIS")
        if not ctx.violations:
            gillcheck.k_step_check(ctx, drv, True, gillcheck.kstep_cases(ctx, True, 100), 3, "Gillespie_SIS")
    fastsis.correspondence(ctx, drv, ctx.scale(600, 3000))
    if any(st.startswith("fast_SIS") for st, _ in ctx.disagreements) and not ctx.violations:
        # correspondence broke without a property-level failure so far: search for a concrete failing input
        fastsis.law_search(ctx)
