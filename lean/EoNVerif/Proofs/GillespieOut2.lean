import EoNVerif.Proofs.GillespieOut
/-!
Helper lemmas for C09 (`Gillespie_SIR` / `Gillespie_SIS` transmissions): the event log of the model as a valid log
over the contact network, and the causal validity of the transmission list read off a valid log.
-/
namespace Gillespie
open Pred Invest

/-! ### Prop-level forms of the history predicates -/

/-- `hasStatusClosed` as a proposition -/
def HSC (h : Hist) (st : String) (t : Rat) : Prop :=
  ∃ i ti, h[i]? = some (ti, st) ∧ ti ≤ t ∧ ∀ tj sj, h[i + 1]? = some (tj, sj) → t ≤ tj

/-- `changesAt` as a proposition -/
def CHG (h : Hist) (a b : String) (t : Rat) : Prop :=
  ∃ i ta, h[i]? = some (ta, a) ∧ h[i + 1]? = some (t, b)

theorem hasStatusClosed_of (h : Hist) (st : String) (t : Rat) (hh : HSC h st t) :
    hasStatusClosed h st t = true := by
  obtain ⟨i, ti, h1, h2, h3⟩ := hh
  have hi : i < h.length := by
    by_contra hc
    rw [List.getElem?_eq_none (by omega)] at h1; cases h1
  unfold hasStatusClosed
  rw [List.any_eq_true]
  refine ⟨i, List.mem_range.2 hi, ?_⟩
  rw [h1]
  simp only [Bool.and_eq_true, beq_self_eq_true, decide_eq_true_eq, true_and]
  refine ⟨h2, ?_⟩
  cases h4 : h[i + 1]? with
  | none => rfl
  | some p =>
    obtain ⟨tj, sj⟩ := p
    simp only [decide_eq_true_eq]
    exact h3 tj sj h4

theorem changesAt_of (h : Hist) (a b : String) (t : Rat) (hh : CHG h a b t) :
    changesAt h a b t = true := by
  obtain ⟨i, ta, h1, h2⟩ := hh
  have hi : i < h.length := by
    by_contra hc
    rw [List.getElem?_eq_none (by omega)] at h1; cases h1
  unfold changesAt
  rw [List.any_eq_true]
  refine ⟨i, List.mem_range.2 hi, ?_⟩
  rw [h1, h2]
  simp

theorem getLast?_eq_getElem? {α : Type} (l : List α) : l.getLast? = l[l.length - 1]? := by
  rw [List.getLast?_eq_getElem?]

theorem HSC_append (h : Hist) (st : String) (t : Rat) (x : Rat × String) (hh : HSC h st t) (hx : t ≤ x.1) :
    HSC (h ++ [x]) st t := by
  obtain ⟨i, ti, h1, h2, h3⟩ := hh
  have hi : i < h.length := by
    by_contra hc
    rw [List.getElem?_eq_none (by omega)] at h1; cases h1
  refine ⟨i, ti, ?_, h2, ?_⟩
  · rw [List.getElem?_append_left hi]; exact h1
  · intro tj sj h4
    by_cases hi1 : i + 1 < h.length
    · rw [List.getElem?_append_left hi1] at h4; exact h3 tj sj h4
    · have : i + 1 = h.length := by omega
      rw [this, List.getElem?_append_right (le_refl _)] at h4
      simp at h4
      subst h4; exact hx

theorem HSC_last (h : Hist) (st : String) (t ti : Rat) (hl : h.getLast? = some (ti, st)) (hle : ti ≤ t) :
    HSC h st t := by
  rw [getLast?_eq_getElem?] at hl
  have hne : h ≠ [] := by rintro rfl; simp at hl
  have hpos : 0 < h.length := List.length_pos_iff.2 hne
  refine ⟨h.length - 1, ti, hl, hle, ?_⟩
  intro tj sj h4
  rw [List.getElem?_eq_none (by omega)] at h4; cases h4

theorem CHG_append (h : Hist) (a b : String) (t : Rat) (x : Rat × String) (hh : CHG h a b t) :
    CHG (h ++ [x]) a b t := by
  obtain ⟨i, ta, h1, h2⟩ := hh
  have hi : i + 1 < h.length := by
    by_contra hc
    rw [List.getElem?_eq_none (by omega)] at h2; cases h2
  exact ⟨i, ta, by rw [List.getElem?_append_left (by omega)]; exact h1,
    by rw [List.getElem?_append_left hi]; exact h2⟩

theorem CHG_new (h : Hist) (a b : String) (t ta : Rat) (hl : h.getLast? = some (ta, a)) :
    CHG (h ++ [(t, b)]) a b t := by
  rw [getLast?_eq_getElem?] at hl
  have hne : h ≠ [] := by rintro rfl; simp at hl
  have hpos : 0 < h.length := List.length_pos_iff.2 hne
  refine ⟨h.length - 1, ta, ?_, ?_⟩
  · rw [List.getElem?_append_left (by omega)]; exact hl
  · have : h.length - 1 + 1 = h.length := by omega
    rw [this, List.getElem?_append_right (le_refl _)]; simp

/-- the test inside `changeCount` -/
def ccPred (h : Hist) (ok : String → String → Bool) (i : Nat) : Bool :=
  match h[i]?, h[i + 1]? with
  | some (_, a), some (_, b) => ok a b
  | _, _ => false

theorem changeCount_eq (h : Hist) (ok : String → String → Bool) :
    changeCount h ok = ((List.range h.length).filter (ccPred h ok)).length := rfl

/-- appending one entry to a non-empty history adds the last pair to the change count -/
theorem changeCount_append (h : Hist) (ok : String → String → Bool) (x : Rat × String) (tl : Rat) (sl : String)
    (hl : h.getLast? = some (tl, sl)) :
    changeCount (h ++ [x]) ok = changeCount h ok + (if ok sl x.2 then 1 else 0) := by
  rw [getLast?_eq_getElem?] at hl
  have hne : h ≠ [] := by rintro rfl; simp at hl
  have hpos : 0 < h.length := List.length_pos_iff.2 hne
  obtain ⟨m, hm⟩ : ∃ m, h.length = m + 1 := ⟨h.length - 1, by omega⟩
  rw [changeCount_eq, changeCount_eq]
  rw [List.length_append, List.length_singleton, hm, List.range_succ, List.range_succ, List.filter_append,
    List.filter_append, List.length_append, List.length_append]
  have e1 : (List.range m).filter (ccPred (h ++ [x]) ok) = (List.range m).filter (ccPred h ok) := by
    apply List.filter_congr
    intro i hi
    rw [List.mem_range] at hi
    unfold ccPred
    rw [List.getElem?_append_left (by omega), List.getElem?_append_left (by omega)]
  rw [e1]
  have hmm : h.length - 1 = m := by omega
  rw [hmm] at hl
  have e2 : (h ++ [x])[m]? = some (tl, sl) := by rw [List.getElem?_append_left (by omega)]; exact hl
  have e3 : (h ++ [x])[m + 1]? = some x := by
    rw [← hm, List.getElem?_append_right (le_refl _)]; simp
  have e4 : (h ++ [x])[m + 1 + 1]? = none := by
    rw [List.getElem?_eq_none]; simp; omega
  have e5 : h[m + 1]? = none := by rw [List.getElem?_eq_none]; omega
  have p1 : ccPred (h ++ [x]) ok m = ok sl x.2 := by unfold ccPred; rw [e2, e3]
  have p2 : ccPred (h ++ [x]) ok (m + 1) = false := by unfold ccPred; rw [e3, e4]
  have p3 : ccPred h ok m = false := by unfold ccPred; rw [hl, e5]
  simp only [List.filter_cons, List.filter_nil, p1, p2]
  cases ok sl x.2 <;> simp [p3]

/-! ### `reachesRoot`, `nondecreasing` -/

theorem reachesRoot_fuel_mono (trs : List Trans) (f f' : Nat) (v : Node) (h : reachesRoot trs f v = true)
    (hf : f ≤ f') : reachesRoot trs f' v = true := by
  induction f generalizing f' v with
  | zero => simp [reachesRoot] at h
  | succ f ih =>
    obtain ⟨g, rfl⟩ : ∃ g, f' = g + 1 := ⟨f' - 1, by omega⟩
    unfold reachesRoot at h ⊢
    cases hfind : trs.find? (fun e => e.tgt == v) with
    | none => rw [hfind] at h; cases h
    | some e =>
      rw [hfind] at h
      dsimp only at h ⊢
      cases hsrc : e.src with
      | none => rfl
      | some u =>
        rw [hsrc] at h
        dsimp only at h ⊢
        exact ih g u h (by omega)

theorem reachesRoot_append (trs l : List Trans) (f : Nat) (v : Node) (h : reachesRoot trs f v = true) :
    reachesRoot (trs ++ l) f v = true := by
  induction f generalizing v with
  | zero => simp [reachesRoot] at h
  | succ f ih =>
    unfold reachesRoot at h ⊢
    cases hfind : trs.find? (fun e => e.tgt == v) with
    | none => rw [hfind] at h; cases h
    | some e =>
      rw [hfind] at h
      rw [List.find?_append, hfind, Option.some_or]
      dsimp only at h ⊢
      cases hsrc : e.src with
      | none => rfl
      | some u =>
        rw [hsrc] at h
        dsimp only at h ⊢
        exact ih u h

theorem nondecreasing_of_pairwise (l : List Rat) (h : l.Pairwise (· ≤ ·)) : nondecreasing l = true := by
  induction l with
  | nil => rfl
  | cons a t ih =>
    cases t with
    | nil => rfl
    | cons b t' =>
      rw [List.pairwise_cons] at h
      simp only [nondecreasing, Bool.and_eq_true, decide_eq_true_eq]
      exact ⟨h.1 b List.mem_cons_self, ih h.2⟩

/-! ### the event log as a valid log over the contact network -/

def evNode : GEvent → Node
  | .recover u => u
  | .transmit _ v => v

def evSt (sis : Bool) : GEvent → St
  | .recover _ => if sis then St.S else St.R
  | .transmit _ _ => St.I

/-- status after a (reversed: latest first) event log -/
def statusOf (sis : Bool) (init : Node → St) : List (Rat × GEvent) → Node → St
  | [] => init
  | e :: lg => fset (statusOf sis init lg) (evNode e.2) (evSt sis e.2)

/-- the event is enabled in status `st` -/
def EvOK (P : GParams) (st : Node → St) : GEvent → Prop
  | .recover u => u ∈ P.nodes ∧ st u = St.I
  | .transmit u v => u ∈ P.nodes ∧ v ∈ P.nodes ∧ st u = St.I ∧ v ∈ P.nbrs u ∧ st v = St.S

/-- a (reversed) event log all of whose events were enabled when they happened, with ordered times -/
def ValidLg (P : GParams) (init : Node → St) (tmin : Rat) : List (Rat × GEvent) → Prop
  | [] => True
  | e :: lg => ValidLg P init tmin lg ∧ EvOK P (statusOf P.sis init lg) e.2 ∧ tmin ≤ e.1 ∧ ∀ e' ∈ lg, e'.1 ≤ e.1

/-- invariant of the model state: the log explains the statuses -/
structure LogInv (P : GParams) (infs recs : List Node) (tmin : Rat) (s : GState) : Prop where
  status : s.status = statusOf P.sis (initStatus infs recs) s.log
  valid : ValidLg P (initStatus infs recs) tmin s.log
  bound : ∀ e ∈ s.log, e.1 ≤ lastT s
  lower : tmin ≤ lastT s

theorem logInv_init (P : GParams) (infs recs : List Node) (tmin : Rat) (s0 : GState)
    (h0 : init P infs recs tmin = some s0) : LogInv P infs recs tmin s0 := by
  obtain ⟨hst, hT, -, -, -, hlog⟩ := init_shape P infs recs tmin s0 h0
  refine ⟨by rw [hlog, hst]; rfl, by rw [hlog]; trivial, by rw [hlog]; simp, by simp [lastT, hT]⟩

theorem logInv_step (P : GParams) (h : WF P) (infs recs : List Node) (tmin : Rat) (s s' : GState) (e : GEvent)
    (t : Rat) (hs : Inv P s) (hL : LogInv P infs recs tmin s) (hen : Enabled s e) (hle : lastT s ≤ t)
    (ha : applyEvent P s e t = some s') : LogInv P infs recs tmin s' := by
  have hlast := applyEvent_lastT P s s' e t ha
  have shape : s'.status = fset s.status (evNode e) (evSt P.sis e) ∧ s'.log = (t, e) :: s.log := by
    cases e with
    | recover u =>
      obtain ⟨h1, -, -, -, -, h6⟩ := applyRec_shape P s s' u t ha
      exact ⟨h1, h6⟩
    | transmit u v =>
      obtain ⟨h1, -, -, -, -, h6⟩ := applyTrans_shape P s s' u v t ha
      exact ⟨h1, h6⟩
  obtain ⟨hst, hlog⟩ := shape
  have hok : EvOK P s.status e := by
    cases e with
    | recover u => exact (hs.inf_items u).1 hen
    | transmit u v =>
      obtain ⟨h1, h2, h3, h4⟩ := (hs.link_items u v).1 hen
      exact ⟨h1, h.nbr_mem u h1 v h3, h2, h3, h4⟩
  refine ⟨?_, ?_, ?_, ?_⟩
  · rw [hst, hlog, hL.status]; rfl
  · rw [hlog]
    refine ⟨hL.valid, ?_, le_trans hL.lower hle, fun e' he' => le_trans (hL.bound e' he') hle⟩
    rw [← hL.status]; exact hok
  · intro e' he'
    rw [hlog] at he'
    rw [hlast]
    rcases List.mem_cons.1 he' with rfl | he'
    · exact le_refl _
    · exact le_trans (hL.bound e' he') hle
  · rw [hlast]; exact le_trans hL.lower hle

theorem logInv_run (P : GParams) (h : WF P) (infs recs : List Node) (tmin : Rat) (tmax : ERat) (fuel cfuel : Nat)
    (hi : infs.Nodup) (him : ∀ u ∈ infs, u ∈ P.nodes)
    (hdis : ∀ u ∈ infs, u ∉ recs) (hsis : P.sis = true → recs = [])
    (ts ts' : TapeSt) (hts : TapeNonneg ts) (s' : GState)
    (hrun : run P infs recs tmin tmax fuel cfuel ts = .ok (s', ts')) : LogInv P infs recs tmin s' := by
  refine run_ind P h infs recs tmin tmax True (LogInv P infs recs tmin) hi him hdis hsis
    ?_ ?_ fuel cfuel ts ts' (fun _ => hts) s' hrun
  · intro s0 h0 _ _
    exact logInv_init P infs recs tmin s0 h0
  · intro s e tv s1 hs hQ hen hle _ ha
    exact logInv_step P h infs recs tmin s s1 e tv hs hQ hen (hle trivial) ha

/-! ### the outputs read off a (reversed) event log -/

def entry (sis : Bool) (e : Rat × GEvent) : Rat × Node × String := (e.1, evNode e.2, stName (evSt sis e.2))

def logOf (sis : Bool) (lg : List (Rat × GEvent)) : Log := lg.reverse.map (entry sis)

theorem gLog_eq (P : GParams) (s : GState) : gLog P s = logOf P.sis s.log := by
  unfold gLog logOf
  apply List.map_congr_left
  rintro ⟨t, ev⟩ _
  cases ev with
  | recover u => cases hs : P.sis <;> rfl
  | transmit u v => rfl

def trOf (e : Rat × GEvent) : Option Trans :=
  match e.2 with
  | .recover _ => none
  | .transmit u v => some { t := e.1, src := some u, tgt := v }

def transB (lg : List (Rat × GEvent)) : List Trans := lg.reverse.filterMap trOf

def transOf (tmin : Rat) (infs : List Node) (lg : List (Rat × GEvent)) : List Trans :=
  (infs.map fun u => ({ t := tmin, src := none, tgt := u } : Trans)) ++ transB lg

theorem gTrans_eq (tmin : Rat) (infs : List Node) (s : GState) : gTrans tmin infs s = transOf tmin infs s.log := rfl

theorem transB_cons (e : Rat × GEvent) (lg : List (Rat × GEvent)) :
    transB (e :: lg) = transB lg ++ (trOf e).toList := by
  unfold transB
  rw [List.reverse_cons, List.filterMap_append]
  congr 1

/-- history of `v` -/
def HH (tmin : Rat) (init : Node → St) (sis : Bool) (lg : List (Rat × GEvent)) (v : Node) : Hist :=
  histOf tmin (fun v => stName (init v)) (logOf sis lg) v

theorem HH_nil (tmin : Rat) (init : Node → St) (sis : Bool) (v : Node) :
    HH tmin init sis [] v = [(tmin, stName (init v))] := rfl

theorem HH_cons (tmin : Rat) (init : Node → St) (sis : Bool) (e : Rat × GEvent) (lg : List (Rat × GEvent))
    (v : Node) :
    HH tmin init sis (e :: lg) v =
      HH tmin init sis lg v ++ (if evNode e.2 = v then [(e.1, stName (evSt sis e.2))] else []) := by
  unfold HH histOf logOf
  rw [List.reverse_cons, List.map_append, List.filter_append, List.map_append]
  simp only [List.map_cons, List.map_nil, List.cons_append, List.filter_cons, List.filter_nil, entry]
  by_cases hv : evNode e.2 = v <;> simp [hv]

theorem HH_last (tmin : Rat) (init : Node → St) (sis : Bool) (lg : List (Rat × GEvent)) (v : Node) :
    ∃ t, (HH tmin init sis lg v).getLast? = some (t, stName (statusOf sis init lg v)) ∧
      ∀ B, tmin ≤ B → (∀ e ∈ lg, e.1 ≤ B) → t ≤ B := by
  induction lg with
  | nil => exact ⟨tmin, rfl, fun B hB _ => hB⟩
  | cons e lg ih =>
    obtain ⟨t, h1, h2⟩ := ih
    rw [HH_cons]
    by_cases hv : evNode e.2 = v
    · refine ⟨e.1, ?_, fun B _ hB => hB e List.mem_cons_self⟩
      simp only [hv, if_true, List.getLast?_append, List.getLast?_singleton, Option.some_or]
      simp [statusOf, fset, hv]
    · refine ⟨t, ?_, fun B hB hB' => h2 B hB fun e' he' => hB' e' (List.mem_cons_of_mem _ he')⟩
      simp only [hv, if_false, List.append_nil]
      rw [h1]
      simp [statusOf, fset, Ne.symm hv]

theorem validLg_lower (P : GParams) (init : Node → St) (tmin : Rat) (lg : List (Rat × GEvent))
    (hv : ValidLg P init tmin lg) : ∀ e ∈ lg, tmin ≤ e.1 := by
  induction lg with
  | nil => intro e he; cases he
  | cons e lg ih =>
    obtain ⟨h1, -, h3, -⟩ := hv
    intro e' he'
    rcases List.mem_cons.1 he' with rfl | he'
    · exact h3
    · exact ih h1 e' he'

theorem transB_mem (lg : List (Rat × GEvent)) (x : Trans) (hx : x ∈ transB lg) :
    ∃ e ∈ lg, ∃ u v, e.2 = GEvent.transmit u v ∧ x = { t := e.1, src := some u, tgt := v } := by
  unfold transB at hx
  rw [List.mem_filterMap] at hx
  obtain ⟨e, he, hx⟩ := hx
  refine ⟨e, List.mem_reverse.1 he, ?_⟩
  obtain ⟨t, ev⟩ := e
  cases ev with
  | recover u => simp [trOf] at hx
  | transmit u v =>
    simp only [trOf, Option.some.injEq] at hx
    exact ⟨u, v, rfl, hx.symm⟩

/-- times of the transmission entries are ordered -/
theorem transB_sorted (P : GParams) (init : Node → St) (tmin : Rat) (lg : List (Rat × GEvent))
    (hv : ValidLg P init tmin lg) : ((transB lg).map (·.t)).Pairwise (· ≤ ·) := by
  induction lg with
  | nil => simp [transB]
  | cons e lg ih =>
    obtain ⟨h1, -, -, h4⟩ := hv
    rw [transB_cons, List.map_append, List.pairwise_append]
    refine ⟨ih h1, ?_, ?_⟩
    · cases trOf e <;> simp
    · intro a ha b hb
      obtain ⟨x, hx, rfl⟩ := List.mem_map.1 ha
      obtain ⟨e', he', u, v, -, rfl⟩ := transB_mem lg x hx
      obtain ⟨t, ev⟩ := e
      cases ev with
      | recover u' => simp [trOf] at hb
      | transmit u' v' =>
        simp [trOf] at hb
        subst hb
        exact h4 e' he'

/-- every recorded transmission went along an edge from a node that was infectious to a node that was
susceptible just before and infected at that time -/
theorem trans_causal (P : GParams) (init : Node → St) (tmin : Rat) (lg : List (Rat × GEvent))
    (hv : ValidLg P init tmin lg) :
    ∀ e ∈ lg, ∀ u v, e.2 = GEvent.transmit u v →
      u ∈ P.nodes ∧ v ∈ P.nodes ∧ v ∈ P.nbrs u ∧ HSC (HH tmin init P.sis lg u) "I" e.1 ∧
        CHG (HH tmin init P.sis lg v) "S" "I" e.1 := by
  induction lg with
  | nil => intro e he; cases he
  | cons e0 lg ih =>
    obtain ⟨h1, h2, h3, h4⟩ := hv
    intro e he u v hev
    rcases List.mem_cons.1 he with rfl | he
    · rw [hev] at h2
      obtain ⟨a1, a2, a3, a4, a5⟩ := h2
      have huv : v ≠ u := by
        rintro rfl; rw [a3] at a5; cases a5
      refine ⟨a1, a2, a4, ?_, ?_⟩
      · rw [HH_cons]
        simp only [hev, evNode, huv, if_false, List.append_nil]
        obtain ⟨t, l1, l2⟩ := HH_last tmin init P.sis lg u
        rw [a3] at l1
        exact HSC_last _ _ _ t l1 (l2 e.1 h3 h4)
      · rw [HH_cons]
        simp only [hev, evNode, evSt, if_true]
        obtain ⟨t, l1, -⟩ := HH_last tmin init P.sis lg v
        rw [a5] at l1
        exact CHG_new _ _ _ _ t l1
    · obtain ⟨a1, a2, a3, a4, a5⟩ := ih h1 e he u v hev
      refine ⟨a1, a2, a3, ?_, ?_⟩
      · rw [HH_cons]
        split
        · exact HSC_append _ _ _ _ a4 (h4 e he)
        · rw [List.append_nil]; exact a4
      · rw [HH_cons]
        split
        · exact CHG_append _ _ _ _ _ a5
        · rw [List.append_nil]; exact a5

/-- the number of `S → I` changes in the history of `v` is the number of transmissions to `v` -/
theorem trans_count (P : GParams) (init : Node → St) (tmin : Rat) (lg : List (Rat × GEvent))
    (hv : ValidLg P init tmin lg) (ok : String → String → Bool) (ok1 : ok "S" "I" = true)
    (ok2 : ∀ a, ok a "S" = false) (ok3 : ∀ a, ok a "R" = false) (v : Node) :
    changeCount (HH tmin init P.sis lg v) ok = ((transB lg).filter fun x => x.tgt == v).length := by
  induction lg with
  | nil => rfl
  | cons e lg ih =>
    obtain ⟨h1, h2, -, -⟩ := hv
    rw [HH_cons, transB_cons, List.filter_append, List.length_append, ← ih h1]
    obtain ⟨t, ev⟩ := e
    obtain ⟨tl, l1, -⟩ := HH_last tmin init P.sis lg v
    cases ev with
    | recover u =>
      simp only [trOf, Option.toList_none, List.filter_nil, List.length_nil, Nat.add_zero]
      by_cases huv : u = v
      · rw [if_pos (show evNode ((t, GEvent.recover u) : Rat × GEvent).2 = v from huv),
          changeCount_append _ _ _ tl _ l1]
        cases P.sis <;> simp [evSt, stName, ok2, ok3]
      · rw [if_neg (show ¬ evNode ((t, GEvent.recover u) : Rat × GEvent).2 = v from huv), List.append_nil]
    | transmit u w =>
      simp only [trOf, Option.toList_some, List.filter_cons, List.filter_nil]
      by_cases hw : w = v
      · subst hw
        obtain ⟨-, -, -, -, a5⟩ := h2
        rw [a5] at l1
        rw [if_pos (show evNode ((t, GEvent.transmit u w) : Rat × GEvent).2 = w from rfl),
          changeCount_append _ _ _ tl _ l1]
        simp [evSt, stName, ok1]
      · rw [if_neg (show ¬ evNode ((t, GEvent.transmit u w) : Rat × GEvent).2 = v from hw), List.append_nil]
        simp [hw]

/-! ### SIR: the transmission list is a forest rooted at the initial nodes -/

/-- targets of the transmission list -/
def TG (infs : List Node) (lg : List (Rat × GEvent)) : List Node := infs ++ (transB lg).map (·.tgt)

theorem transOf_tgt (tmin : Rat) (infs : List Node) (lg : List (Rat × GEvent)) :
    (transOf tmin infs lg).map (·.tgt) = TG infs lg := by
  unfold transOf TG
  rw [List.map_append, List.map_map]
  congr 1
  exact List.map_id' _

theorem reachesRoot_init (tmin : Rat) (infs : List Node) (l : List Trans) (f : Nat) (v : Node) (hv : v ∈ infs) :
    reachesRoot ((infs.map fun u => ({ t := tmin, src := none, tgt := u } : Trans)) ++ l) (f + 1) v = true := by
  unfold reachesRoot
  rw [List.find?_append]
  cases hfind : (infs.map fun u => ({ t := tmin, src := none, tgt := u } : Trans)).find? (fun e => e.tgt == v) with
  | none =>
    rw [List.find?_eq_none] at hfind
    have := hfind { t := tmin, src := none, tgt := v } (List.mem_map.2 ⟨v, hv, rfl⟩)
    simp at this
  | some e =>
    rw [Option.some_or]
    have hmem := List.mem_of_find?_eq_some hfind
    obtain ⟨u, -, rfl⟩ := List.mem_map.1 hmem
    rfl

theorem forest_inv (P : GParams) (infs recs : List Node) (tmin : Rat) (hi : infs.Nodup) (hsis : P.sis = false)
    (lg : List (Rat × GEvent)) (hv : ValidLg P (initStatus infs recs) tmin lg) :
    (TG infs lg).Nodup ∧
    (∀ v, (statusOf P.sis (initStatus infs recs) lg v = St.S → v ∉ TG infs lg) ∧
          (statusOf P.sis (initStatus infs recs) lg v = St.I → v ∈ TG infs lg)) ∧
    ∀ v ∈ TG infs lg, reachesRoot (transOf tmin infs lg) (transOf tmin infs lg).length v = true := by
  induction lg with
  | nil =>
    have e : TG infs [] = infs := by simp [TG, transB]
    rw [e]
    refine ⟨hi, ?_, ?_⟩
    · intro v
      simp only [statusOf, initStatus]
      by_cases h1 : v ∈ recs <;> by_cases h2 : v ∈ infs <;> simp [h1, h2]
    · intro v hv'
      obtain ⟨n, hn⟩ : ∃ n, (transOf tmin infs []).length = n + 1 := by
        refine ⟨(transOf tmin infs []).length - 1, ?_⟩
        have : 0 < infs.length := List.length_pos_of_mem hv'
        simp only [transOf, List.length_append, List.length_map]
        omega
      rw [hn]
      exact reachesRoot_init tmin infs _ n v hv'
  | cons e lg ih =>
    obtain ⟨h1, h2, -, -⟩ := hv
    obtain ⟨i1, i2, i3⟩ := ih h1
    obtain ⟨t, ev⟩ := e
    cases ev with
    | recover u =>
      have e1 : TG infs ((t, GEvent.recover u) :: lg) = TG infs lg := by
        simp [TG, transB_cons, trOf]
      have e2 : transOf tmin infs ((t, GEvent.recover u) :: lg) = transOf tmin infs lg := by
        simp [transOf, transB_cons, trOf]
      rw [e1, e2]
      refine ⟨i1, ?_, i3⟩
      intro v
      simp only [statusOf, evNode, evSt, hsis, Bool.false_eq_true, if_false]
      by_cases hvu : v = u
      · subst hvu; simp [fset]
      · rw [fset_ne _ _ _ _ hvu]
        have := i2 v
        rw [hsis] at this
        exact this
    | transmit u w =>
      obtain ⟨-, -, a3, -, a5⟩ := h2
      have e1 : TG infs ((t, GEvent.transmit u w) :: lg) = TG infs lg ++ [w] := by
        simp [TG, transB_cons, trOf]
      have e2 : transOf tmin infs ((t, GEvent.transmit u w) :: lg) =
          transOf tmin infs lg ++ [{ t := t, src := some u, tgt := w }] := by
        simp [transOf, transB_cons, trOf]
      have hw : w ∉ TG infs lg := (i2 w).1 a5
      have hu : u ∈ TG infs lg := (i2 u).2 a3
      rw [e1, e2]
      refine ⟨?_, ?_, ?_⟩
      · rw [List.nodup_append]
        refine ⟨i1, List.nodup_singleton _, ?_⟩
        intro a ha b hb
        rw [List.mem_singleton] at hb
        subst hb
        rintro rfl
        exact hw ha
      · intro v
        simp only [statusOf, evNode, evSt]
        by_cases hvw : v = w
        · subst hvw; simp [fset]
        · rw [fset_ne _ _ _ _ hvw]
          have := i2 v
          simp only [List.mem_append, List.mem_singleton, hvw, or_false]
          exact this
      · intro v hv'
        rw [List.length_append, List.length_singleton]
        rcases List.mem_append.1 hv' with hv' | hv'
        · exact reachesRoot_fuel_mono _ _ _ _ (reachesRoot_append _ _ _ _ (i3 v hv')) (by omega)
        · rw [List.mem_singleton] at hv'
          subst hv'
          unfold reachesRoot
          have hnone : (transOf tmin infs lg).find? (fun e => e.tgt == v) = none := by
            rw [List.find?_eq_none]
            intro x hx hc
            apply hw
            rw [← transOf_tgt tmin]
            exact List.mem_map.2 ⟨x, hx, by simpa using hc⟩
          rw [List.find?_append, hnone]
          simp only [Option.none_or, List.find?_cons, beq_self_eq_true]
          exact reachesRoot_append _ _ _ _ (i3 u hu)

/-! ### assembling `transmissionsValid` -/

theorem hist_getD (P : GParams) (infs recs : List Node) (tmin : Rat) (lg : List (Rat × GEvent))
    (hrange : P.nodes = List.range P.nodes.length) (v : Node) (hv : v < P.nodes.length) :
    (histories tmin (initName infs recs) (logOf P.sis lg) P.nodes).getD v [] =
      HH tmin (initStatus infs recs) P.sis lg v := by
  have hget : P.nodes[v]? = some v := by
    have : P.nodes[v]? = (List.range P.nodes.length)[v]? := congrArg (fun l => l[v]?) hrange
    rw [this, List.getElem?_range hv]
  unfold histories
  rw [List.getD_eq_getElem?_getD, List.getElem?_map, hget]
  rfl

theorem mem_nodes_lt (P : GParams) (hrange : P.nodes = List.range P.nodes.length) (v : Node) (hv : v ∈ P.nodes) :
    v < P.nodes.length := by
  rw [hrange] at hv
  exact List.mem_range.1 hv

theorem tv_sorted (P : GParams) (init : Node → St) (infs : List Node) (tmin : Rat) (lg : List (Rat × GEvent))
    (hv : ValidLg P init tmin lg) :
    nondecreasing ((transOf tmin infs lg).map (·.t)) = true := by
  apply nondecreasing_of_pairwise
  unfold transOf
  rw [List.map_append, List.pairwise_append]
  refine ⟨?_, transB_sorted P init tmin lg hv, ?_⟩
  · rw [List.map_map]
    induction infs with
    | nil => simp
    | cons a t ih =>
      rw [List.map_cons, List.pairwise_cons]
      refine ⟨?_, ih⟩
      intro b hb
      obtain ⟨u, -, rfl⟩ := List.mem_map.1 hb
      exact le_refl _
  · intro a ha b hb
    rw [List.map_map] at ha
    obtain ⟨u, -, rfl⟩ := List.mem_map.1 ha
    obtain ⟨x, hx, rfl⟩ := List.mem_map.1 hb
    obtain ⟨e, he, u', v', -, rfl⟩ := transB_mem lg x hx
    exact validLg_lower P init tmin lg hv e he

theorem tv_causal (P : GParams) (infs recs : List Node) (tmin : Rat) (lg : List (Rat × GEvent))
    (hrange : P.nodes = List.range P.nodes.length)
    (hv : ValidLg P (initStatus infs recs) tmin lg) (spec : TVSpec) (hind : spec.induced = [("I", "S", "I")]) :
    ∀ x ∈ transOf tmin infs lg,
      (match x.src with
        | some u =>
          (P.nbrs u).contains x.tgt &&
            spec.induced.any fun x_1 =>
              hasStatusClosed ((histories tmin (initName infs recs) (logOf P.sis lg) P.nodes).getD u []) x_1.1 x.t &&
                changesAt ((histories tmin (initName infs recs) (logOf P.sis lg) P.nodes).getD x.tgt [])
                  x_1.2.1 x_1.2.2 (x.t + 0)
        | none => infs.contains x.tgt && x.t + 0 == tmin) = true := by
  intro x hx
  unfold transOf at hx
  rcases List.mem_append.1 hx with hx | hx
  · obtain ⟨u, hu, rfl⟩ := List.mem_map.1 hx
    simp [hu]
  · obtain ⟨e, he, u, v, hev, rfl⟩ := transB_mem lg x hx
    obtain ⟨a1, a2, a3, a4, a5⟩ := trans_causal P (initStatus infs recs) tmin lg hv e he u v hev
    rw [hind]
    simp only [List.any_cons, List.any_nil, Bool.or_false, Bool.and_eq_true, add_zero]
    rw [hist_getD P infs recs tmin lg hrange u (mem_nodes_lt P hrange u a1),
      hist_getD P infs recs tmin lg hrange v (mem_nodes_lt P hrange v a2)]
    exact ⟨by simpa using a3, hasStatusClosed_of _ _ _ a4, changesAt_of _ _ _ _ a5⟩

theorem filter_length_count {α : Type} (l : List α) (f : α → Node) (i : Node) :
    (l.filter fun e => f e == i).length = (l.map f).count i := by
  induction l with
  | nil => rfl
  | cons a t ih =>
    rw [List.filter_cons, List.map_cons, List.count_cons]
    by_cases h : f a = i <;> simp [h, ih]

theorem tv_counts (P : GParams) (infs recs : List Node) (tmin : Rat) (lg : List (Rat × GEvent))
    (hrange : P.nodes = List.range P.nodes.length) (hi : infs.Nodup)
    (hv : ValidLg P (initStatus infs recs) tmin lg) (spec : TVSpec) (hind : spec.induced = [("I", "S", "I")])
    (hsp : ∃ r, spec.spont = [("I", r)]) :
    ∀ i < P.nodes.length,
      (changeCount ((histories tmin (initName infs recs) (logOf P.sis lg) P.nodes).getD i []) fun b c =>
            (spec.induced.any fun x => b == x.2.1 && c == x.2.2) && !spec.spont.contains (b, c)) ≤
          (List.filter (fun e => e.tgt == i && e.src.isSome) (transOf tmin infs lg)).length ∧
        ((List.filter (fun e => e.tgt == i && e.src.isSome) (transOf tmin infs lg)).length ≤
            changeCount ((histories tmin (initName infs recs) (logOf P.sis lg) P.nodes).getD i []) fun b c =>
              spec.induced.any fun x => b == x.2.1 && c == x.2.2) ∧
          ((List.filter (fun e => e.tgt == i && e.src.isNone) (transOf tmin infs lg)).length ==
              if infs.contains i = true then 1 else 0) = true := by
  intro i hiN
  obtain ⟨r, hr⟩ := hsp
  rw [hist_getD P infs recs tmin lg hrange i hiN, hind, hr]
  have hB : ∀ x ∈ transB lg, x.src.isSome = true := by
    intro x hx
    obtain ⟨e, -, u, v, -, rfl⟩ := transB_mem lg x hx
    rfl
  have k1 : (List.filter (fun e => e.tgt == i && e.src.isSome) (transOf tmin infs lg)).length =
      ((transB lg).filter fun x => x.tgt == i).length := by
    unfold transOf
    rw [List.filter_append, List.length_append]
    have e1 : (List.filter (fun e => e.tgt == i && e.src.isSome)
        (infs.map fun u => ({ t := tmin, src := none, tgt := u } : Trans))) = [] := by
      rw [List.filter_eq_nil_iff]
      intro x hx
      obtain ⟨u, -, rfl⟩ := List.mem_map.1 hx
      simp
    rw [e1, List.length_nil, Nat.zero_add]
    congr 1
    apply List.filter_congr
    intro x hx
    rw [hB x hx, Bool.and_true]
  have k2 : (List.filter (fun e => e.tgt == i && e.src.isNone) (transOf tmin infs lg)).length =
      if i ∈ infs then 1 else 0 := by
    unfold transOf
    rw [List.filter_append, List.length_append]
    have e1 : (List.filter (fun e => e.tgt == i && e.src.isNone) (transB lg)) = [] := by
      rw [List.filter_eq_nil_iff]
      intro x hx
      have := hB x hx
      cases hs : x.src with
      | none => rw [hs] at this; cases this
      | some u => simp
    rw [e1, List.length_nil, Nat.add_zero]
    have e2 : (List.filter (fun e => e.tgt == i && e.src.isNone)
        (infs.map fun u => ({ t := tmin, src := none, tgt := u } : Trans))) =
        (List.filter (fun e => e.tgt == i)
        (infs.map fun u => ({ t := tmin, src := none, tgt := u } : Trans))) := by
      apply List.filter_congr
      intro x hx
      obtain ⟨u, -, rfl⟩ := List.mem_map.1 hx
      simp
    rw [e2, filter_length_count, List.map_map]
    have e3 : ((fun x : Trans => x.tgt) ∘ fun u => ({ t := tmin, src := none, tgt := u } : Trans)) = id := rfl
    rw [e3, List.map_id, hi.count]
  rw [k1, k2]
  have c1 := trans_count P (initStatus infs recs) tmin lg hv
    (fun b c => ([("I", "S", "I")].any fun x => b == x.2.1 && c == x.2.2) && ![("I", r)].contains (b, c))
    (by simp) (by intro a; simp) (by intro a; simp) i
  have c2 := trans_count P (initStatus infs recs) tmin lg hv
    (fun b c => ([("I", "S", "I")].any fun x => b == x.2.1 && c == x.2.2))
    (by simp) (by intro a; simp) (by intro a; simp) i
  rw [c1, c2]
  refine ⟨le_refl _, le_refl _, ?_⟩
  by_cases hm : i ∈ infs <;> simp [hm]

theorem tv_forest (P : GParams) (infs recs : List Node) (tmin : Rat) (lg : List (Rat × GEvent))
    (hi : infs.Nodup) (him : ∀ u ∈ infs, u ∈ P.nodes) (hsis : P.sis = false)
    (hv : ValidLg P (initStatus infs recs) tmin lg) :
    (∀ i < P.nodes.length, (List.filter (fun e => e.tgt == i) (transOf tmin infs lg)).length ≤ 1) ∧
    ∀ x ∈ transOf tmin infs lg, reachesRoot (transOf tmin infs lg) (P.nodes.length + 1) x.tgt = true := by
  obtain ⟨f1, -, f3⟩ := forest_inv P infs recs tmin hi hsis lg hv
  constructor
  · intro i _
    rw [filter_length_count, transOf_tgt]
    exact List.nodup_iff_count_le_one.1 f1 i
  · intro x hx
    have hmem : x.tgt ∈ TG infs lg := by
      rw [← transOf_tgt tmin]; exact List.mem_map.2 ⟨x, hx, rfl⟩
    refine reachesRoot_fuel_mono _ _ _ _ (f3 x.tgt hmem) ?_
    have hlen : (transOf tmin infs lg).length = (TG infs lg).length := by
      rw [← transOf_tgt tmin, List.length_map]
    have hsub : TG infs lg ⊆ P.nodes := by
      intro v hvm
      unfold TG at hvm
      rcases List.mem_append.1 hvm with hvm | hvm
      · exact him v hvm
      · obtain ⟨y, hy, rfl⟩ := List.mem_map.1 hvm
        obtain ⟨e, he, u, w, hev, rfl⟩ := transB_mem lg y hy
        exact (trans_causal P (initStatus infs recs) tmin lg hv e he u w hev).2.1
    have := (List.subperm_of_subset f1 hsub).length_le
    omega

/-- **C09 for valid logs** -/
theorem tv_of_valid (P : GParams) (infs recs : List Node) (tmin : Rat) (lg : List (Rat × GEvent))
    (hi : infs.Nodup) (him : ∀ u ∈ infs, u ∈ P.nodes) (hrange : P.nodes = List.range P.nodes.length)
    (hv : ValidLg P (initStatus infs recs) tmin lg) :
    transmissionsValid (if P.sis then sisSpec else sirSpec) (!P.sis) 0 P.nodes.length P.nbrs tmin infs
      (histories tmin (initName infs recs) (logOf P.sis lg) P.nodes) (transOf tmin infs lg) = true := by
  rcases Bool.eq_false_or_eq_true P.sis with hsis | hsis
  · have e1 : (if P.sis then sisSpec else sirSpec) = sisSpec := by rw [hsis]; rfl
    have e2 : (!P.sis) = false := by rw [hsis]; rfl
    rw [e1, e2]
    simp only [transmissionsValid, Bool.and_eq_true, and_assoc, allIdx_iff, Bool.not_false, Bool.true_or,
      List.all_eq_true, decide_eq_true_eq, and_true]
    exact ⟨tv_sorted P _ infs tmin lg hv, tv_causal P infs recs tmin lg hrange hv sisSpec rfl,
      tv_counts P infs recs tmin lg hrange hi hv sisSpec rfl ⟨"S", rfl⟩⟩
  · have e1 : (if P.sis then sisSpec else sirSpec) = sirSpec := by rw [hsis]; rfl
    have e2 : (!P.sis) = true := by rw [hsis]; rfl
    rw [e1, e2]
    simp only [transmissionsValid, Bool.and_eq_true, and_assoc, allIdx_iff, Bool.not_true, Bool.false_or,
      List.all_eq_true, decide_eq_true_eq]
    obtain ⟨g1, g2⟩ := tv_forest P infs recs tmin lg hi him hsis hv
    exact ⟨tv_sorted P _ infs tmin lg hv, tv_causal P infs recs tmin lg hrange hv sirSpec rfl,
      tv_counts P infs recs tmin lg hrange hi hv sirSpec rfl ⟨"R", rfl⟩, g1, g2⟩

theorem tv_run (P : GParams) (h : WF P) (infs recs : List Node) (tmin : Rat) (tmax : ERat) (fuel cfuel : Nat)
    (hi : infs.Nodup) (him : ∀ u ∈ infs, u ∈ P.nodes)
    (hdis : ∀ u ∈ infs, u ∉ recs) (hsis : P.sis = true → recs = [])
    (hrange : P.nodes = List.range P.nodes.length)
    (ts ts' : TapeSt) (hts : TapeNonneg ts) (s' : GState)
    (hrun : run P infs recs tmin tmax fuel cfuel ts = .ok (s', ts')) :
    transmissionsValid (if P.sis then sisSpec else sirSpec) (!P.sis) 0 P.nodes.length P.nbrs tmin infs
      (histories tmin (initName infs recs) (gLog P s') P.nodes) (gTrans tmin infs s') = true := by
  have hL := logInv_run P h infs recs tmin tmax fuel cfuel hi him hdis hsis ts ts' hts s' hrun
  rw [gLog_eq, gTrans_eq]
  exact tv_of_valid P infs recs tmin s'.log hi him hrange hL.valid

end Gillespie
