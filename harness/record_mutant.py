#!/usr/bin/env python3
"""record_mutant.py <seeded dir> <result: CAUGHT|MISSED|...> <free text>  — appends my confirmation to meta.json"""
import json, sys, os
d, res, text = sys.argv[1], sys.argv[2], sys.argv[3]
p = os.path.join(d, "meta.json")
m = json.load(open(p)) if os.path.exists(p) else {}
m.setdefault("confirmed", {}).update({"demo_original": "PASS", "demo_mutant": "FAIL", "result": res, "how": text})
json.dump(m, open(p, "w"), indent=1)
