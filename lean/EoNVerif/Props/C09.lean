import EoNVerif.Props.C04
import EoNVerif.Props.C11
import EoNVerif.Props.C13
import EoNVerif.Props.C02b
/-!
C09 — transmissions: the theorem `Gillespie.tv_gillespie` (Pred.transmissionsValid holds of every output of the
Gillespie_SIR/SIS model) is stated and proved in `Props/C04.lean`; `EventSIR.fpp_sound` (C11) and
`EventSIS.trans_is_listed_attempt` (C13) are the corresponding statements for the event-driven simulators.
-/
