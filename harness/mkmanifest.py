#!/usr/bin/env python3
"""(Re)generates /verif/MANIFEST.json from the table below; run after adding a property check."""
import json, os
V = os.path.dirname(os.path.dirname(os.path.abspath(__file__)))
PY = "/venv/bin/python"
CHECKS = json.load(open(os.path.join(V, "harness", "checks.json")))
props = [json.loads(l) for l in open(os.path.join(V, "properties.jsonl"))]
checks, na = [], []
for p in props:
    pid = p["id"]
    c = CHECKS.get(pid)
    if c is None or c.get("not_applicable"):
        na.append(dict(property_id=pid, reason=(c or {}).get("not_applicable", "check not built yet (work in progress); see DESIGN.md")))
        continue
    checks.append(dict(
        property_id=pid,
        quick_cmd="%s harness/check.py %s --tier quick" % (PY, pid),
        thorough_cmd="%s harness/check.py %s --tier thorough" % (PY, pid),
        evidence_file="evidence/%s.json" % pid,
        replay_cmd_template="%s harness/check.py %s --replay {path}" % (PY, pid),
        engine="lean-proof+correspondence",
        level_claimed=dict(category="proof", text=c["text"], design_ref=c.get("design_ref", "DESIGN.md §4 " + pid)),
        level_note=c["note"],
        technique=c.get("technique", "Lean 4 theorems about a hand-written model + model/implementation correspondence check"),
    ))
EXTRA_MODULES = sorted({e["module"] for l in json.load(open(os.path.join(os.path.dirname(os.path.abspath(__file__)), "theorems_extra.json"))).values() for e in l})
m = dict(
    version=1,
    setup_cmd="/venv/bin/python harness/py2lean.py; /venv/bin/python harness/py2lean_loops.py; /venv/bin/python harness/pyclass2lean.py; /venv/bin/python harness/pyfunc2lean.py; /venv/bin/python harness/pyevent2lean.py; /venv/bin/python harness/pyinit2lean.py; /venv/bin/python harness/pyinvest2lean.py; /venv/bin/python harness/pysimple2lean.py; /venv/bin/python harness/pydisc2lean.py; /venv/bin/python harness/pyperc2lean.py; /venv/bin/python harness/pyargs2lean.py; /venv/bin/python harness/pyfsir2lean.py; /venv/bin/python harness/pyglue2lean.py; /venv/bin/python harness/pyhelp2lean.py; /venv/bin/python harness/pymat2lean.py; /venv/bin/python harness/pywrap2lean.py; /venv/bin/python harness/pyglue3lean.py; /venv/bin/python harness/pypm2lean.py; /venv/bin/python harness/pysi2lean.py; cd lean && lake build EoNVerif driver && lake build EoNVerif.Props EoNVerif.Props.C01c EoNVerif.Props.C01d && (lake build EoNVerif.Props.Gen EoNVerif.Props.GenLoops EoNVerif.Props.GenLoops2 EoNVerif.Props.C16b drivergen drivergill drivercc driveres driverfs driverns driverinit driverinv driversc driverdisc driverperc driverargs driverfsir driverglue driverhelp driverwrap driverglue2 driverpm driversi || true); for m in " + " ".join(EXTRA_MODULES) + "; do lake build $m || true; done",
    hooks=dict(guard="EON_VERIF", enable="no hooks: the harness substitutes module attributes of EoN.simulation / EoN.analytic at run time",
               baseline_off_cmd="cd /repo && /venv/bin/python -m pytest -ra -q -p no:cacheprovider --timeout=900 --continue-on-collection-errors",
               source_commits=[], add_only=True),
    engines=[dict(name="lean-proof+correspondence", path="lean/ + harness/", serves_properties=[c["property_id"] for c in checks],
                  kind_free_text="Lean 4 model + theorems (lake project lean/), compiled JSON-lines model driver, Python correspondence harness running the real EoN code in-process")],
    checks=checks,
    notes="Exit codes: 0 held, 1 violation (VIOLATION line), 2 harness error/timeouts. known_findings.json lists recorded defects.",
    not_applicable=na,
)
json.dump(m, open(os.path.join(V, "MANIFEST.json"), "w"), indent=1)
print("checks:", [c["property_id"] for c in checks], "na:", len(na))
