import EoNVerif.Model.EventSIS
