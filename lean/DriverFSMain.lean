import DriverFS
partial def loopFS (h : IO.FS.Stream) (out : IO.FS.Stream) : IO Unit := do
  let line ← h.getLine
  if line.isEmpty then return ()
  out.putStrLn (DrvGenFS.handle line)
  loopFS h out
def main : IO Unit := do loopFS (← IO.getStdin) (← IO.getStdout)
