import EoNVerif.Model.ReedFrost
import EoNVerif.Proofs.Discrete
import Mathlib.Tactic.Ring
import Mathlib.Tactic.Linarith
import Mathlib.Algebra.Order.Field.Rat
/-!
Helper lemmas for C12b: the joint Reed–Frost law of one generation of the discrete-time simulators
(`ReedFrost.stepDist`, the sequential-draw model of the double loop of `discrete_SIR` / `basic_discrete_SIS`).
-/

/-! ### products of rationals -/

@[simp] theorem prodRat_nil : prodRat [] = 1 := rfl
@[simp] theorem prodRat_cons (a : Rat) (l : List Rat) : prodRat (a :: l) = a * prodRat l := rfl

theorem prodRat_append (l m : List Rat) : prodRat (l ++ m) = prodRat l * prodRat m := by
  induction l with
  | nil => simp
  | cons a t ih => simp [ih]; ring

theorem prodRat_map_congr {γ : Type} (l : List γ) (f g : γ → Rat) (h : ∀ c ∈ l, f c = g c) :
    prodRat (l.map f) = prodRat (l.map g) := by
  induction l with
  | nil => rfl
  | cons a t ih =>
    simp only [List.map_cons, prodRat_cons]
    rw [h a (by simp), ih (fun c hc => h c (by simp [hc]))]

theorem prodRat_perm {l m : List Rat} (h : l.Perm m) : prodRat l = prodRat m := by
  induction h with
  | nil => rfl
  | cons a _ ih => simp [ih]
  | swap a b l => simp; ring
  | trans _ _ ih1 ih2 => exact ih1.trans ih2

theorem prodRat_map_mul {γ : Type} (l : List γ) (f g : γ → Rat) :
    prodRat (l.map fun c => f c * g c) = prodRat (l.map f) * prodRat (l.map g) := by
  induction l with
  | nil => simp
  | cons a t ih => simp [ih]; ring

/-- a product of 0/1 indicators is the indicator of the conjunction -/
theorem prodRat_indicator {γ : Type} (l : List γ) (P : γ → Bool) :
    prodRat (l.map fun c => if P c then (1 : Rat) else 0) = if l.all P then 1 else 0 := by
  induction l with
  | nil => simp
  | cons a t ih =>
    simp only [List.map_cons, prodRat_cons, ih, List.all_cons]
    by_cases h : P a = true <;> simp [h]

theorem prodRat_nonneg {γ : Type} (l : List γ) (f : γ → Rat) (h : ∀ c ∈ l, 0 ≤ f c) :
    0 ≤ prodRat (l.map f) := by
  induction l with
  | nil => simp
  | cons a t ih =>
    simp only [List.map_cons, prodRat_cons]
    exact mul_nonneg (h a (by simp)) (ih (fun c hc => h c (by simp [hc])))

/-- if `h` differs from `f` and `g` only at one point `c` of a duplicate-free list, and is the affine combination
`a f + b g` there (`a + b = 1`), then the product of `h` is the same affine combination of the products -/
theorem prodRat_affine {γ : Type} [DecidableEq γ] (l : List γ) (hn : l.Nodup) (c : γ) (a b : Rat) (f g h : γ → Rat)
    (hf : ∀ v ∈ l, v ≠ c → f v = h v) (hg : ∀ v ∈ l, v ≠ c → g v = h v)
    (hc : h c = a * f c + b * g c) (hab : a + b = 1) :
    prodRat (l.map h) = a * prodRat (l.map f) + b * prodRat (l.map g) := by
  induction l with
  | nil => simp [hab]
  | cons x xs ih =>
    have hx : x ∉ xs := (List.nodup_cons.mp hn).1
    have hxs : xs.Nodup := (List.nodup_cons.mp hn).2
    simp only [List.map_cons, prodRat_cons]
    by_cases hxc : x = c
    · subst hxc
      have e1 : prodRat (xs.map f) = prodRat (xs.map h) :=
        prodRat_map_congr xs f h fun v hv => hf v (by simp [hv]) (fun e => hx (e ▸ hv))
      have e2 : prodRat (xs.map g) = prodRat (xs.map h) :=
        prodRat_map_congr xs g h fun v hv => hg v (by simp [hv]) (fun e => hx (e ▸ hv))
      rw [e1, e2, hc]; ring
    · rw [ih hxs (fun v hv => hf v (by simp [hv])) (fun v hv => hg v (by simp [hv])),
        hf x (by simp) hxc, hg x (by simp) hxc]
      ring

/-! ### generic facts on `Dist.bind` -/
namespace Dist
variable {α β γ : Type}

theorem bind_cons (a : α) (p : Rat) (xs : Dist α) (f : α → Dist β) :
    Dist.bind ((a, p) :: xs) f = ((f a).map fun (b, q) => (b, p * q)) ++ Dist.bind xs f := by
  simp [Dist.bind]

theorem bind_append (d e : Dist α) (f : α → Dist β) :
    Dist.bind (d ++ e) f = Dist.bind d f ++ Dist.bind e f := by
  simp [Dist.bind]

theorem mass_pure_bind (a : α) (f : α → Dist β) (P : β → Bool) :
    mass (Dist.bind (Dist.pure a) f) P = mass (f a) P := by
  rw [mass_bind]; simp [Dist.pure]

theorem mass_bind_scale (d : Dist α) (p : Rat) (g : α → Dist β) (P : β → Bool) :
    mass (Dist.bind (d.map fun (b, q) => (b, p * q)) g) P = p * mass (Dist.bind d g) P := by
  induction d with
  | nil => simp [Dist.bind, mass]
  | cons x xs ih =>
    obtain ⟨b, q⟩ := x
    simp only [List.map_cons]
    rw [bind_cons, bind_cons, mass_append, mass_append, ih, mass_scale, mass_scale]
    ring

/-- associativity of `bind`, at the level of masses -/
theorem mass_bind_assoc (d : Dist α) (f : α → Dist β) (g : β → Dist γ) (P : γ → Bool) :
    mass (Dist.bind (Dist.bind d f) g) P = mass (Dist.bind d fun a => Dist.bind (f a) g) P := by
  induction d with
  | nil => simp [Dist.bind]
  | cons x xs ih =>
    obtain ⟨a, p⟩ := x
    rw [bind_cons, bind_cons, bind_append, mass_append, mass_append, ih, mass_bind_scale, mass_scale]

/-- congruence of `bind` in the continuation, at the level of masses -/
theorem mass_bind_congr (d : Dist α) (f g : α → Dist β) (P Q : β → Bool)
    (h : ∀ a, mass (f a) P = mass (g a) Q) :
    mass (Dist.bind d f) P = mass (Dist.bind d g) Q := by
  rw [mass_bind, mass_bind]
  apply sumRat_map_congr
  intro c _
  obtain ⟨a, p⟩ := c
  simp only
  rw [h a]

end Dist

namespace ReedFrost
open Dist

/-! ### one contact -/

/-- effect of one contact followed by a continuation: only a contact with a currently susceptible node branches -/
theorem mass_contact_bind {β : Type} (p : Rat) (redraw : Bool) (sus : Node → Bool) (v : Node) (new : List Node)
    (f : List Node → Dist β) (Q : β → Bool) :
    mass (Dist.bind (contact p redraw sus v new) f) Q =
      if sus v && !new.contains v then p * mass (f (new ++ [v])) Q + (1 - p) * mass (f new) Q
      else mass (f new) Q := by
  unfold contact
  by_cases h1 : (sus v && !new.contains v) = true
  · rw [if_pos h1, if_pos h1, mass_bind_assoc, mass_bern_bind, mass_pure_bind, mass_pure_bind]
    simp
  · rw [if_neg h1, if_neg h1]
    by_cases h2 : (redraw && sus v) = true
    · rw [if_pos h2, mass_bind_assoc, mass_bern_bind, mass_pure_bind]
      ring
    · rw [if_neg h2, mass_pure_bind]

/-! ### the generalised (state-dependent) product formula -/

/-- factor of node `v` when the nodes in `new` have already been infected and the contacts `cs` remain -/
def G (p : Rat) (sus A : Node → Bool) (new cs : List Node) (v : Node) : Rat :=
  if new.contains v then (if A v then 1 else 0) else factor p sus A (fun w => cs.count w) v

theorem G_nil_left (p : Rat) (sus A : Node → Bool) (cs : List Node) (v : Node) :
    G p sus A [] cs v = factor p sus A (fun w => cs.count w) v := by
  simp [G]

theorem G_nil_right (p : Rat) (sus A : Node → Bool) (new : List Node) (v : Node) :
    G p sus A new [] v = if new.contains v == A v then 1 else 0 := by
  unfold G factor
  cases new.contains v <;> cases A v <;> cases sus v <;> simp

/-- a contact with another node does not change the factor of `v` -/
theorem G_cons_ne (p : Rat) (sus A : Node → Bool) (new cs : List Node) (c v : Node) (h : v ≠ c) :
    G p sus A new (c :: cs) v = G p sus A new cs v := by
  unfold G factor
  have : (c :: cs).count v = cs.count v := by
    rw [List.count_cons]; simp [Ne.symm h]
  simp only [this]

theorem G_snoc_ne (p : Rat) (sus A : Node → Bool) (new cs : List Node) (c v : Node) (h : v ≠ c) :
    G p sus A (new ++ [c]) cs v = G p sus A new cs v := by
  unfold G
  have : (new ++ [c]).contains v = new.contains v := by
    simp [List.contains_eq_mem, h]
  rw [this]

/-- the event `agrees` has mass the product of the state-dependent factors: the loop invariant of the inner loop -/
theorem mass_inner (p : Rat) (redraw : Bool) (sus A : Node → Bool) (nodes : List Node) (hn : nodes.Nodup) :
    ∀ (cs new : List Node),
      mass (inner p redraw sus cs new) (agrees nodes A) = prodRat (nodes.map (G p sus A new cs)) := by
  intro cs
  induction cs with
  | nil =>
    intro new
    rw [show inner p redraw sus [] new = Dist.pure new from rfl, mass_pure,
      show agrees nodes A new = nodes.all (fun v => new.contains v == A v) from rfl, ← prodRat_indicator]
    exact prodRat_map_congr _ _ _ fun v _ => (G_nil_right p sus A new v).symm
  | cons c cs ih =>
    intro new
    simp only [inner]
    rw [mass_contact_bind]
    by_cases h1 : (sus c && !new.contains c) = true
    · rw [if_pos h1, ih, ih]
      symm
      apply prodRat_affine nodes hn c p (1 - p)
      · intro v _ hvc
        rw [G_snoc_ne p sus A new cs c v hvc, G_cons_ne p sus A new cs c v hvc]
      · intro v _ hvc
        rw [G_cons_ne p sus A new cs c v hvc]
      · simp only [Bool.and_eq_true, Bool.not_eq_true'] at h1
        obtain ⟨hs, hc⟩ := h1
        have hc' : (new ++ [c]).contains c = true := by simp
        unfold G factor
        rw [hc, hc']
        simp only [hs, if_true, Bool.false_eq_true, if_false, List.count_cons_self]
        cases hA : A c
        · simp only [Bool.false_eq_true, if_false]; ring
        · simp only [if_true]; ring
      · ring
    · rw [if_neg h1, ih]
      apply prodRat_map_congr
      intro v _
      by_cases hvc : v = c
      · subst hvc
        unfold G
        by_cases hc : new.contains v = true
        · simp only [hc, if_true]
        · unfold factor
          have hs : sus v = false := by
            cases hsv : sus v
            · rfl
            · exfalso; apply h1; simp [hsv]; simpa using hc
          simp [hs]
      · exact (G_cons_ne p sus A new cs c v hvc).symm

/-! ### the double loop is the single loop over the flattened contact list -/

theorem mass_inner_append (p : Rat) (redraw : Bool) (sus : Node → Bool) (Q : List Node → Bool) (l2 : List Node) :
    ∀ (l1 new : List Node),
      mass (inner p redraw sus (l1 ++ l2) new) Q
        = mass (Dist.bind (inner p redraw sus l1 new) fun n => inner p redraw sus l2 n) Q := by
  intro l1
  induction l1 with
  | nil =>
    intro new
    rw [show inner p redraw sus [] new = Dist.pure new from rfl, mass_pure_bind]
    rfl
  | cons v l1 ih =>
    intro new
    rw [show inner p redraw sus (v :: l1 ++ l2) new
          = Dist.bind (contact p redraw sus v new) (fun n' => inner p redraw sus (l1 ++ l2) n') from rfl,
      show inner p redraw sus (v :: l1) new
          = Dist.bind (contact p redraw sus v new) (fun n' => inner p redraw sus l1 n') from rfl,
      mass_bind_assoc]
    exact mass_bind_congr _ _ _ _ _ fun a => ih a

theorem mass_outer (p : Rat) (redraw : Bool) (nbrs : Node → List Node) (sus : Node → Bool) (Q : List Node → Bool) :
    ∀ (us new : List Node),
      mass (outer p redraw nbrs sus us new) Q = mass (inner p redraw sus (us.flatMap nbrs) new) Q := by
  intro us
  induction us with
  | nil => intro new; rfl
  | cons u us ih =>
    intro new
    rw [show outer p redraw nbrs sus (u :: us) new
          = Dist.bind (inner p redraw sus (nbrs u) new) (fun n' => outer p redraw nbrs sus us n') from rfl,
      List.flatMap_cons, mass_inner_append]
    exact mass_bind_congr _ _ _ _ _ fun a => ih a

/-! ### the joint law -/

theorem stepDist_joint' (p : Rat) (nbrs : Node → List Node) (infecteds : List Node) (sus : Node → Bool)
    (redraw : Bool) (nodes : List Node) (hn : nodes.Nodup) (A : Node → Bool) :
    mass (stepDist p nbrs infecteds sus redraw) (agrees nodes A)
      = prodRat (nodes.map (factor p sus A (contacts nbrs infecteds))) := by
  unfold stepDist
  rw [mass_outer, mass_inner p redraw sus A nodes hn]
  exact prodRat_map_congr _ _ _ fun v _ => G_nil_left p sus A _ v

/-- with duplicate-free neighbour lists the number of contacts `· → v` is the number of infectious neighbours -/
theorem contacts_eq_infNbrs (nodes : List Node) (nbrs : Node → List Node) (infecteds : List Node)
    (hnb : ∀ u ∈ infecteds, (nbrs u).Nodup) (v : Node) :
    contacts nbrs infecteds v = Discrete.infNbrs nodes nbrs infecteds v := by
  unfold contacts Discrete.infNbrs
  induction infecteds with
  | nil => rfl
  | cons u us ih =>
    rw [List.flatMap_cons, List.count_append, ih (fun w hw => hnb w (by simp [hw])), List.filter_cons]
    have hu := hnb u (by simp)
    by_cases hv : v ∈ nbrs u
    · have : (nbrs u).contains v = true := by simpa using hv
      rw [if_pos this, List.length_cons, hu.count, if_pos hv]; omega
    · have : ¬ ((nbrs u).contains v = true) := by simpa using hv
      rw [if_neg this, hu.count, if_neg hv]; omega

/-! ### corollaries -/

theorem stepDist_total' (p : Rat) (nbrs : Node → List Node) (infecteds : List Node) (sus : Node → Bool)
    (redraw : Bool) : mass (stepDist p nbrs infecteds sus redraw) (fun _ => true) = 1 := by
  have h := stepDist_joint' p nbrs infecteds sus redraw [] List.nodup_nil (fun _ => true)
  rw [show agrees [] (fun _ => true) = (fun _ : List Node => true) from by funext new; simp [agrees]] at h
  exact h

/-- single-node events -/
theorem stepDist_single' (p : Rat) (nbrs : Node → List Node) (infecteds : List Node) (sus : Node → Bool)
    (redraw : Bool) (A : Node → Bool) (v : Node) :
    mass (stepDist p nbrs infecteds sus redraw) (fun new => new.contains v == A v)
      = factor p sus A (contacts nbrs infecteds) v := by
  have h := stepDist_joint' p nbrs infecteds sus redraw [v] (by simp) A
  rw [show agrees [v] A = (fun new : List Node => new.contains v == A v) from by
        funext new; simp [agrees]] at h
  simpa using h

theorem stepDist_marginal' (p : Rat) (nbrs : Node → List Node) (infecteds : List Node) (sus : Node → Bool)
    (redraw : Bool) (v : Node) :
    mass (stepDist p nbrs infecteds sus redraw) (fun new => new.contains v)
      = if sus v then Discrete.infProb p (contacts nbrs infecteds v) else 0 := by
  have h := stepDist_single' p nbrs infecteds sus redraw (fun _ => true) v
  rw [show (fun new : List Node => new.contains v == true) = (fun new => new.contains v) from by
        funext new; simp] at h
  rw [h]; simp [factor, Discrete.infProb]

theorem stepDist_independent' (p : Rat) (nbrs : Node → List Node) (infecteds : List Node) (sus : Node → Bool)
    (redraw : Bool) (nodes : List Node) (hn : nodes.Nodup) (A : Node → Bool) :
    mass (stepDist p nbrs infecteds sus redraw) (agrees nodes A)
      = prodRat (nodes.map fun v =>
          mass (stepDist p nbrs infecteds sus redraw) (fun new => new.contains v == A v)) := by
  rw [stepDist_joint' p nbrs infecteds sus redraw nodes hn A]
  exact prodRat_map_congr _ _ _ fun v _ => (stepDist_single' p nbrs infecteds sus redraw A v).symm

/-- a target that contains a non-susceptible node is impossible -/
theorem stepDist_impossible' (p : Rat) (nbrs : Node → List Node) (infecteds : List Node) (sus : Node → Bool)
    (redraw : Bool) (nodes : List Node) (hn : nodes.Nodup) (A : Node → Bool)
    (v : Node) (hv : v ∈ nodes) (hA : A v = true) (hs : sus v = false) :
    mass (stepDist p nbrs infecteds sus redraw) (agrees nodes A) = 0 := by
  rw [stepDist_joint' p nbrs infecteds sus redraw nodes hn A]
  obtain ⟨l1, l2, rfl⟩ := List.append_of_mem hv
  rw [List.map_append, List.map_cons, prodRat_append, prodRat_cons]
  simp [factor, hA, hs]

/-- the product over all nodes reduces to the product over the susceptible ones when the target only contains
susceptible nodes -/
theorem prod_factor_filter (p : Rat) (sus A : Node → Bool) (m : Node → Nat) (nodes : List Node)
    (hA : ∀ v ∈ nodes, A v = true → sus v = true) :
    prodRat (nodes.map (factor p sus A m))
      = prodRat ((nodes.filter sus).map fun v => if A v then Discrete.infProb p (m v) else (1 - p) ^ m v) := by
  induction nodes with
  | nil => rfl
  | cons x xs ih =>
    rw [List.map_cons, prodRat_cons, ih (fun v hv => hA v (by simp [hv])), List.filter_cons]
    cases hs : sus x
    · have : A x = false := by
        cases hAx : A x
        · rfl
        · have := hA x (by simp) hAx; rw [hs] at this; cases this
      simp [factor, hs, this]
    · simp [factor, hs, Discrete.infProb]

/-- the law only depends on the multiset of contacts -/
theorem contacts_perm (nbrs : Node → List Node) (i1 i2 : List Node) (h : i1.Perm i2) (v : Node) :
    contacts nbrs i1 v = contacts nbrs i2 v := by
  unfold contacts
  exact (h.flatMap_right nbrs).count_eq v

/-! ### support: the list of new infecteds is duplicate free and consists of susceptible contacted nodes -/

theorem mem_bind {α β : Type} (d : Dist α) (f : α → Dist β) (y : β × Rat) (h : y ∈ Dist.bind d f) :
    ∃ x ∈ d, ∃ z ∈ f x.1, y.1 = z.1 := by
  simp only [Dist.bind, List.mem_flatMap, List.mem_map] at h
  obtain ⟨x, hx, z, hz, rfl⟩ := h
  exact ⟨x, hx, z, hz, rfl⟩

/-- support invariant -/
def Good (sus : Node → Bool) (cs new : List Node) : Prop :=
  new.Nodup ∧ ∀ v ∈ new, sus v = true ∧ v ∈ cs

theorem contact_good (p : Rat) (redraw : Bool) (sus : Node → Bool) (c : Node) (pre new : List Node)
    (hg : Good sus pre new) (y : List Node × Rat) (hy : y ∈ contact p redraw sus c new) :
    Good sus (pre ++ [c]) y.1 := by
  have hmono : Good sus (pre ++ [c]) new :=
    ⟨hg.1, fun v hv => ⟨(hg.2 v hv).1, by simp [(hg.2 v hv).2]⟩⟩
  unfold contact at hy
  by_cases h1 : (sus c && !new.contains c) = true
  · rw [if_pos h1] at hy
    simp only [Bool.and_eq_true, Bool.not_eq_true'] at h1
    obtain ⟨x, _, z, hz, e⟩ := mem_bind _ _ y hy
    rw [e]
    simp only [Dist.pure, List.mem_singleton] at hz
    subst hz
    obtain ⟨b, q⟩ := x
    cases b
    · exact hmono
    · simp only [if_true]
      have hc : c ∉ new := by simpa using h1.2
      refine ⟨List.nodup_append.mpr ⟨hg.1, by simp, ?_⟩, ?_⟩
      · intro a ha b hb
        simp only [List.mem_singleton] at hb
        subst hb
        exact fun e => hc (e ▸ ha)
      · intro v hv
        rcases List.mem_append.mp hv with hv | hv
        · exact hmono.2 v hv
        · simp only [List.mem_singleton] at hv
          subst hv
          exact ⟨h1.1, by simp⟩
  · rw [if_neg h1] at hy
    by_cases h2 : (redraw && sus c) = true
    · rw [if_pos h2] at hy
      obtain ⟨x, _, z, hz, e⟩ := mem_bind _ _ y hy
      rw [e]
      simp only [Dist.pure, List.mem_singleton] at hz
      subst hz
      exact hmono
    · rw [if_neg h2] at hy
      simp only [Dist.pure, List.mem_singleton] at hy
      subst hy
      exact hmono

theorem inner_good (p : Rat) (redraw : Bool) (sus : Node → Bool) :
    ∀ (cs pre new : List Node), Good sus pre new →
      ∀ y ∈ inner p redraw sus cs new, Good sus (pre ++ cs) y.1 := by
  intro cs
  induction cs with
  | nil =>
    intro pre new hg y hy
    simp only [inner, Dist.pure, List.mem_singleton] at hy
    subst hy
    simpa using hg
  | cons c cs ih =>
    intro pre new hg y hy
    simp only [inner] at hy
    obtain ⟨x, hx, z, hz, e⟩ := mem_bind _ _ y hy
    rw [e]
    have := ih (pre ++ [c]) x.1 (contact_good p redraw sus c pre new hg x hx) z hz
    simpa using this

theorem outer_good (p : Rat) (redraw : Bool) (nbrs : Node → List Node) (sus : Node → Bool) :
    ∀ (us pre new : List Node), Good sus pre new →
      ∀ y ∈ outer p redraw nbrs sus us new, Good sus (pre ++ us.flatMap nbrs) y.1 := by
  intro us
  induction us with
  | nil =>
    intro pre new hg y hy
    simp only [outer, Dist.pure, List.mem_singleton] at hy
    subst hy
    simpa using hg
  | cons u us ih =>
    intro pre new hg y hy
    simp only [outer] at hy
    obtain ⟨x, hx, z, hz, e⟩ := mem_bind _ _ y hy
    rw [e]
    have := ih (pre ++ nbrs u) x.1 (inner_good p redraw sus (nbrs u) pre new hg x hx) z hz
    simpa using this

theorem stepDist_support' (p : Rat) (nbrs : Node → List Node) (infecteds : List Node) (sus : Node → Bool)
    (redraw : Bool) (new : List Node) (h : ∃ q, (new, q) ∈ stepDist p nbrs infecteds sus redraw) :
    new.Nodup ∧ ∀ v ∈ new, sus v = true ∧ 0 < contacts nbrs infecteds v := by
  obtain ⟨q, hq⟩ := h
  have := outer_good p redraw nbrs sus infecteds [] [] ⟨List.nodup_nil, by simp⟩ (new, q) hq
  refine ⟨this.1, fun v hv => ⟨(this.2 v hv).1, ?_⟩⟩
  have hm := (this.2 v hv).2
  simp only [List.nil_append] at hm
  exact List.count_pos_iff.mpr hm

end ReedFrost
