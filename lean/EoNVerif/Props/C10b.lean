import EoNVerif.Proofs.GenInvest
/-!
C10b — the Lean code GENERATED from the Python source of `Simulation_Investigation.node_status / get_statuses /
summary` and `_transform_to_node_history_` (Gen/InvestGen.lean, namespace `GenInvest`) equals the hand-written
specifications of C10 (`Pred.nodeStatusImpl`, `Pred.statusAt`, `Pred.summarySpec`, `History.sirHist/sisHist`).

`unzipH h = (h.map (·.1), h.map (·.2))` : the pair of parallel lists Python stores for the zipped history `h`.
-/
namespace C10b
open Pred GenInvest GenInvestProofs

/-! ### 1. node_status / get_statuses -/

/-- the generated `node_status` IS `Pred.nodeStatusImpl`, for every history (empty: both fail) and every time,
including Python's wrap-around `statuses[-1]` when no change time is `≤ t` -/
theorem gen_node_status_toOption (h : Hist) (t : Rat) :
    (node_status (unzipH h) t).toOption = nodeStatusImpl h t :=
  GenInvestProofs.gen_node_status_toOption h t

theorem gen_node_status_eq (h : Hist) (t : Rat) (s : String) :
    node_status (unzipH h) t = .ok s ↔ nodeStatusImpl h t = some s :=
  GenInvestProofs.gen_node_status_eq h t s

theorem gen_get_status_of_eq (h : Hist) (t : Rat) (s : String) :
    get_status_of (unzipH h) t = .ok s ↔ nodeStatusImpl h t = some s :=
  GenInvestProofs.gen_get_status_of_eq h t s

/-- no IndexError on a non-empty history -/
theorem gen_node_status_total (h : Hist) (hne : h ≠ []) (t : Rat) : ∃ s, node_status (unzipH h) t = .ok s :=
  GenInvestProofs.gen_node_status_total h hne t

/-- query before the first change time: the LAST status is returned (index −1), not an error -/
theorem gen_node_status_wrap (h : Hist) (hne : h ≠ []) (t : Rat) (hlt : ∀ e ∈ h, t < e.1) :
    node_status (unzipH h) t = .ok (h.getLast hne).2 :=
  GenInvestProofs.gen_node_status_wrap h hne t hlt

/-- **node_status == spec**: time-ordered history starting at `tmin`, query time `t ≥ tmin`: the generated code
returns the status of the latest change at or before `t` -/
theorem gen_node_status_spec (h : Hist) (tmin t : Rat) (s : String) (hord : histTimesOrdered h = true)
    (hhead : h.head?.map (·.1) = some tmin) (ht : tmin ≤ t) :
    node_status (unzipH h) t = .ok s ↔ statusAt h t = some s :=
  gen_node_status_eq_statusAt h tmin t s hord hhead ht

theorem gen_get_status_of_spec (h : Hist) (tmin t : Rat) (s : String) (hord : histTimesOrdered h = true)
    (hhead : h.head?.map (·.1) = some tmin) (ht : tmin ≤ t) :
    get_status_of (unzipH h) t = .ok s ↔ statusAt h t = some s :=
  gen_get_status_of_eq_statusAt h tmin t s hord hhead ht

/-! ### 2. _transform_to_node_history_ -/

theorem gen_transform_sir_eq (tmin : Rat) (inf rec : Option Rat) :
    transform_sir tmin inf rec = unzipH (History.sirHist tmin inf rec) :=
  GenInvestProofs.gen_transform_sir_eq tmin inf rec

theorem gen_transform_sis_eq (tmin : Rat) (is rs : List Rat) :
    transform_sis tmin is rs = unzipH (History.sisHist tmin is rs) :=
  GenInvestProofs.gen_transform_sis_eq tmin is rs

/-- end to end: `node_status` on the generated SIR / SIS history -/
theorem gen_node_status_transform_sir (tmin : Rat) (inf rec : Option Rat) (t : Rat) (s : String) :
    node_status (transform_sir tmin inf rec) t = .ok s ↔
      nodeStatusImpl (History.sirHist tmin inf rec) t = some s := by
  rw [gen_transform_sir_eq]; exact gen_node_status_eq _ t s

theorem gen_node_status_transform_sis (tmin : Rat) (is rs : List Rat) (t : Rat) (s : String) :
    node_status (transform_sis tmin is rs) t = .ok s ↔
      nodeStatusImpl (History.sisHist tmin is rs) t = some s := by
  rw [gen_transform_sis_eq]; exact gen_node_status_eq _ t s

/-! ### 3. summary -/

/-- **summary == spec**: all histories non-empty and time-ordered (and at least one node: Python raises IndexError
on an empty node list).  No hypothesis on `sts` (duplicates allowed: `Nodup` is not needed). -/
theorem gen_summary_eq (hs : List Hist) (sts : List String) (hne : hs ≠ []) (hall : ∀ h ∈ hs, h ≠ [])
    (hord : ∀ h ∈ hs, histTimesOrdered h = true) :
    summary (fun v => unzipH (hs.getD v [])) sts (List.range hs.length) =
      .ok ((summarySpec hs sts).times, (summarySpec hs sts).cols) := by
  have h := gen_summary_eq_nodes' (fun v => hs.getD v []) sts (List.range hs.length)
    (by simpa using hne)
    (fun v hv => by
      have hv' : v < hs.length := List.mem_range.mp hv
      rw [Invest.getD_eq' _ _ hv']; exact hall _ (List.getElem_mem hv'))
    (fun v hv => by
      have hv' : v < hs.length := List.mem_range.mp hv
      rw [Invest.getD_eq' _ _ hv']; exact hord _ (List.getElem_mem hv'))
  rwa [range_map_getD] at h

/-- `summary(nodelist=nodes)` for an arbitrary node list (repetitions allowed) -/
theorem gen_summary_eq_nodes (H : Node → Hist) (sts : List String) (nodes : List Node) (hne : nodes ≠ [])
    (hall : ∀ v ∈ nodes, H v ≠ []) (hord : ∀ v ∈ nodes, histTimesOrdered (H v) = true) :
    summary (fun v => unzipH (H v)) sts nodes =
      .ok ((summarySpec (nodes.map H) sts).times, (summarySpec (nodes.map H) sts).cols) :=
  gen_summary_eq_nodes' H sts nodes hne hall hord

/-- the TIMES half needs no ordering hypothesis: the call succeeds and its time vector is `Pred.allTimes` -/
theorem gen_summary_times_eq (hs : List Hist) (sts : List String) (hne : hs ≠ []) (hall : ∀ h ∈ hs, h ≠ []) :
    ∃ cols, summary (fun v => unzipH (hs.getD v [])) sts (List.range hs.length) =
      .ok ((summarySpec hs sts).times, cols) := by
  have h := gen_summary_times_eq_nodes' (fun v => hs.getD v []) sts (List.range hs.length)
    (by simpa using hne)
    (fun v hv => by
      have hv' : v < hs.length := List.mem_range.mp hv
      rw [Invest.getD_eq' _ _ hv']; exact hall _ (List.getElem_mem hv'))
  rwa [range_map_getD] at h

/-- the hypothesis `hs ≠ []` is necessary: on an empty node list the generated code raises (`t[0]`) -/
theorem gen_summary_nil (hist : Node → List Rat × List String) (sts : List String) :
    summary hist sts [] = .error "IndexError" :=
  GenInvestProofs.gen_summary_nil hist sts

end C10b

/-! ### non-vacuity (all evaluated by the kernel) -/
section Examples
open GenInvest GenInvestProofs Pred

/-- an SIR history: infected at 1, recovered at 3 -/
def exSIR : Hist := [(0, "S"), (1, "I"), (3, "R")]
example : transform_sir 0 (some 1) (some 3) = unzipH exSIR := by decide +kernel
example : History.sirHist 0 (some 1) (some 3) = exSIR := by decide +kernel
example : node_status (transform_sir 0 (some 1) (some 3)) 2 = .ok "I" := by decide +kernel
example : statusAt exSIR 2 = some "I" := by decide +kernel
example : histTimesOrdered exSIR = true ∧ exSIR.head?.map (·.1) = some 0 := by decide +kernel
/-- the reset quirk: an initially infected node (infection time = tmin) has a history starting with 'I' -/
example : transform_sir 0 (some 0) (some 2) = ([0, 2], ["I", "R"]) := by decide +kernel

/-- an SIS history with a reinfection: infected at 1, recovered at 2, reinfected at 5/2 -/
def exSIS : Hist := [(0, "S"), (1, "I"), (2, "S"), (5/2, "I")]
example : transform_sis 0 [1, 5/2] [2] = unzipH exSIS := by decide +kernel
example : History.sisHist 0 [1, 5/2] [2] = exSIS := by decide +kernel
example : node_status (transform_sis 0 [1, 5/2] [2]) (9/4) = .ok "S" := by decide +kernel
example : get_status_of (transform_sis 0 [1, 5/2] [2]) 3 = .ok "I" := by decide +kernel
/-- the wrap-around: a query before tmin returns the LAST status -/
example : node_status (transform_sis 0 [1, 5/2] [2]) (-1) = .ok "I" := by decide +kernel
example : statusAt exSIS (-1) = none := by decide +kernel
/-- the empty history raises -/
example : node_status ([], []) 0 = .error "IndexError" := by decide +kernel

/-- a 3-node summary: node 0 = the SIS history above, node 1 infected at 1 (simultaneously with node 0), node 2
initially infected -/
def exHs : List Hist := [exSIS, [(0, "S"), (1, "I")], [(0, "I")]]
example : summary (fun v => unzipH (exHs.getD v [])) ["S", "I"] (List.range exHs.length) =
    .ok ([0, 1, 2, 5/2], [[2, 0, 1, 0], [1, 3, 2, 3]]) := by decide +kernel
example : (summarySpec exHs ["S", "I"]).times = [0, 1, 2, 5/2] ∧
    (summarySpec exHs ["S", "I"]).cols = [[2, 0, 1, 0], [1, 3, 2, 3]] := by decide +kernel
/-- the hypotheses of `gen_summary_eq` hold for it -/
example : exHs ≠ [] ∧ (∀ h ∈ exHs, h ≠ []) ∧ (∀ h ∈ exHs, histTimesOrdered h = true) := by decide +kernel
/-- a status that is not listed is ignored; a listed status that never occurs has a zero column; node subset -/
example : summary (fun v => unzipH (exHs.getD v [])) ["R", "I"] [2, 0] =
    .ok ([0, 1, 2, 5/2], [[0, 0, 0, 0], [1, 2, 1, 2]]) := by decide +kernel
/-- a node with an empty history makes `summary` raise -/
example : summary (fun v => unzipH (([exSIS, []] : List Hist).getD v [])) ["S", "I"] [0, 1] =
    .error "IndexError" := by decide +kernel

end Examples

#print axioms C10b.gen_node_status_toOption
#print axioms C10b.gen_node_status_eq
#print axioms C10b.gen_get_status_of_eq
#print axioms C10b.gen_node_status_total
#print axioms C10b.gen_node_status_wrap
#print axioms C10b.gen_node_status_spec
#print axioms C10b.gen_get_status_of_spec
#print axioms C10b.gen_transform_sir_eq
#print axioms C10b.gen_transform_sis_eq
#print axioms C10b.gen_node_status_transform_sir
#print axioms C10b.gen_node_status_transform_sis
#print axioms C10b.gen_summary_eq
#print axioms C10b.gen_summary_eq_nodes
#print axioms C10b.gen_summary_times_eq
#print axioms C10b.gen_summary_nil
