"""C19 — calls do not modify their arguments and can be repeated.
Every simulator and every ODE entry point (wrappers and the direct array-taking model functions) is called twice
with the *same* argument objects; a deep snapshot (graph nodes/edges/attributes, containers, arrays incl. shape and
dtype) taken before must equal the arguments after each call; the second call must succeed and, for the deterministic
ODE models, return identical results."""
import copy
from fractions import Fraction as F
import numpy as np, networkx as nx
import common, allsims, odes, sims, gen, rng as rngmod
from predchecks import strip
from sims import err_enum


def snap(x):
    if isinstance(x, nx.Graph):
        return ("graph", x.is_directed(), [(repr(u), snap(d)) for u, d in x.nodes(data=True)],
                [(repr(u), repr(v), snap(d)) for u, v, d in x.edges(data=True)], snap(dict(x.graph)))
    if isinstance(x, np.ndarray):
        return ("ndarray", x.shape, str(x.dtype), x.tolist())
    if isinstance(x, dict):
        return ("dict", [(repr(k), snap(v)) for k, v in x.items()])
    if isinstance(x, (list, tuple)):
        return (type(x).__name__, [snap(v) for v in x])
    if isinstance(x, (set, frozenset)):
        return ("set", sorted(repr(v) for v in x))
    if isinstance(x, range):
        return ("range", x.start, x.stop, x.step)
    if callable(x):
        return ("callable",)
    return ("val", repr(x))


def same_result(a, b):
    if isinstance(a, (tuple, list)) and isinstance(b, (tuple, list)):
        return len(a) == len(b) and all(same_result(x, y) for x, y in zip(a, b))
    if isinstance(a, dict) and isinstance(b, dict):
        return a.keys() == b.keys() and all(same_result(a[k], b[k]) for k in a)
    try:
        return np.array_equal(np.asarray(a, dtype=float), np.asarray(b, dtype=float), equal_nan=True)
    except Exception:
        return a == b


def twice(ctx, rep, f, args, kwargs, deterministic):
    before = snap((args, kwargs))
    outs = []
    for i in (1, 2):
        try:
            outs.append(f(*args, **kwargs))
        except Exception as e:
            ctx.violation("%s: call %d with the same arguments raised %s" % (rep["entry"], i, type(e).__name__),
                          dict(rep, call=i, error=err_enum(e)))
            return
        after = snap((args, kwargs))
        if after != before:
            diff = first_diff(before, after)
            ctx.violation("%s modified its arguments (call %d): %s" % (rep["entry"], i, diff), dict(rep, call=i, diff=diff))
            return
    if deterministic and not same_result(outs[0], outs[1]):
        ctx.violation("%s: the second call with the same arguments returned a different result" % rep["entry"], rep)


def first_diff(a, b, path="args"):
    if type(a) != type(b) or not isinstance(a, tuple):
        return "%s: %s -> %s" % (path, str(a)[:80], str(b)[:80])
    if len(a) != len(b):
        return "%s: length %d -> %d" % (path, len(a), len(b))
    for i, (x, y) in enumerate(zip(a, b)):
        if x != y:
            if isinstance(x, (tuple, list)) and isinstance(y, (tuple, list)) and len(x) == len(y) and type(x) == type(y):
                return first_diff(tuple(x), tuple(y), "%s[%d]" % (path, i))
            return "%s[%d]: %s -> %s" % (path, i, str(x)[:80], str(y)[:80])
    return path


def direct_calls(ctx, kind=None, float_ks=False):
    """the array-taking model functions with arrays produced by the library's own helpers; `float_ks`: degree
    arrays passed with float dtype (a caller may legitimately do that)"""
    import EoN, EoN.analytic as an
    out = []
    G, _ = odes.graph(ctx.rng, kind=kind)
    infs = ctx.rng.sample(list(G), 2)
    tau, gamma = 0.5, 1.0
    t = dict(tmin=0, tmax=2, tcount=5)
    Nk, Sk0, Ik0 = an._get_Nk_and_IC_as_arrays_(G, initial_infecteds=infs, SIR=False)
    Nk, Sk0r, Ik0r, Rk0r = an._get_Nk_and_IC_as_arrays_(G, initial_infecteds=infs, SIR=True)
    NkNl, SkSl0, SkIl0, IkIl0, Ks = an._get_NkNl_and_IC_as_arrays_(G, initial_infecteds=infs, withKs=True, SIR=False)
    SS0, SI0, II0 = an._count_edge_types_(G, infs, SIR=False)
    f = lambda a: np.array(a, dtype=float)
    out.append(("SIS_heterogeneous_meanfield", EoN.SIS_heterogeneous_meanfield, (f(Sk0), f(Ik0), tau, gamma), dict(t)))
    out.append(("SIR_heterogeneous_meanfield", EoN.SIR_heterogeneous_meanfield, (f(Sk0r), f(Ik0r), f(Rk0r), tau, gamma), dict(t)))
    out.append(("SIS_heterogeneous_pairwise", EoN.SIS_heterogeneous_pairwise,
                (f([Sk0[k] for k in Ks]), f([Ik0[k] for k in Ks]), f(SkSl0), f(SkIl0), f(IkIl0), tau, gamma), dict(t, Ks=np.array(Ks, dtype=float if float_ks else int))))
    out.append(("SIR_heterogeneous_pairwise", EoN.SIR_heterogeneous_pairwise,
                (f([Sk0r[k] for k in Ks]), f([Ik0r[k] for k in Ks]), f([Rk0r[k] for k in Ks]), f(SkSl0), f(SkIl0), tau, gamma),
                dict(t, Ks=np.array(Ks, dtype=float if float_ks else int))))
    out.append(("SIS_compact_pairwise", EoN.SIS_compact_pairwise, (f(Sk0), f(Ik0), SI0, SS0, II0, tau, gamma), dict(t)))
    out.append(("SIR_compact_pairwise", EoN.SIR_compact_pairwise, (f(Sk0r), float(sum(Ik0r)), 0.0, SS0, SI0, tau, gamma), dict(t)))
    maxk = len(Nk) - 1
    Ssi = np.zeros((maxk + 1, maxk + 1)); Isi = np.zeros((maxk + 1, maxk + 1))
    for u in G:
        s = sum(1 for v in G.neighbors(u) if v not in infs)
        i = G.degree(u) - s
        (Isi if u in infs else Ssi)[s][i] += 1
    out.append(("SIS_effective_degree", EoN.SIS_effective_degree, (Ssi.copy(), Isi.copy(), tau, gamma), dict(t)))
    out.append(("SIR_effective_degree", EoN.SIR_effective_degree, (Ssi.copy(), float(len(infs)), 0.0, tau, gamma), dict(t)))
    out.append(("SIR_compact_effective_degree", EoN.SIR_compact_effective_degree, (f(Sk0r), float(len(infs)), 0.0, float(SI0), tau, gamma), dict(t)))
    Gs, _ = odes.graph(ctx.rng, small=True)
    nl = list(Gs)
    Y0 = np.array([1.0 if i < 1 else 0.0 for i in range(len(nl))])
    out.append(("SIS_individual_based(Y0)", EoN.SIS_individual_based, (Gs, tau, gamma), dict(t, Y0=Y0.copy(), nodelist=nl)))
    out.append(("SIR_individual_based(Y0)", EoN.SIR_individual_based, (Gs, tau, gamma), dict(t, Y0=Y0.copy(), nodelist=nl)))
    out.append(("SIS_pair_based(Y0)", EoN.SIS_pair_based, (Gs, tau, gamma), dict(t, Y0=Y0.copy(), nodelist=nl)))
    out.append(("SIR_pair_based(Y0)", EoN.SIR_pair_based, (Gs, tau, gamma), dict(t, Y0=Y0.copy(), nodelist=nl)))
    N = len(nl)
    XY0 = (1 - Y0)[:, None] * Y0[None, :]
    XX0 = (1 - Y0)[:, None] * (1 - Y0)[None, :]
    out.append(("SIS_pair_based(XY0,XX0)", EoN.SIS_pair_based, (Gs, tau, gamma), dict(t, Y0=Y0.copy(), nodelist=nl, XY0=XY0.copy(), XX0=XX0.copy())))
    out.append(("SIR_pair_based(XY0,XX0)", EoN.SIR_pair_based, (Gs, tau, gamma), dict(t, Y0=Y0.copy(), nodelist=nl, XY0=XY0.copy(), XX0=XX0.copy())))
    # the dict-taking model functions (degree distribution Pk, degree correlations Pnk) with the dicts the library's own
    # helpers produce; Pnk also in the legal "all rows are one object" form (uncorrelated mixing)
    Gd, _ = odes.graph(ctx.rng, kind=kind)
    if Gd.number_of_edges() > 0:
        Pk, Pnk = an.get_Pk(Gd), an.get_Pnk(Gd)
        N = Gd.order()
        rho = 0.1
        out.append(("EBCM_pref_mix", EoN.EBCM_pref_mix, (N, dict(Pk), {a: dict(r) for a, r in Pnk.items()}, tau, gamma), dict(rho=rho, tmin=0, tmax=2, tcount=5)))
        out.append(("EBCM_pref_mix_discrete", EoN.EBCM_pref_mix_discrete, (N, dict(Pk), {a: dict(r) for a, r in Pnk.items()}, 0.5), dict(rho=rho, tmin=0, tmax=4)))
        kave = sum(k_ * v for k_, v in Pk.items())
        if kave > 0:
            row = {k_: k_ * v / kave for k_, v in Pk.items()}
            shared = {k_: row for k_ in Pk}
            out.append(("EBCM_pref_mix(shared row)", EoN.EBCM_pref_mix, (N, dict(Pk), shared, tau, gamma), dict(rho=rho, tmin=0, tmax=2, tcount=5)))
        out.append(("Attack_rate_discrete", EoN.Attack_rate_discrete, (dict(Pk), 0.5), dict(rho=rho)))
        out.append(("Attack_rate_cts_time", EoN.Attack_rate_cts_time, (dict(Pk), tau, gamma), dict(rho=rho)))
        out.append(("Epi_Prob_discrete", EoN.Epi_Prob_discrete, (dict(Pk), 0.5), {}))
        # (Epi_Prob_cts_time is not exercised: on the pinned tree it raises on every input — `kave` undefined, psiPrime
        #  applied to an array — which no listed property is about; see DESIGN §6)
    return out


def run(ctx):
    import EoN
    # --- ODE wrappers
    for name, e in odes.E.items():
        for k in range(ctx.scale(4, 16)):
            style = e["ic"][k % len(e["ic"])]
            G, gkind = odes.graph(ctx.rng, small=e["small"])
            kw, desc = odes.ic_kwargs(name, style, G, ctx.rng)
            if "initial_infecteds" in kw and ctx.rng.random() < 0.5:
                kw["initial_infecteds"] = set(kw["initial_infecteds"])
            rep = dict(entry=name, graph=dict(kind=gkind, n=G.order()), ic=style)
            ctx.case(rep, nontrivial=True, sample=rep)
            ctx.count("ode:" + name.replace("_from_graph", ""))
            f = lambda G_, kw_: odes.call(name, G_, kw_, 0.5, 1.0, 0 if e["discrete"] else 0.0, 3 if e["discrete"] else 2.0, 5, bool(e["full"]), p=0.5)
            twice(ctx, rep, f, (G, kw), {}, True)
    # --- direct model functions
    for _ in range(ctx.scale(14, 56)):
        # every graph kind (incl. isolated nodes = a degree-0 class) with int and float degree arrays
        for name, f, args, kwargs in direct_calls(ctx, kind=odes.KINDS[_ % len(odes.KINDS)], float_ks=(_ // len(odes.KINDS)) % 2 == 1):
            rep = dict(entry=name, stream="direct")
            ctx.case(dict(rep, k=_), nontrivial=True)
            ctx.count("direct:" + name)
            twice(ctx, rep, f, args, kwargs, True)
    # --- simulators (same argument objects, fresh scripted draws each call)
    for sim in allsims.SIMS:
        for _ in range(ctx.scale(15, 80)):
            c = allsims.gen_case(ctx.rng, sim)
            G, lab = sims.build_graph(c)
            idx = gen.index_of(G)
            rep = dict(entry=sim, case=strip(c))
            ctx.case(rep, nontrivial=True)
            ctx.count("sim:" + sim)
            if sim == "Gillespie_simple_contagion":
                import specs as _sp
                _sp.prepare_graph(c, G, lab)
            before = snap(G)
            for i in (1, 2):
                tr = rngmod.TapeRandom(rng=ctx.rng, idx=idx)
                rules = allsims.Rules(c, lab, idx)
                try:
                    allsims.call_sim(c, G, lab, tr, c["full"], rules)
                except Exception as e:
                    ctx.violation("%s: call %d on the same graph object raised %s" % (sim, i, type(e).__name__), dict(rep, call=i, error=err_enum(e)))
                    break
                if snap(G) != before:
                    ctx.violation("%s modified the caller's graph" % sim, dict(rep, call=i, diff=first_diff(before, snap(G))))
                    break
    # --- initial-condition containers of the SIR/SIS simulators: caller-owned mutable objects (list / set / array), also
    # the legal-but-unusual ones (docstrings: "no test for consistency"): a node listed twice, a node listed as both
    # initially infected and initially recovered
    import numpy as _np
    for sim in allsims.SIMS:
        if sim in ("Gillespie_simple_contagion", "Gillespie_complex_contagion"):
            continue
        for k in range(ctx.scale(36, 120)):
            c = allsims.gen_case(ctx.rng, sim)
            if c["n"] < 3:
                continue
            G, lab = sims.build_graph(c)
            idx = gen.index_of(G)
            nodes = list(range(c["n"]))
            ii = ctx.rng.sample(nodes, ctx.rng.randint(1, min(3, c["n"] - 1)))
            rest = [u for u in nodes if u not in ii]
            recs = ctx.rng.sample(rest, ctx.rng.randint(0, min(2, len(rest)))) if sim in allsims.HAS_RECS else []
            shape = ["plain", "dup", "overlap", "dup+overlap"][k % 4]
            if "dup" in shape:
                ii = ii + [ii[0]]
            if "overlap" in shape and sim in allsims.HAS_RECS:
                recs = recs + [ii[-1] if "dup" not in shape else ii[1 % len(ii)]]
            ckind = ["list", "set", "array"][(k // 4) % 3]
            labs = [lab(i) for i in ii]
            if ckind == "set":
                obj = set(labs)
            elif ckind == "array" and all(isinstance(x, int) for x in labs):
                obj = _np.array(labs)
            else:
                obj, ckind = list(labs), "list"
            objs = dict(initial_infecteds=obj)
            if sim in allsims.HAS_RECS and (recs or ctx.rng.random() < 0.3):
                objs["initial_recovereds"] = [lab(i) for i in recs]
            c = dict(c, init=dict(kind="none"), recs=[], _objs=objs)
            rep = dict(entry=sim, stream="ic-containers", shape=shape, container=ckind, case=strip(c),
                       initial_infecteds=[idx[x] for x in labs], initial_recovereds=recs)
            ctx.case(rep, nontrivial=True)
            ctx.count("ic-containers:%s:%s" % (shape, ckind))
            before = snap((G, objs))
            for i in (1, 2):
                tr = rngmod.TapeRandom(rng=ctx.rng, idx=idx)
                rules = allsims.Rules(c, lab, idx)
                try:
                    allsims.call_sim(c, G, lab, tr, c["full"], rules)
                except Exception as e:
                    if shape == "plain":
                        ctx.violation("%s: call %d with caller-owned initial-condition containers raised %s" % (sim, i, type(e).__name__),
                                      dict(rep, call=i, error=err_enum(e)))
                    else:
                        ctx.count("ic-containers:raised:" + type(e).__name__)   # inconsistent input: an exception is not judged here
                    break
                if snap((G, objs)) != before:
                    ctx.violation("%s modified the caller's initial-condition containers (or graph): %s" % (sim, first_diff(before, snap((G, objs)))),
                                  dict(rep, call=i))
                    break
    # model-specification graphs and IC dict of the generic simulators
    import specs
    for _ in range(ctx.scale(24, 200)):
        c = allsims.gen_case(ctx.rng, "Gillespie_simple_contagion")
        G, lab = sims.build_graph(c)
        H, J = specs.spec_graphs(c)
        specs.prepare_graph(c, G, lab)
        # half of the cases: one transition of the specification has rate 0 (a legal way of switching a transition off
        # while keeping one specification object for a parameter sweep) — the caller's graphs must keep that edge
        if ctx.rng.random() < 0.5:
            for X in ctx.rng.sample([H, J], 2):
                es = list(X.edges())
                if es:
                    X.edges[ctx.rng.choice(es)]["rate"] = 0.0
                    ctx.count("spec-graphs:rate-0 edge")
                    break
        IC = {lab(i): c["IC"][i] for i in range(c["n"])}
        ret = list(c["return_statuses"])
        args = (G, H, J, IC, ret)
        before = snap(args)
        rep = dict(entry="Gillespie_simple_contagion(spec graphs)", case=strip(c))
        ctx.case(rep, nontrivial=True)
        for i in (1, 2):
            tr = rngmod.TapeRandom(rng=ctx.rng, idx=gen.index_of(G))
            try:
                with rngmod.scripted(tr):
                    EoN.Gillespie_simple_contagion(G, H, J, IC, ret, tmax=3)
            except Exception as e:
                ctx.violation("Gillespie_simple_contagion: call %d raised %s" % (i, type(e).__name__), dict(rep, error=err_enum(e)))
                break
            if snap(args) != before:
                ctx.violation("Gillespie_simple_contagion modified its arguments: %s" % first_diff(before, snap(args)), rep)
                break
    display_kwargs(ctx)


def display_kwargs(ctx):
    """full-data calls with the documented `sim_kwargs` (pos / color_dict / tex handed on to Simulation_Investigation): the
    caller's graph (nodes, edges, ALL attributes) and the caller's keyword dict with its inner dicts must be unchanged
    afterwards, twice in a row.  Real seeded generators."""
    import random, EoN
    sims_ = ["fast_SIR", "fast_SIS", "Gillespie_SIR", "Gillespie_SIS", "basic_discrete_SIR", "basic_discrete_SIS", "fast_nonMarkov_SIR"]
    for k in range(ctx.scale(28, 140)):
        r = ctx.rng
        sim = sims_[k % len(sims_)]
        G = gen.random_graph(r, 3, 9)
        if r.random() < 0.5:
            for u in G:
                G.nodes[u]["age"] = r.randint(1, 90)         # caller's own attributes
        seed = r.randrange(10 ** 6)
        pos = {u: (float(i), float(i * i % 5)) for i, u in enumerate(G)}
        which = r.choice(["pos", "pos", "pos+color", "color", "tex"])
        skw = {}
        if "pos" in which:
            skw["pos"] = pos
        if "color" in which:
            skw["color_dict"] = {"S": "#009a80", "I": "#ff2000", "R": "gray"}
        if which == "tex":
            skw["tex"] = False
        args = (G, skw)
        before = snap(args)
        rep = dict(entry=sim, stream="sim_kwargs", keys=sorted(skw), n=G.order(), seed=seed)
        ctx.case(rep, nontrivial=True)
        ctx.count("sim_kwargs:" + sim)
        for i in (1, 2):
            random.seed(seed); np.random.seed(seed)
            try:
                if sim.startswith("basic_discrete"):
                    obj = getattr(EoN, sim)(G, 0.5, initial_infecteds=[list(G)[0]], tmax=4, return_full_data=True, sim_kwargs=skw)
                elif sim == "fast_nonMarkov_SIR":
                    obj = EoN.fast_nonMarkov_SIR(G, trans_time_fxn=lambda s, t: 1.0, rec_time_fxn=lambda u: 2.0, initial_infecteds=[list(G)[0]],
                                                 tmax=5, return_full_data=True, sim_kwargs=skw)
                else:
                    obj = getattr(EoN, sim)(G, 1.0, 1.0, initial_infecteds=[list(G)[0]], tmax=3, return_full_data=True, sim_kwargs=skw)
                if "pos" in skw:
                    obj.set_pos(dict(pos))            # documented way of (re)setting the layout of the result object
            except Exception as e:
                ctx.violation("%s(return_full_data=True, sim_kwargs=%s): call %d raised %s" % (sim, sorted(skw), i, type(e).__name__), dict(rep, error=repr(e)[:200]))
                break
            if snap(args) != before:
                ctx.violation("%s(return_full_data=True, sim_kwargs=%s) modified the caller's graph / keyword dict: %s"
                              % (sim, sorted(skw), first_diff(before, snap(args))), dict(rep, call=i))
                break
