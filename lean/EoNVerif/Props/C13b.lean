import EoNVerif.Proofs.GenEventSIS
import EoNVerif.Props.C13
/-!
C13b — the C13 statements for the code GENERATED from `fast_nonMarkov_SIS` / `_process_trans_SIS_nonMarkov_` /
`_process_rec_SIS_` / `myQueue` (`Gen/EventSISGen.lean`, namespace `GenNMSIS`).

`Proofs/GenEventSIS.lean` shows that `GenNMSIS.pop_and_run` and `EventSIS.step` run in lock step (`Rel`), so the
objects returned by `GenNMSIS.run` are functions (`Out`) of the final state of the hand-written lazy-queue model
`EventSIS.run`; the C13 theorems about the model then become theorems about the generated code.

Hypothesis `Agree A P`: the user rule `A.transRec k u nbrs` returns the tables `P.delays u · k` / `P.dur u k` without
touching the tape.  No well-formedness of the graph is needed for the refinement itself.
-/
open PyTM

namespace GenNMSIS

/-- **the generated code refines the lazy-queue model** (forward): if `GenNMSIS.run` returns, the tape is untouched,
the model's queue is empty after `fuel` steps (indeed after fewer), and the returned columns / transmissions /
per-node times are those of the model's final state -/
theorem gen_run_refines_model {A : NArgs} {P : SSParams} (hA : Agree A P) (infs : List Node) (fuel : Nat)
    (ts ts' : TapeSt) (σ : Loc) (h : run A infs fuel ts = .ok (σ, ts')) :
    ts' = ts ∧ (EventSIS.run P infs fuel).queue = [] ∧ (∃ k, k < fuel ∧ (EventSIS.run P infs k).queue = []) ∧
      Out P infs σ (EventSIS.run P infs fuel) :=
  gen_run_refines hA infs fuel ts ts' σ h

/-- (backward) if the model's queue is empty after fewer than `fuel` steps, the generated code returns: none of
`listLast` / `listGet` / `popMin` / `dictGet` raises and the fuel suffices -/
theorem gen_run_refines_model_back {A : NArgs} {P : SSParams} (hA : Agree A P) (infs : List Node) (fuel : Nat)
    (ts : TapeSt) (k : Nat) (hk : k < fuel) (hq : (EventSIS.run P infs k).queue = []) :
    ∃ σ, run A infs fuel ts = .ok (σ, ts) ∧ Out P infs σ (EventSIS.run P infs fuel) ∧
      EventSIS.run P infs fuel = EventSIS.run P infs k :=
  gen_run_refines_back hA infs fuel ts k hk hq

/-- the only failure of the generated code is the harness's fuel bound -/
theorem gen_run_only_fuel_error {A : NArgs} {P : SSParams} (hA : Agree A P) (infs : List Node) (fuel : Nat)
    (ts : TapeSt) (e : String) (h : run A infs fuel ts = .error e) :
    e = "fuel" ∧ ∀ k, k < fuel → (EventSIS.run P infs k).queue ≠ [] :=
  gen_run_error hA infs fuel ts e h

/-- the returned columns in closed form: `times` lists `tmin` and the times of the status changes, `I` is the running
balance of infections and recoveries, `S + I = N`; all three without the first `len(initial_infecteds)` rows -/
theorem gen_columns {A : NArgs} {P : SSParams} (hA : Agree A P) (infs : List Node) (fuel : Nat)
    (ts ts' : TapeSt) (σ : Loc) (h : run A infs fuel ts = .ok (σ, ts')) :
    let log := (EventSIS.run P infs fuel).log
    σ.times = (some P.tmin :: log.reverse.map (fun c => some c.1)).drop infs.length ∧
    σ.I = (colI log).drop infs.length ∧
    (∀ i, i ≤ log.length → (colI log)[i]? =
      some (((log.reverse.take i).countP (fun c => c.2.2) : Int) - ((log.reverse.take i).countP (fun c => !c.2.2) : Int))) ∧
    σ.S = σ.I.map (fun i => (P.nodes.length : Int) - i) := by
  obtain ⟨_, _, _, hout⟩ := gen_run_refines hA infs fuel ts ts' σ h
  refine ⟨by rw [hout.times, colT_eq], hout.I, ?_, ?_⟩
  · intro i hi
    rw [colI_getElem _ i hi, lastI_eq]
    have hrev : (EventSIS.run P infs fuel).log.reverse.take i =
        ((EventSIS.run P infs fuel).log.drop ((EventSIS.run P infs fuel).log.length - i)).reverse := by
      rw [List.reverse_drop]
      congr 1
      omega
    rw [hrev, List.countP_reverse, List.countP_reverse]
  · rw [hout.S, hout.I, colS_eq, List.map_drop]

/-- nothing at or after `tmax` is reported -/
theorem gen_before_tmax {A : NArgs} {P : SSParams} (hA : Agree A P) (infs : List Node) (fuel : Nat)
    (ts ts' : TapeSt) (σ : Loc) (h : run A infs fuel ts = .ok (σ, ts')) :
    (∀ t ∈ σ.times, t = some P.tmin ∨ ∃ r, t = some r ∧ r < P.tmax) ∧
    (∀ u, ∀ t ∈ alGet σ.infection_times [] u, ∃ r, t = some r ∧ r < P.tmax) ∧
    (∀ u, ∀ t ∈ alGet σ.recovery_times [] u, ∃ r, t = some r ∧ r < P.tmax) := by
  obtain ⟨_, _, _, hout⟩ := gen_run_refines hA infs fuel ts ts' σ h
  have hlt := EventSIS.log_before_tmax P infs fuel
  refine ⟨?_, ?_, ?_⟩
  · intro t ht
    rw [hout.times, colT_eq] at ht
    have ht := List.mem_of_mem_drop ht
    rcases List.mem_cons.1 ht with rfl | ht
    · left; rfl
    · right
      obtain ⟨c, hc, rfl⟩ := List.mem_map.1 ht
      exact ⟨c.1, rfl, hlt c (List.mem_reverse.1 hc)⟩
  · intro u t ht
    rw [hout.infection_times u, evTimes_eq] at ht
    obtain ⟨c, hc, rfl⟩ := List.mem_map.1 ht
    exact ⟨c.1, rfl, hlt c (List.mem_reverse.1 (List.mem_filter.1 hc).1)⟩
  · intro u t ht
    rw [hout.recovery_times u, evTimes_eq] at ht
    obtain ⟨c, hc, rfl⟩ := List.mem_map.1 ht
    exact ⟨c.1, rfl, hlt c (List.mem_reverse.1 (List.mem_filter.1 hc).1)⟩

/-- the `i`-th recovery of `v` happens exactly `dur v i` after its `i`-th infection -/
theorem gen_recovery_after_dur {A : NArgs} {P : SSParams} (hA : Agree A P) (infs : List Node) (fuel : Nat)
    (ts ts' : TapeSt) (σ : Loc) (h : run A infs fuel ts = .ok (σ, ts')) (v : Node) (i : Nat) (ti tr : ERat)
    (hi : (alGet σ.infection_times [] v)[i]? = some ti) (hr : (alGet σ.recovery_times [] v)[i]? = some tr) :
    tr = ERat.add ti (some (P.dur v i)) := by
  obtain ⟨_, _, _, hout⟩ := gen_run_refines hA infs fuel ts ts' σ h
  have hB := EventSIS.InvB_run P infs fuel v
  have hf := alt_filter _ hB.alt i
  rw [hout.infection_times v, evTimes_nlog, List.getElem?_map, hf.1] at hi
  rw [hout.recovery_times v, evTimes_nlog, List.getElem?_map, hf.2] at hr
  cases h1 : (EventSIS.nlog (EventSIS.run P infs fuel).log v)[2 * i]? with
  | none => rw [h1] at hi; simp at hi
  | some ci =>
    cases h2 : (EventSIS.nlog (EventSIS.run P infs fuel).log v)[2 * i + 1]? with
    | none => rw [h2] at hr; simp at hr
    | some cr =>
      rw [h1] at hi; rw [h2] at hr
      simp only [Option.map_some, Option.some.injEq] at hi hr
      subst hi hr
      rw [hB.pair i ci cr h1 h2]; rfl

/-- infections and recoveries of a node alternate, starting with an infection; the node ends infected iff it has
one more infection than recoveries -/
theorem gen_alternates {A : NArgs} {P : SSParams} (hA : Agree A P) (infs : List Node) (fuel : Nat)
    (ts ts' : TapeSt) (σ : Loc) (h : run A infs fuel ts = .ok (σ, ts')) (v : Node) :
    (alGet σ.recovery_times [] v).length ≤ (alGet σ.infection_times [] v).length ∧
    (alGet σ.infection_times [] v).length ≤ (alGet σ.recovery_times [] v).length + 1 ∧
    (σ.status v = St.I ↔ (alGet σ.infection_times [] v).length = (alGet σ.recovery_times [] v).length + 1) := by
  obtain ⟨_, _, _, hout⟩ := gen_run_refines hA infs fuel ts ts' σ h
  have hB := EventSIS.InvB_run P infs fuel v
  have hf := alt_filter _ hB.alt
  rw [hout.infection_times v, hout.recovery_times v, evTimes_nlog, evTimes_nlog, hout.status v, hB.infl]
  simp only [List.length_map]
  generalize EventSIS.nlog (EventSIS.run P infs fuel).log v = l at hf
  have hI : ∀ k, (l.filter (fun c => c.2.2 == true)).length ≤ k ↔ l.length ≤ 2 * k := by
    intro k
    rw [← List.getElem?_eq_none_iff, (hf k).1, List.getElem?_eq_none_iff]
  have hR : ∀ k, (l.filter (fun c => c.2.2 == false)).length ≤ k ↔ l.length ≤ 2 * k + 1 := by
    intro k
    rw [← List.getElem?_eq_none_iff, (hf k).2, List.getElem?_eq_none_iff]
  generalize (l.filter (fun c => c.2.2 == true)).length = a at hI
  generalize (l.filter (fun c => c.2.2 == false)).length = b at hR
  have h1 := (hI a).1 (le_refl _)
  have h2 := (hR b).1 (le_refl _)
  have h3 : a = 0 ∨ 2 * (a - 1) < l.length := by
    by_cases ha : a = 0
    · left; exact ha
    · right
      by_contra hc
      have := (hI (a - 1)).2 (by omega)
      omega
  have h4 : b = 0 ∨ 2 * (b - 1) + 1 < l.length := by
    by_cases hb : b = 0
    · left; exact hb
    · right
      by_contra hc
      have := (hR (b - 1)).2 (by omega)
      omega
  refine ⟨by omega, by omega, ?_⟩
  by_cases hodd : l.length % 2 = 1
  · simp [hodd]; omega
  · have : (l.length % 2 == 1) = false := by simp [hodd]
    simp [this]; omega

/-- every reported transmission is a listed attempt of the infector's current infection -/
theorem gen_trans_is_listed_attempt {A : NArgs} {P : SSParams} (hA : Agree A P) (infs : List Node)
    (hW : EventSIS.WF P infs) (fuel : Nat) (ts ts' : TapeSt) (σ : Loc) (h : run A infs fuel ts = .ok (σ, ts')) :
    ∀ e ∈ σ.transmissions,
      match e.2.1 with
      | none => e.2.2 ∈ infs ∧ e.1 = some P.tmin
      | some u => e.2.2 ∈ P.nbrs u ∧
          ∃ eu ∈ σ.transmissions, eu.2.2 = u ∧ ∃ k d, d ∈ P.delays u e.2.2 k ∧ ERat.add eu.1 (some d) = e.1 := by
  obtain ⟨_, _, _, hout⟩ := gen_run_refines hA infs fuel ts ts' σ h
  intro e he
  rw [hout.transmissions] at he
  obtain ⟨e', he', rfl⟩ := List.mem_map.1 he
  have hm := EventSIS.trans_is_listed_attempt P infs hW fuel e' (List.mem_reverse.1 he')
  simp only
  cases hsrc : e'.2.1 with
  | none =>
    rw [hsrc] at hm
    simp only at hm ⊢
    exact ⟨hm.1, by rw [hm.2]⟩
  | some u =>
    rw [hsrc] at hm
    simp only at hm ⊢
    obtain ⟨h1, eu, h2, h3, k, d, h4, h5⟩ := hm
    refine ⟨h1, (some eu.1, eu.2.1, eu.2.2), ?_, h3, k, d, h4, ?_⟩
    · rw [hout.transmissions]
      exact List.mem_map.2 ⟨eu, List.mem_reverse.2 h2, rfl⟩
    · simp only [ERat.add_some, h5]

/-- **the generated code refines the reference semantics**: for ascending positive delay lists, positive durations
and pairwise distinct event times, once the reference agenda is empty, everything `GenNMSIS.run` returns is
determined by the status-change log and the transmission list of the naive reference run (`EventSIS.refRun`: every
listed attempt is an agenda entry; an attempt infects iff the target is susceptible at that instant) -/
theorem gen_run_refines_reference {A : NArgs} {P : SSParams} (hA : Agree A P) (infs : List Node)
    (hW : EventSIS.WF P infs) (fuel : Nat) (ts ts' : TapeSt) (σ : Loc) (h : run A infs fuel ts = .ok (σ, ts'))
    (ha : (EventSIS.refRun P infs fuel).agenda = [])
    (hd : EventSIS.distinctTimes P.tmin (EventSIS.refRun P infs fuel).seen = true) :
    let log := (EventSIS.refRun P infs fuel).log
    σ.times = (some P.tmin :: log.reverse.map (fun c => some c.1)).drop infs.length ∧
    σ.S = (colS (P.nodes.length : Int) log).drop infs.length ∧
    σ.I = (colI log).drop infs.length ∧
    σ.transmissions = (EventSIS.refRun P infs fuel).trans.reverse.map (fun e => (some e.1, e.2.1, e.2.2)) ∧
    (∀ u, alGet σ.infection_times [] u =
      (log.reverse.filter (fun c => c.2.1 == u && c.2.2 == true)).map (fun c => some c.1)) ∧
    (∀ u, alGet σ.recovery_times [] u =
      (log.reverse.filter (fun c => c.2.1 == u && c.2.2 == false)).map (fun c => some c.1)) := by
  obtain ⟨_, hq, _, hout⟩ := gen_run_refines hA infs fuel ts ts' σ h
  obtain ⟨hlog, htr⟩ := EventSIS.nmSIS_refines P infs hW fuel hq ha hd
  simp only
  rw [← hlog, ← htr]
  exact ⟨by rw [hout.times, colT_eq], hout.S, hout.I, hout.transmissions,
    fun u => by rw [hout.infection_times u, evTimes_eq], fun u => by rw [hout.recovery_times u, evTimes_eq]⟩

end GenNMSIS

/-! ### non-vacuity

Example 1 (`exS` of `C13.lean`, two nodes, node 0 initially infected): node 1 is infected at 1/4; its first attempt on
node 0 (at 3/4) falls into node 0's infectious period and is dropped when the chain is queued, its second attempt
(at 9/4) **reinfects** node 0 (second infection, duration 1/2).  -/

namespace C13b
open GenNMSIS

/-- what `fast_nonMarkov_SIS` returns (`times, S, I`, `transmissions`, the per-node infection / recovery times) -/
structure NSView where
  times : List ERat
  S : List Int
  I : List Int
  transmissions : List (ERat × Option Node × Node)
  infection_times : List (Node × List ERat)
  recovery_times : List (Node × List ERat)
deriving DecidableEq, Repr

def nsView (r : Except String (Loc × TapeSt)) : Option NSView :=
  match r with
  | .ok (σ, _) => some ⟨σ.times, σ.S, σ.I, σ.transmissions, σ.infection_times, σ.recovery_times⟩
  | .error _ => none

def exA : NArgs :=
  { nbrs := exS.nbrs, order := 2, tmin := 0, tmax := some 10,
    transRec := fun k u nbrs => pure (nbrs.map (fun v => (v, (exS.delays u v k).map some)), some (exS.dur u k)) }

theorem exA_agree : Agree exA exS := ⟨rfl, rfl, rfl, rfl, fun _ _ _ => rfl⟩

example : nsView (run exA [0] 100 { tape := [] }) = some
    ⟨[some 0, some (1 / 4), some 1, some (9 / 4), some (11 / 4), some (13 / 4)], [1, 0, 1, 0, 1, 2], [1, 2, 1, 2, 1, 0],
     [(some 0, none, 0), (some (1 / 4), some 0, 1), (some (9 / 4), some 1, 0)],
     [(0, [some 0, some (9 / 4)]), (1, [some (1 / 4)])], [(0, [some 1, some (11 / 4)]), (1, [some (13 / 4)])]⟩ := by
  decide +kernel

theorem exS_WF : EventSIS.WF exS [0] where
  nodup := by decide
  nbr_nodup := by intro u hu; simp [exS] at hu; rcases hu with rfl | rfl <;> decide
  nbr_mem := by
    intro u hu v hv; simp [exS] at hu
    rcases hu with rfl | rfl <;> simp [exS] at hv <;> subst hv <;> decide
  noloop := by
    intro u hu
    simp only [exS] at hu
    split at hu
    · rename_i h; subst h; simp at hu
    · split at hu
      · rename_i h; subst h; simp at hu
      · simp at hu
  infs_nodup := by decide
  infs_mem := by decide
  dur_pos := by
    intro u k; simp only [exS]
    split
    · split <;> norm_num
    · norm_num
  delay_pos := by
    intro u v k d hd; simp only [exS] at hd
    split at hd
    · simp at hd; rcases hd with rfl | rfl <;> norm_num
    · simp at hd; subst hd; norm_num
  delay_sorted := by
    intro u v k; simp only [exS]
    split
    · simp; norm_num
    · simp

/-- all hypotheses of `gen_run_refines_reference` hold in example 1: the generated run returns, the reference agenda
is empty and the executed event times are pairwise distinct -/
example : ∃ σ ts', run exA [0] 100 { tape := [] } = .ok (σ, ts') ∧
    (EventSIS.refRun exS [0] 100).agenda = [] ∧
    EventSIS.distinctTimes exS.tmin (EventSIS.refRun exS [0] 100).seen = true := by
  have hq : (EventSIS.run exS [0] 20).queue = [] := by decide +kernel
  obtain ⟨σ, hσ, _⟩ := gen_run_refines_model_back exA_agree [0] 100 { tape := [] } 20 (by decide) hq
  exact ⟨σ, _, hσ, by decide +kernel, by decide +kernel⟩

/-- `gen_run_refines_reference` applied to example 1: the transmissions returned by the generated code are those of
the reference run -/
example (σ : Loc) (ts' : TapeSt) (h : run exA [0] 100 { tape := [] } = .ok (σ, ts')) :
    σ.transmissions = (EventSIS.refRun exS [0] 100).trans.reverse.map (fun e => (some e.1, e.2.1, e.2.2)) :=
  (gen_run_refines_reference exA_agree [0] exS_WF 100 _ _ σ h (by decide +kernel) (by decide +kernel)).2.2.2.1

/-! Example 2: a path 0 – 1 – 2 with both ends initially infected (two synthetic rows dropped), simultaneous events
(the counters break the ties), `tmax = 3` cutting the schedule, node 1 infected three times. -/

def exS2 : SSParams :=
  { nodes := [0, 1, 2], nbrs := fun u => if u = 0 then [1] else if u = 1 then [0, 2] else if u = 2 then [1] else [],
    dur := fun u _ => if u = 1 then 1 / 2 else 1, delays := fun _ _ _ => [1 / 2, 3 / 2, 5 / 2],
    tmin := 0, tmax := 3 }

def exA2 : NArgs :=
  { nbrs := exS2.nbrs, order := 3, tmin := 0, tmax := some 3,
    transRec := fun k u nbrs => pure (nbrs.map (fun v => (v, (exS2.delays u v k).map some)), some (exS2.dur u k)) }

theorem exA2_agree : Agree exA2 exS2 := ⟨rfl, rfl, rfl, rfl, fun _ _ _ => rfl⟩

example : nsView (run exA2 [0, 2] 100 { tape := [] }) = some
    ⟨[some 0, some (1 / 2), some 1, some 1, some 1, some (3 / 2), some 2, some 2, some 2, some (5 / 2)],
     [1, 0, 1, 2, 3, 2, 1, 0, 1, 0], [2, 3, 2, 1, 0, 1, 2, 3, 2, 3],
     [(some 0, none, 0), (some 0, none, 2), (some (1 / 2), some 0, 1), (some (3 / 2), some 0, 1), (some 2, some 1, 0),
      (some 2, some 1, 2), (some (5 / 2), some 0, 1)],
     [(0, [some 0, some 2]), (2, [some 0, some 2]), (1, [some (1 / 2), some (3 / 2), some (5 / 2)])],
     [(0, [some 1]), (2, [some 1]), (1, [some 1, some 2])]⟩ := by
  decide +kernel

/-- the refinement theorem applies to example 2 and the returned state is the model's -/
example : ∃ σ, run exA2 [0, 2] 100 { tape := [] } = .ok (σ, { tape := [] }) ∧
    Out exS2 [0, 2] σ (EventSIS.run exS2 [0, 2] 100) ∧ (EventSIS.run exS2 [0, 2] 100).queue = [] := by
  have hq : (EventSIS.run exS2 [0, 2] 30).queue = [] := by decide +kernel
  obtain ⟨σ, hσ, hout, hst⟩ := gen_run_refines_model_back exA2_agree [0, 2] 100 { tape := [] } 30 (by decide) hq
  exact ⟨σ, hσ, hout, by rw [hst]; exact hq⟩

end C13b

#print axioms GenNMSIS.gen_run_refines_model
#print axioms GenNMSIS.gen_run_refines_model_back
#print axioms GenNMSIS.gen_run_only_fuel_error
#print axioms GenNMSIS.gen_columns
#print axioms GenNMSIS.gen_before_tmax
#print axioms GenNMSIS.gen_recovery_after_dur
#print axioms GenNMSIS.gen_alternates
#print axioms GenNMSIS.gen_trans_is_listed_attempt
#print axioms GenNMSIS.gen_run_refines_reference
#print axioms C13b.exS_WF
