import EoNVerif.Model.ODE2
/-!
One loop iteration of `EBCM_pref_mix_discrete` (`EoN/analytic.py` 5535–5607, loop body 5587–5601), as coded, and the
iteration of `EBCM_discrete` (4995–5065, loop body 5050–5059) built on `ODE.ebcmDiscreteStep`.  Core Lean only.

Dicts keyed by degree are total functions `Nat → Rat` (only the values at keys are meaningful); `ks` is the list
`Pk.keys()`, `nks k1` the list `Pnk[k1].keys()`.
-/
namespace ODE

/-- Python's `x ** (d - 1)` for a degree `d : int ≥ 0`: for `d = 0` the exponent is `-1`
(`x = 0` raises `ZeroDivisionError` there; Lean's `1 / 0 = 0` is then meaningless) -/
def powPred (x : Rat) (d : Nat) : Rat := if d = 0 then 1 / x else x ^ (d - 1)

/-- the loop-carried state of `EBCM_pref_mix_discrete`: `theta[k][-1]`, `S[-1]`, `I[-1]`, `R[-1]` and the dicts
`phiS`, `phiI`, `phiR` -/
structure PrefMixDiscState where
  theta : Nat → Rat
  S : Rat
  I : Rat
  R : Rat
  phiS : Nat → Rat
  phiI : Nat → Rat
  phiR : Nat → Rat

/-- the state before the loop (5579–5586) -/
def prefMixDiscInit (N rho : Rat) : PrefMixDiscState :=
  { theta := fun _ => 1, S := N * (1 - rho), I := N * rho, R := 0,
    phiS := fun _ => 1 - rho, phiI := fun _ => rho, phiR := fun _ => 0 }

/-- one pass through the loop body (5587–5601) -/
def prefMixDiscStep (ks : List Nat) (nks : Nat → List Nat) (N rho p : Rat) (Pk : Nat → Rat) (Pnk : Nat → Nat → Rat)
    (st : PrefMixDiscState) : PrefMixDiscState :=
  let newtheta := fun k => st.theta k - p * st.phiI k
  let newR := st.R + st.I
  let newS := N * (1 - rho) * sumRat (ks.map fun k => Pk k * newtheta k ^ k)
  let newI := N - newR - newS
  let phiS := fun k1 => (1 - rho) * sumRat ((nks k1).map fun k2 => Pnk k1 k2 * powPred (newtheta k2) k2)
  let phiR := fun k => st.phiR k + (1 - p) * st.phiI k
  let phiI := fun k => newtheta k - phiS k - phiR k
  { theta := newtheta, S := newS, I := newI, R := newR, phiS := phiS, phiI := phiI, phiR := phiR }

/-- the state after `n` passes -/
def prefMixDiscRun (ks : List Nat) (nks : Nat → List Nat) (N rho p : Rat) (Pk : Nat → Rat) (Pnk : Nat → Nat → Rat) :
    Nat → PrefMixDiscState
  | 0 => prefMixDiscInit N rho
  | n + 1 => prefMixDiscStep ks nks N rho p Pk Pnk (prefMixDiscRun ks nks N rho p Pk Pnk n)

/-- `EBCM_discrete` after `n` passes: `(theta[-1], S[-1], I[-1], R[-1])`; initial lists 5041–5045 (the
`psihatPrime(1) == 0` repair of 5047–5049 is not modelled: theorems assume `psiHP K c 1 ≠ 0`) -/
def ebcmDiscRun (K : Nat) (c : Nat → Rat) (N p phiS0 phiR0 R0 : Rat) : Nat → Rat × Rat × Rat × Rat
  | 0 => (1, N * psiH K c 1, N - N * psiH K c 1 - R0, R0)
  | n + 1 =>
    let x := ebcmDiscRun K c N p phiS0 phiR0 R0 n
    ebcmDiscreteStep K c N p phiS0 phiR0 x.1 x.2.2.1 x.2.2.2

end ODE
