import EoNVerif.Model.Gillespie
import EoNVerif.Model.ListDictLaw
import EoNVerif.Spec.Chain
/-!
Law interpretation of one iteration of the `while` body of `Gillespie_SIR/SIS`:
`random.random() < total_recovery_rate/total_rate` ↦ Bernoulli(`recThr`), then the rejection sampler of the chosen
`_ListDict_` (`LD.chooseDist`, `k` rounds).  Uses the same threshold expression `recThr` as the tape model `pick`.
-/
namespace Gillespie

def pickDist (P : GParams) (s : GState) (k : Nat) : Dist (Option GEvent) :=
  Dist.bind (Dist.bern (recThr P s)) fun b =>
    if b then Dist.push (fun o => o.map GEvent.recover) (s.inf.chooseDist k)
    else Dist.push (fun o => o.map fun p => GEvent.transmit p.1 p.2) (s.links.chooseDist k)

end Gillespie
