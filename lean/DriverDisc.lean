import Driver
import EoNVerif.Gen.DiscreteGen
open Lean Drv

/-! JSON-lines driver for the code GENERATED from the discrete-time simulators (Gen/DiscreteGen.lean).
ops: "dsir" (discrete_SIR with scripted callbacks, basic_discrete_SIR, percolation_based_discrete_SIR), "dsis"
(basic_discrete_SIS), "perc" (percolate_network), "setorder" (the CPython set-order model alone). -/
namespace DrvGenDisc
open PyDM

def getBig (j : Json) : Except String Nat := do
  match (← getStr j).toNat? with
  | some n => pure n
  | none => .error "bad big number"

def getOptNodes (j : Json) (k : String) : Except String (Option (List Node)) :=
  match fldOpt j k with
  | some .null => pure none
  | some x => (getList getNat x).map some
  | none => pure none

def jHistE (p : Node × (List Rat × List St)) : Json := Json.arr #[jNat p.1, jArr jRat p.2.1, jArr jSt p.2.2]
def jTr (e : Rat × Option Node × Node) : Json :=
  Json.arr #[jRat e.1, (match e.2.1 with | some u => jNat u | none => Json.null), jNat e.2.2]

def getEdges (j : Json) : Except String (List (Node × Node)) :=
  getList (fun e => do match ← getArr e with
    | [a, b] => pure ((← getNat a), (← getNat b))
    | _ => .error "bad edge") j

/-- adjacency of the `nx.Graph` built by `add_edge` in the order of `H` -/
def nbrsOf (H : List (Node × Node)) (u : Node) : List Node :=
  (H.filterMap fun e => if e.1 = u then some e.2 else if e.2 = u then some e.1 else none).eraseDups
def hasEdge (H : List (Node × Node)) (u v : Node) : Bool := H.any fun e => (e.1 == u && e.2 == v) || (e.1 == v && e.2 == u)

def common (j : Json) : Except String DArgs := do
  let adj ← getList (getList getNat) (← fld j "adj")
  let hashes ← getList getBig (← fld j "hashes")
  let p ← match fldOpt j "p" with | some x => getRat x | none => pure 0
  pure { order := (← getNat (← fld j "n")), nbrs := fun u => adj.getD u [], iter := cpyOrder (fun u => hashes.getD u u),
         tmin := ← getRat (← fld j "tmin"), tmax := ← getERat (← fld j "tmax"),
         full := ← getBool (← fld j "full"), p := p,
         testTrans := fun u v => ask [0, u, v], testRec := none,
         initial_infecteds := ← getList getNat (← fld j "infs"), initial_recovereds := ← getOptNodes j "recs" }

def outSIR (s : GenDSIR.Loc) (d : DSt) (ts : TapeSt) (extra : List (String × Json)) : Json :=
  Json.mkObj ([("ok", Json.bool true), ("t", jArr jRat s.t), ("S", jArr jInt s.S), ("I", jArr jInt s.I), ("R", jArr jInt s.R),
    ("trans", jArr jTr s.transmissions), ("history", jArr jHistE s.node_history),
    ("calls", Json.arr (d.calls.map (jArr jNat))), ("answers_left", jNat d.answers.length),
    ("trace", Json.arr (ts.trace.map jCall)), ("unused", jNat ts.tape.length)] ++ extra)

def run (j : Json) : Except String Json := do
  match ← getStr (← fld j "op") with
  | "setorder" =>
    let hashes ← getList getBig (← fld j "hashes")
    let ins ← getList getNat (← fld j "ins")
    pure (Json.mkObj [("ok", Json.bool true), ("order", jArr jNat (cpyOrder (fun u => hashes.getD u u) ins))])
  | "perc" =>
    let edges ← getEdges (← fld j "edges")
    let p ← getRat (← fld j "p")
    let tape ← getList getDraw (← fld j "tape")
    match (GenDisc.percolate_network edges p) { answers := [] } { tape := tape } with
    | .error e => pure (errObj e)
    | .ok ((H, _), ts) => pure (Json.mkObj [("ok", Json.bool true), ("H", jArr (fun e => Json.arr #[jNat e.1, jNat e.2]) H),
        ("trace", Json.arr (ts.trace.map jCall)), ("unused", jNat ts.tape.length)])
  | "dsis" =>
    let P ← common j
    let tape ← getList getDraw (← fld j "tape")
    match (GenDSIS.run P 100000) { answers := [] } { tape := tape } with
    | .error e => pure (errObj e)
    | .ok ((s, _), ts) =>
      pure (Json.mkObj [("ok", Json.bool true), ("t", jArr jRat s.t), ("S", jArr jInt s.S), ("I", jArr jInt s.I),
        ("trans", jArr jTr s.transmissions), ("history", jArr jHistE s.node_history),
        ("trace", Json.arr (ts.trace.map jCall)), ("unused", jNat ts.tape.length)])
  | "dsir" =>
    let P ← common j
    let tape ← getList getDraw (← fld j "tape")
    let answers ← match fldOpt j "answers" with | some x => getList getBool x | none => pure []
    match ← getStr (← fld j "mode") with
    | "cb" =>
      let recrule ← getBool (← fld j "recrule")
      let P := { P with testRec := if recrule then some (fun u => ask [1, u]) else none }
      match (GenDSIR.run P 100000) { answers := answers } { tape := tape } with
      | .error e => pure (errObj e)
      | .ok ((s, d), ts) => pure (outSIR s d ts [])
    | "basic" =>
      match (GenDisc.basic_discrete_SIR P 100000) { answers := [] } { tape := tape } with
      | .error e => pure (errObj e)
      | .ok ((s, d), ts) => pure (outSIR s d ts [])
    | "perc" =>
      let edges ← getEdges (← fld j "edges")
      match (GenDisc.percolation_based_discrete_SIR P edges nbrsOf hasEdge 100000) { answers := [] } { tape := tape } with
      | .error e => pure (errObj e)
      | .ok (((H, s), d), ts) => pure (outSIR s d ts [("H", jArr (fun e => Json.arr #[jNat e.1, jNat e.2]) H)])
    | m => .error ("mode " ++ m)
  | o => .error ("op " ++ o)

def handle (line : String) : String :=
  match Json.parse line with
  | .ok j => match run j with
    | .ok r => r.compress
    | .error e => (errObj ("driverdisc:" ++ e)).compress
  | .error e => (errObj ("parse:" ++ e)).compress
end DrvGenDisc
