import EoNVerif.Proofs.ODE2
/-!
C06 / C07 / C08 — properties of the array-valued right-hand sides (Model/ODE2.lean): heterogeneous
pairwise, effective degree, pair-based, preferential-mixing EBCM.
-/
namespace ODE

/-! ## C06: conservation and signs -/
/-- SIS effective degree conserves the number of nodes on the feasible support (class (s,i) is empty when s+i ≥ A;
square arrays A = B as built by the wrappers) -/
theorem sisEffDeg_conserve (A : Nat) (tau gamma : Rat) (Ssi Isi : Nat → Nat → Rat)
    (hS : ∀ s i, A ≤ s + i → Ssi s i = 0) (hI : ∀ s i, A ≤ s + i → Isi s i = 0) :
    sum2 A A (fun s i => (sisEffDeg A A tau gamma Ssi Isi).1 s i + (sisEffDeg A A tau gamma Ssi Isi).2 s i) = 0 := by
  dsimp only [sisEffDeg]
  exact effDeg_conserve_aux A tau gamma _ _ Ssi Isi hS hI

theorem sirEffDeg_dR (A B : Nat) (tau gamma N : Rat) (Ssi : Nat → Nat → Rat) (R : Rat) :
    (sirEffDeg A B tau gamma N Ssi R).2 = gamma * (N - sum2 A B Ssi - R) := rfl

theorem sirHetPW_signs (K : Nat) (tau gamma : Rat) (Ks S I : Nat → Rat) (SS SI : Nat → Nat → Rat)
    (h2 : 0 ≤ tau) (hSI : ∀ k l, 0 ≤ SI k l) (k : Nat) :
    (sirHetPW K tau gamma Ks S I SS SI).1 k ≤ 0 ∧
    -((sirHetPW K tau gamma Ks S I SS SI).1 k + (sirHetPW K tau gamma Ks S I SS SI).2.1 k) = gamma * I k := by
  dsimp only [sirHetPW]
  have h := sumTo_nonneg K (fun l => SI k l) (fun l _ => hSI k l)
  refine ⟨?_, by ring⟩
  have := mul_nonneg h2 h
  linarith

theorem sirPairBased_signs (nbrs : Nat → List Nat) (tr : Nat → Nat → Rat) (rr : Nat → Rat)
    (X Y : Nat → Rat) (XY XX : Nat → Nat → Rat) (htr : ∀ i j, 0 ≤ tr i j) (hXY : ∀ i j, 0 ≤ XY i j) (i : Nat) :
    let r := sirPairBased nbrs tr rr X Y XY XX
    r.1 i ≤ 0 ∧ -(r.1 i + r.2.1 i) = rr i * Y i := by
  dsimp only [sirPairBased]
  have h := sumRat_map_nonneg (nbrs i) (fun j => tr i j * XY i j) (fun j _ => mul_nonneg (htr i j) (hXY i j))
  refine ⟨by linarith, by ring⟩

/-- the symmetric part of the pair equations: [S_kS_l] stays symmetric -/
theorem sisHetPW_SS_symm (K : Nat) (tau gamma : Rat) (Ks Nk : Nat → Rat) (NkNl : Nat → Nat → Rat)
    (S : Nat → Rat) (SS SI : Nat → Nat → Rat) (k l : Nat) :
    (sisHetPW K tau gamma Ks Nk NkNl S SS SI).2.1 k l = (sisHetPW K tau gamma Ks Nk NkNl S SS SI).2.1 l k := by
  dsimp only [sisHetPW]; ring

/-! ## C08: tau = 0 -/
theorem tau0_sirHetPW (K : Nat) (gamma : Rat) (Ks S I : Nat → Rat) (SS SI : Nat → Nat → Rat) (k : Nat) :
    (sirHetPW K 0 gamma Ks S I SS SI).1 k = 0 ∧ (sirHetPW K 0 gamma Ks S I SS SI).2.1 k = -gamma * I k := by
  dsimp only [sirHetPW]
  constructor <;> ring
theorem tau0_sisHetPW (K : Nat) (gamma : Rat) (Ks Nk : Nat → Rat) (NkNl : Nat → Nat → Rat) (S : Nat → Rat) (SS SI : Nat → Nat → Rat) (k : Nat) :
    (sisHetPW K 0 gamma Ks Nk NkNl S SS SI).1 k = gamma * (Nk k - S k) := by
  dsimp only [sisHetPW]; ring
theorem tau0_sirPairBased (nbrs : Nat → List Nat) (rr : Nat → Rat) (X Y : Nat → Rat) (XY XX : Nat → Nat → Rat) (i : Nat) :
    (sirPairBased nbrs (fun _ _ => 0) rr X Y XY XX).1 i = 0 ∧
    (sirPairBased nbrs (fun _ _ => 0) rr X Y XY XX).2.1 i = -rr i * Y i := by
  dsimp only [sirPairBased]
  rw [sumRat_map_zero (nbrs i) (fun j => 0 * XY i j) (fun j _ => zero_mul _)]
  constructor <;> ring
theorem tau0_sisPairBased (nbrs : Nat → List Nat) (rr : Nat → Rat) (Y : Nat → Rat) (XY XX : Nat → Nat → Rat) (i : Nat) :
    (sisPairBased nbrs (fun _ _ => 0) rr Y XY XX).1 i = -rr i * Y i := by
  dsimp only [sisPairBased]
  rw [sumRat_map_zero (nbrs i) (fun j => 0 * XY i j) (fun j _ => zero_mul _)]
  ring
theorem tau0_ebcmPrefMix (ks : List Nat) (rho gamma : Rat) (Pk : Nat → Rat) (Pnk : Nat → Nat → Rat)
    (R : Rat) (theta phiR : Nat → Rat) (d : Nat) :
    (ebcmPrefMix ks rho 0 gamma Pk Pnk R theta phiR).2.1 d = 0 := by
  dsimp only [ebcmPrefMix]; ring
/-- effective degree with tau = 0: the number of susceptible nodes is constant on the feasible support
(the support hypothesis is in fact not needed here: only the `i → i-1` recovery shift survives) -/
theorem tau0_sirEffDeg_total (A : Nat) (gamma N : Rat) (Ssi : Nat → Nat → Rat) (R : Rat)
    (hS : ∀ s i, A ≤ s + i → Ssi s i = 0) :
    sum2 A A (sirEffDeg A A 0 gamma N Ssi R).1 = 0 := by
  dsimp only [sirEffDeg]
  rw [sum2_congr A A _
    (fun s i => gamma * ((kf i + 1) * (if i + 1 = A then 0 else Ssi s (i + 1)) - kf i * Ssi s i))
    (fun s i _ _ => by ring)]
  rw [sum2_mul_left, sum2_sub, sum2_ip1]
  ring

/-! ## C08: gamma = 0 -/
theorem gamma0_hetPW (K : Nat) (tau : Rat) (Ks Nk : Nat → Rat) (NkNl : Nat → Nat → Rat)
    (S I : Nat → Rat) (SS SI : Nat → Nat → Rat) (hK : ∀ k, Ks k ≠ 0) (hS : ∀ k, S k ≠ 0) (k l : Nat) :
    (sisHetPW K tau 0 Ks Nk NkNl S SS SI).1 k = (sirHetPW K tau 0 Ks S I SS SI).1 k ∧
    (sisHetPW K tau 0 Ks Nk NkNl S SS SI).2.1 k l = (sirHetPW K tau 0 Ks S I SS SI).2.2.1 k l ∧
    (sisHetPW K tau 0 Ks Nk NkNl S SS SI).2.2 k l = (sirHetPW K tau 0 Ks S I SS SI).2.2.2 k l := by
  have e1 : ∀ k, nz (Ks k) = Ks k := fun k => if_neg (hK k)
  have e2 : ∀ k, nz (S k) = S k := fun k => if_neg (hS k)
  have e3 : ∀ k, nz (Ks k * S k) = Ks k * S k := fun k => if_neg (mul_ne_zero (hK k) (hS k))
  dsimp only [sisHetPW, sirHetPW]
  simp only [e1, e2, e3]
  refine ⟨by ring, by ring, by ring⟩

theorem gamma0_pairBased (nbrs : Nat → List Nat) (tr : Nat → Nat → Rat) (Y : Nat → Rat) (XY XX : Nat → Nat → Rat) (i j : Nat) :
    let a := sisPairBased nbrs tr (fun _ => 0) Y XY XX
    let b := sirPairBased nbrs tr (fun _ => 0) (fun u => 1 - Y u) Y XY XX
    b.1 i = -(a.1 i) ∧ a.2.1 i j = b.2.2.1 i j ∧ a.2.2 i j = b.2.2.2 i j := by
  dsimp only [sisPairBased, sirPairBased]
  refine ⟨by ring, ?_, ?_⟩
  · split
    · ring
    · rfl
  · split
    · ring
    · rfl

/-! ## C07: preferential mixing with uncorrelated mixing = EBCM -/
/-- uncorrelated mixing: `Pnk d d' = d' P_{d'} / ⟨k⟩`; on the invariant subspace θ_d ≡ θ, φR_d ≡ γ(1-θ)/τ the
preferential-mixing model moves exactly like EBCM with ψ̂ = (1-ρ)ψ, φ_S(0) = 1-ρ, φ_R(0) = 0 (K > every degree in ks,
c d = P_d for d ∈ ks and 0 otherwise) -/
theorem prefMix_uncorrelated (ks : List Nat) (hks : ks.Nodup) (K : Nat) (hK : ∀ d ∈ ks, d < K)
    (rho tau gamma N : Rat) (Pk : Nat → Rat) (hP0 : ∀ d, d ∉ ks → Pk d = 0)
    (ht : tau ≠ 0) (hN : N ≠ 0) (hr : 1 - rho ≠ 0)
    (hmean : psiHP K Pk 1 ≠ 0) (theta R : Rat) (d : Nat) (hd : d ∈ ks) :
    let kave := psiHP K Pk 1
    let r := ebcmPrefMix ks rho tau gamma Pk (fun _ d' => (d' : Rat) * Pk d' / kave) R (fun _ => theta) (fun _ => gamma * (1 - theta) / tau)
    let e := ebcm K (fun k => (1 - rho) * Pk k) N tau gamma (1 - rho) 0 theta (N * R)
    r.2.1 d = e.1 ∧ r.2.2 d = -(gamma / tau) * e.1 ∧ N * r.1 = e.2 := by
  dsimp only [ebcmPrefMix, ebcm]
  rw [sumRat_ks_psiHP K ks hks hK Pk hP0, sumRat_ks_psiH K ks hks hK Pk hP0, psiHP_smul, psiHP_smul, psiH_smul]
  refine ⟨?_, ?_, ?_⟩
  · field_simp; ring
  · field_simp; ring
  · ring

/-! ## C07: pair-based on an n-regular graph with uniform state = homogeneous pairwise -/
theorem pairBased_sir_regular (nbrs : Nat → List Nat) (n : Nat) (tau gamma x y xy xx Ntot : Rat)
    (hdeg : ∀ i, (nbrs i).length = n) (hnd : ∀ i, (nbrs i).Nodup) (i j : Nat) (hij : j ∈ nbrs i) (hji : i ∈ nbrs j)
    (hx : x ≠ 0) (hn : (n : Rat) ≠ 0) (hN : Ntot ≠ 0) :
    let r := sirPairBased nbrs (fun _ _ => tau) (fun _ => gamma) (fun _ => x) (fun _ => y) (fun _ _ => xy) (fun _ _ => xx)
    let h := sirHomPW (n : Rat) tau gamma (Ntot * x) (Ntot * y) (Ntot * n * xy) (Ntot * n * xx)
    Ntot * r.1 i = h.1 ∧ Ntot * r.2.1 i = h.2.1 ∧
    Ntot * n * r.2.2.1 i j = h.2.2.1 ∧ Ntot * n * r.2.2.2 i j = h.2.2.2 := by
  have hc : (nbrs i).contains j = true := by simpa using hij
  have l1 := filter_ne_length_cast (nbrs j) i n (hnd j) hji (hdeg j)
  have l2 := filter_ne_length_cast (nbrs i) j n (hnd i) hij (hdeg i)
  have hxi : xinv x = 1 / x := if_neg hx
  dsimp only [sirPairBased, sirHomPW]
  rw [if_pos hc, if_pos hc]
  simp only [sumRat_map_const, l1, l2, hdeg, hxi]
  refine ⟨by ring, by ring, ?_, ?_⟩
  · field_simp; ring
  · field_simp; ring

/-! ## non-vacuity -/
/-- `sirPairBased` on a triangle (nodes 0,1,2) in a uniform state -/
example :
    let nbrs : Nat → List Nat := fun i => if i = 0 then [1, 2] else if i = 1 then [0, 2] else if i = 2 then [0, 1] else []
    let r := sirPairBased nbrs (fun _ _ => 2) (fun _ => 1) (fun _ => 1 / 2) (fun _ => 1 / 4) (fun _ _ => 1 / 8) (fun _ _ => 1 / 4)
    r.1 0 = -1 / 2 ∧ r.2.1 0 = 1 / 4 ∧ r.2.2.1 0 1 = -5 / 16 ∧ r.2.2.2 0 1 = -1 / 4 ∧ r.2.2.1 0 0 = 0 := by
  simp [sirPairBased, xinv]
  norm_num

/-- `sisEffDeg` on a 2×2 array (degree ≤ 1 nodes): the entries are non-trivial and sum to zero -/
example :
    let S : Nat → Nat → Rat := fun s i => if s = 0 ∧ i = 0 then 1 else if s = 1 ∧ i = 0 then 3 else if s = 0 ∧ i = 1 then 2 else 0
    let I : Nat → Nat → Rat := fun s i => if s = 0 ∧ i = 0 then 1 else if s = 1 ∧ i = 0 then 2 else if s = 0 ∧ i = 1 then 1 else 0
    let r := sisEffDeg 2 2 3 5 S I
    r.1 0 1 = -11 ∧ r.1 1 0 = 20 ∧ r.2 0 1 = 2 ∧ r.2 1 0 = -11 ∧
    sum2 2 2 (fun s i => r.1 s i + r.2 s i) = 0 := by
  simp [sisEffDeg, sum2, sumTo, kf, List.range_succ]
  norm_num

end ODE
