import EoNVerif.Gen.AnalyticLoopsL
import EoNVerif.Gen.AnalyticLoops
import EoNVerif.Proofs.GenEqLoops
import EoNVerif.Proofs.GenEqLoops2
import Mathlib.Tactic.Ring
import Mathlib.Data.List.Perm.Basic
import Mathlib.Data.List.Nodup
import Mathlib.Algebra.Group.Pi.Basic
import Mathlib.Algebra.Group.Prod
/-!
Label ↔ index mapping of the node-level ODE right-hand sides of `EoN/analytic.py` (C14).

`Gen/AnalyticLoopsL.lean` (namespace `GenL`) is the translation that keeps the node LABELS (`nodelist`, the dict
`index_of_node` as `idx`, `G.neighbors` / rate functions on labels); `Gen/AnalyticLoops.lean` (namespace `Gen`) is the
translation in which a node is its array position.

Main tool: a *label morphism* `LabelMor φ nl …` between two labelled instances (`φ` renames the labels of `nl`,
injectively, and all the data — `index_of_node`, neighbour lists, rates — are transported along `φ` on `nl`).  The
four labelled functions return literally the same vector on both instances (`*_mor`).  Special cases:
* `φ = idx`: the target is the index-level instance (`nodelist = range N`, `idx = id`) = the `Gen` function
  (`*_range`): label erasure;
* `φ = f` an arbitrary injective renaming: relabelling invariance.

Order of the neighbour lists: every loop iteration of the pair-based functions is a *shift* `s ↦ s + δ` of the tuple of
arrays (`IsShift`), a loop of shifts does not depend on the order of its iteration list (`foldl_perm_shift`).
Order of `nodelist`: closed form of the individual-based functions in label-indexed data (`*_label_form`); for the
pair-based functions the outer loop is a loop of shifts (`*LoopL_order`) and the two runs (positions `idx` / `idx'`)
are related by a simulation (`foldl_sim`, `*_sim`).
-/
set_option linter.unusedVariables false
set_option linter.unusedSimpArgs false
namespace GenLabel
open Gen

/-! ## definitions -/

/-- well-formed labelled instance: `nodelist` has no repeated label, `idx` is
`{node: i for i, node in enumerate(nodelist)}`, neighbours of listed nodes are listed -/
def LabelOK (nodelist : List Nat) (idx : Nat → Nat) (nbrs : Nat → List Nat) : Prop :=
  nodelist.Nodup ∧ (∀ i (h : i < nodelist.length), idx (nodelist[i]) = i) ∧
  (∀ u ∈ nodelist, ∀ v ∈ nbrs u, v ∈ nodelist)

/-- erasure to index space -/
def eraseNbrs (nodelist : List Nat) (idx : Nat → Nat) (nbrs : Nat → List Nat) : Nat → List Nat :=
  fun i => (nbrs (nodelist.getD i 0)).map idx
def eraseTr (nodelist : List Nat) (tr : Nat → Nat → Rat) : Nat → Nat → Rat :=
  fun i j => tr (nodelist.getD i 0) (nodelist.getD j 0)
def eraseRr (nodelist : List Nat) (rr : Nat → Rat) : Nat → Rat :=
  fun i => rr (nodelist.getD i 0)

/-- `φ` transports the labelled instance `(nl, idx, nbrs, tr, rr)` to `(nl.map φ, idx', nbrs', tr', rr')` -/
structure LabelMor (φ : Nat → Nat) (nl : List Nat)
    (idx : Nat → Nat) (nbrs : Nat → List Nat) (tr : Nat → Nat → Rat) (rr : Nat → Rat)
    (idx' : Nat → Nat) (nbrs' : Nat → List Nat) (tr' : Nat → Nat → Rat) (rr' : Nat → Rat) : Prop where
  inj : ∀ u ∈ nl, ∀ v ∈ nl, φ u = φ v → u = v
  closed : ∀ u ∈ nl, ∀ v ∈ nbrs u, v ∈ nl
  hidx : ∀ u ∈ nl, idx' (φ u) = idx u
  hnbrs : ∀ u ∈ nl, nbrs' (φ u) = (nbrs u).map φ
  htr : ∀ u ∈ nl, ∀ v ∈ nl, tr' (φ u) (φ v) = tr u v
  hrr : ∀ u ∈ nl, rr' (φ u) = rr u

/-! ## generic list lemmas -/

theorem foldl_congr_mem {σ α : Type} (F G : σ → α → σ) (l : List α) (h : ∀ a ∈ l, ∀ s, F s a = G s a) (s : σ) :
    l.foldl F s = l.foldl G s := by
  induction l generalizing s with
  | nil => rfl
  | cons a t ih =>
    simp only [List.foldl_cons]
    rw [h a (by simp), ih (fun b hb => h b (by simp [hb]))]

theorem foldl_map_congr {σ α β : Type} (φ : α → β) (F' : σ → β → σ) (F : σ → α → σ) (l : List α)
    (h : ∀ a ∈ l, ∀ s, F' s (φ a) = F s a) (s : σ) :
    (l.map φ).foldl F' s = l.foldl F s := by
  rw [List.foldl_map]
  exact foldl_congr_mem _ _ l h s

theorem getD_mem (l : List Nat) (i : Nat) (h : i < l.length) : l.getD i 0 ∈ l := by
  rw [List.getD_eq_getElem?_getD, List.getElem?_eq_getElem h, Option.getD_some]
  exact List.getElem_mem h

theorem getD_map (φ : Nat → Nat) (l : List Nat) (i : Nat) (h : i < l.length) :
    (l.map φ).getD i 0 = φ (l.getD i 0) := by
  rw [List.getD_eq_getElem?_getD, List.getD_eq_getElem?_getD, List.getElem?_map, List.getElem?_eq_getElem h]
  rfl

theorem getD_range (N i : Nat) (h : i < N) : (List.range N).getD i 0 = i := by
  rw [List.getD_eq_getElem?_getD, List.getElem?_eq_getElem (by simpa using h), Option.getD_some, List.getElem_range]

/-! ## facts about `LabelOK` -/

theorem LabelOK.map_idx {nl : List Nat} {idx : Nat → Nat} {nbrs : Nat → List Nat} (h : LabelOK nl idx nbrs) :
    nl.map idx = List.range nl.length := by
  apply List.ext_getElem
  · simp
  · intro i h1 h2
    rw [List.getElem_map, List.getElem_range]
    exact h.2.1 i (by simpa using h1)

theorem LabelOK.getD_idx {nl : List Nat} {idx : Nat → Nat} {nbrs : Nat → List Nat} (h : LabelOK nl idx nbrs)
    (u : Nat) (hu : u ∈ nl) : nl.getD (idx u) 0 = u := by
  obtain ⟨i, hi, rfl⟩ := List.getElem_of_mem hu
  rw [h.2.1 i hi, List.getD_eq_getElem?_getD, List.getElem?_eq_getElem hi, Option.getD_some]

theorem LabelOK.idx_lt {nl : List Nat} {idx : Nat → Nat} {nbrs : Nat → List Nat} (h : LabelOK nl idx nbrs)
    (u : Nat) (hu : u ∈ nl) : idx u < nl.length := by
  obtain ⟨i, hi, rfl⟩ := List.getElem_of_mem hu
  rw [h.2.1 i hi]; exact hi

theorem LabelOK.idx_inj {nl : List Nat} {idx : Nat → Nat} {nbrs : Nat → List Nat} (h : LabelOK nl idx nbrs)
    (u : Nat) (hu : u ∈ nl) (v : Nat) (hv : v ∈ nl) (e : idx u = idx v) : u = v := by
  rw [← h.getD_idx u hu, ← h.getD_idx v hv, e]

/-- label erasure is a label morphism (along `idx`) onto the index-level instance -/
theorem LabelOK.mor_erase {nl : List Nat} {idx : Nat → Nat} {nbrs : Nat → List Nat} (h : LabelOK nl idx nbrs)
    (tr : Nat → Nat → Rat) (rr : Nat → Rat) :
    LabelMor idx nl idx nbrs tr rr id (eraseNbrs nl idx nbrs) (eraseTr nl tr) (eraseRr nl rr) where
  inj := h.idx_inj
  closed := h.2.2
  hidx := fun u hu => rfl
  hnbrs := fun u hu => by simp only [eraseNbrs, h.getD_idx u hu]
  htr := fun u hu v hv => by simp only [eraseTr, h.getD_idx u hu, h.getD_idx v hv]
  hrr := fun u hu => by simp only [eraseRr, h.getD_idx u hu]

/-- renaming all labels by `f` (left inverse `g` on the labels) is a label morphism -/
theorem mor_rename (f g : Nat → Nat) (nl : List Nat) (idx : Nat → Nat) (nbrs : Nat → List Nat)
    (tr : Nat → Nat → Rat) (rr : Nat → Rat)
    (hg : ∀ u ∈ nl, g (f u) = u) (hc : ∀ u ∈ nl, ∀ v ∈ nbrs u, v ∈ nl) :
    LabelMor f nl idx nbrs tr rr (idx ∘ g) (fun u => (nbrs (g u)).map f) (fun u v => tr (g u) (g v))
      (fun u => rr (g u)) where
  inj := fun u hu v hv e => by rw [← hg u hu, ← hg v hv, e]
  closed := hc
  hidx := fun u hu => by simp only [Function.comp, hg u hu]
  hnbrs := fun u hu => by simp only [hg u hu]
  htr := fun u hu v hv => by simp only [hg u hu, hg v hv]
  hrr := fun u hu => by simp only [hg u hu]

/-! ## individual-based functions -/

section individual
variable {φ : Nat → Nat} {nl : List Nat} {idx : Nat → Nat} {nbrs : Nat → List Nat} {tr : Nat → Nat → Rat}
  {rr : Nat → Rat} {idx' : Nat → Nat} {nbrs' : Nat → List Nat} {tr' : Nat → Nat → Rat} {rr' : Nat → Rat}

theorem sisInd_mor (H : LabelMor φ nl idx nbrs tr rr idx' nbrs' tr' rr') (Y : V) :
    GenL.dSIS_individual_basedL Y (nl.map φ) idx' nbrs' tr' rr' = GenL.dSIS_individual_basedL Y nl idx nbrs tr rr := by
  unfold GenL.dSIS_individual_basedL
  simp only [List.length_map]
  congr 1
  apply foldl_congr_mem
  intro i hi st
  have hi' : i < nl.length := List.mem_range.1 hi
  have hm := getD_mem nl i hi'
  simp only [getD_map φ nl i hi', H.hnbrs _ hm, H.hrr _ hm, List.map_map]
  congr 3
  apply List.map_congr_left
  intro v hv
  have hv' := H.closed _ hm v hv
  simp only [Function.comp, H.htr _ hm _ hv', H.hidx _ hv']

theorem sirInd_mor (H : LabelMor φ nl idx nbrs tr rr idx' nbrs' tr' rr') (Vst : V) :
    GenL.dSIR_individual_basedL Vst (nl.map φ) idx' nbrs' tr' rr' = GenL.dSIR_individual_basedL Vst nl idx nbrs tr rr := by
  unfold GenL.dSIR_individual_basedL
  simp only [List.length_map]
  refine congrArg (fun r : (Nat → Rat) × (Nat → Rat) => V.append ⟨nl.length, r.1⟩ ⟨nl.length, r.2⟩)
    (foldl_congr_mem _ _ _ ?_ _)
  intro i hi st
  obtain ⟨dX, dY⟩ := st
  have hi' : i < nl.length := List.mem_range.1 hi
  have hm := getD_mem nl i hi'
  have hs : (nbrs (nl.getD i 0)).map ((fun nbr => tr' (φ (nl.getD i 0)) nbr * Vst.f (nl.length + idx' nbr)) ∘ φ)
      = (nbrs (nl.getD i 0)).map (fun nbr => tr (nl.getD i 0) nbr * Vst.f (nl.length + idx nbr)) := by
    apply List.map_congr_left
    intro v hv
    have hv' := H.closed _ hm v hv
    simp only [Function.comp, H.htr _ hm _ hv', H.hidx _ hv']
  simp only [getD_map φ nl i hi', H.hnbrs _ hm, H.hrr _ hm, List.map_map, hs]

/-- the index-level function is the labelled function on the instance `nodelist = range N`, `index_of_node = id` -/
theorem sisInd_range (Y : V) (N : Nat) (nbrs : Nat → List Nat) (tr : Nat → Nat → Rat) (rr : Nat → Rat) :
    GenL.dSIS_individual_basedL Y (List.range N) id nbrs tr rr = Gen.dSIS_individual_based Y N nbrs tr rr := by
  unfold GenL.dSIS_individual_basedL Gen.dSIS_individual_based
  simp only [List.length_range]
  congr 1
  apply foldl_congr_mem
  intro i hi st
  simp only [getD_range N i (List.mem_range.1 hi), id]

theorem sirInd_range (Vst : V) (N : Nat) (nbrs : Nat → List Nat) (tr : Nat → Nat → Rat) (rr : Nat → Rat) :
    GenL.dSIR_individual_basedL Vst (List.range N) id nbrs tr rr = Gen.dSIR_individual_based Vst N nbrs tr rr := by
  unfold GenL.dSIR_individual_basedL Gen.dSIR_individual_based
  simp only [List.length_range]
  refine congrArg (fun r : (Nat → Rat) × (Nat → Rat) => V.append ⟨N, r.1⟩ ⟨N, r.2⟩)
    (foldl_congr_mem _ _ _ ?_ _)
  intro i hi st
  simp only [getD_range N i (List.mem_range.1 hi), id]

end individual

/-! ## pair-based functions: the labelled loop nests with named step functions -/

open GenEqLoops2 (A M xinvG flat)

section stepsL
variable (idx : Nat → Nat) (nbrs : Nat → List Nat) (tr : Nat → Nat → Rat) (rr : Nat → Rat) (xi : A) (xy xx : M)

/-- `for w in G.neighbors(v): if w == u: continue; k = idx[w]; dXY[i,j] += …; dXX[i,j] += …` -/
def skip1L (u v : Nat) (st : M × M) (w : Nat) : M × M :=
  if w = u then st else
    (upd2 st.1 (idx u) (idx v) (st.1 (idx u) (idx v)
        + ((((tr v w) * (xx (idx u) (idx v))) * (xy (idx v) (idx w))) * (xi (idx v)))),
     upd2 st.2 (idx u) (idx v) (st.2 (idx u) (idx v)
        + ((((-(tr v w)) * (xx (idx u) (idx v))) * (xy (idx v) (idx w))) * (xi (idx v)))))

/-- `for w in G.neighbors(u): if w == v: continue; k = idx[w]; dXY[i,j] += …; dXX[i,j] += …` -/
def skip2L (u v : Nat) (st : M × M) (w : Nat) : M × M :=
  if w = v then st else
    (upd2 st.1 (idx u) (idx v) (st.1 (idx u) (idx v)
        + ((((-(tr u w)) * (xy (idx u) (idx w))) * (xy (idx u) (idx v))) * (xi (idx u)))),
     upd2 st.2 (idx u) (idx v) (st.2 (idx u) (idx v)
        + ((((-(tr u w)) * (xy (idx u) (idx w))) * (xx (idx u) (idx v))) * (xi (idx u)))))

def triL (u v : Nat) (st : M × M) : M × M :=
  (nbrs u).foldl (skip2L idx tr xi xy xx u v) ((nbrs v).foldl (skip1L idx tr xi xy xx u v) st)

def sisStepVL (u : Nat) (st : A × M × M) (v : Nat) : A × M × M :=
  let r := triL idx nbrs tr xi xy xx u v
    (upd2 st.2.1 (idx u) (idx v) (st.2.1 (idx u) (idx v)
        + (((-((tr u v) + (rr v))) * (xy (idx u) (idx v)))
          + ((rr u) * ((((1 : Rat) - (xy (idx u) (idx v))) - (xx (idx u) (idx v))) - (xy (idx v) (idx u)))))),
     upd2 st.2.2 (idx u) (idx v) (st.2.2 (idx u) (idx v)
        + (((rr u) * (xy (idx v) (idx u))) + ((rr v) * (xy (idx u) (idx v))))))
  (upd1 st.1 (idx u) (st.1 (idx u) + (tr u v) * (xy (idx u) (idx v))), r.1, r.2)

def sisStepUL (y : A) (st : A × M × M) (u : Nat) : A × M × M :=
  (nbrs u).foldl (sisStepVL idx nbrs tr rr xi xy xx u)
    (upd1 st.1 (idx u) (st.1 (idx u) + (-(rr u)) * (y (idx u))), st.2.1, st.2.2)

def sisLoopL (nl : List Nat) (y : A) : A × M × M :=
  nl.foldl (sisStepUL idx nbrs tr rr xi xy xx y) (fun _ => 0, fun _ _ => 0, fun _ _ => 0)

def sirStepVL (u : Nat) (st : A × A × M × M) (v : Nat) : A × A × M × M :=
  let r := triL idx nbrs tr xi xy xx u v
    (upd2 st.2.2.1 (idx u) (idx v) (st.2.2.1 (idx u) (idx v) + ((-((tr u v) + (rr v))) * (xy (idx u) (idx v)))),
     st.2.2.2)
  (upd1 st.1 (idx u) (st.1 (idx u) + (-(tr u v)) * (xy (idx u) (idx v))),
   upd1 st.2.1 (idx u) (st.2.1 (idx u) + (tr u v) * (xy (idx u) (idx v))), r.1, r.2)

def sirStepUL (y : A) (st : A × A × M × M) (u : Nat) : A × A × M × M :=
  let r := (nbrs u).foldl (sirStepVL idx nbrs tr rr xi xy xx u)
    (st.2.1, upd1 st.1 (idx u) (st.1 (idx u) + (-(rr u)) * (y (idx u))), st.2.2.1, st.2.2.2)
  (r.2.1, r.1, r.2.2.1, r.2.2.2)

def sirLoopL (nl : List Nat) (y : A) : A × A × M × M :=
  nl.foldl (sirStepUL idx nbrs tr rr xi xy xx y) (fun _ => 0, fun _ => 0, fun _ _ => 0, fun _ _ => 0)

end stepsL

/-- the generated labelled `_dSIS_pair_based_` IS the loop nest `sisLoopL` (by unfolding) -/
theorem genL_sis_loop (Vst : V) (nl : List Nat) (idx : Nat → Nat) (nbrs : Nat → List Nat) (tr : Nat → Nat → Rat)
    (rr : Nat → Rat) :
    GenL.dSIS_pair_basedL Vst nl idx nbrs tr rr =
      (let N := nl.length
       let y : A := fun i => Vst.f (0 + i)
       let r := sisLoopL idx nbrs tr rr (fun i => xinvG (1 - y i))
         (fun a b => Vst.f (N + (a * N + b))) (fun a b => Vst.f ((N + N * N) + (a * N + b))) nl y
       V.append ⟨N, r.1⟩ (V.append (flat N N r.2.1) (flat N N r.2.2))) := rfl

/-- the generated labelled `_dSIR_pair_based_` IS the loop nest `sirLoopL` (by unfolding) -/
theorem genL_sir_loop (Vst : V) (nl : List Nat) (idx : Nat → Nat) (nbrs : Nat → List Nat) (tr : Nat → Nat → Rat)
    (rr : Nat → Rat) :
    GenL.dSIR_pair_basedL Vst nl idx nbrs tr rr =
      (let N := nl.length
       let x : A := fun i => Vst.f (0 + i)
       let r := sirLoopL idx nbrs tr rr (fun i => xinvG (x i))
         (fun a b => Vst.f ((2 * N) + (a * N + b))) (fun a b => Vst.f (((2 * N) + N * N) + (a * N + b))) nl
         (fun i => Vst.f (N + i))
       V.append ⟨N, r.2.1⟩ (V.append ⟨N, r.1⟩ (V.append (flat N N r.2.2.1) (flat N N r.2.2.2)))) := rfl

/-! ### the step functions are transported along a label morphism -/

section mor
variable {φ : Nat → Nat} {nl : List Nat} {idx : Nat → Nat} {nbrs : Nat → List Nat} {tr : Nat → Nat → Rat}
  {rr : Nat → Rat} {idx' : Nat → Nat} {nbrs' : Nat → List Nat} {tr' : Nat → Nat → Rat} {rr' : Nat → Rat}
  (H : LabelMor φ nl idx nbrs tr rr idx' nbrs' tr' rr') (xi : A) (xy xx : M)
include H

theorem skip1L_mor (u v w : Nat) (hu : u ∈ nl) (hv : v ∈ nl) (hw : w ∈ nl) (st : M × M) :
    skip1L idx' tr' xi xy xx (φ u) (φ v) st (φ w) = skip1L idx tr xi xy xx u v st w := by
  have hc : (φ w = φ u) = (w = u) := propext ⟨H.inj w hw u hu, fun e => congrArg φ e⟩
  simp only [skip1L, H.hidx u hu, H.hidx v hv, H.hidx w hw, H.htr v hv w hw, hc]

theorem skip2L_mor (u v w : Nat) (hu : u ∈ nl) (hv : v ∈ nl) (hw : w ∈ nl) (st : M × M) :
    skip2L idx' tr' xi xy xx (φ u) (φ v) st (φ w) = skip2L idx tr xi xy xx u v st w := by
  have hc : (φ w = φ v) = (w = v) := propext ⟨H.inj w hw v hv, fun e => congrArg φ e⟩
  simp only [skip2L, H.hidx u hu, H.hidx v hv, H.hidx w hw, H.htr u hu w hw, hc]

theorem triL_mor (u v : Nat) (hu : u ∈ nl) (hv : v ∈ nl) (st : M × M) :
    triL idx' nbrs' tr' xi xy xx (φ u) (φ v) st = triL idx nbrs tr xi xy xx u v st := by
  unfold triL
  rw [H.hnbrs u hu, H.hnbrs v hv,
    foldl_map_congr φ _ (skip1L idx tr xi xy xx u v) (nbrs v)
      (fun w hw s => skip1L_mor H xi xy xx u v w hu hv (H.closed v hv w hw) s),
    foldl_map_congr φ _ (skip2L idx tr xi xy xx u v) (nbrs u)
      (fun w hw s => skip2L_mor H xi xy xx u v w hu hv (H.closed u hu w hw) s)]

theorem sisStepVL_mor (u v : Nat) (hu : u ∈ nl) (hv : v ∈ nl) (st : A × M × M) :
    sisStepVL idx' nbrs' tr' rr' xi xy xx (φ u) st (φ v) = sisStepVL idx nbrs tr rr xi xy xx u st v := by
  simp only [sisStepVL, triL_mor H xi xy xx u v hu hv, H.hidx u hu, H.hidx v hv, H.htr u hu v hv, H.hrr u hu,
    H.hrr v hv]

theorem sisStepUL_mor (y : A) (u : Nat) (hu : u ∈ nl) (st : A × M × M) :
    sisStepUL idx' nbrs' tr' rr' xi xy xx y st (φ u) = sisStepUL idx nbrs tr rr xi xy xx y st u := by
  unfold sisStepUL
  rw [H.hnbrs u hu, H.hidx u hu, H.hrr u hu,
    foldl_map_congr φ _ (sisStepVL idx nbrs tr rr xi xy xx u) (nbrs u)
      (fun v hv s => sisStepVL_mor H xi xy xx u v hu (H.closed u hu v hv) s)]

theorem sisLoopL_mor (y : A) :
    sisLoopL idx' nbrs' tr' rr' xi xy xx (nl.map φ) y = sisLoopL idx nbrs tr rr xi xy xx nl y := by
  unfold sisLoopL
  exact foldl_map_congr φ _ _ nl (fun u hu s => sisStepUL_mor H xi xy xx y u hu s) _

theorem sirStepVL_mor (u v : Nat) (hu : u ∈ nl) (hv : v ∈ nl) (st : A × A × M × M) :
    sirStepVL idx' nbrs' tr' rr' xi xy xx (φ u) st (φ v) = sirStepVL idx nbrs tr rr xi xy xx u st v := by
  simp only [sirStepVL, triL_mor H xi xy xx u v hu hv, H.hidx u hu, H.hidx v hv, H.htr u hu v hv, H.hrr u hu,
    H.hrr v hv]

theorem sirStepUL_mor (y : A) (u : Nat) (hu : u ∈ nl) (st : A × A × M × M) :
    sirStepUL idx' nbrs' tr' rr' xi xy xx y st (φ u) = sirStepUL idx nbrs tr rr xi xy xx y st u := by
  unfold sirStepUL
  rw [H.hnbrs u hu, H.hidx u hu, H.hrr u hu,
    foldl_map_congr φ _ (sirStepVL idx nbrs tr rr xi xy xx u) (nbrs u)
      (fun v hv s => sirStepVL_mor H xi xy xx u v hu (H.closed u hu v hv) s)]

theorem sirLoopL_mor (y : A) :
    sirLoopL idx' nbrs' tr' rr' xi xy xx (nl.map φ) y = sirLoopL idx nbrs tr rr xi xy xx nl y := by
  unfold sirLoopL
  exact foldl_map_congr φ _ _ nl (fun u hu s => sirStepUL_mor H xi xy xx y u hu s) _

omit H in
theorem sisPair_mor (H : LabelMor φ nl idx nbrs tr rr idx' nbrs' tr' rr') (Vst : V) :
    GenL.dSIS_pair_basedL Vst (nl.map φ) idx' nbrs' tr' rr' = GenL.dSIS_pair_basedL Vst nl idx nbrs tr rr := by
  rw [genL_sis_loop, genL_sis_loop]
  simp only [List.length_map, sisLoopL_mor H]

omit H in
theorem sirPair_mor (H : LabelMor φ nl idx nbrs tr rr idx' nbrs' tr' rr') (Vst : V) :
    GenL.dSIR_pair_basedL Vst (nl.map φ) idx' nbrs' tr' rr' = GenL.dSIR_pair_basedL Vst nl idx nbrs tr rr := by
  rw [genL_sir_loop, genL_sir_loop]
  simp only [List.length_map, sirLoopL_mor H]

end mor

/-- the index-level function is the labelled function on the instance `nodelist = range N`, `index_of_node = id` -/
theorem sisPair_range (Vst : V) (N : Nat) (nbrs : Nat → List Nat) (tr : Nat → Nat → Rat) (rr : Nat → Rat) :
    GenL.dSIS_pair_basedL Vst (List.range N) id nbrs tr rr = Gen.dSIS_pair_based Vst N nbrs tr rr := by
  rw [genL_sis_loop, GenEqLoops2.gen_sis_loop]
  simp only [List.length_range]
  rfl

theorem sirPair_range (Vst : V) (N : Nat) (nbrs : Nat → List Nat) (tr : Nat → Nat → Rat) (rr : Nat → Rat) :
    GenL.dSIR_pair_basedL Vst (List.range N) id nbrs tr rr = Gen.dSIR_pair_based Vst N nbrs tr rr := by
  rw [genL_sir_loop, GenEqLoops2.gen_sir_loop]
  simp only [List.length_range]
  rfl

/-! ## 1. label erasure -/

section erase
variable {nl : List Nat} {idx : Nat → Nat} {nbrs : Nat → List Nat} (h : LabelOK nl idx nbrs)
  (tr : Nat → Nat → Rat) (rr : Nat → Rat) (Vst : V)
include h

theorem sisInd_erase : GenL.dSIS_individual_basedL Vst nl idx nbrs tr rr
    = Gen.dSIS_individual_based Vst nl.length (eraseNbrs nl idx nbrs) (eraseTr nl tr) (eraseRr nl rr) := by
  rw [← sisInd_range, ← h.map_idx]; exact (sisInd_mor (h.mor_erase tr rr) Vst).symm

theorem sirInd_erase : GenL.dSIR_individual_basedL Vst nl idx nbrs tr rr
    = Gen.dSIR_individual_based Vst nl.length (eraseNbrs nl idx nbrs) (eraseTr nl tr) (eraseRr nl rr) := by
  rw [← sirInd_range, ← h.map_idx]; exact (sirInd_mor (h.mor_erase tr rr) Vst).symm

theorem sisPair_erase : GenL.dSIS_pair_basedL Vst nl idx nbrs tr rr
    = Gen.dSIS_pair_based Vst nl.length (eraseNbrs nl idx nbrs) (eraseTr nl tr) (eraseRr nl rr) := by
  rw [← sisPair_range, ← h.map_idx]; exact (sisPair_mor (h.mor_erase tr rr) Vst).symm

theorem sirPair_erase : GenL.dSIR_pair_basedL Vst nl idx nbrs tr rr
    = Gen.dSIR_pair_based Vst nl.length (eraseNbrs nl idx nbrs) (eraseTr nl tr) (eraseRr nl rr) := by
  rw [← sirPair_range, ← h.map_idx]; exact (sirPair_mor (h.mor_erase tr rr) Vst).symm

end erase

/-- the relabelled instance is well-formed -/
theorem LabelOK.rename {nl : List Nat} {idx : Nat → Nat} {nbrs : Nat → List Nat} (h : LabelOK nl idx nbrs)
    (f g : Nat → Nat) (hg : ∀ u ∈ nl, g (f u) = u) :
    LabelOK (nl.map f) (idx ∘ g) (fun u => (nbrs (g u)).map f) := by
  refine ⟨?_, ?_, ?_⟩
  · exact List.Nodup.map_on (fun u hu v hv e => by rw [← hg u hu, ← hg v hv, e]) h.1
  · intro i hi
    have hi' : i < nl.length := by simpa using hi
    rw [List.getElem_map, Function.comp, hg _ (List.getElem_mem hi')]
    exact h.2.1 i hi'
  · intro u hu v hv
    obtain ⟨u0, hu0, rfl⟩ := List.mem_map.1 hu
    simp only [hg u0 hu0] at hv
    obtain ⟨v0, hv0, rfl⟩ := List.mem_map.1 hv
    exact List.mem_map.2 ⟨v0, h.2.2 u0 hu0 v0 hv0, rfl⟩

/-! ## 3. order of the neighbour lists, individual-based functions (no hypothesis on the instance) -/

theorem sisInd_nbr_perm (nl : List Nat) (idx : Nat → Nat) (nbrs nbrs' : Nat → List Nat)
    (hp : ∀ u, (nbrs u).Perm (nbrs' u)) (tr : Nat → Nat → Rat) (rr : Nat → Rat) (Y : V) :
    GenL.dSIS_individual_basedL Y nl idx nbrs tr rr = GenL.dSIS_individual_basedL Y nl idx nbrs' tr rr := by
  unfold GenL.dSIS_individual_basedL
  dsimp only
  congr 1
  apply foldl_congr_mem
  intro i hi st
  rw [sumRat_perm ((hp _).map _)]

theorem sirInd_nbr_perm (nl : List Nat) (idx : Nat → Nat) (nbrs nbrs' : Nat → List Nat)
    (hp : ∀ u, (nbrs u).Perm (nbrs' u)) (tr : Nat → Nat → Rat) (rr : Nat → Rat) (Vst : V) :
    GenL.dSIR_individual_basedL Vst nl idx nbrs tr rr = GenL.dSIR_individual_basedL Vst nl idx nbrs' tr rr := by
  unfold GenL.dSIR_individual_basedL
  dsimp only
  refine congrArg (fun r : (Nat → Rat) × (Nat → Rat) => V.append ⟨nl.length, r.1⟩ ⟨nl.length, r.2⟩)
    (foldl_congr_mem _ _ _ ?_ _)
  intro i hi st
  rw [sumRat_perm ((hp _).map _)]

/-! ## 3. order of the neighbour lists, pair-based functions

Every iteration of every loop of the pair-based functions ADDS a state-independent increment to the tuple of arrays
(`a[i] += e`, `a[i,j] += e`, or nothing after `continue`): it is a *shift* `s ↦ s + δ`.  Shifts commute, a loop of
shifts is a shift, hence a loop of shifts does not depend on the order of its iteration list. -/

/-- `F` adds a state-independent increment (namely `F 0`) -/
def IsShift {σ : Type} [AddCommMonoid σ] (F : σ → σ) : Prop := ∀ s, F s = s + F 0

theorem IsShift.id {σ : Type} [AddCommMonoid σ] : IsShift (fun s : σ => s) := fun s => (add_zero s).symm

theorem IsShift.comp {σ : Type} [AddCommMonoid σ] {F G : σ → σ} (hF : IsShift F) (hG : IsShift G) :
    IsShift (fun s => G (F s)) := by
  intro s
  show G (F s) = s + G (F 0)
  rw [hG (F s), hF s, hG (F 0), add_assoc]

theorem IsShift.foldl {σ α : Type} [AddCommMonoid σ] (step : σ → α → σ) (l : List α)
    (h : ∀ a ∈ l, IsShift (fun s => step s a)) : IsShift (fun s => l.foldl step s) := by
  induction l with
  | nil => exact IsShift.id
  | cons a t ih =>
    intro s
    simp only [List.foldl_cons]
    have iht : ∀ s, List.foldl step s t = s + List.foldl step 0 t := ih (fun b hb => h b (by simp [hb]))
    have ha : ∀ s, step s a = s + step 0 a := h a (by simp)
    rw [iht (step s a), iht (step 0 a), ha s, add_assoc]

/-- a loop whose iterations are shifts does not depend on the order of the iteration list -/
theorem foldl_perm_shift {σ α : Type} [AddCommMonoid σ] (step : σ → α → σ) {l l' : List α} (hp : l.Perm l')
    (h : ∀ a ∈ l, IsShift (fun s => step s a)) (s : σ) : l.foldl step s = l'.foldl step s := by
  refine hp.foldl_eq' (fun x hx y hy z => ?_) s
  have e1 : ∀ z, step z y = z + step 0 y := h y hy
  have e2 : ∀ z, step z x = z + step 0 x := h x hx
  rw [e1 (step z x), e2 (step z y), e2 z, e1 z, add_right_comm]

/-- a pair of shifts acting on the two components -/
theorem IsShift.prod {σ τ : Type} [AddCommMonoid σ] [AddCommMonoid τ] {F : σ → σ} {G : τ → τ}
    (hF : IsShift F) (hG : IsShift G) : IsShift (fun s : σ × τ => (F s.1, G s.2)) := by
  intro s
  rw [Prod.ext_iff]
  exact ⟨hF s.1, hG s.2⟩

theorem upd1_shift (i : Nat) (x : Rat) : IsShift (fun a : A => upd1 a i (a i + x)) := by
  intro a
  funext k
  simp only [Pi.add_apply, upd1, Pi.zero_apply]
  split <;> simp_all

theorem upd2_shift (i j : Nat) (x : Rat) : IsShift (fun a : M => upd2 a i j (a i j + x)) := by
  intro a
  funext k m
  simp only [Pi.add_apply, upd2, Pi.zero_apply]
  split <;> simp_all

section perm
variable (idx : Nat → Nat) (nbrs nbrs' : Nat → List Nat) (tr : Nat → Nat → Rat) (rr : Nat → Rat) (xi : A) (xy xx : M)

theorem skip1L_shift (u v w : Nat) : IsShift (fun st => skip1L idx tr xi xy xx u v st w) := by
  unfold skip1L
  by_cases h : w = u
  · simp only [h, if_true]; exact IsShift.id
  · simp only [h, if_false]
    exact IsShift.prod (upd2_shift _ _ _) (upd2_shift _ _ _)

theorem skip2L_shift (u v w : Nat) : IsShift (fun st => skip2L idx tr xi xy xx u v st w) := by
  unfold skip2L
  by_cases h : w = v
  · simp only [h, if_true]; exact IsShift.id
  · simp only [h, if_false]
    exact IsShift.prod (upd2_shift _ _ _) (upd2_shift _ _ _)

theorem triL_shift (u v : Nat) : IsShift (triL idx nbrs tr xi xy xx u v) :=
  IsShift.comp (F := fun st => (nbrs v).foldl (skip1L idx tr xi xy xx u v) st)
    (G := fun st => (nbrs u).foldl (skip2L idx tr xi xy xx u v) st)
    (IsShift.foldl _ _ (fun w _ => skip1L_shift idx tr xi xy xx u v w))
    (IsShift.foldl _ _ (fun w _ => skip2L_shift idx tr xi xy xx u v w))

theorem sisStepVL_shift (u v : Nat) : IsShift (fun st => sisStepVL idx nbrs tr rr xi xy xx u st v) :=
  IsShift.prod (σ := A) (τ := M × M) (upd1_shift _ _)
    (IsShift.comp (IsShift.prod (upd2_shift _ _ _) (upd2_shift _ _ _)) (triL_shift idx nbrs tr xi xy xx u v))

theorem sirStepVL_shift (u v : Nat) : IsShift (fun st => sirStepVL idx nbrs tr rr xi xy xx u st v) :=
  IsShift.prod (σ := A) (τ := A × M × M) (upd1_shift _ _) (IsShift.prod (σ := A) (τ := M × M) (upd1_shift _ _)
    (IsShift.comp (IsShift.prod (upd2_shift _ _ _) IsShift.id) (triL_shift idx nbrs tr xi xy xx u v)))

variable (hp : ∀ u, (nbrs u).Perm (nbrs' u))
include hp

theorem triL_nbr_perm (u v : Nat) (st : M × M) :
    triL idx nbrs tr xi xy xx u v st = triL idx nbrs' tr xi xy xx u v st := by
  unfold triL
  rw [foldl_perm_shift _ (hp v) (fun w _ => skip1L_shift idx tr xi xy xx u v w),
    foldl_perm_shift _ (hp u) (fun w _ => skip2L_shift idx tr xi xy xx u v w)]

theorem sisStepUL_nbr_perm (y : A) (st : A × M × M) (u : Nat) :
    sisStepUL idx nbrs tr rr xi xy xx y st u = sisStepUL idx nbrs' tr rr xi xy xx y st u := by
  unfold sisStepUL
  rw [foldl_perm_shift _ (hp u) (fun v _ => sisStepVL_shift idx nbrs tr rr xi xy xx u v)]
  apply foldl_congr_mem
  intro v _ s
  simp only [sisStepVL, triL_nbr_perm idx nbrs nbrs' tr xi xy xx hp]

theorem sirStepUL_nbr_perm (y : A) (st : A × A × M × M) (u : Nat) :
    sirStepUL idx nbrs tr rr xi xy xx y st u = sirStepUL idx nbrs' tr rr xi xy xx y st u := by
  unfold sirStepUL
  rw [foldl_perm_shift _ (hp u) (fun v _ => sirStepVL_shift idx nbrs tr rr xi xy xx u v)]
  have : ∀ s0, (nbrs' u).foldl (sirStepVL idx nbrs tr rr xi xy xx u) s0
      = (nbrs' u).foldl (sirStepVL idx nbrs' tr rr xi xy xx u) s0 := by
    intro s0
    apply foldl_congr_mem
    intro v _ s
    simp only [sirStepVL, triL_nbr_perm idx nbrs nbrs' tr xi xy xx hp]
  rw [this]

omit hp in
theorem sisPair_nbr_perm (nl : List Nat) (idx : Nat → Nat) (nbrs nbrs' : Nat → List Nat)
    (hp : ∀ u, (nbrs u).Perm (nbrs' u)) (tr : Nat → Nat → Rat) (rr : Nat → Rat) (Vst : V) :
    GenL.dSIS_pair_basedL Vst nl idx nbrs tr rr = GenL.dSIS_pair_basedL Vst nl idx nbrs' tr rr := by
  rw [genL_sis_loop, genL_sis_loop]
  have : ∀ xi xy xx y, sisLoopL idx nbrs tr rr xi xy xx nl y = sisLoopL idx nbrs' tr rr xi xy xx nl y := by
    intro xi xy xx y
    unfold sisLoopL
    exact foldl_congr_mem _ _ _ (fun u _ s => sisStepUL_nbr_perm idx nbrs nbrs' tr rr xi xy xx hp y s u) _
  simp only [this]

omit hp in
theorem sirPair_nbr_perm (nl : List Nat) (idx : Nat → Nat) (nbrs nbrs' : Nat → List Nat)
    (hp : ∀ u, (nbrs u).Perm (nbrs' u)) (tr : Nat → Nat → Rat) (rr : Nat → Rat) (Vst : V) :
    GenL.dSIR_pair_basedL Vst nl idx nbrs tr rr = GenL.dSIR_pair_basedL Vst nl idx nbrs' tr rr := by
  rw [genL_sir_loop, genL_sir_loop]
  have : ∀ xi xy xx y, sirLoopL idx nbrs tr rr xi xy xx nl y = sirLoopL idx nbrs' tr rr xi xy xx nl y := by
    intro xi xy xx y
    unfold sirLoopL
    exact foldl_congr_mem _ _ _ (fun u _ s => sirStepUL_nbr_perm idx nbrs nbrs' tr rr xi xy xx hp y s u) _
  simp only [this]

end perm

/-! ## 4. the individual-based functions in terms of label-indexed data; order of `nodelist` -/

/-- entry `i` of the labelled `_dSIS_individual_based_` -/
theorem sisIndL_entry (Y : V) (nl : List Nat) (idx : Nat → Nat) (nbrs : Nat → List Nat) (tr : Nat → Nat → Rat)
    (rr : Nat → Rat) (i : Nat) (hi : i < nl.length) :
    (GenL.dSIS_individual_basedL Y nl idx nbrs tr rr).f i
      = sumRat ((nbrs (nl.getD i 0)).map fun nbr => tr (nl.getD i 0) nbr * (1 - Y.f i) * Y.f (idx nbr))
        - rr (nl.getD i 0) * Y.f i := by
  unfold GenL.dSIS_individual_basedL
  dsimp only
  rw [GenEqLoops.foldl_upd1_range
    (fun index => sumRat ((nbrs (nl.getD index 0)).map fun nbr => tr (nl.getD index 0) nbr * (1 - Y.f index) * Y.f (idx nbr))
        - rr (nl.getD index 0) * Y.f index)]
  simp only [hi, if_true]

/-- entries `i` and `N + i` of the labelled `_dSIR_individual_based_` -/
theorem sirIndL_entry (Vst : V) (nl : List Nat) (idx : Nat → Nat) (nbrs : Nat → List Nat) (tr : Nat → Nat → Rat)
    (rr : Nat → Rat) (i : Nat) (hi : i < nl.length) :
    (GenL.dSIR_individual_basedL Vst nl idx nbrs tr rr).f i
      = (-(Vst.f i)) * sumRat ((nbrs (nl.getD i 0)).map fun nbr => tr (nl.getD i 0) nbr * Vst.f (nl.length + idx nbr)) ∧
    (GenL.dSIR_individual_basedL Vst nl idx nbrs tr rr).f (nl.length + i)
      = (-((-(Vst.f i)) * sumRat ((nbrs (nl.getD i 0)).map fun nbr => tr (nl.getD i 0) nbr * Vst.f (nl.length + idx nbr))))
        - rr (nl.getD i 0) * Vst.f (nl.length + i) := by
  unfold GenL.dSIR_individual_basedL
  dsimp only
  generalize hres : List.foldl _ (_ : (Nat → Rat) × (Nat → Rat)) (List.range nl.length) = res
  have key : (∀ k, res.1 k = if k < nl.length then
        (-(Vst.f k)) * sumRat ((nbrs (nl.getD k 0)).map fun nbr => tr (nl.getD k 0) nbr * Vst.f (nl.length + idx nbr))
        else 0) ∧
      (∀ k, res.2 k = if k < nl.length then
        (-((-(Vst.f k)) * sumRat ((nbrs (nl.getD k 0)).map fun nbr => tr (nl.getD k 0) nbr * Vst.f (nl.length + idx nbr))))
          - rr (nl.getD k 0) * Vst.f (nl.length + k)
        else 0) := by
    rw [← hres]
    exact GenEqLoops.foldl_upd1_pair_dep _
      (fun i => (-(Vst.f i)) * sumRat ((nbrs (nl.getD i 0)).map fun nbr => tr (nl.getD i 0) nbr * Vst.f (nl.length + idx nbr)))
      (fun i d => -d - rr (nl.getD i 0) * Vst.f (nl.length + i)) nl.length (fun a b i hi => rfl) _ _
  obtain ⟨k1, k2⟩ := key
  constructor
  · rw [V.append_f_lt _ _ i hi]
    simp only [k1 i, hi, if_true]
  · rw [V.append_f_ge ⟨nl.length, res.1⟩ ⟨nl.length, res.2⟩ i]
    simp only [k2 i, hi, if_true]

section labelform
variable {nl : List Nat} {idx : Nat → Nat} {nbrs : Nat → List Nat} (h : LabelOK nl idx nbrs)
  (tr : Nat → Nat → Rat) (rr : Nat → Rat)
include h

/-- the entry of node `u` in terms of the label-indexed state `u ↦ Y[idx u]` -/
theorem sisInd_label_form (Y : V) (u : Nat) (hu : u ∈ nl) :
    (GenL.dSIS_individual_basedL Y nl idx nbrs tr rr).f (idx u)
      = sumRat ((nbrs u).map fun v => tr u v * (1 - Y.f (idx u)) * Y.f (idx v)) - rr u * Y.f (idx u) := by
  rw [sisIndL_entry Y nl idx nbrs tr rr (idx u) (h.idx_lt u hu), h.getD_idx u hu]

theorem sirInd_label_form (Vst : V) (u : Nat) (hu : u ∈ nl) :
    (GenL.dSIR_individual_basedL Vst nl idx nbrs tr rr).f (idx u)
      = (-(Vst.f (idx u))) * sumRat ((nbrs u).map fun v => tr u v * Vst.f (nl.length + idx v)) ∧
    (GenL.dSIR_individual_basedL Vst nl idx nbrs tr rr).f (nl.length + idx u)
      = (-((-(Vst.f (idx u))) * sumRat ((nbrs u).map fun v => tr u v * Vst.f (nl.length + idx v))))
        - rr u * Vst.f (nl.length + idx u) := by
  have := sirIndL_entry Vst nl idx nbrs tr rr (idx u) (h.idx_lt u hu)
  rw [h.getD_idx u hu] at this
  exact this

end labelform

/-- listing the nodes in another order (`nl'`, with its own `index_of_node`) permutes the entries accordingly -/
theorem sisInd_nodelist_perm {nl nl' : List Nat} {idx idx' : Nat → Nat} {nbrs : Nat → List Nat}
    (h : LabelOK nl idx nbrs) (h' : LabelOK nl' idx' nbrs) (hp : nl.Perm nl')
    (tr : Nat → Nat → Rat) (rr : Nat → Rat) (Y Y' : V) (hY : ∀ u ∈ nl, Y'.f (idx' u) = Y.f (idx u))
    (u : Nat) (hu : u ∈ nl) :
    (GenL.dSIS_individual_basedL Y' nl' idx' nbrs tr rr).f (idx' u)
      = (GenL.dSIS_individual_basedL Y nl idx nbrs tr rr).f (idx u) := by
  rw [sisInd_label_form h tr rr Y u hu, sisInd_label_form h' tr rr Y' u (hp.mem_iff.1 hu), hY u hu]
  congr 1
  apply sumRat_map_congr
  intro v hv
  rw [hY v (h.2.2 u hu v hv)]

theorem sirInd_nodelist_perm {nl nl' : List Nat} {idx idx' : Nat → Nat} {nbrs : Nat → List Nat}
    (h : LabelOK nl idx nbrs) (h' : LabelOK nl' idx' nbrs) (hp : nl.Perm nl')
    (tr : Nat → Nat → Rat) (rr : Nat → Rat) (Vst Vst' : V)
    (hX : ∀ u ∈ nl, Vst'.f (idx' u) = Vst.f (idx u))
    (hY : ∀ u ∈ nl, Vst'.f (nl'.length + idx' u) = Vst.f (nl.length + idx u))
    (u : Nat) (hu : u ∈ nl) :
    (GenL.dSIR_individual_basedL Vst' nl' idx' nbrs tr rr).f (idx' u)
      = (GenL.dSIR_individual_basedL Vst nl idx nbrs tr rr).f (idx u) ∧
    (GenL.dSIR_individual_basedL Vst' nl' idx' nbrs tr rr).f (nl'.length + idx' u)
      = (GenL.dSIR_individual_basedL Vst nl idx nbrs tr rr).f (nl.length + idx u) := by
  obtain ⟨a1, a2⟩ := sirInd_label_form h tr rr Vst u hu
  obtain ⟨b1, b2⟩ := sirInd_label_form h' tr rr Vst' u (hp.mem_iff.1 hu)
  have hs : sumRat ((nbrs u).map fun v => tr u v * Vst'.f (nl'.length + idx' v))
      = sumRat ((nbrs u).map fun v => tr u v * Vst.f (nl.length + idx v)) := by
    apply sumRat_map_congr
    intro v hv
    rw [hY v (h.2.2 u hu v hv)]
  rw [a1, a2, b1, b2, hs, hX u hu, hY u hu]
  exact ⟨rfl, rfl⟩

/-! ## the erased instance satisfies the hypotheses of `Props/GenLoops2.lean` -/

theorem LabelOK.erase_nodup {nl : List Nat} {idx : Nat → Nat} {nbrs : Nat → List Nat} (h : LabelOK nl idx nbrs)
    (hn : ∀ u ∈ nl, (nbrs u).Nodup) : ∀ i, i < nl.length → (eraseNbrs nl idx nbrs i).Nodup := by
  intro i hi
  have hm := getD_mem nl i hi
  exact List.Nodup.map_on (fun a ha b hb e => h.idx_inj a (h.2.2 _ hm a ha) b (h.2.2 _ hm b hb) e) (hn _ hm)

theorem LabelOK.erase_bound {nl : List Nat} {idx : Nat → Nat} {nbrs : Nat → List Nat} (h : LabelOK nl idx nbrs) :
    ∀ i, i < nl.length → ∀ v ∈ eraseNbrs nl idx nbrs i, v < nl.length := by
  intro i hi v hv
  obtain ⟨w, hw, rfl⟩ := List.mem_map.1 hv
  exact h.idx_lt w (h.2.2 _ (getD_mem nl i hi) w hw)

/-! ## 4'. order of `nodelist`, pair-based functions -/

/-- simulation: a relation between two loop states preserved by every iteration holds after the loops -/
theorem foldl_sim {σ τ α : Type} (R : σ → τ → Prop) (F : σ → α → σ) (G : τ → α → τ) (l : List α)
    (h : ∀ a ∈ l, ∀ s t, R s t → R (F s a) (G t a)) (s : σ) (t : τ) (h0 : R s t) :
    R (l.foldl F s) (l.foldl G t) := by
  induction l generalizing s t with
  | nil => exact h0
  | cons a l ih => exact ih (fun b hb => h b (by simp [hb])) _ _ (h a (by simp) s t h0)

/-- two vectors / matrices hold the same label-indexed data (positions given by `idx` resp. `idx'`) -/
def RA (nl : List Nat) (idx idx' : Nat → Nat) (a a' : A) : Prop := ∀ u ∈ nl, a' (idx' u) = a (idx u)
def RM (nl : List Nat) (idx idx' : Nat → Nat) (m m' : M) : Prop :=
  ∀ u ∈ nl, ∀ v ∈ nl, m' (idx' u) (idx' v) = m (idx u) (idx v)
def R2 (nl : List Nat) (idx idx' : Nat → Nat) (s s' : M × M) : Prop := RM nl idx idx' s.1 s'.1 ∧ RM nl idx idx' s.2 s'.2
def R3 (nl : List Nat) (idx idx' : Nat → Nat) (s s' : A × M × M) : Prop := RA nl idx idx' s.1 s'.1 ∧ R2 nl idx idx' s.2 s'.2
def R4 (nl : List Nat) (idx idx' : Nat → Nat) (s s' : A × A × M × M) : Prop := RA nl idx idx' s.1 s'.1 ∧ R3 nl idx idx' s.2 s'.2

section sim
variable {nl : List Nat} {idx idx' : Nat → Nat}
  (hinj : ∀ a ∈ nl, ∀ b ∈ nl, idx a = idx b → a = b) (hinj' : ∀ a ∈ nl, ∀ b ∈ nl, idx' a = idx' b → a = b)
include hinj hinj'

theorem RA_upd1 {a a' : A} (hR : RA nl idx idx' a a') (u : Nat) (hu : u ∈ nl) (x x' : Rat) (hx : x' = x) :
    RA nl idx idx' (upd1 a (idx u) x) (upd1 a' (idx' u) x') := by
  intro w hw
  by_cases h : w = u
  · subst h; simp [hx]
  · have h1 : idx w ≠ idx u := fun e => h (hinj w hw u hu e)
    have h2 : idx' w ≠ idx' u := fun e => h (hinj' w hw u hu e)
    rw [upd1_other _ _ _ _ h1, upd1_other _ _ _ _ h2]; exact hR w hw

theorem RM_upd2 {m m' : M} (hR : RM nl idx idx' m m') (u v : Nat) (hu : u ∈ nl) (hv : v ∈ nl) (x x' : Rat)
    (hx : x' = x) : RM nl idx idx' (upd2 m (idx u) (idx v) x) (upd2 m' (idx' u) (idx' v) x') := by
  intro a ha b hb
  by_cases h : a = u ∧ b = v
  · obtain ⟨rfl, rfl⟩ := h; simp [hx]
  · have h1 : ¬ (idx a = idx u ∧ idx b = idx v) := fun e => h ⟨hinj a ha u hu e.1, hinj b hb v hv e.2⟩
    have h2 : ¬ (idx' a = idx' u ∧ idx' b = idx' v) := fun e => h ⟨hinj' a ha u hu e.1, hinj' b hb v hv e.2⟩
    rw [upd2_other _ _ _ _ _ _ h1, upd2_other _ _ _ _ _ _ h2]; exact hR a ha b hb

variable (nbrs : Nat → List Nat) (tr : Nat → Nat → Rat) (rr : Nat → Rat) {xi xi' : A} {xy xy' xx xx' : M}
  (hc : ∀ u ∈ nl, ∀ v ∈ nbrs u, v ∈ nl)
  (Rxi : RA nl idx idx' xi xi') (Rxy : RM nl idx idx' xy xy') (Rxx : RM nl idx idx' xx xx')
include Rxi Rxy Rxx

theorem skip1L_sim (u v w : Nat) (hu : u ∈ nl) (hv : v ∈ nl) (hw : w ∈ nl) (s s' : M × M)
    (hR : R2 nl idx idx' s s') :
    R2 nl idx idx' (skip1L idx tr xi xy xx u v s w) (skip1L idx' tr xi' xy' xx' u v s' w) := by
  unfold skip1L
  by_cases h : w = u
  · simp only [h, if_true]; exact hR
  · simp only [h, if_false]
    refine ⟨RM_upd2 hinj hinj' hR.1 u v hu hv _ _ ?_, RM_upd2 hinj hinj' hR.2 u v hu hv _ _ ?_⟩
    · rw [hR.1 u hu v hv, Rxx u hu v hv, Rxy v hv w hw, Rxi v hv]
    · rw [hR.2 u hu v hv, Rxx u hu v hv, Rxy v hv w hw, Rxi v hv]

theorem skip2L_sim (u v w : Nat) (hu : u ∈ nl) (hv : v ∈ nl) (hw : w ∈ nl) (s s' : M × M)
    (hR : R2 nl idx idx' s s') :
    R2 nl idx idx' (skip2L idx tr xi xy xx u v s w) (skip2L idx' tr xi' xy' xx' u v s' w) := by
  unfold skip2L
  by_cases h : w = v
  · simp only [h, if_true]; exact hR
  · simp only [h, if_false]
    refine ⟨RM_upd2 hinj hinj' hR.1 u v hu hv _ _ ?_, RM_upd2 hinj hinj' hR.2 u v hu hv _ _ ?_⟩
    · rw [hR.1 u hu v hv, Rxy u hu w hw, Rxy u hu v hv, Rxi u hu]
    · rw [hR.2 u hu v hv, Rxy u hu w hw, Rxx u hu v hv, Rxi u hu]

include hc

theorem triL_sim (u v : Nat) (hu : u ∈ nl) (hv : v ∈ nl) (s s' : M × M) (hR : R2 nl idx idx' s s') :
    R2 nl idx idx' (triL idx nbrs tr xi xy xx u v s) (triL idx' nbrs tr xi' xy' xx' u v s') := by
  unfold triL
  exact foldl_sim (R2 nl idx idx') _ _ (nbrs u)
    (fun w hw a b hab => skip2L_sim hinj hinj' tr Rxi Rxy Rxx u v w hu hv (hc u hu w hw) a b hab) _ _
    (foldl_sim (R2 nl idx idx') _ _ (nbrs v)
      (fun w hw a b hab => skip1L_sim hinj hinj' tr Rxi Rxy Rxx u v w hu hv (hc v hv w hw) a b hab) s s' hR)

theorem sisStepVL_sim (u v : Nat) (hu : u ∈ nl) (hv : v ∈ nl) (s s' : A × M × M) (hR : R3 nl idx idx' s s') :
    R3 nl idx idx' (sisStepVL idx nbrs tr rr xi xy xx u s v) (sisStepVL idx' nbrs tr rr xi' xy' xx' u s' v) := by
  unfold sisStepVL
  refine ⟨RA_upd1 hinj hinj' hR.1 u hu _ _ ?_, ?_⟩
  · rw [hR.1 u hu, Rxy u hu v hv]
  · refine triL_sim hinj hinj' nbrs tr hc Rxi Rxy Rxx u v hu hv _ _
      ⟨RM_upd2 hinj hinj' hR.2.1 u v hu hv _ _ ?_, RM_upd2 hinj hinj' hR.2.2 u v hu hv _ _ ?_⟩
    · rw [hR.2.1 u hu v hv, Rxy u hu v hv, Rxx u hu v hv, Rxy v hv u hu]
    · rw [hR.2.2 u hu v hv, Rxy u hu v hv, Rxy v hv u hu]

theorem sisStepUL_sim {y y' : A} (Ry : RA nl idx idx' y y') (u : Nat) (hu : u ∈ nl) (s s' : A × M × M)
    (hR : R3 nl idx idx' s s') :
    R3 nl idx idx' (sisStepUL idx nbrs tr rr xi xy xx y s u) (sisStepUL idx' nbrs tr rr xi' xy' xx' y' s' u) := by
  unfold sisStepUL
  refine foldl_sim (R3 nl idx idx') _ _ (nbrs u)
    (fun v hv a b hab => sisStepVL_sim hinj hinj' nbrs tr rr hc Rxi Rxy Rxx u v hu (hc u hu v hv) a b hab) _ _
    ⟨RA_upd1 hinj hinj' hR.1 u hu _ _ ?_, hR.2⟩
  rw [hR.1 u hu, Ry u hu]

theorem sisLoopL_sim {y y' : A} (Ry : RA nl idx idx' y y') :
    R3 nl idx idx' (sisLoopL idx nbrs tr rr xi xy xx nl y) (sisLoopL idx' nbrs tr rr xi' xy' xx' nl y') := by
  unfold sisLoopL
  exact foldl_sim (R3 nl idx idx') _ _ nl
    (fun u hu a b hab => sisStepUL_sim hinj hinj' nbrs tr rr hc Rxi Rxy Rxx Ry u hu a b hab) _ _
    ⟨fun _ _ => rfl, fun _ _ _ _ => rfl, fun _ _ _ _ => rfl⟩

theorem sirStepVL_sim (u v : Nat) (hu : u ∈ nl) (hv : v ∈ nl) (s s' : A × A × M × M) (hR : R4 nl idx idx' s s') :
    R4 nl idx idx' (sirStepVL idx nbrs tr rr xi xy xx u s v) (sirStepVL idx' nbrs tr rr xi' xy' xx' u s' v) := by
  unfold sirStepVL
  refine ⟨RA_upd1 hinj hinj' hR.1 u hu _ _ ?_, RA_upd1 hinj hinj' hR.2.1 u hu _ _ ?_, ?_⟩
  · rw [hR.1 u hu, Rxy u hu v hv]
  · rw [hR.2.1 u hu, Rxy u hu v hv]
  · refine triL_sim hinj hinj' nbrs tr hc Rxi Rxy Rxx u v hu hv _ _
      ⟨RM_upd2 hinj hinj' hR.2.2.1 u v hu hv _ _ ?_, hR.2.2.2⟩
    rw [hR.2.2.1 u hu v hv, Rxy u hu v hv]

theorem sirStepUL_sim {y y' : A} (Ry : RA nl idx idx' y y') (u : Nat) (hu : u ∈ nl) (s s' : A × A × M × M)
    (hR : R4 nl idx idx' s s') :
    R4 nl idx idx' (sirStepUL idx nbrs tr rr xi xy xx y s u) (sirStepUL idx' nbrs tr rr xi' xy' xx' y' s' u) := by
  unfold sirStepUL
  have key := foldl_sim (R4 nl idx idx') _ _ (nbrs u)
    (fun v hv a b hab => sirStepVL_sim hinj hinj' nbrs tr rr hc Rxi Rxy Rxx u v hu (hc u hu v hv) a b hab)
    (s.2.1, upd1 s.1 (idx u) (s.1 (idx u) + (-(rr u)) * (y (idx u))), s.2.2.1, s.2.2.2)
    (s'.2.1, upd1 s'.1 (idx' u) (s'.1 (idx' u) + (-(rr u)) * (y' (idx' u))), s'.2.2.1, s'.2.2.2)
    ⟨hR.2.1, RA_upd1 hinj hinj' hR.1 u hu _ _ (by rw [hR.1 u hu, Ry u hu]), hR.2.2⟩
  exact ⟨key.2.1, key.1, key.2.2⟩

theorem sirLoopL_sim {y y' : A} (Ry : RA nl idx idx' y y') :
    R4 nl idx idx' (sirLoopL idx nbrs tr rr xi xy xx nl y) (sirLoopL idx' nbrs tr rr xi' xy' xx' nl y') := by
  unfold sirLoopL
  exact foldl_sim (R4 nl idx idx') _ _ nl
    (fun u hu a b hab => sirStepUL_sim hinj hinj' nbrs tr rr hc Rxi Rxy Rxx Ry u hu a b hab) _ _
    ⟨fun _ _ => rfl, fun _ _ => rfl, fun _ _ _ _ => rfl, fun _ _ _ _ => rfl⟩

end sim
/-! ### the outer loop over `nodelist` is a loop of shifts -/

section outer
variable (idx : Nat → Nat) (nbrs : Nat → List Nat) (tr : Nat → Nat → Rat) (rr : Nat → Rat) (xi : A) (xy xx : M)

theorem sisStepUL_shift (y : A) (u : Nat) : IsShift (fun st => sisStepUL idx nbrs tr rr xi xy xx y st u) :=
  IsShift.comp (F := fun st : A × M × M => (upd1 st.1 (idx u) (st.1 (idx u) + (-(rr u)) * (y (idx u))), st.2))
    (G := fun st => (nbrs u).foldl (sisStepVL idx nbrs tr rr xi xy xx u) st)
    (IsShift.prod (σ := A) (τ := M × M) (upd1_shift _ _) IsShift.id)
    (IsShift.foldl _ _ (fun v _ => sisStepVL_shift idx nbrs tr rr xi xy xx u v))

/-- the outer loop of `_dSIR_pair_based_` carries `(dY, dX, …)`, the inner one `(dX, dY, …)` -/
def sw (st : A × A × M × M) : A × A × M × M := (st.2.1, st.1, st.2.2)

theorem IsShift.conj_sw {F : A × A × M × M → A × A × M × M} (hF : IsShift F) : IsShift (fun st => sw (F (sw st))) := by
  intro s
  show sw (F (sw s)) = s + sw (F (sw 0))
  rw [hF (sw s)]
  rfl

theorem sirStepUL_shift (y : A) (u : Nat) : IsShift (fun st => sirStepUL idx nbrs tr rr xi xy xx y st u) :=
  IsShift.conj_sw (F := fun st => (nbrs u).foldl (sirStepVL idx nbrs tr rr xi xy xx u)
      (st.1, upd1 st.2.1 (idx u) (st.2.1 (idx u) + (-(rr u)) * (y (idx u))), st.2.2))
    (IsShift.comp
      (F := fun st : A × A × M × M => (st.1, upd1 st.2.1 (idx u) (st.2.1 (idx u) + (-(rr u)) * (y (idx u))), st.2.2))
      (G := fun st => (nbrs u).foldl (sirStepVL idx nbrs tr rr xi xy xx u) st)
      (IsShift.prod (σ := A) (τ := A × M × M) IsShift.id
        (IsShift.prod (σ := A) (τ := M × M) (upd1_shift _ _) IsShift.id))
      (IsShift.foldl _ _ (fun v _ => sirStepVL_shift idx nbrs tr rr xi xy xx u v)))

/-- the order in which the outer loop visits the nodes is irrelevant (for a fixed `index_of_node`) -/
theorem sisLoopL_order {nl nl' : List Nat} (hp : nl.Perm nl') (y : A) :
    sisLoopL idx nbrs tr rr xi xy xx nl y = sisLoopL idx nbrs tr rr xi xy xx nl' y :=
  foldl_perm_shift _ hp (fun u _ => sisStepUL_shift idx nbrs tr rr xi xy xx y u) _

theorem sirLoopL_order {nl nl' : List Nat} (hp : nl.Perm nl') (y : A) :
    sirLoopL idx nbrs tr rr xi xy xx nl y = sirLoopL idx nbrs tr rr xi xy xx nl' y :=
  foldl_perm_shift _ hp (fun u _ => sirStepUL_shift idx nbrs tr rr xi xy xx y u) _

end outer

/-- `_dSIS_pair_based_`: listing the nodes in another order `nl'` (with its own `index_of_node`) and permuting the
state `(Y, XY, XX)` accordingly permutes the output `(dY, dXY, dXX)` accordingly -/
theorem sisPair_nodelist_perm {nl nl' : List Nat} {idx idx' : Nat → Nat} {nbrs : Nat → List Nat}
    (h : LabelOK nl idx nbrs) (h' : LabelOK nl' idx' nbrs) (hp : nl.Perm nl')
    (tr : Nat → Nat → Rat) (rr : Nat → Rat) (Vst Vst' : V)
    (hY : ∀ u ∈ nl, Vst'.f (idx' u) = Vst.f (idx u))
    (hXY : ∀ u ∈ nl, ∀ v ∈ nl, Vst'.f (nl.length + (idx' u * nl.length + idx' v))
      = Vst.f (nl.length + (idx u * nl.length + idx v)))
    (hXX : ∀ u ∈ nl, ∀ v ∈ nl, Vst'.f (nl.length + (nl.length * nl.length + (idx' u * nl.length + idx' v)))
      = Vst.f (nl.length + (nl.length * nl.length + (idx u * nl.length + idx v)))) :
    let N := nl.length
    let r := GenL.dSIS_pair_basedL Vst nl idx nbrs tr rr
    let r' := GenL.dSIS_pair_basedL Vst' nl' idx' nbrs tr rr
    (∀ u ∈ nl, r'.f (idx' u) = r.f (idx u)) ∧
    (∀ u ∈ nl, ∀ v ∈ nl, r'.f (N + (idx' u * N + idx' v)) = r.f (N + (idx u * N + idx v)) ∧
      r'.f (N + (N * N + (idx' u * N + idx' v))) = r.f (N + (N * N + (idx u * N + idx v)))) := by
  intro N r r'
  have hN : nl'.length = N := hp.length_eq.symm
  have hm : ∀ u, u ∈ nl → u ∈ nl' := fun u hu => hp.mem_iff.1 hu
  have hinj' : ∀ a ∈ nl, ∀ b ∈ nl, idx' a = idx' b → a = b := fun a ha b hb e => h'.idx_inj a (hm a ha) b (hm b hb) e
  have hlt : ∀ u ∈ nl, idx u < N := fun u hu => h.idx_lt u hu
  have hlt' : ∀ u ∈ nl, idx' u < N := fun u hu => hN ▸ h'.idx_lt u (hm u hu)
  simp only [r, r', genL_sis_loop, hN]
  rw [← sisLoopL_order idx' nbrs tr rr _ _ _ hp]
  have key := sisLoopL_sim (nl := nl) (idx := idx) (idx' := idx') h.idx_inj hinj' nbrs tr rr h.2.2
    (xi := fun i => xinvG (1 - Vst.f (0 + i))) (xi' := fun i => xinvG (1 - Vst'.f (0 + i)))
    (xy := fun a b => Vst.f (N + (a * N + b))) (xy' := fun a b => Vst'.f (N + (a * N + b)))
    (xx := fun a b => Vst.f ((N + N * N) + (a * N + b))) (xx' := fun a b => Vst'.f ((N + N * N) + (a * N + b)))
    (fun u hu => by simp only [Nat.zero_add, hY u hu])
    (fun u hu v hv => hXY u hu v hv)
    (fun u hu v hv => by simp only [Nat.add_assoc]; exact hXX u hu v hv)
    (y := fun i => Vst.f (0 + i)) (y' := fun i => Vst'.f (0 + i))
    (fun u hu => by simp only [Nat.zero_add, hY u hu])
  obtain ⟨k1, k2, k3⟩ := key
  refine ⟨fun u hu => ?_, fun u hu v hv => ⟨?_, ?_⟩⟩
  · rw [(GenEqLoops2.unpack3 N _ _ _).1 _ (hlt' u hu), (GenEqLoops2.unpack3 N _ _ _).1 _ (hlt u hu)]
    exact k1 u hu
  · rw [((GenEqLoops2.unpack3 N _ _ _).2 _ _ (hlt' u hu) (hlt' v hv)).1,
      ((GenEqLoops2.unpack3 N _ _ _).2 _ _ (hlt u hu) (hlt v hv)).1]
    exact k2 u hu v hv
  · rw [((GenEqLoops2.unpack3 N _ _ _).2 _ _ (hlt' u hu) (hlt' v hv)).2,
      ((GenEqLoops2.unpack3 N _ _ _).2 _ _ (hlt u hu) (hlt v hv)).2]
    exact k3 u hu v hv

/-- `_dSIR_pair_based_`: the same for the state `(X, Y, XY, XX)` and the output `(dX, dY, dXY, dXX)` -/
theorem sirPair_nodelist_perm {nl nl' : List Nat} {idx idx' : Nat → Nat} {nbrs : Nat → List Nat}
    (h : LabelOK nl idx nbrs) (h' : LabelOK nl' idx' nbrs) (hp : nl.Perm nl')
    (tr : Nat → Nat → Rat) (rr : Nat → Rat) (Vst Vst' : V)
    (hX : ∀ u ∈ nl, Vst'.f (idx' u) = Vst.f (idx u))
    (hY : ∀ u ∈ nl, Vst'.f (nl.length + idx' u) = Vst.f (nl.length + idx u))
    (hXY : ∀ u ∈ nl, ∀ v ∈ nl, Vst'.f (nl.length + (nl.length + (idx' u * nl.length + idx' v)))
      = Vst.f (nl.length + (nl.length + (idx u * nl.length + idx v))))
    (hXX : ∀ u ∈ nl, ∀ v ∈ nl,
      Vst'.f (nl.length + (nl.length + (nl.length * nl.length + (idx' u * nl.length + idx' v))))
      = Vst.f (nl.length + (nl.length + (nl.length * nl.length + (idx u * nl.length + idx v))))) :
    let N := nl.length
    let r := GenL.dSIR_pair_basedL Vst nl idx nbrs tr rr
    let r' := GenL.dSIR_pair_basedL Vst' nl' idx' nbrs tr rr
    (∀ u ∈ nl, r'.f (idx' u) = r.f (idx u) ∧ r'.f (N + idx' u) = r.f (N + idx u)) ∧
    (∀ u ∈ nl, ∀ v ∈ nl, r'.f (N + (N + (idx' u * N + idx' v))) = r.f (N + (N + (idx u * N + idx v))) ∧
      r'.f (N + (N + (N * N + (idx' u * N + idx' v)))) = r.f (N + (N + (N * N + (idx u * N + idx v))))) := by
  intro N r r'
  have hN : nl'.length = N := hp.length_eq.symm
  have hm : ∀ u, u ∈ nl → u ∈ nl' := fun u hu => hp.mem_iff.1 hu
  have hinj' : ∀ a ∈ nl, ∀ b ∈ nl, idx' a = idx' b → a = b := fun a ha b hb e => h'.idx_inj a (hm a ha) b (hm b hb) e
  have hlt : ∀ u ∈ nl, idx u < N := fun u hu => h.idx_lt u hu
  have hlt' : ∀ u ∈ nl, idx' u < N := fun u hu => hN ▸ h'.idx_lt u (hm u hu)
  simp only [r, r', genL_sir_loop, hN]
  rw [← sirLoopL_order idx' nbrs tr rr _ _ _ hp]
  have key := sirLoopL_sim (nl := nl) (idx := idx) (idx' := idx') h.idx_inj hinj' nbrs tr rr h.2.2
    (xi := fun i => xinvG (Vst.f (0 + i))) (xi' := fun i => xinvG (Vst'.f (0 + i)))
    (xy := fun a b => Vst.f ((2 * N) + (a * N + b))) (xy' := fun a b => Vst'.f ((2 * N) + (a * N + b)))
    (xx := fun a b => Vst.f (((2 * N) + N * N) + (a * N + b)))
    (xx' := fun a b => Vst'.f (((2 * N) + N * N) + (a * N + b)))
    (fun u hu => by simp only [Nat.zero_add, hX u hu])
    (fun u hu v hv => by simp only [Nat.two_mul, Nat.add_assoc]; exact hXY u hu v hv)
    (fun u hu v hv => by simp only [Nat.two_mul, Nat.add_assoc]; exact hXX u hu v hv)
    (y := fun i => Vst.f (N + i)) (y' := fun i => Vst'.f (N + i))
    (fun u hu => hY u hu)
  obtain ⟨k1, k2, k3, k4⟩ := key
  refine ⟨fun u hu => ⟨?_, ?_⟩, fun u hu v hv => ⟨?_, ?_⟩⟩
  · rw [((GenEqLoops2.unpack4 N _ _ _ _).1 _ (hlt' u hu)).1, ((GenEqLoops2.unpack4 N _ _ _ _).1 _ (hlt u hu)).1]
    exact k2 u hu
  · rw [((GenEqLoops2.unpack4 N _ _ _ _).1 _ (hlt' u hu)).2, ((GenEqLoops2.unpack4 N _ _ _ _).1 _ (hlt u hu)).2]
    exact k1 u hu
  · rw [((GenEqLoops2.unpack4 N _ _ _ _).2 _ _ (hlt' u hu) (hlt' v hv)).1,
      ((GenEqLoops2.unpack4 N _ _ _ _).2 _ _ (hlt u hu) (hlt v hv)).1]
    exact k3 u hu v hv
  · rw [((GenEqLoops2.unpack4 N _ _ _ _).2 _ _ (hlt' u hu) (hlt' v hv)).2,
      ((GenEqLoops2.unpack4 N _ _ _ _).2 _ _ (hlt u hu) (hlt v hv)).2]
    exact k4 u hu v hv

end GenLabel
