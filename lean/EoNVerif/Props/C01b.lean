import EoNVerif.Model.FastSIRLaw
import EoNVerif.Proofs.FastSIRLaw
/-!
C01b — the sampling identity behind the unweighted (`constant tau`) path of `fast_SIR`
(`/repo/EoN/simulation.py`, `_trans_and_rec_time_Markovian_const_trans_`, l.1925-1943, installed by `fast_SIR`
at l.2114-2116).

For a newly infected `node` with susceptible neighbours `sus_neighbors` (= `l`, a duplicate-free list) the code
draws `duration`, puts `q = trans_prob = 1-exp(-tau*duration)` (l.1936) and then

* l.1937  `number_to_infect = np.random.binomial(len(sus_neighbors), trans_prob)`   — `binomialDist |l| q`
* l.1939  `transmission_recipients = random.sample(sus_neighbors, number_to_infect)` — `sampleDist l k` /
  `orderedSampleDist l k`

instead of one `random.random() < q` test per neighbour.  The theorems below say that, conditionally on
`duration` (i.e. for every value of `q`), the **set of recipients has exactly the same law** as under independent
Bernoulli(`q`) tests (`indepDist l q`, the `percolateDist` of C12).

`q` is an arbitrary rational here: the identities are polynomial identities in `q`, so they hold in particular
for every real value of `1-exp(-tau*duration)` approximated by the floats (no `0 ≤ q ≤ 1` needed for the
equalities; `binomialPmf_nonneg` records non-negativity of the weights when `0 ≤ q ≤ 1`).
The real-analysis half (law of the delays, `_truncated_exponential_`) is in `Props/C01c.lean`.
-/
namespace FastSIRLaw
variable {α : Type} [DecidableEq α]

/-- **`np.random.binomial` is what it should be**: `binomialDist n q` (the model of l.1937) puts on `k` the mass
`C(n,k) q^k (1-q)^(n-k)` ... -/
theorem binomial_pmf (n : Nat) (q : Rat) (k : Nat) (hk : k ≤ n) :
    Dist.mass (binomialDist n q) (fun j => j == k) = (Nat.choose n k : Rat) * q ^ k * (1 - q) ^ (n - k) := by
  rw [mass_binomialDist, if_pos hk, binomialPmf, rpow_eq, rpow_eq, choose_eq]

/-- ... which is the law of the number of successes among `n` independent `random.random() < q` tests. -/
theorem binomial_is_success_count (n : Nat) (q : Rat) (k : Nat) (hk : k ≤ n) :
    Dist.mass (binomialDist n q) (fun j => j == k) = Dist.mass (successCount q n) (fun c => c == k) := by
  rw [mass_binomialDist, if_pos hk, successCount_law]

/-- the binomial weights are probabilities: they add up to one (binomial theorem) and are non-negative for
`0 ≤ q ≤ 1` -/
theorem binomial_total (n : Nat) (q : Rat) : Dist.mass (binomialDist n q) (fun _ => true) = 1 :=
  mass_binomialDist_total n q

theorem binomial_nonneg (n : Nat) (q : Rat) (h0 : 0 ≤ q) (h1 : q ≤ 1) :
    ∀ x ∈ binomialDist n q, 0 ≤ x.2 := by
  intro x hx
  simp only [binomialDist, List.mem_map] at hx
  obtain ⟨k, _, rfl⟩ := hx
  exact binomialPmf_nonneg n q h0 h1 k

/-- **`random.sample(l, k)` as a set is uniform on the `C(|l|,k)` subsets of size `k`**: the sublist of `l`
selected by `keep` has mass `1/C(|l|,k)` if it has `k` elements and `0` otherwise; this holds for the ordered
sampling procedure of CPython's `random.sample` (successive uniform picks without replacement) after forgetting
the order.  (l.1939) -/
theorem sample_uniform (l : List α) (hn : l.Nodup) (keep : α → Bool) (k : Nat) :
    Dist.mass (Dist.push (asSublist l) (orderedSampleDist l k)) (fun s => s == l.filter keep)
      = if k = (l.filter keep).length then 1 / (Nat.choose l.length k : Rat) else 0 := by
  rw [ordered_eq_sample l hn keep k, mass_sampleDist l hn keep k, choose_eq]

omit [DecidableEq α] in
/-- `random.sample(l,k)` returns something (total mass one) whenever `k ≤ len(l)` — which `np.random.binomial`
guarantees -/
theorem sample_total (l : List α) (k : Nat) (hk : k ≤ l.length) :
    Dist.mass (orderedSampleDist l k) (fun _ => true) = 1 :=
  ordered_total k l hk

/-- **C01b, the sampling identity** (l.1936-1939): drawing `number_to_infect ~ Binomial(n, q)` and then
`random.sample(sus_neighbors, number_to_infect)` selects the set of neighbours marked by `keep` with probability
`q^|A| (1-q)^(n-|A|)` — the product formula of `n` independent Bernoulli(`q`) transmissions
(right-hand side of `Discrete.percolate_edge_law`, C12). -/
theorem recipients_law (l : List α) (hn : l.Nodup) (q : Rat) (keep : α → Bool) :
    Dist.mass (recipientsDist l q) (fun s => s == l.filter keep) =
      q ^ (l.filter keep).length * (1 - q) ^ (l.length - (l.filter keep).length) :=
  recipients_law' l hn q keep

/-- the same, with the ordered sampler of `random.sample` and the order forgotten afterwards -/
theorem recipientsOrd_law (l : List α) (hn : l.Nodup) (q : Rat) (keep : α → Bool) :
    Dist.mass (recipientsOrdDist l q) (fun s => s == l.filter keep) =
      q ^ (l.filter keep).length * (1 - q) ^ (l.length - (l.filter keep).length) :=
  recipientsOrd_law' l hn q keep

omit [DecidableEq α] in
/-- the procedure always produces a recipient set: total mass one (no `ValueError` from `random.sample`, no
lost mass) -/
theorem recipients_total (l : List α) (q : Rat) : Dist.mass (recipientsDist l q) (fun _ => true) = 1 :=
  recipients_total' l q

theorem recipientsOrd_total (l : List α) (q : Rat) : Dist.mass (recipientsOrdDist l q) (fun _ => true) = 1 :=
  recipientsOrd_total' l q

/-- **C01b, equality in law**: *every* event about the set of recipients has the same probability under the
code's "binomial number, then uniform sample" and under "each neighbour independently with probability
`trans_prob`".  So `fast_SIR`'s constant-`tau` shortcut does not change the law of who receives a
transmission from `node`. -/
theorem recipients_eq_indep (l : List α) (hn : l.Nodup) (q : Rat) (P : List α → Bool) :
    Dist.mass (recipientsDist l q) P = Dist.mass (indepDist l q) P :=
  recipients_eq_indep' l hn q P

theorem recipientsOrd_eq_indep (l : List α) (hn : l.Nodup) (q : Rat) (P : List α → Bool) :
    Dist.mass (recipientsOrdDist l q) P = Dist.mass (indepDist l q) P :=
  recipientsOrd_eq_indep' l hn q P

/-! ### concrete instances (the hypotheses are satisfiable, the statements are not vacuous) -/

/-- three neighbours `1,2,3`, `q = 1/3`: the recipient set `{1,3}` has probability `(1/3)^2 (2/3) = 2/27`;
checked both by evaluating the model in the kernel and by instantiating the theorem -/
example : Dist.mass (recipientsDist [1, 2, 3] (1 / 3 : Rat)) (fun s => s == [1, 3]) = 2 / 27 := by decide +kernel
example : Dist.mass (recipientsOrdDist [1, 2, 3] (1 / 3 : Rat)) (fun s => s == [1, 3]) = 2 / 27 := by
  decide +kernel
example : Dist.mass (indepDist [1, 2, 3] (1 / 3 : Rat)) (fun s => s == [1, 3]) = 2 / 27 := by decide +kernel
example : Dist.mass (recipientsDist [1, 2, 3] (1 / 3 : Rat)) (fun s => s == [1, 3])
    = (1 / 3 : Rat) ^ 2 * (1 - 1 / 3) ^ (3 - 2) :=
  recipients_law [1, 2, 3] (by decide) (1 / 3) (fun x => x != 2)
example : Dist.mass (recipientsOrdDist [1, 2, 3] (1 / 3 : Rat)) (fun s => s == [1, 3])
    = (1 / 3 : Rat) ^ 2 * (1 - 1 / 3) ^ (3 - 2) :=
  recipientsOrd_law [1, 2, 3] (by decide) (1 / 3) (fun x => x != 2)
example : Dist.mass (recipientsDist [1, 2, 3] (1 / 3 : Rat)) (fun s => s.length == 2)
    = Dist.mass (indepDist [1, 2, 3] (1 / 3 : Rat)) (fun s => s.length == 2) :=
  recipients_eq_indep [1, 2, 3] (by decide) (1 / 3) _
example : Dist.mass (recipientsDist [1, 2, 3] (1 / 3 : Rat)) (fun s => s.length == 2) = 2 / 9 := by decide +kernel
example : Dist.mass (binomialDist 4 (1 / 3 : Rat)) (fun j => j == 2) = 8 / 27 := by decide +kernel
example : Dist.mass (binomialDist 4 (1 / 3 : Rat)) (fun j => j == 2)
    = (Nat.choose 4 2 : Rat) * (1 / 3) ^ 2 * (1 - 1 / 3) ^ (4 - 2) := binomial_pmf 4 (1 / 3) 2 (by decide)
example : Dist.mass (Dist.push (asSublist [1, 2, 3, 4]) (orderedSampleDist [1, 2, 3, 4] 2)) (fun s => s == [2, 4])
    = 1 / 6 := by decide +kernel
example : Dist.mass (Dist.push (asSublist [1, 2, 3, 4]) (orderedSampleDist [1, 2, 3, 4] 2)) (fun s => s == [2, 4])
    = if 2 = 2 then 1 / (Nat.choose 4 2 : Rat) else 0 :=
  sample_uniform [1, 2, 3, 4] (by decide) (fun x => x % 2 == 0) 2

end FastSIRLaw
