import EoNVerif.Proofs.GenArgs
/-!
C05c — the code GENERATED from the argument normalisation at the head of the simulators (`Gen/ArgsGen.lean`, namespace
`GenArgs`, translated by `harness/pyargs2lean.py`) is the hand model `InitArgs.normInit` of C05 / C05b.

Conventions.
* `GenArgsProofs.Sim` lists the ten simulators (seven translated bodies, three forwarding wrappers), `X.norm` is the
  generated function of `X` (`norm_table` below: the table, by `rfl`), `X.guardsRecs` is true for
  `fast_nonMarkov_SIR` and its wrapper `fast_SIR` only: they also reject `rho` together with `initial_recovereds`.
* arguments of a generated function: `A : NArgs` (`A.nodes = list(G)`), `rho : Option Rat`,
  `initial_infecteds : Option Src` (`Src = Node ⊕ List Node`: a scalar or a collection), `initial_recovereds : Option Src`.
* the hand model works on the index graph: `A = ⟨List.range n⟩`.
* `GenArgsProofs.initialNumber N rho` is `1` for `rho = None` and `int(round(N*rho))` otherwise.
-/
open PyPM PyArgs GenArgsProofs

namespace C05c

/-- the table `X ↦ generated function` used by every theorem below -/
theorem norm_table :
    Sim.norm .discrete_SIR = GenArgs.norm_discrete_SIR ∧
    Sim.norm .basic_discrete_SIS = GenArgs.norm_basic_discrete_SIS ∧
    Sim.norm .fast_nonMarkov_SIR = GenArgs.norm_fast_nonMarkov_SIR ∧
    Sim.norm .fast_SIS = GenArgs.norm_fast_SIS ∧
    Sim.norm .fast_nonMarkov_SIS = GenArgs.norm_fast_nonMarkov_SIS ∧
    Sim.norm .Gillespie_SIR = GenArgs.norm_Gillespie_SIR ∧
    Sim.norm .Gillespie_SIS = GenArgs.norm_Gillespie_SIS ∧
    Sim.norm .fast_SIR = GenArgs.norm_fast_SIR ∧
    Sim.norm .basic_discrete_SIR = GenArgs.norm_basic_discrete_SIR ∧
    Sim.norm .percolation_based_discrete_SIR = GenArgs.norm_percolation_based_discrete_SIR ∧
    (∀ X : Sim, X.guardsRecs = true ↔ X = .fast_nonMarkov_SIR ∨ X = .fast_SIR) := by
  refine ⟨rfl, rfl, rfl, rfl, rfl, rfl, rfl, rfl, rfl, rfl, ?_⟩
  intro X
  cases X <;> decide

/-- **1 — `int(round(x))`**: the generated rounding is the hand model's round-half-to-even -/
theorem intRound_eq_roundHalfEven : PyArgs.intRound = InitArgs.roundHalfEven := rfl

/-! ### 2 — on the index graph every generated function is `InitArgs.normInit` -/

/-- neither `rho` nor `initial_infecteds`: one sampled node, whatever `initial_recovereds` -/
theorem norm_default (X : Sim) (n : Nat) (recs : Option Src) (ts : TapeSt) :
    X.norm ⟨List.range n⟩ none none recs ts = InitArgs.normInit n .default ts := by
  rw [X.norm_eq _ _ _ _ (fun _ => Or.inl rfl)]
  exact normCommon_default_range n ts

/-- `rho` given: `int(round(N*rho))` sampled nodes (ValueError for a negative or too large number).  For
`fast_nonMarkov_SIR` / `fast_SIR` this needs `initial_recovereds = None` (see `norm_rho_and_recovereds`). -/
theorem norm_rho (X : Sim) (n : Nat) (r : Rat) (recs : Option Src) (hrecs : X.guardsRecs = true → recs = none)
    (ts : TapeSt) :
    X.norm ⟨List.range n⟩ (some r) none recs ts = InitArgs.normInit n (.rho r) ts := by
  rw [X.norm_eq _ _ _ _ (fun h => Or.inr (Or.inl (hrecs h)))]
  exact normCommon_rho_range n r ts

/-- `fast_nonMarkov_SIR` / `fast_SIR` only: `rho` together with `initial_recovereds` is an EoNError (any graph, any
`initial_infecteds`); the hand model `InitSpec` has no `initial_recovereds`, so no such case -/
theorem norm_rho_and_recovereds (X : Sim) (hX : X.guardsRecs = true) (A : NArgs) (r : Rat) (ii : Option Src) (x : Src)
    (ts : TapeSt) :
    X.norm A (some r) ii (some x) ts = .error "EoNError" :=
  X.norm_guard_fires hX A r ii x ts

/-- both `rho` and `initial_infecteds`: EoNError on any graph, for any values — `normInit n (.both l r)` -/
theorem norm_both (X : Sim) (A : NArgs) (r : Rat) (x : Src) (recs : Option Src) (ts : TapeSt) (n : Nat) (l : List Node) :
    X.norm A (some r) (some x) recs ts = .error "EoNError" ∧
    X.norm A (some r) (some x) recs ts = InitArgs.normInit n (.both l r) ts := by
  have h : X.norm A (some r) (some x) recs ts = .error "EoNError" := by
    rw [X.norm_eq _ _ _ _ (fun _ => Or.inr (Or.inr rfl))]
    rfl
  exact ⟨h, h⟩

/-- a single node of the graph becomes the one-element list; no randomness is consumed -/
theorem norm_single (X : Sim) (n : Nat) (u : Node) (hu : u < n) (recs : Option Src) (ts : TapeSt) :
    X.norm ⟨List.range n⟩ none (some (.inl u)) recs ts = InitArgs.normInit n (.single u) ts ∧
    X.norm ⟨List.range n⟩ none (some (.inl u)) recs ts = .ok ([u], ts) := by
  rw [X.norm_eq _ _ _ _ (fun _ => Or.inl rfl)]
  exact ⟨normCommon_single_range n u hu ts, normCommon_single_range n u hu ts⟩

/-- a collection is used as it is, on any graph (also one with entries that are not nodes); no randomness is consumed -/
theorem norm_nodes (X : Sim) (A : NArgs) (n : Nat) (l : List Node) (recs : Option Src) (ts : TapeSt) :
    X.norm A none (some (.inr l)) recs ts = InitArgs.normInit n (.nodes l) ts ∧
    X.norm A none (some (.inr l)) recs ts = .ok (l, ts) := by
  rw [X.norm_eq _ _ _ _ (fun _ => Or.inl rfl)]
  exact ⟨rfl, rfl⟩

/-- a scalar that is not a node of the graph is not iterable: TypeError.  The hand model has no such case
(`InitSpec.single u` is only meant for a node `u` of `G`; `normInit n (.single u)` returns `[u]` for every `u`). -/
theorem norm_not_a_node (X : Sim) (n : Nat) (u : Node) (hu : n ≤ u) (recs : Option Src) (ts : TapeSt) :
    X.norm ⟨List.range n⟩ none (some (.inl u)) recs ts = .error "TypeError" := by
  rw [X.norm_eq _ _ _ _ (fun _ => Or.inl rfl)]
  exact normCommon_not_node_range n u hu ts

/-! ### 3 — any graph -/

/-- a scalar on any graph: `[u]` when `G.has_node(u)`, TypeError otherwise -/
theorem norm_scalar_general (X : Sim) (A : NArgs) (u : Node) (recs : Option Src) (ts : TapeSt) :
    X.norm A none (some (.inl u)) recs ts = if u ∈ A.nodes then .ok ([u], ts) else .error "TypeError" := by
  rw [X.norm_eq _ _ _ _ (fun _ => Or.inl rfl)]
  by_cases h : u ∈ A.nodes
  · rw [if_pos h]; exact normCommon_single A u (by simpa using h) ts
  · rw [if_neg h]; exact normCommon_not_node A u (by simpa using h) ts

/-- default / `rho` on any node list: ValueError for a negative `initial_number`; otherwise `random.sample` pops
`initial_number` scripted indices below `N = |list(G)|` (ValueError when `initial_number > N`) and the result is the nodes
at these indices -/
theorem norm_sample_general (X : Sim) (A : NArgs) (rho : Option Rat) (recs : Option Src)
    (hrecs : X.guardsRecs = true → rho = none ∨ recs = none) (ts : TapeSt) :
    X.norm A rho none recs ts =
      if initialNumber A.nodes.length rho < 0 then .error "ValueError" else
      match TM.popSample A.nodes.length (initialNumber A.nodes.length rho).toNat ts with
      | .ok (idx, ts') => .ok (idx.map (fun i => A.nodes.getD i 0), ts')
      | .error e => .error e := by
  rw [X.norm_eq _ _ _ _ (fun h => (hrecs h).elim Or.inl (fun h => Or.inr (Or.inl h)))]
  rw [normCommon_sample]
  exact sample_eq _ _ _

/-- default / `rho` on any node list, successful runs: exactly `initial_number` nodes of the graph, at distinct
positions of `list(G)` (so distinct nodes when `list(G)` is duplicate free), `0 ≤ initial_number ≤ N`, one `sample` draw
consumed -/
theorem norm_sample_ok (X : Sim) (A : NArgs) (rho : Option Rat) (recs : Option Src) (ts ts' : TapeSt) (l : List Node)
    (h : X.norm A rho none recs ts = .ok (l, ts')) :
    0 ≤ initialNumber A.nodes.length rho ∧ initialNumber A.nodes.length rho ≤ A.nodes.length ∧
    ∃ idx, TM.popSample A.nodes.length (initialNumber A.nodes.length rho).toNat ts = .ok (idx, ts') ∧
      l = idx.map (fun i => A.nodes.getD i 0) ∧ idx.Nodup ∧ (∀ i ∈ idx, i < A.nodes.length) ∧
      (l.length : Int) = initialNumber A.nodes.length rho ∧ (∀ u ∈ l, u ∈ A.nodes) ∧ (A.nodes.Nodup → l.Nodup) := by
  have hc : normCommon A rho none ts = .ok (l, ts') := by
    cases hg : X.guardsRecs with
    | false => rw [← X.norm_unguarded hg]; exact h
    | true =>
      rw [X.norm_guarded hg] at h
      split at h
      · cases h
      · exact h
  rw [normCommon_sample] at hc
  obtain ⟨h0, h1, idx, h2, h3, _, h5, h6, h7, h8, h9⟩ := sample_ok _ _ _ _ _ hc
  exact ⟨h0, h1, idx, h2, h3, h5, h6, h7, h8, h9⟩

/-- `int(round(N*rho)) < 0` or `> N`: ValueError (raised by `random.sample`), on any graph -/
theorem norm_rho_ValueError (X : Sim) (A : NArgs) (r : Rat) (recs : Option Src)
    (hrecs : X.guardsRecs = true → recs = none) (ts : TapeSt)
    (h : PyArgs.intRound ((A.nodes.length : Rat) * r) < 0 ∨ (A.nodes.length : Int) < PyArgs.intRound ((A.nodes.length : Rat) * r)) :
    X.norm A (some r) none recs ts = .error "ValueError" := by
  rw [X.norm_eq _ _ _ _ (fun h => Or.inr (Or.inl (hrecs h))), normCommon_sample]
  rcases h with h | h
  · exact sample_neg _ _ _ h
  · exact sample_big _ _ _ h

/-- the default on the empty graph: ValueError (`random.sample([], 1)`) -/
theorem norm_default_empty (X : Sim) (recs : Option Src) (ts : TapeSt) :
    X.norm ⟨[]⟩ none none recs ts = .error "ValueError" := by
  rw [X.norm_eq _ _ _ _ (fun _ => Or.inl rfl), normCommon_sample]
  exact sample_big _ _ _ (by decide)

/-! ### 4 — the generated functions against each other -/

/-- all generated functions agree on every input with `initial_recovereds = None`; two simulators of the same kind
(both with or both without the `rho`/`initial_recovereds` guard) agree on every input -/
theorem norm_all_agree (X Y : Sim) (A : NArgs) (rho : Option Rat) (ii recs : Option Src)
    (h : recs = none ∨ X.guardsRecs = Y.guardsRecs) :
    X.norm A rho ii recs = Y.norm A rho ii recs := by
  rcases h with h | h
  · subst h
    rw [X.norm_eq _ _ _ _ (fun _ => Or.inr (Or.inl rfl)), Y.norm_eq _ _ _ _ (fun _ => Or.inr (Or.inl rfl))]
  · cases hg : Y.guardsRecs with
    | false => rw [X.norm_unguarded (h.trans hg), Y.norm_unguarded hg]
    | true => rw [X.norm_guarded (h.trans hg), Y.norm_guarded hg]

/-- `fast_nonMarkov_SIR` / `fast_SIR` differ from the other simulators exactly when `rho` and `initial_recovereds` are
given and `initial_infecteds` is not: there they raise EoNError and the others never do -/
theorem norm_differ_iff (X Y : Sim) (hX : X.guardsRecs = true) (hY : Y.guardsRecs = false) (A : NArgs)
    (rho : Option Rat) (ii recs : Option Src) (ts : TapeSt) :
    (X.norm A rho ii recs ts ≠ Y.norm A rho ii recs ts ↔ rho.isSome = true ∧ recs.isSome = true ∧ ii = none) ∧
    (rho.isSome = true ∧ recs.isSome = true ∧ ii = none →
      X.norm A rho ii recs ts = .error "EoNError" ∧ Y.norm A rho ii recs ts ≠ .error "EoNError") := by
  have key : rho.isSome = true ∧ recs.isSome = true ∧ ii = none →
      X.norm A rho ii recs ts = .error "EoNError" ∧ Y.norm A rho ii recs ts ≠ .error "EoNError" := by
    rintro ⟨h1, h2, h3⟩
    obtain ⟨r, rfl⟩ := Option.isSome_iff_exists.mp h1
    obtain ⟨x, rfl⟩ := Option.isSome_iff_exists.mp h2
    subst h3
    refine ⟨X.norm_guard_fires hX A r none x ts, ?_⟩
    rw [Y.norm_unguarded hY]
    exact normCommon_none_ne_EoNError A _ ts
  refine ⟨⟨?_, ?_⟩, key⟩
  · intro hne
    by_contra hc
    apply hne
    rw [Y.norm_unguarded hY, X.norm_eq]
    intro _
    cases rho <;> cases recs <;> cases ii <;> simp_all
  · intro h hEq
    obtain ⟨h1, h2⟩ := key h
    exact h2 (hEq ▸ h1)

/-! ### closed examples -/
section Examples

/-- what is compared: the returned list and the number of draws left, or the exception -/
private def obs (r : Except String (List Node × TapeSt)) : Except String (List Node × Nat) :=
  match r with
  | .ok (l, ts) => .ok (l, ts.tape.length)
  | .error e => .error e

private def G5 : NArgs := ⟨List.range 5⟩

/-! `N = 5`, `rho = 1/2`: `N*rho = 5/2` rounds half-to-even to 2; `rho = 3/10`: `3/2` rounds to 2; `rho = 7/10`: `7/2`
rounds to 4 -/
example : PyArgs.intRound ((5 : Rat) * (1/2)) = 2 := by decide +kernel
example : PyArgs.intRound ((5 : Rat) * (3/10)) = 2 := by decide +kernel
example : PyArgs.intRound ((5 : Rat) * (7/10)) = 4 := by decide +kernel
example : InitArgs.roundHalfEven ((5 : Rat) * (1/2)) = 2 := by decide +kernel

example : obs (GenArgs.norm_Gillespie_SIR G5 (some (1/2)) none none { tape := [.sample [3, 0]] }) = .ok ([3, 0], 0) := by
  decide +kernel
example : obs (InitArgs.normInit 5 (.rho (1/2)) { tape := [.sample [3, 0]] }) = .ok ([3, 0], 0) := by
  decide +kernel
example : obs (GenArgs.norm_fast_SIS G5 (some (3/10)) none (some (.inr [4])) { tape := [.sample [1, 4], .unif 0] })
    = .ok ([1, 4], 1) := by decide +kernel
/-- the tape proxy refuses a draw of the wrong size: `rho = 1/2` asks for 2 nodes, not 3 -/
example : obs (GenArgs.norm_discrete_SIR G5 (some (1/2)) none none { tape := [.sample [3, 0, 1]] })
    = .error "tape-bad-sample" := by decide +kernel
/-- default: one sampled node -/
example : obs (GenArgs.norm_basic_discrete_SIS G5 none none none { tape := [.sample [2]] }) = .ok ([2], 0) := by
  decide +kernel
example : obs (GenArgs.norm_fast_nonMarkov_SIR G5 none none (some (.inl 1)) { tape := [.sample [2]] }) = .ok ([2], 0) := by
  decide +kernel
/-- a graph whose node list is not `0..n-1`: the sampled positions 2, 0 are the nodes 30, 10 -/
example : obs (GenArgs.norm_fast_nonMarkov_SIS ⟨[10, 20, 30, 40]⟩ (some (1/2)) none none { tape := [.sample [2, 0]] })
    = .ok ([30, 10], 0) := by decide +kernel
/-- both given -/
example : obs (GenArgs.norm_Gillespie_SIS G5 (some (1/2)) (some (.inr [0])) none { tape := [] }) = .error "EoNError" := by
  decide +kernel
example : obs (GenArgs.norm_Gillespie_SIS G5 (some 0) (some (.inl 0)) none { tape := [] }) = .error "EoNError" := by
  decide +kernel
/-- `rho` with `initial_recovereds`: an error for `fast_nonMarkov_SIR` / `fast_SIR` only -/
example : obs (GenArgs.norm_fast_nonMarkov_SIR G5 (some (1/2)) none (some (.inr [4])) { tape := [.sample [3, 0]] })
    = .error "EoNError" := by decide +kernel
example : obs (GenArgs.norm_fast_SIR G5 (some (1/2)) none (some (.inr [4])) { tape := [.sample [3, 0]] })
    = .error "EoNError" := by decide +kernel
example : obs (GenArgs.norm_Gillespie_SIR G5 (some (1/2)) none (some (.inr [4])) { tape := [.sample [3, 0]] })
    = .ok ([3, 0], 0) := by decide +kernel
/-- a single node; a collection; a scalar that is not a node -/
example : obs (GenArgs.norm_fast_SIS G5 none (some (.inl 4)) none { tape := [.unif 0] }) = .ok ([4], 1) := by
  decide +kernel
example : obs (GenArgs.norm_fast_SIS G5 none (some (.inr [4, 1])) none { tape := [.unif 0] }) = .ok ([4, 1], 1) := by
  decide +kernel
example : obs (GenArgs.norm_fast_SIS G5 none (some (.inl 5)) none { tape := [.unif 0] }) = .error "TypeError" := by
  decide +kernel
/-- `rho` out of range: `rho = -1/5` gives `-1`, `rho = 2` gives 10 > 5 -/
example : obs (GenArgs.norm_percolation_based_discrete_SIR G5 (some (-1/5)) none none { tape := [.sample []] })
    = .error "ValueError" := by decide +kernel
example : obs (GenArgs.norm_basic_discrete_SIR G5 (some 2) none none { tape := [.sample [0, 1, 2, 3, 4]] })
    = .error "ValueError" := by decide +kernel
/-- the hypotheses of the theorems are satisfiable -/
example : Sim.guardsRecs .fast_SIR = true ∧ Sim.guardsRecs .Gillespie_SIS = false := by decide
example : (3 : Node) < 5 ∧ (5 : Nat) ≤ (5 : Node) := by decide

end Examples

end C05c

#print axioms C05c.norm_table
#print axioms C05c.intRound_eq_roundHalfEven
#print axioms C05c.norm_default
#print axioms C05c.norm_rho
#print axioms C05c.norm_rho_and_recovereds
#print axioms C05c.norm_both
#print axioms C05c.norm_single
#print axioms C05c.norm_nodes
#print axioms C05c.norm_not_a_node
#print axioms C05c.norm_scalar_general
#print axioms C05c.norm_sample_general
#print axioms C05c.norm_sample_ok
#print axioms C05c.norm_rho_ValueError
#print axioms C05c.norm_default_empty
#print axioms C05c.norm_all_agree
#print axioms C05c.norm_differ_iff
