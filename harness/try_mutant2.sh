#!/bin/bash
# usage: try_mutant2.sh <dir with patch.diff and demo.py> <property ids...>
# like try_mutant.sh but on a scratch worktree of /repo (EON_REPO), so that /repo itself stays untouched while
# other jobs read it.  Sequential use only: the checks share /verif/lean.
d=$(readlink -f $1); shift
W=/tmp/mrepo
[ -d $W ] || git -C /repo worktree add --detach $W HEAD >/dev/null 2>&1 || exit 2
git -C $W checkout -q --detach $(git -C /repo rev-parse HEAD) && git -C $W checkout -- . || exit 2
echo "== demo on original:"; (cd /tmp && PYTHONPATH=$W MPLBACKEND=Agg /venv/bin/python $d/demo.py 2>&1 | tail -1)
git -C $W apply $d/patch.diff || { echo "patch does not apply"; exit 2; }
echo "== demo on mutant:"; (cd /tmp && PYTHONPATH=$W MPLBACKEND=Agg /venv/bin/python $d/demo.py 2>&1 | tail -1)
cd /verif
for p in "$@"; do
  for s in ${SEEDS:-0 1}; do
    EON_REPO=$W VERIF_SEED=$s /venv/bin/python harness/check.py $p --tier ${TIER:-quick} 2>&1 | grep -E "VIOLATION|quick:|thorough:|Traceback" | cut -c1-220
  done
done
git -C $W checkout -- .
for t in py2lean py2lean_loops pyclass2lean pyfunc2lean pyevent2lean pyinit2lean pyinvest2lean pysimple2lean pydisc2lean pyperc2lean pyargs2lean pyfsir2lean pyglue2lean pyhelp2lean pymat2lean pywrap2lean pyglue3lean pypm2lean pysi2lean; do /venv/bin/python /verif/harness/$t.py >/dev/null 2>&1; done
git -C /verif checkout -- evidence 2>/dev/null
git -C /verif status --short lean/EoNVerif/Gen | head
echo "== done"
