import EoNVerif.Proofs.GenWrap5
import EoNVerif.Props.C06j
/-!
C06k — continuation of C06e / C06g / C06h / C06j for the `*_from_graph` wrappers of `EoN/analytic.py` GENERATED into
`Gen/WrapGen.lean`.  Lemmas: `Proofs/GenWrap5.lean`.  Vocabulary as before: `GraphOK A.toIArgs adj`, `GraphOKW A adj`
(= `GraphOK` + "`G.neighbors(u)` is the adjacency list of `u`"), `SetsOK adj infs recs`, `N = adj.length`, `count`,
`statusOf` of `Model/InitCond.lean`; `KeysOK`, `nksF`, `pmRun`, `pmResult`, `rhoOf` of C06i.

1. `KeysOK` for the dicts `get_Pk(G)`, `get_Pnk(G)` that `EBCM_pref_mix(_discrete)_from_graph` build (key structure of
   `get_Pnk`'s double loop: `get_Pnk_graph_keys`, `KeysOK_graph`, `no_zero_row_key`), and the hand-composed
   `EBCM_pref_mix_discrete_from_graph` (wrapper record fed to the generated base function of C06i): never a KeyError /
   ZeroDivisionError from the loop, output = `pmResult`, `S + I + R = N`.
2. the `rho` variant of the attack-rate ↔ `EBCM_discrete_from_graph` link, and the closed form of the `rho ∈ {None, 0}`
   early return (`Epi_Prob_discrete`).
3. `SIS_effective_degree_from_graph` / `SIR_effective_degree_from_graph`: the `(s, i)` tables for explicit sets and for
   `rho` / default, shapes, exceptions with precedence, totals, end to end with C06i's base functions (hand-composed).
5. kernel-checked examples and counter-examples on `exW`.
NOT covered: the general proof that the `rho` tables sum to `(1-rho)N` / `rho·N` (binomial theorem; kernel-checked on
`exW` only); full-data class rows of `SIR_compact_effective_degree_from_graph` (task item 4); `EBCM_pref_mix_from_graph`
composed with the continuous-time base function (only its argument record: C06j + `KeysOK_graph` here).
-/
set_option linter.unusedSimpArgs false
namespace GenWrapProps5
open GenInit InitCond GenInitProofs GenWrap GenWrapProofs GenWrapProofs2 GenWrapProofs3 GenWrapProofs4 GenWrapProofs5
open GenGlueProofs GenWrapProps GenWrapProps2 GenWrapProps3 GenWrapProps4
open GenHelpProofs (PkAL nbrDegs psiHatAL psiHatPAL thetaMap resolvePhiS0 kAveAL psiAL psiPAL alphaMap)
open GenGlue3Proofs (KeysOK ZeroOK Good keys nksF pnkF pkF lkD pmRun pmResult)
open GenGlue3Props (rhoOf)
open Gen PyGlue PyGlue2
open GenGlue2Proofs (rowAt constOdeint)

/-! ## 1. `KeysOK` for the graph's own dicts -/

/-- `d.get(k, dflt)` of C06i is `alGet` -/
theorem lkD_eq_alGet {α : Type} (d : List (Nat × α)) (k : Nat) (dflt : α) : lkD d k dflt = alGet d dflt k := by
  induction d with
  | nil => rfl
  | cons a t ih =>
    obtain ⟨k', v⟩ := a
    by_cases h : k' = k
    · rw [GenGlue3Proofs.lkD_cons_eq _ _ _ _ h]; simp [alGet, h]
    · rw [GenGlue3Proofs.lkD_cons_ne _ _ _ _ h, ih]; simp [alGet, h]

/-- every listed neighbour is a node -/
def NbrsInRange (adj : List (List Nat)) : Prop := ∀ nb ∈ adj, ∀ v ∈ nb, v < adj.length
/-- the adjacency lists are symmetric -/
def NbrsSymm (adj : List (List Nat)) : Prop := ∀ u v, v ∈ adj.getD u [] → u ∈ adj.getD v []

theorem GraphOK.inRange {A : IArgs} {adj : List (List Nat)} (hG : GraphOK A adj) : NbrsInRange adj := by
  intro nb hnb v hv
  obtain ⟨u, hu, rfl⟩ := List.mem_iff_getElem.mp hnb
  have hv' : v ∈ adj.getD u [] := by simpa [List.getD, hu] using hv
  exact lt_of_mem_getD adj v u ((hG.symm u v).mp hv')

theorem GraphOK.nbrsSymm {A : IArgs} {adj : List (List Nat)} (hG : GraphOK A adj) : NbrsSymm adj :=
  fun u v h => (hG.symm u v).mp h

/-- (A) **the keys of `get_Pnk(G)`**, ANY adjacency lists (no symmetry, no range condition): the outer keys are the degrees
present (the keys of `get_Pk(G)`, as sets); `k2` is a key of `Pnk[k1]` iff some node of degree `k1` lists a neighbour of
degree `k2` (an index outside the graph has degree 0) -/
theorem get_Pnk_graph_keys (adj : List (List Nat)) (P : List (Nat × List (Nat × Rat)))
    (h : GenHelp.get_Pnk (nbrDegs adj) = .ok P) :
    (∀ k1, k1 ∈ keys P ↔ k1 ∈ adj.map (·.length)) ∧
    (∀ k1, k1 ∈ keys P ↔ k1 ∈ keys (PkAL (adj.map (·.length)))) ∧
    (∀ k1 k2, k2 ∈ nksF P k1 ↔ ∃ nb ∈ adj, nb.length = k1 ∧ ∃ v ∈ nb, (adj.getD v []).length = k2) := by
  obtain ⟨h1, h2⟩ := get_Pnk_keys (nbrDegs adj) P h
  have hdegs : (nbrDegs adj).map (·.length) = adj.map (·.length) := by
    simp [nbrDegs, List.map_map, Function.comp_def]
  rw [hdegs] at h1
  refine ⟨h1, fun k1 => ?_, fun k1 k2 => ?_⟩
  · rw [show keys P = P.map (·.1) from rfl, h1, show keys (PkAL (adj.map (·.length))) = (PkAL (adj.map (·.length))).map (·.1) from rfl,
      GenHelpProofs.PkAL_keys, List.mem_eraseDups]
  · unfold nksF
    rw [lkD_eq_alGet, show keys (alGet P [] k1) = (alGet P [] k1).map (·.1) from rfl, h2]
    unfold nbrDegs
    simp only [List.mem_map, exists_exists_and_eq_and, List.length_map]

/-- (B) **`KeysOK` holds for the graph's dicts** as soon as every listed neighbour is a node (true under `GraphOK`): every
degree present has a row in `Pnk`, and every key of a row — the degree of a neighbour — is a degree present -/
theorem KeysOK_graph (adj : List (List Nat)) (hr : NbrsInRange adj) (P : List (Nat × List (Nat × Rat)))
    (h : GenHelp.get_Pnk (nbrDegs adj) = .ok P) : KeysOK (PkAL (adj.map (·.length))) P := by
  obtain ⟨-, h2, h3⟩ := get_Pnk_graph_keys adj P h
  intro k1 hk1
  refine ⟨(h2 k1).mpr hk1, fun k2 hk2 => ?_⟩
  obtain ⟨nb, hnb, -, v, hv, rfl⟩ := (h3 k1 k2).mp hk2
  have hv' := hr nb hnb v hv
  rw [show keys (PkAL (adj.map (·.length))) = (PkAL (adj.map (·.length))).map (·.1) from rfl, GenHelpProofs.PkAL_keys,
    List.mem_eraseDups]
  exact List.mem_map.mpr ⟨adj[v], List.getElem_mem hv', by simp [List.getD, hv']⟩

/-- (B') with SYMMETRIC adjacency lists **degree 0 is never a key of a row**: a neighbour has the node among its own
neighbours, hence degree ≥ 1.  So the `0.0 ** (-1)` of `EBCM_pref_mix_discrete` is never evaluated (`ZeroOK` for every θ) -/
theorem no_zero_row_key (adj : List (List Nat)) (hs : NbrsSymm adj) (P : List (Nat × List (Nat × Rat)))
    (h : GenHelp.get_Pnk (nbrDegs adj) = .ok P) :
    (∀ k1, 0 ∉ nksF P k1) ∧ ∀ θ, ZeroOK (PkAL (adj.map (·.length))) P θ := by
  obtain ⟨-, -, h3⟩ := get_Pnk_graph_keys adj P h
  have h0 : ∀ k1, 0 ∉ nksF P k1 := by
    intro k1 hk
    obtain ⟨nb, hnb, -, v, hv, hl⟩ := (h3 k1 0).mp hk
    obtain ⟨u, hu, rfl⟩ := List.mem_iff_getElem.mp hnb
    have hv' : v ∈ adj.getD u [] := by simpa [List.getD, hu] using hv
    have := hs u v hv'
    rw [List.length_eq_zero_iff.mp hl] at this
    cases this
  exact ⟨h0, fun θ => GenGlue3Props.ZeroOK_of_no_zero _ _ θ (Or.inl fun k1 _ => h0 k1)⟩

/-- the keys of `get_Pk(G)` are pairwise distinct -/
theorem keys_PkAL_nodup (degs : List Nat) : (keys (PkAL degs)).Nodup := by
  rw [show keys (PkAL degs) = (PkAL degs).map (·.1) from rfl, GenHelpProofs.PkAL_keys]
  exact GenHelpProofs.nodup_eraseDups degs

/-- `EBCM_pref_mix_discrete_from_graph` (EoN/analytic.py:5611) HAND-COMPOSED (the generator composes only the wrappers
whose base function lives in `Gen/OdeGlue.lean` / `Gen/HelpersGen.lean`): the generated wrapper record handed to the
generated base function `GenGlue2.EBCM_pref_mix_discrete` of C06i -/
def EBCM_pref_mix_discrete_from_graph (odeint myodeint : Solver) (A : WArgs) (p : Rat) (rho : Option Rat)
    (tmin tmax : Int) (full : Bool) : Except String (V × List Out) := do
  let a ← EBCM_pref_mix_discrete_from_graph_args A p rho tmin tmax full
  GenGlue2.EBCM_pref_mix_discrete odeint myodeint a.N a.Pk a.Pnk a.p a.rho a.tmin a.tmax a.return_full_data

/-- (C) **`EBCM_pref_mix_discrete_from_graph` on a graph: no KeyError, no ZeroDivisionError from the loop, ever.**  With
`N = G.order()`, `Pk = get_Pk(G)`, `Pnk = get_Pnk(G)`: if `rho` is given or the graph has a node, the call returns
`pmResult` = the columns `0..tmax−tmin` of the hand model `ODE.prefMixDiscRun` on these dicts (C06i), for ALL `p`, `rho`,
`tmin`, `tmax`, with or without full data, every solver (it is not used); with neither (`rho = None` on the graph without
nodes) it raises the ZeroDivisionError of `1.0/N` -/
theorem EBCM_pref_mix_discrete_from_graph_eq (odeint myodeint : Solver) (A : WArgs) (adj : List (List Nat))
    (hW : GraphOKW A adj) (p : Rat) (rho : Option Rat) (tmin tmax : Int) (full : Bool) :
    ∃ P, GenHelp.get_Pnk (nbrDegs adj) = .ok P ∧ KeysOK (PkAL (adj.map (·.length))) P ∧ (∀ k1, 0 ∉ nksF P k1) ∧
      (rho.isSome ∨ adj.length ≠ 0 →
        EBCM_pref_mix_discrete_from_graph odeint myodeint A p rho tmin tmax full =
          .ok (pmResult (adj.length : Rat) (PkAL (adj.map (·.length))) P p (rhoOf (adj.length : Rat) rho) tmin
            (tmax - tmin).toNat full)) ∧
      (rho = none → adj.length = 0 →
        EBCM_pref_mix_discrete_from_graph odeint myodeint A p rho tmin tmax full = .error "ZeroDivisionError") := by
  have hG := hW.toGraphOK
  obtain ⟨P, hP, -, -, -, -, hd⟩ := EBCM_pref_mix_args_spec A adj hW 0 0 p rho 0 0 0 tmin tmax full
  have hk := KeysOK_graph adj (GraphOK.inRange hG) P hP
  obtain ⟨h0, hz⟩ := no_zero_row_key adj (GraphOK.nbrsSymm hG) P hP
  refine ⟨P, hP, hk, h0, fun hrho => ?_, fun hr hN => ?_⟩
  · unfold EBCM_pref_mix_discrete_from_graph
    rw [hd]
    simp only [GenHelpProofs.ok_bind]
    apply GenGlue3Props.EBCM_pref_mix_discrete_eq _ _ _ _ _ _ _ _ _ _ (keys_PkAL_nodup _)
    · rcases hrho with h | h
      · exact Or.inl h
      · exact Or.inr (by exact_mod_cast h)
    · exact fun j _ => ⟨hk, hz _⟩
  · unfold EBCM_pref_mix_discrete_from_graph
    rw [hd]
    subst hr
    simp only [GenHelpProofs.ok_bind, hN, Nat.cast_zero]
    exact GenGlue3Props.EBCM_pref_mix_discrete_error_rho _ _ _ _ _ _ _ _

/-- (D) **the returned arrays**, graph with a node or `rho` given, `m = (tmax − tmin).toNat`: 4 arrays (5 with full data: the
dict `theta` keyed by the degrees present) of length `m + 1`; `times = tmin..tmin+m`; **`S + I + R = N` at every index**;
`S(0) = N(1−ρ)`, `I(0) = Nρ`, `R(0) = 0` with `ρ = rho` or `1/N`; `R(n+1) = R(n) + I(n)`; the columns are those of the
hand model `ODE.prefMixDiscRun` on `get_Pk(G)`, `get_Pnk(G)` -/
theorem EBCM_pref_mix_discrete_from_graph_spec (odeint myodeint : Solver) (A : WArgs) (adj : List (List Nat))
    (hW : GraphOKW A adj) (p : Rat) (rho : Option Rat) (tmin tmax : Int) (hrho : rho.isSome ∨ adj.length ≠ 0) :
    ∃ P, GenHelp.get_Pnk (nbrDegs adj) = .ok P ∧
    ∃ times S I R : V, ∃ theta : Nat → List Rat,
      EBCM_pref_mix_discrete_from_graph odeint myodeint A p rho tmin tmax false
        = .ok (PyGlue2.V0, [Out.v times, Out.v S, Out.v I, Out.v R]) ∧
      EBCM_pref_mix_discrete_from_graph odeint myodeint A p rho tmin tmax true
        = .ok (PyGlue2.V0, [Out.v times, Out.v S, Out.v I, Out.v R,
            Out.dl (GenGlue3Proofs.mkD (keys (PkAL (adj.map (·.length)))) theta)]) ∧
      times.n = (tmax - tmin).toNat + 1 ∧ S.n = (tmax - tmin).toNat + 1 ∧ I.n = (tmax - tmin).toNat + 1 ∧
      R.n = (tmax - tmin).toNat + 1 ∧ (∀ k, (theta k).length = (tmax - tmin).toNat + 1) ∧
      (∀ n, n ≤ (tmax - tmin).toNat → times.f n = ((tmin + (n : Int) : Int) : Rat) ∧
        S.f n + I.f n + R.f n = (adj.length : Rat) ∧
        S.f n = (pmRun (adj.length : Rat) (PkAL (adj.map (·.length))) P p (rhoOf (adj.length : Rat) rho) n).S ∧
        I.f n = (pmRun (adj.length : Rat) (PkAL (adj.map (·.length))) P p (rhoOf (adj.length : Rat) rho) n).I ∧
        R.f n = (pmRun (adj.length : Rat) (PkAL (adj.map (·.length))) P p (rhoOf (adj.length : Rat) rho) n).R) ∧
      S.f 0 = (adj.length : Rat) * (1 - rhoOf (adj.length : Rat) rho) ∧
      I.f 0 = (adj.length : Rat) * rhoOf (adj.length : Rat) rho ∧ R.f 0 = 0 ∧
      (∀ n, n < (tmax - tmin).toNat → R.f (n + 1) = R.f n + I.f n) := by
  have hG := hW.toGraphOK
  obtain ⟨P, hP, hk, -, -, -⟩ := EBCM_pref_mix_discrete_from_graph_eq odeint myodeint A adj hW p rho tmin tmax false
  obtain ⟨-, hz⟩ := no_zero_row_key adj (GraphOK.nbrsSymm hG) P hP
  have hd : ∀ full, EBCM_pref_mix_discrete_from_graph odeint myodeint A p rho tmin tmax full =
      GenGlue2.EBCM_pref_mix_discrete odeint myodeint (adj.length : Rat) (PkAL (adj.map (·.length))) P p rho tmin tmax
        full := by
    intro full
    obtain ⟨P', hP', -, -, -, -, hd⟩ := EBCM_pref_mix_args_spec A adj hW 0 0 p rho 0 0 0 tmin tmax full
    rw [hP] at hP'; injection hP' with hP'; subst hP'
    unfold EBCM_pref_mix_discrete_from_graph
    rw [hd]; rfl
  have hrho' : rho.isSome ∨ (adj.length : Rat) ≠ 0 := by
    rcases hrho with h | h
    · exact Or.inl h
    · exact Or.inr (by exact_mod_cast h)
  obtain ⟨times, S, I, R, theta, e1, e2, l1, l2, l3, l4, l5, hcol, s0, i0, r0, -, hrec⟩ :=
    GenGlue3Props.EBCM_pref_mix_discrete_spec odeint myodeint (adj.length : Rat) (PkAL (adj.map (·.length))) P p rho tmin
      tmax (keys_PkAL_nodup _) hrho' (fun j _ => ⟨hk, hz _⟩)
  refine ⟨P, hP, times, S, I, R, theta, (hd false).trans e1, (hd true).trans e2, l1, l2, l3, l4, l5, ?_, s0, i0, r0,
    fun n hn => (hrec n hn).1⟩
  intro n hn
  obtain ⟨a, b, c, d, e, -⟩ := hcol n hn
  exact ⟨a, b, c, d, e⟩

/-! ## 2. the attack rate and `EBCM_discrete_from_graph`, `rho` request -/

/-- the graph has no edge iff every degree is 0 -/
theorem twoM_eq_zero_iff (adj : List (List Nat)) : twoM adj = 0 ↔ ∀ d ∈ adj.map (·.length), d = 0 := by
  unfold twoM
  rw [List.sum_eq_zero_iff]

/-- (A) **KEY LINK, `rho` request**: for `rho = r ≠ 0` on a graph WITH AN EDGE, `Attack_rate_discrete_from_graph(rho = r,
number_its = n)` is `(I(n) + R(n))/N = 1 − S(n)/N` of the data returned by `EBCM_discrete_from_graph(rho = r, tmin = 0,
tmax = n)` — for EVERY successful run of the latter (always on a graph without isolated nodes, C06h
`EBCM_discrete_from_graph_ok`).  `initial_recovereds` must be absent (with `rho` both wrappers raise `EoNError`).  The
edge is needed: the attack-rate function divides `ψ̂'(1)` by `Σ k·Pk[k]` to get its default `phiS0` (ZeroDivisionError on an
edgeless graph, C06h `Attack_rate_discrete_from_graph_rho`) while `EBCM_discrete_from_graph` passes `phiS0 = 1 − rho`
itself and succeeds — counter-example below -/
theorem Attack_rate_discrete_from_graph_is_EBCM_rho (A : WArgs) (adj : List (List Nat)) (hG : GraphOK A.toIArgs adj)
    (p r : Rat) (hr : r ≠ 0) (hE : twoM adj ≠ 0) (n : Nat) (l : List (List Rat))
    (h : EBCM_discrete_from_graph A p none none (some r) 0 (n : Int) false = .ok l) :
    ∃ times S I R : List Rat, l = [times, S, I, R] ∧
      Attack_rate_discrete_from_graph A p none none (some r) (n : Int)
        = .ok ((I.getD n 0 + R.getD n 0) / (adj.length : Rat)) ∧
      Attack_rate_discrete_from_graph A p none none (some r) (n : Int)
        = .ok (1 - S.getD n 0 / (adj.length : Rat)) := by
  have hN : adj.length ≠ 0 := by
    intro e
    apply hE
    have : adj = [] := List.length_eq_zero_iff.mp e
    subst this; rfl
  have hNr : (adj.length : Rat) ≠ 0 := by exact_mod_cast hN
  obtain ⟨-, hrun, -⟩ := EBCM_discrete_from_graph_init_rho A adj hG p none (some r) (by simp) hN 0 n false l h
  have hm : meanK (adj.map (·.length)) = (twoM adj : Rat) / (adj.length : Rat) := by
    have := meanK_graph A.toIArgs adj hG
    rwa [degs_eq A.toIArgs adj hG] at this
  have hmz : meanK (adj.map (·.length)) ≠ 0 := by
    rw [hm]
    have h1 : (twoM adj : Rat) ≠ 0 := by exact_mod_cast hE
    exact div_ne_zero h1 hNr
  have hS0 : resolvePhiS0 (PkAL (adj.map (·.length)))
      (psiHatPAL (PkAL (adj.map (·.length))) (GenHelpFinal.effSk0 (PkAL (adj.map (·.length))) (some r) none) 1) none
      = .ok (1 - r) := by
    simp only [GenHelpFinal.effSk0, Option.getD_some, (psiHatAL_const _ (1 - r)).2, psiKP_one, resolvePhiS0,
      kAveAL_PkAL, hmz, if_false]
    rw [mul_div_assoc, div_self hmz, mul_one]
  obtain ⟨times, S, I, R, hEq, h1, h2⟩ := GenHelpFinal.gen_Attack_rate_discrete_is_EBCM
    (PkAL (adj.map (·.length))) p (some r) none none (some 0) n (Or.inr rfl) (fun _ => ⟨r, rfl, hr⟩)
    (fun d hd => by cases hd) (1 - r) hS0 (adj.length : Rat) 0 hNr
  simp only [GenHelpFinal.effSk0, Option.getD_some, (psiHatAL_const _ (1 - r)).1, (psiHatAL_const _ (1 - r)).2] at hEq
  simp only [Option.getD_some] at hrun
  rw [hrun] at hEq
  injection hEq with hEq
  have hAR : Attack_rate_discrete_from_graph A p none none (some r) (n : Int) =
      GenHelp.Attack_rate_discrete (PkAL (adj.map (·.length))) p (some r) none none (some 0) n := by
    unfold Attack_rate_discrete_from_graph
    rw [(Attack_rate_args_rho A adj hG p 0 0 none (some r) (by simp) n).1]
    simp [GenHelpProofs.ok_bind]
  exact ⟨times, S, I, R, hEq, hAR.trans h2, hAR.trans h1⟩

/-- the polynomials of `get_PGF(get_Pk(G))`, `get_PGFPrime(get_Pk(G))` are the model's ψ, ψ' -/
theorem psiAL_PkAL (degs : List Nat) (h : degs ≠ []) :
    psiAL (PkAL degs) = Helpers.psi degs ∧ psiPAL (PkAL degs) = Helpers.psiP degs := by
  have h1 := GenHelpProofs.get_PGF_ok _ (GenHelpProofs.PkAL_ne_nil degs h)
  rw [GenHelpProofs.get_PGF_PkAL degs h] at h1
  have h2 := GenHelpProofs.get_PGFPrime_ok _ (GenHelpProofs.PkAL_ne_nil degs h)
  rw [GenHelpProofs.get_PGFPrime_PkAL degs h] at h2
  injection h1 with h1
  injection h2 with h2
  exact ⟨h1.symm, h2.symm⟩

/-- (B) **`rho ∈ {None, 0}` (no `initial_infecteds`): NOT an attack rate of the `EBCM_discrete_from_graph` run** but the
early return `Epi_Prob_discrete(Pk, p, number_its)`, in closed form, ALL graphs: ValueError on the graph without nodes
(`max` of no keys in `get_PGF`); ZeroDivisionError on an edgeless graph as soon as `number_its > 0` (`ψ'(1) = 0`); else
`1 − ψ(α_n)` with `α_0 = 1 − p`, `α_{j+1} = 1 − p + p·ψ'(α_j)/ψ'(1)`, `ψ` the degree PGF of the graph — the probability that
ONE random infection causes an epidemic — in particular `1 − ψ(1 − p) ≠ 0` for `number_its = 0`.  (The run of
`EBCM_discrete_from_graph` with `rho = 0` has `S ≡ N`, with `rho = None` it starts from `rho = 1/N`: examples below.) -/
theorem Attack_rate_discrete_from_graph_early (A : WArgs) (adj : List (List Nat)) (hG : GraphOK A.toIArgs adj) (p : Rat)
    (recs : Option (List Node)) (rho : Option Rat) (hr : rho = none ∨ rho = some 0)
    (hrr : ¬ (rho.isSome ∧ recs.isSome)) (n : Int) :
    Attack_rate_discrete_from_graph A p none recs rho n =
      if adj.length = 0 then .error "ValueError"
      else if 0 < n.toNat ∧ twoM adj = 0 then .error "ZeroDivisionError"
      else .ok (1 - Helpers.psi (adj.map (·.length))
        ((alphaMap (Helpers.psiP (adj.map (·.length))) p)^[n.toNat] (1 - p))) := by
  rw [(Attack_rate_discrete_from_graph_rho A adj hG p recs rho hrr n).1 hr, GenHelpFinal.gen_Epi_Prob_discrete_spec]
  by_cases hN : adj.length = 0
  · have : adj = [] := List.length_eq_zero_iff.mp hN
    subst this
    rfl
  · have hd : adj.map (·.length) ≠ [] := by
      intro e; exact hN (by simpa using congrArg List.length e)
    rw [if_neg (GenHelpProofs.PkAL_ne_nil _ hd), if_neg hN, (psiAL_PkAL _ hd).1, (psiAL_PkAL _ hd).2]
    have : Helpers.psiP (adj.map (·.length)) 1 = 0 ↔ twoM adj = 0 := by
      rw [GenHelpProofs.psiP_one_eq_zero_iff _ hd, twoM_eq_zero_iff]
    simp only [this]


/-! ## 3. `SIS_effective_degree_from_graph`, `SIR_effective_degree_from_graph` -/

/-- number of neighbours of `u` with status `x` -/
def nbS (adj : List (List Nat)) (st : Nat → St) (u : Nat) (x : St) : Nat :=
  ((adj.getD u []).filter fun v => st v = x).length

/-- number of nodes of status `x` with exactly `s` susceptible and `i` infected neighbours -/
def siCount (adj : List (List Nat)) (st : Nat → St) (x : St) (s i : Nat) : Nat :=
  ((List.range adj.length).filter fun u => nbS adj st u St.S = s ∧ nbS adj st u St.I = i ∧ st u = x).length

/-- `np.sum` of a table -/
def tableSum (T : List (List Rat)) : Rat := sumRat (T.map sumRat)

theorem nbS_partition (adj : List (List Nat)) (st : Nat → St) (u : Nat) :
    nbS adj st u St.S + nbS adj st u St.I + nbS adj st u St.R = deg adj u := by
  unfold nbS deg
  generalize adj.getD u [] = l
  induction l with
  | nil => rfl
  | cons a t ih =>
    simp only [List.filter_cons, List.length_cons]
    cases h : st a <;> simp <;> omega

theorem nbS_le (adj : List (List Nat)) (st : Nat → St) (u : Nat) (hu : u < adj.length) (x : St) :
    nbS adj st u x ≤ maxDeg adj :=
  le_trans (List.length_filter_le _ _) (deg_le_maxDeg adj u hu)

theorem nbS_nil_R (adj : List (List Nat)) (infs : List Node) (u : Nat) : nbS adj (statusOf infs []) u St.R = 0 := by
  unfold nbS
  rw [List.length_eq_zero_iff, List.filter_eq_nil_iff]
  intro v _
  simpa using statusOf_nil_ne_R infs v

/-- the double sum of a class table is the number of nodes with the property -/
theorem sum_siCnt (sC iC : Node → Nat) (p : Node → Prop) [DecidablePred p] (M : Nat) (l : List Node)
    (hl : ∀ u ∈ l, sC u ≤ M ∧ iC u ≤ M) :
    tableSum (mat M fun a b => (siCnt sC iC p l a b : Rat)) = ((l.filter fun u => p u).length : Rat) := by
  unfold tableSum mat
  rw [List.map_map]
  have hrow : ∀ a, sumRat (vec M fun b => (siCnt sC iC p l a b : Rat))
      = (((l.filter fun u => sC u = a ∧ p u).length : Nat) : Rat) := by
    intro a
    rw [sumRat_eq_sum, vec_sum_cast]
    congr 1
    rw [← sum_filter_classes iC (fun u => sC u = a ∧ p u) M l (fun u hu => (hl u hu).2)]
    congr 1
    apply List.map_congr_left
    intro b _
    unfold siCnt
    congr 1
    apply List.filter_congr
    intro u _
    simp only [decide_eq_decide]
    tauto
  have : ((List.range (M + 1)).map ((fun T => sumRat T) ∘ fun a => vec M fun b => (siCnt sC iC p l a b : Rat)))
      = vec M (fun a => (((l.filter fun u => sC u = a ∧ p u).length : Nat) : Rat)) := by
    unfold vec
    apply List.map_congr_left
    intro a _
    exact hrow a
  rw [this, sumRat_eq_sum, vec_sum_cast, sum_filter_classes sC p M l (fun u hu => (hl u hu).1)]

theorem nbCount_graph (A : WArgs) (adj : List (List Nat)) (hW : GraphOKW A adj) (st : Node → St) (u : Nat)
    (hu : u < adj.length) (x : St) : nbCount st A.neighbors u x = nbS adj st u x := by
  unfold nbCount nbS; rw [hW.nbrs u hu]

/-- (A) **`SIS_effective_degree_from_graph`, explicit set of graph nodes**: both tables are `(maxdeg+1) × (maxdeg+1)`;
`Ssi0[s][i]` = number of SUSCEPTIBLE nodes with exactly `s` susceptible and `i` infected neighbours, `Isi0[s][i]` = number
of INFECTED nodes with exactly `s` susceptible and `i` infected neighbours (the code computes `i = degree − s`, which is
the number of infected neighbours because nobody is recovered) -/
theorem SIS_effective_degree_args_spec (A : WArgs) (adj : List (List Nat)) (hW : GraphOKW A adj) (tau gamma : Rat)
    (infs : List Node) (hin : ∀ u ∈ infs, u < adj.length) (hN : adj.length ≠ 0) (tmin tmax : Rat) (tcount : Int)
    (full : Bool) :
    SIS_effective_degree_from_graph_args A tau gamma (some infs) none tmin tmax tcount full =
      .ok { Ssi0 := mat (maxDeg adj) (fun s i => (siCount adj (statusOf infs []) St.S s i : Rat)),
            Isi0 := mat (maxDeg adj) (fun s i => (siCount adj (statusOf infs []) St.I s i : Rat)),
            tau := tau, gamma := gamma, tmin := tmin, tmax := tmax, tcount := tcount, return_full_data := full } := by
  have hG := hW.toGraphOK
  have hS := SetsOK.nil_recs (adj := adj) hin
  have hst := C06c.gen_status_eq A.toIArgs adj hG.hasNode infs [] hS.disj hS.infIn hS.recIn
  have hM : Helpers.maxDeg (A.nodes.map A.degree) = maxDeg adj := by rw [degs_eq A.toIArgs adj hG]; rfl
  have hpart : ∀ u, u < adj.length → A.degree u - nbS adj (statusOf infs []) u St.S
      = nbS adj (statusOf infs []) u St.I := by
    intro u hu
    have := nbS_partition adj (statusOf infs []) u
    rw [nbS_nil_R] at this
    rw [hG.degree u hu]; omega
  rw [SISed_sets A tau gamma infs tmin tmax tcount full _ hst (nodes_ne_nil A adj hG hN)]
  · rw [hM]
    congr 2
    · apply mat_congr; intro a b
      unfold siCnt siCount
      rw [hG.nodes]
      congr 2
      apply List.filter_congr
      intro u hu
      have hu' := List.mem_range.mp hu
      simp only [nbCount_graph A adj hW _ u hu', hpart u hu']
    · apply mat_congr; intro a b
      unfold siCnt siCount
      rw [hG.nodes]
      congr 2
      apply List.filter_congr
      intro u hu
      have hu' := List.mem_range.mp hu
      have : statusOf infs [] u ≠ St.S ↔ statusOf infs [] u = St.I := by
        have := statusOf_nil_ne_R infs u
        cases h : statusOf infs [] u <;> simp_all
      simp only [nbCount_graph A adj hW _ u hu', hpart u hu', this]
  · intro u hu
    rw [hG.nodes] at hu
    have hu' := List.mem_range.mp hu
    rw [hM, hG.degree u hu', nbCount_graph A adj hW _ u hu']
    have := nbS_partition adj (statusOf infs []) u
    exact ⟨by omega, deg_le_maxDeg adj u hu'⟩

/-- (A) **`SIR_effective_degree_from_graph`, explicit disjoint sets of graph nodes**: `S_si0[s][i]` = number of SUSCEPTIBLE
nodes with exactly `s` susceptible and `i` infected neighbours — RECOVERED neighbours are counted in neither index (so
`s + i` may be smaller than the degree); `I0`, `R0` = numbers of infected / recovered nodes -/
theorem SIR_effective_degree_args_spec (A : WArgs) (adj : List (List Nat)) (hW : GraphOKW A adj) (tau gamma : Rat)
    (infs : List Node) (recs : Option (List Node)) (hS : SetsOK adj infs (recs.getD [])) (hN : adj.length ≠ 0)
    (tmin tmax : Rat) (tcount : Int) (full : Bool) :
    SIR_effective_degree_from_graph_args A tau gamma (some infs) recs none tmin tmax tcount full =
      .ok { S_si0 := mat (maxDeg adj) (fun s i => (siCount adj (statusOf infs (recs.getD [])) St.S s i : Rat)),
            I0 := (count adj (statusOf infs (recs.getD [])) St.I : Rat),
            R0 := (count adj (statusOf infs (recs.getD [])) St.R : Rat),
            tau := tau, gamma := gamma, tmin := tmin, tmax := tmax, tcount := tcount, return_full_data := full } := by
  have hG := hW.toGraphOK
  have hst := C06c.gen_status_eq A.toIArgs adj hG.hasNode infs (recs.getD []) hS.disj hS.infIn hS.recIn
  have hM : Helpers.maxDeg (A.nodes.map A.degree) = maxDeg adj := by rw [degs_eq A.toIArgs adj hG]; rfl
  rw [SIRed_sets A tau gamma infs recs tmin tmax tcount full _ hst (nodes_ne_nil A adj hG hN)]
  · rw [hM, hG.nodes]
    congr 2
    apply mat_congr; intro a b
    unfold siCnt siCount
    congr 2
    apply List.filter_congr
    intro u hu
    have hu' := List.mem_range.mp hu
    simp only [nbCount_graph A adj hW _ u hu']
  · intro u hu _
    rw [hG.nodes] at hu
    have hu' := List.mem_range.mp hu
    rw [hM, nbCount_graph A adj hW _ u hu', nbCount_graph A adj hW _ u hu']
    exact ⟨nbS_le adj _ u hu' _, nbS_le adj _ u hu' _⟩

theorem siCount_eq (adj : List (List Nat)) (st : Nat → St) (x : St) (a b : Nat) :
    siCount adj st x a b = siCnt (fun u => nbS adj st u St.S) (fun u => nbS adj st u St.I) (fun u => st u = x)
      (List.range adj.length) a b := rfl

/-- every node of status `x` is in exactly one cell: `Σ_{s,i} siCount x s i` = number of nodes of status `x` -/
theorem sum_siCount (adj : List (List Nat)) (st : Nat → St) (x : St) :
    tableSum (mat (maxDeg adj) fun s i => (siCount adj st x s i : Rat)) = (count adj st x : Rat) := by
  simp only [siCount_eq]
  rw [sum_siCnt _ _ _ (maxDeg adj) _ (fun u hu => ⟨nbS_le adj st u (List.mem_range.mp hu) _,
    nbS_le adj st u (List.mem_range.mp hu) _⟩)]
  rfl

theorem mat_dims (M : Nat) (F : Nat → Nat → Rat) : (mat M F).length = M + 1 ∧ ∀ row ∈ mat M F, row.length = M + 1 := by
  refine ⟨mat_length M F, fun row hr => ?_⟩
  unfold mat at hr
  obtain ⟨a, -, rfl⟩ := List.mem_map.mp hr
  exact vec_length _ _

/-- the table handed to the base function (`Mx.ofLists`) has the same total -/
theorem total_ofLists_mat (M : Nat) (F : Nat → Nat → Rat) :
    (Mx.ofLists (mat M F)).total = tableSum (mat M F) ∧ (Mx.ofLists (mat M F)).r = M + 1 ∧
    (Mx.ofLists (mat M F)).c = M + 1 := by
  refine ⟨?_, mat_length M F, ?_⟩
  · unfold Mx.total Mx.ofLists tableSum ODE.sumTo
    simp only [mat_length]
    have hc : ((mat M F).headD []).length = M + 1 := by simp [mat, List.range_succ_eq_map]
    rw [hc]
    conv_rhs => rw [mat, List.map_map]
    congr 1
    apply List.map_congr_left
    intro a ha
    have ha' : a ≤ M := by have := List.mem_range.mp ha; omega
    simp only [Function.comp, mat_getD M F a ha']
    congr 1
    unfold vec
    apply List.map_congr_left
    intro b hb
    have hb' : b ≤ M := by have := List.mem_range.mp hb; omega
    exact vec_getD M (F a) b hb'
  · simp [Mx.ofLists, mat, List.range_succ_eq_map]

/-- (C) explicit sets, totals and shapes: `Σ Ssi0` = number of susceptible nodes, `Σ Isi0` = number of infected nodes,
**`Σ Ssi0 + Σ Isi0 = N`**; for SIR **`Σ S_si0 + I0 + R0 = N`**; for duplicate-free lists `Σ Isi0 = I0 = len(initial_infecteds)`,
`R0 = len(initial_recovereds)` -/
theorem effective_degree_args_total (adj : List (List Nat)) (infs recs : List Node) :
    tableSum (mat (maxDeg adj) fun s i => (siCount adj (statusOf infs []) St.S s i : Rat))
      + tableSum (mat (maxDeg adj) fun s i => (siCount adj (statusOf infs []) St.I s i : Rat)) = (adj.length : Rat) ∧
    tableSum (mat (maxDeg adj) fun s i => (siCount adj (statusOf infs recs) St.S s i : Rat))
      + (count adj (statusOf infs recs) St.I : Rat) + (count adj (statusOf infs recs) St.R : Rat) = (adj.length : Rat) ∧
    (SetsOK adj infs recs → infs.Nodup → recs.Nodup →
      (count adj (statusOf infs recs) St.I : Rat) = (infs.length : Rat) ∧
      (count adj (statusOf infs recs) St.R : Rat) = (recs.length : Rat)) := by
  refine ⟨?_, ?_, fun hS hi hr => ⟨(request_counts adj infs recs hS hi hr).1, (request_counts adj infs recs hS hi hr).2.1⟩⟩
  · rw [sum_siCount, sum_siCount]
    have := count_total adj (statusOf infs [])
    have hR : count adj (statusOf infs []) St.R = 0 := by
      unfold count
      rw [List.length_eq_zero_iff, List.filter_eq_nil_iff]
      intro u _
      simpa using statusOf_nil_ne_R infs u
    rw [hR] at this
    exact_mod_cast this
  · rw [sum_siCount]
    exact_mod_cast count_total adj (statusOf infs recs)

theorem edVal_graph (adj : List (List Nat)) (r w : Rat) (s i : Nat) :
    edVal (adj.map (·.length)) r w s i =
      w * (Nk adj (s + i) : Rat) * ((PyWrap.binom (s + i) i : Nat) : Rat) * r ^ i * (1 - r) ^ s := by
  unfold edVal; rw [countEq_degs]

/-- (B) **without `initial_infecteds`** (`rho`, default `1/N`; for SIR a lone `initial_recovereds` is IGNORED): the binomial
form.  For `s + i ≤ maxdeg`: `Ssi0[s][i] = (1-rho)·N_{s+i}·C(s+i, i)·rho^i·(1-rho)^s` and (SIS)
`Isi0[s][i] = rho·N_{s+i}·C(s+i, i)·rho^i·(1-rho)^s` (`edVal_graph`; `N_k` = number of nodes of degree `k`, `C` = `binom` of
`PyWrap`), 0 elsewhere; SIR: `I0 = rho·N`, `R0 = 0` -/
theorem effective_degree_args_rho (A : WArgs) (adj : List (List Nat)) (hG : GraphOK A.toIArgs adj) (tau gamma : Rat)
    (recs : Option (List Node)) (rho : Option Rat) (hrr : ¬ (rho.isSome ∧ recs.isSome)) (hN : adj.length ≠ 0)
    (tmin tmax : Rat) (tcount : Int) (full : Bool) :
    SIS_effective_degree_from_graph_args A tau gamma none rho tmin tmax tcount full =
      .ok { Ssi0 := mat (maxDeg adj) (fun s i => if s + i ≤ maxDeg adj then
              edVal (adj.map (·.length)) (rho.getD (1 / (adj.length : Rat))) (1 - rho.getD (1 / (adj.length : Rat))) s i
              else 0),
            Isi0 := mat (maxDeg adj) (fun s i => if s + i ≤ maxDeg adj then
              edVal (adj.map (·.length)) (rho.getD (1 / (adj.length : Rat))) (rho.getD (1 / (adj.length : Rat))) s i
              else 0),
            tau := tau, gamma := gamma, tmin := tmin, tmax := tmax, tcount := tcount, return_full_data := full } ∧
    SIR_effective_degree_from_graph_args A tau gamma none recs rho tmin tmax tcount full =
      .ok { S_si0 := mat (maxDeg adj) (fun s i => if s + i ≤ maxDeg adj then
              edVal (adj.map (·.length)) (rho.getD (1 / (adj.length : Rat))) (1 - rho.getD (1 / (adj.length : Rat))) s i
              else 0),
            I0 := rho.getD (1 / (adj.length : Rat)) * (adj.length : Rat), R0 := 0,
            tau := tau, gamma := gamma, tmin := tmin, tmax := tmax, tcount := tcount, return_full_data := full } := by
  have hne := nodes_ne_nil A adj hG hN
  constructor
  · rw [SISed_rho A tau gamma rho tmin tmax tcount full hne, degs_eq A.toIArgs adj hG, nodes_length A.toIArgs adj hG]
    rfl
  · rw [SIRed_rho A tau gamma recs rho hrr tmin tmax tcount full hne, degs_eq A.toIArgs adj hG,
      nodes_length A.toIArgs adj hG, sum_NkL_graph]
    rfl

/-- (E) the exceptions, ALL inputs, with the precedence of the generated code: `EoNError` for `rho` with a set; THEN
ValueError on a graph without nodes (`max` of no degrees) — for EVERY other request, also the default one (no
ZeroDivisionError from `1/N` here) and before the sets are looked at; then the `EoNError` of the status builder (overlap /
node outside the graph).  On a graph with nodes the `rho` / default request never raises (B) -/
theorem effective_degree_args_error (A : WArgs) (tau gamma : Rat) (tmin tmax : Rat) (tcount : Int) (full : Bool) :
    (∀ infs recs r, (infs.isSome →
        SIS_effective_degree_from_graph_args A tau gamma infs (some r) tmin tmax tcount full = .error "EoNError") ∧
      (infs.isSome ∨ recs.isSome →
        SIR_effective_degree_from_graph_args A tau gamma infs recs (some r) tmin tmax tcount full = .error "EoNError")) ∧
    (∀ infs recs rho, A.nodes = [] → ¬ (rho.isSome ∧ infs.isSome) → ¬ (rho.isSome ∧ recs.isSome) →
      SIS_effective_degree_from_graph_args A tau gamma infs rho tmin tmax tcount full = .error "ValueError" ∧
      SIR_effective_degree_from_graph_args A tau gamma infs recs rho tmin tmax tcount full = .error "ValueError") ∧
    (∀ infs e, A.nodes ≠ [] → initialize_node_status A.toIArgs infs [] = .error e →
      SIS_effective_degree_from_graph_args A tau gamma (some infs) none tmin tmax tcount full = .error e) ∧
    (∀ infs recs e, A.nodes ≠ [] → initialize_node_status A.toIArgs infs (recs.getD []) = .error e →
      SIR_effective_degree_from_graph_args A tau gamma (some infs) recs none tmin tmax tcount full = .error e) := by
  refine ⟨fun infs recs r => ed_both A tau gamma infs recs r tmin tmax tcount full, ?_,
    fun infs e hne he => (ed_sets_error A tau gamma infs none tmin tmax tcount full).2.1 e hne he,
    fun infs recs e hne he => (ed_sets_error A tau gamma infs recs tmin tmax tcount full).2.2 e hne he⟩
  intro infs recs rho hN h1 h2
  have e1 : (rho.isSome && infs.isSome) = false := by cases rho <;> cases infs <;> simp at h1 ⊢
  have e2 : (rho.isSome && recs.isSome) = false := by cases rho <;> cases recs <;> simp at h2 ⊢
  constructor
  · unfold SIS_effective_degree_from_graph_args
    simp only [e1, Bool.false_eq_true, if_false, maxKey_counter, hN, List.map_nil, if_true, GenHelpProofs.err_bind]
  · unfold SIR_effective_degree_from_graph_args
    simp only [e1, e2, Bool.false_eq_true, if_false, maxKey_counter, hN, List.map_nil, if_true, GenHelpProofs.err_bind]

/-- `SIS_effective_degree_from_graph` (EoN/analytic.py:4165) HAND-COMPOSED with the generated base function of C06i (the
NumPy tables become `Mx.ofLists`) -/
def SIS_effective_degree_from_graph (odeint myodeint : Solver) (A : WArgs) (tau gamma : Rat)
    (infs : Option (List Node)) (rho : Option Rat) (tmin tmax : Rat) (tcount : Int) (full : Bool) :
    Except String (V × List Out) := do
  let a ← SIS_effective_degree_from_graph_args A tau gamma infs rho tmin tmax tcount full
  GenGlue2.SIS_effective_degree odeint myodeint (Mx.ofLists a.Ssi0) (Mx.ofLists a.Isi0) a.tau a.gamma a.tmin a.tmax
    a.tcount.toNat a.return_full_data

/-- `SIR_effective_degree_from_graph` (EoN/analytic.py:4227) HAND-COMPOSED with the generated base function of C06i -/
def SIR_effective_degree_from_graph (odeint myodeint : Solver) (A : WArgs) (tau gamma : Rat)
    (infs recs : Option (List Node)) (rho : Option Rat) (tmin tmax : Rat) (tcount : Int) (full : Bool) :
    Except String (V × List Out) := do
  let a ← SIR_effective_degree_from_graph_args A tau gamma infs recs rho tmin tmax tcount full
  GenGlue2.SIR_effective_degree odeint myodeint (Mx.ofLists a.S_si0) a.I0 a.R0 a.tau a.gamma a.tmin a.tmax
    a.tcount.toNat a.return_full_data

/-- (D) end to end, explicit sets, with or without full data: the SIS call never raises (both tables have
`(maxdeg+1)²` entries) and with `odeint rhs X0 0 = X0` the series start from the numbers of susceptible / infected nodes;
the SIR call never raises, **`S + I + R = N` at every time index for every solver**, and the series start from the
numbers of susceptible / infected / recovered nodes -/
theorem effective_degree_from_graph_sets (odeint myodeint : Solver) (A : WArgs) (adj : List (List Nat))
    (hW : GraphOKW A adj) (tau gamma : Rat) (infs : List Node) (recs : Option (List Node))
    (hS : SetsOK adj infs (recs.getD [])) (hN : adj.length ≠ 0) (tmin tmax : Rat) (tcount : Int) (full : Bool) :
    (RowZero odeint → ∃ x0 l,
      SIS_effective_degree_from_graph odeint myodeint A tau gamma (some infs) none tmin tmax tcount full = .ok (x0, l) ∧
      GenGlue2Proofs.get l 0 0 = tmin ∧ GenGlue2Proofs.get l 1 0 = (count adj (statusOf infs []) St.S : Rat) ∧
      GenGlue2Proofs.get l 2 0 = (count adj (statusOf infs []) St.I : Rat)) ∧
    (∃ x0 l,
      SIR_effective_degree_from_graph odeint myodeint A tau gamma (some infs) recs none tmin tmax tcount full
        = .ok (x0, l) ∧
      (∀ i, GenGlue2Proofs.get l 1 i + GenGlue2Proofs.get l 2 i + GenGlue2Proofs.get l 3 i = (adj.length : Rat)) ∧
      (RowZero odeint → GenGlue2Proofs.get l 1 0 = (count adj (statusOf infs (recs.getD [])) St.S : Rat) ∧
        GenGlue2Proofs.get l 2 0 = (count adj (statusOf infs (recs.getD [])) St.I : Rat) ∧
        GenGlue2Proofs.get l 3 0 = (count adj (statusOf infs (recs.getD [])) St.R : Rat))) := by
  constructor
  · intro h0
    unfold SIS_effective_degree_from_graph
    rw [SIS_effective_degree_args_spec A adj hW tau gamma infs hS.infIn hN]
    simp only [GenHelpProofs.ok_bind]
    obtain ⟨t1, r1, c1⟩ := total_ofLists_mat (maxDeg adj) (fun s i => (siCount adj (statusOf infs []) St.S s i : Rat))
    obtain ⟨t2, r2, c2⟩ := total_ofLists_mat (maxDeg adj) (fun s i => (siCount adj (statusOf infs []) St.I s i : Rat))
    obtain ⟨x0, l, hl, i0, i1, i2⟩ := GenGlue3Props.SIS_effective_degree_init (myodeint := myodeint) h0
      (Mx.ofLists (mat (maxDeg adj) fun s i => (siCount adj (statusOf infs []) St.S s i : Rat)))
      (Mx.ofLists (mat (maxDeg adj) fun s i => (siCount adj (statusOf infs []) St.I s i : Rat)))
      tau gamma tmin tmax tcount.toNat full (by rw [r1, c1, r2, c2])
    exact ⟨x0, l, hl, i0, by rw [i1, t1, sum_siCount], by rw [i2, t2, sum_siCount]⟩
  · unfold SIR_effective_degree_from_graph
    rw [SIR_effective_degree_args_spec A adj hW tau gamma infs recs hS hN]
    simp only [GenHelpProofs.ok_bind]
    obtain ⟨t1, -, -⟩ := total_ofLists_mat (maxDeg adj)
      (fun s i => (siCount adj (statusOf infs (recs.getD [])) St.S s i : Rat))
    have htot := (effective_degree_args_total adj infs (recs.getD [])).2.1
    obtain ⟨x0, l, hl, -, -, hc⟩ := GenGlue3Props.SIR_effective_degree_conserve odeint myodeint
      (Mx.ofLists (mat (maxDeg adj) fun s i => (siCount adj (statusOf infs (recs.getD [])) St.S s i : Rat)))
      (count adj (statusOf infs (recs.getD [])) St.I : Rat) (count adj (statusOf infs (recs.getD [])) St.R : Rat)
      tau gamma tmin tmax tcount.toNat full
    refine ⟨x0, l, hl, fun i => by rw [hc i, t1]; exact htot, fun h0 => ?_⟩
    obtain ⟨x0', l', hl', -, j1, j2, j3⟩ := GenGlue3Props.SIR_effective_degree_init (myodeint := myodeint) h0
      (Mx.ofLists (mat (maxDeg adj) fun s i => (siCount adj (statusOf infs (recs.getD [])) St.S s i : Rat)))
      (count adj (statusOf infs (recs.getD [])) St.I : Rat) (count adj (statusOf infs (recs.getD [])) St.R : Rat)
      tau gamma tmin tmax tcount.toNat full
    rw [hl] at hl'
    injection hl' with hl'
    injection hl' with _ hl'
    subst hl'
    exact ⟨by rw [j1, t1, sum_siCount], j2, j3⟩


/-! ## 5. non-vacuity on the triangle 0–1–2 with the pendant node 3 (`exW` of C06e), kernel-checked -/

/-- 1. `EBCM_pref_mix_discrete_from_graph` on `exW`, default `rho = 1/4`, `p = 1/2`, two passes: the theorem instantiated
(every `p`, `rho`, window), and the arrays `times, S, I, R` evaluated (`S + I + R = 4` in every column) -/
example (p : Rat) (rho : Option Rat) (tmin tmax : Int) (full : Bool) :
    ∃ res, EBCM_pref_mix_discrete_from_graph constOdeint constOdeint exW p rho tmin tmax full = .ok res := by
  obtain ⟨P, -, -, -, h, -⟩ := EBCM_pref_mix_discrete_from_graph_eq constOdeint constOdeint exW C06c.exAdj exW_okW p rho
    tmin tmax full
  exact ⟨_, h (Or.inr (by decide))⟩
example : rowAt (EBCM_pref_mix_discrete_from_graph constOdeint constOdeint exW (1/2) none 0 2 false) 0 =
    .inr ([], [[0, 1, 2], [3, 4725/2048, 4234587/2097152], [1, 1419/2048, 603813/2097152], [0, 1, 3467/2048]]) := by
  decide +kernel
/-- the error case: the graph without nodes and no `rho` — ZeroDivisionError (`1.0/N`); with `rho` it returns zeros -/
example : rowAt (EBCM_pref_mix_discrete_from_graph constOdeint constOdeint emptyW (1/2) none 0 2 true) 0 =
    .inl "ZeroDivisionError" := by decide +kernel
example : rowAt (EBCM_pref_mix_discrete_from_graph constOdeint constOdeint emptyW (1/2) (some (1/3)) 0 2 false) 0 =
    .inr ([], [[0, 1, 2], [0, 0, 0], [0, 0, 0], [0, 0, 0]]) := by decide +kernel
/-- COUNTER-EXAMPLE (`NbrsInRange` is needed for `KeysOK`): one node listing the foreign neighbour 5 — its degree 0 is a key
of `Pnk[1]` but not of `Pk`: `KeysOK` fails and the base function raises KeyError -/
example : GenHelp.get_Pnk (nbrDegs [[5]]) = .ok [(1, [(0, 1)])] ∧ PkAL ([[5]].map (·.length)) = [(1, 1)] ∧
    ¬ KeysOK [(1, 1)] [(1, [(0, 1)])] ∧
    rowAt (GenGlue2.EBCM_pref_mix_discrete constOdeint constOdeint 1 [(1, 1)] [(1, [(0, 1)])] (1/2) (some (1/2)) 0 2
      false) 0 = .inl "KeyError" := by
  refine ⟨by decide +kernel, by decide +kernel, ?_, by decide +kernel⟩
  unfold KeysOK; decide +kernel
/-- COUNTER-EXAMPLE (`NbrsSymm` is needed for "degree 0 is never a row key"): the one-way link 0 → 1: `KeysOK` holds but
degree 0 is a key of `Pnk[1]`, and with `p = rho = 1` the base function evaluates `0.0 ** (-1)`: ZeroDivisionError -/
example : GenHelp.get_Pnk (nbrDegs [[1], []]) = .ok [(1, [(0, 1)]), (0, [])] ∧
    PkAL ([[1], []].map (·.length)) = [(1, 1/2), (0, 1/2)] ∧ KeysOK [(1, 1/2), (0, 1/2)] [(1, [(0, 1)]), (0, [])] ∧
    0 ∈ nksF [(1, [(0, (1 : Rat))]), (0, [])] 1 ∧
    rowAt (GenGlue2.EBCM_pref_mix_discrete constOdeint constOdeint 2 [(1, 1/2), (0, 1/2)] [(1, [(0, 1)]), (0, [])] 1
      (some 1) 0 2 false) 0 = .inl "ZeroDivisionError" := by
  refine ⟨by decide +kernel, by decide +kernel, ?_, by decide +kernel, by decide +kernel⟩
  unfold KeysOK; decide +kernel

/-- 2. the `rho` link on `exW`, `rho = 1/4`, `p = 1/2`, two iterations: `1 − S(2)/4` -/
example : EBCM_discrete_from_graph exW (1/2) none none (some (1/4)) 0 2 false =
      .ok [[0, 1, 2], [3, 4725/2048, 558149778459/274877906944], [1, 1419/2048, 76028986341/274877906944],
        [0, 1, 3467/2048]] ∧
    Attack_rate_discrete_from_graph exW (1/2) none none (some (1/4)) 2 = .ok (1 - 558149778459/274877906944 / 4) := by
  constructor <;> decide +kernel
/-- COUNTER-EXAMPLE (the edge is needed): two isolated nodes — the attack-rate wrapper raises ZeroDivisionError while
`EBCM_discrete_from_graph` with the same `rho` returns normally -/
def isoW : WArgs := { nodes := [0, 1], edges := [], degree := fun _ => 0, hasNode := fun u => decide (u < 2),
                      neighbors := fun _ => [] }
example : (match Attack_rate_discrete_from_graph isoW (1/2) none none (some (1/4)) 2 with
      | .error e => e == "ZeroDivisionError" | .ok _ => false) = true ∧
    EBCM_discrete_from_graph isoW (1/2) none none (some (1/4)) 0 2 false =
      .ok [[0, 1, 2], [3/2, 3/2, 3/2], [1/2, 0, 0], [0, 1/2, 1/2]] := by
  constructor <;> decide +kernel
/-- `rho = 0` and `rho = None`: the attack-rate wrapper returns the epidemic probability `Epi_Prob_discrete` (the same
number for both), NOT `1 − S(n)/N` of the `EBCM_discrete_from_graph` run (`S ≡ N` for `rho = 0`); and with
`number_its = 0` it returns `1 − ψ(1 − p) = 23/32`, not 0 -/
example : Attack_rate_discrete_from_graph exW (1/2) none none (some 0) 2 = .ok (312194713173061/1125899906842624) ∧
    Attack_rate_discrete_from_graph exW (1/2) none none none 2 = .ok (312194713173061/1125899906842624) ∧
    EBCM_discrete_from_graph exW (1/2) none none (some 0) 0 2 false = .ok [[0, 1, 2], [4, 4, 4], [0, 0, 0], [0, 0, 0]] ∧
    Attack_rate_discrete_from_graph exW (1/2) none none (some 0) 0 = .ok (23/32) := by
  refine ⟨by decide +kernel, by decide +kernel, by decide +kernel, by decide +kernel⟩

/-- 3. the `(s, i)` tables on `exW`.  SIS, node 0 infected: node 1 (susceptible) has `s = 1, i = 1`, node 2 has
`s = 2, i = 1`, node 3 has `s = 1, i = 0`; node 0 (infected) has `s = 2, i = 0` -/
example : ((SIS_effective_degree_from_graph_args exW 1 1 (some [0]) none 0 10 11 false).toOption.map
    fun a => (a.Ssi0, a.Isi0)) =
    some ([[0, 0, 0, 0], [1, 1, 0, 0], [0, 1, 0, 0], [0, 0, 0, 0]], [[0, 0, 0, 0], [0, 0, 0, 0], [1, 0, 0, 0], [0, 0, 0, 0]]) := by
  decide +kernel
/-- SIR, node 0 infected, node 3 recovered: the susceptible nodes 1 and 2 both sit at `s = 1, i = 1` — node 2's recovered
neighbour 3 is counted nowhere (degree 3, `s + i = 2`); the theorem instantiated and the counts evaluated -/
example : SIR_effective_degree_from_graph_args exW 1 1 (some [0]) (some [3]) none 0 10 11 false =
    .ok { S_si0 := mat (maxDeg C06c.exAdj) (fun s i => (siCount C06c.exAdj (statusOf [0] [3]) St.S s i : Rat)),
          I0 := (count C06c.exAdj (statusOf [0] [3]) St.I : Rat), R0 := (count C06c.exAdj (statusOf [0] [3]) St.R : Rat),
          tau := 1, gamma := 1, tmin := 0, tmax := 10, tcount := 11, return_full_data := false } :=
  SIR_effective_degree_args_spec exW C06c.exAdj exW_okW 1 1 [0] (some [3]) ⟨by decide, by decide, by decide⟩ (by decide)
    0 10 11 false
example : ((SIR_effective_degree_from_graph_args exW 1 1 (some [0]) (some [3]) none 0 10 11 false).toOption.map
    fun a => (a.S_si0, a.I0, a.R0)) = some ([[0, 0, 0, 0], [0, 2, 0, 0], [0, 0, 0, 0], [0, 0, 0, 0]], 1, 1) := by
  decide +kernel
/-- default `rho = 1/4`: the binomial tables; their sums are `(1-rho)N = 3` and `rho·N = 1` (kernel-checked here; the
general `Σ = (1-rho)N` needs the binomial theorem and is NOT proved in this file) -/
example : ((SIS_effective_degree_from_graph_args exW 1 1 none none 0 10 11 false).toOption.map
    fun a => (a.Ssi0, a.Isi0)) = some
    ([[0, 3/16, 3/32, 3/256], [9/16, 9/16, 27/256, 0], [27/32, 81/256, 0, 0], [81/256, 0, 0, 0]],
     [[0, 1/16, 1/32, 1/256], [3/16, 3/16, 9/256, 0], [9/32, 27/256, 0, 0], [27/256, 0, 0, 0]]) ∧
    ((SIS_effective_degree_from_graph_args exW 1 1 none none 0 10 11 false).toOption.map
    fun a => (tableSum a.Ssi0, tableSum a.Isi0)) = some (3, 1) ∧
    ((SIR_effective_degree_from_graph_args exW 1 1 none (some [3]) none 0 10 11 false).toOption.map
    fun a => (tableSum a.S_si0, a.I0, a.R0)) = some (3, 1, 0) := by
  refine ⟨by decide +kernel, by decide +kernel, by decide +kernel⟩
/-- errors: the graph without nodes — ValueError also for the default request; an overlap — `EoNError`; `rho` with a set -/
example : (match SIS_effective_degree_from_graph_args emptyW 1 1 none none 0 10 11 false with
    | .error e => e == "ValueError" | .ok _ => false) = true := by decide +kernel
example : (match SIR_effective_degree_from_graph_args exW 1 1 (some [0]) (some [0]) none 0 10 11 false with
    | .error e => e == "EoNError" | .ok _ => false) = true := by decide +kernel
example : (match SIS_effective_degree_from_graph_args exW 1 1 (some [0]) (some (1/4)) 0 10 11 false with
    | .error e => e == "EoNError" | .ok _ => false) = true := by decide +kernel
/-- COUNTER-EXAMPLE (`G.neighbors(u)` = adjacency list, `GraphOKW`, is needed): a neighbour function listing five
neighbours while `maxdeg = 3`: `S_si0[s][i] += 1` is out of range — IndexError -/
example : (match SIS_effective_degree_from_graph_args { exW with neighbors := fun _ => [1, 1, 1, 1, 2] } 1 1 (some [0])
    none 0 10 11 false with | .error e => e == "IndexError" | .ok _ => false) = true := by decide +kernel
/-- end to end with the toy solver: `S + I + R = 4` at every index, the series start at `2, 1, 1` -/
example : ∃ x0 l, SIR_effective_degree_from_graph toyOdeint toyOdeint exW 1 1 (some [0]) (some [3]) none 0 10 11 true
      = .ok (x0, l) ∧
    (∀ i, GenGlue2Proofs.get l 1 i + GenGlue2Proofs.get l 2 i + GenGlue2Proofs.get l 3 i = 4) ∧
    GenGlue2Proofs.get l 1 0 = 2 ∧ GenGlue2Proofs.get l 2 0 = 1 ∧ GenGlue2Proofs.get l 3 0 = 1 := by
  obtain ⟨-, x0, l, hl, hc, hi⟩ := effective_degree_from_graph_sets toyOdeint toyOdeint exW C06c.exAdj exW_okW 1 1 [0]
    (some [3]) ⟨by decide, by decide, by decide⟩ (by decide) 0 10 11 true
  obtain ⟨i1, i2, i3⟩ := hi toyOdeint_zero
  have c1 : count C06c.exAdj (statusOf [0] [3]) St.S = 2 := by decide +kernel
  have c2 : count C06c.exAdj (statusOf [0] [3]) St.I = 1 := by decide +kernel
  have c3 : count C06c.exAdj (statusOf [0] [3]) St.R = 1 := by decide +kernel
  have h4 : ((C06c.exAdj.length : Nat) : Rat) = 4 := by decide +kernel
  simp only [Option.getD_some] at i1 i2 i3
  rw [c1] at i1; rw [c2] at i2; rw [c3] at i3
  rw [h4] at hc
  exact ⟨x0, l, hl, hc, by simpa using i1, by simpa using i2, by simpa using i3⟩

end GenWrapProps5
