import EoNVerif.Proofs.GenHelp
import EoNVerif.Props.C08
/-!
C08c — the C08 statements about final sizes and the discrete-time EBCM for the Lean code GENERATED from
`EoN/analytic.py` (`GenHelp.EBCM_discrete`, `EBCM_discrete_uniform_introduction`, `Attack_rate_discrete`,
`Epi_Prob_discrete`, `Attack_rate_cts_time` of Gen/HelpersGen.lean), for ALL inputs.  Lemmas: Proofs/GenHelp.lean.

Vocabulary (Proofs/GenHelp.lean): `guard y = if y = 0 then 1 else y` (the Python `if psihatPrime1 == 0: psihatPrime1 = 1`);
`thetaMap f' p φS φR θ = 1 − p + p(φR + φS·f'(θ)/guard(f'(1)))`; `ebcmNext` one pass of the loop of `EBCM_discrete` on
(θ, R, S, I); `ebcmTraj … n` the state after `n` passes; `psiHatAL / psiHatPAL Pk Sk0` the sums ψ̂, ψ̂' over the keys of
`Pk`; `omegaMap` the ω-iteration; `alphaMap` the α-iteration.

Behaviour found (exact):
* `EBCM_discrete` with total callbacks never raises (the guard removes the only division by zero; `tmax < tmin` gives a
  single row).
* `Attack_rate_discrete`: EoNError iff `rho` and `Sk0` are both given; with `Sk0 = None` and `rho ∈ {None, 0}` it IS
  `Epi_Prob_discrete` (which raises ValueError on an empty `Pk` and ZeroDivisionError when ψ'(1) = 0 and
  `number_its > 0`) — the other branch never raises these: an empty `Pk` there gives ZeroDivisionError from the default
  `phiS0 = ψ̂'(1)/Σ k Pk[k]` (or the value 1 when `phiS0` is given).
* A key of `Pk` missing from `Sk0` raises KeyError — except that a missing key `0` is only read by `psihat` at the very
  end, after the default `phiS0` was computed, so `Pk = {0: 1}, Sk0 = {}` raises ZeroDivisionError, not KeyError.
* `Attack_rate_cts_time`: same, plus ZeroDivisionError iff `gamma + tau = 0` (after `phiS0`); `rho = None` means `rho = 0`
  (no early return through `Epi_Prob_discrete`).
-/
namespace GenHelpFinal
open GenHelpProofs

theorem getD_map_range {α : Type} (F : Nat → α) (m n : Nat) (d : α) (h : n < m) :
    ((List.range m).map F).getD n d = F n := by
  simp [List.getD, h]

/-! ### 6. EBCM_discrete -/

/-- **generated EBCM_discrete, total callbacks, all parameters**: never an error; the columns are the trajectory of
`ebcmNext` on `0..(tmax−tmin)` (`Int.toNat`: an empty loop when `tmax < tmin`) -/
theorem gen_EBCM_discrete_eq (N : Rat) (f f' : Rat → Rat) (p phiS0 phiR0 R0 : Rat) (tmin tmax : Int) (full : Bool) :
    GenHelp.EBCM_discrete N (fun x => pure (f x)) (fun x => pure (f' x)) p phiS0 phiR0 R0 tmin tmax full
      = .ok (
        let m := (tmax - tmin).toNat
        let tr := ebcmTraj N f f' p phiS0 phiR0 R0
        let times := (List.range (m + 1)).map (fun (j : Nat) => ((tmin + (j : Int) : Int) : Rat))
        let S := (List.range (m + 1)).map (fun j => (tr j).2.2.1)
        let I := (List.range (m + 1)).map (fun j => (tr j).2.2.2)
        let R := (List.range (m + 1)).map (fun j => (tr j).2.1)
        let theta := (List.range (m + 1)).map (fun j => (tr j).1)
        if full then [times, S, I, R, theta] else [times, S, I, R]) :=
  EBCM_discrete_eq N f f' p phiS0 phiR0 R0 tmin tmax full

/-- **generated EBCM_discrete: the specification**.  With `m = (tmax − tmin).toNat` (`= tmax − tmin` when
`tmin ≤ tmax`): the call succeeds; `return_full_data` only adds `theta` as fifth list; all lists have length `m + 1`;
`times = tmin, tmin+1, …`; at every index `S + I + R = N` and `S = N ψ̂(θ)`; `θ(0) = 1`, `R(0) = R0`;
`R(n+1) = R(n) + I(n)` and `θ(n+1) = 1 − p + p(φR + φS ψ̂'(θ(n))/g)` with `g = ψ̂'(1)`, replaced by 1 when it is 0 -/
theorem gen_EBCM_discrete_spec (N : Rat) (f f' : Rat → Rat) (p phiS0 phiR0 R0 : Rat) (tmin tmax : Int) :
    ∃ times S I R theta : List Rat,
      GenHelp.EBCM_discrete N (fun x => pure (f x)) (fun x => pure (f' x)) p phiS0 phiR0 R0 tmin tmax false
        = .ok [times, S, I, R] ∧
      GenHelp.EBCM_discrete N (fun x => pure (f x)) (fun x => pure (f' x)) p phiS0 phiR0 R0 tmin tmax true
        = .ok [times, S, I, R, theta] ∧
      (let m := (tmax - tmin).toNat
       times.length = m + 1 ∧ S.length = m + 1 ∧ I.length = m + 1 ∧ R.length = m + 1 ∧ theta.length = m + 1 ∧
       theta.getD 0 0 = 1 ∧ R.getD 0 0 = R0 ∧
       (∀ n, n ≤ m → times.getD n 0 = ((tmin + (n : Int) : Int) : Rat) ∧
          S.getD n 0 + I.getD n 0 + R.getD n 0 = N ∧ S.getD n 0 = N * f (theta.getD n 0)) ∧
       (∀ n, n < m → R.getD (n + 1) 0 = R.getD n 0 + I.getD n 0 ∧
          theta.getD (n + 1) 0 = (1 - p) + p * (phiR0 + phiS0 * f' (theta.getD n 0) / (if f' 1 = 0 then 1 else f' 1)))) := by
  refine ⟨_, _, _, _, _, EBCM_discrete_eq N f f' p phiS0 phiR0 R0 tmin tmax false,
    EBCM_discrete_eq N f f' p phiS0 phiR0 R0 tmin tmax true, ?_⟩
  simp only [List.length_map, List.length_range, true_and]
  refine ⟨?_, ?_, ?_, ?_⟩
  · rw [getD_map_range _ _ _ _ (by omega)]; rfl
  · rw [getD_map_range _ _ _ _ (by omega)]; rfl
  · intro n hn
    rw [getD_map_range _ _ _ _ (by omega), getD_map_range _ _ _ _ (by omega), getD_map_range _ _ _ _ (by omega),
      getD_map_range _ _ _ _ (by omega), getD_map_range _ _ _ _ (by omega)]
    exact ⟨rfl, ebcmTraj_conserve N f f' p phiS0 phiR0 R0 n, ebcmTraj_S N f f' p phiS0 phiR0 R0 n⟩
  · intro n hn
    rw [getD_map_range _ _ _ _ (by omega), getD_map_range _ _ _ _ (by omega), getD_map_range _ _ _ _ (by omega),
      getD_map_range _ _ _ _ (by omega), getD_map_range _ _ _ _ (by omega)]
    refine ⟨ebcmTraj_R N f f' p phiS0 phiR0 R0 n, ?_⟩
    rw [ebcmTraj_succ]
    rfl

/-- `tmax ≤ tmin`: the loop is empty, one row -/
theorem gen_EBCM_discrete_empty (N : Rat) (f f' : Rat → Rat) (p phiS0 phiR0 R0 : Rat) (tmin tmax : Int) (h : tmax ≤ tmin) :
    GenHelp.EBCM_discrete N (fun x => pure (f x)) (fun x => pure (f' x)) p phiS0 phiR0 R0 tmin tmax false
      = .ok [[(tmin : Rat)], [N * f 1], [N - N * f 1 - R0], [R0]] := by
  rw [EBCM_discrete_eq]
  have : (tmax - tmin).toNat = 0 := by omega
  simp [this, ebcmTraj_zero, ebcmInit]

/-- a failing callback: its exception propagates (ψ̂ is called first, then ψ̂') -/
theorem gen_EBCM_discrete_error_psihat (N : Rat) (psihat psihatPrime : Rat → Except String Rat)
    (p phiS0 phiR0 R0 : Rat) (tmin tmax : Int) (full : Bool) (e : String) (h : psihat 1 = .error e) :
    GenHelp.EBCM_discrete N psihat psihatPrime p phiS0 phiR0 R0 tmin tmax full = .error e := by
  simp [GenHelp.EBCM_discrete, h]
theorem gen_EBCM_discrete_error_psihatPrime (N : Rat) (psihat psihatPrime : Rat → Except String Rat)
    (p phiS0 phiR0 R0 : Rat) (tmin tmax : Int) (full : Bool) (e : String) (s0 : Rat) (h0 : psihat 1 = .ok s0)
    (h : psihatPrime 1 = .error e) :
    GenHelp.EBCM_discrete N psihat psihatPrime p phiS0 phiR0 R0 tmin tmax full = .error e := by
  simp [GenHelp.EBCM_discrete, h0, h]

/-- the θ-component of the trajectory is the iteration of `thetaMap` from 1 -/
theorem gen_EBCM_theta_iterate (N : Rat) (f f' : Rat → Rat) (p phiS0 phiR0 R0 : Rat) (n : Nat) :
    (ebcmTraj N f f' p phiS0 phiR0 R0 n).1 = (thetaMap f' p phiS0 phiR0)^[n] 1 :=
  ebcmTraj_theta N f f' p phiS0 phiR0 R0 n

/-- **connection to the model of C08**: for ψ̂ = `ODE.psiH K c`, ψ̂' = `ODE.psiHP K c` with ψ̂'(1) ≠ 0 one pass of the
generated loop is `ODE.ebcmDiscreteStep`, and the θ-map is `ODE.attackDiscMap`.  The hypothesis is needed: for
ψ̂'(1) = 0 Python replaces the divisor by 1 while the model divides by 0 (Lean: `x/0 = 0`); counter-example below -/
theorem gen_EBCM_step_model (K : Nat) (c : Nat → Rat) (N p phiS0 phiR0 : Rat) (h1 : ODE.psiHP K c 1 ≠ 0) (x : EState) :
    ebcmNext N (ODE.psiH K c) (ODE.psiHP K c) p phiS0 phiR0 x =
      (let r := ODE.ebcmDiscreteStep K c N p phiS0 phiR0 x.1 x.2.2.2 x.2.1
       (r.1, r.2.2.2, r.2.1, r.2.2.1)) ∧
    thetaMap (ODE.psiHP K c) p phiS0 phiR0 x.1 = ODE.attackDiscMap K c p phiS0 phiR0 x.1 := by
  simp only [ebcmNext, thetaMap, ODE.ebcmDiscreteStep, ODE.attackDiscMap, guard_of_ne _ h1]
  exact ⟨trivial, trivial⟩

/-- the trajectory of the generated code on ψ̂ = `psiH K c` follows the model step, time by time -/
theorem gen_EBCM_traj_model (K : Nat) (c : Nat → Rat) (N p phiS0 phiR0 R0 : Rat) (h1 : ODE.psiHP K c 1 ≠ 0) (n : Nat) :
    let x := ebcmTraj N (ODE.psiH K c) (ODE.psiHP K c) p phiS0 phiR0 R0 n
    let y := ebcmTraj N (ODE.psiH K c) (ODE.psiHP K c) p phiS0 phiR0 R0 (n + 1)
    (y.1, y.2.2.1, y.2.2.2, y.2.1) = ODE.ebcmDiscreteStep K c N p phiS0 phiR0 x.1 x.2.2.2 x.2.1 := by
  simp only [ebcmTraj_succ, (gen_EBCM_step_model K c N p phiS0 phiR0 h1 _).1]

/-! ### 7. fixed points -/

/-- at a fixed point of the θ-iteration nothing more happens to `S` (generic ψ̂) -/
theorem gen_EBCM_discrete_fixed (N : Rat) (f f' : Rat → Rat) (p phiS0 phiR0 R0 : Rat) (n : Nat)
    (hfix : thetaMap f' p phiS0 phiR0 (ebcmTraj N f f' p phiS0 phiR0 R0 n).1 = (ebcmTraj N f f' p phiS0 phiR0 R0 n).1) :
    (ebcmTraj N f f' p phiS0 phiR0 R0 (n + 1)).2.2.1 = (ebcmTraj N f f' p phiS0 phiR0 R0 n).2.2.1 ∧
    (ebcmTraj N f f' p phiS0 phiR0 R0 (n + 1)).1 = (ebcmTraj N f f' p phiS0 phiR0 R0 n).1 := by
  have hth : (ebcmTraj N f f' p phiS0 phiR0 R0 (n + 1)).1 = (ebcmTraj N f f' p phiS0 phiR0 R0 n).1 := by
    rw [ebcmTraj_succ]
    exact hfix
  refine ⟨?_, hth⟩
  rw [ebcmTraj_S, ebcmTraj_S N f f' p phiS0 phiR0 R0 n, hth]

/-- the same through C08 (`ODE.ebcm_discrete_fixed`) for ψ̂ = `psiH K c`: a fixed point of `ODE.attackDiscMap` -/
theorem gen_EBCM_discrete_fixed_model (K : Nat) (c : Nat → Rat) (N p phiS0 phiR0 R0 : Rat) (h1 : ODE.psiHP K c 1 ≠ 0)
    (n : Nat)
    (hfix : ODE.attackDiscMap K c p phiS0 phiR0 (ebcmTraj N (ODE.psiH K c) (ODE.psiHP K c) p phiS0 phiR0 R0 n).1
      = (ebcmTraj N (ODE.psiH K c) (ODE.psiHP K c) p phiS0 phiR0 R0 n).1) :
    (ebcmTraj N (ODE.psiH K c) (ODE.psiHP K c) p phiS0 phiR0 R0 (n + 1)).2.2.1
      = (ebcmTraj N (ODE.psiH K c) (ODE.psiHP K c) p phiS0 phiR0 R0 n).2.2.1 := by
  have h := gen_EBCM_traj_model K c N p phiS0 phiR0 R0 h1 n
  simp only at h
  have h2 := congrArg (fun r => r.2.1) h
  simp only at h2
  rw [h2, ODE.ebcm_discrete_fixed K c N p phiS0 phiR0 _ _ _ hfix, ebcmTraj_S]

/-! ### 8. EBCM_discrete_uniform_introduction -/

/-- **generated uniform introduction = EBCM_discrete** with ψ̂ = (1−ρ)ψ, ψ̂' = (1−ρ)ψ', φS(0) = 1−ρ, φR(0) = 0, R0 = 0,
tmin = 0 (any callbacks, failing ones included) -/
theorem gen_EBCM_uniform_eq (N : Rat) (psi psiPrime : Rat → Except String Rat) (p rho : Rat) (tmax : Int) (full : Bool) :
    GenHelp.EBCM_discrete_uniform_introduction N psi psiPrime p rho tmax full =
      GenHelp.EBCM_discrete N (fun x => do let y ← psi x; pure ((1 - rho) * y))
        (fun x => do let y ← psiPrime x; pure ((1 - rho) * y)) p (1 - rho) 0 0 0 tmax full := rfl

/-- for total ψ, ψ' the callbacks handed on are total as well -/
theorem gen_EBCM_uniform_spec (N : Rat) (g g' : Rat → Rat) (p rho : Rat) (tmax : Int) (full : Bool) :
    GenHelp.EBCM_discrete_uniform_introduction N (fun x => pure (g x)) (fun x => pure (g' x)) p rho tmax full =
      GenHelp.EBCM_discrete N (fun x => pure ((1 - rho) * g x)) (fun x => pure ((1 - rho) * g' x))
        p (1 - rho) 0 0 0 tmax full := rfl

/-- … so it never raises, and S(0) = N(1−ρ)ψ(1), I(0) = N − S(0), R(0) = 0 -/
theorem gen_EBCM_uniform_initial (N : Rat) (g g' : Rat → Rat) (p rho : Rat) (tmax : Int) :
    ∃ times S I R : List Rat,
      GenHelp.EBCM_discrete_uniform_introduction N (fun x => pure (g x)) (fun x => pure (g' x)) p rho tmax false
        = .ok [times, S, I, R] ∧ times.getD 0 0 = 0 ∧
      S.getD 0 0 = N * ((1 - rho) * g 1) ∧ I.getD 0 0 = N - N * ((1 - rho) * g 1) ∧ R.getD 0 0 = 0 := by
  rw [gen_EBCM_uniform_spec]
  refine ⟨_, _, _, _, EBCM_discrete_eq N _ _ p (1 - rho) 0 0 0 tmax false, ?_, ?_, ?_, ?_⟩
  · rw [getD_map_range _ _ _ _ (by omega)]; simp
  · rw [getD_map_range _ _ _ _ (by omega)]; rfl
  · rw [getD_map_range _ _ _ _ (by omega)]; simp [ebcmTraj_zero, ebcmInit]
  · rw [getD_map_range _ _ _ _ (by omega)]; rfl

/-! ### 10. Epi_Prob_discrete -/

/-- **generated Epi_Prob_discrete, all inputs**: ValueError for an empty `Pk`; else, with ψ, ψ' the polynomials of
`get_PGF`, `get_PGFPrime`: ZeroDivisionError iff ψ'(1) = 0 and `number_its > 0` (for `number_its = 0` the division is
never reached), else `1 − ψ(α_n)` with α_0 = 1−p, α_{j+1} = 1−p+p ψ'(α_j)/ψ'(1) -/
theorem gen_Epi_Prob_discrete_spec (Pk : List (Nat × Rat)) (p : Rat) (n : Nat) :
    GenHelp.Epi_Prob_discrete Pk p n =
      if Pk = [] then .error "ValueError"
      else if 0 < n ∧ psiPAL Pk 1 = 0 then .error "ZeroDivisionError"
      else .ok (1 - psiAL Pk ((alphaMap (psiPAL Pk) p)^[n] (1 - p))) := by
  by_cases h : Pk = []
  · subst h; rfl
  · simp only [h, if_false]
    exact Epi_Prob_discrete_eq Pk h p n

/-- the polynomials used are those returned by the generated `get_PGF` / `get_PGFPrime` -/
theorem gen_Epi_Prob_polys (Pk : List (Nat × Rat)) (h : Pk ≠ []) :
    GenHelp.get_PGF Pk = .ok (psiAL Pk) ∧ GenHelp.get_PGFPrime Pk = .ok (psiPAL Pk) :=
  ⟨get_PGF_ok Pk h, get_PGFPrime_ok Pk h⟩

/-! ### 9. Attack_rate_discrete -/

/-- EoNError iff `rho` and `Sk0` are both given (all other arguments arbitrary) -/
theorem gen_Attack_rate_discrete_both (Pk : List (Nat × Rat)) (p r : Rat) (d : List (Nat × Rat))
    (phiS0 phiR0 : Option Rat) (n : Nat) :
    GenHelp.Attack_rate_discrete Pk p (some r) (some d) phiS0 phiR0 n = .error "EoNError" := rfl

/-- `Sk0 = None` and `rho ∈ {None, 0}`: the early return through `Epi_Prob_discrete` (`phiS0`, `phiR0` are ignored) -/
theorem gen_Attack_rate_discrete_early (Pk : List (Nat × Rat)) (p : Rat) (rho : Option Rat) (hr : rho = none ∨ rho = some 0)
    (phiS0 phiR0 : Option Rat) (n : Nat) :
    GenHelp.Attack_rate_discrete Pk p rho none phiS0 phiR0 n = GenHelp.Epi_Prob_discrete Pk p n := by
  rcases hr with rfl | rfl
  · exact Attack_rate_discrete_none Pk p phiS0 phiR0 n
  · exact Attack_rate_discrete_rho_zero Pk p phiS0 phiR0 n

/-- the `Sk0` actually used -/
def effSk0 (Pk : List (Nat × Rat)) (rho : Option Rat) (Sk0 : Option (List (Nat × Rat))) : List (Nat × Rat) :=
  match Sk0 with
  | some d => d
  | none => Pk.map fun kv => (kv.1, 1 - rho.getD 0)

/-- **generated Attack_rate_discrete, main branch** (not both `rho` and `Sk0`, not the early return; `Sk0`, when given,
has every key of `Pk`): with ψ̂ = `psiHatAL Pk Sk0`, ψ̂' = `psiHatPAL Pk Sk0`: the default φS(0) = ψ̂'(1)/Σ k Pk[k] raises
ZeroDivisionError when Σ k Pk[k] = 0; otherwise the result is `1 − ψ̂(θ_n)`, θ_0 = 1, θ_{j+1} = thetaMap θ_j
(φR(0) defaults to 0).  No hypothesis that the keys of `Pk` are distinct is needed: the sums run over the key list as
it is and the reads return the first binding. -/
theorem gen_Attack_rate_discrete_spec (Pk : List (Nat × Rat)) (p : Rat) (rho : Option Rat)
    (Sk0 : Option (List (Nat × Rat))) (phiS0 phiR0 : Option Rat) (n : Nat)
    (hnb : rho = none ∨ Sk0 = none) (hne : Sk0 = none → ∃ r, rho = some r ∧ r ≠ 0)
    (hkeys : ∀ d, Sk0 = some d → ∀ k ∈ Pk.map (·.1), alHas d k = true) :
    GenHelp.Attack_rate_discrete Pk p rho Sk0 phiS0 phiR0 n =
      resolvePhiS0 Pk (psiHatPAL Pk (effSk0 Pk rho Sk0) 1) phiS0 >>= fun S0 =>
        .ok (1 - psiHatAL Pk (effSk0 Pk rho Sk0)
          ((thetaMap (psiHatPAL Pk (effSk0 Pk rho Sk0)) p S0 (phiR0.getD 0))^[n] 1)) := by
  cases Sk0 with
  | some d =>
    have hr : rho = none := by
      rcases hnb with h | h
      · exact h
      · cases h
    subst hr
    have hk := hkeys d rfl
    rw [Attack_rate_discrete_some, genPsihat_ok Pk d hk, genPsihatP_ok Pk d (fun k hk' _ => hk k hk'),
      attackDiscTail_total]
    rfl
  | none =>
    obtain ⟨r, rfl, hr0⟩ := hne rfl
    have hk : ∀ k ∈ Pk.map (·.1), alHas (Pk.map fun kv => (kv.1, 1 - r)) k = true := by
      intro k hk
      rw [alHas_map_val Pk (fun _ => 1 - r) k]
      exact alHas_of_mem_keys Pk k hk
    rw [Attack_rate_discrete_rho Pk p r hr0, genPsihat_ok Pk _ hk, genPsihatP_ok Pk _ (fun k hk' _ => hk k hk'),
      attackDiscTail_total]
    rfl

/-- the default `phiS0`, spelled out -/
theorem gen_resolvePhiS0 (Pk : List (Nat × Rat)) (y : Rat) :
    (∀ v, resolvePhiS0 Pk y (some v) = .ok v) ∧
    (kAveAL Pk = 0 → resolvePhiS0 Pk y none = .error "ZeroDivisionError") ∧
    (kAveAL Pk ≠ 0 → resolvePhiS0 Pk y none = .ok (y / kAveAL Pk)) := by
  refine ⟨fun _ => rfl, fun h => by simp [resolvePhiS0, h], fun h => by simp [resolvePhiS0, h]⟩

/-- a key `k > 0` of `Pk` missing from the given `Sk0`: KeyError (raised by `psihatPrime(1)`, whatever `phiS0`) -/
theorem gen_Attack_rate_discrete_keyError (Pk : List (Nat × Rat)) (p : Rat) (d : List (Nat × Rat))
    (phiS0 phiR0 : Option Rat) (n : Nat) (h : ∃ k ∈ Pk.map (·.1), 0 < k ∧ alHas d k = false) :
    GenHelp.Attack_rate_discrete Pk p none (some d) phiS0 phiR0 n = .error "KeyError" := by
  rw [Attack_rate_discrete_some]
  unfold attackDiscTail
  cases phiS0 with
  | none => rw [genPhiS0_err Pk _ "KeyError" (genPsihatP_err Pk d h 1)]; rfl
  | some v =>
    simp only [genPhiS0, pure_eq_ok, ok_bind]
    cases phiR0 <;> simp [genPsihatP_err Pk d h 1]

/-- only the key 0 missing, `phiS0` given: the loop runs and the final `psihat(theta)` raises KeyError -/
theorem gen_Attack_rate_discrete_keyError_zero (Pk : List (Nat × Rat)) (p : Rat) (d : List (Nat × Rat))
    (v : Rat) (phiR0 : Option Rat) (n : Nat) (h0 : 0 ∈ Pk.map (·.1)) (hd0 : alHas d 0 = false)
    (hpos : ∀ k ∈ Pk.map (·.1), 0 < k → alHas d k = true) :
    GenHelp.Attack_rate_discrete Pk p none (some d) (some v) phiR0 n = .error "KeyError" := by
  rw [Attack_rate_discrete_some, genPsihatP_ok Pk d hpos]
  unfold attackDiscTail
  have hg : (if decide (psiHatPAL Pk d 1 = 0) = true then (1 : Rat) else psiHatPAL Pk d 1) = guard (psiHatPAL Pk d 1) := by
    simp [GenHelpProofs.guard]
  cases phiR0 <;>
  · simp only [genPhiS0, pure_eq_ok, ok_bind, hg, fdiv_ok _ _ (guard_ne_zero _)]
    rw [foldlM_range_iterate (fun th => 1 - p + p * (_ + v * psiHatPAL Pk d th / guard (psiHatPAL Pk d 1)))]
    simp [genPsihat_err Pk d ⟨0, h0, hd0⟩]

/-- **KEY LINK**: the attack-rate iteration IS the discrete EBCM run for `number_its` steps.  In the main branch, with
φS(0) resolved to `S0`, `Attack_rate_discrete … number_its = n` returns `1 − S(n)/N = (I(n) + R(n))/N` of
`EBCM_discrete N ψ̂ ψ̂' p S0 φR(0) R0 0 n` — for every population size `N ≠ 0` and every `R0` -/
theorem gen_Attack_rate_discrete_is_EBCM (Pk : List (Nat × Rat)) (p : Rat) (rho : Option Rat)
    (Sk0 : Option (List (Nat × Rat))) (phiS0 phiR0 : Option Rat) (n : Nat)
    (hnb : rho = none ∨ Sk0 = none) (hne : Sk0 = none → ∃ r, rho = some r ∧ r ≠ 0)
    (hkeys : ∀ d, Sk0 = some d → ∀ k ∈ Pk.map (·.1), alHas d k = true)
    (S0 : Rat) (hS0 : resolvePhiS0 Pk (psiHatPAL Pk (effSk0 Pk rho Sk0) 1) phiS0 = .ok S0)
    (N R0 : Rat) (hN : N ≠ 0) :
    ∃ times S I R : List Rat,
      GenHelp.EBCM_discrete N (fun x => pure (psiHatAL Pk (effSk0 Pk rho Sk0) x))
        (fun x => pure (psiHatPAL Pk (effSk0 Pk rho Sk0) x)) p S0 (phiR0.getD 0) R0 0 (n : Int) false
        = .ok [times, S, I, R] ∧
      GenHelp.Attack_rate_discrete Pk p rho Sk0 phiS0 phiR0 n = .ok (1 - S.getD n 0 / N) ∧
      GenHelp.Attack_rate_discrete Pk p rho Sk0 phiS0 phiR0 n = .ok ((I.getD n 0 + R.getD n 0) / N) := by
  refine ⟨_, _, _, _, EBCM_discrete_eq N _ _ p S0 (phiR0.getD 0) R0 0 n false, ?_⟩
  have hm : ((n : Int) - 0).toNat = n := by omega
  simp only [hm]
  rw [getD_map_range _ _ _ _ (by omega), getD_map_range _ _ _ _ (by omega), getD_map_range _ _ _ _ (by omega)]
  have hcons := ebcmTraj_conserve N (psiHatAL Pk (effSk0 Pk rho Sk0)) (psiHatPAL Pk (effSk0 Pk rho Sk0)) p S0
    (phiR0.getD 0) R0 n
  have hS := ebcmTraj_S N (psiHatAL Pk (effSk0 Pk rho Sk0)) (psiHatPAL Pk (effSk0 Pk rho Sk0)) p S0 (phiR0.getD 0) R0 n
  have hth := ebcmTraj_theta N (psiHatAL Pk (effSk0 Pk rho Sk0)) (psiHatPAL Pk (effSk0 Pk rho Sk0)) p S0
    (phiR0.getD 0) R0 n
  have hval : (1 : Rat) - psiHatAL Pk (effSk0 Pk rho Sk0)
        ((thetaMap (psiHatPAL Pk (effSk0 Pk rho Sk0)) p S0 (phiR0.getD 0))^[n] 1)
      = 1 - (ebcmTraj N (psiHatAL Pk (effSk0 Pk rho Sk0)) (psiHatPAL Pk (effSk0 Pk rho Sk0)) p S0
          (phiR0.getD 0) R0 n).2.2.1 / N := by
    rw [hS, hth]
    field_simp
  rw [gen_Attack_rate_discrete_spec Pk p rho Sk0 phiS0 phiR0 n hnb hne hkeys, hS0, ok_bind, hval]
  refine ⟨rfl, ?_⟩
  congr 1
  field_simp
  linarith

/-! ### 11. Attack_rate_cts_time -/

theorem gen_Attack_rate_cts_both (Pk : List (Nat × Rat)) (tau gamma r : Rat) (d : List (Nat × Rat))
    (phiS0 phiR0 : Option Rat) (n : Nat) :
    GenHelp.Attack_rate_cts_time Pk tau gamma n (some r) (some d) phiS0 phiR0 = .error "EoNError" := rfl

/-- **generated Attack_rate_cts_time** (not both `rho` and `Sk0`; a given `Sk0` has every key of `Pk`; `rho = None`
counts as 0 and there is no early return): first the default φS(0) (ZeroDivisionError when Σ k Pk[k] = 0), then
ZeroDivisionError iff `gamma + tau = 0`, else `1 − ψ̂(ω_n)` with ω_0 = γ/(γ+τ), ω_{j+1} = `omegaMap ω_j` -/
theorem gen_Attack_rate_cts_time_spec (Pk : List (Nat × Rat)) (tau gamma : Rat) (n : Nat) (rho : Option Rat)
    (Sk0 : Option (List (Nat × Rat))) (phiS0 phiR0 : Option Rat)
    (hnb : rho = none ∨ Sk0 = none)
    (hkeys : ∀ d, Sk0 = some d → ∀ k ∈ Pk.map (·.1), alHas d k = true) :
    GenHelp.Attack_rate_cts_time Pk tau gamma n rho Sk0 phiS0 phiR0 =
      resolvePhiS0 Pk (psiHatPAL Pk (effSk0 Pk rho Sk0) 1) phiS0 >>= fun S0 =>
        if gamma + tau = 0 then .error "ZeroDivisionError"
        else .ok (1 - psiHatAL Pk (effSk0 Pk rho Sk0)
          ((omegaMap (psiHatPAL Pk (effSk0 Pk rho Sk0)) tau gamma S0 (phiR0.getD 0))^[n] (gamma / (gamma + tau)))) := by
  cases Sk0 with
  | some d =>
    have hr : rho = none := by
      rcases hnb with h | h
      · exact h
      · cases h
    subst hr
    have hk := hkeys d rfl
    rw [Attack_rate_cts_some, genPsihat_ok Pk d hk, genPsihatP_ok Pk d (fun k hk' _ => hk k hk'), attackCtsTail_total]
    rfl
  | none =>
    have hk : ∀ k ∈ Pk.map (·.1), alHas (Pk.map fun kv => (kv.1, 1 - rho.getD 0)) k = true := by
      intro k hk
      rw [alHas_map_val Pk (fun _ => 1 - rho.getD 0) k]
      exact alHas_of_mem_keys Pk k hk
    rw [Attack_rate_cts_none, genPsihat_ok Pk _ hk, genPsihatP_ok Pk _ (fun k hk' _ => hk k hk'), attackCtsTail_total]
    rfl

/-- a key `k > 0` of `Pk` missing from the given `Sk0`: KeyError -/
theorem gen_Attack_rate_cts_keyError (Pk : List (Nat × Rat)) (tau gamma : Rat) (n : Nat) (d : List (Nat × Rat))
    (phiR0 : Option Rat) (h : ∃ k ∈ Pk.map (·.1), 0 < k ∧ alHas d k = false) :
    GenHelp.Attack_rate_cts_time Pk tau gamma n none (some d) none phiR0 = .error "KeyError" := by
  rw [Attack_rate_cts_some]
  unfold attackCtsTail
  rw [genPhiS0_err Pk _ "KeyError" (genPsihatP_err Pk d h 1)]
  rfl

/-- **connection to the model of C08**: for ψ̂' = `ODE.psiHP K c` with ψ̂'(1) ≠ 0 the generated ω-map is
`ODE.attackCtsMap` … -/
theorem gen_omegaMap_model (K : Nat) (c : Nat → Rat) (tau gamma phiS0 phiR0 om : Rat) (h1 : ODE.psiHP K c 1 ≠ 0) :
    omegaMap (ODE.psiHP K c) tau gamma phiS0 phiR0 om = ODE.attackCtsMap K c tau gamma phiS0 phiR0 om := by
  simp only [omegaMap, ODE.attackCtsMap, guard_of_ne _ h1]

/-- … and (C08 `attack_cts_fixed_point`, transported) ω is a fixed point of the generated iteration iff the
θ-component of the EBCM right-hand side vanishes at θ = ω -/
theorem gen_Attack_rate_cts_fixed_point (K : Nat) (c : Nat → Rat) (N tau gamma phiS0 phiR0 om R : Rat)
    (h1 : ODE.psiHP K c 1 ≠ 0) (h : gamma + tau ≠ 0) :
    omegaMap (ODE.psiHP K c) tau gamma phiS0 phiR0 om = om ↔ (ODE.ebcm K c N tau gamma phiS0 phiR0 om R).1 = 0 := by
  rw [gen_omegaMap_model K c tau gamma phiS0 phiR0 om h1]
  exact ODE.attack_cts_fixed_point K c N tau gamma phiS0 phiR0 om R h

/-- **ψ̂, ψ̂' of the attack-rate functions are the `psiH K c`, `psiHP K c` of Model/ODE.lean** with
`c k = Pk.get(k,0)·Sk0.get(k,0)`, for a dict `Pk` (distinct keys — needed here, because `psiH` sums over `0..K-1` once
while a repeated key would be summed twice by the generated loop —, all `< K`); consequently the generated θ- and
ω-iterations are `ODE.attackDiscMap` / `ODE.attackCtsMap` when ψ̂'(1) ≠ 0 -/
theorem gen_psihat_model (Pk Sk0 : List (Nat × Rat)) (hn : (Pk.map (·.1)).Nodup) (K : Nat)
    (hK : ∀ k ∈ Pk.map (·.1), k < K) :
    psiHatAL Pk Sk0 = ODE.psiH K (fun k => alGet Pk 0 k * alGet Sk0 0 k) ∧
    psiHatPAL Pk Sk0 = ODE.psiHP K (fun k => alGet Pk 0 k * alGet Sk0 0 k) :=
  ⟨funext (psiHatAL_eq_psiH Pk Sk0 hn K hK), funext (psiHatPAL_eq_psiHP Pk Sk0 hn K hK)⟩

theorem gen_Attack_rate_maps_model (Pk Sk0 : List (Nat × Rat)) (hn : (Pk.map (·.1)).Nodup) (K : Nat)
    (hK : ∀ k ∈ Pk.map (·.1), k < K)
    (h1 : ODE.psiHP K (fun k => alGet Pk 0 k * alGet Sk0 0 k) 1 ≠ 0) (p tau gamma S0 R0 x : Rat) :
    thetaMap (psiHatPAL Pk Sk0) p S0 R0 x = ODE.attackDiscMap K (fun k => alGet Pk 0 k * alGet Sk0 0 k) p S0 R0 x ∧
    omegaMap (psiHatPAL Pk Sk0) tau gamma S0 R0 x
      = ODE.attackCtsMap K (fun k => alGet Pk 0 k * alGet Sk0 0 k) tau gamma S0 R0 x := by
  rw [(gen_psihat_model Pk Sk0 hn K hK).2]
  exact ⟨(gen_EBCM_step_model K _ 0 p S0 R0 h1 (x, 0, 0, 0)).2, gen_omegaMap_model K _ tau gamma S0 R0 x h1⟩

/-- once the iteration has reached a fixed point the returned attack rate no longer changes with `number_its` -/
theorem gen_iterate_fixed {α : Type} (g : α → α) (x : α) (h : g x = x) (n : Nat) : g^[n] x = x :=
  Function.iterate_fixed h n

end GenHelpFinal

/-! ### non-vacuity (kernel-checked runs of the generated code) -/
section
open GenHelpProofs

-- ψ̂(x) = x², ψ̂'(x) = 2x, p = 1/2, φS = 1: θ = 1, 1, …: nobody infected initially, nothing happens
example : GenHelp.EBCM_discrete 10 (fun x => pure (x ^ 2)) (fun x => pure (2 * x)) (1/2) 1 0 0 0 2 false
    = .ok [[0, 1, 2], [10, 10, 10], [0, 0, 0], [0, 0, 0]] := by decide +kernel
-- ψ̂ = (9/10)x², φS = 9/10: an epidemic; full data appends θ; tmin = 3
example : GenHelp.EBCM_discrete 10 (fun x => pure (9/10 * x ^ 2)) (fun x => pure (9/5 * x)) (1/2) (9/10) 0 0 3 5 true
    = .ok [[3, 4, 5], [9, 3249/400, 1238769/160000], [1, 351/400, 60831/160000], [0, 1, 751/400],
        [1, 19/20, 371/400]] := by
  decide +kernel
-- tmax < tmin: one row
example : GenHelp.EBCM_discrete 10 (fun x => pure (x ^ 2)) (fun x => pure (2 * x)) (1/2) 1 0 0 5 2 false
    = .ok [[5], [10], [0], [0]] := by decide +kernel
-- the guard: ψ̂' ≡ 0 does not raise
example : GenHelp.EBCM_discrete 10 (fun _ => pure 1) (fun _ => pure 0) (1/2) 1 0 0 0 1 false
    = .ok [[0, 1], [10, 10], [0, 0], [0, 0]] := by decide +kernel
-- a failing callback
example : GenHelp.EBCM_discrete 10 (fun _ => throw "Boom") (fun _ => pure 0) (1/2) 1 0 0 0 1 false = .error "Boom" := by
  decide +kernel
example : GenHelp.EBCM_discrete_uniform_introduction 10 (fun x => pure (x ^ 2)) (fun x => pure (2 * x)) (1/2) (1/10) 1 false
    = .ok [[0, 1], [9, 3249/400], [1, 351/400], [0, 1]] := by decide +kernel
-- the hypothesis ψ̂'(1) ≠ 0 of `gen_EBCM_step_model` is needed: c = (0, 1, −1/2), ψ̂'(x) = 1 − x, ψ̂'(1) = 0, ψ̂'(0) = 1
example : thetaMap (ODE.psiHP 3 (fun k => if k = 1 then 1 else if k = 2 then -1/2 else 0)) 1 1 0 0 = 1 ∧
    ODE.attackDiscMap 3 (fun k => if k = 1 then 1 else if k = 2 then -1/2 else 0) 1 1 0 0 = 0 := by decide +kernel
-- distinct keys are needed in `gen_psihat_model`: the repeated key 1 is summed twice by the generated loop
example : psiHatAL [(1, 1), (1, 5)] [(1, 1)] 1 = 2 ∧ ODE.psiH 2 (fun k => alGet [(1, (1 : Rat)), (1, 5)] 0 k * alGet [(1, (1 : Rat))] 0 k) 1 = 1 := by
  decide +kernel
-- Epi_Prob_discrete: Pk = {1: 1/2, 3: 1/2}, p = 1/2
example : GenHelp.Epi_Prob_discrete [(1, 1/2), (3, 1/2)] (1/2) 0 = .ok (11/16) ∧
    GenHelp.Epi_Prob_discrete [(1, 1/2), (3, 1/2)] (1/2) 1 = .ok (29817/65536) := by decide +kernel
example : GenHelp.Epi_Prob_discrete [] (1/2) 3 = .error "ValueError" ∧
    GenHelp.Epi_Prob_discrete [(0, 1)] (1/2) 0 = .ok 0 ∧
    GenHelp.Epi_Prob_discrete [(0, 1)] (1/2) 1 = .error "ZeroDivisionError" := by decide +kernel
-- Attack_rate_discrete: the branches
example : GenHelp.Attack_rate_discrete [(1, 1/2), (3, 1/2)] (1/2) (some (1/10)) (some [(1, 1), (3, 1)]) none none 2
      = .error "EoNError" ∧
    GenHelp.Attack_rate_discrete [(1, 1/2), (3, 1/2)] (1/2) none none none none 1
      = GenHelp.Epi_Prob_discrete [(1, 1/2), (3, 1/2)] (1/2) 1 ∧
    GenHelp.Attack_rate_discrete [(1, 1/2), (3, 1/2)] (1/2) (some 0) none (some 7) none 1
      = GenHelp.Epi_Prob_discrete [(1, 1/2), (3, 1/2)] (1/2) 1 ∧
    GenHelp.Attack_rate_discrete [(1, 1/2), (3, 1/2)] (1/2) none (some [(1, 1)]) none none 2 = .error "KeyError" ∧
    GenHelp.Attack_rate_discrete [(0, 1/2), (2, 1/2)] (1/2) none (some [(2, 1)]) none none 2 = .error "KeyError" ∧
    GenHelp.Attack_rate_discrete [(0, 1)] (1/2) none (some []) none none 2 = .error "ZeroDivisionError" ∧
    GenHelp.Attack_rate_discrete [] (1/2) (some (1/10)) none none none 2 = .error "ZeroDivisionError" ∧
    GenHelp.Attack_rate_discrete [] (1/2) (some (1/10)) none (some 1) none 2 = .ok 1 := by decide +kernel
-- Pk = {2: 1}, rho = 1/10: ψ̂ = (9/10)x², φS = 9/10 — the numbers of the EBCM run above: 1 − S(2)/N
example : GenHelp.Attack_rate_discrete [(2, 1)] (1/2) (some (1/10)) none none none 2 = .ok (1 - (1238769/160000) / 10) := by
  decide +kernel
-- Attack_rate_cts_time
example : GenHelp.Attack_rate_cts_time [(2, 1)] 1 1 1 (some (1/10)) none none none = .ok (8431/16000) ∧
    GenHelp.Attack_rate_cts_time [(2, 1)] 1 (-1) 1 none none none none = .error "ZeroDivisionError" ∧
    GenHelp.Attack_rate_cts_time [(2, 1)] 1 1 1 (some (1/10)) (some [(2, 1)]) none none = .error "EoNError" ∧
    GenHelp.Attack_rate_cts_time [(2, 1)] 1 1 1 none (some []) none none = .error "KeyError" ∧
    GenHelp.Attack_rate_cts_time [(0, 1)] 1 (-1) 1 none none none none = .error "ZeroDivisionError" := by decide +kernel
end
