import Driver
import EoNVerif.Gen.ComplexGen
open Lean Drv

/-! JSON-lines driver for the code GENERATED from `Gillespie_complex_contagion` (Gen/ComplexGen.lean): the same request
as op "complex" of Driver.lean (`DrvCC.run`) plus `full`, run on the generated function with the harness's model
families as callbacks. -/
namespace DrvGenCC

def run (j : Json) : Except String Json := do
  let n ← getNat (← fld j "n")
  let adj ← getList (getList getNat) (← fld j "adj")
  let fam ← getStr (← fld j "family")
  let tau ← getRat (← fld j "tau")
  let gamma ← getRat (← fld j "gamma")
  let k ← getNat (← fld j "k")
  let ic ← getList getStr (← fld j "IC")
  let ret ← getList getStr (← fld j "ret")
  let tmin ← getRat (← fld j "tmin")
  let tmax ← getERat (← fld j "tmax")
  let tape ← getList getDraw (← fld j "tape")
  let full ← match fldOpt j "full" with | some b => getBool b | none => pure false
  let nodes := List.range n
  let nbrs := listFn adj []
  let A : PyTM.CArgs St :=
    { nodes := nodes, ic := fun u => DrvCC.getSt (ic.getD u "S"),
      rate := ComplexFam.rateOf2 fam nodes nbrs tau gamma k,
      choose := ComplexFam.chooseOf2 fam nbrs k,
      infl := fun st u => ComplexFam.inflOf2 fam nodes nbrs st u,
      ret := ret.map DrvCC.getSt, tmin := tmin, tmax := tmax, full := full, cfuel := 1000 }
  match (GenCC.run A 100000) { tape := tape } with
  | .error e => pure (errObj e)
  | .ok (s, ts) =>
    pure (Json.mkObj [("ok", Json.bool true), ("trace", Json.arr (ts.trace.map jCall)), ("unused", jNat ts.tape.length),
      ("times", jArr jERat s.times),
      ("cols", jArr (fun x => jArr jInt (alGet s.data [] x)) A.ret),
      ("items", jArr jNat s.nodes_by_rate.items),
      ("weights", jArr (fun u => jRat (alGet s.nodes_by_rate.weight 0 u)) s.nodes_by_rate.items),
      ("rates", jArr (fun u => jRat (A.rate s.status u)) nodes),
      ("status", jArr (fun u => jSt (s.status u)) nodes),
      ("history", jArr (fun p => Json.arr #[jNat p.1, jArr jERat p.2.1, jArr jSt p.2.2]) s.node_history)])

def handle (line : String) : String :=
  match Json.parse line with
  | .ok j => match run j with
    | .ok r => r.compress
    | .error e => (errObj ("drivercc:" ++ e)).compress
  | .error e => (errObj ("parse:" ++ e)).compress
end DrvGenCC
