#!/usr/bin/env python3
"""pyperc2lean — translator for the percolation builders and estimators of EoN/simulation.py
-> lean/EoNVerif/Gen/PercGen.lean (namespace GenPerc; runtime Gen/PyPM.lean).

Translated whole, statement by statement from the ast of /repo's working tree:
  _out_component_, _in_component_, estimate_SIR_prob_size_from_dir_perc,
  nonMarkov_directed_percolate_network_with_timing (both `weights` branches), nonMarkov_directed_percolate_network,
  directed_percolate_network (incl. its two nested rate functions), estimate_SIR_prob_size,
  estimate_directed_SIR_prob_size, estimate_nonMarkov_SIR_prob_size_with_timing, estimate_nonMarkov_SIR_prob_size,
  get_infected_nodes (incl. the normalisation of both initial sets and the `while True` draw of a default node).
NOT translated (parameters of the generated code, `PyPM.NX` / `PyPM.DiG`): networkx itself — `nx.descendants`,
`nx.ancestors`, `nx.strongly_connected_components`, `nx.connected_components`, the `DiGraph` container — and the
iteration order of Python sets (`NX.iter`).  The user's time functions are scripted answers (`PyPM.askVal`).

Each Python function becomes a Lean `def … : PM …`; locals are `let`-rebound; a `for` loop is a `foldlM` whose state is
the tuple of the variables the body assigns; `while True: … break` recurses on fuel.  `*args` tuples are resolved at
the call site (a tuple literal bound to a name is substituted), keyword defaults are read from the callee's signature.
Anything outside the supported subset raises Unsupported — a failed translation is an undischarged obligation.
"""
import ast, os, sys, hashlib

REPO = os.environ.get("EON_REPO", "/repo")


class Unsupported(Exception):
    pass


# function name -> (lean name, [(param, kind)], return kind)
SIGS = {
    "_out_component_": ("out_component", [("G", "dig"), ("source", "src")], "set"),
    "_in_component_": ("in_component", [("G", "dig"), ("target", "src")], "set"),
    "estimate_SIR_prob_size_from_dir_perc": ("estimate_from_dir_perc", [("H", "dig")], "ratpair"),
    "nonMarkov_directed_percolate_network_with_timing": ("with_timing", [("G", "contact"), ("trans_time_fxn", "cb2"), ("rec_time_fxn", "cb1"),
                                                         ("trans_time_args", "args"), ("rec_time_args", "args"), ("weights", "bool")], "dig"),
    "nonMarkov_directed_percolate_network": ("xi_zeta_network", [("G", "contact"), ("xi", "tab"), ("zeta", "tab"), ("transmission", "rule")], "dig"),
    "directed_percolate_network": ("directed_percolate_network", [("G", "contact"), ("tau", "rat"), ("gamma", "rat"), ("weights", "bool")], "dig"),
    "estimate_SIR_prob_size": ("estimate_SIR_prob_size", [("G", "contact"), ("p", "rat")], "ratpair"),
    "estimate_directed_SIR_prob_size": ("estimate_directed_SIR_prob_size", [("G", "contact"), ("tau", "rat"), ("gamma", "rat")], "ratpair"),
    "estimate_nonMarkov_SIR_prob_size_with_timing": ("estimate_with_timing", [("G", "contact"), ("trans_time_fxn", "cb2"), ("rec_time_fxn", "cb1"),
                                                     ("trans_time_args", "args"), ("rec_time_args", "args")], "ratpair"),
    "estimate_nonMarkov_SIR_prob_size": ("estimate_xi_zeta", [("G", "contact"), ("xi", "tab"), ("zeta", "tab"), ("transmission", "rule")], "ratpair"),
    "get_infected_nodes": ("get_infected_nodes", [("G", "contact"), ("tau", "rat"), ("gamma", "rat"), ("initial_infecteds", "osrc"),
                                                   ("initial_recovereds", "osrc")], "set"),
}
LEAN_TY = {"dig": "DiG", "src": "Src", "osrc": "Option Src", "set": "List Node", "nodes": "List Node", "node": "Node", "rat": "Rat",
           "erat": "ERat", "int": "Int", "bool": "Bool", "ratpair": "Rat × Rat", "contact": "Contact", "cb1": "Node → PM ERat",
           "cb2": "Node → Node → PM ERat", "tab": "Node → Rat", "rule": "Rat → Rat → Bool", "sets": "List (List Node)",
           "edges": "List (Node × Node)"}
ORDER = ["_out_component_", "_in_component_", "estimate_SIR_prob_size_from_dir_perc",
         "nonMarkov_directed_percolate_network_with_timing", "nonMarkov_directed_percolate_network", "directed_percolate_network",
         "estimate_SIR_prob_size", "estimate_directed_SIR_prob_size", "estimate_nonMarkov_SIR_prob_size_with_timing",
         "estimate_nonMarkov_SIR_prob_size", "get_infected_nodes"]


def assigned(stmts):
    """names assigned (rebinding or mutation through a method) in a statement list, in first-occurrence order"""
    out = []

    def add(n):
        if n not in out:
            out.append(n)
    for st in stmts:
        for node in ast.walk(st):
            if isinstance(node, ast.Assign):
                for t in node.targets:
                    if isinstance(t, ast.Name):
                        add(t.id)
            elif isinstance(node, ast.Expr) and isinstance(node.value, ast.Call) and isinstance(node.value.func, ast.Attribute) \
                    and isinstance(node.value.func.value, ast.Name) and node.value.func.attr in ("add_node", "add_edge", "remove_node"):
                add(node.value.func.value.id)
    return out


def top_assigned(stmts):
    """names bound by the statements of this list themselves (not inside loops)"""
    out = []
    for st in stmts:
        if isinstance(st, ast.Assign):
            out += [t.id for t in st.targets if isinstance(t, ast.Name)]
        elif isinstance(st, ast.If):
            a, b = top_assigned(st.body), top_assigned(st.orelse)
            out += [n for n in a if n in b]
        elif isinstance(st, ast.While):
            out += top_assigned(st.body)
    return out


class Fn:
    def __init__(self, node, fns):
        self.node, self.fns = node, fns
        self.lean_name, self.params, self.ret = SIGS[node.name]
        self.env = {}            # python name -> kind
        self.tuples = {}         # name bound to a tuple literal -> list of (term, kind)
        self.local_fns = {}      # nested function name -> [(param names)]
        self.n = 0

    def tmp(self, base="v"):
        self.n += 1
        return f"{base}_{self.n}"

    # ------------------------------------------------------------------ expressions: (pre-lines, term, kind)
    def expr(self, e, ind):
        src = ast.unparse(e)
        if isinstance(e, ast.Constant):
            v = e.value
            if v is None:
                return [], "none", "none"
            if isinstance(v, bool):
                return [], ("true" if v else "false"), "bool"
            if isinstance(v, int):
                return [], str(v), "num"
            raise Unsupported(f"constant {v!r}")
        if isinstance(e, ast.Name):
            if e.id in self.env:
                return [], e.id, self.env[e.id]
            raise Unsupported(f"unknown name {e.id}")
        if src == "float('Inf')":
            return [], "(none : ERat)", "erat"
        if src == "set()":
            return [], "([] : List Node)", "set"
        if src == "nx.DiGraph()":
            return [], "DiG.empty", "dig"
        if isinstance(e, ast.Set) and len(e.elts) == 1:
            p, a, k = self.expr(e.elts[0], ind)
            if k == "src":
                x = self.tmp("s")
                return p + [f"{ind}let {x} ← PyPM.liftE (singletonS {a})"], x, "set"
            if k == "node":
                return p, f"[{a}]", "set"
            raise Unsupported("set display of " + k)
        if isinstance(e, ast.List) and len(e.elts) == 1:
            p, a, k = self.expr(e.elts[0], ind)
            if k == "node":
                return p, f"[{a}]", "nodes"
            if k == "src":
                x = self.tmp("s")
                return p + [f"{ind}let {x} ← PyPM.liftE (singletonS {a})"], x, "nodes"
            raise Unsupported("list display of " + k)
        if isinstance(e, ast.Tuple) and len(e.elts) == 2:
            (pa, a, ka), (pb, b, kb) = self.expr(e.elts[0], ind), self.expr(e.elts[1], ind)
            if ka == kb == "rat":
                return pa + pb, f"({a}, {b})", "ratpair"
            raise Unsupported("tuple " + src)
        if isinstance(e, ast.Subscript):
            pv, v, kv = self.expr(e.value, ind)
            pk, key, kk = self.expr(e.slice, ind)
            if kv == "tab" and kk == "node":
                return pv + pk, f"({v} {key})", "rat"
            if kv == "nodes" and kk == "num":
                x = self.tmp("x")
                return pv + pk + [f"{ind}let {x} ← PyPM.liftE (PyRT.pyIndex {v} {key})"], x, "node"
            raise Unsupported("subscript " + src)
        if isinstance(e, ast.BinOp) and isinstance(e.op, ast.Div):
            pa, a, ka = self.expr(e.left, ind)
            pb, b, kb = self.expr(e.right, ind)
            conv = lambda t, k: t if k == "rat" else f"(({t} : Int) : Rat)"
            if ka in ("rat", "int") and kb in ("rat", "int"):
                x = self.tmp("q")
                return pa + pb + [f"{ind}let {x} ← PyPM.liftE (PyTM.fdiv {conv(a, ka)} {conv(b, kb)})"], x, "rat"
            raise Unsupported(f"division of {ka} by {kb}")
        if isinstance(e, ast.Call):
            return self.call(e, ind)
        raise Unsupported("expression " + src[:70])

    def call(self, e, ind):
        f, src = e.func, ast.unparse(e)
        args = e.args
        if isinstance(f, ast.Name):
            if f.id == "float" and len(args) == 1:
                p, a, k = self.expr(args[0], ind)
                if k == "int":
                    return p, f"(({a} : Int) : Rat)", "rat"
                if k == "rat":
                    return p, a, "rat"
                raise Unsupported("float of " + k)
            if f.id == "len" and len(args) == 1:
                p, a, k = self.expr(args[0], ind)
                if k in ("set", "nodes"):
                    return p, f"({a}.length : Int)", "int"
                raise Unsupported("len of " + k)
            if f.id == "list" and len(args) == 1:
                p, a, k = self.expr(args[0], ind)
                if k == "set":
                    return p, f"(X.iter {a})", "nodes"
                if k == "contact":
                    return p, f"{a}.nodes", "nodes"
                raise Unsupported("list of " + k)
            if f.id == "set" and len(args) == 1:
                p, a, k = self.expr(args[0], ind)
                if k == "src":
                    x = self.tmp("s")
                    return p + [f"{ind}let {x} ← PyPM.liftE (setOfS {a})"], x, "set"
                if k in ("nodes", "set"):
                    return p, f"(PyDM.setOf {a})", "set"
                raise Unsupported("set of " + k)
            if f.id == "max" and len(args) == 1 and len(e.keywords) == 1 and e.keywords[0].arg == "key" and ast.unparse(e.keywords[0].value) == "len":
                p, a, k = self.expr(args[0], ind)
                if k != "sets":
                    raise Unsupported("max(key=len) of " + k)
                x = self.tmp("m")
                return p + [f"{ind}let {x} ← PyPM.liftE (maxByLen {a})"], x, "set"
            if f.id == "max" and len(args) == 1 and isinstance(args[0], ast.GeneratorExp) and not e.keywords:
                g = args[0]
                if len(g.generators) == 1 and not g.generators[0].ifs and isinstance(g.generators[0].target, ast.Name) \
                        and ast.unparse(g.elt) == f"len({g.generators[0].target.id})":
                    p, a, k = self.expr(g.generators[0].iter, ind)
                    if k == "sets":
                        x = self.tmp("m")
                        return p + [f"{ind}let {x} ← PyPM.liftE (maxLen {a})"], x, "int"
                raise Unsupported("max over " + ast.unparse(g))
            if f.id in self.local_fns:                      # a nested rate function called directly
                raise Unsupported("direct call of nested function " + f.id)
            if f.id in self.env and self.env[f.id] in ("cb1", "cb2"):
                kind = self.env[f.id]
                n = 1 if kind == "cb1" else 2
                if len(args) != n + 1 or not isinstance(args[n], ast.Starred) or self.env.get(ast.unparse(args[n].value)) != "args":
                    raise Unsupported("call shape of " + src)
                pre, terms = [], []
                for a_ in args[:n]:
                    p, a, k = self.expr(a_, ind)
                    if k != "node":
                        raise Unsupported("argument of " + src)
                    pre += p
                    terms.append(a)
                x = self.tmp("t")
                return pre + [f"{ind}let {x} ← {f.id} {' '.join(terms)}"], x, "erat"
            if f.id in self.env and self.env[f.id] == "rule" and len(args) == 2:
                (pa, a, ka), (pb, b, kb) = self.expr(args[0], ind), self.expr(args[1], ind)
                if ka == kb == "rat":
                    return pa + pb, f"({f.id} {a} {b})", "bool"
                raise Unsupported("arguments of " + src)
            if f.id == "percolate_network" and len(args) == 2:
                (pa, a, ka), (pb, b, kb) = self.expr(args[0], ind), self.expr(args[1], ind)
                if (ka, kb) != ("contact", "rat"):
                    raise Unsupported(src)
                x = self.tmp("H")
                return pa + pb + [f"{ind}let {x} ← PyPM.liftDM (GenDisc.percolate_network {a}.edges {b})"], x, "ugraph:" + a
            if f.id in SIGS:
                return self.call_known(f.id, e, ind)
            raise Unsupported("call " + src[:60])
        if isinstance(f, ast.Attribute):
            recv_src = ast.unparse(f.value)
            if recv_src == "random" and f.attr == "expovariate" and len(args) == 1:
                p, a, k = self.expr(args[0], ind)
                if k != "rat":
                    raise Unsupported("expovariate of " + k)
                x = self.tmp("d")
                return p + [f"{ind}let {x} ← expo {a}"], x, "erat"
            if recv_src == "random" and f.attr == "choice" and len(args) == 1:
                p, a, k = self.expr(args[0], ind)
                if k != "nodes":
                    raise Unsupported("random.choice of " + k)
                x = self.tmp("c")
                return p + [f"{ind}let {x} ← PyPM.choiceNode {a}"], x, "node"
            if recv_src == "nx" and f.attr in ("descendants", "ancestors") and len(args) == 2:
                (pa, a, ka), (pb, b, kb) = self.expr(args[0], ind), self.expr(args[1], ind)
                if (ka, kb) != ("dig", "node"):
                    raise Unsupported(src)
                x = self.tmp("r")
                return pa + pb + [f"{ind}let {x} ← PyPM.liftE (X.{f.attr} {a} {b})"], x, "nodes"
            if recv_src == "nx" and f.attr == "strongly_connected_components" and len(args) == 1:
                p, a, k = self.expr(args[0], ind)
                if k != "dig":
                    raise Unsupported(src)
                return p, f"(X.sccs {a})", "sets"
            if recv_src == "nx" and f.attr == "connected_components" and len(args) == 1:
                p, a, k = self.expr(args[0], ind)
                if not k.startswith("ugraph:"):
                    raise Unsupported(src)
                return p, f"(X.ccs {k[7:]}.nodes {a})", "sets"
            pv, v, kv = self.expr(f.value, ind)
            if f.attr == "has_node" and len(args) == 1:
                p, a, k = self.expr(args[0], ind)
                if kv == "dig" and k == "src":
                    return pv + p, f"(hasNodeS {v} {a})", "bool"
                if kv == "dig" and k == "node":
                    return pv + p, f"({v}.hasNode {a})", "bool"
                if kv == "contact" and k == "src":
                    return pv + p, f"({v}.hasNodeS {a})", "bool"
                raise Unsupported(src)
            if f.attr == "order" and not args:
                if kv == "dig":
                    return pv, f"{v}.order", "int"
                if kv == "contact":
                    return pv, f"{v}.order", "int"
            if f.attr == "nodes" and not args and kv == "contact":
                return pv, f"{v}.nodes", "nodes"
            if f.attr == "neighbors" and len(args) == 1 and kv == "contact":
                p, a, k = self.expr(args[0], ind)
                if k == "node":
                    return pv + p, f"({v}.nbrs {a})", "nodes"
            if f.attr == "union" and len(args) == 1 and kv == "set":
                p, a, k = self.expr(args[0], ind)
                if k == "set":
                    return pv + p, f"(union {v} {a})", "set"
            if f.attr == "intersection" and len(args) == 1 and kv == "set":
                p, a, k = self.expr(args[0], ind)
                if k == "set":
                    return pv + p, f"(inter {v} {a})", "set"
            raise Unsupported("method call " + src[:60])
        raise Unsupported("call " + src[:60])

    def call_known(self, name, e, ind):
        """a call of another translated function: positional and keyword arguments against its signature, defaults
        from the callee's `def`"""
        lean, params, ret = SIGS[name]
        callee = self.fns[name]
        pnames = [a.arg for a in callee.args.args]
        defaults = dict(zip(pnames[len(pnames) - len(callee.args.defaults):], callee.args.defaults))
        given = dict(zip(pnames, e.args))
        for kw in e.keywords:
            if kw.arg in given or kw.arg not in pnames:
                raise Unsupported("keyword " + str(kw.arg) + " in " + ast.unparse(e)[:50])
            given[kw.arg] = kw.value
        pre, terms = [], []
        sig = dict(params)
        i = 0
        plist = [p for p, _ in params]
        while i < len(plist):
            pname = plist[i]
            kind = sig[pname]
            if kind == "args":
                i += 1
                continue                                  # consumed together with the callback before it
            if pname not in given:
                if pname not in defaults:
                    raise Unsupported(f"{name}: argument {pname} missing")
                node = defaults[pname]
                p, a, k = Fn.expr(self, node, ind)
            else:
                node = given[pname]
                if kind in ("cb1", "cb2"):
                    # callback + its args tuple: partial application at the call site
                    args_name = pname.replace("_fxn", "_args")
                    if sig.get(args_name) != "args":
                        raise Unsupported(f"{name}: no args tuple for {pname}")
                    anode = given.get(args_name)
                    if anode is None:
                        d = defaults.get(args_name)
                        if d is None or ast.unparse(d) != "()":
                            raise Unsupported(f"{name}: {args_name} missing")
                        extra = []
                    elif isinstance(anode, ast.Name) and anode.id in self.tuples:
                        extra = self.tuples[anode.id]
                    elif isinstance(anode, ast.Name) and self.env.get(anode.id) == "args":
                        extra = None                      # the caller's own (already applied) args
                    elif isinstance(anode, ast.Tuple):
                        extra = [self.expr(x, ind)[1:] for x in anode.elts]
                    else:
                        raise Unsupported(f"{name}: {args_name}={ast.unparse(anode)}")
                    if not isinstance(node, ast.Name):
                        raise Unsupported(f"{name}: callback {ast.unparse(node)}")
                    fname = node.id
                    if fname in self.local_fns:
                        fparams = self.local_fns[fname]
                        n = 1 if kind == "cb1" else 2
                        if extra is None or len(fparams) != n + len(extra):
                            raise Unsupported(f"{name}: arity of {fname}")
                        vs = ["u", "v"][:n]
                        terms.append(f"(fun {' '.join(vs)} => {fname} {' '.join(vs)} {' '.join(t for t, _ in extra)})")
                    elif self.env.get(fname) == kind:
                        if extra not in (None, []):
                            raise Unsupported(f"{name}: extra arguments for the user callback {fname}")
                        terms.append(fname)
                    else:
                        raise Unsupported(f"{name}: callback {fname}")
                    i += 1
                    continue
                p, a, k = self.expr(node, ind)
            ok = k == kind or (kind == "src" and k == "node") or (kind == "src" and k == "set") or (kind == "osrc" and k == "none")
            if not ok:
                raise Unsupported(f"{name}: argument {pname} of kind {k}, expected {kind}")
            if kind == "src" and k == "node":
                a = f"(Sum.inl {a})"
            if kind == "src" and k == "set":
                a = f"(Sum.inr {a})"
            pre += p
            terms.append(a)
            i += 1
        x = self.tmp("r")
        return pre + [f"{ind}let {x} ← {lean} X {' '.join(terms)}"], x, ret

    # ------------------------------------------------------------------ conditions
    def truth(self, e, ind):
        if isinstance(e, ast.Compare) and len(e.ops) == 1:
            op, l, r = e.ops[0], e.left, e.comparators[0]
            if isinstance(op, (ast.Is, ast.IsNot)):
                raise Unsupported("None test outside an if")
            pa, a, ka = self.expr(l, ind)
            pb, b, kb = self.expr(r, ind)
            if isinstance(op, (ast.LtE, ast.Lt)) and ka == kb == "erat":
                return pa + pb, f"(ERat.{'le' if isinstance(op, ast.LtE) else 'lt'} {a} {b})"
            if isinstance(op, (ast.Gt, ast.GtE, ast.Lt, ast.LtE)) and ka == "rat" and kb == "num":
                sym = {ast.Gt: ">", ast.GtE: "≥", ast.Lt: "<", ast.LtE: "≤"}[type(op)]
                return pa + pb, f"(decide ({a} {sym} ({b} : Rat)))"
            if isinstance(op, (ast.In, ast.NotIn)) and ka == "node" and kb == "set":
                t = f"({b}.contains {a})"
                return pa + pb, t if isinstance(op, ast.In) else f"(!{t})"
            raise Unsupported("comparison " + ast.unparse(e))
        p, t, k = self.expr(e, ind)
        if k == "bool":
            return p, t
        if k == "set":
            return p, f"(!{t}.isEmpty)"
        raise Unsupported("truth value of " + k)

    # ------------------------------------------------------------------ statements; `live` = names defined so far
    def tuple_of(self, names):
        return names[0] if len(names) == 1 else "(" + ", ".join(names) + ")"

    def block(self, stmts, ind, results):
        """translate statements; `results` = names whose final values the enclosing construct returns"""
        out = []
        for st in stmts:
            out += self.stmt(st, ind)
        return out

    def stmt(self, st, ind):
        src = ast.unparse(st)
        if isinstance(st, ast.Assign) and len(st.targets) == 1 and isinstance(st.targets[0], ast.Name):
            name = st.targets[0].id
            if isinstance(st.value, ast.Tuple) and all(isinstance(x, ast.Name) for x in st.value.elts) and name.endswith("_args"):
                self.tuples[name] = [self.expr(x, ind)[1:] for x in st.value.elts]
                return [f"{ind}-- {src}: substituted at the call below"]
            p, t, k = self.expr(st.value, ind)
            if k == "num":
                k = "int"
            self.env[name] = k
            return p + [f"{ind}let {name} := {t}"]
        if isinstance(st, ast.FunctionDef):
            params = [a.arg for a in st.args.args]
            saved = dict(self.env)
            for a in params:
                self.env[a] = "node" if a in ("u", "v") else "rat"
            body = [s for s in st.body if not (isinstance(s, ast.Expr) and isinstance(s.value, ast.Constant))]
            lines = self.ret_block(body, ind + "    ")
            self.env = saved
            self.local_fns[st.name] = params
            tys = " ".join(f"({a} : {'Node' if a in ('u', 'v') else 'Rat'})" for a in params)
            return [f"{ind}let {st.name} := fun {tys} => (do"] + lines + [f"{ind}    : PM ERat)"]
        if isinstance(st, ast.If):
            saved = dict(self.env)
            both = [n_ for n_ in top_assigned(st.body) if n_ in top_assigned(st.orelse)]
            names = [n_ for n_ in assigned(st.body + st.orelse) if n_ in saved or n_ in both]
            nt = self.none_test(st.test)
            if nt is not None:
                pname, is_none = nt
                none_body, some_body = (st.body, st.orelse) if is_none else (st.orelse, st.body)
                self.env = dict(saved)
                b_none = self.block(none_body, ind + "    ", names)
                env_none = self.env
                self.env = dict(saved)
                self.env[pname] = "src"
                b_some = self.block(some_body, ind + "    ", names)
                env_some = self.env
                self.merge_env(saved, [env_none, env_some], names, pname)
                tup = self.tuple_of(names)
                return ([f"{ind}let {tup} ← (match {pname} with", f"{ind}  | none => do"] + b_none + [f"{ind}    pure {tup}",
                        f"{ind}  | some {pname} => do"] + b_some + [f"{ind}    pure {tup})"])
            pc, c = self.truth(st.test, ind)
            if any(isinstance(s, ast.Raise) for s in st.body) and not st.orelse:
                if len(st.body) != 1:
                    raise Unsupported("raise with other statements")
                return pc + [f"{ind}if {c} then PyPM.fail \"{self.exc_name(st.body[0])}\" else"]
            self.env = dict(saved)
            b1 = self.block(st.body, ind + "  ", names)
            env1 = self.env
            self.env = dict(saved)
            b2 = self.block(st.orelse, ind + "  ", names) if st.orelse else []
            env2 = self.env
            self.merge_env(saved, [env1, env2], names, None)
            for n_ in names:
                if n_ not in env1 or n_ not in env2:
                    raise Unsupported(f"{n_} assigned in only one branch and not defined before: {src[:50]}")
            tup = self.tuple_of(names)
            return pc + [f"{ind}let {tup} ← (if {c} then do"] + b1 + [f"{ind}  pure {tup}", f"{ind}else do"] + b2 + [f"{ind}  pure {tup})"]
        if isinstance(st, ast.For) and isinstance(st.target, ast.Name) and not st.orelse:
            p, seq, k = self.expr(st.iter, ind)
            if k == "set":
                seq = f"(X.iter {seq})"
            elif k != "nodes":
                raise Unsupported("for over " + k)
            names = assigned(st.body)
            names = [n_ for n_ in names if n_ in self.env]          # loop-carried: defined before the loop
            if not names:
                raise Unsupported("loop without loop-carried state")
            saved = dict(self.env)
            self.env[st.target.id] = "node"
            body = self.block(st.body, ind + "  ", names)
            kinds = {n_: self.env[n_] for n_ in names}
            self.env = saved
            tup = self.tuple_of(names)
            ty = " × ".join(LEAN_TY[kinds[n_]] for n_ in names)
            return p + [f"{ind}let {tup} ← {seq}.foldlM (fun (acc : {ty}) ({st.target.id} : Node) => do",
                        f"{ind}  let {tup} := acc"] + body + [f"{ind}  pure {tup}) {tup}"]
        if isinstance(st, ast.While) and ast.unparse(st.test) == "True" and not st.orelse:
            # while True: x = draw; if cond(x): break      -> recursion on fuel returning x
            if len(st.body) != 2 or not isinstance(st.body[0], ast.Assign) or not isinstance(st.body[1], ast.If) \
                    or ast.unparse(st.body[1].body[0]) != "break" or st.body[1].orelse or len(st.body[1].body) != 1:
                raise Unsupported("while-True shape: " + src[:60])
            name = st.body[0].targets[0].id
            p, t, k = self.expr(st.body[0].value, ind + "    ")
            self.env[name] = k
            pc, c = self.truth(st.body[1].test, ind + "    ")
            return [f"{ind}let rec draw_{name} : Nat → PM {LEAN_TY[k]}", f"{ind}  | 0 => PyPM.fail \"fuel\"", f"{ind}  | fuel + 1 => do"] + p + \
                   [f"{ind}    let {name} := {t}"] + pc + [f"{ind}    if {c} then pure {name} else draw_{name} fuel",
                    f"{ind}let {name} ← draw_{name} 10000"]
        if isinstance(st, ast.Expr) and isinstance(st.value, ast.Call) and isinstance(st.value.func, ast.Attribute) \
                and isinstance(st.value.func.value, ast.Name) and self.env.get(st.value.func.value.id) == "dig":
            f, args, kws = st.value.func, st.value.args, st.value.keywords
            H = f.value.id
            if f.attr == "add_node" and len(args) == 1:
                p, a, k = self.expr(args[0], ind)
                attr = "none"
                if kws:
                    if len(kws) != 1 or kws[0].arg != "duration":
                        raise Unsupported(src)
                    p2, d, kd = self.expr(kws[0].value, ind)
                    if kd != "erat":
                        raise Unsupported(src)
                    p, attr = p + p2, f"(some {d})"
                if k != "node":
                    raise Unsupported(src)
                return p + [f"{ind}let {H} := {H}.addNode {a} {attr}"]
            if f.attr == "add_edge" and len(args) == 2:
                (pa, a, ka), (pb, b, kb) = self.expr(args[0], ind), self.expr(args[1], ind)
                attr, p = "none", pa + pb
                if kws:
                    if len(kws) != 1 or kws[0].arg != "delay_to_infection":
                        raise Unsupported(src)
                    p2, d, kd = self.expr(kws[0].value, ind)
                    if kd != "erat":
                        raise Unsupported(src)
                    p, attr = p + p2, f"(some {d})"
                if (ka, kb) != ("node", "node"):
                    raise Unsupported(src)
                return p + [f"{ind}let {H} := {H}.addEdge {a} {b} {attr}"]
            if f.attr == "remove_node" and len(args) == 1 and not kws:
                p, a, k = self.expr(args[0], ind)
                if k != "node":
                    raise Unsupported(src)
                return p + [f"{ind}let {H} ← PyPM.liftE ({H}.removeNode {a})"]
        raise Unsupported("statement " + src[:70])

    def merge_env(self, saved, envs, names, drop):
        self.env = dict(saved)
        for n_ in names:
            ks = {e_.get(n_) for e_ in envs if n_ in e_}
            if len(ks) != 1:
                raise Unsupported(f"{n_} has different kinds in the two branches: {ks}")
            self.env[n_] = ks.pop()

    def none_test(self, test):
        if isinstance(test, ast.Compare) and len(test.ops) == 1 and isinstance(test.ops[0], (ast.Is, ast.IsNot)) \
                and isinstance(test.comparators[0], ast.Constant) and test.comparators[0].value is None \
                and isinstance(test.left, ast.Name) and self.env.get(test.left.id) == "osrc":
            return test.left.id, isinstance(test.ops[0], ast.Is)
        return None

    def exc_name(self, st):
        s = ast.unparse(st.exc) if st.exc is not None else ""
        if s.startswith("EoN.EoNError("):
            return "EoNError"
        raise Unsupported("raise " + s[:40])

    def ret_block(self, stmts, ind):
        """a block whose last statement returns (or an if/else whose branches both return)"""
        out = []
        for i, st in enumerate(stmts):
            last = i == len(stmts) - 1
            if isinstance(st, ast.Return):
                if not last:
                    raise Unsupported("return before the end")
                p, t, k = self.expr(st.value, ind)
                out += p + [f"{ind}pure {t}"]
                self.ret_kind = k
                return out
            if last and isinstance(st, ast.If) and st.orelse and isinstance(st.body[-1], ast.Return) and isinstance(st.orelse[-1], ast.Return):
                pc, c = self.truth(st.test, ind)
                saved = dict(self.env)
                b1 = self.ret_block(st.body, ind + "  ")
                self.env = dict(saved)
                b2 = self.ret_block(st.orelse, ind + "  ")
                self.env = saved
                return out + pc + [f"{ind}if {c} then do"] + b1 + [f"{ind}else do"] + b2
            if isinstance(st, ast.If) and nt_chain(self, st):
                out += self.none_chain(st, ind)
                continue
            out += self.stmt(st, ind)
        raise Unsupported("function does not end with return")

    def none_chain(self, st, ind):
        """if X is None: … elif G.has_node(X): … else: …   (normalisation of an optional node-or-iterable argument)"""
        pname = st.test.left.id
        saved = dict(self.env)
        both = [n_ for n_ in top_assigned(st.body) if n_ in top_assigned(st.orelse)]
        names = [n_ for n_ in assigned(st.body + st.orelse) if n_ in saved or n_ in both]
        self.env = dict(saved)
        b_none = self.block(st.body, ind + "    ", names)
        env_none = self.env
        self.env = dict(saved)
        self.env[pname] = "src"
        b_some = self.block(st.orelse, ind + "    ", names)
        env_some = self.env
        # after the normalisation the parameter name holds a set
        self.merge_env(saved, [env_none, env_some], names, None)
        tup = self.tuple_of(names)
        return ([f"{ind}let {tup} ← (match {pname} with", f"{ind}  | none => do"] + b_none + [f"{ind}    pure {tup}",
                f"{ind}  | some {pname} => do"] + b_some + [f"{ind}    pure {tup})"])

    def emit(self):
        body = [s for s in self.node.body if not (isinstance(s, ast.Expr) and isinstance(s.value, ast.Constant))]
        got = [a.arg for a in self.node.args.args]
        if got != [p for p, _ in self.params]:
            raise Unsupported(f"signature changed: {got}")
        binders = []
        for p, k in self.params:
            if k == "args":
                self.env[p] = "args"
                continue
            self.env[p] = k
            binders.append(f"({p} : {LEAN_TY[k]})")
        lines = self.ret_block(body, "  ")
        if self.ret_kind != self.ret and not (self.ret == "set" and self.ret_kind == "set"):
            raise Unsupported(f"returns {self.ret_kind}, expected {self.ret}")
        head = (f"/-- generated from `{self.node.name}` (EoN/simulation.py:{self.node.lineno}) -/\n"
                f"def {self.lean_name} (X : NX) {' '.join(binders)} : PM ({LEAN_TY[self.ret]}) := do\n")
        return head + "\n".join(lines) + "\n", ast.unparse(self.node)


def nt_chain(fn, st):
    return isinstance(st.test, ast.Compare) and len(st.test.ops) == 1 and isinstance(st.test.ops[0], ast.Is) \
        and isinstance(st.test.left, ast.Name) and fn.env.get(st.test.left.id) == "osrc" and bool(st.orelse)


HEADER = '''import EoNVerif.Gen.PyPM
import EoNVerif.Gen.DiscreteGen
/-!
GENERATED by harness/pyperc2lean.py from the percolation builders and estimators of EoN/simulation.py — do not edit;
regenerated on every check run.   source sha1: {sha}
-/
open PyDM PyPM

namespace GenPerc

'''


def translate(repo=REPO):
    src = open(os.path.join(repo, "EoN", "simulation.py")).read()
    tree = ast.parse(src)
    fns = {n.name: n for n in tree.body if isinstance(n, ast.FunctionDef)}
    errors, parts, srcs = {}, [], []
    for name in ORDER:
        try:
            text, s = Fn(fns[name], fns).emit()
            parts.append(text)
            srcs.append(s)
        except (Unsupported, KeyError) as ex:
            errors[name] = f"unsupported: {ex}"
    sha = hashlib.sha1("\n".join(srcs).encode()).hexdigest()
    return HEADER.format(sha=sha) + "\n".join(parts) + "\nend GenPerc\n", errors


def regenerate():
    import warnings
    target = os.path.join(os.path.dirname(os.path.abspath(__file__)), "..", "lean", "EoNVerif", "Gen", "PercGen.lean")
    with warnings.catch_warnings():
        warnings.simplefilter("ignore")
        text, errors = translate()
    old = open(target).read() if os.path.exists(target) else None
    if text and not errors and old != text:
        tmp = target + ".tmp%d" % os.getpid()
        with open(tmp, "w") as f:
            f.write(text)
        os.replace(tmp, target)
    return (old != text and not errors), errors


def main():
    changed, errors = regenerate()
    print("pyperc2lean: Gen/PercGen.lean %s" % ("rewritten" if changed else "up to date"))
    for n, e in errors.items():
        print(f"pyperc2lean: {n}: {e}")
    return 1 if errors else 0


if __name__ == "__main__":
    sys.exit(main())
